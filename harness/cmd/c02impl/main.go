// C02IMPL correspondence harness: runs zrnt's exported epoch sub-transition functions (with their intermediate
// results) on small random states biased to the interesting shapes, and prints each observation as a case of
// coq/Beacon/Refine/ImplRun.v (impl_ok: Go = Impl model; spec_ok: Go = Spec function).
package main

import (
	"bytes"
	"context"
	"fmt"
	"strings"
	. "verifharness/hx"

	"github.com/protolambda/zrnt/eth2/beacon/altair"
	"github.com/protolambda/zrnt/eth2/beacon/bellatrix"
	"github.com/protolambda/zrnt/eth2/beacon/capella"
	"github.com/protolambda/zrnt/eth2/beacon/common"
	"github.com/protolambda/zrnt/eth2/beacon/deneb"
	"github.com/protolambda/zrnt/eth2/beacon/phase0"
	"github.com/protolambda/zrnt/eth2/configs"
	"github.com/protolambda/ztyp/codec"
	"github.com/protolambda/ztyp/view"
)

func main() { Main("C02IMPL", run) }

const FAR = ^uint64(0)
const ETH = uint64(1000000000)

// ---- configuration: mirrors run_num of ImplRun.v ----
type Knobs [12]uint64

func mkSpec(p Knobs) *common.Spec {
	c := *configs.Minimal
	s := &c
	s.MIN_PER_EPOCH_CHURN_LIMIT = view.Uint64View(p[0])
	s.CHURN_LIMIT_QUOTIENT = view.Uint64View(p[1])
	s.MAX_PER_EPOCH_ACTIVATION_CHURN_LIMIT = view.Uint64View(p[2])
	s.MAX_SEED_LOOKAHEAD = common.Epoch(p[3])
	s.EJECTION_BALANCE = common.Gwei(p[4])
	s.MIN_VALIDATOR_WITHDRAWABILITY_DELAY = common.Epoch(p[5])
	s.BASE_REWARD_FACTOR = view.Uint64View(p[6])
	s.INACTIVITY_SCORE_BIAS = view.Uint64View(p[7])
	s.INACTIVITY_SCORE_RECOVERY_RATE = view.Uint64View(p[8])
	s.MIN_EPOCHS_TO_INACTIVITY_PENALTY = common.Epoch(p[9])
	s.EPOCHS_PER_ETH1_VOTING_PERIOD = common.Epoch(p[10])
	s.INACTIVITY_PENALTY_QUOTIENT = view.Uint64View(p[11])
	s.INACTIVITY_PENALTY_QUOTIENT_ALTAIR = view.Uint64View(p[11])
	s.INACTIVITY_PENALTY_QUOTIENT_BELLATRIX = view.Uint64View(p[11])
	s.HYSTERESIS_QUOTIENT = 4
	s.HYSTERESIS_DOWNWARD_MULTIPLIER = 1
	s.HYSTERESIS_UPWARD_MULTIPLIER = 5
	s.MAX_EFFECTIVE_BALANCE = common.Gwei(32 * ETH)
	s.EFFECTIVE_BALANCE_INCREMENT = common.Gwei(ETH)
	s.SLOTS_PER_EPOCH = 4
	s.MIN_SEED_LOOKAHEAD = 1
	s.SLOTS_PER_HISTORICAL_ROOT = 16
	s.EPOCHS_PER_HISTORICAL_VECTOR = 16
	s.EPOCHS_PER_SLASHINGS_VECTOR = 8
	s.HISTORICAL_ROOTS_LIMIT = 16777216
	s.VALIDATOR_REGISTRY_LIMIT = 1099511627776
	s.PROPOSER_REWARD_QUOTIENT = 8
	s.PROPORTIONAL_SLASHING_MULTIPLIER = 1
	s.PROPORTIONAL_SLASHING_MULTIPLIER_ALTAIR = 2
	s.PROPORTIONAL_SLASHING_MULTIPLIER_BELLATRIX = 3
	s.EPOCHS_PER_SYNC_COMMITTEE_PERIOD = 8
	s.SHUFFLE_ROUND_COUNT = 2
	s.MAX_COMMITTEES_PER_SLOT = 4
	s.TARGET_COMMITTEE_SIZE = 4
	return s
}

// ---- small states ----
type MV struct {
	Eff                 uint64
	Slashed             bool
	Elig, Act, Exit, Wd uint64
}
type CP struct {
	Epoch uint64
	B     byte
}
type Mini struct {
	Fork         int // 0 phase0 .. 4 deneb
	Slot         uint64
	Vals         []MV
	Bals         []uint64
	PP, CPart    []uint8
	Scores       []uint64
	Slash        []uint64
	Bits         uint8
	PJ, CJ, Fin  CP
	Votes        int
	Hist         int
	PAtts, CAtts []Pend
	Comms        []Comm
}

// a pending attestation of a phase0 state
type Pend struct {
	Bits            []bool
	Slot, Index     uint64
	BBR             byte
	Src, Tgt        uint64
	TgtRoot         byte
	Delay, Proposer uint64
}
type Comm struct {
	Slot, Index uint64
	Members     []uint64
}

func bitlist(bits []bool) phase0.AttestationBits {
	out := make(phase0.AttestationBits, len(bits)/8+1)
	for i, b := range bits {
		if b {
			out[i/8] |= 1 << uint(i%8)
		}
	}
	out[len(bits)/8] |= 1 << uint(len(bits)%8)
	return out
}
func pendList(ps []Pend) phase0.PendingAttestations {
	out := make(phase0.PendingAttestations, len(ps))
	for i, a := range ps {
		out[i] = &phase0.PendingAttestation{AggregationBits: bitlist(a.Bits),
			Data: phase0.AttestationData{Slot: common.Slot(a.Slot), Index: common.CommitteeIndex(a.Index), BeaconBlockRoot: patt(a.BBR),
				Source: common.Checkpoint{Epoch: common.Epoch(a.Src), Root: patt(0)}, Target: common.Checkpoint{Epoch: common.Epoch(a.Tgt), Root: patt(a.TgtRoot)}},
			InclusionDelay: common.Slot(a.Delay), ProposerIndex: common.ValidatorIndex(a.Proposer)}
	}
	return out
}

var forkNames = []string{"Phase0", "Altair", "Bellatrix", "Capella", "Deneb"}

func patt(b byte) (r common.Root) {
	for i := range r {
		r[i] = b
	}
	return
}

func cpOf(c CP) common.Checkpoint {
	return common.Checkpoint{Epoch: common.Epoch(c.Epoch), Root: patt(c.B)}
}

type rawState interface {
	Serialize(spec *common.Spec, w *codec.EncodingWriter) error
}

// buildState fills the raw struct of the fork, serializes it and loads the tree-backed view.
func buildState(spec *common.Spec, m *Mini) (common.BeaconState, error) {
	vals := make(phase0.ValidatorRegistry, len(m.Vals))
	for i, v := range m.Vals {
		var pk common.BLSPubkey
		for j := range pk {
			pk[j] = byte(i)
		}
		vals[i] = &phase0.Validator{Pubkey: pk, EffectiveBalance: common.Gwei(v.Eff), Slashed: v.Slashed,
			ActivationEligibilityEpoch: common.Epoch(v.Elig), ActivationEpoch: common.Epoch(v.Act),
			ExitEpoch: common.Epoch(v.Exit), WithdrawableEpoch: common.Epoch(v.Wd)}
	}
	bals := make(phase0.Balances, len(m.Bals))
	for i, b := range m.Bals {
		bals[i] = common.Gwei(b)
	}
	br := make(phase0.HistoricalBatchRoots, 16)
	sr := make(phase0.HistoricalBatchRoots, 16)
	mixes := make(phase0.RandaoMixes, 16)
	for i := 0; i < 16; i++ {
		br[i] = patt(byte(i + 1))
		sr[i] = patt(byte(i + 101))
		mixes[i] = patt(byte(i + 31))
	}
	sl := make(phase0.SlashingsHistory, 8)
	for i := range sl {
		sl[i] = common.Gwei(m.Slash[i])
	}
	votes := make(phase0.Eth1DataVotes, m.Votes)
	hist := make(phase0.HistoricalRoots, 0)
	if m.Fork < 3 {
		for i := 0; i < m.Hist; i++ {
			hist = append(hist, patt(byte(i+201)))
		}
	}
	pp := make(altair.ParticipationRegistry, len(m.PP))
	cp := make(altair.ParticipationRegistry, len(m.CPart))
	for i := range m.PP {
		pp[i] = altair.ParticipationFlags(m.PP[i])
	}
	for i := range m.CPart {
		cp[i] = altair.ParticipationFlags(m.CPart[i])
	}
	scores := make(altair.InactivityScores, len(m.Scores))
	for i, s := range m.Scores {
		scores[i] = view.Uint64View(s)
	}
	sums := make(capella.HistoricalSummaries, 0)
	if m.Fork >= 3 {
		for i := 0; i < m.Hist; i++ {
			sums = append(sums, capella.HistoricalSummary{BlockSummaryRoot: patt(byte(i + 201)), StateSummaryRoot: patt(byte(i + 151))})
		}
	}
	fork := common.Fork{PreviousVersion: common.Version{0, 0, 0, 1}, CurrentVersion: common.Version{0, 0, 0, 1}}
	sc := common.SyncCommittee{Pubkeys: make([]common.BLSPubkey, spec.SYNC_COMMITTEE_SIZE)}
	var buf bytes.Buffer
	w := codec.NewEncodingWriter(&buf)
	var err error
	switch m.Fork {
	case 0:
		s := &phase0.BeaconState{Slot: common.Slot(m.Slot), Fork: fork, BlockRoots: br, StateRoots: sr, HistoricalRoots: hist,
			Eth1DataVotes: votes, Validators: vals, Balances: bals, RandaoMixes: mixes, Slashings: sl,
			PreviousEpochAttestations: pendList(m.PAtts), CurrentEpochAttestations: pendList(m.CAtts),
			JustificationBits: common.JustificationBits{m.Bits}, PreviousJustifiedCheckpoint: cpOf(m.PJ),
			CurrentJustifiedCheckpoint: cpOf(m.CJ), FinalizedCheckpoint: cpOf(m.Fin)}
		err = s.Serialize(spec, w)
	case 1:
		s := &altair.BeaconState{Slot: common.Slot(m.Slot), Fork: fork, BlockRoots: br, StateRoots: sr, HistoricalRoots: hist,
			Eth1DataVotes: votes, Validators: vals, Balances: bals, RandaoMixes: mixes, Slashings: sl,
			PreviousEpochParticipation: pp, CurrentEpochParticipation: cp,
			JustificationBits: common.JustificationBits{m.Bits}, PreviousJustifiedCheckpoint: cpOf(m.PJ),
			CurrentJustifiedCheckpoint: cpOf(m.CJ), FinalizedCheckpoint: cpOf(m.Fin), InactivityScores: scores,
			CurrentSyncCommittee: sc, NextSyncCommittee: sc}
		err = s.Serialize(spec, w)
	case 2:
		s := &bellatrix.BeaconState{Slot: common.Slot(m.Slot), Fork: fork, BlockRoots: br, StateRoots: sr, HistoricalRoots: hist,
			Eth1DataVotes: votes, Validators: vals, Balances: bals, RandaoMixes: mixes, Slashings: sl,
			PreviousEpochParticipation: pp, CurrentEpochParticipation: cp,
			JustificationBits: common.JustificationBits{m.Bits}, PreviousJustifiedCheckpoint: cpOf(m.PJ),
			CurrentJustifiedCheckpoint: cpOf(m.CJ), FinalizedCheckpoint: cpOf(m.Fin), InactivityScores: scores,
			CurrentSyncCommittee: sc, NextSyncCommittee: sc}
		err = s.Serialize(spec, w)
	case 3:
		s := &capella.BeaconState{Slot: common.Slot(m.Slot), Fork: fork, BlockRoots: br, StateRoots: sr, HistoricalRoots: hist,
			Eth1DataVotes: votes, Validators: vals, Balances: bals, RandaoMixes: mixes, Slashings: sl,
			PreviousEpochParticipation: pp, CurrentEpochParticipation: cp,
			JustificationBits: common.JustificationBits{m.Bits}, PreviousJustifiedCheckpoint: cpOf(m.PJ),
			CurrentJustifiedCheckpoint: cpOf(m.CJ), FinalizedCheckpoint: cpOf(m.Fin), InactivityScores: scores,
			CurrentSyncCommittee: sc, NextSyncCommittee: sc, HistoricalSummaries: sums}
		err = s.Serialize(spec, w)
	default:
		s := &deneb.BeaconState{Slot: common.Slot(m.Slot), Fork: fork, BlockRoots: br, StateRoots: sr, HistoricalRoots: hist,
			Eth1DataVotes: votes, Validators: vals, Balances: bals, RandaoMixes: mixes, Slashings: sl,
			PreviousEpochParticipation: pp, CurrentEpochParticipation: cp,
			JustificationBits: common.JustificationBits{m.Bits}, PreviousJustifiedCheckpoint: cpOf(m.PJ),
			CurrentJustifiedCheckpoint: cpOf(m.CJ), FinalizedCheckpoint: cpOf(m.Fin), InactivityScores: scores,
			CurrentSyncCommittee: sc, NextSyncCommittee: sc, HistoricalSummaries: sums}
		err = s.Serialize(spec, w)
	}
	if err != nil {
		return nil, err
	}
	data := buf.Bytes()
	dr := codec.NewDecodingReader(bytes.NewReader(data), uint64(len(data)))
	switch m.Fork {
	case 0:
		return phase0.AsBeaconStateView(phase0.BeaconStateType(spec).Deserialize(dr))
	case 1:
		return altair.AsBeaconStateView(altair.BeaconStateType(spec).Deserialize(dr))
	case 2:
		return bellatrix.AsBeaconStateView(bellatrix.BeaconStateType(spec).Deserialize(dr))
	case 3:
		return capella.AsBeaconStateView(capella.BeaconStateType(spec).Deserialize(dr))
	default:
		return deneb.AsBeaconStateView(deneb.BeaconStateType(spec).Deserialize(dr))
	}
}

// ---- observation of a state ----
type Obs struct {
	Vals          []MV
	Bals          []uint64
	PP, CPart     []uint8
	Scores, Slash []uint64
	Bits          uint8
	PJ, CJ, Fin   common.Checkpoint
	Votes         int
	Mixes         []byte
	Hist          []common.Root
}

func observe(spec *common.Spec, fork int, st common.BeaconState) (*Obs, error) {
	o := &Obs{}
	var vals phase0.ValidatorRegistry
	var bals phase0.Balances
	var mixes phase0.RandaoMixes
	var sl phase0.SlashingsHistory
	var pp, cp altair.ParticipationRegistry
	var scores altair.InactivityScores
	var votes phase0.Eth1DataVotes
	var hist phase0.HistoricalRoots
	var sums capella.HistoricalSummaries
	switch s := st.(type) {
	case *phase0.BeaconStateView:
		r, err := s.Raw(spec)
		if err != nil {
			return nil, err
		}
		vals, bals, mixes, sl, votes, hist = r.Validators, r.Balances, r.RandaoMixes, r.Slashings, r.Eth1DataVotes, r.HistoricalRoots
		o.Bits, o.PJ, o.CJ, o.Fin = r.JustificationBits[0], r.PreviousJustifiedCheckpoint, r.CurrentJustifiedCheckpoint, r.FinalizedCheckpoint
	case *altair.BeaconStateView:
		r, err := s.Raw(spec)
		if err != nil {
			return nil, err
		}
		vals, bals, mixes, sl, votes, hist = r.Validators, r.Balances, r.RandaoMixes, r.Slashings, r.Eth1DataVotes, r.HistoricalRoots
		pp, cp, scores = r.PreviousEpochParticipation, r.CurrentEpochParticipation, r.InactivityScores
		o.Bits, o.PJ, o.CJ, o.Fin = r.JustificationBits[0], r.PreviousJustifiedCheckpoint, r.CurrentJustifiedCheckpoint, r.FinalizedCheckpoint
	case *bellatrix.BeaconStateView:
		r, err := s.Raw(spec)
		if err != nil {
			return nil, err
		}
		vals, bals, mixes, sl, votes, hist = r.Validators, r.Balances, r.RandaoMixes, r.Slashings, r.Eth1DataVotes, r.HistoricalRoots
		pp, cp, scores = r.PreviousEpochParticipation, r.CurrentEpochParticipation, r.InactivityScores
		o.Bits, o.PJ, o.CJ, o.Fin = r.JustificationBits[0], r.PreviousJustifiedCheckpoint, r.CurrentJustifiedCheckpoint, r.FinalizedCheckpoint
	case *capella.BeaconStateView:
		r, err := s.Raw(spec)
		if err != nil {
			return nil, err
		}
		vals, bals, mixes, sl, votes, sums = r.Validators, r.Balances, r.RandaoMixes, r.Slashings, r.Eth1DataVotes, r.HistoricalSummaries
		pp, cp, scores = r.PreviousEpochParticipation, r.CurrentEpochParticipation, r.InactivityScores
		o.Bits, o.PJ, o.CJ, o.Fin = r.JustificationBits[0], r.PreviousJustifiedCheckpoint, r.CurrentJustifiedCheckpoint, r.FinalizedCheckpoint
	case *deneb.BeaconStateView:
		r, err := s.Raw(spec)
		if err != nil {
			return nil, err
		}
		vals, bals, mixes, sl, votes, sums = r.Validators, r.Balances, r.RandaoMixes, r.Slashings, r.Eth1DataVotes, r.HistoricalSummaries
		pp, cp, scores = r.PreviousEpochParticipation, r.CurrentEpochParticipation, r.InactivityScores
		o.Bits, o.PJ, o.CJ, o.Fin = r.JustificationBits[0], r.PreviousJustifiedCheckpoint, r.CurrentJustifiedCheckpoint, r.FinalizedCheckpoint
	default:
		return nil, fmt.Errorf("unknown state type %T", st)
	}
	for _, v := range vals {
		o.Vals = append(o.Vals, MV{uint64(v.EffectiveBalance), v.Slashed, uint64(v.ActivationEligibilityEpoch),
			uint64(v.ActivationEpoch), uint64(v.ExitEpoch), uint64(v.WithdrawableEpoch)})
	}
	for _, b := range bals {
		o.Bals = append(o.Bals, uint64(b))
	}
	for _, x := range pp {
		o.PP = append(o.PP, uint8(x))
	}
	for _, x := range cp {
		o.CPart = append(o.CPart, uint8(x))
	}
	for _, x := range scores {
		o.Scores = append(o.Scores, uint64(x))
	}
	for _, x := range sl {
		o.Slash = append(o.Slash, uint64(x))
	}
	o.Votes = len(votes)
	for _, x := range mixes {
		o.Mixes = append(o.Mixes, x[0])
	}
	if fork >= 3 {
		for _, x := range sums {
			o.Hist = append(o.Hist, x.BlockSummaryRoot)
		}
		for _, x := range sums {
			o.Hist = append(o.Hist, x.StateSummaryRoot)
		}
	} else {
		o.Hist = hist
	}
	return o, nil
}

// ---- Coq printing ----
func u64s(xs []uint64) string {
	it := make([]string, len(xs))
	for i, x := range xs {
		it[i] = fmt.Sprintf("%d", x)
	}
	return CoqList(it)
}
func u8s(xs []uint8) string {
	it := make([]string, len(xs))
	for i, x := range xs {
		it[i] = fmt.Sprintf("%d", x)
	}
	return CoqList(it)
}
func coqMV(v MV) string {
	return fmt.Sprintf("mkFlat %d %s %d %d %d %d", v.Eff, CoqBool(v.Slashed), v.Elig, v.Act, v.Exit, v.Wd)
}
func coqMVs(vs []MV) string {
	it := make([]string, len(vs))
	for i, v := range vs {
		it[i] = coqMV(v)
	}
	return CoqList(it)
}
func coqKnobs(p Knobs) string { return u64s(p[:]) }
func coqMini(m *Mini) string {
	return fmt.Sprintf("(mkMini %s %d %s %s %s %s %s %s %d (%d,%d) (%d,%d) (%d,%d) %d %d %s %s %s)", forkNames[m.Fork], m.Slot,
		coqMVs(m.Vals), u64s(m.Bals), u8s(m.PP), u8s(m.CPart), u64s(m.Scores), u64s(m.Slash), m.Bits,
		m.PJ.Epoch, m.PJ.B, m.CJ.Epoch, m.CJ.B, m.Fin.Epoch, m.Fin.B, m.Votes, m.Hist, coqPends(m.PAtts), coqPends(m.CAtts), coqComms(m.Comms))
}
func coqPends(ps []Pend) string {
	it := make([]string, len(ps))
	for i, a := range ps {
		bs := make([]string, len(a.Bits))
		for j, b := range a.Bits {
			bs[j] = CoqBool(b)
		}
		it[i] = fmt.Sprintf("mkPend %s %d %d %d %d %d %d %d %d", CoqList(bs), a.Slot, a.Index, a.BBR, a.Src, a.Tgt, a.TgtRoot, a.Delay, a.Proposer)
	}
	return CoqList(it)
}
func coqComms(cs []Comm) string {
	it := make([]string, len(cs))
	for i, c := range cs {
		it[i] = fmt.Sprintf("(%d, %d, %s)", c.Slot, c.Index, u64s(c.Members))
	}
	return CoqList(it)
}
func coqIdx(xs []common.ValidatorIndex) string {
	it := make([]string, len(xs))
	for i, x := range xs {
		it[i] = fmt.Sprintf("%d", uint64(x))
	}
	return CoqList(it)
}
func coqEpc(e *common.EpochsContext) string {
	return fmt.Sprintf("(mkEpcView %d %d %d %s %s %d %d)", uint64(e.PreviousEpoch.Epoch), uint64(e.CurrentEpoch.Epoch),
		uint64(e.NextEpoch.Epoch), coqIdx(e.PreviousEpoch.ActiveIndices), coqIdx(e.CurrentEpoch.ActiveIndices),
		uint64(e.TotalActiveStake), uint64(e.TotalActiveStakeSqRoot))
}
func coqRoot(r common.Root) string {
	if r == patt(r[0]) {
		return fmt.Sprintf("patt %d", r[0])
	}
	return CoqBytes(r[:])
}
func coqCP(c common.Checkpoint) string {
	return fmt.Sprintf("(%d, %s)", uint64(c.Epoch), coqRoot(c.Root))
}
func coqObs(o *Obs) string {
	h := make([]string, len(o.Hist))
	for i, r := range o.Hist {
		h[i] = coqRoot(r)
	}
	mx := make([]uint8, len(o.Mixes))
	copy(mx, o.Mixes)
	return fmt.Sprintf("(mkObs %s %s %s %s %s %s %d %s %s %s %d %s %s)", coqMVs(o.Vals), u64s(o.Bals), u8s(o.PP), u8s(o.CPart),
		u64s(o.Scores), u64s(o.Slash), o.Bits, coqCP(o.PJ), coqCP(o.CJ), coqCP(o.Fin), o.Votes, u8s(mx), CoqList(h))
}
func goRes(body string, err error, panicked bool) string {
	if panicked {
		return "GoPanic"
	}
	if err != nil {
		return "GoErr"
	}
	return "(GoOk " + body + ")"
}

// ---- random generation ----
func genKnobs(r *Rng) Knobs {
	var p Knobs
	p[0] = uint64([]int{1, 2, 2, 3, 4}[r.Intn(5)])        // MIN_PER_EPOCH_CHURN_LIMIT
	p[1] = uint64([]int{2, 4, 4, 8, 32}[r.Intn(5)])       // CHURN_LIMIT_QUOTIENT (small: the quotient part matters for 8 validators)
	p[2] = uint64([]int{1, 2, 3, 8}[r.Intn(4)])           // MAX_PER_EPOCH_ACTIVATION_CHURN_LIMIT
	p[3] = uint64([]int{1, 2, 4}[r.Intn(3)])              // MAX_SEED_LOOKAHEAD
	p[4] = uint64([]int{16, 16, 20, 31}[r.Intn(4)]) * ETH // EJECTION_BALANCE
	p[5] = uint64([]int{1, 4, 256}[r.Intn(3)])            // MIN_VALIDATOR_WITHDRAWABILITY_DELAY
	p[6] = uint64([]int{64, 64, 1024, 16384}[r.Intn(4)])  // BASE_REWARD_FACTOR
	p[7] = uint64([]int{1, 4, 4}[r.Intn(3)])              // INACTIVITY_SCORE_BIAS
	p[8] = uint64([]int{1, 16, 16}[r.Intn(3)])            // INACTIVITY_SCORE_RECOVERY_RATE
	p[9] = uint64([]int{1, 2, 4}[r.Intn(3)])              // MIN_EPOCHS_TO_INACTIVITY_PENALTY
	p[10] = uint64([]int{1, 2, 4}[r.Intn(3)])             // EPOCHS_PER_ETH1_VOTING_PERIOD
	p[11] = uint64([]int{16, 1024, 1 << 24}[r.Intn(3)])   // INACTIVITY_PENALTY_QUOTIENT*
	return p
}

func around(r *Rng, x uint64, d int) uint64 {
	v := int64(x) + int64(r.Intn(2*d+1)) - int64(d)
	if v < 0 {
		return 0
	}
	return uint64(v)
}

func genMini(r *Rng, p Knobs, fork int) *Mini {
	m := &Mini{Fork: fork}
	ce := uint64(r.Intn(12))
	if r.Chance(70) {
		ce = uint64(2 + r.Intn(10))
	}
	m.Slot = (ce+1)*4 - 1
	if r.Chance(10) {
		m.Slot = ce*4 + uint64(r.Intn(4))
	}
	fin := uint64(0)
	if ce > 0 {
		fin = around(r, ce-1, 2)
		if fin > ce {
			fin = ce
		}
		if ce >= 1 && fin > ce-1 && r.Chance(80) {
			fin = ce - 1
		}
	}
	if r.Chance(15) && ce > 4 {
		fin = uint64(r.Intn(int(ce - 3))) // long leak
	}
	m.Fin = CP{fin, byte(1 + r.Intn(200))}
	cj := fin + uint64(r.Intn(3))
	if cj > ce {
		cj = ce
	}
	pj := fin + uint64(r.Intn(2))
	if pj > cj {
		pj = cj
	}
	// shapes that let the finalization rules fire
	if r.Chance(40) && ce >= 3 {
		switch r.Intn(4) {
		case 0:
			pj = ce - 3
		case 1:
			pj = ce - 2
		case 2:
			cj = ce - 2
		case 3:
			cj = ce - 1
		}
	}
	m.PJ = CP{pj, byte(1 + r.Intn(200))}
	m.CJ = CP{cj, byte(1 + r.Intn(200))}
	m.Bits = uint8(r.Intn(16))
	m.Votes = r.Intn(5)
	m.Hist = r.Intn(3)
	n := 3 + r.Intn(6)
	aee := ce + 1 + p[3]
	exitBase := aee + uint64(r.Intn(3))
	for i := 0; i < n; i++ {
		v := MV{Eff: 32 * ETH, Elig: 0, Act: 0, Exit: FAR, Wd: FAR}
		switch k := r.Intn(100); {
		case k < 30: // plain active
			if r.Chance(30) {
				v.Act = around(r, ce, 1) // activated around now (active in current but maybe not previous epoch)
				v.Elig = v.Act / 2
			}
		case k < 45: // exiting: several exit epochs, counts at/below/above the churn limit
			v.Exit = exitBase + uint64(r.Intn(3))
			if r.Chance(25) {
				v.Exit = around(r, ce, 1) + uint64(r.Intn(2)) // exits around now
			}
			v.Wd = v.Exit + p[5]
		case k < 60: // low balance: ejectable
			v.Eff = around(r, p[4]/ETH, 1) * ETH
			if r.Chance(20) {
				v.Exit = exitBase
				v.Wd = v.Exit + p[5]
			}
		case k < 70: // fresh deposit: not yet eligible
			v.Elig, v.Act = FAR, FAR
			if r.Chance(30) {
				v.Eff = 31 * ETH
			}
		case k < 85: // waiting for activation, eligibility around the finalized epoch
			v.Elig, v.Act = around(r, fin, 2), FAR
		case k < 95: // slashed
			v.Slashed = true
			v.Exit = around(r, ce, 2)
			v.Wd = ce + 4 + uint64(r.Intn(2)) // EPOCHS_PER_SLASHINGS_VECTOR/2 = 4: half of them are penalised now
			if r.Chance(30) {
				v.Wd = around(r, ce, 2)
			}
			v.Eff = uint64(1+r.Intn(32)) * ETH
		default: // exited and withdrawable
			v.Exit = uint64(r.Intn(int(ce + 1)))
			v.Wd = v.Exit + uint64(r.Intn(3))
		}
		// an emptied validator (fully withdrawn, or penalised to nothing): effective balance 0, where a
		// hysteresis test written with an unsigned subtraction would wrap
		if r.Chance(8) {
			v.Eff = 0
		}
		m.Vals = append(m.Vals, v)
		// balances around the hysteresis thresholds of the effective balance (down 0.25, up 1.25)
		b := v.Eff
		switch r.Intn(9) {
		case 8:
			b = ETH + uint64(r.Intn(int(ETH/4)+3)) - 1 // 1 ETH .. 1.25 ETH: the upward threshold of effective balance 0
		case 0:
			b = v.Eff - ETH/4 - uint64(r.Intn(3)) + 1
		case 1:
			b = v.Eff + ETH + ETH/4 + uint64(r.Intn(3)) - 1
		case 2:
			b = uint64(r.Intn(40)) * ETH / 2
		case 3:
			b = uint64(r.Intn(5000000)) // nearly empty: penalties saturate
		case 4:
			b = v.Eff + uint64(r.Intn(int(ETH)))
		}
		if int64(b) < 0 {
			b = 0
		}
		m.Bals = append(m.Bals, b)
		m.PP = append(m.PP, uint8(r.Intn(8)))
		m.CPart = append(m.CPart, uint8(r.Intn(8)))
		sc := uint64(r.Intn(40))
		if r.Chance(15) {
			sc = uint64(r.Intn(1 << 20))
		}
		m.Scores = append(m.Scores, sc)
	}
	// exit queue whose last epoch is partially filled while earlier epochs hold more exits (the churn counter must
	// restart at the later epoch), plus an ejectable validator
	if r.Chance(30) && n >= 4 {
		limit := int(p[0])
		e1 := aee + uint64(r.Intn(2))
		e2 := e1 + 1 + uint64(r.Intn(2))
		k2 := r.Intn(limit)          // < limit at the queue end
		k1 := limit - k2 + r.Intn(2) // enough earlier exits to reach the limit in total
		j := 0
		for ; j < n-1 && k1 > 0; j++ {
			m.Vals[j] = MV{Eff: 32 * ETH, Elig: 0, Act: 0, Exit: e1, Wd: e1 + p[5]}
			k1--
		}
		for ; j < n-1 && k2 > 0; j++ {
			m.Vals[j] = MV{Eff: 32 * ETH, Elig: 0, Act: 0, Exit: e2, Wd: e2 + p[5]}
			k2--
		}
		m.Vals[n-1] = MV{Eff: p[4], Elig: 0, Act: 0, Exit: FAR, Wd: FAR} // at the ejection balance
		for j := 0; j < n; j++ {
			m.Bals[j] = m.Vals[j].Eff
		}
	}
	// activation burst: more validators eligible for activation than the (activation) churn limit lets through,
	// eligibility epochs on both sides of the finalized epoch
	if (r.Chance(25) || (fork == 4 && r.Chance(50))) && n >= 5 {
		k := 2 + r.Intn(n-3)
		for j := 0; j < k; j++ {
			el := fin
			switch r.Intn(4) {
			case 0:
				el = fin + 1
			case 1:
				if fin > 0 {
					el = fin - 1
				}
			}
			m.Vals[n-1-j] = MV{Eff: 32 * ETH, Elig: el, Act: FAR, Exit: FAR, Wd: FAR}
			m.Bals[n-1-j] = 32 * ETH
		}
	}
	if r.Chance(50) { // full participation
		for i := range m.PP {
			if r.Chance(85) {
				m.PP[i] = 7
			}
			if r.Chance(85) {
				m.CPart[i] = 7
			}
		}
	}
	m.Slash = make([]uint64, 8)
	for i := range m.Slash {
		if r.Chance(40) {
			m.Slash[i] = uint64(r.Intn(64)) * ETH
		}
	}
	return m
}

// pending attestations over zrnt's own committees: mostly well-formed (bits as long as the committee, slot before the
// state's slot, delay >= 1), with right and wrong target / head roots
func genAtts(r *Rng, spec *common.Spec, epc *common.EpochsContext, m *Mini) {
	n := uint64(len(m.Vals))
	ce := uint64(epc.CurrentEpoch.Epoch)
	seen := map[[2]uint64]bool{}
	gen := func(sh *common.ShufflingEpoch, e uint64) []Pend {
		var out []Pend
		k := r.Intn(7)
		for j := 0; j < k; j++ {
			so := uint64(r.Intn(4))
			slot := e*4 + so
			if slot >= m.Slot {
				continue
			}
			comms := sh.Committees[so]
			if len(comms) == 0 {
				continue
			}
			idx := uint64(r.Intn(len(comms)))
			members := comms[idx]
			if len(members) == 0 {
				continue
			}
			a := Pend{Slot: slot, Index: idx, Src: uint64(r.Intn(int(e + 1))), Tgt: e, Delay: uint64(1 + r.Intn(4)), Proposer: uint64(r.Intn(int(n)))}
			a.Bits = make([]bool, len(members))
			for i := range a.Bits {
				a.Bits[i] = r.Chance(70)
			}
			a.BBR = byte(slot%16 + 1)
			if r.Chance(30) {
				a.BBR = byte(200 + r.Intn(50))
			}
			a.TgtRoot = byte((e*4)%16 + 1)
			if r.Chance(25) {
				a.TgtRoot = byte(200 + r.Intn(50))
			}
			out = append(out, a)
			if !seen[[2]uint64{slot, idx}] {
				seen[[2]uint64{slot, idx}] = true
				c := Comm{Slot: slot, Index: idx}
				for _, v := range members {
					c.Members = append(c.Members, uint64(v))
				}
				m.Comms = append(m.Comms, c)
			}
		}
		return out
	}
	if ce >= 1 {
		m.PAtts = gen(epc.PreviousEpoch, ce-1)
	}
	m.CAtts = gen(epc.CurrentEpoch, ce)
}

func ctx() context.Context { return context.Background() }

func loadEpc(spec *common.Spec, st common.BeaconState) (*common.EpochsContext, error) {
	epc := &common.EpochsContext{Spec: spec}
	if err := epc.LoadShuffling(st); err != nil {
		return nil, err
	}
	return epc, nil
}

type stepFn func(spec *common.Spec, epc *common.EpochsContext, flats []common.FlatValidator, st common.BeaconState) error

func run(e *Env) error {
	e.Header = "From Coq Require Import NArith List.\nFrom V Require Import Base.Outcome Beacon.Config Beacon.Impl.Flat Beacon.Impl.Justification Beacon.Refine.ImplRun.\nImport ListNotations.\nLocal Open Scope N_scope."
	e.CaseType = "icase"
	e.ShardSize = 60
	e.ShardBytes = 50000
	e.Rule = "small states (3-9 validators, tiny preset, 12 random knobs) biased to: several exit epochs with counts at/below/above the churn limit, eligibility epochs around the finalized epoch, balances around ejection balance and hysteresis thresholds, nearly empty balances, slashed validators at the half-way withdrawable epoch, leaks; each exported zrnt sub-transition function is run on the state with zrnt's own epc (LoadShuffling) and snapshot (FlattenValidators). non-trivial = the step changed the state or produced a non-empty result; distinct by inputs"
	r := e.Rng
	rounds := e.N(90, 900)
	for it := 0; it < rounds; it++ {
		p := genKnobs(r)
		spec := mkSpec(p)
		fork := []int{0, 0, 0, 1, 1, 2, 3, 4, 4}[r.Intn(9)]
		if fork == 4 && r.Chance(60) { // deneb: activation churn limit below the churn limit
			p[2] = uint64(1 + r.Intn(2))
			p[0] = uint64(3 + r.Intn(2))
			spec = mkSpec(p)
		}
		m := genMini(r, p, fork)
		if err := oneState(e, spec, p, m); err != nil {
			return err
		}
	}
	return nil
}

func sameObs(a, b *Obs) bool { return coqObs(a) == coqObs(b) }

func oneState(e *Env, spec *common.Spec, p Knobs, m *Mini) error {
	r := e.Rng
	base, err := buildState(spec, m)
	if err != nil {
		return fmt.Errorf("build: %v", err)
	}
	epc0, err := loadEpc(spec, base)
	if err != nil {
		return fmt.Errorf("epc: %v", err)
	}
	if m.Fork == 0 {
		genAtts(r, spec, epc0, m)
		if base, err = buildState(spec, m); err != nil {
			return fmt.Errorf("build: %v", err)
		}
	}
	pre, err := observe(spec, m.Fork, base)
	if err != nil {
		return err
	}
	head := coqKnobs(p) + " " + coqMini(m) + " " + coqEpc(epc0)

	// --- ComputeRegistryProcessData on the snapshot ---
	{
		vals, _ := base.Validators()
		flats, err := common.FlattenValidators(vals)
		if err != nil {
			return err
		}
		var rd *phase0.RegistryProcessData
		var rerr error
		pan, _ := Catch(func() { rd, rerr = phase0.ComputeRegistryProcessData(spec, flats, epc0.CurrentEpoch.Epoch) })
		body := ""
		nt := false
		if !pan && rerr == nil {
			body = fmt.Sprintf("(%s, %s, %s, (%d, %d, %d))", coqIdx(rd.IndicesToSetActivationEligibility), coqIdx(rd.IndicesToMaybeActivate),
				coqIdx(rd.IndicesToEject), uint64(rd.ExitQueueEnd), rd.ExitQueueEndChurn, rd.ChurnLimit)
			nt = len(rd.IndicesToEject)+len(rd.IndicesToMaybeActivate)+len(rd.IndicesToSetActivationEligibility) > 0
		}
		fl := make([]MV, len(flats))
		for i, f := range flats {
			fl[i] = MV{uint64(f.EffectiveBalance), f.Slashed, uint64(f.ActivationEligibilityEpoch), uint64(f.ActivationEpoch), uint64(f.ExitEpoch), uint64(f.WithdrawableEpoch)}
		}
		e.Add(Case{Coq: fmt.Sprintf("CRegData %s %s %d %s", coqKnobs(p), coqMVs(fl), uint64(epc0.CurrentEpoch.Epoch), goRes(body, rerr, pan)),
			Kind: "regdata", NonTrivial: nt, JSON: map[string]interface{}{"step": "regdata", "knobs": p, "mini": m}})
	}

	// --- state steps ---
	type stepDef struct {
		name, coq string
		need      int // 0: any fork, 1: altair family only, 2: phase0 only
		fn        stepFn
	}
	total := epc0.TotalActiveStake
	mkStake := func() common.Gwei {
		switch r.Intn(4) {
		case 0:
			return total
		case 1:
			return total * 2 / 3
		case 2:
			return total*2/3 + common.Gwei(ETH)
		default:
			return common.Gwei(uint64(r.Intn(int(uint64(total)/ETH+1))) * ETH)
		}
	}
	just := phase0.JustificationStakeData{CurrentEpoch: epc0.CurrentEpoch.Epoch, TotalActiveStake: total,
		PrevEpochUnslashedTargetStake: mkStake(), CurrEpochUnslashedTargetStake: mkStake()}
	steps := []stepDef{
		{"registry", "SRegistry", 0, func(spec *common.Spec, epc *common.EpochsContext, flats []common.FlatValidator, st common.BeaconState) error {
			if m.Fork >= 4 {
				return deneb.ProcessEpochRegistryUpdates(ctx(), spec, epc, flats, st)
			}
			return phase0.ProcessEpochRegistryUpdates(ctx(), spec, epc, flats, st)
		}},
		{"justification", fmt.Sprintf("(SJust (mkJustData %d %d %d %d))", uint64(just.CurrentEpoch), uint64(just.TotalActiveStake),
			uint64(just.PrevEpochUnslashedTargetStake), uint64(just.CurrEpochUnslashedTargetStake)), 0,
			func(spec *common.Spec, epc *common.EpochsContext, flats []common.FlatValidator, st common.BeaconState) error {
				j := just
				return phase0.ProcessEpochJustification(ctx(), spec, &j, st)
			}},
		{"effbal", "SEffBal", 0, func(spec *common.Spec, epc *common.EpochsContext, flats []common.FlatValidator, st common.BeaconState) error {
			return phase0.ProcessEffectiveBalanceUpdates(ctx(), spec, epc, flats, st)
		}},
		{"eth1reset", "SEth1", 0, func(spec *common.Spec, epc *common.EpochsContext, flats []common.FlatValidator, st common.BeaconState) error {
			return phase0.ProcessEth1DataReset(ctx(), spec, epc, st)
		}},
		{"slashreset", "SSlashReset", 0, func(spec *common.Spec, epc *common.EpochsContext, flats []common.FlatValidator, st common.BeaconState) error {
			return phase0.ProcessSlashingsReset(ctx(), spec, epc, st)
		}},
		{"randao", "SRandao", 0, func(spec *common.Spec, epc *common.EpochsContext, flats []common.FlatValidator, st common.BeaconState) error {
			return phase0.ProcessRandaoMixesReset(ctx(), spec, epc, st)
		}},
		{"historical", "SHist", 0, func(spec *common.Spec, epc *common.EpochsContext, flats []common.FlatValidator, st common.BeaconState) error {
			if m.Fork >= 3 {
				return capella.ProcessHistoricalSummariesUpdate(ctx(), spec, epc, st.(capella.HistoricalSummariesBeaconState))
			}
			return phase0.ProcessHistoricalRootsUpdate(ctx(), spec, epc, st)
		}},
		{"rotate", "SPartRotate", 0, func(spec *common.Spec, epc *common.EpochsContext, flats []common.FlatValidator, st common.BeaconState) error {
			if m.Fork == 0 {
				return phase0.ProcessParticipationRecordUpdates(ctx(), spec, epc, st.(phase0.Phase0PendingAttestationsBeaconState))
			}
			return altair.ProcessParticipationFlagUpdates(ctx(), spec, st.(altair.AltairLikeBeaconState))
		}},
		{"slashings", "SSlashings", 0, func(spec *common.Spec, epc *common.EpochsContext, flats []common.FlatValidator, st common.BeaconState) error {
			return phase0.ProcessEpochSlashings(ctx(), spec, epc, flats, st)
		}},
		{"inactivity", "SInactivity", 1, func(spec *common.Spec, epc *common.EpochsContext, flats []common.FlatValidator, st common.BeaconState) error {
			ad, err := altair.ComputeEpochAttesterData(ctx(), spec, epc, flats, st.(altair.AltairLikeBeaconState))
			if err != nil {
				return err
			}
			return altair.ProcessInactivityUpdates(ctx(), spec, ad, st.(altair.AltairLikeBeaconState))
		}},
		{"rewards", "SRewards", 1, func(spec *common.Spec, epc *common.EpochsContext, flats []common.FlatValidator, st common.BeaconState) error {
			ad, err := altair.ComputeEpochAttesterData(ctx(), spec, epc, flats, st.(altair.AltairLikeBeaconState))
			if err != nil {
				return err
			}
			return altair.ProcessEpochRewardsAndPenalties(ctx(), spec, epc, ad, st.(altair.AltairLikeBeaconState))
		}},
		{"rewards0", "SRewards0", 2, func(spec *common.Spec, epc *common.EpochsContext, flats []common.FlatValidator, st common.BeaconState) error {
			ad, err := phase0.ComputeEpochAttesterData(ctx(), spec, epc, flats, st.(phase0.Phase0PendingAttestationsBeaconState))
			if err != nil {
				return err
			}
			return phase0.ProcessEpochRewardsAndPenalties(ctx(), spec, epc, ad, st)
		}},
	}
	for _, sd := range steps {
		if (sd.need == 1 && m.Fork == 0) || (sd.need == 2 && m.Fork != 0) {
			continue
		}
		st, err := buildState(spec, m)
		if err != nil {
			return err
		}
		epc, err := loadEpc(spec, st)
		if err != nil {
			return err
		}
		vals, _ := st.Validators()
		flats, err := common.FlattenValidators(vals)
		if err != nil {
			return err
		}
		var serr error
		pan, _ := Catch(func() { serr = sd.fn(spec, epc, flats, st) })
		body := ""
		nt := false
		if !pan && serr == nil {
			o, err := observe(spec, m.Fork, st)
			if err != nil {
				return err
			}
			body = coqObs(o)
			nt = !sameObs(o, pre)
		}
		c := fmt.Sprintf("CState %s %s %s", head, sd.coq, goRes(body, serr, pan))
		e.Add(Case{Coq: c, Kind: sd.name, NonTrivial: nt, JSON: map[string]interface{}{"step": sd.name, "knobs": p, "mini": m, "bytes": len(c)}})
	}

	// --- phase0 attester data ---
	if m.Fork == 0 {
		st, err := buildState(spec, m)
		if err != nil {
			return err
		}
		epc, err := loadEpc(spec, st)
		if err != nil {
			return err
		}
		vals, _ := st.Validators()
		flats, err := common.FlattenValidators(vals)
		if err != nil {
			return err
		}
		var ad *phase0.EpochAttesterData
		var aerr error
		pan, _ := Catch(func() {
			ad, aerr = phase0.ComputeEpochAttesterData(ctx(), spec, epc, flats, st.(phase0.Phase0PendingAttestationsBeaconState))
		})
		body := ""
		if !pan && aerr == nil {
			it := make([]string, len(ad.Statuses))
			for i, x := range ad.Statuses {
				it[i] = fmt.Sprintf("(%d, %d, %d)", uint64(x.InclusionDelay), uint64(x.AttestedProposer), uint8(x.Flags))
			}
			body = fmt.Sprintf("(%s, (%d, %d, %d, %d))", CoqList(it), uint64(ad.PrevEpochUnslashedStake.SourceStake),
				uint64(ad.PrevEpochUnslashedStake.TargetStake), uint64(ad.PrevEpochUnslashedStake.HeadStake), uint64(ad.CurrEpochUnslashedTargetStake))
		}
		e.Add(Case{Coq: fmt.Sprintf("CP0Data %s %s", head, goRes(body, aerr, pan)), Kind: "p0data", NonTrivial: len(m.PAtts)+len(m.CAtts) > 0,
			JSON: map[string]interface{}{"step": "p0data", "knobs": p, "mini": m}})
	}

	// --- altair intermediate results ---
	if m.Fork >= 1 {
		st, err := buildState(spec, m)
		if err != nil {
			return err
		}
		epc, err := loadEpc(spec, st)
		if err != nil {
			return err
		}
		vals, _ := st.Validators()
		flats, err := common.FlattenValidators(vals)
		if err != nil {
			return err
		}
		ast := st.(altair.AltairLikeBeaconState)
		var ad *altair.EpochAttesterData
		var aerr error
		pan, _ := Catch(func() { ad, aerr = altair.ComputeEpochAttesterData(ctx(), spec, epc, flats, ast) })
		body := ""
		if !pan && aerr == nil {
			body = fmt.Sprintf("(%s, (%d, %d, %d, %d))", coqIdx(ad.EligibleIndices), uint64(ad.PrevEpochUnslashedStake.SourceStake),
				uint64(ad.PrevEpochUnslashedStake.TargetStake), uint64(ad.PrevEpochUnslashedStake.HeadStake), uint64(ad.CurrEpochUnslashedTargetStake))
		}
		e.Add(Case{Coq: fmt.Sprintf("CAttData %s %s", head, goRes(body, aerr, pan)), Kind: "attdata", NonTrivial: true,
			JSON: map[string]interface{}{"step": "attdata", "knobs": p, "mini": m}})
		if !pan && aerr == nil {
			fin, _ := st.FinalizedCheckpoint()
			leak := ad.PrevEpoch-fin.Epoch > spec.MIN_EPOCHS_TO_INACTIVITY_PENALTY
			flags := []altair.ParticipationFlags{altair.TIMELY_SOURCE_FLAG, altair.TIMELY_TARGET_FLAG, altair.TIMELY_HEAD_FLAG}
			weights := []common.Gwei{altair.TIMELY_SOURCE_WEIGHT, altair.TIMELY_TARGET_WEIGHT, altair.TIMELY_HEAD_WEIGHT}
			for fi := 0; fi < 3; fi++ {
				var d *common.Deltas
				var derr error
				pan, _ := Catch(func() { d, derr = altair.ComputeFlagDeltas(ctx(), spec, epc, ad, flags[fi], weights[fi], leak) })
				body := ""
				if !pan && derr == nil {
					body = fmt.Sprintf("(%s, %s)", gweis(d.Rewards), gweis(d.Penalties))
				}
				e.Add(Case{Coq: fmt.Sprintf("CFlagDeltas %s %d %s %s", head, fi, CoqBool(leak), goRes(body, derr, pan)), Kind: "flagdeltas",
					NonTrivial: true, JSON: map[string]interface{}{"step": "flagdeltas", "flag": fi, "knobs": p, "mini": m}})
			}
			scores, _ := ast.InactivityScores()
			settings := st.ForkSettings(spec)
			var d *common.Deltas
			var derr error
			pan, _ := Catch(func() {
				d, derr = altair.ComputeInactivityPenaltyDeltas(ctx(), spec, epc, ad, scores, settings.InactivityPenaltyQuotient)
			})
			body := ""
			if !pan && derr == nil {
				body = fmt.Sprintf("(%s, %s)", gweis(d.Rewards), gweis(d.Penalties))
			}
			e.Add(Case{Coq: fmt.Sprintf("CInactDeltas %s %s", head, goRes(body, derr, pan)), Kind: "inactdeltas",
				NonTrivial: true, JSON: map[string]interface{}{"step": "inactdeltas", "knobs": p, "mini": m}})
		}
	}
	return nil
}

func gweis(xs common.GweiList) string {
	it := make([]string, len(xs))
	for i, x := range xs {
		it[i] = fmt.Sprintf("%d", uint64(x))
	}
	return CoqList(it)
}

var _ = strings.Join
