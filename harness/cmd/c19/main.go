package main

import (
	gomath "math"
	"crypto/sha256"
	"fmt"
	"strings"
	"time"
	. "verifharness/hx"

	"github.com/protolambda/zrnt/eth2/beacon/common"
	"github.com/protolambda/zrnt/eth2/configs"
	"github.com/protolambda/zrnt/eth2/gossipval"
	"github.com/protolambda/zrnt/eth2/util/hashing"
	zmath "github.com/protolambda/zrnt/eth2/util/math"
	"github.com/protolambda/zrnt/eth2/util/merkle"
	"github.com/protolambda/ztyp/tree"
	"github.com/protolambda/ztyp/view"
)

func main() { Main("C19", runC19) }

// boundary values of the uint64 domain
func boundaryU64(r *Rng, nrand int) []uint64 {
	seen := map[uint64]bool{}
	var out []uint64
	add := func(v uint64) {
		if !seen[v] {
			seen[v] = true
			out = append(out, v)
		}
	}
	for _, v := range []uint64{0, 1, 2, 3, 4, 5, 7, 8, 9, 15, 16, 17, 24, 25, 26, 99, 100, 101} {
		add(v)
	}
	for k := uint(1); k < 64; k++ {
		p := uint64(1) << k
		add(p - 1)
		add(p)
		add(p + 1)
	}
	add(^uint64(0))
	add(^uint64(0) - 1)
	add(^uint64(0) - 2)
	// perfect squares and neighbours
	roots := []uint64{3, 10, 255, 256, 257, 65535, 65536, 65537, 1<<32 - 1, 1<<32 - 2, 1 << 31, 1<<31 + 1, 3037000499, 3037000500, 4294967295}
	for j := uint(1); j < 32; j++ {
		roots = append(roots, uint64(1)<<j, uint64(1)<<j-1, uint64(1)<<j+1)
	}
	for i := 0; i < nrand/8; i++ {
		roots = append(roots, r.U64()>>32)
	}
	for _, k := range roots {
		if k <= 4294967295 {
			sq := k * k
			add(sq - 1)
			add(sq)
			add(sq + 1)
		}
	}
	for i := 0; i < nrand; i++ {
		v := r.U64()
		switch r.Intn(4) {
		case 0:
			v >>= uint(r.Intn(64))
		case 1:
			v = uint64(r.Intn(1000))
		}
		add(v)
	}
	return out
}

func runC19(e *Env) error {
	e.Header = "From Coq Require Import NArith List.\nFrom V Require Import Base.Outcome Math.MathRun.\nImport ListNotations.\nLocal Open Scope N_scope."
	e.CaseType = "mcase"
	e.Rule = "inputs: 0,1,2^k-1,2^k,2^k+1 (all k), k^2-1,k^2,k^2+1 for k at powers of two, 2^32-1 and random k, 2^64-1 and neighbours, boundaries of each formula's overflow point, random uint64 (full, shifted, small); Merkle: random branches depth 0..40, valid plus each single corruption. non-trivial = value > 3 (numeric) or depth >= 1 (Merkle); distinct by input"
	r := e.Rng
	nr := e.N(1500, 20000)
	vals := boundaryU64(r, nr)
	nt := func(v uint64) bool { return v > 3 }

	// MinU64 / MaxU64 on neighbouring boundary values (used by the churn limit and the committee clamp)
	for i := 0; i+1 < len(vals) && i < 400; i++ {
		for _, pr := range [][2]uint64{{vals[i], vals[i+1]}, {vals[i], vals[i]}, {vals[i+1], vals[i]}, {vals[i], vals[i] + 1}} {
			a, b := pr[0], pr[1]
			mn, mx := zmath.MinU64(a, b), zmath.MaxU64(a, b)
			e.Add(Case{Coq: fmt.Sprintf("CMinMax %d %d %d %d", a, b, mn, mx), Kind: "minmax", NonTrivial: a != b, JSON: map[string]interface{}{"fn": "MinU64/MaxU64", "a": fmt.Sprint(a), "b": fmt.Sprint(b), "min": fmt.Sprint(mn), "max": fmt.Sprint(mx)}})
		}
	}
	// IntegerSquareRootPrysm (table + float64 estimate + correction loops): the model takes the float64 estimate as an oracle,
	// computed here with the same Go expression; the Spec side judges floor sqrt directly
	prysm := append([]uint64{4, 16, 64, 256, 1024, 4096, 16384, 65536, 262144, 1048576, 4194304, 5, 15, 17, 4194303, 4194305,
		4503599761588222, 4503599761588223, 4503599761588224, 4503599761588225, 4503599627370495, 4503599627370496}, vals...)
	for i, n := range prysm {
		if i > 3000 {
			break
		}
		g := zmath.IntegerSquareRootPrysm(n)
		est := uint64(gomath.Sqrt(float64(n)))
		e.Add(Case{Coq: fmt.Sprintf("CIsqrtPrysm %d %d %d", n, est, g), Kind: "isqrt_prysm", NonTrivial: nt(n), JSON: map[string]interface{}{"fn": "IntegerSquareRootPrysm", "n": fmt.Sprint(n), "float_estimate": fmt.Sprint(est), "go": fmt.Sprint(g)}})
	}
	for _, n := range vals {
		var res uint64
		p, _ := Catch(func() { res = zmath.IntegerSquareroot(n) })
		e.Add(Case{Coq: fmt.Sprintf("CIsqrt %d %s", n, CoqGoResN(res, nil, p)), Kind: "isqrt", NonTrivial: nt(n), JSON: map[string]interface{}{"fn": "IntegerSquareroot", "n": fmt.Sprint(n), "go": fmt.Sprint(res), "panic": p}})
		e.Add(Case{Coq: fmt.Sprintf("CIsPow2 %d %s", n, CoqBool(zmath.IsPowerOfTwo(n))), Kind: "ispow2", NonTrivial: nt(n), JSON: map[string]interface{}{"fn": "IsPowerOfTwo", "n": fmt.Sprint(n), "go": zmath.IsPowerOfTwo(n)}})
		e.Add(Case{Coq: fmt.Sprintf("CNextPow2 %d %d", n, zmath.NextPowerOfTwo(n)), Kind: "nextpow2", NonTrivial: nt(n), JSON: map[string]interface{}{"fn": "NextPowerOfTwo", "n": fmt.Sprint(n), "go": fmt.Sprint(zmath.NextPowerOfTwo(n))}})
		e.Add(Case{Coq: fmt.Sprintf("CSlotPrev %d %d", n, uint64(common.Slot(n).Previous())), Kind: "slotprev", NonTrivial: nt(n), JSON: map[string]interface{}{"fn": "Slot.Previous", "s": fmt.Sprint(n), "go": fmt.Sprint(uint64(common.Slot(n).Previous()))}})
		if uint64(common.Epoch(n).Previous()) != uint64(common.Slot(n).Previous()) {
			// same formula; keep them tied
			e.Add(Case{Coq: fmt.Sprintf("CSlotPrev %d %d", n, uint64(common.Epoch(n).Previous())), Kind: "epochprev", NonTrivial: true, JSON: map[string]interface{}{"fn": "Epoch.Previous", "e": fmt.Sprint(n)}})
		}
	}

	// time / epoch formulas over several parameter sets
	spec := *configs.Mainnet
	params := [][2]uint64{{12, 32}, {6, 8}, {1, 1}, {2, 4}, {12, 4}, {5, 3}, {1 << 20, 1 << 33}, {3, 64}}
	for i := 0; i < e.N(4, 30); i++ {
		params = append(params, [2]uint64{1 + uint64(r.Intn(40)), 1 + uint64(r.Intn(70))})
	}
	small := []uint64{0, 1, 2, 3, 11, 12, 13, 31, 32, 33, 1606824000, 1606824023}
	for _, pr := range params {
		sps, spe := pr[0], pr[1]
		spec.SECONDS_PER_SLOT = common.Timestamp(sps)
		spec.SLOTS_PER_EPOCH = common.Slot(spe)
		max := ^uint64(0)
		// TimeToSlot
		var ts []uint64
		ts = append(ts, small...)
		ts = append(ts, max, max-1, max/2, r.U64(), r.U64()>>20, r.U64()>>40)
		for _, t := range ts {
			for _, g := range []uint64{0, 1, 12, 1606824000, t, t + 1, t - 1, max, r.U64() >> 30} {
				res := uint64(spec.TimeToSlot(common.Timestamp(t), common.Timestamp(g)))
				e.Add(Case{Coq: fmt.Sprintf("CTimeToSlot %d %d %d %d", sps, t, g, res), Kind: "time_to_slot", NonTrivial: t > g, JSON: map[string]interface{}{"fn": "TimeToSlot", "sps": sps, "t": fmt.Sprint(t), "genesis": fmt.Sprint(g), "go": fmt.Sprint(res)}})
			}
		}
		// TimeAtSlot around its overflow point
		for _, g := range []uint64{0, 1, 1606824000, max, max - 1, max - sps, max - sps + 1, max / 2, r.U64(), r.U64() >> 30} {
			m := (max - g) / sps
			slots := []uint64{0, 1, 2, m - 2, m - 1, m, m + 1, m + 2, max, r.U64(), r.U64() >> 10, r.U64() >> 34, uint64(r.Intn(100000))}
			for _, s := range slots {
				res, err := spec.TimeAtSlot(common.Slot(s), common.Timestamp(g))
				e.Add(Case{Coq: fmt.Sprintf("CTimeAtSlot %d %d %d %s", sps, s, g, CoqGoResN(uint64(res), err, false)), Kind: "time_at_slot", NonTrivial: s > 0, JSON: map[string]interface{}{"fn": "TimeAtSlot", "sps": sps, "slot": fmt.Sprint(s), "genesis": fmt.Sprint(g), "go": fmt.Sprint(uint64(res)), "err": err != nil}})
			}
		}
		// SlotToEpoch directly (EpochStartSlot uses it internally, but its own floor is a separate claim)
		for _, sl := range []uint64{0, 1, spe - 1, spe, spe + 1, 2*spe - 1, 2 * spe, max, max - 1, max - spe, max / spe * spe, max/spe*spe - 1, r.U64(), r.U64() >> 20, uint64(r.Intn(1 << 20))} {
			res := uint64(spec.SlotToEpoch(common.Slot(sl)))
			e.Add(Case{Coq: fmt.Sprintf("CSlotToEpoch %d %d %d", spe, sl, res), Kind: "slot_to_epoch", NonTrivial: sl >= spe, JSON: map[string]interface{}{"fn": "SlotToEpoch", "spe": spe, "slot": fmt.Sprint(sl), "go": fmt.Sprint(res)}})
		}
		// EpochStartSlot around its overflow point
		m := max / spe
		for _, ep := range []uint64{0, 1, 2, 74240, m - 1, m, m + 1, m + 2, max, max - 1, max / 2, max/2 + 1, r.U64(), r.U64() >> 5, r.U64() >> 6, r.U64() >> 33, uint64(r.Intn(1 << 20))} {
			res, err := spec.EpochStartSlot(common.Epoch(ep))
			e.Add(Case{Coq: fmt.Sprintf("CEpochStart %d %d %s", spe, ep, CoqGoResN(uint64(res), err, false)), Kind: "epoch_start_slot", NonTrivial: ep > 0, JSON: map[string]interface{}{"fn": "EpochStartSlot", "spe": spe, "epoch": fmt.Sprint(ep), "go": fmt.Sprint(uint64(res)), "err": err != nil}})
		}
	}
	// activation-exit epoch, churn, committee count
	for i := 0; i < e.N(150, 2000); i++ {
		msl := []uint64{4, 1, 0, 2, uint64(r.Intn(10)), r.U64()}[r.Intn(6)]
		spec.MAX_SEED_LOOKAHEAD = common.Epoch(msl)
		ep := []uint64{0, 1, 100, ^uint64(0), ^uint64(0) - 1, ^uint64(0) - msl, ^uint64(0) - msl - 1, ^uint64(0) - msl - 2, r.U64(), r.U64() >> 40}[r.Intn(10)]
		res := uint64(spec.ComputeActivationExitEpoch(common.Epoch(ep)))
		e.Add(Case{Coq: fmt.Sprintf("CActExit %d %d %d", msl, ep, res), Kind: "activation_exit_epoch", NonTrivial: ep > 0, JSON: map[string]interface{}{"fn": "ComputeActivationExitEpoch", "lookahead": fmt.Sprint(msl), "epoch": fmt.Sprint(ep), "go": fmt.Sprint(res)}})

		minch := []uint64{4, 2, 1, 0, uint64(r.Intn(100))}[r.Intn(5)]
		chq := []uint64{65536, 32, 1, 2, 1 + uint64(r.Intn(100000))}[r.Intn(5)]
		act := []uint64{0, 1, minch * chq, minch*chq - 1, minch*chq + 1, minch*chq + chq, minch*chq + chq - 1, r.U64() >> 40, r.U64() >> 20, r.U64()}[r.Intn(10)]
		spec.MIN_PER_EPOCH_CHURN_LIMIT = view.Uint64View(minch)
		spec.CHURN_LIMIT_QUOTIENT = view.Uint64View(chq)
		cres := spec.GetChurnLimit(act)
		e.Add(Case{Coq: fmt.Sprintf("CChurn %d %d %d %d", minch, chq, act, cres), Kind: "churn_limit", NonTrivial: act > 0, JSON: map[string]interface{}{"fn": "GetChurnLimit", "min": minch, "quotient": chq, "active": fmt.Sprint(act), "go": fmt.Sprint(cres)}})

		spe := []uint64{32, 8, 4, 1, 1 + uint64(r.Intn(64))}[r.Intn(5)]
		tcs := []uint64{128, 4, 2, 1, 1 + uint64(r.Intn(200))}[r.Intn(5)]
		mcps := []uint64{64, 4, 1, 2, 1 + uint64(r.Intn(100))}[r.Intn(5)]
		unit := spe * tcs
		act2 := []uint64{0, 1, unit - 1, unit, unit + 1, 2*unit - 1, 2 * unit, mcps*unit - 1, mcps * unit, mcps*unit + 1, (mcps + 1) * unit, r.U64() >> 40, r.U64() >> 20, r.U64()}[r.Intn(14)]
		spec.SLOTS_PER_EPOCH = common.Slot(spe)
		spec.TARGET_COMMITTEE_SIZE = view.Uint64View(tcs)
		spec.MAX_COMMITTEES_PER_SLOT = view.Uint64View(mcps)
		ccres := common.CommitteeCount(&spec, act2)
		e.Add(Case{Coq: fmt.Sprintf("CCommittee %d %d %d %d %d", spe, tcs, mcps, act2, ccres), Kind: "committee_count", NonTrivial: act2 > 0, JSON: map[string]interface{}{"fn": "CommitteeCount", "spe": spe, "target": tcs, "max": mcps, "active": fmt.Sprint(act2), "go": fmt.Sprint(ccres)}})
	}
	// CheckSlotSpan: the clock is a function of the requested disparity
	for i := 0; i < e.N(400, 5000); i++ {
		base := []uint64{0, 1, 5, 100, 1 << 40, ^uint64(0) - 3, ^uint64(0), r.U64(), r.U64() >> 30}[r.Intn(9)]
		mn := base - uint64(r.Intn(2))
		mx := base + uint64(r.Intn(2))
		if r.Chance(10) {
			mn, mx = r.U64(), r.U64()
		}
		span := []uint64{0, 1, 2, 32, 64, ^uint64(0), ^uint64(0) - base, ^uint64(0) - base + 1, r.U64()}[r.Intn(9)]
		slot := base + uint64(r.Intn(9)) - 4
		if r.Chance(30) {
			slot = mn - span + uint64(r.Intn(3)) - 1
		}
		if r.Chance(10) {
			slot = r.U64()
		}
		err := gossipval.CheckSlotSpan(func(d time.Duration) common.Slot {
			if d < 0 {
				return common.Slot(mn)
			}
			return common.Slot(mx)
		}, common.Slot(slot), common.Slot(span))
		e.Add(Case{Coq: fmt.Sprintf("CSlotSpan %d %d %d %d %s", mn, mx, slot, span, CoqBool(err == nil)), Kind: "check_slot_span", NonTrivial: true, JSON: map[string]interface{}{"fn": "CheckSlotSpan", "min_slot": fmt.Sprint(mn), "max_slot": fmt.Sprint(mx), "slot": fmt.Sprint(slot), "span": fmt.Sprint(span), "ok": err == nil}})
	}
	// SHA-256 instance of the model vs the repository's hash
	for _, ln := range []int{0, 1, 3, 31, 32, 33, 55, 56, 57, 63, 64, 65, 96, 119, 120, 121, 128, 200} {
		msg := r.Bytes(ln)
		h := hashing.Hash(msg)
		e.Add(Case{Coq: fmt.Sprintf("CSha %s %s", CoqBytes(msg), CoqBytes(h[:])), Kind: "sha256", NonTrivial: ln > 0, JSON: map[string]interface{}{"fn": "hashing.Hash", "len": ln}})
	}
	// the re-usable hash object (GetHashFn / Sha256Repeat): ONE object hashes a sequence of messages of growing and
	// shrinking length; every answer must be the SHA-256 of its own input, independent of the calls before it
	rep, rep2 := hashing.GetHashFn(), hashing.Sha256Repeat()
	for _, ln := range []int{64, 0, 65, 1, 32, 32, 119, 3, 64, 64, 200, 31, 56, 55, 0} {
		msg := r.Bytes(ln)
		h := rep(msg)
		e.Add(Case{Coq: fmt.Sprintf("CSha %s %s", CoqBytes(msg), CoqBytes(h[:])), Kind: "sha256_repeat", NonTrivial: true, JSON: map[string]interface{}{"fn": "hashing.GetHashFn()(msg), same object as the previous case", "len": ln}})
		h2 := rep2(msg)
		e.Add(Case{Coq: fmt.Sprintf("CSha %s %s", CoqBytes(msg), CoqBytes(h2[:])), Kind: "sha256_repeat", NonTrivial: true, JSON: map[string]interface{}{"fn": "hashing.Sha256Repeat()(msg), same object as the previous case", "len": ln}})
	}
	// XorBytes32
	for i := 0; i < 24; i++ {
		var a, b [32]byte
		copy(a[:], r.Bytes(32))
		copy(b[:], r.Bytes(32))
		switch i {
		case 0:
			b = a
		case 1:
			b = [32]byte{}
		case 2:
			for j := range b {
				b[j] = 0xff
			}
		case 3:
			a[31], b[31], a[0], b[0] = 0x80, 0x01, 0xff, 0xff
		}
		x := hashing.XorBytes32(a, b)
		e.Add(Case{Coq: fmt.Sprintf("CXor %s %s %s", CoqBytes(a[:]), CoqBytes(b[:]), CoqBytes(x[:])), Kind: "xor_bytes32", NonTrivial: a != b, JSON: map[string]interface{}{"fn": "hashing.XorBytes32", "a": fmt.Sprintf("%x", a), "b": fmt.Sprintf("%x", b), "go": fmt.Sprintf("%x", x)}})
	}
	// Merkle branches
	nm := e.N(120, 1500)
	for i := 0; i < nm; i++ {
		depth := r.Intn(41)
		if r.Chance(30) {
			depth = r.Intn(5)
		}
		extra := 0
		if r.Chance(30) {
			extra = 1 + r.Intn(2)
		}
		var leaf tree.Root
		copy(leaf[:], r.Bytes(32))
		branch := make([]tree.Root, depth+extra)
		for j := range branch {
			copy(branch[j][:], r.Bytes(32))
		}
		index := r.U64()
		if depth < 64 && r.Chance(70) {
			index &= (uint64(1) << uint(depth)) - 1
		}
		// the harness's own root computation (stdlib sha256)
		val := leaf
		for j := 0; j < depth; j++ {
			var buf [64]byte
			if (index>>uint(j))&1 == 1 {
				copy(buf[:32], branch[j][:])
				copy(buf[32:], val[:])
			} else {
				copy(buf[:32], val[:])
				copy(buf[32:], branch[j][:])
			}
			val = sha256.Sum256(buf[:])
		}
		root := val
		kind := "valid"
		d := uint64(depth)
		switch r.Intn(9) {
		case 0:
			kind = "leaf_bit"
			leaf[r.Intn(32)] ^= 1 << uint(r.Intn(8))
		case 1:
			if depth > 0 {
				kind = "sibling_bit"
				branch[r.Intn(depth)][r.Intn(32)] ^= 1 << uint(r.Intn(8))
			}
		case 2:
			kind = "root_bit"
			root[r.Intn(32)] ^= 1 << uint(r.Intn(8))
		case 3:
			if depth > 0 {
				kind = "index_low_bit"
				index ^= 1 << uint(r.Intn(depth))
			}
		case 4:
			if depth < 64 {
				kind = "index_high_bit" // must still verify: only the low `depth` bits select sides
				index ^= 1 << uint(depth+r.Intn(64-depth))
			}
		case 5:
			if extra > 0 {
				kind = "depth_plus"
				d = uint64(depth + 1)
			} else if depth > 0 {
				kind = "depth_minus"
				d = uint64(depth - 1)
			}
		case 6:
			if r.Chance(40) {
				kind = "depth_beyond_branch" // out of the documented domain: Go panics (index out of range)
				d = uint64(depth + extra + 1 + r.Intn(3))
			}
		}
		var ok bool
		p, _ := Catch(func() { ok = merkle.VerifyMerkleBranch(leaf, branch, d, index, root) })
		var brs []string
		for _, b := range branch {
			brs = append(brs, CoqBytes(b[:]))
		}
		gr := "GoPanic"
		if !p {
			gr = "(GoOk " + CoqBool(ok) + ")"
		}
		e.Add(Case{Coq: fmt.Sprintf("CMerkle %s %s %d %d %s %s", CoqBytes(leaf[:]), "["+strings.Join(brs, "; ")+"]", d, index, CoqBytes(root[:]), gr),
			Kind: "merkle_" + kind, NonTrivial: depth >= 1, Key: fmt.Sprintf("%d/%d/%x", d, index, leaf[:4]),
			JSON: map[string]interface{}{"fn": "VerifyMerkleBranch", "kind": kind, "depth": d, "branch_len": len(branch), "index": fmt.Sprint(index), "go_ok": ok, "panic": p}})
	}
	return nil
}
