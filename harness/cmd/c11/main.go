package main

import (
	"verifharness/fc"
	. "verifharness/hx"
)

func main() { Main("C11", func(e *Env) error { return fc.Run(e, "C11") }) }
