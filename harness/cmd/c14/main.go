// C14 correspondence harness: fork-schedule lookups, state upgrades, envelopes, constants.
// Runs the real zrnt code on random SORTED fork schedules (equal / adjacent / never-activated / wrapping
// epochs) and prints each observation as a case of Config/ConfigRun.v.
package main

import (
	"bytes"
	"context"
	"encoding/hex"
	"fmt"
	"reflect"
	"sort"
	"strings"
	. "verifharness/hx"

	blsu "github.com/protolambda/bls12-381-util"
	"github.com/protolambda/zrnt/eth2/beacon"
	"github.com/protolambda/zrnt/eth2/beacon/altair"
	"github.com/protolambda/zrnt/eth2/beacon/bellatrix"
	"github.com/protolambda/zrnt/eth2/beacon/capella"
	"github.com/protolambda/zrnt/eth2/beacon/common"
	"github.com/protolambda/zrnt/eth2/beacon/deneb"
	"github.com/protolambda/zrnt/eth2/beacon/electra"
	"github.com/protolambda/zrnt/eth2/beacon/phase0"
	"github.com/protolambda/zrnt/eth2/configs"
	"github.com/protolambda/ztyp/codec"
	"github.com/protolambda/ztyp/tree"
)

func main() { Main("C14", run) }

const farFuture = ^uint64(0)
const nValidators = 64

var forkNames = []string{"phase0", "altair", "bellatrix", "capella", "deneb", "electra", "fulu"}

// ---------- schedules ----------

type sched struct {
	id   int
	kind string
	spe  uint64
	ver  [7][4]byte // genesis, altair, ..., fulu
	ep   [6]uint64  // altair, ..., fulu
	gvr  common.Root
}

func u32(v [4]byte) uint64 {
	return uint64(v[0])<<24 | uint64(v[1])<<16 | uint64(v[2])<<8 | uint64(v[3])
}

func (s *sched) coqCfg() string {
	return fmt.Sprintf("(mkCfg %d %d %d %d %d %d %d %d %d %d %d %d %d %d)", s.spe,
		u32(s.ver[0]), u32(s.ver[1]), u32(s.ver[2]), u32(s.ver[3]), u32(s.ver[4]), u32(s.ver[5]), u32(s.ver[6]),
		s.ep[0], s.ep[1], s.ep[2], s.ep[3], s.ep[4], s.ep[5])
}
func (s *sched) cfg() string { return fmt.Sprintf("c%d", s.id) }
func (s *sched) g() string   { return fmt.Sprintf("g%d", s.id) }

func (s *sched) json() map[string]interface{} {
	ep := map[string]string{}
	ver := map[string]string{}
	for i := 0; i < 7; i++ {
		ver[forkNames[i]] = "0x" + hex.EncodeToString(s.ver[i][:])
		if i > 0 {
			ep[forkNames[i]] = fmt.Sprint(s.ep[i-1])
		}
	}
	return map[string]interface{}{"schedule_kind": s.kind, "SLOTS_PER_EPOCH": s.spe, "fork_epochs": ep, "fork_versions": ver,
		"genesis_validators_root": "0x" + hex.EncodeToString(s.gvr[:]), "sorted": s.sorted()}
}

func (s *sched) sorted() bool {
	for i := 1; i < 6; i++ {
		if s.ep[i-1] > s.ep[i] {
			return false
		}
	}
	return true
}

func (s *sched) versionsDistinct() bool {
	seen := map[[4]byte]bool{}
	for _, v := range s.ver {
		if seen[v] {
			return false
		}
		seen[v] = true
	}
	return true
}

func (s *sched) spec(base *common.Spec) *common.Spec {
	sp := *base
	sp.SLOTS_PER_EPOCH = common.Slot(s.spe)
	sp.GENESIS_FORK_VERSION = s.ver[0]
	sp.ALTAIR_FORK_VERSION = s.ver[1]
	sp.BELLATRIX_FORK_VERSION = s.ver[2]
	sp.CAPELLA_FORK_VERSION = s.ver[3]
	sp.DENEB_FORK_VERSION = s.ver[4]
	sp.ELECTRA_FORK_VERSION = s.ver[5]
	sp.FULU_FORK_VERSION = s.ver[6]
	sp.ALTAIR_FORK_EPOCH = common.Epoch(s.ep[0])
	sp.BELLATRIX_FORK_EPOCH = common.Epoch(s.ep[1])
	sp.CAPELLA_FORK_EPOCH = common.Epoch(s.ep[2])
	sp.DENEB_FORK_EPOCH = common.Epoch(s.ep[3])
	sp.ELECTRA_FORK_EPOCH = common.Epoch(s.ep[4])
	sp.FULU_FORK_EPOCH = common.Epoch(s.ep[5])
	return &sp
}

// the harness's own reading of the specification (compute_fork_version, descending) -- used only to choose
// inputs and to label cases, never to judge
func (s *sched) specFork(epoch uint64) int {
	for i := 5; i >= 0; i-- {
		if epoch >= s.ep[i] {
			return i + 1
		}
	}
	return 0
}

func genSchedule(r *Rng, id int, kind string) *sched {
	s := &sched{id: id, kind: kind, spe: 8}
	if r.Chance(35) {
		s.spe = 4
	}
	// versions
	switch r.Intn(6) {
	case 0: // mainnet style
		for i := 0; i < 7; i++ {
			s.ver[i] = [4]byte{byte(i), 0, 0, 0}
		}
	case 1: // minimal style
		for i := 0; i < 7; i++ {
			s.ver[i] = [4]byte{byte(i), 0, 0, 1}
		}
	default:
		for i := 0; i < 7; i++ {
			copy(s.ver[i][:], r.Bytes(4))
		}
	}
	if kind == "dup_version" {
		a, b := r.Intn(7), r.Intn(7)
		s.ver[a] = s.ver[b]
	}
	copy(s.gvr[:], r.Bytes(32))
	if r.Chance(5) {
		s.gvr = common.Root{}
	}
	big := func() uint64 {
		switch r.Intn(5) {
		case 0:
			return farFuture - 1
		case 1:
			return 1 << 40
		case 2:
			return farFuture/s.spe + 1 // first epoch whose start slot is not representable (wraps to 0)
		case 3:
			return r.U64() | (1 << 62)
		}
		return farFuture
	}
	e := uint64(1 + r.Intn(3))
	switch kind {
	case "staggered":
		for i := 0; i < 4; i++ {
			s.ep[i] = e
			e += uint64(1 + r.Intn(3))
		}
	case "equal_adjacent", "dup_version":
		for i := 0; i < 4; i++ {
			s.ep[i] = e
			e += uint64([]int{0, 0, 1, 1, 2}[r.Intn(5)])
		}
	case "all_equal":
		for i := 0; i < 4; i++ {
			s.ep[i] = e
		}
	case "some_never":
		k := r.Intn(5)
		for i := 0; i < 4; i++ {
			if i < k {
				s.ep[i] = e
				e += uint64(r.Intn(3))
			} else {
				s.ep[i] = farFuture
			}
		}
	case "wrapping":
		// some fork epoch E with E*SLOTS_PER_EPOCH >= 2^64 that wraps to a slot inside the explored horizon
		k := r.Intn(4)
		for i := 0; i < 4; i++ {
			if i < k {
				s.ep[i] = e
				e += uint64(r.Intn(3))
			} else if i == k {
				s.ep[i] = (farFuture/s.spe + 1) + e + uint64(r.Intn(2)) // wraps to (e or e+1)*spe
			} else {
				s.ep[i] = s.ep[i-1]
				if s.ep[i] < farFuture {
					s.ep[i] += uint64(r.Intn(2))
				}
				if r.Chance(40) {
					s.ep[i] = farFuture
				}
			}
		}
	case "big":
		k := r.Intn(5)
		for i := 0; i < 4; i++ {
			if i < k {
				s.ep[i] = e
				e += uint64(r.Intn(3))
			} else {
				b := big()
				if i > 0 && b < s.ep[i-1] {
					b = s.ep[i-1]
				}
				s.ep[i] = b
			}
		}
	case "unsorted":
		for i := 0; i < 6; i++ {
			s.ep[i] = uint64(1 + r.Intn(8))
			if r.Chance(15) {
				s.ep[i] = farFuture
			}
		}
		if s.sorted() {
			s.ep[0], s.ep[3] = s.ep[3]+1, s.ep[0]
		}
		return s
	}
	// electra, fulu
	last := s.ep[3]
	switch {
	case last > 1<<30 || r.Chance(45):
		s.ep[4], s.ep[5] = farFuture, farFuture
		if last > 1<<30 && r.Chance(50) {
			s.ep[4] = last
			s.ep[5] = last
			if r.Chance(50) {
				s.ep[5] = farFuture
			}
		}
	case r.Chance(50): // scheduled beyond the explored horizon
		s.ep[4] = last + 6 + uint64(r.Intn(1000))
		s.ep[5] = s.ep[4] + uint64(r.Intn(3))
		if r.Chance(40) {
			s.ep[5] = farFuture
		}
	case r.Chance(60): // far away
		s.ep[4] = 1<<32 + uint64(r.Intn(1000))
		s.ep[5] = s.ep[4] + uint64(r.Intn(2))*(1<<33)
	default: // inside the horizon: ProcessSlots stops with "not supported" there (outside the state clause's domain)
		s.ep[4] = last + uint64(r.Intn(3))
		s.ep[5] = s.ep[4] + uint64(r.Intn(3))
	}
	return s
}

// ---------- Coq syntax ----------

func hxs(b []byte) string { return `(hx "` + hex.EncodeToString(b) + `")` }

type blkObs struct {
	fork     int
	slot     uint64
	proposer uint64
	parent   common.Root
	state    common.Root
	bodyRoot common.Root
	sig      common.BLSSignature
}

func (b *blkObs) coq() string {
	return fmt.Sprintf("(mkB %d %d %d %s %s %s %s)", b.fork, b.slot, b.proposer, hxs(b.parent[:]), hxs(b.state[:]), hxs(b.bodyRoot[:]), hxs(b.sig[:]))
}
func (b *blkObs) json() map[string]interface{} {
	return map[string]interface{}{"fork": forkNames[b.fork], "slot": fmt.Sprint(b.slot), "proposer_index": b.proposer,
		"parent_root": "0x" + hex.EncodeToString(b.parent[:]), "state_root": "0x" + hex.EncodeToString(b.state[:]),
		"body_root": "0x" + hex.EncodeToString(b.bodyRoot[:]), "signature": "0x" + hex.EncodeToString(b.sig[:])}
}

// ---------- blocks of every fork ----------

var hFn = tree.GetHashFn()

func makeBlock(spec *common.Spec, f int, slot, proposer uint64, parent, state common.Root, randao common.BLSSignature, graffiti common.Root) beacon.OpaqueBlock {
	sl, pi := common.Slot(slot), common.ValidatorIndex(proposer)
	switch f {
	case 0:
		b := &phase0.SignedBeaconBlock{Message: phase0.BeaconBlock{Slot: sl, ProposerIndex: pi, ParentRoot: parent, StateRoot: state}}
		b.Message.Body.RandaoReveal, b.Message.Body.Graffiti = randao, graffiti
		return b
	case 1:
		b := &altair.SignedBeaconBlock{Message: altair.BeaconBlock{Slot: sl, ProposerIndex: pi, ParentRoot: parent, StateRoot: state}}
		b.Message.Body.RandaoReveal, b.Message.Body.Graffiti = randao, graffiti
		b.Message.Body.SyncAggregate.SyncCommitteeBits = make([]byte, (spec.SYNC_COMMITTEE_SIZE+7)/8)
		return b
	case 2:
		b := &bellatrix.SignedBeaconBlock{Message: bellatrix.BeaconBlock{Slot: sl, ProposerIndex: pi, ParentRoot: parent, StateRoot: state}}
		b.Message.Body.RandaoReveal, b.Message.Body.Graffiti = randao, graffiti
		b.Message.Body.SyncAggregate.SyncCommitteeBits = make([]byte, (spec.SYNC_COMMITTEE_SIZE+7)/8)
		return b
	case 3:
		b := &capella.SignedBeaconBlock{Message: capella.BeaconBlock{Slot: sl, ProposerIndex: pi, ParentRoot: parent, StateRoot: state}}
		b.Message.Body.RandaoReveal, b.Message.Body.Graffiti = randao, graffiti
		b.Message.Body.SyncAggregate.SyncCommitteeBits = make([]byte, (spec.SYNC_COMMITTEE_SIZE+7)/8)
		return b
	case 4:
		b := &deneb.SignedBeaconBlock{Message: deneb.BeaconBlock{Slot: sl, ProposerIndex: pi, ParentRoot: parent, StateRoot: state}}
		b.Message.Body.RandaoReveal, b.Message.Body.Graffiti = randao, graffiti
		b.Message.Body.SyncAggregate.SyncCommitteeBits = make([]byte, (spec.SYNC_COMMITTEE_SIZE+7)/8)
		return b
	default:
		b := &electra.SignedBeaconBlock{Message: electra.BeaconBlock{Slot: sl, ProposerIndex: pi, ParentRoot: parent, StateRoot: state}}
		b.Message.Body.RandaoReveal, b.Message.Body.Graffiti = randao, graffiti
		b.Message.Body.SyncAggregate.SyncCommitteeBits = make([]byte, (spec.SYNC_COMMITTEE_SIZE+7)/8)
		return b
	}
}

func setSig(o interface{}, sig common.BLSSignature) {
	switch b := o.(type) {
	case *phase0.SignedBeaconBlock:
		b.Signature = sig
	case *altair.SignedBeaconBlock:
		b.Signature = sig
	case *bellatrix.SignedBeaconBlock:
		b.Signature = sig
	case *capella.SignedBeaconBlock:
		b.Signature = sig
	case *deneb.SignedBeaconBlock:
		b.Signature = sig
	case *electra.SignedBeaconBlock:
		b.Signature = sig
	}
}

// read a signed block of any fork: observation + hash-tree-root of its message
func readBlock(spec *common.Spec, o interface{}) (obs blkObs, msgRoot common.Root, ok bool) {
	ok = true
	switch b := o.(type) {
	case *phase0.SignedBeaconBlock:
		m := &b.Message
		obs = blkObs{0, uint64(m.Slot), uint64(m.ProposerIndex), m.ParentRoot, m.StateRoot, m.Body.HashTreeRoot(spec, hFn), b.Signature}
		msgRoot = m.HashTreeRoot(spec, hFn)
	case *altair.SignedBeaconBlock:
		m := &b.Message
		obs = blkObs{1, uint64(m.Slot), uint64(m.ProposerIndex), m.ParentRoot, m.StateRoot, m.Body.HashTreeRoot(spec, hFn), b.Signature}
		msgRoot = m.HashTreeRoot(spec, hFn)
	case *bellatrix.SignedBeaconBlock:
		m := &b.Message
		obs = blkObs{2, uint64(m.Slot), uint64(m.ProposerIndex), m.ParentRoot, m.StateRoot, m.Body.HashTreeRoot(spec, hFn), b.Signature}
		msgRoot = m.HashTreeRoot(spec, hFn)
	case *capella.SignedBeaconBlock:
		m := &b.Message
		obs = blkObs{3, uint64(m.Slot), uint64(m.ProposerIndex), m.ParentRoot, m.StateRoot, m.Body.HashTreeRoot(spec, hFn), b.Signature}
		msgRoot = m.HashTreeRoot(spec, hFn)
	case *deneb.SignedBeaconBlock:
		m := &b.Message
		obs = blkObs{4, uint64(m.Slot), uint64(m.ProposerIndex), m.ParentRoot, m.StateRoot, m.Body.HashTreeRoot(spec, hFn), b.Signature}
		msgRoot = m.HashTreeRoot(spec, hFn)
	case *electra.SignedBeaconBlock:
		m := &b.Message
		obs = blkObs{5, uint64(m.Slot), uint64(m.ProposerIndex), m.ParentRoot, m.StateRoot, m.Body.HashTreeRoot(spec, hFn), b.Signature}
		msgRoot = m.HashTreeRoot(spec, hFn)
	default:
		ok = false
	}
	return
}

func blockTypeIndex(o interface{}) int {
	switch o.(type) {
	case *phase0.SignedBeaconBlock:
		return 0
	case *altair.SignedBeaconBlock:
		return 1
	case *bellatrix.SignedBeaconBlock:
		return 2
	case *capella.SignedBeaconBlock:
		return 3
	case *deneb.SignedBeaconBlock:
		return 4
	case *electra.SignedBeaconBlock:
		return 5
	}
	return 99
}

func bodyTypeIndex(spec *common.Spec, o common.SpecObj) (int, common.Root) {
	switch b := o.(type) {
	case *phase0.BeaconBlockBody:
		return 0, b.HashTreeRoot(spec, hFn)
	case *altair.BeaconBlockBody:
		return 1, b.HashTreeRoot(spec, hFn)
	case *bellatrix.BeaconBlockBody:
		return 2, b.HashTreeRoot(spec, hFn)
	case *capella.BeaconBlockBody:
		return 3, b.HashTreeRoot(spec, hFn)
	case *deneb.BeaconBlockBody:
		return 4, b.HashTreeRoot(spec, hFn)
	case *electra.BeaconBlockBody:
		return 5, b.HashTreeRoot(spec, hFn)
	}
	return 99, common.Root{}
}

func stateTypeIndex(s common.BeaconState) int {
	switch s.(type) {
	case *phase0.BeaconStateView:
		return 0
	case *altair.BeaconStateView:
		return 1
	case *bellatrix.BeaconStateView:
		return 2
	case *capella.BeaconStateView:
		return 3
	case *deneb.BeaconStateView:
		return 4
	case *electra.BeaconStateView:
		return 5
	}
	return 99
}

// allocator result as `gores N`
func allocObs(dec *beacon.ForkDecoder, digest common.ForkDigest) (string, interface{}, func() beacon.OpaqueBlock) {
	var alloc func() beacon.OpaqueBlock
	var err error
	p, _ := Catch(func() { alloc, err = dec.BlockAllocator(digest) })
	if p {
		return "GoPanic", "panic", nil
	}
	if err != nil {
		return "GoErr", "error: " + err.Error(), nil
	}
	idx := blockTypeIndex(alloc())
	name := "unknown type"
	if idx < 7 {
		name = forkNames[idx]
	}
	return fmt.Sprintf("(GoOk %d)", idx), name, alloc
}

// ---------- validators ----------

type keyring struct {
	sk  []*blsu.SecretKey
	pk  []common.BLSPubkey
	val []phase0.KickstartValidatorData
}

func makeKeys(spec *common.Spec) *keyring {
	k := &keyring{}
	for i := 0; i < nValidators; i++ {
		var skb [32]byte
		skb[30] = byte((i + 1) >> 8)
		skb[31] = byte(i + 1)
		sk := new(blsu.SecretKey)
		if err := sk.Deserialize(&skb); err != nil {
			panic(err)
		}
		pub, err := blsu.SkToPk(sk)
		if err != nil {
			panic(err)
		}
		k.sk = append(k.sk, sk)
		k.pk = append(k.pk, pub.Serialize())
		var wc common.Root
		wc[31] = byte(i)
		k.val = append(k.val, phase0.KickstartValidatorData{Pubkey: pub.Serialize(), WithdrawalCredentials: wc, Balance: spec.MAX_EFFECTIVE_BALANCE})
	}
	return k
}

// ---------- the run ----------

func run(e *Env) error {
	r := e.Rng
	base := *configs.Minimal
	keys := makeKeys(&base)

	nSched := e.N(70, 260)
	kinds := []string{"staggered", "equal_adjacent", "equal_adjacent", "all_equal", "some_never", "wrapping", "big", "unsorted", "dup_version"}
	var scheds []*sched
	// the two built-in configurations first (lookups only for mainnet: its epochs are out of reach for ProcessSlots)
	scheds = append(scheds, schedOfSpec(0, "builtin_mainnet", configs.Mainnet), schedOfSpec(1, "builtin_minimal", configs.Minimal))
	copy(scheds[0].gvr[:], mustHex("4b363db94e286120d76eb905340fdd4e54bfe9f06bf33ff6cf5ad27f511bfe95")) // mainnet genesis_validators_root
	copy(scheds[1].gvr[:], r.Bytes(32))
	for i := 0; i < nSched; i++ {
		scheds = append(scheds, genSchedule(r, len(scheds), kinds[i%len(kinds)]))
	}

	var hdr strings.Builder
	hdr.WriteString("From Coq Require Import String NArith List.\nFrom V Require Import Base.Outcome Config.ForkSchedule Config.SpecConstants Config.ConfigRun.\nImport ListNotations.\nLocal Open Scope string_scope.\nLocal Open Scope N_scope.\n")
	for _, s := range scheds {
		fmt.Fprintf(&hdr, "Definition %s := %s.\nDefinition %s := %s.\n", s.cfg(), s.coqCfg(), s.g(), hxs(s.gvr[:]))
	}
	for i, pk := range keys.pk {
		fmt.Fprintf(&hdr, "Definition pk%d := %s.\n", i, hxs(pk[:]))
	}
	e.Header = hdr.String()
	e.CaseType = "ccase"
	e.ShardSize = 400
	e.ShardBytes = 50000
	e.Rule = "schedules: the built-in mainnet/minimal configurations plus random SORTED six-epoch schedules (post-genesis fork epochs >= 1) of the kinds staggered / equal+adjacent / all-equal / some-never (FAR_FUTURE) / wrapping (E*SLOTS_PER_EPOCH >= 2^64) / big / duplicate-version, and unsorted ones (out of domain, model correspondence only); SLOTS_PER_EPOCH 8 or 4; random versions and genesis_validators_root. Per schedule: Spec.ForkVersion and ForkDecoder digest/BlockAllocator at epochs E-1,E,E+1 of every boundary (first/last slot), 0, 2^64-1 and random ones; BlockAllocator on all seven digests and a random one; ProcessSlots from a 64-validator phase0 KickStartState slot by slot through the horizon, observed at boundary-1/boundary/boundary+1 and every epoch start; per fork a signed block serialized, decoded through BlockAllocator, Envelope(), EnvelopeToSignedBeaconBlock; real BLS signatures under the right and each wrong version, wrong digest, wrong proposer, wrong key, corrupted signature through Envelope().VerifySignature; every field of configs.Mainnet/Minimal by reflection. non-trivial = epoch/slot > 0 (lookups), target >= first boundary - 1 (upgrades), every block/signature/constant case; distinct by (schedule, input)"

	hist := map[string]int{}
	for _, s := range scheds {
		hist[s.kind]++
		spec := s.spec(&base)
		if s.kind == "builtin_mainnet" {
			spec = s.spec(configs.Mainnet)
		}
		lookups(e, s, spec)
		if s.kind != "builtin_mainnet" {
			upgrades(e, s, spec, keys)
		}
		if s.sorted() && s.versionsDistinct() {
			blocks(e, s, spec, keys)
		}
	}
	constants(e)
	e.Extra["x_schedule_kinds"] = hist
	return nil
}

func mustHex(s string) []byte {
	b, err := hex.DecodeString(s)
	if err != nil {
		panic(err)
	}
	return b
}

func schedOfSpec(id int, kind string, sp *common.Spec) *sched {
	s := &sched{id: id, kind: kind, spe: uint64(sp.SLOTS_PER_EPOCH)}
	s.ver = [7][4]byte{sp.GENESIS_FORK_VERSION, sp.ALTAIR_FORK_VERSION, sp.BELLATRIX_FORK_VERSION, sp.CAPELLA_FORK_VERSION, sp.DENEB_FORK_VERSION, sp.ELECTRA_FORK_VERSION, sp.FULU_FORK_VERSION}
	s.ep = [6]uint64{uint64(sp.ALTAIR_FORK_EPOCH), uint64(sp.BELLATRIX_FORK_EPOCH), uint64(sp.CAPELLA_FORK_EPOCH), uint64(sp.DENEB_FORK_EPOCH), uint64(sp.ELECTRA_FORK_EPOCH), uint64(sp.FULU_FORK_EPOCH)}
	return s
}

// epochs around every boundary
func boundaryEpochs(r *Rng, s *sched) []uint64 {
	seen := map[uint64]bool{}
	var out []uint64
	add := func(v uint64) {
		if !seen[v] {
			seen[v] = true
			out = append(out, v)
		}
	}
	add(0)
	add(1)
	for _, ep := range s.ep {
		add(ep - 1)
		add(ep)
		add(ep + 1)
	}
	add(farFuture)
	add(farFuture / s.spe)
	add(farFuture/s.spe + 1)
	add(r.U64())
	add(r.U64() >> 40)
	add(uint64(r.Intn(20)))
	sort.Slice(out, func(i, j int) bool { return out[i] < out[j] })
	return out
}

func lookups(e *Env, s *sched, spec *common.Spec) {
	r := e.Rng
	dec := beacon.NewForkDecoder(spec, s.gvr)
	for _, ep := range boundaryEpochs(r, s) {
		// slots of this epoch (when representable)
		var slots []uint64
		if ep <= farFuture/s.spe {
			first := ep * s.spe
			slots = append(slots, first)
			if first+s.spe-1 >= first {
				slots = append(slots, first+s.spe-1)
				if s.spe > 2 && r.Chance(30) {
					slots = append(slots, first+1+uint64(r.Intn(int(s.spe-2))))
				}
			}
		}
		for _, slot := range slots {
			v := spec.ForkVersion(common.Slot(slot))
			kind := "version"
			if !s.sorted() {
				kind = "version_unsorted"
			}
			e.Add(Case{Coq: fmt.Sprintf("CVersion %s %d %d", s.cfg(), slot, u32(v)), Kind: kind, NonTrivial: slot > 0,
				Key: fmt.Sprintf("%d/%d", s.id, slot),
				JSON: merge(s.json(), map[string]interface{}{"fn": "Spec.ForkVersion", "slot": fmt.Sprint(slot), "epoch": fmt.Sprint(slot / s.spe),
					"go_version": v.String(), "spec_fork": forkNames[s.specFork(slot/s.spe)]})})
		}
		digest := dec.ForkDigest(common.Epoch(ep))
		ares, aname, _ := allocObs(dec, digest)
		kind := "digest"
		if !s.sorted() {
			kind = "digest_unsorted"
		}
		e.Add(Case{Coq: fmt.Sprintf("CDigest %s %s %d %s %s", s.cfg(), s.g(), ep, hxs(digest[:]), ares), Kind: kind, NonTrivial: ep > 0,
			Key: fmt.Sprintf("%d/%d", s.id, ep),
			JSON: merge(s.json(), map[string]interface{}{"fn": "ForkDecoder.ForkDigest+BlockAllocator", "epoch": fmt.Sprint(ep),
				"go_digest": digest.String(), "go_block_type": aname, "spec_fork": forkNames[s.specFork(ep)]})})
	}
	// the allocator on each fork's digest and on a foreign digest
	for i := 0; i < 8; i++ {
		var digest common.ForkDigest
		what := "random"
		if i < 7 {
			digest = common.ComputeForkDigest(s.ver[i], s.gvr)
			what = forkNames[i]
		} else {
			copy(digest[:], r.Bytes(4))
		}
		ares, aname, _ := allocObs(dec, digest)
		e.Add(Case{Coq: fmt.Sprintf("CAlloc %s %s %s %s", s.cfg(), s.g(), hxs(digest[:]), ares), Kind: "allocator", NonTrivial: true,
			Key: fmt.Sprintf("%d/%s", s.id, what),
			JSON: merge(s.json(), map[string]interface{}{"fn": "ForkDecoder.BlockAllocator", "digest_of": what, "digest": digest.String(), "go_block_type": aname})})
	}
}

func merge(a, b map[string]interface{}) map[string]interface{} {
	for k, v := range b {
		a[k] = v
	}
	return a
}

func upgrades(e *Env, s *sched, spec *common.Spec, keys *keyring) {
	r := e.Rng
	// horizon: two epochs past the last boundary that lies within 10 epochs (also counting wrapped start slots)
	maxSlot := uint64(3) * s.spe
	check := map[uint64]bool{}
	firstBoundary := ^uint64(0)
	for _, ep := range s.ep {
		start := ep * s.spe // wraps exactly as the snapshot's trigger does
		if start <= 10*s.spe && start > 0 {
			if start+2*s.spe > maxSlot {
				maxSlot = start + 2*s.spe
			}
			check[start-1], check[start], check[start+1] = true, true, true
			if start < firstBoundary {
				firstBoundary = start
			}
		}
	}
	for sl := s.spe; sl <= maxSlot; sl += s.spe {
		check[sl] = true
	}
	check[1], check[maxSlot] = true, true
	check[1+uint64(r.Intn(int(maxSlot)))] = true

	state, epc, err := phase0.KickStartState(spec, common.Root{0x42}, 1600000000, keys.val)
	if err != nil {
		panic(fmt.Sprintf("KickStartState: %v", err))
	}
	us := &beacon.StandardUpgradeableBeaconState{BeaconState: state}
	ctx := context.Background()
	kind := "upgrade"
	if !s.sorted() {
		kind = "upgrade_unsorted"
	} else if s.kind == "wrapping" {
		kind = "upgrade_wrapping"
	}
	for sl := uint64(1); sl <= maxSlot; sl++ {
		var perr error
		p, _ := Catch(func() { perr = common.ProcessSlots(ctx, spec, epc, us, common.Slot(sl)) })
		obs := "GoPanic"
		js := map[string]interface{}{"fn": "KickStartState; ProcessSlots slot by slot", "target_slot": sl, "epoch": sl / s.spe, "spec_fork": forkNames[s.specFork(sl/s.spe)]}
		if !p && perr != nil {
			obs = "GoErr"
			js["go_error"] = perr.Error()
		} else if !p {
			fk, ferr := us.Fork()
			if ferr != nil {
				obs = "GoErr"
			} else {
				ti := stateTypeIndex(us.BeaconState)
				obs = fmt.Sprintf("(GoOk [%d; %d; %d; %d])", ti, u32(fk.PreviousVersion), u32(fk.CurrentVersion), uint64(fk.Epoch))
				js["go_state_type"] = fmt.Sprint(ti)
				if ti < 7 {
					js["go_state_type"] = forkNames[ti]
				}
				js["go_fork"] = map[string]string{"previous_version": fk.PreviousVersion.String(), "current_version": fk.CurrentVersion.String(), "epoch": fmt.Sprint(uint64(fk.Epoch))}
			}
		}
		if check[sl] || p || perr != nil {
			e.Add(Case{Coq: fmt.Sprintf("CUpgrade %s %d %s", s.cfg(), sl, obs), Kind: kind, NonTrivial: sl+1 >= firstBoundary,
				Key: fmt.Sprintf("%d/%d", s.id, sl), JSON: merge(s.json(), js)})
		}
		if p || perr != nil {
			return
		}
	}
	// the same target in ONE ProcessSlots call on a fresh state
	if r.Chance(40) {
		state2, epc2, err := phase0.KickStartState(spec, common.Root{0x42}, 1600000000, keys.val)
		if err != nil {
			panic(err)
		}
		us2 := &beacon.StandardUpgradeableBeaconState{BeaconState: state2}
		var perr error
		p, _ := Catch(func() { perr = common.ProcessSlots(ctx, spec, epc2, us2, common.Slot(maxSlot)) })
		obs := "GoPanic"
		if !p && perr != nil {
			obs = "GoErr"
		} else if !p {
			fk, _ := us2.Fork()
			obs = fmt.Sprintf("(GoOk [%d; %d; %d; %d])", stateTypeIndex(us2.BeaconState), u32(fk.PreviousVersion), u32(fk.CurrentVersion), uint64(fk.Epoch))
		}
		e.Add(Case{Coq: fmt.Sprintf("CUpgrade %s %d %s", s.cfg(), maxSlot, obs), Kind: kind + "_one_call", NonTrivial: true,
			Key: fmt.Sprintf("%d/%d/one", s.id, maxSlot),
			JSON: merge(s.json(), map[string]interface{}{"fn": "KickStartState; ProcessSlots in one call", "target_slot": maxSlot, "go": obs})})
	}
}

func serialize(spec *common.Spec, o common.SpecObj) []byte {
	var buf bytes.Buffer
	if err := o.Serialize(spec, codec.NewEncodingWriter(&buf)); err != nil {
		panic(err)
	}
	return buf.Bytes()
}

func envObs(spec *common.Spec, env *common.BeaconBlockEnvelope) (string, map[string]interface{}) {
	bi, _ := bodyTypeIndex(spec, env.Body)
	return fmt.Sprintf("(mkE %s %d %d %s %s %s %d %s %s)", hxs(env.ForkDigest[:]), uint64(env.Slot), uint64(env.ProposerIndex),
			hxs(env.ParentRoot[:]), hxs(env.StateRoot[:]), hxs(env.BodyRoot[:]), bi, hxs(env.BlockRoot[:]), hxs(env.Signature[:])),
		map[string]interface{}{"fork_digest": env.ForkDigest.String(), "slot": fmt.Sprint(uint64(env.Slot)), "proposer_index": uint64(env.ProposerIndex),
			"body_root": env.BodyRoot.String(), "block_root": env.BlockRoot.String(), "body_type": bi, "signature": env.Signature.String()}
}

func blocks(e *Env, s *sched, spec *common.Spec, keys *keyring) {
	r := e.Rng
	dec := beacon.NewForkDecoder(spec, s.gvr)
	// --- envelope round trips: one block of every fork that has a block type ---
	for f := 0; f < 6; f++ {
		if !e.Quick() || s.id%3 == f%3 || s.id < 2 { // quick tier: two forks per schedule, rotating
			slot := r.U64() >> uint(r.Intn(64))
			var parent, st, graffiti common.Root
			var randao, sig common.BLSSignature
			copy(parent[:], r.Bytes(32))
			copy(st[:], r.Bytes(32))
			copy(graffiti[:], r.Bytes(32))
			copy(randao[:], r.Bytes(96))
			copy(sig[:], r.Bytes(96))
			blk := makeBlock(spec, f, slot, r.U64()>>uint(r.Intn(64)), parent, st, randao, graffiti)
			setSig(blk, sig)
			in, msgRoot, _ := readBlock(spec, blk)
			digest := common.ComputeForkDigest(s.ver[f], s.gvr)
			js := merge(s.json(), map[string]interface{}{"fn": "serialize; BlockAllocator(digest); Deserialize; Envelope; EnvelopeToSignedBeaconBlock", "block": in.json(), "digest": digest.String()})
			envS := `(mkE [] 0 0 [] [] [] 99 [] [])`
			backS := "GoErr"
			_, _, alloc := allocObs(dec, digest)
			if alloc != nil {
				obj := alloc()
				data := serialize(spec, blk)
				derr := obj.Deserialize(spec, codec.NewDecodingReader(bytes.NewReader(data), uint64(len(data))))
				if derr == nil {
					var env *common.BeaconBlockEnvelope
					p, _ := Catch(func() { env = obj.Envelope(spec, digest) })
					if !p {
						var ej map[string]interface{}
						envS, ej = envObs(spec, env)
						js["go_envelope"] = ej
						var back common.SpecObj
						var berr error
						p2, _ := Catch(func() { back, berr = beacon.EnvelopeToSignedBeaconBlock(env) })
						if p2 {
							backS = "GoPanic"
						} else if berr == nil {
							if bo, _, ok := readBlock(spec, back); ok {
								backS = "(GoOk " + bo.coq() + ")"
								js["go_back"] = bo.json()
							}
						}
					}
				} else {
					js["go_decode_error"] = derr.Error()
				}
			}
			e.Add(Case{Coq: fmt.Sprintf("CEnvelope %s %s %s %s %s", in.coq(), hxs(digest[:]), hxs(msgRoot[:]), envS, backS),
				Kind: "envelope_" + forkNames[f], NonTrivial: true, Key: fmt.Sprintf("%d/%d", s.id, f), JSON: js})
		}
	}
	// --- signatures through the envelope ---
	nb := e.N(2, 5)
	eps := boundaryEpochs(r, s)
	for k := 0; k < nb; k++ {
		ep := eps[r.Intn(len(eps))]
		if ep > farFuture/s.spe {
			ep = farFuture / s.spe
		}
		slot := ep * s.spe
		if slot+uint64(r.Intn(int(s.spe))) >= slot {
			slot += uint64(r.Intn(int(s.spe)))
		}
		ep = slot / s.spe
		sf := s.specFork(ep)
		bf := sf
		if bf > 5 {
			bf = 5
		}
		proposer := uint64(r.Intn(nValidators))
		var parent, st, graffiti common.Root
		var randao common.BLSSignature
		copy(parent[:], r.Bytes(32))
		copy(st[:], r.Bytes(32))
		copy(graffiti[:], r.Bytes(32))
		blk := makeBlock(spec, bf, slot, proposer, parent, st, randao, graffiti)
		_, msgRoot, _ := readBlock(spec, blk)
		slotDigest := common.ComputeForkDigest(s.ver[sf], s.gvr) // digest of the version the specification gives this slot

		type variant struct {
			class    string
			name     string
			signVer  int // index of the version signed under
			digest   common.ForkDigest
			proposer uint64
			pk       int
			corrupt  bool
		}
		vars := []variant{{"right", "right", sf, slotDigest, proposer, int(proposer), false}}
		for w := 0; w < 7; w++ {
			if w != sf && (w == sf-1 || w == sf+1 || r.Chance(e.N(25, 60))) {
				vars = append(vars, variant{"wrong_version", "wrong_version_" + forkNames[w], w, slotDigest, proposer, int(proposer), false})
			}
		}
		w := (sf + 1 + r.Intn(6)) % 7
		vars = append(vars, variant{"wrong_fork_consistent", "wrong_fork_consistent_" + forkNames[w], w, common.ComputeForkDigest(s.ver[w], s.gvr), proposer, int(proposer), false})
		switch r.Intn(4) {
		case 0:
			vars = append(vars, variant{"wrong_proposer", "wrong_proposer", sf, slotDigest, (proposer + 1) % nValidators, int(proposer), false})
		case 1:
			vars = append(vars, variant{"wrong_key", "wrong_key", sf, slotDigest, proposer, int(proposer+1) % nValidators, false})
		case 2:
			vars = append(vars, variant{"corrupt_signature", "corrupt_signature", sf, slotDigest, proposer, int(proposer), true})
		case 3:
			var d common.ForkDigest
			copy(d[:], r.Bytes(4))
			vars = append(vars, variant{"wrong_digest", "wrong_digest", sf, d, proposer, int(proposer), false})
		}
		for _, v := range vars {
			dom := common.ComputeDomain(common.DOMAIN_BEACON_PROPOSER, s.ver[v.signVer], s.gvr)
			msg := common.ComputeSigningRoot(msgRoot, dom)
			made := common.BLSSignature(blsu.Sign(keys.sk[proposer], msg[:]).Serialize())
			used := made
			if v.corrupt {
				used[5+r.Intn(90)] ^= 1 << uint(r.Intn(8))
			}
			setSig(blk, used)
			in, _, _ := readBlock(spec, blk)
			var ok bool
			p, _ := Catch(func() {
				env := blk.Envelope(spec, v.digest)
				ok = env.VerifySignature(spec, s.gvr, common.ValidatorIndex(v.proposer), &common.CachedPubkey{Compressed: keys.pk[v.pk]})
			})
			if p {
				ok = false
			}
			// the table of signatures the harness made: `made` by validator `proposer` over `msg`; a corrupted
			// signature is in nobody's table
			signed := in.coq()
			tableSigner := fmt.Sprintf("pk%d", proposer)
			if v.corrupt {
				tableSigner = "[]"
			}
			e.Add(Case{Coq: fmt.Sprintf("CSig %s %s %s %s %d pk%d %s %s %s", s.cfg(), s.g(), signed, hxs(v.digest[:]), v.proposer, v.pk, tableSigner, hxs(msg[:]), CoqBool(ok)),
				Kind: "signature_" + v.class, NonTrivial: true, Key: fmt.Sprintf("%d/%d/%s", s.id, k, v.name),
				JSON: merge(s.json(), map[string]interface{}{"fn": "Envelope(spec,digest).VerifySignature", "variant": v.name, "block": in.json(), "slot_epoch": fmt.Sprint(ep),
					"spec_fork_of_slot": forkNames[sf], "signed_under": forkNames[v.signVer], "envelope_digest": v.digest.String(), "proposer_arg": v.proposer, "pubkey_of_validator": v.pk, "go_accepts": ok, "panic": p})})
		}
	}
}

// ---------- constants: every field of the decoded built-in configurations ----------

func cvalOf(v reflect.Value) (string, string) {
	switch x := v.Interface().(type) {
	case string:
		return "CStr " + `"` + x + `"`, x
	case common.Version:
		return `hex "` + hex.EncodeToString(x[:]) + `"`, x.String()
	case common.NetworkMessageDomain:
		return `hex "` + hex.EncodeToString(x[:]) + `"`, x.String()
	case common.Eth1Address:
		return `hex "` + hex.EncodeToString(x[:]) + `"`, x.String()
	case common.Hash32:
		return `hex "` + hex.EncodeToString(x[:]) + `"`, hex.EncodeToString(x[:])
	case fmt.Stringer:
		// Uint256View and the uint64 kinds print as decimal
		if v.Kind() == reflect.Uint64 || v.Kind() == reflect.Uint8 {
			return fmt.Sprintf("CN %d", v.Uint()), fmt.Sprint(v.Uint())
		}
		s := x.String()
		if strings.HasPrefix(s, "0x") {
			return `hex "` + s[2:] + `"`, s
		}
		return "CN " + s, s
	}
	switch v.Kind() {
	case reflect.Uint64, reflect.Uint8, reflect.Uint32, reflect.Uint16, reflect.Uint:
		return fmt.Sprintf("CN %d", v.Uint()), fmt.Sprint(v.Uint())
	}
	return `CStr "?unsupported field type"`, "?"
}

// the constants written in Go source (same names as SpecConstants.go_constants), read from the compiled package
func goConstants(e *Env) {
	type gc struct {
		name string
		val  interface{}
	}
	list := []gc{
		{"TARGET_AGGREGATORS_PER_COMMITTEE", uint64(common.TARGET_AGGREGATORS_PER_COMMITTEE)},
		{"RANDOM_SUBNETS_PER_VALIDATOR", uint64(common.RANDOM_SUBNETS_PER_VALIDATOR)},
		{"EPOCHS_PER_RANDOM_SUBNET_SUBSCRIPTION", uint64(common.EPOCHS_PER_RANDOM_SUBNET_SUBSCRIPTION)},
		{"BLS_WITHDRAWAL_PREFIX", uint64(common.BLS_WITHDRAWAL_PREFIX)},
		{"ETH1_ADDRESS_WITHDRAWAL_PREFIX", uint64(common.ETH1_ADDRESS_WITHDRAWAL_PREFIX)},
		{"SYNC_COMMITTEE_SUBNET_COUNT", uint64(common.SYNC_COMMITTEE_SUBNET_COUNT)},
		{"TARGET_AGGREGATORS_PER_SYNC_SUBCOMMITTEE", uint64(common.TARGET_AGGREGATORS_PER_SYNC_SUBCOMMITTEE)},
		{"DOMAIN_BEACON_PROPOSER", common.DOMAIN_BEACON_PROPOSER}, {"DOMAIN_BEACON_ATTESTER", common.DOMAIN_BEACON_ATTESTER},
		{"DOMAIN_RANDAO", common.DOMAIN_RANDAO}, {"DOMAIN_DEPOSIT", common.DOMAIN_DEPOSIT},
		{"DOMAIN_VOLUNTARY_EXIT", common.DOMAIN_VOLUNTARY_EXIT}, {"DOMAIN_SELECTION_PROOF", common.DOMAIN_SELECTION_PROOF},
		{"DOMAIN_AGGREGATE_AND_PROOF", common.DOMAIN_AGGREGATE_AND_PROOF}, {"DOMAIN_SYNC_COMMITTEE", common.DOMAIN_SYNC_COMMITTEE},
		{"DOMAIN_SYNC_COMMITTEE_SELECTION_PROOF", common.DOMAIN_SYNC_COMMITTEE_SELECTION_PROOF},
		{"DOMAIN_CONTRIBUTION_AND_PROOF", common.DOMAIN_CONTRIBUTION_AND_PROOF},
		{"DOMAIN_BLS_TO_EXECUTION_CHANGE", common.DOMAIN_BLS_TO_EXECUTION_CHANGE},
		{"BLOB_TX_TYPE", uint64(common.BLOB_TX_TYPE)}, {"VERSIONED_HASH_VERSION_KZG", uint64(common.VERSIONED_HASH_VERSION_KZG)},
		{"FAR_FUTURE_EPOCH", uint64(common.FAR_FUTURE_EPOCH)}, {"BASE_REWARDS_PER_EPOCH", uint64(common.BASE_REWARDS_PER_EPOCH)},
		{"DEPOSIT_CONTRACT_TREE_DEPTH", uint64(common.DEPOSIT_CONTRACT_TREE_DEPTH)}, {"SECONDS_PER_DAY", uint64(common.SECONDS_PER_DAY)},
		{"GENESIS_SLOT", uint64(common.GENESIS_SLOT)}, {"GENESIS_EPOCH", uint64(common.GENESIS_EPOCH)},
		{"JUSTIFICATION_BITS_LENGTH", uint64(common.JUSTIFICATION_BITS_LENGTH)},
		{"TIMELY_SOURCE_FLAG_INDEX", uint64(altair.TIMELY_SOURCE_FLAG_INDEX)}, {"TIMELY_TARGET_FLAG_INDEX", uint64(altair.TIMELY_TARGET_FLAG_INDEX)},
		{"TIMELY_HEAD_FLAG_INDEX", uint64(altair.TIMELY_HEAD_FLAG_INDEX)},
		{"TIMELY_SOURCE_FLAG", uint64(altair.TIMELY_SOURCE_FLAG)}, {"TIMELY_TARGET_FLAG", uint64(altair.TIMELY_TARGET_FLAG)},
		{"TIMELY_HEAD_FLAG", uint64(altair.TIMELY_HEAD_FLAG)},
		{"TIMELY_SOURCE_WEIGHT", uint64(altair.TIMELY_SOURCE_WEIGHT)}, {"TIMELY_TARGET_WEIGHT", uint64(altair.TIMELY_TARGET_WEIGHT)},
		{"TIMELY_HEAD_WEIGHT", uint64(altair.TIMELY_HEAD_WEIGHT)}, {"SYNC_REWARD_WEIGHT", uint64(altair.SYNC_REWARD_WEIGHT)},
		{"PROPOSER_WEIGHT", uint64(altair.PROPOSER_WEIGHT)}, {"WEIGHT_DENOMINATOR", uint64(altair.WEIGHT_DENOMINATOR)},
	}
	for _, c := range list {
		term, human := "", ""
		switch v := c.val.(type) {
		case uint64:
			term, human = fmt.Sprintf("CN %d", v), fmt.Sprint(v)
		case common.BLSDomainType:
			term, human = `hex "`+hex.EncodeToString(v[:])+`"`, "0x"+hex.EncodeToString(v[:])
		}
		e.Add(Case{Coq: fmt.Sprintf("CConst \"go\" \"constants\" \"%s\" (%s)", c.name, term), Kind: "constant_go_source", NonTrivial: true,
			JSON: map[string]interface{}{"fn": "Go constant (compiled value)", "name": c.name, "go_value": human}})
	}
	e.Add(Case{Coq: fmt.Sprintf("CConstCount \"go\" \"constants\" %d", len(list)), Kind: "constant_count", NonTrivial: true,
		JSON: map[string]interface{}{"fn": "Go constants", "count": len(list)}})
}

func constants(e *Env) {
	goConstants(e)
	for _, nc := range []struct {
		name string
		spec *common.Spec
	}{{"mainnet", configs.Mainnet}, {"minimal", configs.Minimal}} {
		sv := reflect.ValueOf(*nc.spec)
		st := sv.Type()
		for i := 0; i < st.NumField(); i++ {
			sec := st.Field(i)
			if sec.Type.Kind() != reflect.Struct || !sec.Anonymous {
				continue // ExecutionEngine
			}
			secv := sv.Field(i)
			n := 0
			for j := 0; j < sec.Type.NumField(); j++ {
				fld := sec.Type.Field(j)
				key := fld.Tag.Get("yaml")
				if key == "" || key == "-" {
					key = fld.Name
				}
				term, human := cvalOf(secv.Field(j))
				n++
				e.Add(Case{Coq: fmt.Sprintf("CConst \"%s\" \"%s\" \"%s\" (%s)", nc.name, sec.Name, key, term), Kind: "constant_" + nc.name, NonTrivial: true,
					JSON: map[string]interface{}{"fn": "configs." + strings.Title(nc.name), "section": sec.Name, "field": fld.Name, "yaml_tag": fld.Tag.Get("yaml"), "go_value": human}})
			}
			e.Add(Case{Coq: fmt.Sprintf("CConstCount \"%s\" \"%s\" %d", nc.name, sec.Name, n), Kind: "constant_count", NonTrivial: true,
				JSON: map[string]interface{}{"fn": "configs." + strings.Title(nc.name), "section": sec.Name, "struct_fields": n}})
		}
	}
}
