// C01IMPL correspondence harness: runs zrnt's exported block-operation functions on small hand-built states and prints
// each observation as a case of coq/Beacon/Refine/BlockImplRun.v (impl_ok: Go = Impl model of Beacon/Impl/BlockOps.v;
// spec_ok: Go = Spec function).  C19 conventions: cases_k.v ends with `Definition M := Eval vm_compute in mismatches cases.`,
// code bit 1 = Go differs from the Impl model, bit 2 = Go differs from the Spec on an in-domain input.
//
//	capella.GetExpectedWithdrawals, capella.ProcessWithdrawals, phase0.InitiateValidatorExit, phase0.SlashValidator,
//	altair.ProcessSyncAggregate (real BLS keys = small integers, real signatures), phase0.ProcessDeposits (real Merkle
//	proofs), common.ProcessHeader, phase0.ProcessEth1Vote.
//
// ProcessAttestation needs committees and aggregate signatures of a whole epoch: left to the chain-level correspondence.
package main

import (
	"bytes"
	"context"
	"crypto/sha256"
	"encoding/binary"
	"fmt"
	"strings"
	. "verifharness/hx"

	blsu "github.com/protolambda/bls12-381-util"
	"github.com/protolambda/zrnt/eth2/beacon/altair"
	"github.com/protolambda/zrnt/eth2/beacon/capella"
	"github.com/protolambda/zrnt/eth2/beacon/common"
	"github.com/protolambda/zrnt/eth2/beacon/phase0"
	"github.com/protolambda/zrnt/eth2/configs"
	"github.com/protolambda/zrnt/eth2/util/math"
	"github.com/protolambda/ztyp/codec"
	"github.com/protolambda/ztyp/tree"
	"github.com/protolambda/ztyp/view"
)

func main() { Main("C01IMPL", run) }

const FAR = ^uint64(0)
const ETH = uint64(1000000000)
const SPE = 8

// ---- configuration: the values of blk_num (coq/Beacon/Refine/BlockFixtures.v) plus per-case overrides ----
type OV struct {
	K string
	V uint64
}

func mkSpec(ov []OV) *common.Spec {
	c := *configs.Minimal
	s := &c
	s.MAX_EFFECTIVE_BALANCE = common.Gwei(32 * ETH)
	s.EFFECTIVE_BALANCE_INCREMENT = common.Gwei(ETH)
	s.SLOTS_PER_EPOCH = SPE
	s.MIN_SEED_LOOKAHEAD = 1
	s.MAX_SEED_LOOKAHEAD = 4
	s.SLOTS_PER_HISTORICAL_ROOT = 64
	s.EPOCHS_PER_HISTORICAL_VECTOR = 64
	s.EPOCHS_PER_SLASHINGS_VECTOR = 64
	s.HISTORICAL_ROOTS_LIMIT = 16777216
	s.VALIDATOR_REGISTRY_LIMIT = 1099511627776
	s.BASE_REWARD_FACTOR = 64
	s.WHISTLEBLOWER_REWARD_QUOTIENT = 512
	s.PROPOSER_REWARD_QUOTIENT = 8
	s.MIN_SLASHING_PENALTY_QUOTIENT = 64
	s.MIN_SLASHING_PENALTY_QUOTIENT_ALTAIR = 64
	s.MIN_SLASHING_PENALTY_QUOTIENT_BELLATRIX = 32
	s.SYNC_COMMITTEE_SIZE = 2
	s.MAX_DEPOSITS = 16
	s.MAX_WITHDRAWALS_PER_PAYLOAD = 4
	s.MAX_VALIDATORS_PER_WITHDRAWALS_SWEEP = 16
	s.MIN_VALIDATOR_WITHDRAWABILITY_DELAY = 256
	s.MIN_PER_EPOCH_CHURN_LIMIT = 2
	s.CHURN_LIMIT_QUOTIENT = 32
	s.SHUFFLE_ROUND_COUNT = 2
	s.EPOCHS_PER_ETH1_VOTING_PERIOD = 4
	for _, o := range ov {
		switch o.K {
		case "SYNC_COMMITTEE_SIZE":
			s.SYNC_COMMITTEE_SIZE = view.Uint64View(o.V)
		case "MAX_WITHDRAWALS_PER_PAYLOAD":
			s.MAX_WITHDRAWALS_PER_PAYLOAD = view.Uint64View(o.V)
		case "MAX_VALIDATORS_PER_WITHDRAWALS_SWEEP":
			s.MAX_VALIDATORS_PER_WITHDRAWALS_SWEEP = view.Uint64View(o.V)
		case "MIN_PER_EPOCH_CHURN_LIMIT":
			s.MIN_PER_EPOCH_CHURN_LIMIT = view.Uint64View(o.V)
		case "CHURN_LIMIT_QUOTIENT":
			s.CHURN_LIMIT_QUOTIENT = view.Uint64View(o.V)
		case "MAX_SEED_LOOKAHEAD":
			s.MAX_SEED_LOOKAHEAD = common.Epoch(o.V)
		case "EPOCHS_PER_ETH1_VOTING_PERIOD":
			s.EPOCHS_PER_ETH1_VOTING_PERIOD = common.Epoch(o.V)
		case "MIN_VALIDATOR_WITHDRAWABILITY_DELAY":
			s.MIN_VALIDATOR_WITHDRAWABILITY_DELAY = common.Epoch(o.V)
		default:
			panic("unknown override " + o.K)
		}
	}
	return s
}

func coqOV(ov []OV) string {
	items := make([]string, len(ov))
	for i, o := range ov {
		items[i] = fmt.Sprintf("(\"%s\"%%string, %d)", o.K, o.V)
	}
	return CoqList(items)
}

// ---- small states ----
type MV struct {
	E1                bool
	Eff               uint64
	Slashed           bool
	Act, Exit, Wd     uint64
}

func (v MV) coq() string {
	return fmt.Sprintf("(%s, %d, %s, %d, %d, %d)", CoqBool(v.E1), v.Eff, CoqBool(v.Slashed), v.Act, v.Exit, v.Wd)
}
func coqVals(vs []MV) string {
	items := make([]string, len(vs))
	for i, v := range vs {
		items[i] = v.coq()
	}
	return CoqList(items)
}
func coqNs(xs []uint64) string {
	items := make([]string, len(xs))
	for i, x := range xs {
		items[i] = fmt.Sprintf("%d", x)
	}
	return CoqList(items)
}
func coqBools(xs []bool) string {
	items := make([]string, len(xs))
	for i, x := range xs {
		items[i] = CoqBool(x)
	}
	return CoqList(items)
}

func eth1OfID(id uint64) common.Eth1Data {
	return common.Eth1Data{DepositRoot: patt(byte(id)), DepositCount: common.DepositIndex(id), BlockHash: patt(byte(id))}
}

func patt(b byte) (r common.Root) {
	for i := range r {
		r[i] = b
	}
	return
}

var sks []*blsu.SecretKey
var pks []common.BLSPubkey

func keys(n int) {
	for len(sks) < n {
		var b [32]byte
		binary.BigEndian.PutUint64(b[24:], uint64(len(sks)+1))
		var sk blsu.SecretKey
		if err := sk.Deserialize(&b); err != nil {
			panic(err)
		}
		pub, err := blsu.SkToPk(&sk)
		if err != nil {
			panic(err)
		}
		sks = append(sks, &sk)
		pks = append(pks, common.BLSPubkey(pub.Serialize()))
	}
}

type Mini struct {
	Fork         int // 0 phase0, 1 altair, 3 capella
	Slot         uint64
	Vals         []MV
	Bals         []uint64
	Latest       common.BeaconBlockHeader
	Eth1         common.Eth1Data
	DepIndex     uint64
	Sync         []int // validator ids of the current sync committee
	Votes        []uint64 // eth1 data votes, as ids
	NWI, NWVI    uint64
}

func buildState(spec *common.Spec, m *Mini) (common.BeaconState, error) {
	keys(len(m.Vals) + 1)
	vals := make(phase0.ValidatorRegistry, len(m.Vals))
	for i, v := range m.Vals {
		var wc common.Root
		if v.E1 {
			wc[0] = 1
		}
		for j := 12; j < 32; j++ {
			wc[j] = byte(i)
		}
		vals[i] = &phase0.Validator{Pubkey: pks[i], WithdrawalCredentials: wc, EffectiveBalance: common.Gwei(v.Eff), Slashed: v.Slashed,
			ActivationEligibilityEpoch: 0, ActivationEpoch: common.Epoch(v.Act),
			ExitEpoch: common.Epoch(v.Exit), WithdrawableEpoch: common.Epoch(v.Wd)}
	}
	bals := make(phase0.Balances, len(m.Bals))
	for i, b := range m.Bals {
		bals[i] = common.Gwei(b)
	}
	br := make(phase0.HistoricalBatchRoots, 64)
	sr := make(phase0.HistoricalBatchRoots, 64)
	mixes := make(phase0.RandaoMixes, 64)
	for i := 0; i < 64; i++ {
		br[i] = patt(byte(i + 1))
		mixes[i] = patt(byte(i + 1))
	}
	sl := make(phase0.SlashingsHistory, 64)
	n := len(m.Vals)
	pp := make(altair.ParticipationRegistry, n)
	cp := make(altair.ParticipationRegistry, n)
	scores := make(altair.InactivityScores, n)
	votes := make(phase0.Eth1DataVotes, len(m.Votes))
	for i, id := range m.Votes {
		votes[i] = eth1OfID(id)
	}
	fork := common.Fork{PreviousVersion: common.Version{0, 0, 0, 1}, CurrentVersion: common.Version{0, 0, 0, 1}}
	sc := common.SyncCommittee{Pubkeys: make([]common.BLSPubkey, spec.SYNC_COMMITTEE_SIZE)}
	for i, id := range m.Sync {
		sc.Pubkeys[i] = pks[id]
	}
	var buf bytes.Buffer
	w := codec.NewEncodingWriter(&buf)
	var err error
	switch m.Fork {
	case 0:
		s := &phase0.BeaconState{Slot: common.Slot(m.Slot), Fork: fork, LatestBlockHeader: m.Latest, BlockRoots: br, StateRoots: sr,
			Eth1Data: m.Eth1, Eth1DataVotes: votes, Eth1DepositIndex: common.DepositIndex(m.DepIndex),
			Validators: vals, Balances: bals, RandaoMixes: mixes, Slashings: sl, JustificationBits: common.JustificationBits{0}}
		err = s.Serialize(spec, w)
	case 1:
		s := &altair.BeaconState{Slot: common.Slot(m.Slot), Fork: fork, LatestBlockHeader: m.Latest, BlockRoots: br, StateRoots: sr,
			Eth1Data: m.Eth1, Eth1DataVotes: votes, Eth1DepositIndex: common.DepositIndex(m.DepIndex),
			Validators: vals, Balances: bals, RandaoMixes: mixes, Slashings: sl,
			PreviousEpochParticipation: pp, CurrentEpochParticipation: cp, JustificationBits: common.JustificationBits{0},
			InactivityScores: scores, CurrentSyncCommittee: sc, NextSyncCommittee: sc}
		err = s.Serialize(spec, w)
	default:
		s := &capella.BeaconState{Slot: common.Slot(m.Slot), Fork: fork, LatestBlockHeader: m.Latest, BlockRoots: br, StateRoots: sr,
			Eth1Data: m.Eth1, Eth1DataVotes: votes, Eth1DepositIndex: common.DepositIndex(m.DepIndex),
			Validators: vals, Balances: bals, RandaoMixes: mixes, Slashings: sl,
			PreviousEpochParticipation: pp, CurrentEpochParticipation: cp, JustificationBits: common.JustificationBits{0},
			InactivityScores: scores, CurrentSyncCommittee: sc, NextSyncCommittee: sc,
			NextWithdrawalIndex: common.WithdrawalIndex(m.NWI), NextWithdrawalValidatorIndex: common.ValidatorIndex(m.NWVI)}
		err = s.Serialize(spec, w)
	}
	if err != nil {
		return nil, err
	}
	data := buf.Bytes()
	dr := codec.NewDecodingReader(bytes.NewReader(data), uint64(len(data)))
	switch m.Fork {
	case 0:
		return phase0.AsBeaconStateView(phase0.BeaconStateType(spec).Deserialize(dr))
	case 1:
		return altair.AsBeaconStateView(altair.BeaconStateType(spec).Deserialize(dr))
	default:
		return capella.AsBeaconStateView(capella.BeaconStateType(spec).Deserialize(dr))
	}
}

// the EpochsContext fields the block operations read, filled by hand
func mkEpc(spec *common.Spec, st common.BeaconState, slot uint64, active []common.ValidatorIndex, proposer uint64, syncIDs []int, total uint64) (*common.EpochsContext, error) {
	vals, err := st.Validators()
	if err != nil {
		return nil, err
	}
	pc, err := common.NewPubkeyCache(vals)
	if err != nil {
		return nil, err
	}
	ep := common.Epoch(slot / SPE)
	props := make([]common.ValidatorIndex, SPE)
	for i := range props {
		props[i] = common.ValidatorIndex(proposer)
	}
	epc := &common.EpochsContext{Spec: spec, ValidatorPubkeyCache: pc,
		Proposers:    &common.ProposersEpoch{Spec: spec, Epoch: ep, Proposers: props},
		CurrentEpoch: &common.ShufflingEpoch{Epoch: ep, ActiveIndices: active},
		TotalActiveStake: common.Gwei(total), TotalActiveStakeSqRoot: common.Gwei(math.IntegerSquareroot(total))}
	if syncIDs != nil {
		isc := &common.IndexedSyncCommittee{}
		for _, id := range syncIDs {
			isc.Indices = append(isc.Indices, common.ValidatorIndex(id))
			isc.CachedPubkeys = append(isc.CachedPubkeys, &common.CachedPubkey{Compressed: pks[id]})
		}
		epc.CurrentSyncCommittee = isc
	}
	return epc, nil
}

func activeOf(vs []MV, ep uint64) (out []common.ValidatorIndex) {
	for i, v := range vs {
		if v.Act <= ep && ep < v.Exit {
			out = append(out, common.ValidatorIndex(i))
		}
	}
	return
}

func balancesOf(st common.BeaconState) ([]uint64, error) {
	bals, err := st.Balances()
	if err != nil {
		return nil, err
	}
	all, err := bals.AllBalances()
	if err != nil {
		return nil, err
	}
	out := make([]uint64, len(all))
	for i, b := range all {
		out[i] = uint64(b)
	}
	return out, nil
}

func res(panicked bool, err error, ok string) string {
	if panicked {
		return "GoPanic"
	}
	if err != nil {
		return "GoErr"
	}
	return "(GoOk " + ok + ")"
}

// a state with exactly one validator (index p) active in the epoch of `slot`, full effective balance; the others are
// exited-not-withdrawable, pending or withdrawable
func oneActive(r *Rng, n, p int, ep uint64) []MV {
	vs := make([]MV, n)
	for i := range vs {
		switch r.Intn(4) {
		case 0: // exited, still slashable
			vs[i] = MV{E1: r.Bool(), Eff: 32 * ETH, Act: 0, Exit: ep, Wd: ep + 1 + uint64(r.Intn(300))}
		case 1: // not yet active
			vs[i] = MV{E1: r.Bool(), Eff: uint64(r.Intn(33)) * ETH, Act: ep + 1 + uint64(r.Intn(3)), Exit: FAR, Wd: FAR}
		case 2: // withdrawable
			vs[i] = MV{E1: true, Eff: uint64(r.Intn(33)) * ETH, Act: 0, Exit: ep - uint64(r.Intn(2)), Wd: ep}
		default: // exited long ago, slashed
			vs[i] = MV{E1: r.Bool(), Eff: 31 * ETH, Slashed: true, Act: 0, Exit: 1, Wd: ep + 5}
		}
	}
	vs[p] = MV{E1: r.Bool(), Eff: 32 * ETH, Act: 0, Exit: FAR, Wd: FAR}
	return vs
}

func randBal(r *Rng) uint64 {
	switch r.Intn(6) {
	case 0:
		return 0
	case 1:
		return uint64(r.Intn(20000))
	case 2:
		return 32 * ETH
	case 3:
		return 32*ETH + uint64(r.Intn(1000000000))
	case 4:
		return uint64(r.Intn(64)) * ETH
	default:
		return 31*ETH + uint64(r.Intn(2000000000))
	}
}

func run(env *Env) error {
	env.Header = "From Coq Require Import String NArith List Bool.\nFrom V Require Import Base.Outcome Beacon.Refine.BlockImplRun.\nImport ListNotations.\nLocal Open Scope N_scope.\n"
	env.CaseType = "bcase"
	env.ShardSize = 60
	env.ShardBytes = 40000
	env.Rule = "zrnt's exported block-operation functions on hand-built states (one active validator = the proposer); non-trivial = the call returned without error; distinct = the Coq term; kinds sync_bad_shape and deposits_count_below_index are the inputs on which the pinned snapshot (before /repo 74b46c6, 9bd2c6a) differed from the Spec"
	ctx := context.Background()
	r := env.Rng
	nEach := env.N(40, 400)

	// ---------- capella.GetExpectedWithdrawals / ProcessWithdrawals ----------
	for it := 0; it < 2*nEach; it++ {
		ov := []OV{{"MAX_WITHDRAWALS_PER_PAYLOAD", []uint64{1, 2, 4}[r.Intn(3)]}, {"MAX_VALIDATORS_PER_WITHDRAWALS_SWEEP", []uint64{2, 4, 16}[r.Intn(3)]}}
		spec := mkSpec(ov)
		n := 1 + r.Intn(10)
		if r.Chance(4) {
			n = 0
		}
		slot := uint64(8 + r.Intn(40))
		ep := slot / SPE
		vs := make([]MV, n)
		bals := make([]uint64, n)
		for i := range vs {
			wd := []uint64{0, ep, ep + 1, FAR}[r.Intn(4)]
			eff := []uint64{32 * ETH, 32 * ETH, 31 * ETH, 0}[r.Intn(4)]
			vs[i] = MV{E1: r.Chance(70), Eff: eff, Act: 0, Exit: wd, Wd: wd}
			bals[i] = randBal(r)
		}
		nwi := uint64(r.Intn(1000))
		if r.Chance(10) {
			nwi = uint64(1)<<62 + uint64(r.Intn(1000))
		}
		nwvi := uint64(0)
		if n > 0 {
			nwvi = uint64(r.Intn(n))
		}
		if r.Chance(5) {
			nwvi = uint64(n + r.Intn(3))
		}
		m := &Mini{Fork: 3, Slot: slot, Vals: vs, Bals: bals, NWI: nwi, NWVI: nwvi}
		st, err := buildState(spec, m)
		if err != nil {
			return err
		}
		cst := st.(*capella.BeaconStateView)
		var exp []common.Withdrawal
		var gerr error
		p, _ := Catch(func() { exp, gerr = capella.GetExpectedWithdrawals(cst, spec) })
		items := make([]string, len(exp))
		for i, w := range exp {
			items[i] = fmt.Sprintf("(%d, %d, %d, %d)", uint64(w.Index), uint64(w.ValidatorIndex), w.Address[0], uint64(w.Amount))
		}
		if it%2 == 0 {
			env.Add(Case{Coq: fmt.Sprintf("CSweep %s %d %s %s %d %d %s", coqOV(ov), slot, coqVals(vs), coqNs(bals), nwi, nwvi, res(p, gerr, CoqList(items))),
				Kind: "sweep", NonTrivial: !p && gerr == nil && len(exp) > 0, JSON: map[string]interface{}{"fn": "GetExpectedWithdrawals", "n": n, "out": len(exp)}})
			continue
		}
		// payload: the expected withdrawals, or a corruption of them
		pay := append([]common.Withdrawal{}, exp...)
		kind := "procw_valid"
		if r.Chance(45) {
			kind = "procw_corrupt"
			switch c := r.Intn(5); {
			case c == 0 && len(pay) > 0:
				pay[r.Intn(len(pay))].Amount += 1
			case c == 1 && len(pay) > 0:
				pay[r.Intn(len(pay))].Index += 1
			case c == 2 && len(pay) > 0:
				pay[r.Intn(len(pay))].Address[0] ^= 1
			case c == 3 && len(pay) > 0:
				pay = pay[:len(pay)-1]
			default:
				pay = append(pay, common.Withdrawal{Index: 7, ValidatorIndex: 0, Amount: 1})
			}
		}
		payload := &capella.ExecutionPayload{Withdrawals: pay}
		var perr error
		p2, _ := Catch(func() { perr = capella.ProcessWithdrawals(ctx, spec, cst, payload) })
		pitems := make([]string, len(pay))
		for i, w := range pay {
			pitems[i] = fmt.Sprintf("(%d, %d, %d, %d)", uint64(w.Index), uint64(w.ValidatorIndex), w.Address[0], uint64(w.Amount))
		}
		ok := ""
		if !p2 && perr == nil {
			nb, err := balancesOf(cst)
			if err != nil {
				return err
			}
			a, _ := cst.NextWithdrawalIndex()
			b, _ := cst.NextWithdrawalValidatorIndex()
			ok = fmt.Sprintf("(%s, %d, %d)", coqNs(nb), uint64(a), uint64(b))
		}
		env.Add(Case{Coq: fmt.Sprintf("CProcW %s %d %s %s %d %d %s %s", coqOV(ov), slot, coqVals(vs), coqNs(bals), nwi, nwvi, CoqList(pitems), res(p2, perr, ok)),
			Kind: kind, NonTrivial: !p2 && perr == nil, JSON: map[string]interface{}{"fn": "ProcessWithdrawals", "n": n, "payload": len(pay), "err": perr != nil}})
	}

	// ---------- phase0.InitiateValidatorExit ----------
	for it := 0; it < nEach; it++ {
		ov := []OV{{"MIN_PER_EPOCH_CHURN_LIMIT", []uint64{1, 2, 3}[r.Intn(3)]}, {"CHURN_LIMIT_QUOTIENT", []uint64{1, 2, 32}[r.Intn(3)]},
			{"MAX_SEED_LOOKAHEAD", uint64(r.Intn(5))}, {"MIN_VALIDATOR_WITHDRAWABILITY_DELAY", []uint64{1, 256}[r.Intn(2)]}}
		spec := mkSpec(ov)
		n := 2 + r.Intn(12)
		slot := uint64(r.Intn(60))
		ep := slot / SPE
		vs := make([]MV, n)
		base := ep + 1 + uint64(spec.MAX_SEED_LOOKAHEAD)
		for i := range vs {
			ex := FAR
			if r.Chance(55) {
				ex = base + uint64(r.Intn(3))
				if r.Chance(15) {
					ex = uint64(r.Intn(int(ep) + 1)) // already exited
				}
			}
			wd := FAR
			if ex != FAR {
				wd = ex + uint64(spec.MIN_VALIDATOR_WITHDRAWABILITY_DELAY)
			}
			act := uint64(0)
			if r.Chance(15) {
				act = ep + 1
			}
			vs[i] = MV{Eff: 32 * ETH, Act: act, Exit: ex, Wd: wd}
		}
		idx := uint64(r.Intn(n))
		if r.Chance(5) {
			idx = uint64(n + r.Intn(2))
		}
		m := &Mini{Fork: 0, Slot: slot, Vals: vs, Bals: make([]uint64, n)}
		st, err := buildState(spec, m)
		if err != nil {
			return err
		}
		active := activeOf(vs, ep)
		epc, err := mkEpc(spec, st, slot, active, 0, nil, 32*ETH)
		if err != nil {
			return err
		}
		var gerr error
		p, _ := Catch(func() { gerr = phase0.InitiateValidatorExit(spec, epc, st, common.ValidatorIndex(idx)) })
		ok := ""
		if !p && gerr == nil {
			vals, _ := st.Validators()
			v, err := vals.Validator(common.ValidatorIndex(idx))
			if err != nil {
				return err
			}
			e, _ := v.ExitEpoch()
			w, _ := v.WithdrawableEpoch()
			ok = fmt.Sprintf("(%d, %d)", uint64(e), uint64(w))
		}
		env.Add(Case{Coq: fmt.Sprintf("CExit %s %d %s %d %d %s", coqOV(ov), slot, coqVals(vs), len(active), idx, res(p, gerr, ok)),
			Kind: "exit", NonTrivial: !p && gerr == nil, JSON: map[string]interface{}{"fn": "InitiateValidatorExit", "n": n, "idx": idx}})
	}

	// ---------- phase0.SlashValidator ----------
	for it := 0; it < nEach; it++ {
		ov := []OV{}
		spec := mkSpec(ov)
		n := 2 + r.Intn(8)
		slot := uint64(16 + r.Intn(40))
		ep := slot / SPE
		prop := r.Intn(n)
		vs := oneActive(r, n, prop, ep)
		bals := make([]uint64, n)
		for i := range bals {
			bals[i] = randBal(r)
		}
		idx := uint64(r.Intn(n))
		if r.Chance(25) {
			idx = uint64(prop)
		}
		fk := []int{0, 1, 3}[r.Intn(3)]
		m := &Mini{Fork: fk, Slot: slot, Vals: vs, Bals: bals}
		st, err := buildState(spec, m)
		if err != nil {
			return err
		}
		active := activeOf(vs, ep)
		epc, err := mkEpc(spec, st, slot, active, uint64(prop), nil, 32*ETH)
		if err != nil {
			return err
		}
		var gerr error
		p, _ := Catch(func() { gerr = phase0.SlashValidator(spec, epc, st, common.ValidatorIndex(idx), nil) })
		ok := ""
		if !p && gerr == nil {
			vals, _ := st.Validators()
			v, err := vals.Validator(common.ValidatorIndex(idx))
			if err != nil {
				return err
			}
			sl, _ := v.Slashed()
			e, _ := v.ExitEpoch()
			w, _ := v.WithdrawableEpoch()
			nb, err := balancesOf(st)
			if err != nil {
				return err
			}
			slv, _ := st.Slashings()
			sls := make([]uint64, 64)
			for i := 0; i < 64; i++ {
				x, err := slv.GetSlashingsValue(common.Epoch(i))
				if err != nil {
					return err
				}
				sls[i] = uint64(x)
			}
			ok = fmt.Sprintf("((%s, %d, %d), %s, %s)", CoqBool(sl), uint64(e), uint64(w), coqNs(nb), coqNs(sls))
		}
		env.Add(Case{Coq: fmt.Sprintf("CSlash %s %d %d %s %s %d %d %d %s", coqOV(ov), fk, slot, coqVals(vs), coqNs(bals), len(active), prop, idx, res(p, gerr, ok)),
			Kind: fmt.Sprintf("slash_fork%d", fk), NonTrivial: !p && gerr == nil, JSON: map[string]interface{}{"fn": "SlashValidator", "fork": fk, "n": n, "idx": idx, "proposer": prop}})
	}

	// ---------- altair.ProcessSyncAggregate ----------
	for it := 0; it < nEach; it++ {
		size := []int{2, 4}[r.Intn(2)]
		ov := []OV{{"SYNC_COMMITTEE_SIZE", uint64(size)}}
		spec := mkSpec(ov)
		n := 2 + r.Intn(5)
		slot := uint64(9 + r.Intn(40))
		ep := slot / SPE
		prop := r.Intn(n)
		vs := oneActive(r, n, prop, ep)
		bals := make([]uint64, n)
		for i := range bals {
			bals[i] = randBal(r)
		}
		comm := make([]int, size)
		bits := make([]bool, size)
		for i := range comm {
			comm[i] = r.Intn(n)
			bits[i] = r.Chance(60)
		}
		kind := "sync"
		if r.Chance(35) { // the shape that refuted the pinned snapshot's batching: the proposer is a poor non-participating member, after a participant
			kind = "sync_bad_shape"
			j := 1 + r.Intn(size-1)
			comm[j], bits[j] = prop, false
			bits[0] = true
			if comm[0] == prop {
				comm[0] = (prop + 1) % n
			}
			bals[prop] = uint64(r.Intn(9000))
		}
		m := &Mini{Fork: 1, Slot: slot, Vals: vs, Bals: bals, Sync: comm}
		st, err := buildState(spec, m)
		if err != nil {
			return err
		}
		total := 32 * ETH
		epc, err := mkEpc(spec, st, slot, activeOf(vs, ep), uint64(prop), comm, total)
		if err != nil {
			return err
		}
		// sign the previous slot's block root
		var bitsv altair.SyncCommitteeBits = make([]byte, (size+7)/8)
		var partSks []*blsu.SecretKey
		for i, b := range bits {
			if b {
				bitsv[i/8] |= 1 << (uint(i) % 8)
				partSks = append(partSks, sks[comm[i]])
			}
		}
		prev := slot - 1
		dom, err := common.GetDomain(st, common.DOMAIN_SYNC_COMMITTEE, common.Epoch(prev/SPE))
		if err != nil {
			return err
		}
		root := patt(byte(prev%64 + 1))
		sigkind := 0
		if r.Chance(15) {
			sigkind = 1
			root[0] ^= 0xff
		}
		msg := common.ComputeSigningRoot(root, dom)
		agg := &altair.SyncAggregate{SyncCommitteeBits: bitsv}
		if len(partSks) == 0 || r.Chance(5) {
			sigkind = 2
			agg.SyncCommitteeSignature[0] = 0xc0
		} else {
			var sigs []*blsu.Signature
			for _, sk := range partSks {
				sigs = append(sigs, blsu.Sign(sk, msg[:]))
			}
			sig, err := blsu.Aggregate(sigs)
			if err != nil {
				return err
			}
			agg.SyncCommitteeSignature = common.BLSSignature(sig.Serialize())
		}
		var gerr error
		p, _ := Catch(func() { gerr = altair.ProcessSyncAggregate(ctx, spec, epc, st, agg) })
		ok := ""
		if !p && gerr == nil {
			nb, err := balancesOf(st)
			if err != nil {
				return err
			}
			ok = coqNs(nb)
		}
		ids := make([]uint64, size)
		for i, c := range comm {
			ids[i] = uint64(c)
		}
		env.Add(Case{Coq: fmt.Sprintf("CSync %s %d %s %s %s %s %d %d %d %d %s", coqOV(ov), slot, coqVals(vs), coqNs(bals), coqNs(ids), coqBools(bits),
			prop, total, math.IntegerSquareroot(total), sigkind, res(p, gerr, ok)),
			Kind: kind, NonTrivial: !p && gerr == nil, JSON: map[string]interface{}{"fn": "ProcessSyncAggregate", "committee": comm, "bits": bits, "proposer": prop, "balances": bals, "sigkind": sigkind, "err": gerr != nil}})
	}

	// ---------- phase0.ProcessDeposits: the count rule, with provable top-ups of validator 0 ----------
	for it := 0; it < nEach/2; it++ {
		ov := []OV{}
		spec := mkSpec(ov)
		n := 1 + r.Intn(3)
		vs := oneActive(r, n, 0, 1)
		bals := make([]uint64, n)
		for i := range bals {
			bals[i] = 32 * ETH
		}
		index := uint64(r.Intn(40))
		count := index + uint64(r.Intn(20))
		kind := "deposits"
		if r.Chance(35) {
			kind = "deposits_count_below_index"
			count = uint64(r.Intn(int(index) + 1))
			if count == index {
				index++
			}
		}
		expected := uint64(16)
		if count >= index && count-index < 16 {
			expected = count - index
		}
		ndeps := expected
		if r.Chance(25) {
			ndeps = uint64(r.Intn(18))
		}
		amount := uint64(1+r.Intn(5)) * ETH
		keys(1)
		// deposit tree: leaves at positions index .. index+ndeps-1
		data := common.DepositData{Pubkey: pks[0], Amount: common.Gwei(amount)}
		leaf := data.HashTreeRoot(tree.GetHashFn())
		leaves := map[uint64][32]byte{}
		for i := uint64(0); i < ndeps; i++ {
			leaves[index+i] = leaf
		}
		var lenChunk [32]byte
		binary.LittleEndian.PutUint64(lenChunk[:], count)
		treeRoot := sparseRoot(leaves, 32, 0)
		depRoot := sha256.Sum256(append(treeRoot[:], lenChunk[:]...))
		deps := make([]common.Deposit, ndeps)
		for i := range deps {
			br := sparseProof(leaves, 32, index+uint64(i))
			for j := 0; j < 32; j++ {
				deps[i].Proof[j] = br[j]
			}
			deps[i].Proof[32] = lenChunk
			deps[i].Data = data
		}
		m := &Mini{Fork: 1, Slot: 9, Vals: vs, Bals: bals, Eth1: common.Eth1Data{DepositRoot: depRoot, DepositCount: common.DepositIndex(count)}, DepIndex: index,
			Sync: []int{0, 0}}
		st, err := buildState(spec, m)
		if err != nil {
			return err
		}
		epc, err := mkEpc(spec, st, 9, activeOf(vs, 1), 0, nil, 32*ETH)
		if err != nil {
			return err
		}
		var gerr error
		p, _ := Catch(func() { gerr = phase0.ProcessDeposits(ctx, spec, epc, st, deps) })
		ok := ""
		if !p && gerr == nil {
			nb, err := balancesOf(st)
			if err != nil {
				return err
			}
			di, _ := st.Eth1DepositIndex()
			ok = fmt.Sprintf("(%s, %d)", coqNs(nb), uint64(di))
		}
		env.Add(Case{Coq: fmt.Sprintf("CDepCount %s %s %s %d %d %d %d %s", coqOV(ov), coqVals(vs), coqNs(bals), count, index, ndeps, amount, res(p, gerr, ok)),
			Kind: kind, NonTrivial: !p && gerr == nil, JSON: map[string]interface{}{"fn": "ProcessDeposits", "deposit_count": count, "eth1_deposit_index": index, "deposits": ndeps, "err": gerr != nil}})
	}

	// ---------- common.ProcessHeader ----------
	for it := 0; it < nEach; it++ {
		ov := []OV{}
		spec := mkSpec(ov)
		n := 2 + r.Intn(5)
		slot := uint64(9 + r.Intn(40))
		ep := slot / SPE
		prop := r.Intn(n)
		vs := oneActive(r, n, prop, ep)
		if r.Chance(15) {
			vs[prop].Slashed = true
		}
		latestSlot := slot - 1 - uint64(r.Intn(3))
		if r.Chance(10) {
			latestSlot = slot
		}
		latest := common.BeaconBlockHeader{Slot: common.Slot(latestSlot), ProposerIndex: 0, ParentRoot: patt(1), StateRoot: patt(2), BodyRoot: patt(3)}
		bslot := slot
		if r.Chance(15) {
			bslot = slot + uint64(r.Intn(3)) - 1
		}
		bprop := uint64(prop)
		if r.Chance(20) {
			bprop = uint64(r.Intn(n + 2))
		}
		expected := uint64(prop)
		if r.Chance(10) {
			expected = uint64(r.Intn(n))
		}
		parentOK := !r.Chance(15)
		parent := latest.HashTreeRoot(tree.GetHashFn())
		if !parentOK {
			parent = patt(9)
		}
		m := &Mini{Fork: 1, Slot: slot, Vals: vs, Bals: make([]uint64, n), Latest: latest, Sync: []int{0, 0}}
		st, err := buildState(spec, m)
		if err != nil {
			return err
		}
		hdr := &common.BeaconBlockHeader{Slot: common.Slot(bslot), ProposerIndex: common.ValidatorIndex(bprop), ParentRoot: parent, BodyRoot: patt(4)}
		var gerr error
		p, _ := Catch(func() { gerr = common.ProcessHeader(ctx, spec, st, hdr, common.ValidatorIndex(expected)) })
		ok := ""
		if !p && gerr == nil {
			lh, err := st.LatestBlockHeader()
			if err != nil {
				return err
			}
			ok = fmt.Sprintf("(%d, %d)", uint64(lh.Slot), uint64(lh.ProposerIndex))
		}
		env.Add(Case{Coq: fmt.Sprintf("CHeader %s %d %s %d %d %d %s %d %s", coqOV(ov), slot, coqVals(vs), latestSlot, bslot, bprop, CoqBool(parentOK), expected, res(p, gerr, ok)),
			Kind: "header", NonTrivial: !p && gerr == nil, JSON: map[string]interface{}{"fn": "ProcessHeader", "slot": slot, "block_slot": bslot, "proposer": bprop, "expected": expected, "err": gerr != nil}})
	}

	// ---------- phase0.ProcessEth1Vote ----------
	for it := 0; it < nEach; it++ {
		per := []uint64{1, 2, 4}[r.Intn(3)]
		ov := []OV{{"EPOCHS_PER_ETH1_VOTING_PERIOD", per}}
		spec := mkSpec(ov)
		period := int(per) * SPE
		n := r.Intn(period + 1)
		if r.Chance(40) { // around the majority boundary
			n = period/2 - 2 + r.Intn(5)
		}
		vs := make([]uint64, n)
		ids := 1 + r.Intn(3)
		for i := range vs {
			vs[i] = uint64(1 + r.Intn(ids))
		}
		d := uint64(1 + r.Intn(ids))
		m := &Mini{Fork: 1, Slot: 9, Vals: []MV{}, Bals: []uint64{}, Eth1: eth1OfID(200), Votes: vs, Sync: []int{0, 0}}
		st, err := buildState(spec, m)
		if err != nil {
			return err
		}
		var gerr error
		p, _ := Catch(func() { gerr = phase0.ProcessEth1Vote(ctx, spec, nil, st, eth1OfID(d)) })
		ok := ""
		if !p && gerr == nil {
			votes, err := st.Eth1DataVotes()
			if err != nil {
				return err
			}
			l, _ := votes.Length()
			e, _ := st.Eth1Data()
			ok = fmt.Sprintf("(%d, %d)", l, uint64(e.DepositCount))
		}
		env.Add(Case{Coq: fmt.Sprintf("CEth1 %s %s %d %s", coqOV(ov), coqNs(vs), d, res(p, gerr, ok)),
			Kind: "eth1_vote", NonTrivial: !p && gerr == nil, JSON: map[string]interface{}{"fn": "ProcessEth1Vote", "period": period, "votes": vs, "vote": d, "err": gerr != nil}})
	}
	_ = strings.Join
	return nil
}

// ---- sparse Merkle tree over a map of leaves ----
var zeroHashes = func() [][32]byte {
	z := make([][32]byte, 34)
	for i := 1; i < len(z); i++ {
		z[i] = sha256.Sum256(append(z[i-1][:], z[i-1][:]...))
	}
	return z
}()

// root of the subtree of the given depth whose leftmost leaf has position base
func sparseRoot(leaves map[uint64][32]byte, depth int, base uint64) [32]byte {
	any := false
	span := uint64(1) << uint(depth)
	for k := range leaves {
		if k >= base && k-base < span {
			any = true
			break
		}
	}
	if !any {
		return zeroHashes[depth]
	}
	if depth == 0 {
		return leaves[base]
	}
	l := sparseRoot(leaves, depth-1, base)
	rr := sparseRoot(leaves, depth-1, base+span/2)
	return sha256.Sum256(append(l[:], rr[:]...))
}

// branch (bottom-up siblings) of the leaf at position pos in a tree of the given depth
func sparseProof(leaves map[uint64][32]byte, depth int, pos uint64) [][32]byte {
	out := make([][32]byte, depth)
	for d := 0; d < depth; d++ {
		sib := ((pos >> uint(d)) ^ 1) << uint(d)
		out[d] = sparseRoot(leaves, d, sib)
	}
	return out
}
