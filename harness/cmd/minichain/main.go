// minichain: smallest possible chain directory (kick-started state, empty slots across fork boundaries);
// used to debug the model side before/alongside the full chain generator.
package main

import (
	"bytes"
	"context"
	"fmt"
	"os"
	"path/filepath"

	blsu "github.com/protolambda/bls12-381-util"
	"github.com/protolambda/zrnt/eth2/beacon"
	"github.com/protolambda/zrnt/eth2/beacon/common"
	"github.com/protolambda/zrnt/eth2/beacon/phase0"
	"github.com/protolambda/zrnt/eth2/configs"
	"github.com/protolambda/ztyp/codec"
	"gopkg.in/yaml.v3"
)

func must(err error) {
	if err != nil {
		panic(err)
	}
}

func forkName(st common.BeaconState) string {
	switch fmt.Sprintf("%T", st) {
	case "*phase0.BeaconStateView":
		return "phase0"
	case "*altair.BeaconStateView":
		return "altair"
	case "*bellatrix.BeaconStateView":
		return "bellatrix"
	case "*capella.BeaconStateView":
		return "capella"
	case "*deneb.BeaconStateView":
		return "deneb"
	}
	return "unknown"
}

func main() {
	out := os.Args[1]
	must(os.MkdirAll(filepath.Join(out, "data"), 0o755))
	spec := *configs.Minimal
	spec.ALTAIR_FORK_EPOCH = 2
	spec.BELLATRIX_FORK_EPOCH = 3
	spec.CAPELLA_FORK_EPOCH = 4
	spec.DENEB_FORK_EPOCH = 5
	spec.ELECTRA_FORK_EPOCH = ^common.Epoch(0)
	spec.FULU_FORK_EPOCH = ^common.Epoch(0)
	cfgb, err := yaml.Marshal(&spec)
	must(err)
	must(os.WriteFile(filepath.Join(out, "config.yaml"), cfgb, 0o644))

	n := 16
	vals := make([]phase0.KickstartValidatorData, n)
	var blsLines bytes.Buffer
	var pks []*blsu.Pubkey
	for i := 0; i < n; i++ {
		var skb [32]byte
		skb[31] = byte(i + 1)
		var sk blsu.SecretKey
		must(sk.Deserialize(&skb))
		pk, err := blsu.SkToPk(&sk)
		must(err)
		pks = append(pks, pk)
		pkb := pk.Serialize()
		vals[i] = phase0.KickstartValidatorData{Pubkey: pkb, Balance: spec.MAX_EFFECTIVE_BALANCE}
		vals[i].WithdrawalCredentials[0] = 0
		fmt.Fprintf(&blsLines, "PK %x\n", pkb[:])
	}
	state, epc, err := phase0.KickStartState(&spec, common.Root{1, 2, 3}, 1000, vals)
	must(err)

	var steps bytes.Buffer
	k := 0
	dump := func(st common.BeaconState) string {
		var buf bytes.Buffer
		must(st.Serialize(codec.NewEncodingWriter(&buf)))
		id := fmt.Sprintf("s%d", k)
		file := fmt.Sprintf("data/%s.ssz", id)
		k++
		must(os.WriteFile(filepath.Join(out, file), buf.Bytes(), 0o644))
		fmt.Fprintf(&steps, "state %s %s %s\n", id, forkName(st), file)
		return id
	}
	ust := &beacon.StandardUpgradeableBeaconState{BeaconState: state}
	pre := dump(ust.BeaconState)
	seenAgg := map[string]bool{}
	for slot := common.Slot(1); slot <= common.Slot(6*uint64(spec.SLOTS_PER_EPOCH)+2); slot++ {
		step := slot
		if slot%3 == 0 {
			continue // multi-slot jumps now and then
		}
		err := common.ProcessSlots(context.Background(), &spec, epc, ust, step)
		if err != nil {
			fmt.Fprintf(&steps, "slots %s %d ERR\n", pre, step)
			break
		}
		// AGG entries for sync committees of this state
		if sc, ok := ust.BeaconState.(common.SyncCommitteeBeaconState); ok {
			for _, get := range []func() (*common.SyncCommitteeView, error){sc.CurrentSyncCommittee, sc.NextSyncCommittee} {
				v, err := get()
				must(err)
				pv, err := v.Pubkeys()
				must(err)
				flat, err := pv.Flatten()
				must(err)
				var keys []*blsu.Pubkey
				var hexes []string
				for _, p := range flat {
					var pk blsu.Pubkey
					pb := [48]byte(p)
					must(pk.Deserialize(&pb))
					keys = append(keys, &pk)
					hexes = append(hexes, fmt.Sprintf("%x", p[:]))
				}
				agg, err := blsu.AggregatePubkeys(keys)
				must(err)
				ab := agg.Serialize()
				line := fmt.Sprintf("AGG %x %s\n", ab[:], joinComma(hexes))
				if !seenAgg[line] {
					seenAgg[line] = true
					blsLines.WriteString(line)
				}
			}
		}
		post := dump(ust.BeaconState)
		fmt.Fprintf(&steps, "slots %s %d %s\n", pre, step, post)
		pre = post
	}
	must(os.WriteFile(filepath.Join(out, "steps.txt"), steps.Bytes(), 0o644))
	must(os.WriteFile(filepath.Join(out, "bls.txt"), blsLines.Bytes(), 0o644))
}

func joinComma(l []string) string {
	var b bytes.Buffer
	for i, s := range l {
		if i > 0 {
			b.WriteByte(',')
		}
		b.WriteString(s)
	}
	return b.String()
}
