// C05 harness: hash-tree-roots of the struct form, the view form and the specification's merkleization
// (Coq model over the pinned schema) for random values of every type, and random mutation programs over
// tree-backed values (all six BeaconState types, blocks) and their structure-sharing copies.
package main

import (
	. "verifharness/hx"
	"verifharness/sszgen"
)

func main() { Main("C05", run) }

var mutated = []string{
	"phase0.BeaconState", "altair.BeaconState", "bellatrix.BeaconState", "capella.BeaconState", "deneb.BeaconState", "electra.BeaconState",
	"phase0.BeaconBlock", "electra.BeaconBlockBody", "deneb.ExecutionPayload", "phase0.Validator", "common.SyncCommittee",
}

func run(e *Env) error {
	s, err := sszgen.NewSetup(e, "mismatches_c05")
	if err != nil {
		return err
	}
	e.ShardSize = 200
	e.ShardBytes = 50000
	e.Rule = "roots: for every type of the registry x {mainnet, minimal, custom_small, custom_tiny}: spec-driven random in-limit values (empty, maximal, random; boundary element counts and bitfields); struct-form HashTreeRoot, view-form HashTreeRoot (view decoded from the same bytes) and the model's hash_tree_root at the pinned schema must coincide. mutation programs: for the six BeaconState types and five other composite types under the two custom presets: random sequences of ztyp view operations chosen by the schema (set field/element through the parent, append, pop, whole-subtree SetBacking with a freshly built value, reset to default, Copy sharing structure, grafting a subtree of one copy into another); after EVERY step EVERY live copy: Serialize = canonical bytes of the shadow content, cached root = root of a view rebuilt from those bytes = struct-form root; the model re-computes the root of the content for the cases handed to Coq (all inconsistent ones, and a bounded number of consistent ones). non-trivial = non-empty content; distinct by (type, preset, bytes, root)"
	if done, err := s.ReplayCase(e); err != nil {
		return err
	} else if done {
		return nil
	}
	// the Go zero value of every type under every preset (never touched by a decoder), against the Spec's default value
	if err := s.ZeroCases(e, e.N(6000, 40000)); err != nil {
		return err
	}
	// objects that already hold a value (other preset, longer/shorter, after a failed decode) decode like fresh ones
	if err := s.RecycledCases(e, e.N(500, 2500), e.N(3000, 20000), e.N(3, 1)); err != nil {
		return err
	}
	// every list / bitlist / byte-list type at the boundary element counts (32, 256, 512 ... +-1), mainnet limits
	if err := s.BoundaryLengthCases(e, e.N(2100, 9000), e.N(140000, 600000), []uint64{256}); err != nil {
		return err
	}
	if err := s.CodecCases(e, e.N(700, 3000), e.N(2, 6), 0, false); err != nil {
		return err
	}
	if err := s.MutationPrograms(e, mutated, []int{3, 2}, e.N(3, 12), e.N(12, 40), e.N(150, 400), e.N(160, 800)); err != nil {
		return err
	}
	// aliasing: a view made from a Go struct (X.View()) must not share memory with the struct
	return s.ViewAliasProbes(e, []int{3}, e.N(1, 4))
}
