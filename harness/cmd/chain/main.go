package main

import (
	"fmt"
	"os"

	"verifharness/chaingen"
)

func main() { os.Exit(chaingen.CLI(os.Args[1:])) }

var _ = fmt.Sprint
