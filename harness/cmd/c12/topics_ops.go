package main

// topics_ops.go: voluntary_exit, proposer_slashing, attester_slashing.

import (
	"fmt"

	"github.com/protolambda/zrnt/eth2/beacon/common"
	"github.com/protolambda/zrnt/eth2/beacon/phase0"
	"github.com/protolambda/zrnt/eth2/gossipval"
)

func garbageSig(seed byte) (s common.BLSSignature) {
	for i := range s {
		s[i] = seed + byte(i*7)
	}
	s[0] = 0x12 // no compression flag: never deserializes
	return
}

func validatorCount(st common.BeaconState) uint64 {
	vals, err := st.Validators()
	must(err)
	n, err := vals.ValidatorCount()
	must(err)
	return n
}

// ---------- voluntary exits ----------

// MakeExit signs an exit with `signer` under the state's domain of type `dt` at the exit's epoch.
func (w *World) MakeExit(st common.BeaconState, idx common.ValidatorIndex, epoch common.Epoch, signer KeyNum, dt common.BLSDomainType) *phase0.SignedVoluntaryExit {
	ex := phase0.VoluntaryExit{Epoch: epoch, ValidatorIndex: idx}
	dom, err := common.GetDomain(st, dt, epoch)
	must(err)
	return &phase0.SignedVoluntaryExit{Message: ex, Signature: w.C.Sign1(signer, common.ComputeSigningRoot(ex.HashTreeRoot(hFn), dom))}
}

// MakeExitDom: the same under an explicit domain.
func (w *World) MakeExitDom(idx common.ValidatorIndex, epoch common.Epoch, signer KeyNum, dom common.BLSDomain) *phase0.SignedVoluntaryExit {
	ex := phase0.VoluntaryExit{Epoch: epoch, ValidatorIndex: idx}
	return &phase0.SignedVoluntaryExit{Message: ex, Signature: w.C.Sign1(signer, common.ComputeSigningRoot(ex.HashTreeRoot(hFn), dom))}
}

func (g *Gen) exitCase(what string, v *View, ex *phase0.SignedVoluntaryExit) string {
	f := NewFacts(v)
	if h := f.Head(); h != nil {
		f.Validator(h, ex.Message.ValidatorIndex)
		f.Pubkey(h, ex.Message.ValidatorIndex)
		f.StateDomain(h, common.DOMAIN_VOLUNTARY_EXIT, ex.Message.Epoch)
	}
	sid := f.Sig(ex.Signature)
	msg := fmt.Sprintf("MExit (Build_voluntary_exit %d %d %s %d)", uint64(ex.Message.Epoch), uint64(ex.Message.ValidatorIndex), rootN(ex.Message.HashTreeRoot(hFn)), sid)
	js := map[string]interface{}{"epoch": uint64(ex.Message.Epoch), "validator_index": uint64(ex.Message.ValidatorIndex), "signature": fmt.Sprintf("%x", ex.Signature[:])}
	return g.Emit("exit", what, v, f, msg, js, func() gossipval.GossipValidatorResult { return gossipval.ValidateVoluntaryExit(bg, ex, v) })
}

func (g *Gen) genExits(w *World, heads []*Node, sample []common.ValidatorIndex, special map[string]common.ValidatorIndex) {
	for _, h := range heads {
		v := NewView(w, h, int64(h.Slot)*int64(w.Spec.SECONDS_PER_SLOT)*1000+3000)
		st := h.State
		cur := w.Spec.SlotToEpoch(h.Slot)
		n := validatorCount(st)
		for _, i := range sample {
			k := w.KeyOf(i)
			g.exitCase("honest", v, w.MakeExit(st, i, cur, k, common.DOMAIN_VOLUNTARY_EXIT))
			if cur > 0 {
				g.exitCase("honest-earlier-epoch", v, w.MakeExit(st, i, cur-1, k, common.DOMAIN_VOLUNTARY_EXIT))
				g.exitCase("honest-epoch-0", v, w.MakeExit(st, i, 0, k, common.DOMAIN_VOLUNTARY_EXIT))
			}
		}
		i := sample[int(h.Slot)%len(sample)]
		k := w.KeyOf(i)
		g.exitCase("sig-other-key", v, w.MakeExit(st, i, cur, k+1, common.DOMAIN_VOLUNTARY_EXIT))
		g.exitCase("sig-wrong-domain", v, w.MakeExit(st, i, cur, k, common.DOMAIN_BEACON_PROPOSER))
		for _, e := range []common.Epoch{cur, cur - 1} {
			if adj, ok := w.AdjacentForkEpoch(e); ok && e <= cur {
				// an exit for epoch e signed under the fork version of the neighbouring epoch
				g.exitCase("sig-domain-of-adjacent-fork", v, w.MakeExitDom(i, e, k, w.DomainAt(common.DOMAIN_VOLUNTARY_EXIT, adj)))
			}
		}
		{
			ex := w.MakeExit(st, i, cur, k, common.DOMAIN_VOLUNTARY_EXIT)
			ex.Signature = garbageSig(1)
			g.exitCase("sig-garbage", v, ex)
			ex2 := w.MakeExit(st, i, cur, k, common.DOMAIN_VOLUNTARY_EXIT)
			ex2.Message.Epoch = cur + 1 // signed for cur, claims cur+1
			g.exitCase("sig-over-other-epoch", v, ex2)
			ex3 := w.MakeExit(st, i, cur, k, common.DOMAIN_VOLUNTARY_EXIT)
			ex3.Signature = infinitySig()
			g.exitCase("sig-infinity", v, ex3)
		}
		g.exitCase("future-epoch", v, w.MakeExit(st, i, cur+1, k, common.DOMAIN_VOLUNTARY_EXIT))
		g.exitCase("future-epoch-far", v, w.MakeExit(st, i, ^common.Epoch(0), k, common.DOMAIN_VOLUNTARY_EXIT))
		g.exitCase("index-out-of-range", v, w.MakeExit(st, common.ValidatorIndex(n), cur, k, common.DOMAIN_VOLUNTARY_EXIT))
		g.exitCase("index-out-of-range", v, w.MakeExit(st, common.ValidatorIndex(n+7), cur, k, common.DOMAIN_VOLUNTARY_EXIT))
		g.exitCase("index-out-of-range", v, w.MakeExit(st, ^common.ValidatorIndex(0), cur, k, common.DOMAIN_VOLUNTARY_EXIT))
		for name, x := range special {
			g.exitCase("validator-"+name, v, w.MakeExit(st, x, cur, w.KeyOf(x), common.DOMAIN_VOLUNTARY_EXIT))
		}
		// duplicates
		vs := v.Clone()
		vs.Seen = append(vs.Seen, Mark{Kind: "exit", A: uint64(i)}, Mark{Kind: "exit", A: uint64(n + 7)})
		g.exitCase("duplicate", vs, w.MakeExit(st, i, cur, k, common.DOMAIN_VOLUNTARY_EXIT))
		g.exitCase("duplicate-and-bad-sig", vs, w.MakeExit(st, i, cur, k+1, common.DOMAIN_VOLUNTARY_EXIT))
		g.exitCase("duplicate-and-out-of-range", vs, w.MakeExit(st, common.ValidatorIndex(n+7), cur, k, common.DOMAIN_VOLUNTARY_EXIT))
		g.exitCase("other-validator-seen", vs, w.MakeExit(st, sample[(int(h.Slot)+1)%len(sample)], cur, w.KeyOf(sample[(int(h.Slot)+1)%len(sample)]), common.DOMAIN_VOLUNTARY_EXIT))
		// head unavailable
		vh := v.Clone()
		vh.HeadFail = true
		g.exitCase("head-unavailable", vh, w.MakeExit(st, i, cur, k, common.DOMAIN_VOLUNTARY_EXIT))
		g.exitCase("head-unavailable-and-bad-sig", vh, w.MakeExit(st, i, cur, k+1, common.DOMAIN_VOLUNTARY_EXIT))
	}
}

// ---------- proposer slashings ----------

func (w *World) SignHeader(st common.BeaconState, h common.BeaconBlockHeader, signer KeyNum, dt common.BLSDomainType, epoch common.Epoch) common.SignedBeaconBlockHeader {
	dom, err := common.GetDomain(st, dt, epoch)
	must(err)
	return common.SignedBeaconBlockHeader{Message: h, Signature: w.C.Sign1(signer, common.ComputeSigningRoot(h.HashTreeRoot(hFn), dom))}
}

func (w *World) MakeProposerSlashing(st common.BeaconState, proposer common.ValidatorIndex, slot common.Slot, signer KeyNum) *phase0.ProposerSlashing {
	h1 := common.BeaconBlockHeader{Slot: slot, ProposerIndex: proposer, ParentRoot: common.Root{1}, StateRoot: common.Root{2}, BodyRoot: common.Root{3}}
	h2 := h1
	h2.BodyRoot = common.Root{4, byte(slot)}
	ep := w.Spec.SlotToEpoch(slot)
	return &phase0.ProposerSlashing{SignedHeader1: w.SignHeader(st, h1, signer, common.DOMAIN_BEACON_PROPOSER, ep), SignedHeader2: w.SignHeader(st, h2, signer, common.DOMAIN_BEACON_PROPOSER, ep)}
}

func coqHeader(h *common.BeaconBlockHeader) string {
	return fmt.Sprintf("(Build_header %d %d %s %s %s %s)", uint64(h.Slot), uint64(h.ProposerIndex), rootN(h.ParentRoot), rootN(h.StateRoot), rootN(h.BodyRoot), rootN(h.HashTreeRoot(hFn)))
}

func (g *Gen) propSlCase(what string, v *View, ps *phase0.ProposerSlashing) string {
	f := NewFacts(v)
	p := ps.SignedHeader1.Message.ProposerIndex
	if h := f.Head(); h != nil {
		f.Validator(h, p)
		f.Pubkey(h, p)
		f.StateDomain(h, common.DOMAIN_BEACON_PROPOSER, v.W.Spec.SlotToEpoch(ps.SignedHeader1.Message.Slot))
		f.StateDomain(h, common.DOMAIN_BEACON_PROPOSER, v.W.Spec.SlotToEpoch(ps.SignedHeader2.Message.Slot))
	}
	s1, s2 := f.Sig(ps.SignedHeader1.Signature), f.Sig(ps.SignedHeader2.Signature)
	msg := fmt.Sprintf("MProposerSlashing (Build_proposer_slashing (Build_signed_header %s %d) (Build_signed_header %s %d))",
		coqHeader(&ps.SignedHeader1.Message), s1, coqHeader(&ps.SignedHeader2.Message), s2)
	js := map[string]interface{}{"header_1": ps.SignedHeader1.Message, "header_2": ps.SignedHeader2.Message}
	return g.Emit("propsl", what, v, f, msg, js, func() gossipval.GossipValidatorResult { return gossipval.ValidateProposerSlashing(bg, ps, v) })
}

func (g *Gen) genProposerSlashings(w *World, heads []*Node, sample []common.ValidatorIndex, special map[string]common.ValidatorIndex) {
	for _, h := range heads {
		v := NewView(w, h, int64(h.Slot)*int64(w.Spec.SECONDS_PER_SLOT)*1000+3000)
		st := h.State
		n := validatorCount(st)
		slots := []common.Slot{0, 1, 7, 8, 15, 16, 17, h.Slot, h.Slot + 1, h.Slot + 40}
		for j, i := range sample {
			g.propSlCase("honest", v, w.MakeProposerSlashing(st, i, slots[j%len(slots)], w.KeyOf(i)))
			g.propSlCase("honest", v, w.MakeProposerSlashing(st, i, slots[(j+3)%len(slots)], w.KeyOf(i)))
		}
		i := sample[int(h.Slot)%len(sample)]
		k := w.KeyOf(i)
		slot := h.Slot
		mk := func() *phase0.ProposerSlashing { return w.MakeProposerSlashing(st, i, slot, k) }
		ep := w.Spec.SlotToEpoch(slot)
		{
			ps := mk()
			h2 := ps.SignedHeader2.Message
			h2.Slot = slot + 1
			ps.SignedHeader2 = w.SignHeader(st, h2, k, common.DOMAIN_BEACON_PROPOSER, w.Spec.SlotToEpoch(slot+1))
			g.propSlCase("different-slots", v, ps)
		}
		{
			ps := mk()
			h2 := ps.SignedHeader2.Message
			h2.ProposerIndex = i + 1
			ps.SignedHeader2 = w.SignHeader(st, h2, w.KeyOf(i+1), common.DOMAIN_BEACON_PROPOSER, ep)
			g.propSlCase("different-proposers", v, ps)
		}
		{
			ps := mk()
			ps.SignedHeader2 = ps.SignedHeader1
			g.propSlCase("identical-headers", v, ps)
		}
		{
			ps := mk()
			ps.SignedHeader1 = w.SignHeader(st, ps.SignedHeader1.Message, k+1, common.DOMAIN_BEACON_PROPOSER, ep)
			g.propSlCase("sig1-other-key", v, ps)
			ps = mk()
			ps.SignedHeader2 = w.SignHeader(st, ps.SignedHeader2.Message, k+1, common.DOMAIN_BEACON_PROPOSER, ep)
			g.propSlCase("sig2-other-key", v, ps)
			ps = mk()
			ps.SignedHeader2.Signature = ps.SignedHeader1.Signature
			g.propSlCase("sig2-is-sig1", v, ps)
			ps = mk()
			ps.SignedHeader1.Signature = garbageSig(2)
			g.propSlCase("sig1-garbage", v, ps)
			ps = mk()
			ps.SignedHeader2.Signature = garbageSig(3)
			g.propSlCase("sig2-garbage", v, ps)
			ps = mk()
			ps.SignedHeader1 = w.SignHeader(st, ps.SignedHeader1.Message, k, common.DOMAIN_BEACON_ATTESTER, ep)
			ps.SignedHeader2 = w.SignHeader(st, ps.SignedHeader2.Message, k, common.DOMAIN_BEACON_ATTESTER, ep)
			g.propSlCase("sig-wrong-domain", v, ps)
			ps = mk()
			ps.SignedHeader1 = w.SignHeader(st, ps.SignedHeader1.Message, k, common.DOMAIN_BEACON_PROPOSER, ep+40)
			ps.SignedHeader2 = w.SignHeader(st, ps.SignedHeader2.Message, k, common.DOMAIN_BEACON_PROPOSER, ep+40)
			g.propSlCase("sig-domain-of-other-epoch", v, ps) // same fork version unless a fork lies between: may still verify
			if adj, ok := w.AdjacentForkEpoch(ep); ok {
				signUnder := func(h common.BeaconBlockHeader) common.SignedBeaconBlockHeader {
					return common.SignedBeaconBlockHeader{Message: h, Signature: w.C.Sign1(k, common.ComputeSigningRoot(h.HashTreeRoot(hFn), w.DomainAt(common.DOMAIN_BEACON_PROPOSER, adj)))}
				}
				ps = mk()
				ps.SignedHeader1, ps.SignedHeader2 = signUnder(ps.SignedHeader1.Message), signUnder(ps.SignedHeader2.Message)
				g.propSlCase("sig-domain-of-adjacent-fork", v, ps)
				ps = mk()
				ps.SignedHeader2 = signUnder(ps.SignedHeader2.Message)
				g.propSlCase("sig2-domain-of-adjacent-fork", v, ps)
			}
		}
		for _, x := range []uint64{n, n + 3, ^uint64(0)} {
			g.propSlCase("proposer-out-of-range", v, w.MakeProposerSlashing(st, common.ValidatorIndex(x), slot, k))
		}
		for name, x := range special {
			g.propSlCase("validator-"+name, v, w.MakeProposerSlashing(st, x, slot, w.KeyOf(x)))
		}
		vs := v.Clone()
		vs.Seen = append(vs.Seen, Mark{Kind: "propsl", A: uint64(i)})
		g.propSlCase("duplicate", vs, mk())
		{
			ps := mk()
			ps.SignedHeader2 = ps.SignedHeader1
			g.propSlCase("duplicate-and-identical-headers", vs, ps)
			ps = mk()
			ps.SignedHeader1.Signature = garbageSig(2)
			g.propSlCase("duplicate-and-bad-sig", vs, ps)
		}
		g.propSlCase("other-proposer-seen", vs, w.MakeProposerSlashing(st, i+1, slot, w.KeyOf(i+1)))
		vh := v.Clone()
		vh.HeadFail = true
		g.propSlCase("head-unavailable", vh, mk())
		{
			ps := mk()
			ps.SignedHeader2 = ps.SignedHeader1
			g.propSlCase("head-unavailable-and-identical-headers", vh, ps)
		}
	}
}

// ---------- attester slashings ----------

func (w *World) MakeIndexed(st common.BeaconState, indices []common.ValidatorIndex, data phase0.AttestationData, signers []KeyNum, dt common.BLSDomainType) phase0.IndexedAttestation {
	dom, err := common.GetDomain(st, dt, data.Target.Epoch)
	must(err)
	var sig common.BLSSignature
	if len(signers) == 0 {
		sig = infinitySig()
	} else {
		sig = w.C.Sign(signers, common.ComputeSigningRoot(data.HashTreeRoot(hFn), dom))
	}
	return phase0.IndexedAttestation{AttestingIndices: append(common.CommitteeIndices(nil), indices...), Data: data, Signature: sig}
}

func (w *World) keysOf(l []common.ValidatorIndex) []KeyNum {
	out := make([]KeyNum, len(l))
	for i, x := range l {
		out[i] = w.KeyOf(x)
	}
	return out
}

func coqAttData(d *phase0.AttestationData) string {
	return fmt.Sprintf("(Build_att_data %d %d %s (Build_checkpoint %d %s) (Build_checkpoint %d %s) %s)", uint64(d.Slot), uint64(d.Index), rootN(d.BeaconBlockRoot),
		uint64(d.Source.Epoch), rootN(d.Source.Root), uint64(d.Target.Epoch), rootN(d.Target.Root), rootN(d.HashTreeRoot(hFn)))
}

func (g *Gen) attSlCase(what string, v *View, sl *phase0.AttesterSlashing) string {
	f := NewFacts(v)
	if h := f.Head(); h != nil {
		for _, ia := range []*phase0.IndexedAttestation{&sl.Attestation1, &sl.Attestation2} {
			for _, i := range ia.AttestingIndices {
				f.Validator(h, i)
				f.Pubkey(h, i)
			}
			f.StateDomain(h, common.DOMAIN_BEACON_ATTESTER, ia.Data.Target.Epoch)
		}
	}
	s1, s2 := f.Sig(sl.Attestation1.Signature), f.Sig(sl.Attestation2.Signature)
	ia := func(a *phase0.IndexedAttestation, s uint64) string {
		return fmt.Sprintf("(Build_indexed_att %s %s %d)", coqIdxList(a.AttestingIndices), coqAttData(&a.Data), s)
	}
	msg := fmt.Sprintf("MAttesterSlashing (Build_attester_slashing %s %s)", ia(&sl.Attestation1, s1), ia(&sl.Attestation2, s2))
	js := map[string]interface{}{"attestation_1": map[string]interface{}{"indices": sl.Attestation1.AttestingIndices, "data": sl.Attestation1.Data},
		"attestation_2": map[string]interface{}{"indices": sl.Attestation2.AttestingIndices, "data": sl.Attestation2.Data}}
	return g.Emit("attsl", what, v, f, msg, js, func() gossipval.GossipValidatorResult { return gossipval.ValidateAttesterSlashing(bg, sl, v) })
}

func idx(l ...uint64) []common.ValidatorIndex {
	out := make([]common.ValidatorIndex, len(l))
	for i, x := range l {
		out[i] = common.ValidatorIndex(x)
	}
	return out
}

func (g *Gen) genAttesterSlashings(w *World, heads []*Node, special map[string]common.ValidatorIndex) {
	for hi, h := range heads {
		v := NewView(w, h, int64(h.Slot)*int64(w.Spec.SECONDS_PER_SLOT)*1000+3000)
		st := h.State
		n := validatorCount(st)
		cur := w.Spec.SlotToEpoch(h.Slot)
		base := uint64(10 + 3*hi)
		d1 := phase0.AttestationData{Slot: 9, Index: 0, BeaconBlockRoot: common.Root{7}, Source: common.Checkpoint{Epoch: 0, Root: common.Root{8}}, Target: common.Checkpoint{Epoch: cur, Root: common.Root{9}}}
		d2 := d1
		d2.BeaconBlockRoot = common.Root{10}
		// surround: d3 surrounds d4
		d3 := phase0.AttestationData{Slot: 30, Source: common.Checkpoint{Epoch: 0}, Target: common.Checkpoint{Epoch: cur + 3}}
		d4 := phase0.AttestationData{Slot: 20, Source: common.Checkpoint{Epoch: 1}, Target: common.Checkpoint{Epoch: cur + 2}}
		mk := func(i1, i2 []common.ValidatorIndex, a, b phase0.AttestationData) *phase0.AttesterSlashing {
			return &phase0.AttesterSlashing{Attestation1: w.MakeIndexed(st, i1, a, w.keysOf(i1), common.DOMAIN_BEACON_ATTESTER),
				Attestation2: w.MakeIndexed(st, i2, b, w.keysOf(i2), common.DOMAIN_BEACON_ATTESTER)}
		}
		A := idx(base, base+1, base+2, base+5)
		B := idx(base+1, base+2, base+3, base+5, base+9)
		g.attSlCase("honest-double", v, mk(A, B, d1, d2))
		g.attSlCase("honest-double-same-sets", v, mk(A, A, d1, d2))
		g.attSlCase("honest-double-single", v, mk(idx(base), idx(base), d2, d1))
		g.attSlCase("honest-surround", v, mk(A, B, d3, d4))
		g.attSlCase("honest-one-common", v, mk(idx(base, base+1), idx(base+1, base+2), d1, d2))
		g.attSlCase("surrounded-first", v, mk(A, B, d4, d3)) // attestation 2 surrounds attestation 1: not slashable in this order
		g.attSlCase("same-data", v, mk(A, B, d1, d1))
		{
			d5 := d1
			d5.Target.Epoch = cur + 1
			g.attSlCase("different-targets-no-surround", v, mk(A, B, d1, d5))
		}
		g.attSlCase("disjoint-sets", v, mk(idx(base, base+1), idx(base+2, base+3), d1, d2))
		g.attSlCase("unsorted-1", v, mk(idx(base+1, base), B, d1, d2))
		g.attSlCase("unsorted-2", v, mk(A, idx(base+1, base+3, base+2), d1, d2))
		g.attSlCase("duplicate-index-1", v, mk(idx(base, base, base+1), B, d1, d2))
		g.attSlCase("duplicate-index-2", v, mk(A, idx(base+1, base+1), d1, d2))
		{
			sl := mk(A, B, d1, d2)
			sl.Attestation1.AttestingIndices = nil
			g.attSlCase("empty-1", v, sl)
			sl = mk(A, B, d1, d2)
			sl.Attestation2.AttestingIndices = nil
			g.attSlCase("empty-2", v, sl)
		}
		{
			max := uint64(w.Spec.MAX_VALIDATORS_PER_COMMITTEE)
			var big []common.ValidatorIndex
			for i := uint64(0); i <= max; i++ {
				big = append(big, common.ValidatorIndex(i))
			}
			g.attSlCase("too-many-indices-1", v, mk(big, B, d1, d2))
			g.attSlCase("max-indices-1", v, mk(big[:max], B, d1, d2))
		}
		{
			sl := mk(A, B, d1, d2)
			sl.Attestation1 = w.MakeIndexed(st, A, d1, w.keysOf(A[:3]), common.DOMAIN_BEACON_ATTESTER)
			g.attSlCase("sig1-missing-signer", v, sl)
			sl = mk(A, B, d1, d2)
			sl.Attestation2 = w.MakeIndexed(st, B, d2, w.keysOf(A), common.DOMAIN_BEACON_ATTESTER)
			g.attSlCase("sig2-other-signers", v, sl)
			sl = mk(A, B, d1, d2)
			sl.Attestation1.Signature = garbageSig(4)
			g.attSlCase("sig1-garbage", v, sl)
			sl = mk(A, B, d1, d2)
			sl.Attestation2.Signature = infinitySig()
			g.attSlCase("sig2-infinity", v, sl)
			sl = mk(A, B, d1, d2)
			sl.Attestation1 = w.MakeIndexed(st, A, d1, w.keysOf(A), common.DOMAIN_BEACON_PROPOSER)
			g.attSlCase("sig1-wrong-domain", v, sl)
			if adj, ok := w.AdjacentForkEpoch(d1.Target.Epoch); ok {
				sl = mk(A, B, d1, d2)
				sl.Attestation1.Signature = w.C.Sign(w.keysOf(A), common.ComputeSigningRoot(d1.HashTreeRoot(hFn), w.DomainAt(common.DOMAIN_BEACON_ATTESTER, adj)))
				g.attSlCase("sig1-domain-of-adjacent-fork", v, sl)
				sl = mk(A, B, d1, d2)
				sl.Attestation2.Signature = w.C.Sign(w.keysOf(B), common.ComputeSigningRoot(d2.HashTreeRoot(hFn), w.DomainAt(common.DOMAIN_BEACON_ATTESTER, adj)))
				g.attSlCase("sig2-domain-of-adjacent-fork", v, sl)
			}
			sl = mk(A, B, d1, d2)
			sl.Attestation2 = w.MakeIndexed(st, B, d1, w.keysOf(B), common.DOMAIN_BEACON_ATTESTER)
			sl.Attestation2.Data = d2
			g.attSlCase("sig2-over-other-data", v, sl)
		}
		{
			// an index beyond the registry, only in one attestation / in both
			C := idx(base, base+1, n+2)
			kC := append(w.keysOf(C[:2]), w.KeyOf(1))
			sl := &phase0.AttesterSlashing{Attestation1: w.MakeIndexed(st, C, d1, kC, common.DOMAIN_BEACON_ATTESTER), Attestation2: w.MakeIndexed(st, B, d2, w.keysOf(B), common.DOMAIN_BEACON_ATTESTER)}
			g.attSlCase("index-out-of-range-1", v, sl)
			sl = &phase0.AttesterSlashing{Attestation1: w.MakeIndexed(st, C, d1, kC, common.DOMAIN_BEACON_ATTESTER), Attestation2: w.MakeIndexed(st, C, d2, kC, common.DOMAIN_BEACON_ATTESTER)}
			g.attSlCase("index-out-of-range-both", v, sl)
			D := idx(base, ^uint64(0))
			kD := []KeyNum{w.KeyOf(common.ValidatorIndex(base)), w.KeyOf(2)}
			sl = &phase0.AttesterSlashing{Attestation1: w.MakeIndexed(st, D, d1, kD, common.DOMAIN_BEACON_ATTESTER), Attestation2: w.MakeIndexed(st, idx(base), d2, w.keysOf(idx(base)), common.DOMAIN_BEACON_ATTESTER)}
			g.attSlCase("index-max-uint64", v, sl)
		}
		// validators that are not slashable any more
		for name, x := range special {
			X := idx(uint64(x))
			g.attSlCase("only-"+name, v, mk(X, X, d1, d2))
			lo, hi := uint64(x), base
			if lo > hi {
				lo, hi = hi, lo
			}
			if lo != hi {
				Y := idx(lo, hi)
				g.attSlCase("one-slashable-one-"+name, v, mk(Y, Y, d1, d2))
			}
		}
		// seen caches
		vs := v.Clone()
		vs.Seen = append(vs.Seen, Mark{Kind: "attsl", List: idx(base+1, base+2)}, Mark{Kind: "attsl", List: idx(base + 5)})
		g.attSlCase("all-seen", vs, mk(A, B, d1, d2))
		g.attSlCase("all-seen-and-bad-sig", vs, func() *phase0.AttesterSlashing {
			sl := mk(A, B, d1, d2)
			sl.Attestation1.Signature = garbageSig(4)
			return sl
		}())
		g.attSlCase("all-seen-and-same-data", vs, mk(A, B, d1, d1))
		g.attSlCase("some-seen", vs, mk(idx(base, base+1), idx(base, base+1, base+2), d1, d2))
		vh := v.Clone()
		vh.HeadFail = true
		g.attSlCase("head-unavailable", vh, mk(A, B, d1, d2))
		g.attSlCase("head-unavailable-and-unsorted", vh, mk(idx(base+1, base), B, d1, d2))
	}
}
