package main

// scenario.go: the worlds (configurations + chains) the topic generators run against.

import (
	"fmt"

	"github.com/protolambda/zrnt/eth2/beacon/common"
)

type Scenario struct {
	W       *World
	Main    []*Node // canonical chain, by construction order (genesis first)
	Side    []*Node // a fork
	Side2   []*Node // a late, short fork (same shuffling as the main chain for the following epoch)
	BySlot  map[common.Slot]*Node
	Special map[string]common.ValidatorIndex // validators with a history: exited, slashed
}

func (s *Scenario) Tip() *Node { return s.Main[len(s.Main)-1] }

// buildChain: blocks at most slots up to `last`, with skipped slots (incl. an epoch-start slot), operations in
// some blocks and a side branch forking off at slot 5.
func buildChain(w *World, last common.Slot) *Scenario {
	sc := &Scenario{W: w, BySlot: map[common.Slot]*Node{}, Special: map[string]common.ValidatorIndex{}}
	skip := map[common.Slot]bool{4: true, 8: true, 13: true, 14: true, 24: true, 25: true, 31: true}
	tip := w.Genesis
	sc.Main = append(sc.Main, tip)
	sc.BySlot[0] = tip
	slashedV := common.ValidatorIndex(6)
	exitedV := common.ValidatorIndex(5)
	doneSlash, doneExit := false, false
	for slot := common.Slot(1); slot <= last; slot++ {
		if skip[slot] {
			continue
		}
		ops := BlockOps{}
		pre, _, err := w.Advance(tip, slot)
		must(err)
		if !doneSlash && slot >= 3 {
			ops.ProposerSlashings = append(ops.ProposerSlashings, *w.MakeProposerSlashing(pre, slashedV, 2, w.KeyOf(slashedV)))
		}
		if !doneExit && slot >= 9 && w.Spec.SlotToEpoch(slot) >= w.Spec.SHARD_COMMITTEE_PERIOD {
			ops.Exits = append(ops.Exits, *w.MakeExit(pre, exitedV, w.Spec.SlotToEpoch(slot), w.KeyOf(exitedV), common.DOMAIN_VOLUNTARY_EXIT))
		}
		n := w.AddBlock(fmt.Sprintf("m%d", slot), tip, slot, ops)
		if n == nil {
			continue
		}
		if len(ops.ProposerSlashings) > 0 {
			doneSlash = true
		}
		if len(ops.Exits) > 0 {
			doneExit = true
		}
		tip = n
		sc.Main = append(sc.Main, n)
		sc.BySlot[slot] = n
	}
	sc.Special["slashed"] = slashedV
	sc.Special["exited"] = exitedV
	// side branch from the block at slot 5
	side := sc.BySlot[5]
	for _, slot := range []common.Slot{6, 7, 10, 11, 17, 18} {
		if slot > last {
			break
		}
		n := w.AddBlock(fmt.Sprintf("s%d", slot), side, slot, BlockOps{Graffiti: 0xee})
		if n == nil {
			continue
		}
		side = n
		sc.Side = append(sc.Side, n)
	}
	// a late fork: a block at slot 30 or 31 on the main block of slot 29 (or the closest earlier one)
	if last >= 32 {
		p := AncestorAt(tip, 29)
		for _, slot := range []common.Slot{30, 31} {
			if n := w.AddBlock(fmt.Sprintf("t%d", slot), p, slot, BlockOps{Graffiti: 0xdd}); n != nil {
				sc.Side2 = append(sc.Side2, n)
				break
			}
		}
	}
	return sc
}

// buildGapChain: a chain with WHOLE EPOCHS without blocks between a parent and its child (2 and 3 epochs back, on the main
// chain and on three side branches, before, across and after the altair fork), and with empty slots across the boundaries
// of a short sync-committee period. Meant for a world with SLOTS_PER_EPOCH = 8, altair from epoch 3 and
// EPOCHS_PER_SYNC_COMMITTEE_PERIOD = 2. The upgrade (epoch 3) sets current = next = the committee drawn for epoch 4, the
// epoch transition 3->4 draws the same committee again (same seed epoch), so the period boundaries at epochs 4 and 6
// rotate nothing; the boundaries at epoch 8 (slot 64) and epoch 10 (slot 80) install a different committee.
//
//	epoch  0: m1 m2 m3 m5 m6        epoch 1: -                    epoch 2: m17 m18 m19 (phase0, parent 2 epochs back)
//	epoch  3: - (altair upgrade)    epoch 4: - (period boundary, nothing rotates)
//	epoch  5: m41 (parent 3 epochs back, across the fork) m42 m43 m45 m46      epoch 6: - (period boundary, nothing rotates)
//	epoch  7: m57 (parent 2 epochs back) m58 m60 m62, slot 63 empty
//	epoch  8: (period boundary, the committee ROTATES) 64 65 empty, m66 m67 m69     epoch 9: -
//	epoch 10: (period boundary, rotates) 80 empty, m81 (parent 2 epochs back) m82
//	side A: m3 <- a20 (2 back, phase0) <- a44 (3 back, across the fork) <- a45
//	side B: m58 <- b61 <- b63 <- b76 (2 back, across the rotating boundary)
//	side C: m19 <- c26 (altair, 1 back) <- c49 (3 back) <- c73 (3 back, across the rotating boundary)
func buildGapChain(w *World) *Scenario {
	sc := &Scenario{W: w, BySlot: map[common.Slot]*Node{}, Special: map[string]common.ValidatorIndex{}}
	tip := w.Genesis
	sc.Main = append(sc.Main, tip)
	sc.BySlot[0] = tip
	for _, slot := range []common.Slot{1, 2, 3, 5, 6, 17, 18, 19, 41, 42, 43, 45, 46, 57, 58, 60, 62, 66, 67, 69, 81, 82} {
		n := w.AddBlock(fmt.Sprintf("m%d", slot), tip, slot, BlockOps{})
		if n == nil {
			panic("gap chain: no slashings here")
		}
		tip = n
		sc.Main = append(sc.Main, n)
		sc.BySlot[slot] = n
	}
	branch := func(prefix string, graffiti byte, from *Node, slots ...common.Slot) []*Node {
		var out []*Node
		p := from
		for _, slot := range slots {
			n := w.AddBlock(fmt.Sprintf("%s%d", prefix, slot), p, slot, BlockOps{Graffiti: graffiti})
			if n == nil {
				panic("gap chain: no slashings here")
			}
			out = append(out, n)
			p = n
		}
		return out
	}
	sc.Side = branch("a", 0xa1, sc.BySlot[3], 20, 44, 45)
	sc.Side2 = append(branch("b", 0xb1, sc.BySlot[58], 61, 63, 76), branch("c", 0xc1, sc.BySlot[19], 26, 49, 73)...)
	return sc
}

// named: the block of that name among the scenario's blocks.
func (sc *Scenario) named(name string) *Node {
	for _, n := range sc.W.Nodes {
		if n.Name == name {
			return n
		}
	}
	panic("no block named " + name)
}

// epochsBack: how many epochs the parent of n lies before n.
func (w *World) epochsBack(n *Node) uint64 {
	if n.Parent == nil {
		return 0
	}
	return uint64(w.Spec.SlotToEpoch(n.Slot) - w.Spec.SlotToEpoch(n.Parent.Slot))
}

// buildForkChain: a chain across fork-version changes AFTER altair, for a world with altair from epoch 1, bellatrix from
// epoch 3 and capella from epoch 5 (SLOTS_PER_EPOCH = 8): blocks in the last slot of each fork and in the first slot of
// the next one, and side branches that leave the first slot of the new fork empty.
//
//	phase0  m1 m2 m3 m5 m6 m7 | altair m8 m9 m11 m12 m15 m17 m20 m21 m22 m23 | bellatrix m24 m25 m26 m28 m33 m36 m38 m39 | capella m40 m41 m42
//	side  : m23 <- s25 <- s26 (slot 24 empty)        side2 : m39 <- t41 <- t42 (slot 40 empty)
func buildForkChain(w *World) *Scenario {
	sc := &Scenario{W: w, BySlot: map[common.Slot]*Node{}, Special: map[string]common.ValidatorIndex{}}
	tip := w.Genesis
	sc.Main = append(sc.Main, tip)
	sc.BySlot[0] = tip
	add := func(prefix string, graffiti byte, from *Node, slots ...common.Slot) []*Node {
		var out []*Node
		p := from
		for _, slot := range slots {
			n := w.AddBlock(fmt.Sprintf("%s%d", prefix, slot), p, slot, BlockOps{Graffiti: graffiti})
			if n == nil {
				panic("fork chain: no slashings here")
			}
			out = append(out, n)
			p = n
		}
		return out
	}
	for _, n := range add("m", 0, tip, 1, 2, 3, 5, 6, 7, 8, 9, 11, 12, 15, 17, 20, 21, 22, 23, 24, 25, 26, 28, 33, 36, 38, 39, 40, 41, 42) {
		sc.Main = append(sc.Main, n)
		sc.BySlot[n.Slot] = n
	}
	sc.Side = add("s", 0x51, sc.BySlot[23], 25, 26)
	sc.Side2 = add("t", 0x71, sc.BySlot[39], 41, 42)
	return sc
}

// buildSparseChain: blocks at the given slots, one after another on the genesis block.
func buildSparseChain(w *World, slots ...common.Slot) *Scenario {
	sc := &Scenario{W: w, BySlot: map[common.Slot]*Node{}, Special: map[string]common.ValidatorIndex{}}
	tip := w.Genesis
	sc.Main = append(sc.Main, tip)
	sc.BySlot[0] = tip
	for _, slot := range slots {
		n := w.AddBlock(fmt.Sprintf("m%d", slot), tip, slot, BlockOps{})
		if n == nil {
			panic("sparse chain: no slashings here")
		}
		tip = n
		sc.Main = append(sc.Main, n)
		sc.BySlot[slot] = n
	}
	return sc
}
