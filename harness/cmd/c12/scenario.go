package main

// scenario.go: the worlds (configurations + chains) the topic generators run against.

import (
	"fmt"

	"github.com/protolambda/zrnt/eth2/beacon/common"
)

type Scenario struct {
	W       *World
	Main    []*Node // canonical chain, by construction order (genesis first)
	Side    []*Node // a fork
	Side2   []*Node // a late, short fork (same shuffling as the main chain for the following epoch)
	BySlot  map[common.Slot]*Node
	Special map[string]common.ValidatorIndex // validators with a history: exited, slashed
}

func (s *Scenario) Tip() *Node { return s.Main[len(s.Main)-1] }

// buildChain: blocks at most slots up to `last`, with skipped slots (incl. an epoch-start slot), operations in
// some blocks and a side branch forking off at slot 5.
func buildChain(w *World, last common.Slot) *Scenario {
	sc := &Scenario{W: w, BySlot: map[common.Slot]*Node{}, Special: map[string]common.ValidatorIndex{}}
	skip := map[common.Slot]bool{4: true, 8: true, 13: true, 14: true, 24: true, 25: true, 31: true}
	tip := w.Genesis
	sc.Main = append(sc.Main, tip)
	sc.BySlot[0] = tip
	slashedV := common.ValidatorIndex(6)
	exitedV := common.ValidatorIndex(5)
	doneSlash, doneExit := false, false
	for slot := common.Slot(1); slot <= last; slot++ {
		if skip[slot] {
			continue
		}
		ops := BlockOps{}
		pre, _, err := w.Advance(tip, slot)
		must(err)
		if !doneSlash && slot >= 3 {
			ops.ProposerSlashings = append(ops.ProposerSlashings, *w.MakeProposerSlashing(pre, slashedV, 2, w.KeyOf(slashedV)))
		}
		if !doneExit && slot >= 9 && w.Spec.SlotToEpoch(slot) >= w.Spec.SHARD_COMMITTEE_PERIOD {
			ops.Exits = append(ops.Exits, *w.MakeExit(pre, exitedV, w.Spec.SlotToEpoch(slot), w.KeyOf(exitedV), common.DOMAIN_VOLUNTARY_EXIT))
		}
		n := w.AddBlock(fmt.Sprintf("m%d", slot), tip, slot, ops)
		if n == nil {
			continue
		}
		if len(ops.ProposerSlashings) > 0 {
			doneSlash = true
		}
		if len(ops.Exits) > 0 {
			doneExit = true
		}
		tip = n
		sc.Main = append(sc.Main, n)
		sc.BySlot[slot] = n
	}
	sc.Special["slashed"] = slashedV
	sc.Special["exited"] = exitedV
	// side branch from the block at slot 5
	side := sc.BySlot[5]
	for _, slot := range []common.Slot{6, 7, 10, 11, 17, 18} {
		if slot > last {
			break
		}
		n := w.AddBlock(fmt.Sprintf("s%d", slot), side, slot, BlockOps{Graffiti: 0xee})
		if n == nil {
			continue
		}
		side = n
		sc.Side = append(sc.Side, n)
	}
	// a late fork: a block at slot 30 or 31 on the main block of slot 29 (or the closest earlier one)
	if last >= 32 {
		p := AncestorAt(tip, 29)
		for _, slot := range []common.Slot{30, 31} {
			if n := w.AddBlock(fmt.Sprintf("t%d", slot), p, slot, BlockOps{Graffiti: 0xdd}); n != nil {
				sc.Side2 = append(sc.Side2, n)
				break
			}
		}
	}
	return sc
}
