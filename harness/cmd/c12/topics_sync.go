package main

// topics_sync.go: sync_committee_{subnet_id} and sync_committee_contribution_and_proof.

import (
	"fmt"

	"github.com/protolambda/zrnt/eth2/beacon/altair"
	"github.com/protolambda/zrnt/eth2/beacon/common"
	"github.com/protolambda/zrnt/eth2/gossipval"
	"github.com/protolambda/ztyp/view"
)

func (w *World) MakeSyncMessage(slot common.Slot, bbr common.Root, vi common.ValidatorIndex, signer KeyNum, dt common.BLSDomainType) *altair.SyncCommitteeMessage {
	dom := w.DomainAt(dt, w.Spec.SlotToEpoch(slot))
	return &altair.SyncCommitteeMessage{Slot: slot, BeaconBlockRoot: bbr, ValidatorIndex: vi, Signature: w.C.Sign1(signer, common.ComputeSigningRoot(bbr, dom))}
}

// MakeSyncMessageDom: the same under an explicit domain.
func (w *World) MakeSyncMessageDom(slot common.Slot, bbr common.Root, vi common.ValidatorIndex, signer KeyNum, dom common.BLSDomain) *altair.SyncCommitteeMessage {
	return &altair.SyncCommitteeMessage{Slot: slot, BeaconBlockRoot: bbr, ValidatorIndex: vi, Signature: w.C.Sign1(signer, common.ComputeSigningRoot(bbr, dom))}
}

func (g *Gen) syncCase(what string, v *View, subnet uint64, m *altair.SyncCommitteeMessage) string {
	f := NewFacts(v)
	if e := f.ByBlockSlot(m.BeaconBlockRoot, m.Slot); e != nil {
		f.Sync(e)
		f.Pubkey(e, m.ValidatorIndex)
	}
	f.Domain(common.DOMAIN_SYNC_COMMITTEE, v.W.Spec.SlotToEpoch(m.Slot))
	msg := fmt.Sprintf("MSyncMessage %d (Build_sync_message %d %s %d %d)", subnet, uint64(m.Slot), rootN(m.BeaconBlockRoot), uint64(m.ValidatorIndex), f.Sig(m.Signature))
	js := map[string]interface{}{"subnet": subnet, "slot": uint64(m.Slot), "beacon_block_root": m.BeaconBlockRoot.String(), "validator_index": uint64(m.ValidatorIndex)}
	return g.Emit("sync", what, v, f, msg, js, func() gossipval.GossipValidatorResult {
		_, r := gossipval.ValidateSyncCommitteeSubnet(bg, subnet, m, v)
		return r
	})
}

// HeadAt: a head block and a (current) slot at or after it; the slots in between are empty.
type HeadAt struct {
	Head *Node
	Cur  common.Slot
}

// seatsOf: the (validator, subnet) seats of a sync committee, in committee order, without repetitions
// ([2] = first committee position of the seat).
func seatsOf(members []common.ValidatorIndex, subSize uint64) (out [][3]uint64) {
	seen := map[[2]uint64]bool{}
	for pos, vi := range members {
		k := [2]uint64{uint64(vi), uint64(pos) / subSize}
		if !seen[k] {
			seen[k] = true
			out = append(out, [3]uint64{k[0], k[1], uint64(pos)})
		}
	}
	return
}

func hasSeat(seats [][3]uint64, k [3]uint64) bool {
	for _, x := range seats {
		if x[0] == k[0] && x[1] == k[1] {
			return true
		}
	}
	return false
}

func (g *Gen) genSyncMessages(sc *Scenario, heads []*Node) {
	var at []HeadAt
	for _, head := range heads {
		at = append(at, HeadAt{head, head.Slot}, HeadAt{head, head.Slot + 1})
	}
	g.genSyncMessagesAt(sc, at)
}

// genSyncMessagesAt: `at` lists (head block, current slot) pairs; pairs come in twos per head as far as the sampling
// ordinal `hi` is concerned. When the head block lies in an earlier sync-committee period than the current slot and the
// committee really differs, every seat is exercised: seats that are new in the period of the message (ACCEPT expected)
// and seats held only in the committee of the head block's own post-state (REJECT expected).
func (g *Gen) genSyncMessagesAt(sc *Scenario, at []HeadAt) {
	w := sc.W
	subSize := uint64(w.Spec.SYNC_COMMITTEE_SIZE) / common.SYNC_COMMITTEE_SUBNET_COUNT
	for ai, a := range at {
		hi, head, cur := ai/2, a.Head, a.Cur
		{
			if w.Spec.SlotToEpoch(cur) < w.Spec.ALTAIR_FORK_EPOCH {
				continue
			}
			v := NewView(w, head, 0)
			v.NowMs = v.SlotStartMs(cur) + 4000
			st, _, err := w.Advance(head, cur)
			must(err)
			members := w.SyncCommitteeOf(st) // of the state AT THE MESSAGE SLOT
			seats := seatsOf(members, subSize)
			// the committee of the head block's own post-state, when it is another one
			var oldSeats, newOnly, oldOnly [][3]uint64
			if old := w.SyncCommitteeOf(head.State); old != nil {
				oldSeats = seatsOf(old, subSize)
			}
			period := func(s common.Slot) uint64 {
				return uint64(w.Spec.SlotToEpoch(s)) / uint64(w.Spec.EPOCHS_PER_SYNC_COMMITTEE_PERIOD)
			}
			crossed := period(head.Slot) != period(cur)
			if crossed && oldSeats != nil {
				for _, k := range seats {
					if !hasSeat(oldSeats, k) {
						newOnly = append(newOnly, k)
					}
				}
				for _, k := range oldSeats {
					if !hasSeat(seats, k) {
						oldOnly = append(oldOnly, k)
					}
				}
			}
			rotated := len(newOnly) > 0 || len(oldOnly) > 0
			if crossed {
				g.E.Extra["x_sync_views_head_in_earlier_period"] = extraInt(g.E.Extra["x_sync_views_head_in_earlier_period"]) + 1
			}
			if rotated {
				g.E.Extra["x_sync_views_head_in_earlier_period_committee_rotated"] = extraInt(g.E.Extra["x_sync_views_head_in_earlier_period_committee_rotated"]) + 1
			}
			// honest: every position of the committee
			for _, k := range seats {
				vi, subnet, pos := common.ValidatorIndex(k[0]), k[1], int(k[2])
				switch {
				case rotated && !hasSeat(oldSeats, k):
					g.syncCase("honest[seat-new-in-this-period]", v, subnet, w.MakeSyncMessage(cur, head.Root, vi, w.KeyOf(vi), common.DOMAIN_SYNC_COMMITTEE))
				case rotated:
					g.syncCase("honest[seat-kept-across-period]", v, subnet, w.MakeSyncMessage(cur, head.Root, vi, w.KeyOf(vi), common.DOMAIN_SYNC_COMMITTEE))
				case (pos+hi+g.Salt)%2 == 0 || pos < 4:
					g.syncCase("honest", v, subnet, w.MakeSyncMessage(cur, head.Root, vi, w.KeyOf(vi), common.DOMAIN_SYNC_COMMITTEE))
				}
			}
			// seats held only in the committee of the head block's own period: correctly signed, but no seat any more
			for _, k := range oldOnly {
				vi, subnet := common.ValidatorIndex(k[0]), k[1]
				g.syncCase("seat-only-in-previous-period", v, subnet, w.MakeSyncMessage(cur, head.Root, vi, w.KeyOf(vi), common.DOMAIN_SYNC_COMMITTEE))
			}
			pos := (int(cur)*5 + g.Salt) % len(members)
			if rotated && len(newOnly) > 0 {
				// the member the corruptions are applied to holds a seat that is new in this period
				pos = int(newOnly[(int(cur)+g.Salt)%len(newOnly)][2])
			}
			vi := members[pos]
			subnet := uint64(pos) / subSize
			k := w.KeyOf(vi)
			honest := w.MakeSyncMessage(cur, head.Root, vi, k, common.DOMAIN_SYNC_COMMITTEE)
			// subnet
			wrongSubnet := (subnet + 1) % 4
			inOther := false
			for p2, x := range members {
				if x == vi && uint64(p2)/subSize == wrongSubnet {
					inOther = true
				}
			}
			if !inOther {
				g.syncCase("wrong-subnet", v, wrongSubnet, honest)
			}
			g.syncCase("subnet-out-of-range", v, 4, honest)
			g.syncCase("subnet-out-of-range", v, subnet+64, honest)
			// not a member
			out := common.ValidatorIndex(0)
			for memberOf(members, out) {
				out++
			}
			if int(out) < w.NVals {
				g.syncCase("not-a-member", v, subnet, w.MakeSyncMessage(cur, head.Root, out, w.KeyOf(out), common.DOMAIN_SYNC_COMMITTEE))
			}
			g.syncCase("validator-out-of-range", v, subnet, w.MakeSyncMessage(cur, head.Root, common.ValidatorIndex(w.NVals+2), k, common.DOMAIN_SYNC_COMMITTEE))
			// signature
			g.syncCase("sig-other-key", v, subnet, w.MakeSyncMessage(cur, head.Root, vi, k+1, common.DOMAIN_SYNC_COMMITTEE))
			g.syncCase("sig-wrong-domain", v, subnet, w.MakeSyncMessage(cur, head.Root, vi, k, common.DOMAIN_BEACON_ATTESTER))
			if adj, ok := w.AdjacentForkEpoch(w.Spec.SlotToEpoch(cur)); ok {
				// the right domain type under the fork version of the neighbouring epoch
				g.syncCase("sig-domain-of-adjacent-fork", v, subnet, w.MakeSyncMessageDom(cur, head.Root, vi, k, w.DomainAt(common.DOMAIN_SYNC_COMMITTEE, adj)))
			}
			{
				m := *honest
				m.Signature = garbageSig(10)
				g.syncCase("sig-garbage", v, subnet, &m)
				m = *honest
				m.Signature = infinitySig()
				g.syncCase("sig-infinity", v, subnet, &m)
				if head.Parent != nil {
					m = *honest
					m.BeaconBlockRoot = head.Parent.Root // signed the head, claims the parent
					g.syncCase("sig-over-other-root", v, subnet, &m)
				}
			}
			// slot: the message must be for the current slot
			g.syncCase("clock-at-start-edge", v.AtSlot(cur, -500), subnet, honest)
			g.syncCase("clock-before-start-edge", v.AtSlot(cur, -501), subnet, honest)
			g.syncCase("clock-at-end-edge", v.AtSlot(cur+1, 499), subnet, honest)
			g.syncCase("clock-after-end-edge", v.AtSlot(cur+1, 500), subnet, honest)
			g.syncCase("message-of-previous-slot", v.AtSlot(cur+1, 4000), subnet, honest)
			g.syncCase("message-of-previous-slot-late", v.AtSlot(cur+2, 499), subnet, honest)
			g.syncCase("message-two-slots-old", v.AtSlot(cur+2, 500), subnet, honest)
			g.syncCase("message-of-next-slot", v.AtSlot(cur-1, 4000), subnet, honest)
			// block root
			g.syncCase("unknown-block", v, subnet, w.MakeSyncMessage(cur, common.Root{0xee, byte(hi)}, vi, k, common.DOMAIN_SYNC_COMMITTEE))
			{
				vh := v.Clone()
				vh.Hidden[head.Root] = true
				g.syncCase("block-not-seen", vh, subnet, honest)
				if head.Parent != nil && w.Spec.SlotToEpoch(head.Parent.Slot) >= w.Spec.ALTAIR_FORK_EPOCH {
					g.syncCase("honest-for-parent-root", v, subnet, w.MakeSyncMessage(cur, head.Parent.Root, vi, k, common.DOMAIN_SYNC_COMMITTEE))
				}
			}
			// availability
			{
				ve := v.Clone()
				ve.EpcFail["*"] = true
				g.syncCase("context-unavailable", ve, subnet, honest)
				vd := v.Clone()
				vd.DomainFail = true
				g.syncCase("domain-unavailable", vd, subnet, honest)
			}
			// duplicates
			{
				vs := v.Clone()
				vs.Seen = append(vs.Seen, Mark{Kind: "sync", A: uint64(vi), B: uint64(cur), C: subnet})
				g.syncCase("duplicate", vs, subnet, honest)
				g.syncCase("duplicate-and-bad-sig", vs, subnet, w.MakeSyncMessage(cur, head.Root, vi, k+1, common.DOMAIN_SYNC_COMMITTEE))
				vs = v.Clone()
				vs.Seen = append(vs.Seen, Mark{Kind: "sync", A: uint64(vi), B: uint64(cur), C: (subnet + 1) % 4}, Mark{Kind: "sync", A: uint64(vi), B: uint64(cur) - 1, C: subnet})
				g.syncCase("other-entries-seen", vs, subnet, honest)
			}
		}
	}
}

// pre-altair context: the validator dereferences a nil sync committee
func (g *Gen) genSyncPreAltair(sc *Scenario) {
	w := sc.W
	for _, n := range sc.Main {
		if n.Slot > 0 && w.Spec.SlotToEpoch(n.Slot) < w.Spec.ALTAIR_FORK_EPOCH && w.Spec.SlotToEpoch(n.Slot+1) < w.Spec.ALTAIR_FORK_EPOCH {
			v := NewView(w, n, 0)
			v.NowMs = v.SlotStartMs(n.Slot) + 4000
			g.syncCase("pre-altair-context", v, 0, w.MakeSyncMessage(n.Slot, n.Root, 3, w.KeyOf(3), common.DOMAIN_SYNC_COMMITTEE))
			return
		}
	}
}

// ---------- contributions ----------

func bitvector(bits []bool) altair.SyncCommitteeSubnetBits {
	out := make(altair.SyncCommitteeSubnetBits, (len(bits)+7)/8)
	for i, b := range bits {
		if b {
			out[i>>3] |= 1 << (uint(i) & 7)
		}
	}
	return out
}

type ContribOpts struct {
	Slot       common.Slot
	Root       common.Root
	Sub        uint64
	Bits       []bool
	Signers    []KeyNum
	Aggregator common.ValidatorIndex
	AggKey     KeyNum
	SelSlot    common.Slot
	SelSub     uint64
	SelDT      common.BLSDomainType
	OuterDT    common.BLSDomainType
	ContribDT  common.BLSDomainType
	// when set: the epoch whose fork version the respective domain is computed under (nil = the epoch of the slot)
	ContribEp, SelEp, OuterEp *common.Epoch
	MutateAfter               func(m *altair.ContributionAndProof)
}

func (w *World) MakeContribution(o ContribOpts) *altair.SignedContributionAndProof {
	ep := w.Spec.SlotToEpoch(o.Slot)
	or := func(p *common.Epoch, e common.Epoch) common.Epoch {
		if p != nil {
			return *p
		}
		return e
	}
	var sig common.BLSSignature
	if len(o.Signers) == 0 {
		sig = infinitySig()
	} else {
		sig = w.C.Sign(o.Signers, common.ComputeSigningRoot(o.Root, w.DomainAt(o.ContribDT, or(o.ContribEp, ep))))
	}
	ct := altair.SyncCommitteeContribution{Slot: o.Slot, BeaconBlockRoot: o.Root, SubcommitteeIndex: view.Uint64View(o.Sub), AggregationBits: bitvector(o.Bits), Signature: sig}
	sd := altair.SyncAggregatorSelectionData{Slot: o.SelSlot, SubcommitteeIndex: view.Uint64View(o.SelSub)}
	sel := w.C.Sign1(o.AggKey, common.ComputeSigningRoot(sd.HashTreeRoot(hFn), w.DomainAt(o.SelDT, or(o.SelEp, w.Spec.SlotToEpoch(o.SelSlot)))))
	msg := altair.ContributionAndProof{AggregatorIndex: o.Aggregator, Contribution: ct, SelectionProof: sel}
	outer := w.C.Sign1(o.AggKey, common.ComputeSigningRoot(msg.HashTreeRoot(w.Spec, hFn), w.DomainAt(o.OuterDT, or(o.OuterEp, ep))))
	if o.MutateAfter != nil {
		o.MutateAfter(&msg)
	}
	return &altair.SignedContributionAndProof{Message: msg, Signature: outer}
}

func (g *Gen) contribCase(what string, v *View, sc *altair.SignedContributionAndProof) string {
	what += g.contribTag
	f := NewFacts(v)
	w := v.W
	ct := &sc.Message.Contribution
	subSize := uint64(w.Spec.SYNC_COMMITTEE_SIZE) / common.SYNC_COMMITTEE_SUBNET_COUNT
	if e := f.ByBlockSlot(ct.BeaconBlockRoot, ct.Slot); e != nil {
		members := f.Sync(e)
		f.Pubkey(e, sc.Message.AggregatorIndex)
		sub := uint64(ct.SubcommitteeIndex)
		if members != nil && sub < 4 {
			f.Pubkeys(e, members[subSize*sub:subSize*(sub+1)])
		}
	}
	ep := w.Spec.SlotToEpoch(ct.Slot)
	f.Domain(common.DOMAIN_SYNC_COMMITTEE, ep)
	f.Domain(common.DOMAIN_SYNC_COMMITTEE_SELECTION_PROOF, ep)
	f.Domain(common.DOMAIN_CONTRIBUTION_AND_PROOF, ep)
	nb := subSize
	bits := make([]bool, nb)
	for i := uint64(0); i < nb; i++ {
		bits[i] = ct.AggregationBits.GetBit(i)
	}
	msg := fmt.Sprintf("MContribution (Build_signed_contribution (Build_contribution_and_proof %d (Build_contribution %d %s %d %s %d) %d %s) %d)", uint64(sc.Message.AggregatorIndex),
		uint64(ct.Slot), rootN(ct.BeaconBlockRoot), uint64(ct.SubcommitteeIndex), coqBits(bits), f.Sig(ct.Signature), f.Sig(sc.Message.SelectionProof),
		rootN(sc.Message.HashTreeRoot(w.Spec, hFn)), f.Sig(sc.Signature))
	js := map[string]interface{}{"aggregator": uint64(sc.Message.AggregatorIndex), "slot": uint64(ct.Slot), "beacon_block_root": ct.BeaconBlockRoot.String(),
		"subcommittee_index": uint64(ct.SubcommitteeIndex), "bits": fmt.Sprintf("%v", bits)}
	return g.Emit("contrib", what, v, f, msg, js, func() gossipval.GossipValidatorResult {
		_, r := gossipval.ValidateSyncContribAndProof(bg, sc, v)
		return r
	})
}

func (g *Gen) genContributions(sc *Scenario, heads []*Node) {
	var at []HeadAt
	for _, head := range heads {
		at = append(at, HeadAt{head, head.Slot}, HeadAt{head, head.Slot + 1})
	}
	g.genContributionsAt(sc, at)
}

// genContributionsAt: as genSyncMessagesAt; across a rotating period boundary a contribution of a subcommittee of the
// head block's own (previous) committee is added.
func (g *Gen) genContributionsAt(sc *Scenario, at []HeadAt) {
	w := sc.W
	subSize := int(uint64(w.Spec.SYNC_COMMITTEE_SIZE) / common.SYNC_COMMITTEE_SUBNET_COUNT)
	for ai, a := range at {
		hi, head, cur := ai/2, a.Head, a.Cur
		{
			ep := w.Spec.SlotToEpoch(cur)
			if ep < w.Spec.ALTAIR_FORK_EPOCH {
				continue
			}
			v := NewView(w, head, 0)
			v.NowMs = v.SlotStartMs(cur) + 4500
			st, _, err := w.Advance(head, cur)
			must(err)
			members := w.SyncCommitteeOf(st) // of the state AT THE CONTRIBUTION'S SLOT
			g.contribTag = ""
			if old := w.SyncCommitteeOf(head.State); old != nil && fmt.Sprint(old) != fmt.Sprint(members) {
				g.contribTag = "[head-in-previous-period]"
				g.E.Extra["x_contrib_views_head_in_earlier_period_committee_rotated"] = extraInt(g.E.Extra["x_contrib_views_head_in_earlier_period_committee_rotated"]) + 1
			}
			selects := func(vi common.ValidatorIndex, sub uint64) bool {
				sd := altair.SyncAggregatorSelectionData{Slot: cur, SubcommitteeIndex: view.Uint64View(sub)}
				sel := w.C.Sign1(w.KeyOf(vi), common.ComputeSigningRoot(sd.HashTreeRoot(hFn), w.DomainAt(common.DOMAIN_SYNC_COMMITTEE_SELECTION_PROOF, ep)))
				return altair.IsSyncCommitteeAggregator(w.Spec, sel)
			}
			mkBaseOf := func(members []common.ValidatorIndex, sub uint64, aggPos int, pattern int) ContribOpts {
				subm := members[subSize*int(sub) : subSize*int(sub+1)]
				bits := make([]bool, subSize)
				var signers []KeyNum
				for i := range bits {
					if pattern == 0 || (i+pattern)%3 != 0 || i == aggPos {
						bits[i] = true
						signers = append(signers, w.KeyOf(subm[i]))
					}
				}
				return ContribOpts{Slot: cur, Root: head.Root, Sub: sub, Bits: bits, Signers: signers, Aggregator: subm[aggPos], AggKey: w.KeyOf(subm[aggPos]),
					SelSlot: cur, SelSub: sub, SelDT: common.DOMAIN_SYNC_COMMITTEE_SELECTION_PROOF, OuterDT: common.DOMAIN_CONTRIBUTION_AND_PROOF, ContribDT: common.DOMAIN_SYNC_COMMITTEE}
			}
			mkBase := func(sub uint64, aggPos int, pattern int) ContribOpts { return mkBaseOf(members, sub, aggPos, pattern) }
			// head block in an earlier period with another committee: a contribution of a subcommittee of THAT committee,
			// by a selected aggregator (if possible one without a seat in the same subcommittee now)
			if old := w.SyncCommitteeOf(head.State); old != nil && fmt.Sprint(old) != fmt.Sprint(members) {
				for sub := uint64(0); sub < 4; sub++ {
					oldm, newm := old[subSize*int(sub):subSize*int(sub+1)], members[subSize*int(sub):subSize*int(sub+1)]
					if fmt.Sprint(oldm) == fmt.Sprint(newm) {
						continue
					}
					pick := -1
					for p := range oldm {
						if selects(oldm[p], sub) && (pick < 0 || (memberOf(newm, oldm[pick]) && !memberOf(newm, oldm[p]))) {
							pick = p
						}
					}
					if pick >= 0 {
						what := "subcommittee-of-previous-period[aggregator-kept-seat]"
						if !memberOf(newm, oldm[pick]) {
							what = "subcommittee-of-previous-period[aggregator-lost-seat]"
						}
						g.contribCase(what, v, w.MakeContribution(mkBaseOf(old, sub, pick, 0)))
					}
				}
			}
			var sample *ContribOpts
			var nonSelecting *ContribOpts
			for sub := uint64(0); sub < 4; sub++ {
				subm := members[subSize*int(sub) : subSize*int(sub+1)]
				done := 0
				// members holding a seat in an EARLIER subcommittee as well come first: an aggregator for a subcommittee
				// that is not the first one it sits in
				order := make([]int, 0, len(subm))
				for p := range subm {
					if sub > 0 && memberOf(members[:subSize*int(sub)], subm[p]) {
						order = append(order, p)
					}
				}
				multi := len(order)
				for p := range subm {
					if !(sub > 0 && memberOf(members[:subSize*int(sub)], subm[p])) {
						order = append(order, p)
					}
				}
				for oi, p := range order {
					if oi < multi && selects(subm[p], sub) {
						g.Count["x:contrib-honest-aggregator-with-earlier-seat"]++
					}
					if selects(subm[p], sub) {
						if done < 2 {
							o := mkBase(sub, p, (int(sub)+done+hi)%3)
							g.contribCase("honest", v, w.MakeContribution(o))
							if sample == nil && int(sub) == (hi+int(cur))%4 {
								oo := mkBase(sub, p, 0)
								sample = &oo
							}
							done++
						}
					} else if nonSelecting == nil {
						oo := mkBase(sub, p, 0)
						nonSelecting = &oo
					}
				}
			}
			if sample == nil {
				continue
			}
			base := *sample
			mk := func(mod func(o *ContribOpts)) *altair.SignedContributionAndProof {
				o := base
				o.Bits = append([]bool(nil), base.Bits...)
				o.Signers = append([]KeyNum(nil), base.Signers...)
				if mod != nil {
					mod(&o)
				}
				return w.MakeContribution(o)
			}
			subm := members[subSize*int(base.Sub) : subSize*int(base.Sub+1)]
			if nonSelecting != nil {
				g.contribCase("selection-proof-does-not-select", v, w.MakeContribution(*nonSelecting))
			}
			// subcommittee index
			g.contribCase("subcommittee-index-out-of-range", v, mk(func(o *ContribOpts) { o.Sub = 4; o.SelSub = 4 }))
			g.contribCase("subcommittee-index-out-of-range", v, mk(func(o *ContribOpts) { o.Sub = 1 << 40; o.SelSub = 1 << 40 }))
			{
				other := (base.Sub + 1) % 4
				if !memberOf(members[subSize*int(other):subSize*int(other+1)], base.Aggregator) {
					g.contribCase("aggregator-not-in-subcommittee", v, mk(func(o *ContribOpts) { o.Sub = other; o.SelSub = other }))
				}
				out := common.ValidatorIndex(0)
				for memberOf(members, out) {
					out++
				}
				if int(out) < w.NVals {
					g.contribCase("aggregator-not-in-sync-committee", v, mk(func(o *ContribOpts) { o.Aggregator = out; o.AggKey = w.KeyOf(out) }))
				}
				g.contribCase("aggregator-index-out-of-range", v, mk(func(o *ContribOpts) { o.Aggregator = common.ValidatorIndex(w.NVals + 9) }))
			}
			// participants
			g.contribCase("no-participants", v, mk(func(o *ContribOpts) { o.Bits = make([]bool, subSize); o.Signers = nil }))
			g.contribCase("single-participant", v, mk(func(o *ContribOpts) {
				o.Bits = make([]bool, subSize)
				o.Bits[0] = true
				o.Signers = []KeyNum{w.KeyOf(subm[0])}
			}))
			g.contribCase("contribution-sig-missing-signer", v, mk(func(o *ContribOpts) { o.Signers = o.Signers[1:] }))
			g.contribCase("contribution-sig-extra-signer", v, mk(func(o *ContribOpts) { o.Bits[0] = false }))
			g.contribCase("contribution-sig-wrong-domain", v, mk(func(o *ContribOpts) { o.ContribDT = common.DOMAIN_BEACON_ATTESTER }))
			if adj, ok := w.AdjacentForkEpoch(ep); ok {
				// the right domain types under the fork version of the neighbouring epoch
				g.contribCase("contribution-sig-domain-of-adjacent-fork", v, mk(func(o *ContribOpts) { o.ContribEp = &adj }))
				g.contribCase("selection-proof-domain-of-adjacent-fork", v, mk(func(o *ContribOpts) { o.SelEp = &adj }))
				g.contribCase("outer-sig-domain-of-adjacent-fork", v, mk(func(o *ContribOpts) { o.OuterEp = &adj }))
				g.contribCase("all-sigs-domain-of-adjacent-fork", v, mk(func(o *ContribOpts) { o.ContribEp, o.SelEp, o.OuterEp = &adj, &adj, &adj }))
			}
			if head.Parent != nil && w.Spec.SlotToEpoch(head.Parent.Slot) >= w.Spec.ALTAIR_FORK_EPOCH {
				g.contribCase("honest-for-parent-root", v, mk(func(o *ContribOpts) { o.Root = head.Parent.Root }))
			}
			// signatures of the aggregator
			g.contribCase("selection-proof-wrong-domain", v, mk(func(o *ContribOpts) { o.SelDT = common.DOMAIN_SELECTION_PROOF }))
			g.contribCase("selection-proof-for-other-slot", v, mk(func(o *ContribOpts) { o.SelSlot = cur + 1 }))
			g.contribCase("selection-proof-for-other-subcommittee", v, mk(func(o *ContribOpts) { o.SelSub = (o.Sub + 1) % 4 }))
			g.contribCase("outer-sig-wrong-domain", v, mk(func(o *ContribOpts) { o.OuterDT = common.DOMAIN_AGGREGATE_AND_PROOF }))
			g.contribCase("outer-sig-over-other-message", v, mk(func(o *ContribOpts) {
				o.MutateAfter = func(m *altair.ContributionAndProof) { m.Contribution.AggregationBits[0] ^= 1 }
			}))
			{
				s := mk(nil)
				s.Signature = garbageSig(11)
				g.contribCase("outer-sig-garbage", v, s)
				s = mk(nil)
				other := mk(func(o *ContribOpts) { o.AggKey = o.AggKey + 1 })
				s.Signature = other.Signature
				g.contribCase("outer-sig-other-key", v, s)
			}
			// slot
			honest := mk(nil)
			g.contribCase("clock-at-start-edge", v.AtSlot(cur, -500), honest)
			g.contribCase("clock-before-start-edge", v.AtSlot(cur, -501), honest)
			g.contribCase("clock-at-end-edge", v.AtSlot(cur+1, 499), honest)
			g.contribCase("clock-after-end-edge", v.AtSlot(cur+1, 500), honest)
			g.contribCase("contribution-of-previous-slot", v.AtSlot(cur+1, 4500), honest)
			g.contribCase("contribution-two-slots-old", v.AtSlot(cur+2, 500), honest)
			g.contribCase("contribution-of-next-slot", v.AtSlot(cur-1, 4500), honest)
			// block root
			g.contribCase("unknown-block", v, mk(func(o *ContribOpts) { o.Root = common.Root{0xef, byte(hi)} }))
			{
				vh := v.Clone()
				vh.Hidden[head.Root] = true
				g.contribCase("block-not-seen", vh, honest)
				ve := v.Clone()
				ve.EpcFail["*"] = true
				g.contribCase("context-unavailable", ve, honest)
				vd := v.Clone()
				vd.DomainFail = true
				g.contribCase("domain-unavailable", vd, honest)
			}
			// duplicates
			{
				vs := v.Clone()
				vs.Seen = append(vs.Seen, Mark{Kind: "contrib", A: uint64(base.Aggregator), B: uint64(cur), C: base.Sub})
				g.contribCase("duplicate", vs, honest)
				g.contribCase("duplicate-and-bad-outer-sig", vs, mk(func(o *ContribOpts) { o.OuterDT = common.DOMAIN_AGGREGATE_AND_PROOF }))
				vs = v.Clone()
				vs.Seen = append(vs.Seen, Mark{Kind: "contrib", A: uint64(base.Aggregator), B: uint64(cur), C: (base.Sub + 1) % 4})
				g.contribCase("other-entries-seen", vs, honest)
			}
		}
	}
	g.contribTag = ""
}
