package main

// topics_block.go: beacon_block.

import (
	"fmt"

	"github.com/protolambda/zrnt/eth2/beacon/common"
	"github.com/protolambda/zrnt/eth2/gossipval"
)

func (g *Gen) blockCase(what string, v *View, env *common.BeaconBlockEnvelope) string {
	what += g.blockTag
	f := NewFacts(v)
	sp := v.W.Spec
	f.BlockSlotDomains(env.Slot)
	f.InSubtree(v.Fin.Root, env.ParentRoot)
	if p := f.ByBlock(env.ParentRoot); p != nil {
		f.Pubkey(p, env.ProposerIndex)
		f.Proposer(p, env.Slot)
		if tslot, err := sp.EpochStartSlot(sp.SlotToEpoch(env.Slot)); err == nil {
			if te := f.Towards(env.ParentRoot, tslot); te != nil {
				f.Proposer(te, env.Slot)
			}
		}
	}
	msg := fmt.Sprintf("MBlock (Build_block_envelope %d %d %s %s %s %d)", uint64(env.Slot), uint64(env.ProposerIndex), rootN(env.ParentRoot), rootN(env.BlockRoot),
		bytesN(env.ForkDigest[:]), f.Sig(env.Signature))
	js := map[string]interface{}{"slot": uint64(env.Slot), "proposer_index": uint64(env.ProposerIndex), "parent_root": env.ParentRoot.String(), "block_root": env.BlockRoot.String(),
		"fork_digest": env.ForkDigest.String()}
	if p := v.W.Nodes[env.ParentRoot]; p != nil {
		js["parent"] = nodeName(p)
		js["parent_epoch"] = uint64(sp.SlotToEpoch(p.Slot))
		js["block_epoch"] = uint64(sp.SlotToEpoch(env.Slot))
	}
	return g.Emit("block", what, v, f, msg, js, func() gossipval.GossipValidatorResult { return gossipval.ValidateBeaconBlock(bg, env, v) })
}

// resign: a copy of the envelope with changed header fields, signed by `signer` under domain type dt.
func (w *World) resign(env *common.BeaconBlockEnvelope, mod func(e *common.BeaconBlockEnvelope), signer KeyNum, dt common.BLSDomainType) *common.BeaconBlockEnvelope {
	e := *env
	if mod != nil {
		mod(&e)
	}
	e.BlockRoot = e.BeaconBlockHeader.HashTreeRoot(hFn)
	dom := common.ComputeDomain(dt, w.ForkVersionAt(e.Slot), w.GVR)
	e.Signature = w.C.Sign1(signer, common.ComputeSigningRoot(e.BlockRoot, dom))
	return &e
}

func (g *Gen) genBlocks(sc *Scenario) {
	g.genBlocksOf(sc, append(append(append([]*Node{}, sc.Main[1:]...), sc.Side...), sc.Side2...))
}

// genBlocksOf: the beacon_block cases for the delivery of each of the given blocks of the scenario.
func (g *Gen) genBlocksOf(sc *Scenario, all []*Node) {
	w := sc.W
	for bi, n := range all {
		// a parent two or more epochs back (a whole epoch without blocks in between) is a class of its own
		tag := ""
		if eb := w.epochsBack(n); eb >= 2 {
			tag = fmt.Sprintf("[parent-%d-epochs-back]", eb)
			g.E.Extra[fmt.Sprintf("x_blocks_with_parent_%d_epochs_back", eb)] = extraInt(g.E.Extra[fmt.Sprintf("x_blocks_with_parent_%d_epochs_back", eb)]) + 1
		}
		g.blockTag = tag
		// the node has seen everything except this block and what builds on it
		v := NewView(w, n.Parent, 0)
		for _, x := range w.subtree(n) {
			v.Hidden[x.Root] = true
		}
		v.NowMs = v.SlotStartMs(n.Slot) + 1000
		env := n.Env
		proposerKey := w.KeyOf(env.ProposerIndex)
		g.blockCase("honest", v, env)
		g.blockCase("honest-late", v.AtSlot(n.Slot+3, 0), env)
		// clock edges
		g.blockCase("clock-at-edge", v.AtSlot(n.Slot, -500), env)
		g.blockCase("clock-before-edge", v.AtSlot(n.Slot, -501), env)
		crossing := w.Spec.SlotToEpoch(n.Parent.Slot) != w.Spec.SlotToEpoch(n.Slot)
		if bi%3 != 0 && !crossing {
			continue
		}
		g.blockCase("clock-one-slot-early", v.AtSlot(n.Slot-1, 0), env)
		// duplicates
		{
			vs := v.Clone()
			vs.Seen = append(vs.Seen, Mark{Kind: "block", A: uint64(env.Slot), B: uint64(env.ProposerIndex)})
			g.blockCase("duplicate", vs, env)
			vs = v.Clone()
			vs.Seen = append(vs.Seen, Mark{Kind: "block", A: uint64(env.Slot), B: uint64(env.ProposerIndex) + 1}, Mark{Kind: "block", A: uint64(env.Slot) + 1, B: uint64(env.ProposerIndex)})
			g.blockCase("other-entries-seen", vs, env)
		}
		// parent
		{
			vh := v.Clone()
			vh.Hidden[env.ParentRoot] = true
			g.blockCase("parent-not-seen", vh, env)
			g.blockCase("parent-unknown", v, w.resign(env, func(e *common.BeaconBlockEnvelope) { e.ParentRoot = common.Root{0xab, byte(bi)} }, proposerKey, common.DOMAIN_BEACON_PROPOSER))
			g.blockCase("slot-not-after-parent", v.AtSlot(n.Slot+1, 0), w.resign(env, func(e *common.BeaconBlockEnvelope) { e.Slot = n.Parent.Slot }, proposerKey, common.DOMAIN_BEACON_PROPOSER))
			if n.Parent.Slot > 0 {
				g.blockCase("slot-before-parent", v.AtSlot(n.Slot+1, 0), w.resign(env, func(e *common.BeaconBlockEnvelope) { e.Slot = n.Parent.Slot - 1 }, proposerKey, common.DOMAIN_BEACON_PROPOSER))
			}
		}
		// finalized checkpoint
		{
			ep := w.Spec.SlotToEpoch(n.Slot)
			vf := v.Clone()
			vf.Fin = common.Checkpoint{Epoch: ep + 1, Root: w.Genesis.Root}
			g.blockCase("finalized-slot-after-block", vf, env)
			if uint64(n.Slot)%8 == 0 {
				vf = v.Clone()
				vf.Fin = common.Checkpoint{Epoch: ep, Root: w.Genesis.Root}
				g.blockCase("finalized-slot-is-block-slot", vf, env)
			}
			vf = v.Clone()
			vf.Fin = common.Checkpoint{Epoch: 0, Root: common.Root{0xcd}}
			g.blockCase("finalized-unknown", vf, env)
			other := sc.Side[0]
			if IsAncestor(other, n) {
				other = sc.BySlot[6]
			}
			if other != nil && !IsAncestor(other, n.Parent) {
				vf = v.Clone()
				vf.Fin = common.Checkpoint{Epoch: 0, Root: other.Root}
				g.blockCase("finalized-on-other-branch", vf, env)
			}
			if anc := AncestorAt(n.Parent, 8); anc != w.Genesis && ep >= 2 {
				vf = v.Clone()
				vf.Fin = common.Checkpoint{Epoch: 1, Root: anc.Root}
				g.blockCase("finalized-ancestor", vf, env)
			}
		}
		// signature
		{
			g.blockCase("sig-other-key", v, w.resign(env, nil, proposerKey+1, common.DOMAIN_BEACON_PROPOSER))
			g.blockCase("sig-wrong-domain", v, w.resign(env, nil, proposerKey, common.DOMAIN_BEACON_ATTESTER))
			if adj, ok := w.AdjacentForkEpoch(w.Spec.SlotToEpoch(env.Slot)); ok {
				// proposer domain / envelope digest of the fork version of the neighbouring epoch
				adjSig := w.C.Sign1(proposerKey, common.ComputeSigningRoot(env.BlockRoot, w.DomainAt(common.DOMAIN_BEACON_PROPOSER, adj)))
				adjDigest := common.ComputeForkDigest(w.VersionAtEpoch(adj), w.GVR)
				e := *env
				e.Signature = adjSig
				g.blockCase("sig-domain-of-adjacent-fork", v, &e)
				e = *env
				e.ForkDigest = adjDigest
				g.blockCase("fork-digest-of-adjacent-fork", v, &e)
				e = *env
				e.Signature, e.ForkDigest = adjSig, adjDigest
				g.blockCase("sig-and-digest-of-adjacent-fork", v, &e)
			}
			e := *env
			e.Signature = garbageSig(9)
			g.blockCase("sig-garbage", v, &e)
			e = *env
			e.ForkDigest[0] ^= 0xff
			g.blockCase("wrong-fork-digest", v, &e)
			e = *env
			e.BlockRoot[5] ^= 1
			g.blockCase("sig-over-other-root", v, &e)
		}
		// proposer
		{
			wrong := env.ProposerIndex + 1
			if uint64(wrong) >= uint64(w.NVals) {
				wrong = 0
			}
			// a block by somebody who is not the proposer of the slot, correctly signed by that validator
			imp := w.resign(env, func(e *common.BeaconBlockEnvelope) { e.ProposerIndex = wrong }, w.KeyOf(wrong), common.DOMAIN_BEACON_PROPOSER)
			g.blockCase("not-the-expected-proposer", v, imp)
			g.blockCase("proposer-index-out-of-range", v, w.resign(env, func(e *common.BeaconBlockEnvelope) { e.ProposerIndex = common.ValidatorIndex(w.NVals + 5) }, proposerKey, common.DOMAIN_BEACON_PROPOSER))
			// after the refused impostor the genuine block must still get through: replay what the impostor marked
			vi := v.Clone()
			g.blockCase("not-the-expected-proposer", vi, imp)
			vafter := v.Clone()
			vafter.Seen = append(vafter.Seen, vi.Marks...)
			g.blockCase("honest-after-refused-impostor", vafter, env)
		}
		// availability
		{
			ve := v.Clone()
			ve.EpcFail["*"] = true
			g.blockCase("context-unavailable", ve, env)
			vt := v.Clone()
			vt.TowardsFail = true
			g.blockCase("towards-timeout", vt, env)
			if w.Spec.SlotToEpoch(n.Parent.Slot) != w.Spec.SlotToEpoch(n.Slot) {
				// only the advanced entry's context is missing
				vt = v.Clone()
				tslot, _ := w.Spec.EpochStartSlot(w.Spec.SlotToEpoch(n.Slot))
				vt.EpcFail[entryKey(n.Parent.Root, tslot)] = true
				if tslot != n.Parent.Slot {
					g.blockCase("advanced-context-unavailable", vt, env)
				}
				// the parent carried to the first epoch start after it (an epoch that is NOT the block's) is not asked for
				if mid, _ := w.Spec.EpochStartSlot(w.Spec.SlotToEpoch(n.Parent.Slot) + 1); mid != tslot {
					vt = v.Clone()
					vt.EpcFail[entryKey(n.Parent.Root, mid)] = true
					g.blockCase("intermediate-context-unavailable", vt, env)
				}
			}
		}
	}
	g.blockTag = ""
}

func extraInt(x interface{}) int {
	if n, ok := x.(int); ok {
		return n
	}
	return 0
}
