package main

// facts.go: collects, for one message, the finite backend facts the Coq model and spec may ask for
// (always computed with the view's own pure query functions, never by watching what Go asked), and prints
// them as a Coq `facts` term. Committees, committee counts, proposers and the context's epoch are read from a context
// computed from the entry's STATE alone (Entry.fresh), the sync committee and the domains from the state / the fork
// schedule: not from the shared, long-lived EpochsContext objects the validators get.

import (
	"fmt"
	"math/big"
	"sort"
	"strings"

	"github.com/protolambda/zrnt/eth2/beacon/common"
	. "verifharness/hx"
)

func rootN(r common.Root) string { return bytesN(r[:]) }
func bytesN(b []byte) string     { return "0x" + new(big.Int).SetBytes(b).Text(16) }
func coqIdxList(l []common.ValidatorIndex) string {
	s := make([]string, len(l))
	for i, x := range l {
		s[i] = fmt.Sprintf("%d", uint64(x))
	}
	return "[" + strings.Join(s, ";") + "]"
}
func coqBits(bits []bool) string {
	s := make([]string, len(bits))
	for i, x := range bits {
		if x {
			s[i] = "true"
		} else {
			s[i] = "false"
		}
	}
	return "[" + strings.Join(s, ";") + "]"
}

// domain type codes shared with GossipRun.dtype_code
func dtypeCode(t common.BLSDomainType) uint64 { return uint64(t[0]) }

type entryFacts struct {
	id        uint64
	e         *Entry
	counts    map[uint64]string
	comms     map[[2]uint64]string
	proposers map[uint64]string
	needSync  bool
	pubkeys   map[uint64]string
	vals      map[uint64]string
	domains   map[[2]uint64]string
	broots    map[uint64]string
}

type Facts struct {
	v        *View
	entries  map[string]*entryFacts
	order    []string
	domains  map[[2]uint64]string
	digests  map[uint64]string
	pdomains map[uint64]string
	blocks   map[common.Root]string
	bslots   map[string]string
	subtree  map[string]string
	towards  map[string]string
	sigs     map[uint64]string
	bad      map[common.Root]bool
}

func NewFacts(v *View) *Facts {
	return &Facts{v: v, entries: map[string]*entryFacts{}, domains: map[[2]uint64]string{}, digests: map[uint64]string{}, pdomains: map[uint64]string{},
		blocks: map[common.Root]string{}, bslots: map[string]string{}, subtree: map[string]string{}, towards: map[string]string{}, sigs: map[uint64]string{}, bad: map[common.Root]bool{}}
}

func (f *Facts) ent(e *Entry) *entryFacts {
	k := e.Key()
	if x, ok := f.entries[k]; ok {
		return x
	}
	x := &entryFacts{id: uint64(len(f.entries) + 1), e: e, counts: map[uint64]string{}, comms: map[[2]uint64]string{}, proposers: map[uint64]string{},
		pubkeys: map[uint64]string{}, vals: map[uint64]string{}, domains: map[[2]uint64]string{}, broots: map[uint64]string{}}
	f.entries[k] = x
	f.order = append(f.order, k)
	return x
}

// ---- backend-level facts ----
func (f *Facts) Domain(typ common.BLSDomainType, epoch common.Epoch) {
	d, err := f.v.GetDomain(typ, epoch)
	if err == nil {
		f.domains[[2]uint64{dtypeCode(typ), uint64(epoch)}] = bytesN(d[:])
	}
}
func (f *Facts) BlockSlotDomains(slot common.Slot) {
	// fork digest and proposer domain of the fork version in force at the slot (the world's own fork schedule)
	dg := f.v.W.DigestAt(slot)
	f.digests[uint64(slot)] = bytesN(dg[:])
	dom := common.ComputeDomain(common.DOMAIN_BEACON_PROPOSER, f.v.W.ForkVersionAt(slot), f.v.W.GVR)
	f.pdomains[uint64(slot)] = bytesN(dom[:])
}
func (f *Facts) BadBlock(root common.Root) {
	if f.v.IsBadBlock(root) {
		f.bad[root] = true
	}
}
func (f *Facts) Head() *Entry {
	if f.v.HeadFail || f.v.HeadNode == nil {
		return nil
	}
	e := f.v.entry(f.v.HeadNode, f.v.HeadNode.Slot)
	f.ent(e)
	return e
}
func (f *Facts) ByBlock(root common.Root) *Entry {
	ce, ok := f.v.Chain().ByBlock(root)
	if !ok {
		return nil
	}
	e := ce.(*Entry)
	f.blocks[root] = fmt.Sprintf("(%s,%d)", rootN(root), f.ent(e).id)
	return e
}
func (f *Facts) ByBlockSlot(root common.Root, slot common.Slot) *Entry {
	ce, ok := f.v.Chain().ByBlockSlot(root, slot)
	if !ok {
		return nil
	}
	e := ce.(*Entry)
	f.bslots[entryKey(root, slot)] = fmt.Sprintf("(%s,%d,%d)", rootN(root), uint64(slot), f.ent(e).id)
	return e
}
func (f *Facts) InSubtree(anchor, root common.Root) (bool, bool) {
	u, in := f.v.Chain().InSubtree(anchor, root)
	f.subtree[fmt.Sprintf("%x|%x", anchor[:], root[:])] = fmt.Sprintf("(%s,%s,(%s,%s))", rootN(anchor), rootN(root), CoqBool(u), CoqBool(in))
	return u, in
}
func (f *Facts) Towards(root common.Root, slot common.Slot) *Entry {
	ce, err := f.v.Chain().Towards(bg, root, slot)
	if err != nil {
		return nil
	}
	e := ce.(*Entry)
	f.towards[entryKey(root, slot)] = fmt.Sprintf("(%s,%d,%d)", rootN(root), uint64(slot), f.ent(e).id)
	return e
}
func (f *Facts) Sig(b common.BLSSignature) uint64 {
	si := f.v.W.C.Info(b)
	signers := make([]string, len(si.Signers))
	for i, k := range si.Signers {
		signers[i] = fmt.Sprintf("%d", uint64(k))
	}
	f.sigs[si.ID] = fmt.Sprintf("(%d,Build_sfacts %s %s %d [%s] %s)", si.ID, CoqBool(si.OK), CoqBool(si.Inf), si.Hash, strings.Join(signers, ";"), rootN(si.Msg))
	return si.ID
}

// ---- per-entry facts ----
func (f *Facts) CommitteeCount(e *Entry, epoch common.Epoch) (uint64, bool) {
	x := f.ent(e)
	var n uint64
	var err error
	if panicked, _ := Catch(func() { n, err = e.fresh().GetCommitteeCountPerSlot(epoch) }); panicked || err != nil {
		return 0, false
	}
	x.counts[uint64(epoch)] = fmt.Sprintf("(%d,%d)", uint64(epoch), n)
	return n, true
}
func (f *Facts) Committee(e *Entry, slot common.Slot, index common.CommitteeIndex) []common.ValidatorIndex {
	x := f.ent(e)
	comm, err := e.fresh().GetBeaconCommittee(slot, index)
	if err != nil {
		return nil
	}
	x.comms[[2]uint64{uint64(slot), uint64(index)}] = fmt.Sprintf("(%d,%d,%s)", uint64(slot), uint64(index), coqIdxList(comm))
	return comm
}
func (f *Facts) Proposer(e *Entry, slot common.Slot) {
	x := f.ent(e)
	p, err := e.fresh().GetBeaconProposer(slot)
	if err == nil {
		x.proposers[uint64(slot)] = fmt.Sprintf("(%d,%d)", uint64(slot), uint64(p))
	}
}

// Sync: the sync committee of the entry = current_sync_committee of the entry's STATE (the state of the block carried
// to the entry's slot), as the p2p conditions are worded; never the EpochsContext cache the validators read.
func (f *Facts) Sync(e *Entry) []common.ValidatorIndex {
	x := f.ent(e)
	x.needSync = true
	return f.v.W.SyncCommitteeOf(e.st)
}
func (f *Facts) Pubkey(e *Entry, i common.ValidatorIndex) {
	x := f.ent(e)
	pub, ok := e.epc.ValidatorPubkeyCache.Pubkey(i)
	if !ok {
		return
	}
	k, ok := f.v.W.C.byPub[pub.Compressed]
	if !ok {
		panic("pubkey of unknown key")
	}
	x.pubkeys[uint64(i)] = fmt.Sprintf("(%d,%d)", uint64(i), uint64(k))
}
func (f *Facts) Pubkeys(e *Entry, l []common.ValidatorIndex) {
	for _, i := range l {
		f.Pubkey(e, i)
	}
}
func (f *Facts) Validator(e *Entry, i common.ValidatorIndex) {
	x := f.ent(e)
	vals, err := e.st.Validators()
	must(err)
	v, err := vals.Validator(i)
	if err != nil {
		return
	}
	sl, _ := v.Slashed()
	a, _ := v.ActivationEpoch()
	ex, _ := v.ExitEpoch()
	wd, _ := v.WithdrawableEpoch()
	x.vals[uint64(i)] = fmt.Sprintf("(%d,Build_vrec %s %d %d %d)", uint64(i), CoqBool(sl), uint64(a), uint64(ex), uint64(wd))
}
func (f *Facts) StateDomain(e *Entry, typ common.BLSDomainType, epoch common.Epoch) {
	x := f.ent(e)
	// get_domain(state, typ, epoch) from the world's own fork schedule (not zrnt's reading of state.fork)
	d := f.v.W.StateDomainAt(e.slot, typ, epoch)
	x.domains[[2]uint64{dtypeCode(typ), uint64(epoch)}] = fmt.Sprintf("(%d,%d,%s)", dtypeCode(typ), uint64(epoch), bytesN(d[:]))
}

// BlockRootAt: the state-history lookup of gossipval.CheckpointBlockRoot (only defined for slots before the
// entry's slot and at most SLOTS_PER_HISTORICAL_ROOT back).
func (f *Facts) BlockRootAt(e *Entry, slot common.Slot) {
	x := f.ent(e)
	if e.slot <= slot || e.slot-slot > f.v.W.Spec.SLOTS_PER_HISTORICAL_ROOT {
		return
	}
	r, err := common.GetBlockRootAtSlot(f.v.W.Spec, e.st, slot)
	if err == nil {
		x.broots[uint64(slot)] = fmt.Sprintf("(%d,%s)", uint64(slot), rootN(r))
	}
}

func sortedVals[K comparable](m map[K]string) []string {
	out := make([]string, 0, len(m))
	for _, s := range m {
		out = append(out, s)
	}
	sort.Strings(out)
	return out
}

func (x *entryFacts) coq(v *View) string {
	e := x.e
	_, epcErr := e.EpochsContext(bg)
	_, stErr := e.State(bg)
	vals, err := e.st.Validators()
	must(err)
	nv, err := vals.ValidatorCount()
	must(err)
	sync := "None"
	if x.needSync {
		if l := v.W.SyncCommitteeOf(e.st); l != nil {
			sync = "(Some " + coqIdxList(l) + ")"
		}
	}
	return fmt.Sprintf("(%d,Build_efacts %d %s %s %d %s %s %s %s %s %d %s %s %s)", x.id, uint64(e.slot), CoqBool(epcErr == nil), CoqBool(stErr == nil),
		uint64(e.fresh().CurrentEpoch.Epoch), CoqList(sortedVals(x.counts)), CoqList(sortedVals(x.comms)), CoqList(sortedVals(x.proposers)), sync,
		CoqList(sortedVals(x.pubkeys)), nv, CoqList(sortedVals(x.vals)), CoqList(sortedVals(x.domains)), CoqList(sortedVals(x.broots)))
}

func (f *Facts) Coq() string {
	v := f.v
	sp := v.W.Spec
	cfg := fmt.Sprintf("(Build_config %d %d %d %d)", uint64(sp.SLOTS_PER_EPOCH), uint64(sp.MAX_VALIDATORS_PER_COMMITTEE), uint64(sp.SHARD_COMMITTEE_PERIOD), uint64(sp.SYNC_COMMITTEE_SIZE))
	seen := make([]string, len(v.Seen))
	for i, m := range v.Seen {
		seen[i] = m.Coq()
	}
	bad := []string{}
	for r := range f.bad {
		bad = append(bad, rootN(r))
	}
	sort.Strings(bad)
	doms := []string{}
	for k, d := range f.domains {
		doms = append(doms, fmt.Sprintf("(%d,%d,%s)", k[0], k[1], d))
	}
	sort.Strings(doms)
	digs := []string{}
	for k, d := range f.digests {
		digs = append(digs, fmt.Sprintf("(%d,%s)", k, d))
	}
	sort.Strings(digs)
	pdoms := []string{}
	for k, d := range f.pdomains {
		pdoms = append(pdoms, fmt.Sprintf("(%d,%s)", k, d))
	}
	sort.Strings(pdoms)
	head := "None"
	if !v.HeadFail && v.HeadNode != nil {
		head = fmt.Sprintf("(Some %d)", f.ent(v.entry(v.HeadNode, v.HeadNode.Slot)).id)
	}
	ents := make([]string, 0, len(f.order))
	for _, k := range f.order {
		ents = append(ents, f.entries[k].coq(v))
	}
	blocks := []string{}
	for _, s := range f.blocks {
		blocks = append(blocks, s)
	}
	sort.Strings(blocks)
	return fmt.Sprintf("(Build_facts %s %d %d %s %s %s %s %s %s %s %s %s (%d,%s) %s %s %s)", cfg,
		uint64(v.SlotAfter(-500_000_000)), uint64(v.SlotAfter(500_000_000)), CoqList(seen), CoqList(bad), CoqList(doms), CoqList(digs), CoqList(pdoms), head,
		CoqList(blocks), CoqList(sortedVals(f.bslots)), CoqList(sortedVals(f.subtree)), uint64(v.Fin.Epoch), rootN(v.Fin.Root),
		CoqList(sortedVals(f.towards)), CoqList(ents), CoqList(sortedVals(f.sigs)))
}
