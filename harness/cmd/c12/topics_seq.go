package main

// topics_seq.go: stateful sequences. Several messages about ONE committee are validated one after another against the
// same backend (same chain view, same shared EpochsContext objects): a verdict must not depend on what was validated
// before, except through the seen-caches. Every message of a sequence is an ordinary case: the model judges it on the
// facts of a context computed from the state alone (Entry.fresh), and Emit asserts that the call left the contexts as
// they were.

import (
	"fmt"

	"github.com/protolambda/zrnt/eth2/beacon/altair"
	"github.com/protolambda/zrnt/eth2/beacon/common"
	"github.com/protolambda/zrnt/eth2/beacon/phase0"
	"github.com/protolambda/ztyp/view"
)

func (g *Gen) note(format string, a ...interface{}) {
	g.seqNote = append(g.seqNote, fmt.Sprintf("%d. ", len(g.seqNote)+1)+fmt.Sprintf(format, a...))
}

func (w *World) selectingMembers(ctx *AttCtx) (out []int) {
	dom, err := common.GetDomain(ctx.TState, common.DOMAIN_SELECTION_PROOF, w.Spec.SlotToEpoch(ctx.Slot))
	must(err)
	for p, vi := range ctx.Committee {
		sel := w.C.Sign1(w.KeyOf(vi), common.ComputeSigningRoot(ctx.Slot.HashTreeRoot(hFn), dom))
		if phase0.IsAggregator(w.Spec, uint64(len(ctx.Committee)), sel) {
			out = append(out, p)
		}
	}
	return
}

// genAttSequences: for the committees of the slot before the clock's slot of each view.
func (g *Gen) genAttSequences(sc *Scenario, views []*View) {
	w := sc.W
	defer func() { g.seqNote = nil }()
	for _, v := range views {
		cur := v.SlotAfter(0)
		if cur < 1 {
			continue
		}
		s := cur - 1
		voteFor := AncestorAt(v.HeadNode, s)
		for i := common.CommitteeIndex(0); i < 4; i++ {
			ctx := w.attCtx(voteFor, s, i)
			if ctx == nil || len(ctx.Committee) < 3 {
				continue
			}
			n := len(ctx.Committee)
			sel := w.selectingMembers(ctx)
			if len(sel) == 0 {
				continue
			}
			g.E.Extra["x_sequences"] = extraInt(g.E.Extra["x_sequences"]) + 1
			att := func(q int) *phase0.Attestation {
				return w.SignAtt(ctx.Data, n, []int{q}, []KeyNum{w.KeyOf(ctx.Committee[q])}, common.DOMAIN_BEACON_ATTESTER)
			}
			agg := func(p int, pos []int, mod func(o *AggOpts)) *phase0.SignedAggregateAndProof {
				var members []common.ValidatorIndex
				for _, q := range pos {
					members = append(members, ctx.Committee[q])
				}
				o := AggOpts{Positions: pos, Signers: w.keysOf(members), Aggregator: ctx.Committee[p], AggKey: w.KeyOf(ctx.Committee[p]), SelectionSlot: s,
					SelectionDT: common.DOMAIN_SELECTION_PROOF, OuterDT: common.DOMAIN_AGGREGATE_AND_PROOF, AttDT: common.DOMAIN_BEACON_ATTESTER, NBits: n}
				if mod != nil {
					mod(&o)
				}
				return w.MakeAggregate(ctx, ctx.Data, o)
			}
			// participants that are not a prefix of the committee: everybody but one of the first two members
			p1 := sel[(int(s)+g.Salt)%len(sel)]
			drop := 0
			if p1 == 0 {
				drop = 1
			}
			var partial []int
			for q := n - 1; q >= 0; q-- { // listed downwards (the order of the list is immaterial)
				if q != drop {
					partial = append(partial, q)
				}
			}
			for l, r := 0, len(partial)-1; l < r; l, r = l+1, r-1 {
				partial[l], partial[r] = partial[r], partial[l]
			}
			p2 := sel[(int(s)+g.Salt+1)%len(sel)]

			// --- sequence A: a valid partial aggregate first
			g.seqNote = nil
			a1 := agg(p1, partial, nil)
			g.aggCase("seq-partial-aggregate", v, a1)
			marksA1 := append([]Mark(nil), v.Marks...)
			g.note("partial aggregate of committee (%d,%d) %v, participants at positions %v, aggregator %d", uint64(s), uint64(i), ctx.Committee, partial, uint64(ctx.Committee[p1]))
			for q := 0; q < n; q++ {
				g.attCase("seq-attestation-after-partial-aggregate", v, ctx.Subnet, att(q))
				g.note("attestation of member at position %d", q)
			}
			g.aggCase("seq-full-aggregate-after-partial-aggregate", v, agg(p2, allPositions(n), nil))
			g.note("full aggregate by %d", uint64(ctx.Committee[p2]))
			g.aggCase("seq-partial-aggregate-again", v, a1)
			{
				vs := v.Clone()
				vs.Seen = append(vs.Seen, marksA1...)
				g.aggCase("seq-partial-aggregate-again-seen", vs, a1)
			}
			// --- sequence B: a partial aggregate that is refused for its inner signature, then honest messages
			g.seqNote = nil
			var partial2 []int
			for q := 0; q < n; q++ {
				if q != (drop+1)%n || q == p2 {
					partial2 = append(partial2, q)
				}
			}
			g.aggCase("seq-partial-aggregate-bad-inner-sig", v, agg(p2, partial2, func(o *AggOpts) { o.Signers = o.Signers[1:] }))
			g.note("partial aggregate with a missing signer, positions %v, aggregator %d", partial2, uint64(ctx.Committee[p2]))
			for q := 0; q < n; q += 2 {
				g.attCase("seq-attestation-after-refused-aggregate", v, ctx.Subnet, att(q))
				g.note("attestation of member at position %d", q)
			}
			g.aggCase("seq-partial-aggregate-after-refused-aggregate", v, agg(p2, partial2, nil))
			// --- sequence C: single attestations first, then aggregates
			g.seqNote = nil
			g.attCase("seq-attestation-first", v, ctx.Subnet, att(n-1))
			g.note("attestation of member at position %d of committee (%d,%d) %v", n-1, uint64(s), uint64(i), ctx.Committee)
			g.attCase("seq-attestation-of-other-member", v, ctx.Subnet, att(0))
			g.note("attestation of member at position 0")
			g.aggCase("seq-partial-aggregate-after-attestations", v, a1)
			g.note("partial aggregate, positions %v", partial)
			g.attCase("seq-attestation-again", v, ctx.Subnet, att(n-1))
		}
	}
}

// genSyncSequences: a partial contribution, the messages of every member of that subcommittee, the contribution again.
func (g *Gen) genSyncSequences(sc *Scenario, at []HeadAt) {
	w := sc.W
	defer func() { g.seqNote = nil }()
	subSize := int(uint64(w.Spec.SYNC_COMMITTEE_SIZE) / common.SYNC_COMMITTEE_SUBNET_COUNT)
	for _, a := range at {
		head, cur := a.Head, a.Cur
		ep := w.Spec.SlotToEpoch(cur)
		if ep < w.Spec.ALTAIR_FORK_EPOCH {
			continue
		}
		v := NewView(w, head, 0)
		v.NowMs = v.SlotStartMs(cur) + 4500
		st, _, err := w.Advance(head, cur)
		must(err)
		members := w.SyncCommitteeOf(st)
		selects := func(vi common.ValidatorIndex, sub uint64) bool {
			sd := altair.SyncAggregatorSelectionData{Slot: cur, SubcommitteeIndex: view.Uint64View(sub)}
			sel := w.C.Sign1(w.KeyOf(vi), common.ComputeSigningRoot(sd.HashTreeRoot(hFn), w.DomainAt(common.DOMAIN_SYNC_COMMITTEE_SELECTION_PROOF, ep)))
			return altair.IsSyncCommitteeAggregator(w.Spec, sel)
		}
		for sub := uint64(0); sub < 4; sub++ {
			subm := members[subSize*int(sub) : subSize*int(sub+1)]
			agg := -1
			for p := range subm {
				if selects(subm[p], sub) {
					agg = p
					break
				}
			}
			if agg < 0 {
				continue
			}
			bits := make([]bool, subSize)
			var signers []KeyNum
			for q := subSize - 1; q >= 0; q-- {
				if q%3 != 0 || q == agg {
					bits[q] = true
				}
			}
			for q := range bits {
				if bits[q] {
					signers = append(signers, w.KeyOf(subm[q]))
				}
			}
			ct := w.MakeContribution(ContribOpts{Slot: cur, Root: head.Root, Sub: sub, Bits: bits, Signers: signers, Aggregator: subm[agg], AggKey: w.KeyOf(subm[agg]),
				SelSlot: cur, SelSub: sub, SelDT: common.DOMAIN_SYNC_COMMITTEE_SELECTION_PROOF, OuterDT: common.DOMAIN_CONTRIBUTION_AND_PROOF, ContribDT: common.DOMAIN_SYNC_COMMITTEE})
			g.seqNote = nil
			g.E.Extra["x_sequences"] = extraInt(g.E.Extra["x_sequences"]) + 1
			g.contribCase("seq-partial-contribution", v, ct)
			g.note("partial contribution of subcommittee %d %v, bits %v, aggregator %d", sub, subm, bits, uint64(subm[agg]))
			done := map[common.ValidatorIndex]bool{}
			for q, vi := range subm {
				if done[vi] {
					continue
				}
				done[vi] = true
				g.syncCase("seq-message-after-partial-contribution", v, sub, w.MakeSyncMessage(cur, head.Root, vi, w.KeyOf(vi), common.DOMAIN_SYNC_COMMITTEE))
				g.note("sync message of member at position %d", q)
			}
			g.contribCase("seq-partial-contribution-again", v, ct)
			break // one subcommittee per view
		}
	}
}

// genBlockSequences: a block, messages that read the same contexts, the block again (seen-cache untouched / updated).
func (g *Gen) genBlockSequences(sc *Scenario, blocks []*Node) {
	w := sc.W
	defer func() { g.seqNote = nil }()
	for _, n := range blocks {
		v := NewView(w, n.Parent, 0)
		for _, x := range w.subtree(n) {
			v.Hidden[x.Root] = true
		}
		v.NowMs = v.SlotStartMs(n.Slot) + 1000
		g.seqNote = nil
		g.E.Extra["x_sequences"] = extraInt(g.E.Extra["x_sequences"]) + 1
		g.blockCase("seq-block", v, n.Env)
		marks := append([]Mark(nil), v.Marks...)
		g.note("block %s", nodeName(n))
		if n.Slot > 0 {
			if ctx := w.attCtx(n.Parent, n.Slot, 0); ctx != nil {
				q := int(n.Slot) % len(ctx.Committee)
				g.attCase("seq-attestation-after-block", v, ctx.Subnet, w.SignAtt(ctx.Data, len(ctx.Committee), []int{q}, []KeyNum{w.KeyOf(ctx.Committee[q])}, common.DOMAIN_BEACON_ATTESTER))
				g.note("attestation for the parent at the block's slot")
			}
		}
		g.blockCase("seq-block-again", v, n.Env)
		vs := v.Clone()
		vs.Seen = append(vs.Seen, marks...)
		g.blockCase("seq-block-again-seen", vs, n.Env)
	}
}
