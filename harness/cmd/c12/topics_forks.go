package main

// topics_forks.go: every topic around the fork-version changes of the "forks" world.

import (
	"github.com/protolambda/zrnt/eth2/beacon/common"
)

func (g *Gen) genForkBoundaries(sc *Scenario) {
	w := sc.W
	mkView := func(head *Node, slot common.Slot, ms int64) *View {
		v := NewView(w, head, 0)
		v.NowMs = v.SlotStartMs(slot) + ms
		return v
	}
	m := func(s common.Slot) *Node {
		n := sc.BySlot[s]
		if n == nil {
			panic("fork chain: missing block")
		}
		return n
	}
	sample := []common.ValidatorIndex{common.ValidatorIndex(3 + g.Salt%7), common.ValidatorIndex(40 + g.Salt%9)}
	// operations: head state in the last slot of the old fork / the first slot of the new one
	opHeads := []*Node{m(23), m(24), m(40)}
	if !g.E.Quick() {
		opHeads = append(opHeads, m(39), m(8), sc.Side[0], sc.Side2[0])
	}
	g.genExits(w, opHeads, sample, sc.Special)
	g.genProposerSlashings(w, opHeads, sample, sc.Special)
	g.genAttesterSlashings(w, opHeads, sc.Special)
	// attestations and aggregates: honest ones for the last slots before and the first slots after the change;
	// the corruptions hit slot cur-2
	g.attWindow = 4
	attViews := []*View{mkView(m(25), 25, 4000), mkView(m(26), 26, 4000), mkView(m(41), 41, 4000), mkView(m(42), 42, 4000)}
	if !g.E.Quick() {
		attViews = append(attViews, mkView(sc.Side[1], 26, 4000), mkView(sc.Side2[1], 42, 4000), mkView(m(24), 24, 4000), mkView(m(40), 40, 4000))
	}
	g.genAttestations(sc, attViews)
	g.genAggregates(sc, attViews)
	g.attWindow = 0
	// blocks: the last block of the old fork, the first ones of the new fork (on the main chain and after an empty first slot)
	blocks := []*Node{m(23), m(24), sc.Side[0], m(39), m(40), sc.Side2[0]}
	if !g.E.Quick() {
		blocks = append(blocks, m(7), m(8), m(25), m(41))
	}
	g.genBlocksOf(sc, blocks)
	// sync committee messages and contributions
	at := []HeadAt{{m(23), 23}, {m(23), 24}, {m(24), 24}, {m(39), 39}, {m(39), 40}, {m(40), 40}}
	g.genSyncMessagesAt(sc, at)
	if g.E.Quick() {
		at = []HeadAt{{m(23), 23}, {m(23), 24}, {m(39), 40}, {m(40), 40}}
	}
	g.genContributionsAt(sc, at)
}
