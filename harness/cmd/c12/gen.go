package main

// gen.go: case emission shared by the topic generators.

import (
	"encoding/json"
	"fmt"
	"os"
	"regexp"
	"sort"
	"strings"

	"github.com/protolambda/zrnt/eth2/beacon/common"
	"github.com/protolambda/zrnt/eth2/gossipval"
	. "verifharness/hx"
)

type Gen struct {
	E     *Env
	Count map[string]int
	Total int
	Salt  int // derived from VERIF_SEED: varies which members/validators/heads are sampled
	buf   []Case
	// suffix of the `what` of block cases (class of the block's history, e.g. a parent several epochs back)
	blockTag string
	// same for contribution cases (head block in an earlier sync-committee period than the contribution)
	contribTag string
	// honest attestations/aggregates only for the last attWindow slots before the clock's slot (0 = the whole propagation window)
	attWindow common.Slot
	// what was validated before on the same backend, as far as the generator arranged it on purpose (stateful sequences)
	seqNote []string
}

var hexLit = regexp.MustCompile(`0x[0-9a-f]{17,}`)

// Flush: hex literals of roots/domains that occur several times are named once in the shard header
// (Coq needs ~3 ms to read a 256-bit numeral), then the cases go to the Env.
func (g *Gen) Flush() {
	freq := map[string]int{}
	for _, c := range g.buf {
		for _, m := range hexLit.FindAllString(c.Coq, -1) {
			freq[m]++
		}
	}
	names := map[string]string{}
	var defs []string
	var keys []string
	for k, n := range freq {
		if n >= 6 {
			keys = append(keys, k)
		}
	}
	sort.Strings(keys)
	for i, k := range keys {
		names[k] = fmt.Sprintf("r%d", i)
		defs = append(defs, fmt.Sprintf("Definition r%d : N := %s.", i, k))
	}
	g.E.Header += "\n" + strings.Join(defs, "\n")
	for i := range g.buf {
		g.buf[i].Coq = hexLit.ReplaceAllStringFunc(g.buf[i].Coq, func(m string) string {
			if n, ok := names[m]; ok {
				return n
			}
			return m
		})
	}
	if g.E.Replay != "" {
		// replay: keep exactly the failing inputs named by the replay file (the generation is a function of the seed)
		type ref struct {
			Index int    `json:"index"`
			Coq   string `json:"coq"`
		}
		var rp struct {
			FailingCase ref   `json:"failing_case"`
			More        []ref `json:"more"`
			Mismatches  []ref `json:"correspondence_mismatches"`
		}
		if b, err := os.ReadFile(g.E.Replay); err == nil && json.Unmarshal(b, &rp) == nil {
			refs := append(append([]ref{rp.FailingCase}, rp.More...), rp.Mismatches...)
			byCoq := map[string]bool{}
			for _, r := range refs {
				if r.Coq != "" {
					byCoq[r.Coq] = true
				}
			}
			var kept []Case
			for _, c := range g.buf {
				if byCoq[c.Coq] {
					kept = append(kept, c)
				}
			}
			if len(kept) == 0 { // older replay files: by position
				for _, r := range refs {
					if r.Index >= 0 && r.Index < len(g.buf) {
						kept = append(kept, g.buf[r.Index])
					}
				}
			}
			if len(kept) > 0 {
				g.buf = kept
			}
		}
	}
	for _, c := range g.buf {
		g.E.Add(c)
	}
	g.buf = nil
	g.E.Extra["x_named_roots"] = len(keys)
}

func verdictName(r gossipval.GossipValidatorResult) string {
	switch r.Result {
	case gossipval.ACCEPT:
		return "ACCEPT"
	case gossipval.IGNORE:
		return "IGNORE"
	case gossipval.REJECT:
		return "REJECT"
	}
	return "REJECT"
}

// Emit runs the validator (under recover) against the view and records the case.
// topic: exit|propsl|attsl|att|agg|block|sync|contrib ; what: honest / the corruption applied ; expect: the verdict
// the generator intends ("" = no expectation), only reported in the JSON and the histogram.
func (g *Gen) Emit(topic, what string, v *View, f *Facts, msgCoq string, msgJSON interface{}, run func() gossipval.GossipValidatorResult) string {
	v.Marks = nil
	// a validator must not change the chain view: everything readable of the contexts of the entries involved is compared
	// before and after the call (the contexts are shared by all messages of the run, as in a node)
	var before []*epcSnapshot
	for _, k := range f.order {
		before = append(before, snapshotEpc(f.entries[k].e.epc))
	}
	var res gossipval.GossipValidatorResult
	panicked, pv := Catch(func() { res = run() })
	mutated := ""
	for i, k := range f.order {
		if d := before[i].diff(snapshotEpc(f.entries[k].e.epc)); d != "" {
			mutated = fmt.Sprintf("entry %s: %s", k[len(k)-12:], d)
			break
		}
	}
	if mutated != "" && !panicked {
		// harness assertion: reported like a panic of the call (no verdict of the specification allows it)
		panicked, pv = true, fmt.Sprintf("validator returned %s but changed the chain view: %s", verdictName(res), mutated)
		g.E.Extra["x_chain_view_mutations"] = extraInt(g.E.Extra["x_chain_view_mutations"]) + 1
	}
	verdict := verdictName(res)
	errText := ""
	if panicked {
		verdict = "PANIC"
		errText = fmt.Sprint(pv)
	} else if res.Err != nil {
		errText = res.Err.Error()
	}
	marks := make([]string, len(v.Marks))
	for i, m := range v.Marks {
		marks[i] = m.Coq()
	}
	seen := make([]string, len(v.Seen))
	for i, m := range v.Seen {
		seen[i] = m.Coq()
	}
	coq := fmt.Sprintf("GC %s (%s) %s %s", f.Coq(), msgCoq, verdict, CoqList(marks))
	kind := topic + "/" + what + "=" + verdict
	g.Count[kind]++
	g.Total++
	g.buf = append(g.buf, Case{Coq: coq, Kind: kind, NonTrivial: true, Key: fmt.Sprintf("%s|%d", kind, g.Count[kind]),
		JSON: map[string]interface{}{
			"world": v.W.Name, "topic": topic, "what": what, "message": msgJSON, "go_verdict": verdict, "go_error": errText, "go_marks": strings.Join(marks, "; "),
			"clock_ms": v.NowMs, "slot_after_minus": uint64(v.SlotAfter(-500_000_000)), "slot_after_plus": uint64(v.SlotAfter(500_000_000)),
			"chain_view_changed_by_validator": mutated, "validated_before_on_this_backend": strings.Join(g.seqNote, " ; "),
			"head": nodeName(v.HeadNode), "finalized": fmt.Sprintf("(%d, %x)", uint64(v.Fin.Epoch), v.Fin.Root[:4]), "seen": strings.Join(seen, "; "),
		}})
	return verdict
}

func nodeName(n *Node) string {
	if n == nil {
		return "none"
	}
	return fmt.Sprintf("%s@%d", n.Name, uint64(n.Slot))
}
