package main

// topics_att.go: beacon_attestation_{subnet_id} and beacon_aggregate_and_proof.

import (
	"bytes"
	"fmt"

	"github.com/protolambda/zrnt/eth2/beacon/common"
	"github.com/protolambda/zrnt/eth2/beacon/phase0"
	"github.com/protolambda/zrnt/eth2/gossipval"
)

func bitlist(bits []bool) phase0.AttestationBits {
	out := make(phase0.AttestationBits, len(bits)/8+1)
	for i, b := range bits {
		if b {
			out[i>>3] |= 1 << (uint(i) & 7)
		}
	}
	out[len(bits)>>3] |= 1 << (uint(len(bits)) & 7)
	return out
}

func oneBit(n, i int) []bool {
	b := make([]bool, n)
	if i >= 0 && i < n {
		b[i] = true
	}
	return b
}

// AttCtx: everything an honest attester of (slot, index) on the chain of `head` knows.
type AttCtx struct {
	W         *World
	Head      *Node // the block voted for
	Slot      common.Slot
	Index     common.CommitteeIndex
	Data      phase0.AttestationData
	Target    *Node
	Committee []common.ValidatorIndex
	Count     uint64
	Subnet    uint64
	TState    common.BeaconState
	TEpc      *common.EpochsContext
}

func (w *World) attCtx(voteFor *Node, slot common.Slot, index common.CommitteeIndex) *AttCtx {
	ep := w.Spec.SlotToEpoch(slot)
	tslot, err := w.Spec.EpochStartSlot(ep)
	must(err)
	target := AncestorAt(voteFor, tslot)
	st, live, err := w.Advance(target, tslot)
	must(err)
	// what an honest attester computes from the target state (not the node's long-lived context, which earlier
	// validations may have touched)
	epc := w.FreshContext(st, live)
	count, err := epc.GetCommitteeCountPerSlot(ep)
	must(err)
	if uint64(index) >= count {
		return nil
	}
	comm, err := epc.GetBeaconCommittee(slot, index)
	must(err)
	comm = append([]common.ValidatorIndex(nil), comm...)
	// compute_subnet_for_attestation, written out here (the honest sender's subnet is not asked of the code under test)
	subnet := w.unwrappedSubnet(count, slot, index) % 64
	src := common.Checkpoint{Epoch: 0, Root: w.Genesis.Root}
	return &AttCtx{W: w, Head: voteFor, Slot: slot, Index: index, Target: target, Committee: comm, Count: count, Subnet: subnet, TState: st, TEpc: epc,
		Data: phase0.AttestationData{Slot: slot, Index: index, BeaconBlockRoot: voteFor.Root, Source: src, Target: common.Checkpoint{Epoch: ep, Root: target.Root}}}
}

// unwrappedSubnet: committees_per_slot * slots_since_epoch_start + committee_index (before the reduction modulo
// ATTESTATION_SUBNET_COUNT = 64).
func (w *World) unwrappedSubnet(count uint64, slot common.Slot, index common.CommitteeIndex) uint64 {
	return count*(uint64(slot)%uint64(w.Spec.SLOTS_PER_EPOCH)) + uint64(index)
}

// SignAtt: the attestation of the committee members at `positions` for `data`, signed by `signers` under domain type dt.
func (w *World) SignAtt(data phase0.AttestationData, nbits int, positions []int, signers []KeyNum, dt common.BLSDomainType) *phase0.Attestation {
	return w.SignAttDom(data, nbits, positions, signers, w.DomainAt(dt, data.Target.Epoch))
}

// SignAttDom: the same under an explicit domain.
func (w *World) SignAttDom(data phase0.AttestationData, nbits int, positions []int, signers []KeyNum, dom common.BLSDomain) *phase0.Attestation {
	bits := make([]bool, nbits)
	for _, p := range positions {
		if p < nbits {
			bits[p] = true
		}
	}
	var sig common.BLSSignature
	if len(signers) == 0 {
		sig = infinitySig()
	} else {
		sig = w.C.Sign(signers, common.ComputeSigningRoot(data.HashTreeRoot(hFn), dom))
	}
	return &phase0.Attestation{AggregationBits: bitlist(bits), Data: data, Signature: sig}
}

func attBits(a *phase0.Attestation) []bool {
	n := a.AggregationBits.BitLen()
	out := make([]bool, n)
	for i := uint64(0); i < n; i++ {
		out[i] = a.AggregationBits.GetBit(i)
	}
	return out
}

// attFacts: the chain-view facts both attestation topics need.
func attFacts(f *Facts, d *phase0.AttestationData) (blk, te *Entry) {
	v := f.v
	f.BadBlock(d.BeaconBlockRoot)
	blk = f.ByBlock(d.BeaconBlockRoot)
	f.InSubtree(d.Target.Root, d.BeaconBlockRoot)
	f.InSubtree(v.Fin.Root, d.BeaconBlockRoot)
	tslot, err := v.W.Spec.EpochStartSlot(d.Target.Epoch)
	if err != nil {
		return blk, nil
	}
	if blk != nil {
		f.BlockRootAt(blk, tslot)
	}
	te = f.Towards(d.Target.Root, tslot)
	if te != nil {
		f.CommitteeCount(te, d.Target.Epoch)
		comm := f.Committee(te, d.Slot, d.Index)
		f.Pubkeys(te, comm)
	}
	return blk, te
}

func coqAttestation(f *Facts, a *phase0.Attestation) string {
	return fmt.Sprintf("(Build_attestation %s %s %d)", coqBits(attBits(a)), coqAttData(&a.Data), f.Sig(a.Signature))
}

func (g *Gen) attCase(what string, v *View, subnet uint64, att *phase0.Attestation) string {
	f := NewFacts(v)
	attFacts(f, &att.Data)
	f.Domain(common.DOMAIN_BEACON_ATTESTER, att.Data.Target.Epoch)
	msg := fmt.Sprintf("MAttestation %d %s", subnet, coqAttestation(f, att))
	js := map[string]interface{}{"subnet": subnet, "data": att.Data, "bits": fmt.Sprintf("%v", attBits(att))}
	return g.Emit("att", what, v, f, msg, js, func() gossipval.GossipValidatorResult {
		_, r := gossipval.ValidateAttestation(bg, subnet, att, v)
		return r
	})
}

func (v *View) AtSlot(s common.Slot, offsetMs int64) *View {
	c := v.Clone()
	c.NowMs = c.SlotStartMs(s) + offsetMs
	return c
}

// descendants of n (n included) among all known nodes
func (w *World) subtree(n *Node) []*Node {
	var out []*Node
	for _, x := range w.Nodes {
		if IsAncestor(n, x) {
			out = append(out, x)
		}
	}
	return out
}

func (g *Gen) genAttestations(sc *Scenario, views []*View) {
	w := sc.W
	for vi, v0 := range views {
		head := v0.HeadNode
		cur := v0.SlotAfter(0)
		// honest attestations for every slot and committee of the propagation window (one or two members each)
		lo := common.Slot(0)
		if cur > 32 {
			lo = cur - 32
		}
		if g.attWindow != 0 && cur > g.attWindow {
			lo = cur - g.attWindow
		}
		var sampleCtx *AttCtx
		for s := lo; s <= cur; s++ {
			voteFor := AncestorAt(head, s)
			for i := common.CommitteeIndex(0); i < 4; i++ {
				ctx := w.attCtx(voteFor, s, i)
				if ctx == nil {
					continue
				}
				members := []int{int(uint64(s)+uint64(i)+uint64(g.Salt)) % len(ctx.Committee)}
				if (uint64(s)+uint64(vi))%4 == 0 {
					members = append(members, (members[0]+1)%len(ctx.Committee))
				}
				for _, m := range members {
					att := w.SignAtt(ctx.Data, len(ctx.Committee), []int{m}, []KeyNum{w.KeyOf(ctx.Committee[m])}, common.DOMAIN_BEACON_ATTESTER)
					g.attCase("honest", v0, ctx.Subnet, att)
				}
				if s+2 == cur || (cur < 2 && s == cur) {
					sampleCtx = ctx
				}
			}
		}
		if sampleCtx == nil {
			continue
		}
		ctx := sampleCtx
		d := ctx.Data
		n := len(ctx.Committee)
		m := int(uint64(ctx.Slot)+uint64(g.Salt)) % n
		k := w.KeyOf(ctx.Committee[m])
		honest := func() *phase0.Attestation {
			return w.SignAtt(d, n, []int{m}, []KeyNum{k}, common.DOMAIN_BEACON_ATTESTER)
		}
		v := v0
		// signature
		g.attCase("sig-other-key", v, ctx.Subnet, w.SignAtt(d, n, []int{m}, []KeyNum{k + 1}, common.DOMAIN_BEACON_ATTESTER))
		g.attCase("sig-other-member", v, ctx.Subnet, w.SignAtt(d, n, []int{m}, []KeyNum{w.KeyOf(ctx.Committee[(m+1)%n])}, common.DOMAIN_BEACON_ATTESTER))
		g.attCase("sig-wrong-domain", v, ctx.Subnet, w.SignAtt(d, n, []int{m}, []KeyNum{k}, common.DOMAIN_BEACON_PROPOSER))
		if adj, ok := w.AdjacentForkEpoch(d.Target.Epoch); ok {
			g.attCase("sig-domain-of-adjacent-fork", v, ctx.Subnet, w.SignAttDom(d, n, []int{m}, []KeyNum{k}, w.DomainAt(common.DOMAIN_BEACON_ATTESTER, adj)))
		}
		g.attCase("sig-aggregate-of-two", v, ctx.Subnet, w.SignAtt(d, n, []int{m}, []KeyNum{k, k + 1}, common.DOMAIN_BEACON_ATTESTER))
		{
			a := honest()
			a.Signature = garbageSig(5)
			g.attCase("sig-garbage", v, ctx.Subnet, a)
			a = honest()
			a.Signature = infinitySig()
			g.attCase("sig-infinity", v, ctx.Subnet, a)
			a = honest()
			a.Data.Source.Epoch++ // signed something else
			g.attCase("sig-over-other-data", v, ctx.Subnet, a)
		}
		// subnet
		g.attCase("wrong-subnet", v, (ctx.Subnet+1)%64, honest())
		g.attCase("wrong-subnet", v, ctx.Subnet+64, honest())
		// bits
		g.attCase("zero-bits", v, ctx.Subnet, w.SignAtt(d, n, nil, []KeyNum{k}, common.DOMAIN_BEACON_ATTESTER))
		g.attCase("two-bits", v, ctx.Subnet, w.SignAtt(d, n, []int{m, (m + 1) % n}, []KeyNum{k, w.KeyOf(ctx.Committee[(m+1)%n])}, common.DOMAIN_BEACON_ATTESTER))
		g.attCase("all-bits", v, ctx.Subnet, w.SignAtt(d, n, []int{0, 1, 2, 3}, w.keysOf(ctx.Committee[:4]), common.DOMAIN_BEACON_ATTESTER))
		g.attCase("bits-too-long", v, ctx.Subnet, w.SignAtt(d, n+1, []int{m}, []KeyNum{k}, common.DOMAIN_BEACON_ATTESTER))
		g.attCase("bits-too-short", v, ctx.Subnet, w.SignAtt(d, n-1, []int{m % (n - 1)}, []KeyNum{w.KeyOf(ctx.Committee[m%(n-1)])}, common.DOMAIN_BEACON_ATTESTER))
		g.attCase("bits-empty-list", v, ctx.Subnet, w.SignAtt(d, 0, nil, []KeyNum{k}, common.DOMAIN_BEACON_ATTESTER))
		// committee index
		for _, bad := range []uint64{ctx.Count, ctx.Count + 1, 63, 64, ctx.Count * 8, 1 << 40} {
			d2 := d
			d2.Index = common.CommitteeIndex(bad)
			g.attCase("committee-index-out-of-range", v, ctx.Subnet, w.SignAtt(d2, n, []int{m}, []KeyNum{k}, common.DOMAIN_BEACON_ATTESTER))
		}
		// epoch / target mismatch
		{
			d2 := d
			d2.Target.Epoch++
			g.attCase("target-epoch-not-slot-epoch", v, ctx.Subnet, w.SignAtt(d2, n, []int{m}, []KeyNum{k}, common.DOMAIN_BEACON_ATTESTER))
			if d.Target.Epoch > 0 {
				d2 = d
				d2.Target.Epoch--
				d2.Target.Root = AncestorAt(ctx.Head, common.Slot(uint64(d2.Target.Epoch)*8)).Root
				g.attCase("target-epoch-not-slot-epoch", v, ctx.Subnet, w.SignAtt(d2, n, []int{m}, []KeyNum{k}, common.DOMAIN_BEACON_ATTESTER))
			}
			d2 = d
			d2.Target.Epoch = 1 << 61
			g.attCase("target-epoch-start-slot-overflows", v, ctx.Subnet, w.SignAtt(d2, n, []int{m}, []KeyNum{k}, common.DOMAIN_BEACON_ATTESTER))
			d2.Slot = ^common.Slot(0) - 3
			g.attCase("slot-near-max", v, ctx.Subnet, w.SignAtt(d2, n, []int{m}, []KeyNum{k}, common.DOMAIN_BEACON_ATTESTER))
		}
		// slot window, at the clock edges
		{
			a := honest()
			s := ctx.Slot
			g.attCase("clock-at-earliest-edge", v.AtSlot(s, -500), ctx.Subnet, a)     // SlotAfter(+500ms) == slot
			g.attCase("clock-before-earliest-edge", v.AtSlot(s, -501), ctx.Subnet, a) // one ms earlier: future slot
			g.attCase("clock-one-slot-early", v.AtSlot(s-1, 0), ctx.Subnet, a)        // future slot
			g.attCase("clock-at-latest-edge", v.AtSlot(s+33, 499), ctx.Subnet, a)     // SlotAfter(-500ms) == slot+32
			g.attCase("clock-after-latest-edge", v.AtSlot(s+33, 500), ctx.Subnet, a)  // one ms later: too old
			g.attCase("clock-two-epochs-late", v.AtSlot(s+48, 0), ctx.Subnet, a)
			g.attCase("clock-range-end", v.AtSlot(s+32, 6000), ctx.Subnet, a)
		}
		// the voted block
		{
			d2 := d
			d2.BeaconBlockRoot = common.Root{0xaa, byte(vi)}
			g.attCase("unknown-block", v, ctx.Subnet, w.SignAtt(d2, n, []int{m}, []KeyNum{k}, common.DOMAIN_BEACON_ATTESTER))
			vh := v.Clone()
			vh.Hidden[d.BeaconBlockRoot] = true
			g.attCase("block-not-seen-yet", vh, ctx.Subnet, honest())
			vb := v.Clone()
			vb.Bad[d.BeaconBlockRoot] = true
			g.attCase("bad-block", vb, ctx.Subnet, honest())
			vb2 := vb.Clone()
			vb2.Hidden[d.BeaconBlockRoot] = true
			g.attCase("bad-and-unseen-block", vb2, ctx.Subnet, honest())
			// a vote for a block from a later slot than the attestation
			if later := sc.firstAfter(ctx.Head, ctx.Slot); later != nil {
				d3 := d
				d3.BeaconBlockRoot = later.Root
				g.attCase("block-from-later-slot", v, ctx.Subnet, w.SignAtt(d3, n, []int{m}, []KeyNum{k}, common.DOMAIN_BEACON_ATTESTER))
			}
		}
		// the target
		{
			d2 := d
			d2.Target.Root = common.Root{0xbb, byte(vi)}
			g.attCase("unknown-target", v, ctx.Subnet, w.SignAtt(d2, n, []int{m}, []KeyNum{k}, common.DOMAIN_BEACON_ATTESTER))
			if len(sc.Side) > 0 && !IsAncestor(sc.Side[0], ctx.Head) {
				d2 = d
				d2.Target.Root = sc.Side[0].Root
				g.attCase("target-on-other-branch", v, ctx.Subnet, w.SignAtt(d2, n, []int{m}, []KeyNum{k}, common.DOMAIN_BEACON_ATTESTER))
			}
			if sn := sc.sameShufflingSide(ctx); sn != nil {
				d2 = d
				d2.Target.Root = sn.Root
				g.attCase("target-on-other-branch-same-shuffling", v, ctx.Subnet, w.SignAtt(d2, n, []int{m}, []KeyNum{k}, common.DOMAIN_BEACON_ATTESTER))
			}
			if ctx.Target.Parent != nil {
				d2 = d
				d2.Target.Root = ctx.Target.Parent.Root // an ancestor, but not the checkpoint block
				g.attCase("target-is-older-ancestor", v, ctx.Subnet, w.SignAtt(d2, n, []int{m}, []KeyNum{k}, common.DOMAIN_BEACON_ATTESTER))
			}
			if ctx.Target != ctx.Head {
				// a descendant of the checkpoint block that is still an ancestor of the vote
				x := ctx.Head
				for x.Parent != ctx.Target {
					x = x.Parent
				}
				d2 = d
				d2.Target.Root = x.Root
				g.attCase("target-is-later-ancestor", v, ctx.Subnet, w.SignAtt(d2, n, []int{m}, []KeyNum{k}, common.DOMAIN_BEACON_ATTESTER))
			}
			d2 = d
			d2.Target.Root = d.BeaconBlockRoot
			g.attCase("target-is-the-vote", v, ctx.Subnet, w.SignAtt(d2, n, []int{m}, []KeyNum{k}, common.DOMAIN_BEACON_ATTESTER))
			vh := v.Clone()
			vh.Hidden[d.Target.Root] = true
			g.attCase("target-not-seen", vh, ctx.Subnet, honest())
		}
		// the finalized checkpoint
		{
			if len(sc.Side) > 0 && !IsAncestor(sc.Side[len(sc.Side)-1], ctx.Head) {
				vf := v.Clone()
				side := sc.Side[len(sc.Side)-1]
				vf.Fin = common.Checkpoint{Epoch: w.Spec.SlotToEpoch(side.Slot), Root: side.Root}
				g.attCase("finalized-on-other-branch", vf, ctx.Subnet, honest())
			}
			vf := v.Clone()
			vf.Fin = common.Checkpoint{Epoch: 1, Root: common.Root{0xcc}}
			g.attCase("finalized-unknown", vf, ctx.Subnet, honest())
			if anc := AncestorAt(ctx.Head, 8); anc != w.Genesis && anc != ctx.Head {
				vf = v.Clone()
				vf.Fin = common.Checkpoint{Epoch: 1, Root: anc.Root}
				g.attCase("finalized-ancestor", vf, ctx.Subnet, honest())
				// pruned view: only the finalized subtree is known
				vp := vf.Clone()
				keep := map[common.Root]bool{}
				for _, x := range w.subtree(anc) {
					keep[x.Root] = true
				}
				for r := range w.Nodes {
					if !keep[r] {
						vp.Hidden[r] = true
					}
				}
				g.attCase("finalized-ancestor-pruned-view", vp, ctx.Subnet, honest())
			}
			// a vote for the finalized block itself
			vf = v.Clone()
			vf.Fin = common.Checkpoint{Epoch: d.Target.Epoch, Root: d.BeaconBlockRoot}
			g.attCase("vote-for-finalized-root", vf, ctx.Subnet, honest())
			vf = v.Clone()
			vf.Fin = common.Checkpoint{Epoch: d.Target.Epoch + 1, Root: d.BeaconBlockRoot}
			g.attCase("vote-for-finalized-root-older-target", vf, ctx.Subnet, honest())
		}
		// availability
		{
			vt := v.Clone()
			vt.TowardsFail = true
			g.attCase("towards-timeout", vt, ctx.Subnet, honest())
			g.attCase("towards-timeout-and-bad-sig", vt, ctx.Subnet, w.SignAtt(d, n, []int{m}, []KeyNum{k + 1}, common.DOMAIN_BEACON_ATTESTER))
			ve := v.Clone()
			ve.EpcFail["*"] = true
			g.attCase("context-unavailable", ve, ctx.Subnet, honest())
			vs := v.Clone()
			vs.StateFail["*"] = true
			g.attCase("state-unavailable", vs, ctx.Subnet, honest())
			vd := v.Clone()
			vd.DomainFail = true
			g.attCase("domain-unavailable", vd, ctx.Subnet, honest())
		}
		// duplicates
		{
			vs := v.Clone()
			vs.Seen = append(vs.Seen, Mark{Kind: "att", A: uint64(d.Target.Epoch), B: uint64(ctx.Committee[m])})
			g.attCase("duplicate", vs, ctx.Subnet, honest())
			g.attCase("duplicate-and-bad-sig", vs, ctx.Subnet, w.SignAtt(d, n, []int{m}, []KeyNum{k + 1}, common.DOMAIN_BEACON_ATTESTER))
			g.attCase("duplicate-and-wrong-subnet", vs, ctx.Subnet+1, honest())
			g.attCase("other-member-seen", vs, ctx.Subnet, w.SignAtt(d, n, []int{(m + 1) % n}, []KeyNum{w.KeyOf(ctx.Committee[(m+1)%n])}, common.DOMAIN_BEACON_ATTESTER))
			vs2 := v.Clone()
			vs2.Seen = append(vs2.Seen, Mark{Kind: "att", A: uint64(d.Target.Epoch) + 1, B: uint64(ctx.Committee[m])})
			g.attCase("same-voter-other-epoch-seen", vs2, ctx.Subnet, honest())
		}
	}
}

// firstAfter: a known block on head's chain (or beyond it) with slot > s.
func (sc *Scenario) firstAfter(head *Node, s common.Slot) *Node {
	var best *Node
	for _, n := range sc.W.Nodes {
		if n.Slot > s && IsAncestor(head, n) || (n.Slot > s && IsAncestor(n, head)) {
			if best == nil || n.Slot < best.Slot || (n.Slot == best.Slot && bytes.Compare(n.Root[:], best.Root[:]) < 0) {
				best = n
			}
		}
	}
	return best
}

// ---------- aggregates ----------

type AggOpts struct {
	Positions      []int
	Signers        []KeyNum // of the aggregate
	Aggregator     common.ValidatorIndex
	AggKey         KeyNum
	SelectionSlot  common.Slot
	SelectionDT    common.BLSDomainType
	OuterDT        common.BLSDomainType
	AttDT          common.BLSDomainType
	NBits          int
	MutateAfterSig func(m *phase0.AggregateAndProof)
	// when set: the respective domain is the one of the fork version in force at that epoch (world's fork schedule)
	AttEp, SelEp, OuterEp *common.Epoch
}

func (w *World) MakeAggregate(ctx *AttCtx, d phase0.AttestationData, o AggOpts) *phase0.SignedAggregateAndProof {
	att := w.SignAtt(d, o.NBits, o.Positions, o.Signers, o.AttDT)
	if o.AttEp != nil {
		att = w.SignAttDom(d, o.NBits, o.Positions, o.Signers, w.DomainAt(o.AttDT, *o.AttEp))
	}
	// the state-derived domains of the target state
	selDom, err := common.GetDomain(ctx.TState, o.SelectionDT, w.Spec.SlotToEpoch(o.SelectionSlot))
	must(err)
	if o.SelEp != nil {
		selDom = w.DomainAt(o.SelectionDT, *o.SelEp)
	}
	sel := w.C.Sign1(o.AggKey, common.ComputeSigningRoot(o.SelectionSlot.HashTreeRoot(hFn), selDom))
	msg := phase0.AggregateAndProof{AggregatorIndex: o.Aggregator, Aggregate: *att, SelectionProof: sel}
	outerDom, err := common.GetDomain(ctx.TState, o.OuterDT, d.Target.Epoch)
	must(err)
	if o.OuterEp != nil {
		outerDom = w.DomainAt(o.OuterDT, *o.OuterEp)
	}
	sig := w.C.Sign1(o.AggKey, common.ComputeSigningRoot(msg.HashTreeRoot(w.Spec, hFn), outerDom))
	if o.MutateAfterSig != nil {
		o.MutateAfterSig(&msg)
	}
	return &phase0.SignedAggregateAndProof{Message: msg, Signature: sig}
}

func (g *Gen) aggCase(what string, v *View, sa *phase0.SignedAggregateAndProof) string {
	f := NewFacts(v)
	att := &sa.Message.Aggregate
	d := &att.Data
	_, te := attFacts(f, d)
	if te != nil {
		f.Pubkey(te, sa.Message.AggregatorIndex)
		f.StateDomain(te, common.DOMAIN_SELECTION_PROOF, v.W.Spec.SlotToEpoch(d.Slot))
		f.StateDomain(te, common.DOMAIN_AGGREGATE_AND_PROOF, d.Target.Epoch)
		f.StateDomain(te, common.DOMAIN_BEACON_ATTESTER, d.Target.Epoch)
	}
	msg := fmt.Sprintf("MAggregate (Build_signed_aggregate (Build_aggregate_and_proof %d %s %d %s %s) %d)", uint64(sa.Message.AggregatorIndex),
		coqAttestation(f, att), f.Sig(sa.Message.SelectionProof), rootN(sa.Message.HashTreeRoot(v.W.Spec, hFn)), rootN(att.HashTreeRoot(v.W.Spec, hFn)), f.Sig(sa.Signature))
	js := map[string]interface{}{"aggregator": uint64(sa.Message.AggregatorIndex), "data": att.Data, "bits": fmt.Sprintf("%v", attBits(att))}
	return g.Emit("agg", what, v, f, msg, js, func() gossipval.GossipValidatorResult {
		_, r := gossipval.ValidateAggregateAndProof(bg, sa, v)
		return r
	})
}

// selectingMember: a committee position whose selection proof selects (or does not select) it as aggregator.
func (w *World) selectingMember(ctx *AttCtx, want bool) int {
	dom, err := common.GetDomain(ctx.TState, common.DOMAIN_SELECTION_PROOF, w.Spec.SlotToEpoch(ctx.Slot))
	must(err)
	for p, vi := range ctx.Committee {
		sel := w.C.Sign1(w.KeyOf(vi), common.ComputeSigningRoot(ctx.Slot.HashTreeRoot(hFn), dom))
		if phase0.IsAggregator(w.Spec, uint64(len(ctx.Committee)), sel) == want {
			return p
		}
	}
	return -1
}

func allPositions(n int) []int {
	out := make([]int, n)
	for i := range out {
		out[i] = i
	}
	return out
}

func (g *Gen) genAggregates(sc *Scenario, views []*View) {
	w := sc.W
	for vi, v0 := range views {
		head := v0.HeadNode
		cur := v0.SlotAfter(0)
		lo := common.Slot(0)
		if cur > 32 {
			lo = cur - 32
		}
		if g.attWindow != 0 && cur > g.attWindow {
			lo = cur - g.attWindow
		}
		var sampleCtx *AttCtx
		for s := lo; s <= cur; s++ {
			voteFor := AncestorAt(head, s)
			for i := common.CommitteeIndex(0); i < 4; i++ {
				ctx := w.attCtx(voteFor, s, i)
				if ctx == nil {
					continue
				}
				p := w.selectingMember(ctx, true)
				if p < 0 {
					continue
				}
				n := len(ctx.Committee)
				// participants: everybody, or a varying subset
				pos := allPositions(n)
				if (uint64(s)+uint64(i))%3 != 0 {
					pos = nil
					for q := 0; q < n; q++ {
						if (q+int(s)+g.Salt)%3 != 0 || q == p {
							pos = append(pos, q)
						}
					}
				}
				var members []common.ValidatorIndex
				for _, q := range pos {
					members = append(members, ctx.Committee[q])
				}
				agg := w.MakeAggregate(ctx, ctx.Data, AggOpts{Positions: pos, Signers: w.keysOf(members), Aggregator: ctx.Committee[p], AggKey: w.KeyOf(ctx.Committee[p]),
					SelectionSlot: s, SelectionDT: common.DOMAIN_SELECTION_PROOF, OuterDT: common.DOMAIN_AGGREGATE_AND_PROOF, AttDT: common.DOMAIN_BEACON_ATTESTER, NBits: n})
				g.aggCase("honest", v0, agg)
				if s+2 == cur || (cur < 2 && s == cur) {
					sampleCtx = ctx
				}
			}
		}
		if sampleCtx == nil {
			continue
		}
		ctx := sampleCtx
		d := ctx.Data
		n := len(ctx.Committee)
		p := w.selectingMember(ctx, true)
		aggIdx := ctx.Committee[p]
		aggKey := w.KeyOf(aggIdx)
		base := func() AggOpts {
			return AggOpts{Positions: allPositions(n), Signers: w.keysOf(ctx.Committee), Aggregator: aggIdx, AggKey: aggKey, SelectionSlot: ctx.Slot,
				SelectionDT: common.DOMAIN_SELECTION_PROOF, OuterDT: common.DOMAIN_AGGREGATE_AND_PROOF, AttDT: common.DOMAIN_BEACON_ATTESTER, NBits: n}
		}
		mk := func(mod func(o *AggOpts)) *phase0.SignedAggregateAndProof {
			o := base()
			if mod != nil {
				mod(&o)
			}
			return w.MakeAggregate(ctx, d, o)
		}
		v := v0
		// outer signature
		g.aggCase("outer-sig-other-key", v, func() *phase0.SignedAggregateAndProof {
			sa := mk(nil)
			o := base()
			o.AggKey = aggKey + 1
			sa.Signature = w.MakeAggregate(ctx, d, o).Signature
			return sa
		}())
		g.aggCase("outer-sig-wrong-domain", v, mk(func(o *AggOpts) { o.OuterDT = common.DOMAIN_BEACON_ATTESTER }))
		g.aggCase("outer-sig-over-other-message", v, mk(func(o *AggOpts) {
			o.MutateAfterSig = func(m *phase0.AggregateAndProof) { m.Aggregate.Data.Source.Epoch++ }
		}))
		{
			sa := mk(nil)
			sa.Signature = garbageSig(6)
			g.aggCase("outer-sig-garbage", v, sa)
			sa = mk(nil)
			sa.Signature = sa.Message.SelectionProof
			g.aggCase("outer-sig-is-selection-proof", v, sa)
		}
		// selection proof
		g.aggCase("selection-proof-other-key", v, func() *phase0.SignedAggregateAndProof {
			o := base()
			o.AggKey = aggKey + 1
			other := w.MakeAggregate(ctx, d, o)
			sa := mk(func(o *AggOpts) {
				o.MutateAfterSig = nil
			})
			// keep aggregator, swap in a proof by another key, re-sign the outer message honestly
			m := sa.Message
			m.SelectionProof = other.Message.SelectionProof
			dom, err := common.GetDomain(ctx.TState, common.DOMAIN_AGGREGATE_AND_PROOF, d.Target.Epoch)
			must(err)
			return &phase0.SignedAggregateAndProof{Message: m, Signature: w.C.Sign1(aggKey, common.ComputeSigningRoot(m.HashTreeRoot(w.Spec, hFn), dom))}
		}())
		g.aggCase("selection-proof-wrong-domain", v, mk(func(o *AggOpts) { o.SelectionDT = common.DOMAIN_BEACON_ATTESTER }))
		g.aggCase("selection-proof-for-other-slot", v, mk(func(o *AggOpts) { o.SelectionSlot = ctx.Slot + 1 }))
		{
			m := mk(nil).Message
			m.SelectionProof = garbageSig(7)
			dom, err := common.GetDomain(ctx.TState, common.DOMAIN_AGGREGATE_AND_PROOF, d.Target.Epoch)
			must(err)
			g.aggCase("selection-proof-garbage", v, &phase0.SignedAggregateAndProof{Message: m, Signature: w.C.Sign1(aggKey, common.ComputeSigningRoot(m.HashTreeRoot(w.Spec, hFn), dom))})
		}
		if q := w.selectingMember(ctx, false); q >= 0 {
			g.aggCase("selection-proof-does-not-select", v, mk(func(o *AggOpts) { o.Aggregator = ctx.Committee[q]; o.AggKey = w.KeyOf(ctx.Committee[q]) }))
		}
		// aggregator
		{
			outsider := common.ValidatorIndex(0)
			for memberOf(ctx.Committee, outsider) {
				outsider++
			}
			g.aggCase("aggregator-not-in-committee", v, mk(func(o *AggOpts) { o.Aggregator = outsider; o.AggKey = w.KeyOf(outsider) }))
			g.aggCase("aggregator-index-out-of-range", v, mk(func(o *AggOpts) { o.Aggregator = common.ValidatorIndex(w.NVals + 3) }))
			g.aggCase("aggregator-index-max", v, mk(func(o *AggOpts) { o.Aggregator = ^common.ValidatorIndex(0) }))
		}
		// the aggregate itself
		g.aggCase("aggregate-sig-missing-signer", v, mk(func(o *AggOpts) { o.Signers = o.Signers[1:] }))
		g.aggCase("aggregate-sig-extra-signer", v, mk(func(o *AggOpts) { o.Positions = o.Positions[1:] }))
		g.aggCase("aggregate-sig-wrong-domain", v, mk(func(o *AggOpts) { o.AttDT = common.DOMAIN_BEACON_PROPOSER }))
		if adj, ok := w.AdjacentForkEpoch(d.Target.Epoch); ok {
			// the right domain types under the fork version of the neighbouring epoch
			g.aggCase("aggregate-sig-domain-of-adjacent-fork", v, mk(func(o *AggOpts) { o.AttEp = &adj }))
			g.aggCase("selection-proof-domain-of-adjacent-fork", v, mk(func(o *AggOpts) { o.SelEp = &adj }))
			g.aggCase("outer-sig-domain-of-adjacent-fork", v, mk(func(o *AggOpts) { o.OuterEp = &adj }))
			g.aggCase("all-sigs-domain-of-adjacent-fork", v, mk(func(o *AggOpts) { o.AttEp, o.SelEp, o.OuterEp = &adj, &adj, &adj }))
		}
		g.aggCase("aggregate-no-participants", v, mk(func(o *AggOpts) { o.Positions = nil; o.Signers = nil }))
		g.aggCase("aggregate-single-participant", v, mk(func(o *AggOpts) { o.Positions = []int{p}; o.Signers = []KeyNum{aggKey} }))
		g.aggCase("aggregate-bits-too-long", v, mk(func(o *AggOpts) { o.NBits = n + 1 }))
		g.aggCase("aggregate-bits-too-short", v, mk(func(o *AggOpts) {
			o.NBits = n - 1
			o.Positions = allPositions(n - 1)
			o.Signers = w.keysOf(ctx.Committee[:n-1])
		}))
		{
			sa := mk(nil)
			sa.Message.Aggregate.Signature = garbageSig(8)
			dom, err := common.GetDomain(ctx.TState, common.DOMAIN_AGGREGATE_AND_PROOF, d.Target.Epoch)
			must(err)
			sa.Signature = w.C.Sign1(aggKey, common.ComputeSigningRoot(sa.Message.HashTreeRoot(w.Spec, hFn), dom))
			g.aggCase("aggregate-sig-garbage", v, sa)
		}
		// committee index
		for _, bad := range []uint64{ctx.Count, ctx.Count + 1, 64} {
			d2 := d
			d2.Index = common.CommitteeIndex(bad)
			g.aggCase("committee-index-out-of-range", v, w.MakeAggregate(ctx, d2, base()))
		}
		// epoch / target
		{
			d2 := d
			d2.Target.Epoch++
			g.aggCase("target-epoch-not-slot-epoch", v, w.MakeAggregate(ctx, d2, base()))
			d2 = d
			d2.Target.Epoch = 1 << 61
			d2.Slot = ^common.Slot(0) - 3
			g.aggCase("slot-near-max", v, w.MakeAggregate(ctx, d2, base()))
		}
		// clock edges
		{
			sa := mk(nil)
			s := ctx.Slot
			g.aggCase("clock-at-earliest-edge", v.AtSlot(s, -500), sa)
			g.aggCase("clock-before-earliest-edge", v.AtSlot(s, -501), sa)
			g.aggCase("clock-at-latest-edge", v.AtSlot(s+33, 499), sa)
			g.aggCase("clock-after-latest-edge", v.AtSlot(s+33, 500), sa)
		}
		// the voted block
		{
			d2 := d
			d2.BeaconBlockRoot = common.Root{0xaa, byte(vi)}
			g.aggCase("unknown-block", v, w.MakeAggregate(ctx, d2, base()))
			vh := v.Clone()
			vh.Hidden[d.BeaconBlockRoot] = true
			g.aggCase("block-not-seen-yet", vh, mk(nil))
			vb := v.Clone()
			vb.Bad[d.BeaconBlockRoot] = true
			g.aggCase("bad-block", vb, mk(nil))
		}
		// the target
		{
			d2 := d
			d2.Target.Root = common.Root{0xbb, byte(vi)}
			g.aggCase("unknown-target", v, w.MakeAggregate(ctx, d2, base()))
			if len(sc.Side) > 0 && !IsAncestor(sc.Side[0], ctx.Head) {
				d2 = d
				d2.Target.Root = sc.Side[0].Root
				g.aggCase("target-on-other-branch", v, w.MakeAggregate(ctx, d2, base()))
			}
			// a target on another branch with the same shuffling: only the ancestry condition is violated
			if sn := sc.sameShufflingSide(ctx); sn != nil {
				d2 = d
				d2.Target.Root = sn.Root
				g.aggCase("target-on-other-branch-same-shuffling", v, w.MakeAggregate(ctx, d2, base()))
			}
			if ctx.Target.Parent != nil {
				d2 = d
				d2.Target.Root = ctx.Target.Parent.Root
				g.aggCase("target-is-older-ancestor", v, w.MakeAggregate(ctx, d2, base()))
			}
			if ctx.Target != ctx.Head {
				x := ctx.Head
				for x.Parent != ctx.Target {
					x = x.Parent
				}
				d2 = d
				d2.Target.Root = x.Root
				g.aggCase("target-is-later-ancestor", v, w.MakeAggregate(ctx, d2, base()))
			}
			vh := v.Clone()
			vh.Hidden[d.Target.Root] = true
			g.aggCase("target-not-seen", vh, mk(nil))
		}
		// finalized
		{
			if len(sc.Side) > 0 && !IsAncestor(sc.Side[len(sc.Side)-1], ctx.Head) {
				vf := v.Clone()
				side := sc.Side[len(sc.Side)-1]
				vf.Fin = common.Checkpoint{Epoch: w.Spec.SlotToEpoch(side.Slot), Root: side.Root}
				g.aggCase("finalized-on-other-branch", vf, mk(nil))
			}
			vf := v.Clone()
			vf.Fin = common.Checkpoint{Epoch: 1, Root: common.Root{0xcc}}
			g.aggCase("finalized-unknown", vf, mk(nil))
			if anc := AncestorAt(ctx.Head, 8); anc != w.Genesis && anc != ctx.Head {
				vf = v.Clone()
				vf.Fin = common.Checkpoint{Epoch: 1, Root: anc.Root}
				g.aggCase("finalized-ancestor", vf, mk(nil))
			}
			vf = v.Clone()
			vf.Fin = common.Checkpoint{Epoch: d.Target.Epoch + 1, Root: d.BeaconBlockRoot}
			g.aggCase("vote-for-finalized-root-older-target", vf, mk(nil))
		}
		// availability
		{
			vt := v.Clone()
			vt.TowardsFail = true
			g.aggCase("towards-timeout", vt, mk(nil))
			ve := v.Clone()
			ve.EpcFail["*"] = true
			g.aggCase("context-unavailable", ve, mk(nil))
			vs := v.Clone()
			vs.StateFail["*"] = true
			g.aggCase("state-unavailable", vs, mk(nil))
		}
		// duplicates
		{
			sa := mk(nil)
			vs := v.Clone()
			vs.Seen = append(vs.Seen, Mark{Kind: "aggregator", A: uint64(d.Target.Epoch), B: uint64(aggIdx)})
			g.aggCase("aggregator-seen", vs, sa)
			g.aggCase("aggregator-seen-and-bad-outer-sig", vs, mk(func(o *AggOpts) { o.OuterDT = common.DOMAIN_BEACON_ATTESTER }))
			vs = v.Clone()
			vs.Seen = append(vs.Seen, Mark{Kind: "agg", Root: sa.Message.Aggregate.HashTreeRoot(w.Spec, hFn)})
			g.aggCase("aggregate-seen", vs, sa)
			vs = v.Clone()
			vs.Seen = append(vs.Seen, Mark{Kind: "aggregator", A: uint64(d.Target.Epoch) + 1, B: uint64(aggIdx)}, Mark{Kind: "agg", Root: common.Root{1}})
			g.aggCase("other-entries-seen", vs, sa)
		}
	}
}

func memberOf(l []common.ValidatorIndex, x common.ValidatorIndex) bool {
	for _, y := range l {
		if y == x {
			return true
		}
	}
	return false
}

// sameShufflingSide: a block of the late side branch that is not an ancestor of the vote, lies at or before the
// target slot and forked off after the seed of the target epoch was fixed (so its state has the same committees).
func (sc *Scenario) sameShufflingSide(ctx *AttCtx) *Node {
	tslot := common.Slot(uint64(ctx.Data.Target.Epoch) * uint64(sc.W.Spec.SLOTS_PER_EPOCH))
	for _, sn := range sc.Side2 {
		if sn.Slot <= tslot && !IsAncestor(sn, ctx.Head) && uint64(sc.W.Spec.SlotToEpoch(sn.Parent.Slot))+1 >= uint64(ctx.Data.Target.Epoch) {
			return sn
		}
	}
	return nil
}
