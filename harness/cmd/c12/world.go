package main

// world.go: a small beacon chain built with the real zrnt transition (kick-started genesis, deterministic BLS
// keys, honest blocks with optional operations, forks), used as the chain view behind the gossip validators.

import (
	"context"
	"crypto/sha256"
	"encoding/binary"
	"fmt"
	"sort"

	blsu "github.com/protolambda/bls12-381-util"
	"github.com/protolambda/zrnt/eth2/beacon"
	"github.com/protolambda/zrnt/eth2/beacon/altair"
	"github.com/protolambda/zrnt/eth2/beacon/bellatrix"
	"github.com/protolambda/zrnt/eth2/beacon/capella"
	"github.com/protolambda/zrnt/eth2/beacon/common"
	"github.com/protolambda/zrnt/eth2/beacon/phase0"
	"github.com/protolambda/zrnt/eth2/configs"
	"github.com/protolambda/ztyp/tree"
	"github.com/protolambda/ztyp/view"
)

var hFn = tree.GetHashFn()
var bg = context.Background()

func must(err error) {
	if err != nil {
		panic(err)
	}
}

// ---------- keys and signatures ----------

type KeyNum uint64 // names a deterministic secret key; pubkey id in the Coq cases = KeyNum

type keyEntry struct {
	sk  *blsu.SecretKey
	pk  *blsu.Pubkey
	pkb common.BLSPubkey
}

type SigInfo struct {
	ID      uint64
	Bytes   common.BLSSignature
	OK      bool     // deserializes
	Inf     bool     // point at infinity
	Hash    uint64   // little-endian uint64 of sha256(bytes)[0:8]
	Signers []KeyNum // sorted; nil for signatures not made here
	Msg     common.Root
	Made    bool
}

type Crypto struct {
	keys   map[KeyNum]*keyEntry
	byPub  map[common.BLSPubkey]KeyNum
	single map[string]*blsu.Signature // (key,msg) -> signature
	sigs   map[common.BLSSignature]*SigInfo
	nsig   uint64
}

func NewCrypto() *Crypto {
	return &Crypto{keys: map[KeyNum]*keyEntry{}, byPub: map[common.BLSPubkey]KeyNum{}, single: map[string]*blsu.Signature{}, sigs: map[common.BLSSignature]*SigInfo{}}
}

func (c *Crypto) key(n KeyNum) *keyEntry {
	if k, ok := c.keys[n]; ok {
		return k
	}
	// pseudo-random secret keys: with small-integer keys the aggregate of keys {3, 11} IS the signature of key 14
	var seed [16]byte
	copy(seed[:8], "c12 key ")
	binary.BigEndian.PutUint64(seed[8:], uint64(n))
	skb := sha256.Sum256(seed[:])
	skb[0] = 0 // below the group order
	var sk blsu.SecretKey
	must(sk.Deserialize(&skb))
	pk, err := blsu.SkToPk(&sk)
	must(err)
	k := &keyEntry{sk: &sk, pk: pk, pkb: pk.Serialize()}
	c.keys[n] = k
	c.byPub[k.pkb] = n
	return k
}

func (c *Crypto) Pub(n KeyNum) common.BLSPubkey { return c.key(n).pkb }

func (c *Crypto) signRaw(n KeyNum, msg common.Root) *blsu.Signature {
	id := fmt.Sprintf("%d|%x", n, msg[:])
	if s, ok := c.single[id]; ok {
		return s
	}
	s := blsu.Sign(c.key(n).sk, msg[:])
	c.single[id] = s
	return s
}

// register records what is known about a signature value and returns its info.
func (c *Crypto) register(b common.BLSSignature, signers []KeyNum, msg common.Root, made bool) *SigInfo {
	if si, ok := c.sigs[b]; ok {
		return si
	}
	si := &SigInfo{ID: c.nsig, Bytes: b, Msg: msg, Made: made}
	c.nsig++
	_, err := b.Signature()
	si.OK = err == nil
	si.Inf = b[0] == 0xc0
	for _, x := range b[1:] {
		if x != 0 {
			si.Inf = false
		}
	}
	h := sha256.Sum256(b[:])
	si.Hash = binary.LittleEndian.Uint64(h[:8])
	si.Signers = append([]KeyNum(nil), signers...)
	sort.Slice(si.Signers, func(i, j int) bool { return si.Signers[i] < si.Signers[j] })
	c.sigs[b] = si
	return si
}

// Sign: the (aggregate) signature of the given keys over msg.
func (c *Crypto) Sign(keys []KeyNum, msg common.Root) common.BLSSignature {
	if len(keys) == 0 {
		panic("sign: no keys")
	}
	var out common.BLSSignature
	if len(keys) == 1 {
		out = c.signRaw(keys[0], msg).Serialize()
	} else {
		sigs := make([]*blsu.Signature, len(keys))
		for i, k := range keys {
			sigs[i] = c.signRaw(k, msg)
		}
		agg, err := blsu.Aggregate(sigs)
		must(err)
		out = agg.Serialize()
	}
	c.register(out, keys, msg, true)
	return out
}
func (c *Crypto) Sign1(k KeyNum, msg common.Root) common.BLSSignature {
	return c.Sign([]KeyNum{k}, msg)
}

// Info of any signature value met in a message (registers unknown ones as "not made here").
func (c *Crypto) Info(b common.BLSSignature) *SigInfo {
	return c.register(b, nil, common.Root{}, false)
}

func infinitySig() (out common.BLSSignature) {
	out[0] = 0xc0
	return
}

// ---------- spec ----------

type WorldKnobs struct {
	Name             string
	Validators       int
	TargetCommittee  uint64
	SyncCommittee    uint64
	AltairEpoch      common.Epoch
	ShardCommittee   common.Epoch
	MaxCommitteeSize uint64
	SyncPeriod       common.Epoch // EPOCHS_PER_SYNC_COMMITTEE_PERIOD (0 = 8)
	BellatrixEpoch   common.Epoch // 0 = never
	CapellaEpoch     common.Epoch // 0 = never
	SlotsPerEpoch    common.Slot  // 0 = 8
	MaxCommittees    uint64       // MAX_COMMITTEES_PER_SLOT, 0 = 4
}

// acceptAll: an execution engine that accepts every payload (the gossip validators never look at payloads).
type acceptAll struct{}

func (acceptAll) BellatrixNotifyNewPayload(ctx context.Context, p *bellatrix.ExecutionPayload) (bool, error) {
	return true, nil
}
func (acceptAll) BellatrixIsValidBlockHash(ctx context.Context, p *bellatrix.ExecutionPayload) (bool, error) {
	return true, nil
}
func (acceptAll) CapellaNotifyNewPayload(ctx context.Context, p *capella.ExecutionPayload) (bool, error) {
	return true, nil
}
func (acceptAll) CapellaIsValidBlockHash(ctx context.Context, p *capella.ExecutionPayload) (bool, error) {
	return true, nil
}

func makeSpec(k WorldKnobs) *common.Spec {
	sp := *configs.Minimal
	sp.ExecutionEngine = nil
	sp.SLOTS_PER_EPOCH = 8
	if k.SlotsPerEpoch != 0 {
		sp.SLOTS_PER_EPOCH = k.SlotsPerEpoch
	}
	sp.TARGET_COMMITTEE_SIZE = view.Uint64View(k.TargetCommittee)
	sp.MAX_COMMITTEES_PER_SLOT = 4
	if k.MaxCommittees != 0 {
		sp.MAX_COMMITTEES_PER_SLOT = view.Uint64View(k.MaxCommittees)
	}
	sp.SHARD_COMMITTEE_PERIOD = k.ShardCommittee
	sp.SYNC_COMMITTEE_SIZE = view.Uint64View(k.SyncCommittee)
	sp.EPOCHS_PER_SYNC_COMMITTEE_PERIOD = 8
	if k.SyncPeriod != 0 {
		sp.EPOCHS_PER_SYNC_COMMITTEE_PERIOD = k.SyncPeriod
	}
	sp.MIN_GENESIS_ACTIVE_VALIDATOR_COUNT = 8
	sp.ALTAIR_FORK_EPOCH = k.AltairEpoch
	far := ^common.Epoch(0)
	sp.BELLATRIX_FORK_EPOCH = far
	sp.CAPELLA_FORK_EPOCH = far
	if k.BellatrixEpoch != 0 {
		sp.BELLATRIX_FORK_EPOCH = k.BellatrixEpoch
		sp.ExecutionEngine = acceptAll{}
	}
	if k.CapellaEpoch != 0 {
		sp.CAPELLA_FORK_EPOCH = k.CapellaEpoch
	}
	sp.DENEB_FORK_EPOCH = far
	sp.ELECTRA_FORK_EPOCH = far
	sp.FULU_FORK_EPOCH = far
	if k.MaxCommitteeSize != 0 {
		sp.MAX_VALIDATORS_PER_COMMITTEE = view.Uint64View(k.MaxCommitteeSize)
	}
	return &sp
}

// ---------- chain ----------

type BlockOps struct {
	Exits             []phase0.SignedVoluntaryExit
	ProposerSlashings []phase0.ProposerSlashing
	AttesterSlashings []phase0.AttesterSlashing
	Graffiti          byte
}

type Node struct {
	Root   common.Root
	Slot   common.Slot
	Parent *Node
	State  common.BeaconState // post-state
	Epc    *common.EpochsContext
	Env    *common.BeaconBlockEnvelope // nil for genesis
	Name   string
}

type World struct {
	Name    string
	Spec    *common.Spec
	C       *Crypto
	GVR     common.Root
	Genesis *Node
	Nodes   map[common.Root]*Node
	NVals   int
	adv     map[string]*advanced
	syncOf  map[common.BeaconState][]common.ValidatorIndex
	fresh   map[common.BeaconState]*common.EpochsContext
}

type advanced struct {
	state common.BeaconState
	epc   *common.EpochsContext
}

func (w *World) KeyOf(i common.ValidatorIndex) KeyNum { return KeyNum(uint64(i) + 1) }

func copyState(st common.BeaconState) common.BeaconState {
	c, err := st.CopyState()
	must(err)
	return c
}

func NewWorld(k WorldKnobs, c *Crypto) *World {
	sp := makeSpec(k)
	w := &World{Name: k.Name, Spec: sp, C: c, Nodes: map[common.Root]*Node{}, NVals: k.Validators, adv: map[string]*advanced{}}
	vals := make([]phase0.KickstartValidatorData, k.Validators)
	for i := range vals {
		vals[i] = phase0.KickstartValidatorData{Pubkey: c.Pub(KeyNum(i + 1)), Balance: sp.MAX_EFFECTIVE_BALANCE}
	}
	st, epc, err := phase0.KickStartState(sp, common.Root{0x42}, 1_000_000, vals)
	must(err)
	w.GVR, err = st.GenesisValidatorsRoot()
	must(err)
	hdr, err := st.LatestBlockHeader()
	must(err)
	h := *hdr
	h.StateRoot = st.HashTreeRoot(hFn)
	root := h.HashTreeRoot(hFn)
	g := &Node{Root: root, Slot: 0, State: st, Epc: epc, Name: "genesis"}
	w.Genesis = g
	w.Nodes[root] = g
	return w
}

// Advance returns the state of block `n` carried to `slot` through empty slots (cached).
func (w *World) Advance(n *Node, slot common.Slot) (common.BeaconState, *common.EpochsContext, error) {
	if slot < n.Slot {
		return nil, nil, fmt.Errorf("block %s at slot %d is past slot %d", n.Name, n.Slot, slot)
	}
	if slot == n.Slot {
		return n.State, n.Epc, nil
	}
	key := fmt.Sprintf("%x|%d", n.Root[:], slot)
	if a, ok := w.adv[key]; ok {
		return a.state, a.epc, nil
	}
	st := copyState(n.State)
	epc := n.Epc.Clone()
	ust := &beacon.StandardUpgradeableBeaconState{BeaconState: st}
	if err := common.ProcessSlots(bg, w.Spec, epc, ust, slot); err != nil {
		return nil, nil, err
	}
	w.adv[key] = &advanced{state: ust.BeaconState, epc: epc}
	return ust.BeaconState, epc, nil
}

// FreshContext: the committees, proposers and shufflings of a state, computed from the STATE ALONE (what a node that has
// just loaded this state knows). The facts handed to the model are read from here, never from the long-lived
// EpochsContext objects the validators are served: those are shared between all messages of a run (as in a real node)
// and a validator that scribbles on them must not be able to rewrite the facts it is judged by.
func (w *World) FreshContext(st common.BeaconState, live *common.EpochsContext) *common.EpochsContext {
	if e, ok := w.fresh[st]; ok {
		return e
	}
	if w.fresh == nil {
		w.fresh = map[common.BeaconState]*common.EpochsContext{}
	}
	epc := &common.EpochsContext{Spec: w.Spec, ValidatorPubkeyCache: live.ValidatorPubkeyCache}
	must(epc.LoadShuffling(st))
	must(epc.LoadProposers(st))
	w.fresh[st] = epc
	return epc
}

// epcSnapshot: a deep copy of everything of an EpochsContext the gossip validators can read.
type epcSnapshot struct {
	names []string
	lists [][]common.ValidatorIndex
}

func snapshotEpc(epc *common.EpochsContext) *epcSnapshot {
	s := &epcSnapshot{}
	add := func(name string, l []common.ValidatorIndex) {
		s.names = append(s.names, name)
		s.lists = append(s.lists, append([]common.ValidatorIndex(nil), l...))
	}
	if epc == nil {
		return s
	}
	if epc.Proposers != nil {
		add(fmt.Sprintf("Proposers(epoch %d)", uint64(epc.Proposers.Epoch)), epc.Proposers.Proposers)
	}
	for _, x := range []struct {
		n  string
		sh *common.ShufflingEpoch
	}{{"PreviousEpoch", epc.PreviousEpoch}, {"CurrentEpoch", epc.CurrentEpoch}, {"NextEpoch", epc.NextEpoch}} {
		if x.sh != nil {
			add(fmt.Sprintf("%s(%d).ActiveIndices", x.n, uint64(x.sh.Epoch)), x.sh.ActiveIndices)
			add(fmt.Sprintf("%s(%d).Shuffling", x.n, uint64(x.sh.Epoch)), x.sh.Shuffling)
			for si, slotComms := range x.sh.Committees {
				for ci, c := range slotComms {
					add(fmt.Sprintf("%s(%d).Committees[%d][%d]", x.n, uint64(x.sh.Epoch), si, ci), c)
				}
			}
		}
	}
	if epc.CurrentSyncCommittee != nil {
		add("CurrentSyncCommittee.Indices", epc.CurrentSyncCommittee.Indices)
	}
	if epc.NextSyncCommittee != nil {
		add("NextSyncCommittee.Indices", epc.NextSyncCommittee.Indices)
	}
	return s
}

// diff: "" when equal, else the first difference.
func (a *epcSnapshot) diff(b *epcSnapshot) string {
	if len(a.names) != len(b.names) {
		return fmt.Sprintf("context has %d lists, had %d", len(b.names), len(a.names))
	}
	for i := range a.names {
		if a.names[i] != b.names[i] {
			return fmt.Sprintf("%s became %s", a.names[i], b.names[i])
		}
		if fmt.Sprint(a.lists[i]) != fmt.Sprint(b.lists[i]) {
			return fmt.Sprintf("%s changed from %v to %v", a.names[i], a.lists[i], b.lists[i])
		}
	}
	return ""
}

// SyncCommitteeOf: the validator indices of state.current_sync_committee, read from the STATE itself (pubkeys looked up
// in the state's registry), not from the EpochsContext cache: "compute_subnets_for_sync_committee(state, ...)" of the
// p2p text. nil for a state without sync committees (phase0).
func (w *World) SyncCommitteeOf(st common.BeaconState) []common.ValidatorIndex {
	if l, ok := w.syncOf[st]; ok {
		return l
	}
	ss, ok := st.(common.SyncCommitteeBeaconState)
	if !ok {
		return nil
	}
	if w.syncOf == nil {
		w.syncOf = map[common.BeaconState][]common.ValidatorIndex{}
	}
	vals, err := st.Validators()
	must(err)
	n, err := vals.ValidatorCount()
	must(err)
	byPub := make(map[common.BLSPubkey]common.ValidatorIndex, n)
	for i := uint64(0); i < n; i++ {
		v, err := vals.Validator(common.ValidatorIndex(i))
		must(err)
		pk, err := v.Pubkey()
		must(err)
		if _, dup := byPub[pk]; !dup {
			byPub[pk] = common.ValidatorIndex(i)
		}
	}
	cur, err := ss.CurrentSyncCommittee()
	must(err)
	pv, err := cur.Pubkeys()
	must(err)
	pubs, err := pv.Flatten()
	must(err)
	out := make([]common.ValidatorIndex, len(pubs))
	for i, pk := range pubs {
		vi, ok := byPub[pk]
		if !ok {
			panic(fmt.Errorf("world %s: sync committee seat %d holds a pubkey that is not in the registry", w.Name, i))
		}
		out[i] = vi
	}
	w.syncOf[st] = out
	return out
}

// StateDomainAt: get_domain(state, typ, epoch) for a state at `stateSlot`, from the world's own fork schedule:
// state.fork = (version before the one in force, version in force at the state's epoch, activation epoch of the latter).
func (w *World) StateDomainAt(stateSlot common.Slot, typ common.BLSDomainType, epoch common.Epoch) common.BLSDomain {
	sp := w.Spec
	x := sp.SlotToEpoch(stateSlot)
	cur := w.VersionAtEpoch(x)
	prev, act := sp.GENESIS_FORK_VERSION, common.Epoch(0)
	switch {
	case x < sp.ALTAIR_FORK_EPOCH:
	case x < sp.BELLATRIX_FORK_EPOCH:
		prev, act = sp.GENESIS_FORK_VERSION, sp.ALTAIR_FORK_EPOCH
	case x < sp.CAPELLA_FORK_EPOCH:
		prev, act = sp.ALTAIR_FORK_VERSION, sp.BELLATRIX_FORK_EPOCH
	default:
		prev, act = sp.BELLATRIX_FORK_VERSION, sp.CAPELLA_FORK_EPOCH
	}
	v := cur
	if epoch < act {
		v = prev
	}
	return common.ComputeDomain(typ, v, w.GVR)
}

// ForkVersionAt: the fork version in force at a slot, from the world's own fork schedule.
func (w *World) ForkVersionAt(slot common.Slot) common.Version {
	return w.VersionAtEpoch(w.Spec.SlotToEpoch(slot))
}
func (w *World) VersionAtEpoch(epoch common.Epoch) common.Version {
	sp := w.Spec
	switch {
	case epoch < sp.ALTAIR_FORK_EPOCH:
		return sp.GENESIS_FORK_VERSION
	case epoch < sp.BELLATRIX_FORK_EPOCH:
		return sp.ALTAIR_FORK_VERSION
	case epoch < sp.CAPELLA_FORK_EPOCH:
		return sp.BELLATRIX_FORK_VERSION
	}
	return sp.CAPELLA_FORK_VERSION
}

// DomainAt: the domain of type typ under the fork version in force at `epoch`.
func (w *World) DomainAt(typ common.BLSDomainType, epoch common.Epoch) common.BLSDomain {
	return common.ComputeDomain(typ, w.VersionAtEpoch(epoch), w.GVR)
}

// AdjacentForkEpoch: an epoch next to `epoch` (the one before it, else the one after it) under another fork version.
func (w *World) AdjacentForkEpoch(epoch common.Epoch) (common.Epoch, bool) {
	if epoch > 0 && w.VersionAtEpoch(epoch-1) != w.VersionAtEpoch(epoch) {
		return epoch - 1, true
	}
	if w.VersionAtEpoch(epoch+1) != w.VersionAtEpoch(epoch) {
		return epoch + 1, true
	}
	return 0, false
}
func (w *World) DigestAt(slot common.Slot) common.ForkDigest {
	return common.ComputeForkDigest(w.ForkVersionAt(slot), w.GVR)
}

// AddBlock builds, signs and applies an honest block on `parent` at `slot`.
func (w *World) AddBlock(name string, parent *Node, slot common.Slot, ops BlockOps) *Node {
	pre, epc0, err := w.Advance(parent, slot)
	must(err)
	st := copyState(pre)
	epc := epc0.Clone()
	proposer, err := epc.GetBeaconProposer(slot)
	must(err)
	if w.IsSlashed(st, proposer) {
		return nil // a slashed proposer cannot propose: the slot stays empty
	}
	epoch := w.Spec.SlotToEpoch(slot)
	randaoDom, err := common.GetDomain(st, common.DOMAIN_RANDAO, epoch)
	must(err)
	randao := w.C.Sign1(w.KeyOf(proposer), common.ComputeSigningRoot(epoch.HashTreeRoot(hFn), randaoDom))
	e1, err := st.Eth1Data()
	must(err)
	graffiti := common.Root{ops.Graffiti}

	var mkEnv func(stateRoot common.Root, sig common.BLSSignature) *common.BeaconBlockEnvelope
	digest := w.DigestAt(slot)
	emptySync := func() altair.SyncAggregate {
		return altair.SyncAggregate{SyncCommitteeBits: make(altair.SyncCommitteeBits, (w.Spec.SYNC_COMMITTEE_SIZE+7)/8), SyncCommitteeSignature: infinitySig()}
	}
	switch st.(type) {
	case *capella.BeaconStateView:
		// an (empty) payload on the never-merged execution chain: parent hash = the latest header's block hash (zero)
		mixes, err := st.RandaoMixes()
		must(err)
		mix, err := mixes.GetRandomMix(epoch)
		must(err)
		gt, err := st.GenesisTime()
		must(err)
		ts, err := w.Spec.TimeAtSlot(slot, gt)
		must(err)
		lh, err := st.(*capella.BeaconStateView).LatestExecutionPayloadHeader()
		must(err)
		lhr, err := lh.Raw()
		must(err)
		payload := capella.ExecutionPayload{ParentHash: lhr.BlockHash, PrevRandao: mix, Timestamp: ts, BlockHash: common.Root{0xec, byte(slot), ops.Graffiti}}
		mkEnv = func(stateRoot common.Root, sig common.BLSSignature) *common.BeaconBlockEnvelope {
			b := &capella.SignedBeaconBlock{Message: capella.BeaconBlock{Slot: slot, ProposerIndex: proposer, ParentRoot: parent.Root, StateRoot: stateRoot,
				Body: capella.BeaconBlockBody{RandaoReveal: randao, Eth1Data: e1, Graffiti: graffiti,
					ProposerSlashings: ops.ProposerSlashings, AttesterSlashings: ops.AttesterSlashings, VoluntaryExits: ops.Exits,
					SyncAggregate: emptySync(), ExecutionPayload: payload}},
				Signature: sig}
			return b.Envelope(w.Spec, digest)
		}
	case *bellatrix.BeaconStateView:
		// before the merge: the default payload (execution is not enabled)
		mkEnv = func(stateRoot common.Root, sig common.BLSSignature) *common.BeaconBlockEnvelope {
			b := &bellatrix.SignedBeaconBlock{Message: bellatrix.BeaconBlock{Slot: slot, ProposerIndex: proposer, ParentRoot: parent.Root, StateRoot: stateRoot,
				Body: bellatrix.BeaconBlockBody{RandaoReveal: randao, Eth1Data: e1, Graffiti: graffiti,
					ProposerSlashings: ops.ProposerSlashings, AttesterSlashings: ops.AttesterSlashings, VoluntaryExits: ops.Exits,
					SyncAggregate: emptySync()}},
				Signature: sig}
			return b.Envelope(w.Spec, digest)
		}
	case *altair.BeaconStateView:
		mkEnv = func(stateRoot common.Root, sig common.BLSSignature) *common.BeaconBlockEnvelope {
			b := &altair.SignedBeaconBlock{Message: altair.BeaconBlock{Slot: slot, ProposerIndex: proposer, ParentRoot: parent.Root, StateRoot: stateRoot,
				Body: altair.BeaconBlockBody{RandaoReveal: randao, Eth1Data: e1, Graffiti: graffiti,
					ProposerSlashings: ops.ProposerSlashings, AttesterSlashings: ops.AttesterSlashings, VoluntaryExits: ops.Exits,
					SyncAggregate: emptySync()}},
				Signature: sig}
			return b.Envelope(w.Spec, digest)
		}
	default:
		mkEnv = func(stateRoot common.Root, sig common.BLSSignature) *common.BeaconBlockEnvelope {
			b := &phase0.SignedBeaconBlock{Message: phase0.BeaconBlock{Slot: slot, ProposerIndex: proposer, ParentRoot: parent.Root, StateRoot: stateRoot,
				Body: phase0.BeaconBlockBody{RandaoReveal: randao, Eth1Data: e1, Graffiti: graffiti,
					ProposerSlashings: ops.ProposerSlashings, AttesterSlashings: ops.AttesterSlashings, VoluntaryExits: ops.Exits}},
				Signature: sig}
			return b.Envelope(w.Spec, digest)
		}
	}
	// dry run for the state root
	dry := copyState(st)
	if err := common.PostSlotTransition(bg, w.Spec, epc.Clone(), dry, mkEnv(common.Root{}, common.BLSSignature{}), false); err != nil {
		panic(fmt.Errorf("world %s block %s: dry run: %w", w.Name, name, err))
	}
	stateRoot := dry.HashTreeRoot(hFn)
	unsigned := mkEnv(stateRoot, common.BLSSignature{})
	dom := common.ComputeDomain(common.DOMAIN_BEACON_PROPOSER, w.ForkVersionAt(slot), w.GVR)
	sig := w.C.Sign1(w.KeyOf(proposer), common.ComputeSigningRoot(unsigned.BlockRoot, dom))
	env := mkEnv(stateRoot, sig)
	if err := common.PostSlotTransition(bg, w.Spec, epc, st, env, true); err != nil {
		panic(fmt.Errorf("world %s block %s: transition: %w", w.Name, name, err))
	}
	n := &Node{Root: env.BlockRoot, Slot: slot, Parent: parent, State: st, Epc: epc, Env: env, Name: name}
	w.Nodes[n.Root] = n
	return n
}

// IsAncestor: a is n or an ancestor of n.
func IsAncestor(a, n *Node) bool {
	for x := n; x != nil; x = x.Parent {
		if x == a {
			return true
		}
	}
	return false
}

// AncestorAt: the block at or before slot on n's chain (get_ancestor).
func AncestorAt(n *Node, slot common.Slot) *Node {
	x := n
	for x.Parent != nil && x.Slot > slot {
		x = x.Parent
	}
	return x
}

func (w *World) IsSlashed(st common.BeaconState, i common.ValidatorIndex) bool {
	vals, err := st.Validators()
	must(err)
	v, err := vals.Validator(i)
	must(err)
	sl, err := v.Slashed()
	must(err)
	return sl
}
