package main

// view.go: one node's view of the world at one instant: scripted clock, seen-caches, chain view
// (implements every backend interface of eth2/gossipval/validator.go and beacon.Chain/ChainEntry);
// every Mark* call is recorded.

import (
	"context"
	"errors"
	"fmt"
	"time"

	"github.com/protolambda/zrnt/eth2/beacon"
	"github.com/protolambda/zrnt/eth2/beacon/common"
)

type Mark struct {
	Kind    string // exit, propsl, attsl, att, agg, aggregator, block, sync, contrib
	A, B, C uint64
	Root    common.Root
	List    []common.ValidatorIndex
}

func (m Mark) Coq() string {
	switch m.Kind {
	case "exit":
		return fmt.Sprintf("MkExit %d", m.A)
	case "propsl":
		return fmt.Sprintf("MkProposerSlashing %d", m.A)
	case "attsl":
		return "MkAttesterSlashings " + coqIdxList(m.List)
	case "att":
		return fmt.Sprintf("MkAttestation %d %d", m.A, m.B)
	case "agg":
		return "MkAggregate " + rootN(m.Root)
	case "aggregator":
		return fmt.Sprintf("MkAggregator %d %d", m.A, m.B)
	case "block":
		return fmt.Sprintf("MkBlock %d %d", m.A, m.B)
	case "sync":
		return fmt.Sprintf("MkSyncCommMsg %d %d %d", m.A, m.B, m.C)
	case "contrib":
		return fmt.Sprintf("MkContribution %d %d %d", m.A, m.B, m.C)
	}
	panic("bad mark")
}

func (m Mark) String() string { return m.Coq() }

type View struct {
	W *World
	// clock: milliseconds since genesis
	NowMs int64
	// seen caches (content = the marks that filled them)
	Seen []Mark
	Bad  map[common.Root]bool
	// chain view
	HeadNode    *Node
	HeadFail    bool
	Fin         common.Checkpoint
	Hidden      map[common.Root]bool // blocks this node has not seen / has pruned
	TowardsFail bool
	DomainFail  bool
	EpcFail     map[string]bool // entry key -> EpochsContext(ctx) fails
	StateFail   map[string]bool
	Horizon     common.Slot // ByBlockSlot answers up to this slot (0 = block slot + 16)
	// recorded
	Marks []Mark
}

func NewView(w *World, head *Node, nowMs int64) *View {
	return &View{W: w, HeadNode: head, NowMs: nowMs, Bad: map[common.Root]bool{}, Hidden: map[common.Root]bool{},
		EpcFail: map[string]bool{}, StateFail: map[string]bool{}, Fin: common.Checkpoint{Epoch: 0, Root: w.Genesis.Root}}
}

// Clone copies the scripted parts (not the recorded marks).
func (v *View) Clone() *View {
	c := *v
	c.Seen = append([]Mark(nil), v.Seen...)
	c.Bad = map[common.Root]bool{}
	for k, x := range v.Bad {
		c.Bad[k] = x
	}
	c.Hidden = map[common.Root]bool{}
	for k, x := range v.Hidden {
		c.Hidden[k] = x
	}
	c.EpcFail = map[string]bool{}
	for k, x := range v.EpcFail {
		c.EpcFail[k] = x
	}
	c.StateFail = map[string]bool{}
	for k, x := range v.StateFail {
		c.StateFail[k] = x
	}
	c.Marks = nil
	return &c
}

func (v *View) slotMs() int64 { return int64(v.W.Spec.SECONDS_PER_SLOT) * 1000 }

// SlotStartMs: the instant (ms since genesis) a slot starts.
func (v *View) SlotStartMs(s common.Slot) int64 { return int64(s) * v.slotMs() }

// ---- gossipval backend interfaces ----
func (v *View) Spec() *common.Spec { return v.W.Spec }
func (v *View) SlotAfter(delta time.Duration) common.Slot {
	t := v.NowMs + delta.Milliseconds()
	if t < 0 {
		return 0
	}
	return common.Slot(t / v.slotMs())
}
func (v *View) GenesisValidatorsRoot() common.Root { return v.W.GVR }
func (v *View) GetDomain(typ common.BLSDomainType, epoch common.Epoch) (common.BLSDomain, error) {
	if v.DomainFail {
		return common.BLSDomain{}, errors.New("scripted: no domain")
	}
	return v.W.DomainAt(typ, epoch), nil
}
func (v *View) IsBadBlock(root common.Root) bool { return v.Bad[root] }
func (v *View) Chain() beacon.Chain              { return (*chainView)(v) }
func (v *View) HeadInfo(ctx context.Context) (beacon.ChainEntry, *common.EpochsContext, common.BeaconState, error) {
	if v.HeadFail || v.HeadNode == nil {
		return nil, nil, nil, errors.New("scripted: no head")
	}
	e := v.entry(v.HeadNode, v.HeadNode.Slot)
	return e, e.epc, e.st, nil
}

func (v *View) seen(m Mark) bool {
	for _, x := range v.Seen {
		if x.Kind == m.Kind && x.A == m.A && x.B == m.B && x.C == m.C && x.Root == m.Root {
			return true
		}
	}
	return false
}
func (v *View) mark(m Mark) { v.Marks = append(v.Marks, m) }

func (v *View) SeenExit(i common.ValidatorIndex) bool {
	return v.seen(Mark{Kind: "exit", A: uint64(i)})
}
func (v *View) MarkExit(i common.ValidatorIndex) { v.mark(Mark{Kind: "exit", A: uint64(i)}) }
func (v *View) SeenProposerSlashing(i common.ValidatorIndex) bool {
	return v.seen(Mark{Kind: "propsl", A: uint64(i)})
}
func (v *View) MarkProposerSlashing(i common.ValidatorIndex) {
	v.mark(Mark{Kind: "propsl", A: uint64(i)})
}
func (v *View) slashingSeenIndex(i common.ValidatorIndex) bool {
	for _, x := range v.Seen {
		if x.Kind == "attsl" {
			for _, y := range x.List {
				if y == i {
					return true
				}
			}
		}
	}
	return false
}
func (v *View) AttesterSlashableAllSeen(indices []common.ValidatorIndex) bool {
	for _, i := range indices {
		if !v.slashingSeenIndex(i) {
			return false
		}
	}
	return true
}
func (v *View) MarkAttesterSlashings(indices []common.ValidatorIndex) {
	v.mark(Mark{Kind: "attsl", List: append([]common.ValidatorIndex(nil), indices...)})
}
func (v *View) SeenAttestation(e common.Epoch, i common.ValidatorIndex) bool {
	return v.seen(Mark{Kind: "att", A: uint64(e), B: uint64(i)})
}
func (v *View) MarkAttestation(e common.Epoch, i common.ValidatorIndex) {
	v.mark(Mark{Kind: "att", A: uint64(e), B: uint64(i)})
}
func (v *View) SeenAggregate(r common.Root) bool { return v.seen(Mark{Kind: "agg", Root: r}) }
func (v *View) MarkAggregate(r common.Root)      { v.mark(Mark{Kind: "agg", Root: r}) }
func (v *View) SeenAggregator(e common.Epoch, i common.ValidatorIndex) bool {
	return v.seen(Mark{Kind: "aggregator", A: uint64(e), B: uint64(i)})
}
func (v *View) MarkAggregator(e common.Epoch, i common.ValidatorIndex) {
	v.mark(Mark{Kind: "aggregator", A: uint64(e), B: uint64(i)})
}
func (v *View) SeenBlock(s common.Slot, p common.ValidatorIndex) bool {
	return v.seen(Mark{Kind: "block", A: uint64(s), B: uint64(p)})
}
func (v *View) MarkBlock(s common.Slot, p common.ValidatorIndex) {
	v.mark(Mark{Kind: "block", A: uint64(s), B: uint64(p)})
}
func (v *View) SeenSyncCommMsg(i common.ValidatorIndex, s common.Slot, n uint64) bool {
	return v.seen(Mark{Kind: "sync", A: uint64(i), B: uint64(s), C: n})
}
func (v *View) MarkSyncCommMsg(i common.ValidatorIndex, s common.Slot, n uint64) {
	v.mark(Mark{Kind: "sync", A: uint64(i), B: uint64(s), C: n})
}
func (v *View) SeenContribution(i common.ValidatorIndex, s common.Slot, n uint64) bool {
	return v.seen(Mark{Kind: "contrib", A: uint64(i), B: uint64(s), C: n})
}
func (v *View) MarkContribution(i common.ValidatorIndex, s common.Slot, n uint64) {
	v.mark(Mark{Kind: "contrib", A: uint64(i), B: uint64(s), C: n})
}

// ---- chain entries ----
type Entry struct {
	v    *View
	node *Node
	slot common.Slot
	st   common.BeaconState
	epc  *common.EpochsContext
}

func entryKey(root common.Root, slot common.Slot) string { return fmt.Sprintf("%x|%d", root[:], slot) }
func (e *Entry) Key() string                             { return entryKey(e.node.Root, e.slot) }

func (v *View) entry(n *Node, slot common.Slot) *Entry {
	st, epc, err := v.W.Advance(n, slot)
	if err != nil {
		return nil
	}
	return &Entry{v: v, node: n, slot: slot, st: st, epc: epc}
}

// fresh: the context of the entry's state computed from the state alone (see World.FreshContext).
func (e *Entry) fresh() *common.EpochsContext { return e.v.W.FreshContext(e.st, e.epc) }

func (e *Entry) Step() common.Step               { return common.AsStep(e.slot, e.slot == e.node.Slot) }
func (e *Entry) BlockRoot() (common.Root, error) { return e.node.Root, nil }
func (e *Entry) ParentRoot() (common.Root, error) {
	if e.node.Parent == nil {
		return common.Root{}, nil
	}
	return e.node.Parent.Root, nil
}
func (e *Entry) StateRoot() (common.Root, error) { return e.st.HashTreeRoot(hFn), nil }
func (e *Entry) EpochsContext(ctx context.Context) (*common.EpochsContext, error) {
	if e.v.EpcFail[e.Key()] || e.v.EpcFail["*"] {
		return nil, errors.New("scripted: no epochs context")
	}
	return e.epc, nil
}
func (e *Entry) State(ctx context.Context) (common.BeaconState, error) {
	if e.v.StateFail[e.Key()] || e.v.StateFail["*"] {
		return nil, errors.New("scripted: no state")
	}
	return e.st, nil
}

// ---- beacon.Chain ----
type chainView View

func (c *chainView) v() *View { return (*View)(c) }

func (c *chainView) known(root common.Root) *Node {
	if c.Hidden[root] {
		return nil
	}
	return c.W.Nodes[root]
}

func (c *chainView) ByStateRoot(root common.Root) (beacon.ChainEntry, bool) {
	panic("unused: ByStateRoot")
}
func (c *chainView) ByBlock(root common.Root) (beacon.ChainEntry, bool) {
	n := c.known(root)
	if n == nil {
		return nil, false
	}
	return c.v().entry(n, n.Slot), true
}
func (c *chainView) horizon(n *Node) common.Slot {
	if c.Horizon != 0 {
		return c.Horizon
	}
	return n.Slot + 16
}
func (c *chainView) ByBlockSlot(root common.Root, slot common.Slot) (beacon.ChainEntry, bool) {
	n := c.known(root)
	if n == nil || slot < n.Slot || slot > c.horizon(n) {
		return nil, false
	}
	e := c.v().entry(n, slot)
	if e == nil {
		return nil, false
	}
	return e, true
}
func (c *chainView) Search(parentRoot *common.Root, slot *common.Slot) ([]beacon.SearchEntry, error) {
	panic("unused: Search")
}
func (c *chainView) Closest(fromBlockRoot common.Root, toSlot common.Slot) (beacon.ChainEntry, bool) {
	panic("unused: Closest")
}
func (c *chainView) InSubtree(anchor common.Root, root common.Root) (unknown bool, inSubtree bool) {
	a, r := c.known(anchor), c.known(root)
	if a == nil || r == nil {
		return true, false
	}
	return false, IsAncestor(a, r)
}
func (c *chainView) ByCanonStep(step common.Step) (beacon.ChainEntry, bool) {
	panic("unused: ByCanonStep")
}
func (c *chainView) Iter() (beacon.ChainIter, error)        { panic("unused: Iter") }
func (c *chainView) JustifiedCheckpoint() common.Checkpoint { return c.Fin }
func (c *chainView) FinalizedCheckpoint() common.Checkpoint { return c.Fin }
func (c *chainView) Justified() (beacon.ChainEntry, error)  { panic("unused: Justified") }
func (c *chainView) Finalized() (beacon.ChainEntry, error)  { panic("unused: Finalized") }
func (c *chainView) Head() (beacon.ChainEntry, error) {
	if c.HeadFail || c.HeadNode == nil {
		return nil, errors.New("scripted: no head")
	}
	return c.v().entry(c.HeadNode, c.HeadNode.Slot), nil
}
func (c *chainView) Towards(ctx context.Context, fromBlockRoot common.Root, toSlot common.Slot) (beacon.ChainEntry, error) {
	if c.TowardsFail {
		return nil, errors.New("scripted: timeout")
	}
	n := c.known(fromBlockRoot)
	if n == nil {
		return nil, fmt.Errorf("unknown block %s", fromBlockRoot)
	}
	if n.Slot > toSlot {
		return nil, fmt.Errorf("block %s is past slot %d", fromBlockRoot, toSlot)
	}
	if toSlot > n.Slot+64 {
		return nil, errors.New("too far")
	}
	e := c.v().entry(n, toSlot)
	if e == nil {
		return nil, errors.New("cannot advance")
	}
	return e, nil
}
func (c *chainView) Genesis() beacon.GenesisInfo {
	return beacon.GenesisInfo{Time: 1_000_000, ValidatorsRoot: c.W.GVR}
}
