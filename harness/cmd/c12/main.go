package main

import (
	"fmt"
	"os"
	"time"

	"github.com/protolambda/zrnt/eth2/beacon/common"
	. "verifharness/hx"
)

func main() { Main("C12", runC12) }

func runC12(e *Env) error {
	t0 := time.Now()
	e.Header = "From Coq Require Import NArith List.\nFrom V Require Import Gossip.GossipModel Gossip.GossipRun.\nImport ListNotations.\nLocal Open Scope N_scope."
	e.CaseType = "gcase"
	e.ShardBytes = 120000
	e.ShardSize = 150
	e.Rule = "per topic: honest messages over the slots/committees/subnets of a window on chains built with the real transition (real BLS signatures), plus every single-condition corruption and the timing/availability failures; world gap: blocks whose parent lies 2 and 3 epochs back (main chain and side branches, across the altair fork) and sync messages/contributions for a slot in a later sync-committee period than the signed head block where the committee rotated (every seat: new, kept, held only before), the sync committee given to the model being the one of the state at the message's slot; world forks: every topic in the last slot before and the first slot after a fork-version change following altair (bellatrix, capella), with each signature also made under the adjacent fork's domain; world subnets: epochs of 32 slots with 3 (thorough also 5) committees per slot, honest attestations and the neighbouring wrong subnets for every committee of the slots around the point where committees_per_slot*slots_since_epoch_start+index passes 64; all cases of a world run against the same long-lived contexts (one backend), the model's facts come from contexts computed from the states alone, every call is checked not to change the chain view, and stateful sequences (partial aggregate / contribution / block, then the other members' messages, then the first message again) are arranged on one view; non-trivial = every case (each runs a validator against a chain view); distinct by (topic, corruption, verdict, ordinal)"
	g := &Gen{E: e, Count: map[string]int{}, Salt: e.Rng.Intn(1 << 20)}
	c := NewCrypto()
	lap := func(what string) {
		fmt.Fprintf(os.Stderr, "%-28s %8.2fs  cases so far %d\n", what, time.Since(t0).Seconds(), g.Total)
	}

	// world "small": 64 validators, two committees of four per slot, altair from epoch 2
	small := NewWorld(WorldKnobs{Name: "small", Validators: 64, TargetCommittee: 4, SyncCommittee: 32, AltairEpoch: 2, ShardCommittee: 1, MaxCommitteeSize: 16}, c)
	sc := buildChain(small, 36)
	lap("chain small")
	heads := []*Node{sc.BySlot[3], sc.BySlot[7], sc.BySlot[12], sc.BySlot[20], sc.Tip(), sc.Side[len(sc.Side)-1]}
	sample := []common.ValidatorIndex{0, common.ValidatorIndex(7 + g.Salt%5), common.ValidatorIndex(17 + g.Salt%11), common.ValidatorIndex(33 + g.Salt%13), 63}
	g.genExits(small, heads, sample, sc.Special)
	g.genProposerSlashings(small, heads, sample, sc.Special)
	g.genAttesterSlashings(small, heads, sc.Special)
	lap("operations")

	mkView := func(sc *Scenario, head *Node, slot common.Slot, ms int64) *View {
		v := NewView(sc.W, head, 0)
		v.NowMs = v.SlotStartMs(slot) + ms
		return v
	}
	attViews := []*View{mkView(sc, sc.Tip(), sc.Tip().Slot, 4000), mkView(sc, sc.BySlot[12], 12, 4000), mkView(sc, sc.BySlot[20], 22, 1000),
		mkView(sc, sc.Side[len(sc.Side)-1], 19, 4000), mkView(sc, sc.BySlot[1], 1, 4000)}
	if !e.Quick() {
		for _, s := range []common.Slot{5, 9, 16, 17, 23, 27, 30, 33} {
			if n := sc.BySlot[s]; n != nil {
				attViews = append(attViews, mkView(sc, n, s, 4000))
			}
		}
	}
	g.genAttestations(sc, attViews)
	lap("attestations small")
	g.genAggregates(sc, attViews)
	lap("aggregates small")
	g.genBlocks(sc)
	lap("blocks small")
	syncHeads := []*Node{sc.BySlot[17], sc.BySlot[23], sc.Tip(), sc.Side[len(sc.Side)-1]}
	g.genSyncMessages(sc, syncHeads)
	g.genSyncPreAltair(sc)
	lap("sync messages small")
	g.genContributions(sc, syncHeads)
	lap("contributions small")
	// stateful sequences on one backend (several messages about one committee, one after another)
	g.genAttSequences(sc, []*View{mkView(sc, sc.Tip(), sc.Tip().Slot, 4000), mkView(sc, sc.BySlot[12], 12, 4000), mkView(sc, sc.Side[len(sc.Side)-1], 19, 4000)})
	g.genSyncSequences(sc, []HeadAt{{sc.Tip(), sc.Tip().Slot}, {sc.BySlot[23], 25}})
	g.genBlockSequences(sc, []*Node{sc.BySlot[9], sc.BySlot[26], sc.Side[2]})
	lap("sequences small")

	// world "large": 256 validators, one committee of 32 per slot (aggregator selection modulo 2),
	// sync committee of 128 (sync aggregator selection modulo 2), altair from epoch 1
	large := NewWorld(WorldKnobs{Name: "large", Validators: 256, TargetCommittee: 32, SyncCommittee: 128, AltairEpoch: 1, ShardCommittee: 1}, c)
	lc := buildChain(large, e2n(e, 20, 36))
	lap("chain large")
	lviews := []*View{mkView(lc, lc.Tip(), lc.Tip().Slot, 4000), mkView(lc, lc.BySlot[12], 12, 4000)}
	g.genAggregates(lc, lviews)
	lap("aggregates large")
	g.genAttestations(lc, lviews[:1])
	lap("attestations large")
	lheads := []*Node{lc.BySlot[12], lc.Tip()}
	g.genContributions(lc, lheads)
	lap("contributions large")
	g.genSyncMessages(lc, lheads[1:])
	lap("sync messages large")
	// world "few": 16 validators and a sync committee of 32: every validator holds about two seats, most of them in
	// two different subcommittees
	few := NewWorld(WorldKnobs{Name: "few", Validators: 16, TargetCommittee: 4, SyncCommittee: 32, AltairEpoch: 1, ShardCommittee: 1, MaxCommitteeSize: 16}, c)
	fc := buildChain(few, 14)
	lap("chain few")
	fheads := []*Node{fc.Tip()}
	g.genSyncMessages(fc, fheads)
	g.genContributions(fc, fheads)
	lap("sync few")
	// world "gap": whole epochs without blocks between parent and child (2 and 3 epochs back; before, across and after the
	// altair fork at epoch 3; main chain and three side branches) and a sync-committee period of 2 epochs, crossed with
	// empty slots: at epochs 4 and 6 (nothing rotates: current == next since the upgrade) and at epochs 8 and 10 (the committee rotates)
	gap := NewWorld(WorldKnobs{Name: "gap", Validators: 64, TargetCommittee: 4, SyncCommittee: 32, AltairEpoch: 3, ShardCommittee: 1, MaxCommitteeSize: 16, SyncPeriod: 2}, c)
	gc := buildGapChain(gap)
	lap("chain gap")
	if e.Quick() {
		// the blocks after a gap and the first block on each of them
		var sel []*Node
		for _, n := range append(append(append([]*Node{}, gc.Main[1:]...), gc.Side...), gc.Side2...) {
			if gap.epochsBack(n) >= 2 || (n.Parent != nil && gap.epochsBack(n.Parent) >= 2) {
				sel = append(sel, n)
			}
		}
		g.genBlocksOf(gc, sel)
	} else {
		g.genBlocks(gc)
	}
	lap("blocks gap")
	m62, m69, b63, m19, c26, m46 := gc.BySlot[62], gc.BySlot[69], gc.named("b63"), gc.BySlot[19], gc.named("c26"), gc.BySlot[46]
	var gapAt, gapContribAt []HeadAt
	if e.Quick() {
		gapAt = []HeadAt{
			{m62, 64}, {m62, 65}, // head block in the period before the message's, the committee rotated in between
			{b63, 64}, {m69, 80}, // the same from a side branch; over a whole empty epoch
			{m19, 24}, {c26, 32}, // phase0 head block and message after the upgrade; first period boundary after the upgrade: nothing rotates
			{m62, 63}, // same period
		}
		gapContribAt = []HeadAt{{m62, 64}, {b63, 65}, {c26, 32}}
	} else {
		gapAt = []HeadAt{
			{m62, 64}, {m62, 65}, // head block in the period before the message's, the committee rotated in between
			{b63, 64}, {b63, 65}, // the same from a side branch
			{m69, 80}, {m69, 81}, // over a whole empty epoch
			{m19, 24}, {m19, 32}, // phase0 head block, message after the upgrade / after the first period boundary
			{c26, 32}, {c26, 33}, // first period boundary after the upgrade: nothing rotates
			{m46, 48}, {m46, 49}, // second period boundary: nothing rotates either
			{m62, 62}, {m62, 63}, // same period
		}
		gapContribAt = gapAt
	}
	g.genSyncMessagesAt(gc, gapAt)
	lap("sync messages gap")
	g.genContributionsAt(gc, gapContribAt)
	lap("contributions gap")
	for _, k := range []string{"x_blocks_with_parent_2_epochs_back", "x_blocks_with_parent_3_epochs_back", "x_sync_views_head_in_earlier_period_committee_rotated",
		"x_contrib_views_head_in_earlier_period_committee_rotated"} {
		if extraInt(e.Extra[k]) == 0 {
			return fmt.Errorf("generator lost a required history: %s = 0", k)
		}
	}
	for _, k := range []string{"sync/honest[seat-new-in-this-period]=ACCEPT", "sync/seat-only-in-previous-period=REJECT", "block/honest[parent-2-epochs-back]=ACCEPT", "block/honest[parent-3-epochs-back]=ACCEPT"} {
		e.Extra["x_"+k] = g.Count[k]
	}
	// world "forks": fork-version changes after altair (altair epoch 1, bellatrix epoch 3, capella epoch 5): every topic in the
	// last slot of the old fork and the first slot of the new one (every signature domain computed at a fork boundary), with
	// the corruption "signed under the domain of the adjacent fork"
	forks := NewWorld(WorldKnobs{Name: "forks", Validators: 64, TargetCommittee: 4, SyncCommittee: 32, AltairEpoch: 1, BellatrixEpoch: 3, CapellaEpoch: 5, ShardCommittee: 1, MaxCommitteeSize: 16}, c)
	fk := buildForkChain(forks)
	lap("chain forks")
	g.genForkBoundaries(fk)
	g.genAttSequences(fk, []*View{mkView(fk, fk.BySlot[25], 25, 4000), mkView(fk, fk.BySlot[41], 41, 4000)})
	g.genSyncSequences(fk, []HeadAt{{fk.BySlot[23], 24}, {fk.BySlot[40], 40}})
	g.genBlockSequences(fk, []*Node{fk.BySlot[24], fk.BySlot[40]})
	lap("world forks")
	// world "subnets": epochs of 32 slots with 3 committees per slot (384 validators): the committees of slot 21 sit on
	// subnets 63, 64 -> 0, 65 -> 1; a short chain (one epoch and two slots)
	{
		sw := NewWorld(WorldKnobs{Name: "subnets", Validators: 384, TargetCommittee: 4, SyncCommittee: 32, AltairEpoch: 2, ShardCommittee: 1, MaxCommitteeSize: 16, SlotsPerEpoch: 32}, c)
		ss := buildSparseChain(sw, 1, 20, 21, 22, 31, 32, 33)
		lap("chain subnets")
		if err := g.genSubnetWrap(ss, []common.Slot{1, 19, 20, 21, 22, 23, 31, 32, 33}); err != nil {
			return err
		}
		lap("world subnets")
	}
	if !e.Quick() {
		// 5 committees per slot (640 validators, MAX_COMMITTEES_PER_SLOT 5): slot 12 sits on subnets 60..63, 64 -> 0; slot 25 on 61..63, 0, 1
		sw5 := NewWorld(WorldKnobs{Name: "subnets5", Validators: 640, TargetCommittee: 4, SyncCommittee: 32, AltairEpoch: 2, ShardCommittee: 1, MaxCommitteeSize: 16, SlotsPerEpoch: 32, MaxCommittees: 5}, c)
		s5 := buildSparseChain(sw5, 1, 12, 13, 25, 26, 31)
		if err := g.genSubnetWrap(s5, []common.Slot{11, 12, 13, 24, 25, 26, 31}); err != nil {
			return err
		}
		lap("world subnets5")
	}
	if !e.Quick() {
		// world "mid": 128 validators, four committees of four per slot, altair from epoch 1; every topic again
		mid := NewWorld(WorldKnobs{Name: "mid", Validators: 128, TargetCommittee: 4, SyncCommittee: 32, AltairEpoch: 1, ShardCommittee: 2, MaxCommitteeSize: 16}, c)
		mc := buildChain(mid, 36)
		lap("chain mid")
		var mheads, mviews = []*Node{}, []*View{}
		for i, n := range mc.Main {
			if i%4 == 1 || n == mc.Tip() {
				mheads = append(mheads, n)
				mviews = append(mviews, mkView(mc, n, n.Slot+common.Slot(i%2), 2000))
			}
		}
		g.genExits(mid, mheads, sample, mc.Special)
		g.genProposerSlashings(mid, mheads, sample, mc.Special)
		g.genAttesterSlashings(mid, mheads, mc.Special)
		g.genAttestations(mc, mviews)
		g.genAggregates(mc, mviews)
		g.genBlocks(mc)
		var msync []*Node
		for _, n := range mheads {
			if mid.Spec.SlotToEpoch(n.Slot) >= 1 {
				msync = append(msync, n)
			}
		}
		g.genSyncMessages(mc, msync)
		g.genContributions(mc, msync)
		lap("world mid")
		// more views of the large world
		var lv []*View
		for i, n := range lc.Main {
			if i%5 == 2 {
				lv = append(lv, mkView(lc, n, n.Slot, 3000))
			}
		}
		g.genAggregates(lc, lv)
		g.genBlocks(lc)
		lap("large again")
	}
	g.Flush()
	return nil
}

func e2n(e *Env, q, t int) common.Slot {
	if e.Quick() {
		return common.Slot(q)
	}
	return common.Slot(t)
}
