package main

import (
	"fmt"
	"os"
	"time"

	"github.com/protolambda/zrnt/eth2/beacon/common"
	. "verifharness/hx"
)

func main() { Main("C12", runC12) }

func runC12(e *Env) error {
	t0 := time.Now()
	e.Header = "From Coq Require Import NArith List.\nFrom V Require Import Gossip.GossipModel Gossip.GossipRun.\nImport ListNotations.\nLocal Open Scope N_scope."
	e.CaseType = "gcase"
	e.ShardBytes = 150000
	e.ShardSize = 200
	e.Rule = "per topic: honest messages over the slots/committees/subnets of a window on chains built with the real transition (real BLS signatures), plus every single-condition corruption and the timing/availability failures; non-trivial = every case (each runs a validator against a chain view); distinct by (topic, corruption, verdict, ordinal)"
	g := &Gen{E: e, Count: map[string]int{}}
	c := NewCrypto()

	small := NewWorld(WorldKnobs{Name: "small", Validators: 64, TargetCommittee: 4, SyncCommittee: 32, AltairEpoch: 2, ShardCommittee: 1, MaxCommitteeSize: 16}, c)
	sc := buildChain(small, 36)
	fmt.Fprintln(os.Stderr, "chain small", time.Since(t0), len(sc.Main), len(sc.Side))
	heads := []*Node{sc.BySlot[3], sc.BySlot[7], sc.BySlot[12], sc.BySlot[20], sc.Tip(), sc.Side[len(sc.Side)-1]}
	sample := []common.ValidatorIndex{0, 9, 17, 33, 63}
	g.genExits(small, heads, sample, sc.Special)
	g.genProposerSlashings(small, heads, sample, sc.Special)
	g.genAttesterSlashings(small, heads, sc.Special)
	fmt.Fprintln(os.Stderr, "ops topics", time.Since(t0))
	return nil
}
