package main

// topics_subnets.go: attestation subnets where the committees of a slot cross subnet 63 -> 0 (a number of committees
// per slot that does not divide 64, a slot late enough in an epoch of 32 slots).

import (
	"fmt"

	"github.com/protolambda/zrnt/eth2/beacon/common"
)

// genSubnetWrap: the view is the tip of the scenario at its own slot. Honest attestations of every committee of the
// given slots (every member for the slots whose committees cross the wrap, one member otherwise), and per committee the
// wrong subnets next to the right one: the unwrapped value (>= 64: no such topic), the right subnet + 64, +1 and -1
// (modulo 64).
func (g *Gen) genSubnetWrap(sc *Scenario, slots []common.Slot) error {
	w := sc.W
	head := sc.Tip()
	v := NewView(w, head, 0)
	v.NowMs = v.SlotStartMs(head.Slot) + 4000
	crossed, straddling := 0, 0
	for _, s := range slots {
		voteFor := AncestorAt(head, s)
		var slotCross bool
		var ctxs []*AttCtx
		for i := common.CommitteeIndex(0); uint64(i) < uint64(w.Spec.MAX_COMMITTEES_PER_SLOT); i++ {
			ctx := w.attCtx(voteFor, s, i)
			if ctx == nil {
				break
			}
			ctxs = append(ctxs, ctx)
			if w.unwrappedSubnet(ctx.Count, s, i) >= 64 && w.unwrappedSubnet(ctx.Count, s, 0) < 64 {
				slotCross = true
			}
		}
		for _, ctx := range ctxs {
			n := len(ctx.Committee)
			raw := w.unwrappedSubnet(ctx.Count, s, ctx.Index)
			tag := ""
			if raw >= 64 {
				tag = "[subnet-wrapped]"
			}
			members := []int{int(uint64(s)+uint64(ctx.Index)+uint64(g.Salt)) % n}
			if slotCross {
				members = allPositions(n)
			}
			for _, m := range members {
				a := w.SignAtt(ctx.Data, n, []int{m}, []KeyNum{w.KeyOf(ctx.Committee[m])}, common.DOMAIN_BEACON_ATTESTER)
				// (the guard counts what was generated, whatever the code under test answered)
				if g.attCase("honest"+tag, v, ctx.Subnet, a); raw >= 64 {
					crossed++
					// the committees of this very slot straddle 63 -> 0: the slot's first subnet plus the index reaches 64
					if w.unwrappedSubnet(ctx.Count, s, 0)%64+uint64(ctx.Index) >= 64 {
						straddling++
					}
				}
			}
			m := members[0]
			a := w.SignAtt(ctx.Data, n, []int{m}, []KeyNum{w.KeyOf(ctx.Committee[m])}, common.DOMAIN_BEACON_ATTESTER)
			if raw >= 64 {
				g.attCase("subnet-is-unwrapped-value", v, raw, a)
			}
			g.attCase("subnet-plus-64"+tag, v, ctx.Subnet+64, a)
			g.attCase("subnet-plus-1"+tag, v, (ctx.Subnet+1)%64, a)
			g.attCase("subnet-minus-1"+tag, v, (ctx.Subnet+63)%64, a)
			if raw == 63 {
				g.attCase("subnet-64-for-63", v, 64, a)
			}
		}
	}
	g.E.Extra["x_honest_attestations_with_unwrapped_subnet_ge_64["+w.Name+"]"] = crossed
	g.E.Extra["x_honest_attestations_of_a_slot_straddling_subnet_63["+w.Name+"]"] = straddling
	if crossed == 0 || straddling == 0 {
		return fmt.Errorf("generator lost a required shape: world %s has %d honest attestations whose unwrapped subnet value is >= 64, %d of them in a slot whose committees straddle subnet 63 -> 0", w.Name, crossed, straddling)
	}
	return nil
}
