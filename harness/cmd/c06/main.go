// C06 correspondence harness: runs zrnt's shuffling (public API with real SHA-256, and the inner
// functions through the verif hook with weak hashes) and prints every call with Go's observed result
// as a Coq term of type Shuffle.ShuffleRun.scase.
package main

import (
	"encoding/binary"
	"encoding/hex"
	"encoding/json"
	"fmt"
	"os"
	"strings"
	. "verifharness/hx"

	"github.com/protolambda/zrnt/eth2/beacon/common"
	"github.com/protolambda/zrnt/eth2/util/hashing"
)

func main() { Main("C06", runC06) }

// Desc describes one case completely (it is also the replay format).
type Desc struct {
	Fn     string    `json:"fn"`   // PermuteIndex UnpermuteIndex ShuffleList UnshuffleList RoundTripShuffleFirst RoundTripUnshuffleFirst Hash
	Hash   string    `json:"hash"` // sha256 (public API) | weak (verif hook, weakHash(W))
	W      [6]uint64 `json:"weak_params"`
	Seed   string    `json:"seed"` // hex, 32 bytes
	Rounds uint8     `json:"rounds"`
	Index  uint64    `json:"index"`
	Size   uint64    `json:"size"`
	Input  string    `json:"input"` // iota | aff | explicit
	A      uint64    `json:"a"`
	B      uint64    `json:"b"`
	M      uint64    `json:"m"`
	List   []uint64  `json:"list,omitempty"`
	Msg    string    `json:"msg,omitempty"`
	Kind   string    `json:"kind"`
	// observed
	GoPanic bool     `json:"go_panic"`
	GoValue string   `json:"go_value,omitempty"`
	GoList  []uint64 `json:"go_list,omitempty"`
}

// weakHash: the Go twin of Shuffle.ShuffleRun.weak_hash.
//
//	33-byte input (pivot hash):  first 8 bytes = little-endian (a + round*b), rest 0
//	37-byte input (source hash): byte k = (c + k*d + blk*e + round*f) mod 256
func weakHash(w [6]uint64) hashing.HashFn {
	return func(in []byte) (out [32]byte) {
		round := uint64(0)
		if len(in) > 32 {
			round = uint64(in[32])
		}
		if len(in) == 33 {
			binary.LittleEndian.PutUint64(out[:8], w[0]+round*w[1])
			return
		}
		blk := uint64(0)
		if len(in) >= 37 {
			blk = uint64(binary.LittleEndian.Uint32(in[33:37]))
		}
		for k := 0; k < 32; k++ {
			out[k] = byte((w[2] + uint64(k)*w[3] + blk*w[4] + round*w[5]) % 256)
		}
		return
	}
}

func coqHash(d *Desc) string {
	if d.Hash == "weak" {
		return fmt.Sprintf("(HWeak %d %d %d %d %d %d)", d.W[0], d.W[1], d.W[2], d.W[3], d.W[4], d.W[5])
	}
	return "HSha"
}

func inputList(d *Desc) []common.ValidatorIndex {
	out := make([]common.ValidatorIndex, d.Size)
	switch d.Input {
	case "iota":
		for i := range out {
			out[i] = common.ValidatorIndex(i)
		}
	case "aff":
		for i := range out {
			out[i] = common.ValidatorIndex((d.A*uint64(i) + d.B) % d.M)
		}
	default:
		for i := range out {
			out[i] = common.ValidatorIndex(d.List[i])
		}
	}
	return out
}

func coqInput(d *Desc) string {
	switch d.Input {
	case "iota":
		return fmt.Sprintf("(LIota %d)", d.Size)
	case "aff":
		return fmt.Sprintf("(LAff %d %d %d %d)", d.Size, d.A, d.B, d.M)
	}
	return "(LExplicit " + coqNs(d.List) + ")"
}

func coqNs(l []uint64) string {
	var sb strings.Builder
	sb.WriteString("[")
	for i, x := range l {
		if i > 0 {
			sb.WriteString(";")
		}
		fmt.Fprintf(&sb, "%d", x)
	}
	sb.WriteString("]")
	return sb.String()
}

func seedOf(d *Desc) (seed common.Root) {
	b, _ := hex.DecodeString(d.Seed)
	copy(seed[:], b)
	return
}

// runCase executes the described call on the real code and renders the Coq case.
func runCase(d Desc) Case {
	seed := seedOf(&d)
	weak := d.Hash == "weak"
	var c Case
	c.Kind = d.Kind
	switch d.Fn {
	case "PermuteIndex", "UnpermuteIndex":
		dir := d.Fn == "PermuteIndex"
		var res common.ValidatorIndex
		p, _ := Catch(func() {
			switch {
			case weak:
				res = common.VerifInnerPermuteIndex(weakHash(d.W), d.Rounds, common.ValidatorIndex(d.Index), d.Size, seed, dir)
			case dir:
				res = common.PermuteIndex(d.Rounds, common.ValidatorIndex(d.Index), d.Size, seed)
			default:
				res = common.UnpermuteIndex(d.Rounds, common.ValidatorIndex(d.Index), d.Size, seed)
			}
		})
		d.GoPanic = p
		d.GoValue = fmt.Sprint(uint64(res))
		c.Coq = fmt.Sprintf("CPerm %s %s %d %d %d %s %s", coqHash(&d), CoqBytes(seed[:]), d.Rounds, d.Index, d.Size, CoqBool(dir), CoqGoResN(uint64(res), nil, p))
		c.NonTrivial = d.Rounds > 0 && d.Size > 1 && d.Index < d.Size
	case "ShuffleList", "UnshuffleList":
		dir := d.Fn == "ShuffleList"
		l := inputList(&d)
		p, _ := Catch(func() {
			switch {
			case weak:
				common.VerifInnerShuffleList(weakHash(d.W), d.Rounds, l, seed, dir)
			case dir:
				common.ShuffleList(d.Rounds, l, seed)
			default:
				common.UnshuffleList(d.Rounds, l, seed)
			}
		})
		d.GoPanic = p
		out := make([]uint64, len(l))
		for i, v := range l {
			out[i] = uint64(v)
		}
		if len(out) <= 64 {
			d.GoList = out
		}
		gr := "GoPanic"
		if !p {
			gr = "(GoOk " + coqNs(out) + ")"
		}
		c.Coq = fmt.Sprintf("CList %s %s %d %s %s %s", coqHash(&d), CoqBytes(seed[:]), d.Rounds, coqInput(&d), CoqBool(dir), gr)
		c.NonTrivial = d.Rounds > 0 && d.Size > 1
	case "RoundTripShuffleFirst", "RoundTripUnshuffleFirst":
		dir := d.Fn == "RoundTripShuffleFirst"
		l := inputList(&d)
		orig := append([]common.ValidatorIndex(nil), l...)
		same := true
		p, _ := Catch(func() {
			if weak {
				common.VerifInnerShuffleList(weakHash(d.W), d.Rounds, l, seed, dir)
				common.VerifInnerShuffleList(weakHash(d.W), d.Rounds, l, seed, !dir)
			} else if dir {
				common.ShuffleList(d.Rounds, l, seed)
				common.UnshuffleList(d.Rounds, l, seed)
			} else {
				common.UnshuffleList(d.Rounds, l, seed)
				common.ShuffleList(d.Rounds, l, seed)
			}
		})
		for i := range l {
			if l[i] != orig[i] {
				same = false
			}
		}
		d.GoPanic = p
		d.GoValue = fmt.Sprint(same)
		gr := "GoPanic"
		if !p {
			gr = "(GoOk " + CoqBool(same) + ")"
		}
		c.Coq = fmt.Sprintf("CTrip %s %s %d %s %s %s", coqHash(&d), CoqBytes(seed[:]), d.Rounds, coqInput(&d), CoqBool(dir), gr)
		c.NonTrivial = d.Rounds > 0 && d.Size > 1
	case "Hash":
		msg, _ := hex.DecodeString(d.Msg)
		var h [32]byte
		if weak {
			h = weakHash(d.W)(msg)
		} else if d.A == 1 {
			h = hashing.GetHashFn()(msg) // the instance ShuffleList uses
		} else {
			h = hashing.Hash(msg) // the instance PermuteIndex uses
		}
		d.GoValue = hex.EncodeToString(h[:])
		c.Coq = fmt.Sprintf("CHash %s %s %s", coqHash(&d), CoqBytes(msg), CoqBytes(h[:]))
		c.NonTrivial = true
	default:
		panic("unknown fn " + d.Fn)
	}
	c.JSON = d
	c.Key = fmt.Sprintf("%s/%s/%v/%s/%d/%d/%d/%s/%d/%d/%d", d.Fn, d.Hash, d.W, d.Seed, d.Rounds, d.Index, d.Size, d.Input, d.A, d.B, d.M)
	return c
}

func runC06(e *Env) error {
	e.Header = "From Coq Require Import NArith List.\nFrom V Require Import Base.Outcome Shuffle.ShuffleRun.\nImport ListNotations.\nLocal Open Scope N_scope."
	e.CaseType = "scase"
	e.ShardSize = 400
	e.ShardBytes = 24000
	e.Rule = "public API (PermuteIndex, UnpermuteIndex, ShuffleList, UnshuffleList) with real SHA-256: every list size 0..N (quick 530, thorough 1100) for several seeds and round counts (quick: the second sweep keeps every size up to 64 and around 256/512 and every third size elsewhere), sizes 2^k-1,2^k,2^k+1, rounds in {0,1,2,3,10,90,255}, distinct and duplicate-carrying lists, round trips, per-index calls up to size 2^40 incl. index 0 / size-1 and out-of-domain (size 0, index >= size); inner functions through the verif hook with weak hashes forcing pivot 0, size-1, mirror edges, all-swap/no-swap and block/byte dependent coins. non-trivial = rounds > 0, size > 1 (and index < size); distinct by full input"
	if e.Replay != "" {
		return replay(e)
	}
	r := e.Rng
	add := func(d Desc) { e.Add(runCase(d)) }
	newSeed := func() string { return hex.EncodeToString(r.Bytes(32)) }
	seeds := []string{newSeed(), newSeed(), strings.Repeat("00", 32), strings.Repeat("ff", 32), newSeed()}
	roundSet := []uint8{0, 1, 2, 3, 10, 90, 255}
	listFn := func(dir bool) string {
		if dir {
			return "ShuffleList"
		}
		return "UnshuffleList"
	}
	permFn := func(dir bool) string {
		if dir {
			return "PermuteIndex"
		}
		return "UnpermuteIndex"
	}

	// 0. the hash instances of the model against Go's, on the two message shapes the algorithm hashes
	for i := 0; i < 4; i++ {
		for _, ln := range []int{33, 37} {
			msg := hex.EncodeToString(r.Bytes(ln))
			add(Desc{Fn: "Hash", Hash: "sha256", Msg: msg, A: uint64(i % 2), Kind: "hash_sha256"})
			add(Desc{Fn: "Hash", Hash: "weak", W: [6]uint64{r.U64() >> 2, uint64(r.Intn(1000)), uint64(r.Intn(256)), uint64(r.Intn(256)), uint64(r.Intn(256)), uint64(r.Intn(256))}, Msg: msg, Kind: "hash_weak"})
		}
	}

	// 1. SHA-256, public API: every size 0..N
	maxN := uint64(e.N(530, 1100))
	nsweeps := e.N(2, 4)
	for s := 0; s < nsweeps; s++ {
		for n := uint64(0); n <= maxN; n++ {
			if s >= 2 && n > 600 {
				break // the higher-round sweeps stop at 600
			}
			rounds := uint8(1 + (n+uint64(s))%3)
			if s >= 2 {
				rounds = uint8(4 + (n+uint64(s))%7)
			}
			dir := (n+uint64(s))%2 == 0
			if e.Quick() && s >= 1 && n > 64 && !(n >= 250 && n <= 262) && !(n >= 506 && n <= 518) && n%3 != 0 {
				continue // quick tier: the later sweeps thin out away from the 256/512 boundaries
			}
			d := Desc{Fn: listFn(dir), Hash: "sha256", Seed: seeds[s%len(seeds)], Rounds: rounds, Size: n, Input: "iota", Kind: "list_sha_allsizes"}
			if s%2 == 1 && n > 0 {
				d.Input, d.A, d.B, d.M = "aff", 7, 3, 1+n/3 // duplicates
				d.Kind = "list_sha_allsizes_dup"
			}
			add(d)
		}
	}
	// 2. sizes 2^k-1, 2^k, 2^k+1
	maxK := uint(e.N(10, 14))
	for k := uint(1); k <= maxK; k++ {
		for _, n := range []uint64{1<<k - 1, 1 << k, 1<<k + 1} {
			for _, dir := range []bool{true, false} {
				add(Desc{Fn: listFn(dir), Hash: "sha256", Seed: seeds[int(k)%len(seeds)], Rounds: []uint8{3, 10, 2}[k%3], Size: n, Input: "iota", Kind: "list_sha_pow2"})
			}
		}
	}
	// 3. all round counts of the set (and, thorough, every round count 0..255) on sizes straddling 256
	var sizes3 []uint64
	if e.Quick() {
		sizes3 = []uint64{2, 9, 255, 257}
	} else {
		sizes3 = []uint64{2, 9, 100, 255, 256, 257, 511, 513, 777}
	}
	for _, n := range sizes3 {
		for _, rounds := range roundSet {
			for _, dir := range []bool{true, false} {
				add(Desc{Fn: listFn(dir), Hash: "sha256", Seed: seeds[int(n)%len(seeds)], Rounds: rounds, Size: n, Input: "iota", Kind: "list_sha_rounds"})
			}
		}
	}
	if !e.Quick() {
		for rounds := 0; rounds <= 255; rounds++ {
			n := uint64(250 + r.Intn(20))
			add(Desc{Fn: listFn(rounds%2 == 0), Hash: "sha256", Seed: newSeed(), Rounds: uint8(rounds), Size: n, Input: "iota", Kind: "list_sha_everyround"})
		}
	}
	// 4. round trips and mainnet-like parameters (90 rounds)
	for i := 0; i < e.N(12, 60); i++ {
		n := uint64(r.Intn(600))
		if i%4 == 0 {
			n = []uint64{0, 1, 2, 256, 512, 257}[r.Intn(6)]
		}
		rounds := roundSet[r.Intn(len(roundSet))]
		if rounds == 255 && n > 300 {
			rounds = 90
		}
		fn := "RoundTripShuffleFirst"
		if r.Bool() {
			fn = "RoundTripUnshuffleFirst"
		}
		add(Desc{Fn: fn, Hash: "sha256", Seed: newSeed(), Rounds: rounds, Size: n, Input: "aff", A: r.U64() >> 40, B: r.U64() >> 40, M: 1 + uint64(r.Intn(1<<20)), Kind: "roundtrip_sha"})
	}
	for i := 0; i < e.N(6, 40); i++ {
		n := uint64(2 + r.Intn(e.N(400, 2000)))
		add(Desc{Fn: listFn(i%2 == 0), Hash: "sha256", Seed: newSeed(), Rounds: 90, Size: n, Input: "iota", Kind: "list_sha_90rounds"})
	}
	// 5. per-index, SHA-256
	nper := e.N(260, 3000)
	for i := 0; i < nper; i++ {
		var n uint64
		switch r.Intn(8) {
		case 0:
			n = uint64(1 + r.Intn(10))
		case 1:
			n = uint64(1 + r.Intn(1000))
		case 2:
			k := uint(1 + r.Intn(40))
			n = (uint64(1) << k) + uint64(r.Intn(3)) - 1
		case 3:
			n = 1 << 40
		case 4:
			n = 1 + r.U64()>>24 // up to 2^40
		case 5:
			n = uint64(250 + r.Intn(530))
		default:
			n = 1 + r.U64()>>uint(24+r.Intn(40))
		}
		if n > 1<<40 {
			n = 1 << 40
		}
		var idx uint64
		switch r.Intn(5) {
		case 0:
			idx = 0
		case 1:
			idx = n - 1
		default:
			idx = r.U64() % n
		}
		rounds := roundSet[r.Intn(len(roundSet))]
		if r.Chance(30) {
			rounds = uint8(r.Intn(256))
		}
		if rounds > 90 && i%8 != 0 {
			rounds = 90
		}
		add(Desc{Fn: permFn(i%2 == 0), Hash: "sha256", Seed: seeds[r.Intn(len(seeds))], Rounds: rounds, Index: idx, Size: n, Kind: "index_sha"})
	}
	// out of the domain: size 0 (panics when rounds > 0), index >= size; compared with the Impl model only
	for _, rounds := range []uint8{0, 1, 90} {
		for _, dir := range []bool{true, false} {
			add(Desc{Fn: permFn(dir), Hash: "sha256", Seed: seeds[0], Rounds: rounds, Index: 0, Size: 0, Kind: "index_size0"})
			add(Desc{Fn: permFn(dir), Hash: "sha256", Seed: seeds[0], Rounds: rounds, Index: 5, Size: 0, Kind: "index_size0"})
			add(Desc{Fn: permFn(dir), Hash: "sha256", Seed: seeds[1], Rounds: rounds, Index: 7, Size: 7, Kind: "index_out_of_range"})
			add(Desc{Fn: permFn(dir), Hash: "sha256", Seed: seeds[1], Rounds: rounds, Index: r.U64(), Size: 1 + r.U64()>>30, Kind: "index_out_of_range"})
		}
	}

	// 6. weak hashes through the hook
	type wsel func(n uint64) [6]uint64
	rnd := func(k int) uint64 { return uint64(r.Intn(k)) }
	weakSets := []struct {
		name string
		f    wsel
	}{
		{"pivot0_noswap", func(n uint64) [6]uint64 { return [6]uint64{0, 0, 0, 0, 0, 0} }},
		{"pivot0_allswap", func(n uint64) [6]uint64 { return [6]uint64{0, 0, 255, 0, 0, 0} }},
		{"pivotlast_allswap", func(n uint64) [6]uint64 { return [6]uint64{n - 1 + n*rnd(5), 0, 255, 0, 0, 0} }},
		{"pivotlast_coins", func(n uint64) [6]uint64 { return [6]uint64{n - 1 + n*rnd(5), 0, rnd(256), rnd(256), rnd(256), rnd(256)} }},
		{"pivot0_coins", func(n uint64) [6]uint64 { return [6]uint64{n * rnd(5), 0, rnd(256), rnd(256), rnd(256), rnd(256)} }},
		{"pivotmid_coins", func(n uint64) [6]uint64 { return [6]uint64{n/2 + rnd(3), 1, rnd(256), rnd(256), rnd(256), rnd(256)} }},
		{"pivotmax64_allswap", func(n uint64) [6]uint64 { return [6]uint64{^uint64(0), 0, 255, 0, 0, 0} }},
		{"random", func(n uint64) [6]uint64 { return [6]uint64{r.U64() >> 1, rnd(1 << 20), rnd(256), rnd(256), rnd(256), rnd(256)} }},
		{"random_walk", func(n uint64) [6]uint64 { return [6]uint64{rnd(1 << 16), 1 + rnd(300), rnd(256), 1 + 2*rnd(128), 1 + rnd(255), rnd(256)} }},
	}
	var wsizes []uint64
	for n := uint64(0); n <= uint64(e.N(40, 80)); n++ {
		wsizes = append(wsizes, n)
	}
	for _, c := range []uint64{256, 512, 768, 1024} {
		for dlt := -6; dlt <= 6; dlt++ {
			if e.Quick() && c > 512 {
				continue
			}
			wsizes = append(wsizes, uint64(int(c)+dlt))
		}
	}
	for i := 0; i < e.N(20, 200); i++ {
		wsizes = append(wsizes, uint64(41+r.Intn(e.N(560, 1500))))
	}
	for _, n := range wsizes {
		for wi, ws := range weakSets {
			if n == 0 && strings.HasPrefix(ws.name, "pivotlast") {
				continue
			}
			if e.Quick() && n > 40 && (int(n)+wi)%3 != 0 {
				continue
			}
			w := ws.f(n)
			rounds := uint8(1 + r.Intn(3))
			if r.Chance(10) {
				rounds = roundSet[r.Intn(len(roundSet))]
			}
			dir := r.Bool()
			d := Desc{Fn: listFn(dir), Hash: "weak", W: w, Seed: seeds[2], Rounds: rounds, Size: n, Input: "iota", Kind: "list_weak_" + ws.name}
			if r.Chance(15) && n > 0 {
				d.Input, d.A, d.B, d.M = "aff", 1+rnd(50), rnd(50), 1+rnd(int(n))
			}
			add(d)
			if n > 0 {
				// the per-index function under the same weak hash, at the edges and a random index
				for _, idx := range []uint64{0, n - 1, uint64(r.Intn(int(n)))} {
					add(Desc{Fn: permFn(r.Bool()), Hash: "weak", W: w, Seed: seeds[2], Rounds: rounds, Index: idx, Size: n, Kind: "index_weak_" + ws.name})
				}
			}
			if r.Chance(20) {
				fn := "RoundTripShuffleFirst"
				if r.Bool() {
					fn = "RoundTripUnshuffleFirst"
				}
				add(Desc{Fn: fn, Hash: "weak", W: w, Seed: seeds[2], Rounds: rounds, Size: n, Input: "iota", Kind: "roundtrip_weak"})
			}
		}
	}
	// per-index with weak hashes at large sizes (uint32(pos>>8) window, up to 2^40)
	for i := 0; i < e.N(150, 1500); i++ {
		n := 1 + r.U64()>>uint(24+r.Intn(30))
		if n > 1<<40 {
			n = 1 << 40
		}
		if i%10 == 0 {
			n = 1 << 40
		}
		w := weakSets[r.Intn(len(weakSets))].f(n)
		idx := []uint64{0, n - 1, r.U64() % n, r.U64() % n}[r.Intn(4)]
		add(Desc{Fn: permFn(r.Bool()), Hash: "weak", W: w, Seed: seeds[3], Rounds: roundSet[r.Intn(len(roundSet))], Index: idx, Size: n, Kind: "index_weak_large"})
	}
	return nil
}

// replay: re-run exactly the failing case of a replay file written by the driver.
func replay(e *Env) error {
	raw, err := os.ReadFile(e.Replay)
	if err != nil {
		return err
	}
	var rp struct {
		FailingCase *struct {
			Case Desc `json:"case"`
		} `json:"failing_case"`
		More []struct {
			Case Desc `json:"case"`
		} `json:"more"`
		Mism []struct {
			Case Desc `json:"case"`
		} `json:"correspondence_mismatches"`
	}
	if err := json.Unmarshal(raw, &rp); err != nil {
		return err
	}
	if rp.FailingCase != nil {
		e.Add(runCase(rp.FailingCase.Case))
	}
	for _, m := range rp.More {
		e.Add(runCase(m.Case))
	}
	for _, m := range rp.Mism {
		e.Add(runCase(m.Case))
	}
	return nil
}
