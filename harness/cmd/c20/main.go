// C20 correspondence harness: random add/search/prune/reset sequences against the real zrnt pools.
//
// One case = one fresh pool + one operation sequence + what the Go code did at every step (return value,
// error, panic; query results mapped back to the small ids the sequence was built from, which only works
// when the returned object is bit-for-bit the one that was added).  A Go panic ends the sequence.
package main

import (
	"context"
	"encoding/binary"
	"encoding/json"
	"fmt"
	"os"
	"reflect"
	"sort"
	"strings"
	. "verifharness/hx"

	"github.com/protolambda/zrnt/eth2/beacon/altair"
	"github.com/protolambda/zrnt/eth2/beacon/common"
	"github.com/protolambda/zrnt/eth2/beacon/phase0"
	"github.com/protolambda/zrnt/eth2/configs"
	"github.com/protolambda/zrnt/eth2/pool"
	"github.com/protolambda/ztyp/tree"
	"github.com/protolambda/ztyp/view"
)

func main() { Main("C20", run) }

const altered = 999999 // id reported for anything that is not exactly an object the sequence created

var spec = configs.Minimal

// ---------------------------------------------------------------------------------------------------
// ids <-> objects

func sigOf(id uint64) (s common.BLSSignature) {
	binary.LittleEndian.PutUint64(s[:8], id)
	for i := 8; i < len(s); i++ {
		s[i] = byte(id*31 + uint64(i)*7 + 1)
	}
	return
}
func sigID(s common.BLSSignature) uint64 {
	id := binary.LittleEndian.Uint64(s[:8])
	if sigOf(id) == s {
		return id
	}
	return altered
}
func rootOf(id uint64) (r common.Root) {
	binary.LittleEndian.PutUint64(r[:8], id)
	for i := 8; i < len(r); i++ {
		r[i] = byte(id*17 + uint64(i)*3 + 5)
	}
	return
}
func rootID(r common.Root) uint64 {
	id := binary.LittleEndian.Uint64(r[:8])
	if rootOf(id) == r {
		return id
	}
	return altered
}

type BL []byte // JSON as an array of numbers

func (b BL) MarshalJSON() ([]byte, error) {
	out := make([]int, len(b))
	for i, x := range b {
		out[i] = int(x)
	}
	return json.Marshal(out)
}
func (b *BL) UnmarshalJSON(in []byte) error {
	var xs []int
	if err := json.Unmarshal(in, &xs); err != nil {
		return err
	}
	*b = make([]byte, len(xs))
	for i, x := range xs {
		(*b)[i] = byte(x)
	}
	return nil
}

type DataSpec struct {
	Slot, Index, Tepoch, Tag uint64
}

func (d DataSpec) goData() phase0.AttestationData {
	src := d.Tepoch
	if src > 0 {
		src--
	}
	return phase0.AttestationData{Slot: common.Slot(d.Slot), Index: common.CommitteeIndex(d.Index), BeaconBlockRoot: rootOf(d.Tag),
		Source: common.Checkpoint{Epoch: common.Epoch(src), Root: rootOf(d.Tag + 1)},
		Target: common.Checkpoint{Epoch: common.Epoch(d.Tepoch), Root: rootOf(d.Tag + 2)}}
}
func dataBack(g phase0.AttestationData) DataSpec {
	d := DataSpec{Slot: uint64(g.Slot), Index: uint64(g.Index), Tepoch: uint64(g.Target.Epoch), Tag: rootID(g.BeaconBlockRoot)}
	if d.goData() != g {
		d.Tag = altered
	}
	return d
}
func (d DataSpec) coq() string { return fmt.Sprintf("(mkData %d %d %d %d)", d.Slot, d.Index, d.Tepoch, d.Tag) }

type AttSpec struct {
	Data DataSpec
	Bits BL
	Sig  uint64
}

func (a AttSpec) coq() string { return fmt.Sprintf("(mkAtt %s %s %d)", a.Data.coq(), CoqBytes(a.Bits), a.Sig) }
func (a AttSpec) goAtt() *phase0.Attestation {
	return &phase0.Attestation{AggregationBits: append(phase0.AttestationBits(nil), a.Bits...), Data: a.Data.goData(), Signature: sigOf(a.Sig)}
}

func coqNs(xs []uint64) string {
	s := make([]string, len(xs))
	for i, x := range xs {
		s[i] = fmt.Sprint(x)
	}
	return "[" + strings.Join(s, ";") + "]"
}
func coqOpt(p *uint64) string {
	if p == nil {
		return "None"
	}
	return fmt.Sprintf("(Some %d)", *p)
}
func goUnit(err error, panicked bool) string {
	if panicked {
		return "GoPanic"
	}
	if err != nil {
		return "GoErr"
	}
	return "(GoOk tt)"
}
func resWord(err error, panicked bool, pv interface{}) string {
	if panicked {
		return fmt.Sprintf("panic: %v", pv)
	}
	if err != nil {
		return "error: " + err.Error()
	}
	return "ok"
}

// ---------------------------------------------------------------------------------------------------
// attestation pool

type AOp struct {
	Op    string   `json:"op"` // add | search | prune | dump
	Att   *AttSpec `json:"att,omitempty"`
	Comm  []uint64 `json:"committee,omitempty"`
	Slot  *uint64  `json:"slot,omitempty"`
	Index *uint64  `json:"index,omitempty"`
	Epoch uint64   `json:"epoch,omitempty"`
	Go    string   `json:"go,omitempty"` // what Go did (human readable)
}

type seqStats struct {
	accepted, refused, queries, results, panics int
}

func bitsSet(b []byte) []int {
	var out []int
	n := int(phase0.AttestationBits(b).BitLen())
	for i := 0; i < n && i/8 < len(b); i++ {
		if b[i/8]>>(uint(i)%8)&1 == 1 {
			out = append(out, i)
		}
	}
	return out
}

func execAtt(ops []AOp) (steps []string, done []AOp, st seqStats) {
	ap := pool.NewAttestationPool(spec)
	comms := map[string]common.CommitteeIndices{}
	roots := map[common.Root]DataSpec{}
	back := func(r common.Root) DataSpec {
		if d, ok := roots[r]; ok {
			return d
		}
		return DataSpec{Tag: altered}
	}
	for _, op := range ops {
		switch op.Op {
		case "add":
			att := op.Att.goAtt()
			roots[att.Data.HashTreeRoot(tree.GetHashFn())] = op.Att.Data
			// the committee is the caller's slice (a client passes the slice cached in its epochs context, the same one for
			// every attestation of that committee): it is shared between calls here, and must come back unchanged
			ckey := fmt.Sprint(op.Comm)
			comm, shared := comms[ckey]
			if !shared {
				comm = make(common.CommitteeIndices, len(op.Comm))
				for i, v := range op.Comm {
					comm[i] = common.ValidatorIndex(v)
				}
				comms[ckey] = comm
			}
			var err error
			p, pv := Catch(func() { err = ap.AddAttestation(context.Background(), att, comm) })
			if !p {
				for i, v := range op.Comm {
					if i >= len(comm) || comm[i] != common.ValidatorIndex(v) {
						// reported like a crash of the call: the model has no outcome "returned but rewrote its argument"
						p, pv = true, fmt.Sprintf("AddAttestation returned (%v) but changed the caller's committee slice %v into %v", err, op.Comm, comm)
						break
					}
				}
			}
			op.Go = resWord(err, p, pv)
			steps = append(steps, fmt.Sprintf("(AAdd %s %s, OAdd %s)", op.Att.coq(), coqNs(op.Comm), goUnit(err, p)))
			done = append(done, op)
			if p {
				st.panics++
				return
			}
			if err == nil {
				st.accepted++
			} else {
				st.refused++
			}
		case "search":
			var opts []pool.AttSearchOption
			if op.Slot != nil {
				opts = append(opts, pool.WithSlot(common.Slot(*op.Slot)))
			}
			if op.Index != nil {
				opts = append(opts, pool.WithCommittee(common.CommitteeIndex(*op.Index)))
			}
			var res []*phase0.Attestation
			p, pv := Catch(func() { res = ap.Search(opts...) })
			obs := "GoPanic"
			if !p {
				var items []string
				for _, a := range res {
					items = append(items, AttSpec{Data: dataBack(a.Data), Bits: BL(a.AggregationBits), Sig: sigID(a.Signature)}.coq())
				}
				sort.Strings(items)
				obs = "(GoOk " + CoqList(items) + ")"
				op.Go = fmt.Sprintf("%d result(s): %s", len(res), strings.Join(items, " "))
				st.queries++
				st.results += len(res)
			} else {
				op.Go = resWord(nil, p, pv)
			}
			steps = append(steps, fmt.Sprintf("(ASearch %s %s, OSearch %s)", coqOpt(op.Slot), coqOpt(op.Index), obs))
			done = append(done, op)
			if p {
				st.panics++
				return
			}
		case "prune":
			p, pv := Catch(func() { ap.Prune(common.Epoch(op.Epoch)) })
			op.Go = resWord(nil, p, pv)
			steps = append(steps, fmt.Sprintf("(APrune %d, OPrune %s)", op.Epoch, goUnit(nil, p)))
			done = append(done, op)
			if p {
				st.panics++
				return
			}
		case "dump":
			for _, d := range ap.VerifDatas() {
				if _, ok := roots[d.Root]; !ok {
					roots[d.Root] = dataBack(d.Data.Data)
				}
			}
			var indiv, votes, aggs, datas []string
			for _, x := range ap.VerifIndividuals() {
				indiv = append(indiv, fmt.Sprintf("(%d, %d, %s, %d)", x.Key.Index, x.Key.Epoch, back(x.Ref.DataRoot).coq(), sigID(x.Ref.Sig)))
			}
			vs, isNil := ap.VerifAggPerValidator()
			for _, x := range vs {
				votes = append(votes, fmt.Sprintf("(%d, %d, %s)", x.Key.Index, x.Key.Epoch, back(x.Root).coq()))
			}
			aggStr := func(as []pool.Aggregate) string {
				var s []string
				for _, a := range as {
					s = append(s, fmt.Sprintf("(%s, %d)", CoqBytes(a.Participants), sigID(a.Sig)))
				}
				return CoqList(s)
			}
			nExtra := 0
			for _, x := range ap.VerifAggregates() {
				aggs = append(aggs, fmt.Sprintf("(%s, (%s, %s, %s))", back(x.Root).coq(), aggStr(x.Aggregates), CoqBytes(x.Participants), aggStr(x.Extra)))
				nExtra += len(x.Extra)
			}
			for _, x := range ap.VerifDatas() {
				d := dataBack(x.Data.Data)
				if x.Data.Data.HashTreeRoot(tree.GetHashFn()) != x.Root {
					d.Tag = altered
				}
				datas = append(datas, d.coq())
			}
			sort.Strings(indiv)
			sort.Strings(votes)
			sort.Strings(aggs)
			sort.Strings(datas)
			op.Go = fmt.Sprintf("individual=%d aggPerValidator=%d(nil=%v) aggregate=%d extra=%d datas=%d", len(indiv), len(votes), isNil, len(aggs), nExtra, len(datas))
			steps = append(steps, fmt.Sprintf("(ADump, ODump (mkDump %s %s %s %s %s))", CoqList(indiv), CoqList(votes), CoqBool(isNil), CoqList(aggs), CoqList(datas)))
			done = append(done, op)
		}
	}
	return
}

func mkBits(n int, set []int) BL {
	b := make([]byte, n/8+1)
	for _, i := range set {
		if i >= 0 && i < n {
			b[i/8] |= 1 << (uint(i) % 8)
		}
	}
	b[n/8] |= 1 << (uint(n) % 8)
	return b
}

type gcomm struct {
	slot, index, tepoch uint64
	members             []uint64
	tags                []uint64
}

type attGen struct {
	r      *Rng
	comms  []gcomm
	base   uint64
	nextID uint64
	hist   []AOp // earlier adds
	ops    []AOp
}

func u64p(v uint64) *uint64 { return &v }

func newAttGen(r *Rng) *attGen {
	g := &attGen{r: r, nextID: 1}
	g.base = []uint64{0, 1, 2, 3, 3, 5, 40, 1 << 33, ^uint64(0) - 1}[r.Intn(9)]
	nc := 1 + r.Intn(3)
	nval := uint64(6 + r.Intn(14))
	for c := 0; c < nc; c++ {
		te := g.base + uint64(r.Intn(4))
		if te >= 2 {
			te -= 2
		} else {
			te = uint64(r.Intn(2))
		}
		n := []int{1, 2, 3, 4, 5, 6, 7, 8, 9, 12, 15, 16, 17}[r.Intn(13)]
		var mem []uint64
		seen := map[uint64]bool{}
		for len(mem) < n {
			v := uint64(r.Intn(int(nval) + n))
			if !seen[v] || r.Chance(3) {
				seen[v] = true
				mem = append(mem, v)
			}
		}
		gc := gcomm{slot: te*8 + uint64(r.Intn(8)), index: uint64(r.Intn(3)), tepoch: te, members: mem}
		if c > 0 && r.Chance(40) { // same slot or same committee index as the first one, to make filters bite
			gc.slot = g.comms[0].slot
			gc.tepoch = g.comms[0].tepoch
		}
		nt := 1 + r.Intn(3)
		for t := 0; t < nt; t++ {
			gc.tags = append(gc.tags, uint64(10*(c+1)+3*t))
		}
		g.comms = append(g.comms, gc)
	}
	return g
}

func (g *attGen) subset(n int, style int, prev []int) []int {
	r := g.r
	var set []int
	switch style {
	case 0: // single
		set = []int{r.Intn(n)}
	case 1: // pair
		a := r.Intn(n)
		set = []int{a, (a + 1 + r.Intn(max(1, n-1))) % n}
	case 2: // random
		for i := 0; i < n; i++ {
			if r.Bool() {
				set = append(set, i)
			}
		}
	case 3: // full
		for i := 0; i < n; i++ {
			set = append(set, i)
		}
	case 4: // subset of prev
		for _, i := range prev {
			if r.Chance(70) {
				set = append(set, i)
			}
		}
	case 5: // disjoint from prev
		in := map[int]bool{}
		for _, i := range prev {
			in[i] = true
		}
		for i := 0; i < n; i++ {
			if !in[i] && r.Chance(60) {
				set = append(set, i)
			}
		}
	case 6: // overlapping prev + one more
		set = append(set, prev...)
		set = append(set, r.Intn(n))
	default: // empty
	}
	return set
}

func (g *attGen) add() {
	r := g.r
	if len(g.hist) > 0 && r.Chance(12) { // exact duplicate of an earlier add
		op := g.hist[r.Intn(len(g.hist))]
		g.ops = append(g.ops, op)
		return
	}
	c := g.comms[r.Intn(len(g.comms))]
	d := DataSpec{Slot: c.slot, Index: c.index, Tepoch: c.tepoch, Tag: c.tags[r.Intn(len(c.tags))]}
	if r.Chance(8) { // same committee, other epoch near the prune boundary
		d.Tepoch = g.base + uint64(r.Intn(3)) - 1
		if g.base == 0 {
			d.Tepoch = uint64(r.Intn(2))
		}
		d.Slot = d.Tepoch*8 + uint64(r.Intn(8))
	}
	n := len(c.members)
	var prev []int
	for i := len(g.hist) - 1; i >= 0; i-- { // union of earlier bits for the same data
		if g.hist[i].Att.Data == d {
			prev = append(prev, bitsSet(g.hist[i].Att.Bits)...)
			if r.Bool() {
				break
			}
		}
	}
	style := []int{0, 0, 1, 1, 2, 2, 2, 3, 4, 4, 5, 5, 6, 7}[r.Intn(14)]
	if r.Chance(2) {
		style = 7
	}
	bits := mkBits(n, g.subset(n, style, prev))
	comm := append([]uint64(nil), c.members...)
	switch {
	case r.Chance(6): // mismatched committee size
		k := []int{-1, 1, 2, 7, 8, 9, 20, 40, -n}[r.Intn(9)]
		if k < 0 {
			if n+k >= 0 {
				comm = comm[:n+k]
			}
		} else {
			for j := 0; j < k; j++ {
				comm = append(comm, uint64(100+j))
			}
		}
	case r.Chance(3): // bit list of another size
		m := n + []int{-1, 1, 8, -8}[r.Intn(4)]
		if m >= 0 {
			bits = mkBits(m, g.subset(max(m, 1), 2, nil))
		}
	case r.Chance(2): // not a valid bit list (outside the Spec's domain; the model must still agree)
		switch r.Intn(3) {
		case 0:
			bits = BL{}
		case 1:
			bits = append(bits[:len(bits):len(bits)], 0)
		default:
			bits = BL{0}
		}
	}
	op := AOp{Op: "add", Att: &AttSpec{Data: d, Bits: bits, Sig: g.nextID}, Comm: comm}
	g.nextID++
	g.hist = append(g.hist, op)
	g.ops = append(g.ops, op)
}

func (g *attGen) search() {
	r := g.r
	op := AOp{Op: "search"}
	c := g.comms[r.Intn(len(g.comms))]
	if r.Chance(45) {
		op.Slot = u64p(c.slot + uint64(r.Intn(10)/9))
	}
	if r.Chance(40) {
		op.Index = u64p(c.index + uint64(r.Intn(10)/9))
	}
	g.ops = append(g.ops, op)
}
func (g *attGen) prune() {
	e := g.base + uint64(g.r.Intn(5)) - 2
	if g.base < 2 {
		e = uint64(g.r.Intn(4))
	}
	if g.r.Chance(5) {
		e = []uint64{0, 1, ^uint64(0), 1 << 40}[g.r.Intn(4)]
	}
	g.ops = append(g.ops, AOp{Op: "prune", Epoch: e})
}
func (g *attGen) dump() { g.ops = append(g.ops, AOp{Op: "dump"}) }

func genAtt(r *Rng, long bool) ([]AOp, string) {
	g := newAttGen(r)
	kind := "random"
	c := g.comms[0]
	n := len(c.members)
	d := DataSpec{Slot: c.slot, Index: c.index, Tepoch: c.tepoch, Tag: c.tags[0]}
	d2 := d
	d2.Tag = d.Tag + 1
	mk := func(dd DataSpec, set []int) AOp {
		op := AOp{Op: "add", Att: &AttSpec{Data: dd, Bits: mkBits(n, set), Sig: g.nextID}, Comm: append([]uint64(nil), c.members...)}
		g.nextID++
		g.hist = append(g.hist, op)
		return op
	}
	switch r.Intn(8) {
	case 0:
		kind = "dup"
		a := mk(d, g.subset(n, 2+r.Intn(2), nil))
		g.ops = append(g.ops, a)
		if r.Bool() {
			g.add()
		}
		g.ops = append(g.ops, a)
		g.search()
	case 1:
		kind = "conflict-single"
		i := r.Intn(n)
		g.ops = append(g.ops, mk(d, []int{i}), mk(d2, []int{i}), mk(d, []int{i}))
		g.dump()
	case 2:
		kind = "conflict-aggregate"
		if n >= 2 {
			s := g.subset(n, 1, nil)
			g.ops = append(g.ops, mk(d, s), mk(d2, s), mk(d2, g.subset(n, 6, s)))
			g.search()
		}
	case 3:
		kind = "cover"
		if n >= 4 {
			h := n / 2
			var lo, hi []int
			for i := 0; i < n; i++ {
				if i < h {
					lo = append(lo, i)
				} else {
					hi = append(hi, i)
				}
			}
			a2 := mk(d, hi)
			g.ops = append(g.ops, mk(d, lo), a2, mk(d, []int{h - 1, h}), a2)
			g.search()
			g.dump()
		}
	case 4:
		kind = "extra-cap"
		if n >= 2 {
			a := mk(d, g.subset(n, 3, nil))
			g.ops = append(g.ops, a)
			for i := 0; i < 11+r.Intn(2); i++ {
				g.ops = append(g.ops, a)
			}
			g.dump()
		}
	case 5:
		kind = "prune-boundary"
		for k := 0; k < 4+r.Intn(4); k++ {
			dd := d
			dd.Tepoch = g.base + uint64(r.Intn(4))
			if dd.Tepoch >= 2 {
				dd.Tepoch -= 2
			}
			dd.Slot = dd.Tepoch*8 + 1
			g.ops = append(g.ops, mk(dd, g.subset(n, []int{0, 2, 3}[r.Intn(3)], nil)))
		}
		g.search()
		g.ops = append(g.ops, AOp{Op: "prune", Epoch: g.base + uint64(r.Intn(3))})
		g.search()
		g.dump()
	}
	steps := 6 + r.Intn(14)
	if long {
		steps = 15 + r.Intn(25)
	}
	for i := 0; i < steps; i++ {
		switch x := r.Intn(100); {
		case x < 62:
			g.add()
		case x < 80:
			g.search()
		case x < 90:
			g.prune()
		default:
			g.dump()
		}
	}
	g.search()
	if r.Chance(50) {
		g.dump()
	}
	return g.ops, kind
}

func attCase(ops []AOp, kind string) Case {
	steps, done, st := execAtt(ops)
	return Case{Coq: "CAtt " + CoqList(steps), Kind: "att/" + kind, NonTrivial: st.accepted >= 2 && (st.queries > 0 || st.panics > 0),
		JSON: map[string]interface{}{"pool": "attestations", "ops": done}}
}

// ---------------------------------------------------------------------------------------------------
// slashing and exit pools

type KOp struct {
	Op string `json:"op"` // add | all
	ID uint64 `json:"id,omitempty"`
	Go string `json:"go,omitempty"`
}

func exitOf(id uint64) *phase0.SignedVoluntaryExit {
	return &phase0.SignedVoluntaryExit{Message: phase0.VoluntaryExit{Epoch: common.Epoch(id / 10 % 10), ValidatorIndex: common.ValidatorIndex(id / 100)}, Signature: sigOf(id)}
}
func propOf(id uint64) *phase0.ProposerSlashing {
	h := func(k uint64) common.SignedBeaconBlockHeader {
		return common.SignedBeaconBlockHeader{Message: common.BeaconBlockHeader{Slot: common.Slot(id % 100), ProposerIndex: common.ValidatorIndex(id / 100), ParentRoot: rootOf(id), StateRoot: rootOf(id + k), BodyRoot: rootOf(id + 2*k)}, Signature: sigOf(id + 50000*(k-1))}
	}
	p := &phase0.ProposerSlashing{SignedHeader1: h(1), SignedHeader2: h(2)}
	if id%100 == 7 { // header 2 names another proposer: the pool keys on header 1
		p.SignedHeader2.Message.ProposerIndex += 1
	}
	return p
}
func attSlOf(id uint64) *phase0.AttesterSlashing {
	ia := func(k uint64) phase0.IndexedAttestation {
		return phase0.IndexedAttestation{AttestingIndices: common.CommitteeIndices{common.ValidatorIndex(id % 7), common.ValidatorIndex(7 + id%5 + k)},
			Data: DataSpec{Slot: id % 64, Index: k, Tepoch: id % 8, Tag: id}.goData(), Signature: sigOf(id + 50000*(k-1))}
	}
	return &phase0.AttesterSlashing{Attestation1: ia(1), Attestation2: ia(2)}
}

func execKeyed(which string, ops []KOp) (steps []string, done []KOp, st seqStats) {
	ctx := context.Background()
	vep := pool.NewVoluntaryExitPool(spec)
	psp := pool.NewProposerSlashingPool(spec)
	asp := pool.NewAttesterSlashingPool(spec)
	keyOf := func(id uint64) uint64 {
		switch which {
		case "exits", "proposer_slashings":
			return id / 100
		}
		return id
	}
	for _, op := range ops {
		switch op.Op {
		case "add":
			var err error
			p, pv := Catch(func() {
				switch which {
				case "exits":
					err = vep.AddVoluntaryExit(ctx, exitOf(op.ID))
				case "proposer_slashings":
					err = psp.AddProposerSlashing(ctx, propOf(op.ID))
				default:
					err = asp.AddAttesterSlashing(ctx, attSlOf(op.ID))
				}
			})
			op.Go = resWord(err, p, pv)
			steps = append(steps, fmt.Sprintf("(KAdd (mkK %d %d), KOAdd %s)", op.ID, keyOf(op.ID), goUnit(err, p)))
			done = append(done, op)
			if p {
				st.panics++
				return
			}
			if err == nil {
				st.accepted++
			} else {
				st.refused++
			}
		case "all":
			var items []string
			p, pv := Catch(func() {
				switch which {
				case "exits":
					for _, e := range vep.All() {
						id := sigID(e.Signature)
						if *exitOf(id) != *e {
							id = altered
						}
						items = append(items, fmt.Sprintf("(mkK %d %d)", id, uint64(e.Message.ValidatorIndex)))
					}
				case "proposer_slashings":
					for _, e := range psp.All() {
						id := sigID(e.SignedHeader1.Signature)
						if *propOf(id) != *e {
							id = altered
						}
						items = append(items, fmt.Sprintf("(mkK %d %d)", id, uint64(e.SignedHeader1.Message.ProposerIndex)))
					}
				default:
					for _, e := range asp.All() {
						id := sigID(e.Attestation1.Signature)
						if !reflect.DeepEqual(attSlOf(id), e) {
							id = altered
						}
						items = append(items, fmt.Sprintf("(mkK %d %d)", id, id))
					}
				}
			})
			sort.Strings(items)
			obs := "GoPanic"
			if !p {
				obs = "(GoOk " + CoqList(items) + ")"
				op.Go = fmt.Sprintf("%d item(s): %s", len(items), strings.Join(items, " "))
				st.queries++
				st.results += len(items)
			} else {
				op.Go = resWord(nil, p, pv)
			}
			steps = append(steps, fmt.Sprintf("(KAll, KOAll %s)", obs))
			done = append(done, op)
			if p {
				st.panics++
				return
			}
		}
	}
	return
}

func genKeyed(r *Rng, which string) []KOp {
	var ops []KOp
	nk := 2 + r.Intn(6)
	n := 5 + r.Intn(20)
	for i := 0; i < n; i++ {
		if r.Chance(75) {
			var id uint64
			switch which {
			case "exits":
				id = uint64(r.Intn(nk))*100 + uint64(r.Intn(2))*10 + uint64(r.Intn(2))
			case "proposer_slashings":
				id = uint64(r.Intn(nk))*100 + []uint64{1, 2, 7}[r.Intn(3)]
			default:
				id = uint64(1 + r.Intn(nk+3))
			}
			ops = append(ops, KOp{Op: "add", ID: id})
		} else {
			ops = append(ops, KOp{Op: "all"})
		}
	}
	return append(ops, KOp{Op: "all"})
}

func keyedCase(which string, ops []KOp) Case {
	steps, done, st := execKeyed(which, ops)
	return Case{Coq: "CKeyed " + CoqList(steps), Kind: which, NonTrivial: st.accepted >= 2 && st.refused >= 1,
		JSON: map[string]interface{}{"pool": which, "ops": done}}
}

// ---------------------------------------------------------------------------------------------------
// sync committee pool

type SOp struct {
	Op      string   `json:"op"` // msg | contrib | reset | select | contribs | cur
	Slot    uint64   `json:"slot"`
	Root    uint64   `json:"root"`
	Val     uint64   `json:"validator,omitempty"`
	Subnet  uint64   `json:"subnet,omitempty"`
	Bits    BL       `json:"bits,omitempty"`
	Sig     uint64   `json:"sig,omitempty"`
	Pos     int      `json:"pos"`
	Members []uint64 `json:"members,omitempty"`
	Go      string   `json:"go,omitempty"`
}

func execSync(ops []SOp) (steps []string, done []SOp, st seqStats) {
	ctx := context.Background()
	sp := pool.NewSyncCommitteePool(spec)
	for _, op := range ops {
		switch op.Op {
		case "msg":
			var err error
			m := &altair.SyncCommitteeMessage{Slot: common.Slot(op.Slot), BeaconBlockRoot: rootOf(op.Root), ValidatorIndex: common.ValidatorIndex(op.Val), Signature: sigOf(op.Sig)}
			p, pv := Catch(func() { err = sp.AddSyncCommitteeMessage(ctx, m) })
			op.Go = resWord(err, p, pv)
			steps = append(steps, fmt.Sprintf("(SAddMsg (mkMsg %d %d %d %d), SOAdd %s)", op.Slot, op.Root, op.Val, op.Sig, goUnit(err, p)))
			done = append(done, op)
			if p {
				st.panics++
				return
			}
			if err == nil {
				st.accepted++
			} else {
				st.refused++
			}
		case "contrib":
			var err error
			c := &altair.SyncCommitteeContribution{Slot: common.Slot(op.Slot), BeaconBlockRoot: rootOf(op.Root), SubcommitteeIndex: view.Uint64View(op.Subnet),
				AggregationBits: append(altair.SyncCommitteeSubnetBits(nil), op.Bits...), Signature: sigOf(op.Sig)}
			p, pv := Catch(func() { err = sp.AddSyncCommitteeContribution(ctx, c) })
			op.Go = resWord(err, p, pv)
			steps = append(steps, fmt.Sprintf("(SAddCon (mkCon %d %d %d %s %d), SOAdd %s)", op.Slot, op.Root, op.Subnet, CoqBytes(op.Bits), op.Sig, goUnit(err, p)))
			done = append(done, op)
			if p {
				st.panics++
				return
			}
			if err == nil {
				st.accepted++
			} else {
				st.refused++
			}
		case "reset":
			p, pv := Catch(func() { sp.Reset(common.Slot(op.Slot)) })
			op.Go = resWord(nil, p, pv)
			steps = append(steps, fmt.Sprintf("(SReset %d, SOReset %s)", op.Slot, goUnit(nil, p)))
			done = append(done, op)
			if p {
				st.panics++
				return
			}
		case "select":
			mem := make([]common.ValidatorIndex, len(op.Members))
			for i, v := range op.Members {
				mem[i] = common.ValidatorIndex(v)
			}
			var res []*altair.SyncCommitteeMessage
			p, pv := Catch(func() { res = sp.VerifMsgs(op.Pos).Select(rootOf(op.Root), mem) })
			obs := "GoPanic"
			if !p {
				var items []string
				for _, m := range res {
					items = append(items, fmt.Sprintf("(mkMsg %d %d %d %d)", uint64(m.Slot), rootID(m.BeaconBlockRoot), uint64(m.ValidatorIndex), sigID(m.Signature)))
				}
				obs = "(GoOk " + CoqList(items) + ")"
				op.Go = fmt.Sprintf("%d message(s): %s", len(res), strings.Join(items, " "))
				st.queries++
				st.results += len(res)
			} else {
				op.Go = resWord(nil, p, pv)
			}
			steps = append(steps, fmt.Sprintf("(SSelect %d %d %s, SOSelect %s)", op.Pos, op.Root, coqNs(op.Members), obs))
			done = append(done, op)
			if p {
				st.panics++
				return
			}
		case "contribs":
			var items []string
			if byRoot := sp.VerifContribs(op.Pos); byRoot != nil {
				if subs, ok := byRoot[rootOf(op.Root)]; ok {
					for _, c := range subs[op.Subnet] {
						items = append(items, fmt.Sprintf("(%s, %d)", CoqBytes(c.AggregationBits), sigID(c.Signature)))
					}
				}
			}
			op.Go = fmt.Sprintf("%d contribution(s): %s", len(items), strings.Join(items, " "))
			st.queries++
			st.results += len(items)
			steps = append(steps, fmt.Sprintf("(SContribs %d %d %d, SOContribs %s)", op.Pos, op.Root, op.Subnet, CoqList(items)))
			done = append(done, op)
		case "cur":
			cur := uint64(sp.VerifCurrentSlot())
			op.Go = fmt.Sprint(cur)
			steps = append(steps, fmt.Sprintf("(SCur, SOCur %d)", cur))
			done = append(done, op)
		}
	}
	return
}

func genSync(r *Rng, long bool) ([]SOp, string) {
	var ops []SOp
	cur := ^uint64(0) // the constructor's currentSlot
	kind := "fresh"
	sig := uint64(1)
	if r.Chance(75) {
		kind = "reset-first"
		cur = []uint64{0, 0, 1, 2, 5, 1000, ^uint64(0), ^uint64(0) - 1, r.U64() >> 20}[r.Intn(9)]
		ops = append(ops, SOp{Op: "reset", Slot: cur})
	}
	n := 8 + r.Intn(16)
	if long {
		n = 20 + r.Intn(30)
	}
	nroots := 1 + r.Intn(3)
	nsubs := 1 + r.Intn(3)
	type ckey struct{ slot, root, sub uint64 }
	var conKeys []ckey
	type mkey struct{ slot, root uint64 }
	var msgKeys []mkey
	near := func() uint64 { return cur + uint64(r.Intn(5)) - 2 }
	// buffer index of a slot relative to the current slot, if inside the window
	posOf := func(slot uint64) (int, bool) {
		switch slot {
		case cur - 1:
			return 0, true
		case cur:
			return 1, true
		case cur + 1:
			return 2, true
		}
		return 0, false
	}
	for i := 0; i < n; i++ {
		switch x := r.Intn(100); {
		case x < 28:
			s := near()
			if r.Chance(80) {
				s = cur + uint64(r.Intn(3)) - 1
			}
			op := SOp{Op: "msg", Slot: s, Root: uint64(r.Intn(nroots)), Val: uint64(r.Intn(5)), Sig: sig}
			msgKeys = append(msgKeys, mkey{s, op.Root})
			ops = append(ops, op)
			sig++
		case x < 50:
			s := near()
			if r.Chance(80) {
				s = cur + uint64(r.Intn(3)) - 1
			}
			op := SOp{Op: "contrib", Slot: s, Root: uint64(r.Intn(nroots)), Subnet: uint64(r.Intn(nsubs)), Bits: BL(r.Bytes(1 + r.Intn(2))), Sig: sig}
			if len(conKeys) > 0 && r.Chance(40) { // another contribution for the same slot/root/subnet
				k := conKeys[r.Intn(len(conKeys))]
				op.Slot, op.Root, op.Subnet = k.slot, k.root, k.sub
			}
			conKeys = append(conKeys, ckey{op.Slot, op.Root, op.Subnet})
			ops = append(ops, op)
			sig++
		case x < 64:
			s := cur + []uint64{^uint64(0) - 2, ^uint64(0) - 1, ^uint64(0), ^uint64(0), 0, 1, 1, 1, 2, 3, 7, 1 << 40}[r.Intn(12)]
			if r.Chance(4) {
				s = []uint64{0, ^uint64(0), r.U64()}[r.Intn(3)]
			}
			ops = append(ops, SOp{Op: "reset", Slot: s})
			cur = s
		case x < 80:
			var mem []uint64
			for j := 0; j < 1+r.Intn(6); j++ {
				mem = append(mem, uint64(r.Intn(6)))
			}
			op := SOp{Op: "select", Pos: r.Intn(3), Root: uint64(r.Intn(nroots)), Members: mem}
			if len(msgKeys) > 0 && r.Chance(70) {
				k := msgKeys[len(msgKeys)-1-r.Intn(min(len(msgKeys), 4))]
				if pos, ok := posOf(k.slot); ok {
					op.Pos, op.Root = pos, k.root
				}
			}
			ops = append(ops, op)
		case x < 96:
			op := SOp{Op: "contribs", Pos: r.Intn(3), Root: uint64(r.Intn(nroots)), Subnet: uint64(r.Intn(nsubs))}
			if len(conKeys) > 0 && r.Chance(75) {
				k := conKeys[len(conKeys)-1-r.Intn(min(len(conKeys), 4))]
				if pos, ok := posOf(k.slot); ok {
					op.Pos, op.Root, op.Subnet = pos, k.root, k.sub
				}
			}
			ops = append(ops, op)
		default:
			ops = append(ops, SOp{Op: "cur"})
		}
	}
	// closing sweep: every buffer, every root (and subnet) used
	for pos := 0; pos < 3; pos++ {
		for root := 0; root < nroots; root++ {
			ops = append(ops, SOp{Op: "select", Pos: pos, Root: uint64(root), Members: []uint64{0, 1, 2, 3, 4}})
			for sub := 0; sub < nsubs; sub++ {
				if len(conKeys) > 0 {
					ops = append(ops, SOp{Op: "contribs", Pos: pos, Root: uint64(root), Subnet: uint64(sub)})
				}
			}
		}
	}
	ops = append(ops, SOp{Op: "cur"})
	return ops, kind
}

func syncCase(ops []SOp, kind string) Case {
	steps, done, st := execSync(ops)
	return Case{Coq: "CSync " + CoqList(steps), Kind: "sync/" + kind, NonTrivial: st.accepted >= 2 && (st.queries > 0 || st.panics > 0),
		JSON: map[string]interface{}{"pool": "sync_committee", "ops": done}}
}

// ---------------------------------------------------------------------------------------------------
// fixed first cases: the defects of the pinned snapshot (each is a violation until its fix is committed)

func witnesses(e *Env) {
	d := DataSpec{Slot: 9, Index: 1, Tepoch: 1, Tag: 10}
	d2 := DataSpec{Slot: 9, Index: 1, Tepoch: 1, Tag: 11}
	comm := []uint64{20, 21, 22, 23}
	add := func(dd DataSpec, set []int, sig uint64, c []uint64) AOp {
		return AOp{Op: "add", Att: &AttSpec{Data: dd, Bits: mkBits(4, set), Sig: sig}, Comm: c}
	}
	// first aggregate on a fresh pool (aggPerValidator nil)
	e.Add(attCase([]AOp{add(d, []int{0, 1}, 1, comm), {Op: "search"}, {Op: "dump"}}, "witness"))
	// Search after a single attestation (nil MinAggregates)
	e.Add(attCase([]AOp{add(d, []int{2}, 1, comm), {Op: "search"}, {Op: "dump"}}, "witness"))
	// Participants never OR-ed: the duplicate of the second aggregate and a subset of the union are stored again
	e.Add(attCase([]AOp{add(d, []int{0, 1}, 1, comm), add(d, []int{2, 3}, 2, comm), add(d, []int{2, 3}, 2, comm), add(d, []int{1, 2}, 3, comm), {Op: "search"}, {Op: "dump"}}, "witness"))
	// committee longer than the bit list's bytes: GetBit index out of range
	long := append(append([]uint64(nil), comm...), 30, 31, 32, 33, 34, 35)
	e.Add(attCase([]AOp{add(d, []int{0, 1}, 1, long), {Op: "dump"}}, "witness"))
	// committee one longer: the delimiter bit is read as a vote of committee[4]
	e.Add(attCase([]AOp{add(d, []int{0, 1}, 1, comm), add(d2, []int{0, 1}, 2, append(append([]uint64(nil), comm...), 30)), {Op: "dump"}}, "witness"))
	// conflict reports
	e.Add(attCase([]AOp{add(d, []int{2}, 1, comm), add(d2, []int{2}, 2, comm), add(d, []int{2}, 1, comm), add(d, []int{0, 1}, 3, comm), add(d2, []int{0, 1}, 4, comm), add(d2, []int{0, 1, 3}, 5, comm), {Op: "search"}, {Op: "dump"}}, "witness"))

	// sync pool: a message for slot 0 on a fresh pool; after Reset(0); contributions likewise
	e.Add(syncCase([]SOp{{Op: "msg", Slot: 0, Root: 1, Val: 3, Sig: 1}, {Op: "select", Pos: 2, Root: 1, Members: []uint64{3}}}, "witness"))
	e.Add(syncCase([]SOp{{Op: "reset", Slot: 0}, {Op: "msg", Slot: 0, Root: 1, Val: 3, Sig: 1}, {Op: "select", Pos: 1, Root: 1, Members: []uint64{3}}}, "witness"))
	e.Add(syncCase([]SOp{{Op: "contrib", Slot: ^uint64(0), Root: 1, Subnet: 2, Bits: BL{3}, Sig: 1}, {Op: "contribs", Pos: 1, Root: 1, Subnet: 2}}, "witness"))
	// Select with a member that sent nothing
	e.Add(syncCase([]SOp{{Op: "reset", Slot: 5}, {Op: "reset", Slot: 6}, {Op: "reset", Slot: 7}, {Op: "msg", Slot: 7, Root: 1, Val: 3, Sig: 1}, {Op: "select", Pos: 1, Root: 1, Members: []uint64{3, 4}}}, "witness"))
	// Reset skipping one slot drops the messages of the slot that is now the previous one
	e.Add(syncCase([]SOp{{Op: "reset", Slot: 5}, {Op: "reset", Slot: 6}, {Op: "reset", Slot: 7}, {Op: "msg", Slot: 8, Root: 1, Val: 3, Sig: 1}, {Op: "contrib", Slot: 8, Root: 1, Subnet: 0, Bits: BL{5}, Sig: 2},
		{Op: "reset", Slot: 9}, {Op: "select", Pos: 0, Root: 1, Members: []uint64{3}}, {Op: "contribs", Pos: 0, Root: 1, Subnet: 0}}, "witness"))
	e.Add(syncCase([]SOp{{Op: "reset", Slot: 5}, {Op: "reset", Slot: 6}, {Op: "reset", Slot: 7}, {Op: "msg", Slot: 6, Root: 1, Val: 3, Sig: 1},
		{Op: "reset", Slot: 5}, {Op: "select", Pos: 2, Root: 1, Members: []uint64{3}}}, "witness"))
}

// ---------------------------------------------------------------------------------------------------

func replay(e *Env) error {
	raw, err := os.ReadFile(e.Replay)
	if err != nil {
		return err
	}
	var rp struct {
		FailingCase *struct {
			Case json.RawMessage `json:"case"`
		} `json:"failing_case"`
		More []struct {
			Case json.RawMessage `json:"case"`
		} `json:"more"`
		Correspondence []struct {
			Case json.RawMessage `json:"case"`
		} `json:"correspondence_mismatches"`
	}
	if err := json.Unmarshal(raw, &rp); err != nil {
		return err
	}
	var all []json.RawMessage
	if rp.FailingCase != nil {
		all = append(all, rp.FailingCase.Case)
	}
	for _, m := range rp.More {
		all = append(all, m.Case)
	}
	for _, m := range rp.Correspondence {
		all = append(all, m.Case)
	}
	for _, c := range all {
		var head struct {
			Pool string          `json:"pool"`
			Ops  json.RawMessage `json:"ops"`
		}
		if json.Unmarshal(c, &head) != nil {
			continue
		}
		switch head.Pool {
		case "attestations":
			var ops []AOp
			if err := json.Unmarshal(head.Ops, &ops); err != nil {
				return err
			}
			e.Add(attCase(ops, "replay"))
		case "sync_committee":
			var ops []SOp
			if err := json.Unmarshal(head.Ops, &ops); err != nil {
				return err
			}
			e.Add(syncCase(ops, "replay"))
		case "exits", "proposer_slashings", "attester_slashings":
			var ops []KOp
			if err := json.Unmarshal(head.Ops, &ops); err != nil {
				return err
			}
			e.Add(keyedCase(head.Pool, ops))
		}
	}
	return nil
}

func run(e *Env) error {
	e.Header = "From Coq Require Import NArith List.\nFrom V Require Import Base.Outcome Pool.PoolModel Pool.PoolRun.\nImport ListNotations.\nLocal Open Scope N_scope."
	e.CaseType = "pcase"
	e.ShardSize = 60
	e.ShardBytes = 70000
	e.Rule = "case = one fresh pool + a sequence of add/search/prune/dump (attestations: singles, aggregates, duplicates, sub/supersets, disjoint and overlapping bit lists, " +
		"mismatched committee sizes, malformed bit lists, target epochs around the prune boundary), add/all (exits, proposer and attester slashings: fresh copies, same key, same content), " +
		"msg/contrib/reset/select/contribs (sync pool: slots cur-2..cur+2 with uint64 wrap-around, resets by -3..+3, far, 0, 2^64-1; fresh pool without reset) with Go's result at every step; " +
		"first cases = the defect witnesses of the pinned snapshot. non-trivial = at least two accepted adds and (a refused add for slashings/exits | a query or a panic otherwise); distinct by the whole sequence"
	if e.Replay != "" {
		return replay(e)
	}
	witnesses(e)
	r := e.Rng
	for i := 0; i < e.N(420, 5000); i++ {
		ops, kind := genAtt(r.Fork(), !e.Quick() && i%3 == 0)
		e.Add(attCase(ops, kind))
	}
	for _, which := range []string{"exits", "proposer_slashings", "attester_slashings"} {
		for i := 0; i < e.N(60, 500); i++ {
			e.Add(keyedCase(which, genKeyed(r.Fork(), which)))
		}
	}
	for i := 0; i < e.N(320, 4000); i++ {
		ops, kind := genSync(r.Fork(), !e.Quick() && i%3 == 0)
		e.Add(syncCase(ops, kind))
	}
	return nil
}
