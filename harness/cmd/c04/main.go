// C04 harness: every SSZ type of the registry x {mainnet, minimal, two random custom presets}:
// specification-driven random in-limit values (boundary-biased) and malformed derivations are fed to zrnt's
// struct form and view form; the Coq model (strict SSZ codec at the pinned schema) judges every observation.
package main

import (
	. "verifharness/hx"
	"verifharness/sszgen"
)

func main() { Main("C04", run) }

func run(e *Env) error {
	s, err := sszgen.NewSetup(e, "mismatches_c04")
	if err != nil {
		return err
	}
	e.ShardSize = 400
	e.ShardBytes = 90000
	e.Rule = "for every type of the generated registry (all types carrying the five SSZ methods) x {mainnet, minimal, custom_small, custom_tiny}: values generated from the specification's schema (never from the Go type): all-empty/zero, maximal within the size budget, and random with element counts from {0,1,2,limit-1,limit}, bitlist lengths {0,1,7,8,9,limit-1,limit}, integers {0,1,max,random}, bytes {zero,0xff,random}; each value's canonical bytes are decoded by the Go struct form and the view form, re-encoded, measured (ByteLength, FixedLength), hashed, and round-tripped through JSON and YAML; malformed derivations: truncation at and around every offset boundary, trailing bytes, each offset +1/-1/+4/beyond end/huge/zero, swapped offsets, bitlist without delimiter, boolean byte > 1, bitvector padding bit, limit+1 elements. The model decides which derivations are malformed. non-trivial = non-empty input; distinct by (type, preset, bytes)"
	if done, err := s.ReplayCase(e); err != nil {
		return err
	} else if done {
		return nil
	}
	// the Go zero value of every type under every preset (never touched by a decoder), against the Spec's default value
	if err := s.ZeroCases(e, e.N(6000, 40000)); err != nil {
		return err
	}
	// objects that already hold a value (other preset, longer/shorter, after a failed decode) decode like fresh ones
	if err := s.RecycledCases(e, e.N(500, 2500), e.N(3000, 20000), 1); err != nil {
		return err
	}
	// every list / bitlist / byte-list type at the boundary element counts (32, 256, 512 ... +-1), mainnet limits
	if err := s.BoundaryLengthCases(e, e.N(2100, 9000), e.N(140000, 600000), []uint64{256}); err != nil {
		return err
	}
	return s.CodecCases(e, e.N(600, 3000), e.N(3, 6), e.N(4, 8), true)
}
