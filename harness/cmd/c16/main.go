// C16 correspondence harness: random AddValidator sequences over forked PubkeyCache handles.
//
// The binary has two roles. As the harness proper (started by the driver) it draws one seed per case from
// env.Rng and hands the cases to CHILD PROCESSES (itself, re-executed with --child), because on the pinned
// snapshot AddValidator may recurse without end: the child has a small maximum stack (the runaway recursion
// dies with a fatal, unrecoverable stack overflow) and the parent enforces a wall-clock deadline. A child that
// dies or stalls in the middle of an AddValidator call is reported as GoNoReturn for that call, and the
// remaining cases continue in a fresh child.
//
// The child executes the real zrnt code. After EVERY op it queries EVERY live handle variable for every
// index 0..K-1 (K = number of pubkeys + 3, beyond any possible length + 1) and every pubkey, plus the object
// chain through the verif hook. Ops are generated adaptively from those observed tables (indices near the
// frontier), so no second model of the cache exists on the Go side.
package main

import (
	"bufio"
	"bytes"
	"encoding/json"
	"errors"
	"fmt"
	"io"
	"os"
	"os/exec"
	"runtime/debug"
	"sort"
	"strings"
	"sync"
	"time"
	. "verifharness/hx"

	kbls "github.com/kilic/bls12-381"
	blsu "github.com/protolambda/bls12-381-util"
	"github.com/protolambda/zrnt/eth2/beacon/common"
	"github.com/protolambda/zrnt/eth2/beacon/phase0"
	"github.com/protolambda/zrnt/eth2/configs"
	"github.com/protolambda/ztyp/tree"
)

func main() {
	if len(os.Args) > 1 && os.Args[1] == "--child" {
		childMain()
		return
	}
	Main("C16", runC16)
}

// ---------------------------------------------------------------------------------------------
// shared: case specification and event stream

const maxPubkeys = 8 // cache stream
const totalKeys = 16 // deposit stream: 8 genesis validators + up to 8 depositors

type OpSpec struct {
	V, Dst, I, P int
	Huge         uint64 `json:",omitempty"` // when non-zero: the index of the call is this value (>= 2^62), I is ignored
	Copy         bool `json:",omitempty"` // deposit stream: copy context V (otherwise ProcessDeposit of pubkey P on context V)
}

type CaseSpec struct {
	ID      int      `json:"id"`
	Kind    string   `json:"kind"`
	Seed    uint64   `json:"seed"`
	Init    []int    `json:"init"`     // initial registry (pubkey numbers); empty = EmptyPubkeyCache
	NPub    int      `json:"npub"`     // pubkeys 0..NPub-1 are used
	NOps    int      `json:"nops"`     // number of random ops (when Fixed is empty)
	MaxVars int      `json:"max_vars"` // handle variables
	Fixed   []OpSpec `json:"fixed"`    // fixed op sequence (witnesses, replay)
	Stream  string   `json:"stream"`   // "" = cache stream (AddValidator calls), "deposit" = phase0.ProcessDeposit on state copies
}

type Event struct {
	T     string   `json:"t"` // begin, dump, op, res, end
	ID    int      `json:"id,omitempty"`
	Var   int      `json:"var,omitempty"`
	Pubs  []int    `json:"pubs,omitempty"`  // per index 0..K-1: 0 = not found, p+1 = pubkey number p; -1 = unknown pubkey bytes
	Idxs  []int64  `json:"idxs,omitempty"`  // per pubkey: 0 = not found, i+1
	Shape [][3]int `json:"shape,omitempty"` // (trustedParentCount, len(idx2pub), len(pub2idx)) from handle to root
	Reg   []int    `json:"reg,omitempty"`   // deposit stream: pubkey numbers of the context's own state registry
	Op    *OpSpec  `json:"op,omitempty"`
	Class string   `json:"class,omitempty"`
	Res   string   `json:"res,omitempty"` // same, fresh, err, panic
	Msg   string   `json:"msg,omitempty"`
}

// splitmix64, the same generator as hx.Rng; every case seed is drawn from env.Rng by the parent
type rng struct{ s uint64 }

func (r *rng) u64() uint64 {
	r.s += 0x9e3779b97f4a7c15
	z := r.s
	z = (z ^ (z >> 30)) * 0xbf58476d1ce4e5b9
	z = (z ^ (z >> 27)) * 0x94d049bb133111eb
	return z ^ (z >> 31)
}
func (r *rng) intn(n int) int {
	if n <= 0 {
		return 0
	}
	return int(r.u64() % uint64(n))
}
func (r *rng) chance(p int) bool { return r.intn(100) < p }

// ---------------------------------------------------------------------------------------------
// child: runs the real code

// real BLS pubkeys: SkToPk of the secret keys 1..totalKeys
func deriveKeys() ([]common.BLSPubkey, error) {
	keys := make([]common.BLSPubkey, totalKeys)
	for i := range keys {
		var b [32]byte
		b[31] = byte(i + 1)
		var sk blsu.SecretKey
		if err := sk.Deserialize(&b); err != nil {
			return nil, err
		}
		pk, err := blsu.SkToPk(&sk)
		if err != nil {
			return nil, err
		}
		keys[i] = common.BLSPubkey(pk.Serialize())
		// the cache stores compressed keys and decompresses lazily: make sure each one really is a valid key
		cp := common.CachedPubkey{Compressed: keys[i]}
		if _, err := cp.Pubkey(); err != nil {
			return nil, fmt.Errorf("derived pubkey %d does not deserialize: %v", i, err)
		}
	}
	return keys, nil
}

// minimal validator registry for NewPubkeyCache
type fakeVal struct{ pub common.BLSPubkey }

var errNA = errors.New("not available in the C16 harness")

func (f fakeVal) Pubkey() (common.BLSPubkey, error)                 { return f.pub, nil }
func (f fakeVal) WithdrawalCredentials() (common.Root, error)       { return common.Root{}, errNA }
func (f fakeVal) SetWithdrawalCredentials(common.Root) error        { return errNA }
func (f fakeVal) EffectiveBalance() (common.Gwei, error)            { return 0, errNA }
func (f fakeVal) SetEffectiveBalance(common.Gwei) error             { return errNA }
func (f fakeVal) Slashed() (bool, error)                            { return false, errNA }
func (f fakeVal) MakeSlashed() error                                { return errNA }
func (f fakeVal) ActivationEligibilityEpoch() (common.Epoch, error) { return 0, errNA }
func (f fakeVal) SetActivationEligibilityEpoch(common.Epoch) error  { return errNA }
func (f fakeVal) ActivationEpoch() (common.Epoch, error)            { return 0, errNA }
func (f fakeVal) SetActivationEpoch(common.Epoch) error             { return errNA }
func (f fakeVal) ExitEpoch() (common.Epoch, error)                  { return 0, errNA }
func (f fakeVal) SetExitEpoch(common.Epoch) error                   { return errNA }
func (f fakeVal) WithdrawableEpoch() (common.Epoch, error)          { return 0, errNA }
func (f fakeVal) SetWithdrawableEpoch(common.Epoch) error           { return errNA }
func (f fakeVal) Flatten(*common.FlatValidator) error               { return errNA }

type fakeReg []fakeVal

func (r fakeReg) ValidatorCount() (uint64, error) { return uint64(len(r)), nil }
func (r fakeReg) Validator(i common.ValidatorIndex) (common.Validator, error) {
	if uint64(i) >= uint64(len(r)) {
		return nil, errors.New("out of range")
	}
	return r[i], nil
}
func (r fakeReg) Iter() func() (common.Validator, bool, error) {
	i := 0
	return func() (common.Validator, bool, error) {
		if i >= len(r) {
			return nil, false, nil
		}
		i++
		return r[i-1], true, nil
	}
}
func (r fakeReg) IsValidIndex(i common.ValidatorIndex) (bool, error) {
	return uint64(i) < uint64(len(r)), nil
}
func (r fakeReg) HashTreeRoot(tree.HashFn) common.Root { return common.Root{} }

type table struct {
	pubs  []int
	idxs  []int64
	shape [][3]int
}

func (t *table) length() int { // leading found indices
	n := 0
	for n < len(t.pubs) && t.pubs[n] != 0 {
		n++
	}
	return n
}

type childState struct {
	keys   []common.BLSPubkey
	keyNum map[common.BLSPubkey]int
	out    *bufio.Writer
}

func (c *childState) emit(ev Event) {
	b, _ := json.Marshal(ev)
	c.out.Write(b)
	c.out.WriteByte('\n')
	c.out.Flush()
}

func (c *childState) query(pc *common.PubkeyCache, npub, k int) table {
	var t table
	for i := 0; i < k; i++ {
		pub, ok := pc.Pubkey(common.ValidatorIndex(i))
		v := 0
		if ok {
			if n, known := c.keyNum[pub.Compressed]; known {
				v = n + 1
			} else {
				v = -1
			}
		}
		t.pubs = append(t.pubs, v)
	}
	// indices far beyond any registry must be unknown (and must not crash the lookup): a misbehaving probe is reported in
	// the last table entry (index k-1 is beyond every history of the case) as "a pubkey the harness never inserted"
	for _, h := range []uint64{1 << 63, 1<<63 + uint64(k), 1<<64 - 1, 1 << 62} {
		known := false
		if panicked, pv := Catch(func() { _, known = pc.Pubkey(common.ValidatorIndex(h)) }); panicked || known {
			fmt.Fprintf(os.Stderr, "far-index probe Pubkey(%d): panicked=%v (%v) known=%v\n", h, panicked, pv, known)
			if len(t.pubs) > 0 {
				t.pubs[len(t.pubs)-1] = -1
			}
		}
	}
	for p := 0; p < npub; p++ {
		idx, ok := pc.ValidatorIndex(c.keys[p])
		v := int64(0)
		if ok {
			v = int64(idx) + 1
		}
		t.idxs = append(t.idxs, v)
	}
	for _, l := range common.VerifPubkeyCacheShape(pc, 1000) {
		t.shape = append(t.shape, [3]int{int(l.TrustedParentCount), l.Idx2Pub, l.Pub2Idx})
	}
	return t
}

func classify(t *table, i, p int) string {
	ln := t.length()
	at := 0
	if i < len(t.pubs) {
		at = t.pubs[i]
	}
	where := t.idxs[p] // 0 = unknown, j+1
	switch {
	case at == p+1:
		return "known_pair"
	case where != 0 && int(where-1) < i:
		return "pubkey_registered_earlier"
	case i < ln && where != 0:
		return "conflict_pubkey_registered_later"
	case i < ln:
		return "conflict_new_pubkey"
	case i == ln && where != 0:
		return "next_index_pubkey_registered_later" // impossible (where > i = len), kept for completeness
	case i == ln:
		return "append_next_index"
	case where != 0:
		return "gap_pubkey_registered_later" // impossible as well
	default:
		return "gap_beyond_next_index"
	}
}

func (c *childState) genOp(r *rng, spec *CaseSpec, tabs []table) OpSpec {
	v := r.intn(len(tabs))
	t := &tabs[v]
	ln := t.length()
	var i int
	switch x := r.intn(100); {
	case x < 42:
		i = ln
	case x < 67:
		i = r.intn(ln + 1)
	case x < 82:
		i = ln - 1
	case x < 94:
		i = ln + 1
	default:
		i = ln + 2
	}
	if i < 0 {
		i = 0
	}
	var huge uint64
	if r.chance(4) {
		// far beyond any registry: indices arrive unchecked from the network; they must be refused, never crash
		huge = []uint64{1 << 63, 1<<63 + uint64(ln), 1<<63 + 1, 1<<64 - 1, 1 << 62, 1<<63 - 1}[r.intn(6)]
	}
	nfree := 0
	for q := 0; q < spec.NPub; q++ {
		if t.idxs[q] == 0 {
			nfree++
		}
	}
	if nfree == 0 && ln > 0 && r.chance(75) {
		// every pubkey is on this history already: branch off somewhere below instead of piling up refusals
		i = r.intn(ln)
	}
	var p int
	var free, later, earlier []int
	for q := 0; q < spec.NPub; q++ {
		switch w := t.idxs[q]; {
		case w == 0:
			free = append(free, q)
		case int(w-1) > i:
			later = append(later, q)
		case int(w-1) < i:
			earlier = append(earlier, q)
		}
	}
	pick := func(xs []int) int {
		if len(xs) == 0 {
			return r.intn(spec.NPub)
		}
		return xs[r.intn(len(xs))]
	}
	switch x := r.intn(100); {
	case x < 20 && i < ln && t.pubs[i] > 0:
		p = t.pubs[i] - 1 // the pair already there
	case x < 62:
		p = pick(free) // a pubkey not registered on this history
	case x < 76:
		p = pick(later) // registered at a later index: the add must branch off before it
	case x < 86:
		p = pick(earlier) // registered at an earlier index: would be a second registration
	default:
		p = r.intn(spec.NPub)
	}
	dst := v
	switch x := r.intn(100); {
	case x < 50:
	case x < 85:
		if len(tabs) < spec.MaxVars {
			dst = len(tabs)
		}
	default:
		dst = r.intn(len(tabs))
	}
	return OpSpec{V: v, Dst: dst, I: i, P: p, Huge: huge}
}

func (c *childState) runCase(spec *CaseSpec) {
	if spec.Stream == "deposit" {
		c.runDepositCase(spec)
		return
	}
	c.emit(Event{T: "begin", ID: spec.ID})
	k := spec.NPub + 3
	var root *common.PubkeyCache
	if len(spec.Init) == 0 {
		root = common.EmptyPubkeyCache()
	} else {
		reg := make(fakeReg, len(spec.Init))
		for i, p := range spec.Init {
			reg[i] = fakeVal{pub: c.keys[p]}
		}
		var err error
		root, err = common.NewPubkeyCache(reg)
		if err != nil {
			c.emit(Event{T: "res", Res: "err", Msg: "NewPubkeyCache: " + err.Error()})
			c.emit(Event{T: "end", ID: spec.ID})
			return
		}
	}
	vars := []*common.PubkeyCache{root}
	tabs := []table{c.query(root, spec.NPub, k)}
	c.emit(Event{T: "dump", Var: 0, Pubs: tabs[0].pubs, Idxs: tabs[0].idxs, Shape: tabs[0].shape})
	r := &rng{s: spec.Seed}
	n := spec.NOps
	if len(spec.Fixed) > 0 {
		n = len(spec.Fixed)
	}
	for step := 0; step < n; step++ {
		var op OpSpec
		if len(spec.Fixed) > 0 {
			op = spec.Fixed[step]
			if op.V < 0 || op.V >= len(vars) || op.Dst < 0 || op.Dst > len(vars) || op.P < 0 || op.P >= spec.NPub || op.I < 0 {
				break
			}
		} else {
			op = c.genOp(r, spec, tabs)
		}
		cls := ""
		if op.Huge != 0 {
			cls = "gap_beyond_next_index"
		} else {
			cls = classify(&tabs[op.V], op.I, op.P)
		}
		c.emit(Event{T: "op", Op: &op, Class: cls})
		var res *common.PubkeyCache
		var err error
		panicked, pv := Catch(func() {
			callIdx := common.ValidatorIndex(op.I)
			if op.Huge != 0 {
				callIdx = common.ValidatorIndex(op.Huge)
			}
			res, err = vars[op.V].AddValidator(callIdx, c.keys[op.P])
		})
		switch {
		case panicked:
			c.emit(Event{T: "res", Res: "panic", Msg: fmt.Sprint(pv)})
			c.emit(Event{T: "end", ID: spec.ID})
			return
		case err != nil:
			c.emit(Event{T: "res", Res: "err", Msg: err.Error()})
		default:
			if res == vars[op.V] {
				c.emit(Event{T: "res", Res: "same"})
			} else {
				c.emit(Event{T: "res", Res: "fresh"})
			}
			if op.Dst < len(vars) {
				vars[op.Dst] = res
			} else {
				vars = append(vars, res)
				tabs = append(tabs, table{})
			}
		}
		for v := range vars {
			tabs[v] = c.query(vars[v], spec.NPub, k)
			c.emit(Event{T: "dump", Var: v, Pubs: tabs[v].pubs, Idxs: tabs[v].idxs, Shape: tabs[v].shape})
		}
	}
	c.emit(Event{T: "end", ID: spec.ID})
}

// ---- deposit stream: phase0.ProcessDeposit on copies of a kick-started state ----

const nGenesis = 8

type depCtx struct {
	state common.BeaconState
	epc   *common.EpochsContext
}

func (c *childState) registry(st common.BeaconState) ([]int, error) {
	vals, err := st.Validators()
	if err != nil {
		return nil, err
	}
	n, err := vals.ValidatorCount()
	if err != nil {
		return nil, err
	}
	out := make([]int, 0, n)
	for i := uint64(0); i < n; i++ {
		v, err := vals.Validator(common.ValidatorIndex(i))
		if err != nil {
			return nil, err
		}
		pub, err := v.Pubkey()
		if err != nil {
			return nil, err
		}
		num, ok := c.keyNum[pub]
		if !ok {
			num = 999998
		}
		out = append(out, num)
	}
	return out, nil
}

func (c *childState) dumpCtx(v int, ctx *depCtx, npub, k int) (table, []int) {
	t := c.query(ctx.epc.ValidatorPubkeyCache, npub, k)
	reg, err := c.registry(ctx.state)
	if err != nil {
		reg = []int{999997}
	}
	c.emit(Event{T: "dump", Var: v, Pubs: t.pubs, Idxs: t.idxs, Shape: t.shape, Reg: append([]int{}, reg...)})
	return t, reg
}

func contains(xs []int, x int) bool {
	for _, y := range xs {
		if y == x {
			return true
		}
	}
	return false
}

func (c *childState) genDepositOp(r *rng, spec *CaseSpec, regs [][]int) (OpSpec, string) {
	if len(regs) < spec.MaxVars && r.chance(22) {
		return OpSpec{V: r.intn(len(regs)), Copy: true}, "copy_context"
	}
	v := r.intn(len(regs))
	reg := regs[v]
	n := len(reg)
	var free, sibling []int
	for q := 0; q < spec.NPub; q++ {
		if !contains(reg, q) {
			free = append(free, q)
		}
	}
	siblingHasOther := false
	for d, rd := range regs {
		if d != v && len(rd) > n {
			if !contains(reg, rd[n]) {
				sibling = append(sibling, rd[n])
			}
			siblingHasOther = true
		}
	}
	switch x := r.intn(100); {
	case x < 15 || len(free) == 0:
		return OpSpec{V: v, P: reg[r.intn(n)]}, "top_up_registered_key"
	case x < 45 && len(sibling) > 0:
		return OpSpec{V: v, P: sibling[r.intn(len(sibling))]}, "new_key_same_as_sibling_at_this_index"
	default:
		p := free[r.intn(len(free))]
		class := "new_key_no_sibling_ahead"
		if contains(sibling, p) {
			class = "new_key_same_as_sibling_at_this_index"
		} else if siblingHasOther {
			class = "new_key_differs_from_sibling_at_this_index"
		}
		return OpSpec{V: v, P: p}, class
	}
}

func (c *childState) runDepositCase(spec *CaseSpec) {
	c.emit(Event{T: "begin", ID: spec.ID})
	k := spec.NPub + 3
	fail := func(msg string) {
		c.emit(Event{T: "res", Res: "err", Msg: msg})
		c.emit(Event{T: "end", ID: spec.ID})
	}
	cfg := configs.Minimal
	vals := make([]phase0.KickstartValidatorData, nGenesis)
	for i := range vals {
		vals[i] = phase0.KickstartValidatorData{Pubkey: c.keys[i], WithdrawalCredentials: common.Root{byte(i)}, Balance: cfg.MAX_EFFECTIVE_BALANCE}
	}
	st, epc, err := phase0.KickStartState(cfg, common.Root{0x42}, 1600000000, vals)
	if err != nil {
		fail("KickStartState: " + err.Error())
		return
	}
	// any parseable signature does: ProcessDeposit is called with ignoreSignatureAndProof
	sig := common.BLSSignature((*blsu.Signature)(kbls.NewG2().One()).Serialize())
	ctxs := []*depCtx{{state: st, epc: epc}}
	regs := make([][]int, 1)
	_, regs[0] = c.dumpCtx(0, ctxs[0], spec.NPub, k)
	r := &rng{s: spec.Seed}
	n := spec.NOps
	if len(spec.Fixed) > 0 {
		n = len(spec.Fixed)
	}
	for step := 0; step < n; step++ {
		var op OpSpec
		class := "fixed"
		if len(spec.Fixed) > 0 {
			op = spec.Fixed[step]
			if op.V < 0 || op.V >= len(ctxs) || op.P < 0 || op.P >= spec.NPub {
				break
			}
		} else {
			op, class = c.genDepositOp(r, spec, regs)
		}
		c.emit(Event{T: "op", Op: &op, Class: class})
		ctx := ctxs[op.V]
		if op.Copy {
			st2, err := ctx.state.CopyState()
			if err != nil {
				fail("CopyState: " + err.Error())
				return
			}
			ctxs = append(ctxs, &depCtx{state: st2, epc: ctx.epc.Clone()})
			regs = append(regs, nil)
			c.emit(Event{T: "res", Res: "copied"})
		} else {
			before := len(regs[op.V])
			dep := common.Deposit{Data: common.DepositData{Pubkey: c.keys[op.P], WithdrawalCredentials: common.Root{byte(op.P)}, Amount: cfg.MAX_EFFECTIVE_BALANCE, Signature: sig}}
			var derr error
			panicked, pv := Catch(func() { derr = phase0.ProcessDeposit(cfg, ctx.epc, ctx.state, &dep, true) })
			switch {
			case panicked:
				c.emit(Event{T: "res", Res: "panic", Msg: fmt.Sprint(pv)})
				c.emit(Event{T: "end", ID: spec.ID})
				return
			case derr != nil:
				c.emit(Event{T: "res", Res: "err", Msg: derr.Error()})
			default:
				after, rerr := c.registry(ctx.state)
				if rerr == nil && len(after) > before {
					c.emit(Event{T: "res", Res: "added"})
				} else {
					c.emit(Event{T: "res", Res: "topup"})
				}
			}
		}
		for v := range ctxs {
			_, regs[v] = c.dumpCtx(v, ctxs[v], spec.NPub, k)
		}
	}
	c.emit(Event{T: "end", ID: spec.ID})
}

func childMain() {
	keys, err := deriveKeys()
	if err != nil {
		fmt.Fprintln(os.Stderr, "child:", err)
		os.Exit(4)
	}
	// a runaway recursion must die quickly: fatal "stack overflow", not recoverable, exit status 2
	debug.SetMaxStack(2 << 20)
	c := &childState{keys: keys, keyNum: map[common.BLSPubkey]int{}, out: bufio.NewWriter(os.Stdout)}
	for i, k := range keys {
		c.keyNum[k] = i
	}
	in := bufio.NewReader(os.Stdin)
	for {
		line, err := in.ReadBytes('\n')
		if len(bytes.TrimSpace(line)) > 0 {
			var spec CaseSpec
			if jerr := json.Unmarshal(line, &spec); jerr != nil {
				fmt.Fprintln(os.Stderr, "child: bad spec:", jerr)
				os.Exit(4)
			}
			c.runCase(&spec)
		}
		if err != nil {
			return
		}
	}
}

// ---------------------------------------------------------------------------------------------
// parent: supervises children, assembles cases

type stepRec struct {
	Op    OpSpec         `json:"op"`
	Class string         `json:"class"`
	Go    string         `json:"go"` // same, fresh, err, panic, noreturn
	Msg   string         `json:"msg,omitempty"`
	Dumps map[int]*Event `json:"-"`
}

type caseRec struct {
	Spec   CaseSpec
	Dump0  *Event
	Steps  []stepRec
	Done   bool
	Failed string // child failure unrelated to an op
}

const stallDeadline = 20 * time.Second

// runBatch feeds specs to one child; on a death/stall the current case is closed (NoReturn for the op in flight)
// and the index of the next spec to run is returned.
func runBatch(specs []CaseSpec, recs []*caseRec) (next int, err error) {
	cmd := exec.Command(os.Args[0], "--child")
	stdin, err := cmd.StdinPipe()
	if err != nil {
		return 0, err
	}
	stdout, err := cmd.StdoutPipe()
	if err != nil {
		return 0, err
	}
	var stderr bytes.Buffer
	cmd.Stderr = &stderr
	if err := cmd.Start(); err != nil {
		return 0, err
	}
	go func() {
		w := bufio.NewWriter(stdin)
		enc := json.NewEncoder(w)
		for i := range specs {
			enc.Encode(&specs[i])
		}
		w.Flush()
		stdin.Close()
	}()
	lines := make(chan []byte, 256)
	go func() {
		rd := bufio.NewReaderSize(stdout, 1<<16)
		for {
			line, err := rd.ReadBytes('\n')
			if len(line) > 0 {
				lines <- line
			}
			if err != nil {
				close(lines)
				return
			}
		}
	}()
	cur := -1         // index into specs of the case in progress
	inFlight := false // an op was announced and has no result yet
	finished := 0
	timer := time.NewTimer(stallDeadline)
	defer timer.Stop()
	killed := false
loop:
	for {
		select {
		case line, ok := <-lines:
			if !ok {
				break loop
			}
			if !timer.Stop() {
				select {
				case <-timer.C:
				default:
				}
			}
			timer.Reset(stallDeadline)
			var ev Event
			if jerr := json.Unmarshal(line, &ev); jerr != nil {
				continue
			}
			switch ev.T {
			case "begin":
				cur++
				for cur < len(specs) && specs[cur].ID != ev.ID {
					cur++
				}
				if cur >= len(specs) {
					cmd.Process.Kill()
					cmd.Wait()
					return len(specs), fmt.Errorf("child announced unknown case %d", ev.ID)
				}
			case "dump":
				if cur < 0 {
					continue
				}
				rec := recs[cur]
				e := ev
				if len(rec.Steps) == 0 {
					if ev.Var == 0 && rec.Dump0 == nil {
						rec.Dump0 = &e
					}
				} else {
					rec.Steps[len(rec.Steps)-1].Dumps[ev.Var] = &e
				}
			case "op":
				recs[cur].Steps = append(recs[cur].Steps, stepRec{Op: *ev.Op, Class: ev.Class, Dumps: map[int]*Event{}})
				inFlight = true
			case "res":
				rec := recs[cur]
				if len(rec.Steps) == 0 {
					rec.Failed = ev.Msg
					continue
				}
				rec.Steps[len(rec.Steps)-1].Go = ev.Res
				rec.Steps[len(rec.Steps)-1].Msg = ev.Msg
				inFlight = false
			case "end":
				recs[cur].Done = true
				finished = cur + 1
			}
		case <-timer.C:
			killed = true
			cmd.Process.Kill()
			break loop
		}
	}
	cmd.Process.Kill()
	cmd.Wait()
	if finished >= len(specs) {
		return len(specs), nil
	}
	if cur < 0 || recs[cur].Done {
		// the child died between cases (or before the first one): nothing to attribute it to
		return 0, fmt.Errorf("child failed between cases: %s", firstLine(stderr.String()))
	}
	// the child died or stalled inside case `cur`
	rec := recs[cur]
	why := "child process died: " + firstLine(stderr.String())
	if killed {
		why = fmt.Sprintf("no progress for %s, child killed", stallDeadline)
	}
	if inFlight && len(rec.Steps) > 0 {
		st := &rec.Steps[len(rec.Steps)-1]
		st.Go = "noreturn"
		st.Msg = why
		st.Dumps = map[int]*Event{}
	} else {
		rec.Failed = "child failed outside an AddValidator call: " + why
	}
	rec.Done = true
	return cur + 1, nil
}

func firstLine(s string) string {
	for _, l := range strings.Split(s, "\n") {
		if strings.Contains(l, "fatal error") || strings.Contains(l, "stack") {
			return strings.TrimSpace(l)
		}
	}
	if i := strings.IndexByte(s, '\n'); i >= 0 {
		return strings.TrimSpace(s[:i])
	}
	return strings.TrimSpace(s)
}

func runAll(specs []CaseSpec, workers int) ([]*caseRec, error) {
	recs := make([]*caseRec, len(specs))
	for i := range recs {
		recs[i] = &caseRec{Spec: specs[i]}
	}
	if workers > len(specs) {
		workers = len(specs)
	}
	if workers < 1 {
		workers = 1
	}
	var wg sync.WaitGroup
	errs := make([]error, workers)
	per := (len(specs) + workers - 1) / workers
	for w := 0; w < workers; w++ {
		lo, hi := w*per, (w+1)*per
		if hi > len(specs) {
			hi = len(specs)
		}
		if lo >= hi {
			continue
		}
		wg.Add(1)
		go func(w, lo, hi int) {
			defer wg.Done()
			for lo < hi {
				n, err := runBatch(specs[lo:hi], recs[lo:hi])
				if err != nil {
					errs[w] = err
					return
				}
				lo += n
			}
		}(w, lo, hi)
	}
	wg.Wait()
	for _, e := range errs {
		if e != nil {
			return nil, e
		}
	}
	return recs, nil
}

// ---- Coq syntax ----
func coqInts(xs []int) string {
	s := make([]string, len(xs))
	for i, x := range xs {
		if x < 0 {
			x = 999999 // a pubkey the harness never inserted
		}
		s[i] = fmt.Sprint(x)
	}
	return "[" + strings.Join(s, ";") + "]"
}
func coqInt64s(xs []int64) string {
	s := make([]string, len(xs))
	for i, x := range xs {
		s[i] = fmt.Sprint(x)
	}
	return "[" + strings.Join(s, ";") + "]"
}
func coqDump(ev *Event, dep bool) string {
	sh := make([]string, len(ev.Shape))
	for i, l := range ev.Shape {
		sh[i] = fmt.Sprintf("(%d,%d,%d)", l[0], l[1], l[2])
	}
	if dep {
		return fmt.Sprintf("(%d, DDump %s %s %s [%s])", ev.Var, coqInts(ev.Reg), coqInts(ev.Pubs), coqInt64s(ev.Idxs), strings.Join(sh, ";"))
	}
	return fmt.Sprintf("(%d, Dump %s %s [%s])", ev.Var, coqInts(ev.Pubs), coqInt64s(ev.Idxs), strings.Join(sh, ";"))
}

func goRes(r string) string {
	switch r {
	case "same":
		return "(GoOk true)"
	case "fresh":
		return "(GoOk false)"
	case "err":
		return "GoErr"
	case "panic":
		return "GoPanic"
	case "added", "copied":
		return "(GoOk true)"
	case "topup":
		return "(GoOk false)"
	default:
		return "GoNoReturn"
	}
}

func runC16(e *Env) error {
	e.Header = "From Coq Require Import NArith List.\nFrom V Require Import Base.Outcome Pubkeys.CacheRun.\nImport ListNotations.\nLocal Open Scope N_scope."
	e.CaseType = "ccase"
	e.ShardSize = 40
	e.ShardBytes = 90000
	e.Rule = "a case = one initial cache (EmptyPubkeyCache, or NewPubkeyCache over a duplicate-free registry of 1..4 keys) and up to 40 AddValidator calls over <= 6 handle variables (result stored in the same variable, a new variable, or another one), 4..8 real BLS pubkeys (SkToPk of sk=1..8), index drawn around the receiver's frontier (len-1, len, len+1, len+2, anywhere below), pubkey drawn as the one already at that index / one not on the history / any. After every call every variable is asked Pubkey(i) for all i < npub+3 and ValidatorIndex(p) for all p, and its object chain is read through the hook; the two known witnesses of the pinned snapshot come first. non-trivial = at least one call returned a fresh (forked) handle; distinct by the whole observed sequence. Calls run in a child process (2 MB max stack, 20 s stall deadline): a call that does not return is recorded as GoNoReturn. DEPOSIT STREAM (kinds deposit_*): phase0.KickStartState over the minimal preset with 8 real keys, then up to 30 ops over <= 6 contexts: copy a context (state.CopyState + epc.Clone) or phase0.ProcessDeposit (ignoreSignatureAndProof, parseable G2 signature) of a registered key (top-up), of the key a sibling already added at this index, or of a new key (3..7 extra keys) so that siblings add different keys at the same index and forks fork again; after every op every context is asked all lookups as above and its own state registry is read back; non-trivial = some context ends up on a forked cache handle"
	r := e.Rng

	var specs []CaseSpec
	add := func(s CaseSpec) {
		s.ID = len(specs)
		if s.MaxVars == 0 {
			s.MaxVars = 6
		}
		specs = append(specs, s)
	}
	if e.Replay != "" {
		s, err := replaySpec(e.Replay)
		if err != nil {
			return err
		}
		add(*s)
	} else {
		// the two witnesses of the pinned snapshot, each from a registry-built cache and from an incrementally built one
		add(CaseSpec{Kind: "witness_sibling_leak", Init: []int{0, 1}, NPub: 3, Fixed: []OpSpec{{V: 0, Dst: 1, I: 1, P: 2}, {V: 1, Dst: 1, I: 2, P: 1}, {V: 0, Dst: 0, I: 2, P: 2}}})
		add(CaseSpec{Kind: "witness_sibling_leak", NPub: 3, Fixed: []OpSpec{{V: 0, Dst: 0, I: 0, P: 0}, {V: 0, Dst: 0, I: 1, P: 1}, {V: 0, Dst: 1, I: 1, P: 2}, {V: 0, Dst: 0, I: 2, P: 2}, {V: 1, Dst: 1, I: 2, P: 1}}})
		add(CaseSpec{Kind: "witness_add_diverges", Init: []int{0, 1, 2}, NPub: 3, Fixed: []OpSpec{{V: 0, Dst: 1, I: 1, P: 2}}})
		add(CaseSpec{Kind: "witness_add_diverges", NPub: 3, Fixed: []OpSpec{{V: 0, Dst: 0, I: 0, P: 0}, {V: 0, Dst: 0, I: 1, P: 1}, {V: 0, Dst: 0, I: 2, P: 2}, {V: 0, Dst: 1, I: 1, P: 2}, {V: 1, Dst: 2, I: 0, P: 1}, {V: 2, Dst: 2, I: 1, P: 0}}})
		n := e.N(320, 12000)
		for c := 0; c < n; c++ {
			s := CaseSpec{Kind: "random_empty_init", Seed: r.U64(), NPub: 4 + r.Intn(maxPubkeys-3), NOps: 4 + r.Intn(37), MaxVars: 2 + r.Intn(5)}
			if r.Chance(30) {
				s.Kind = "random_registry_init"
				perm := make([]int, s.NPub)
				for i := range perm {
					perm[i] = i
				}
				for i := len(perm) - 1; i > 0; i-- {
					j := r.Intn(i + 1)
					perm[i], perm[j] = perm[j], perm[i]
				}
				s.Init = perm[:1+r.Intn(4)]
			}
			add(s)
		}
		// deposit stream: phase0.ProcessDeposit on copies of a kick-started state (8 genesis validators = pubkeys 0..7)
		gen := []int{0, 1, 2, 3, 4, 5, 6, 7}
		cp := func(c int) OpSpec { return OpSpec{V: c, Copy: true} }
		dp := func(c, p int) OpSpec { return OpSpec{V: c, P: p} }
		// siblings add different new keys at the same index; same key on two siblings; top-ups; forks of forks
		add(CaseSpec{Kind: "deposit_witness_siblings", Stream: "deposit", Init: gen, NPub: 12, Fixed: []OpSpec{
			cp(0), dp(0, 8), dp(1, 9), dp(1, 8), dp(0, 9), dp(0, 3), dp(1, 9), cp(1), dp(2, 10), dp(1, 11), dp(1, 10), cp(2), dp(3, 11), dp(2, 8), dp(0, 10)}})
		add(CaseSpec{Kind: "deposit_witness_siblings", Stream: "deposit", Init: gen, NPub: 11, Fixed: []OpSpec{
			cp(0), cp(0), dp(1, 8), dp(2, 8), dp(0, 9), dp(2, 10), dp(1, 10), dp(0, 10), dp(0, 8), cp(0), dp(3, 8), dp(3, 7)}})
		nd := e.N(90, 3000)
		for c := 0; c < nd; c++ {
			add(CaseSpec{Kind: "deposit_random", Stream: "deposit", Seed: r.U64(), Init: gen, NPub: nGenesis + 3 + r.Intn(5), NOps: 6 + r.Intn(25), MaxVars: 2 + r.Intn(5)})
		}
	}

	recs, err := runAll(specs, 8)
	if err != nil {
		return err
	}

	classCount := map[string]int{}
	resByClass := map[string]map[string]int{}
	totalOps, maxDepth, maxVars, totalQueries := 0, 0, 0, 0
	depCases, depOps := 0, 0
	depClass := map[string]int{}
	for _, rec := range recs {
		if rec.Failed != "" || rec.Dump0 == nil {
			return fmt.Errorf("case %d (%s): %s", rec.Spec.ID, rec.Spec.Kind, rec.Failed)
		}
		k := rec.Spec.NPub + 3
		dep := rec.Spec.Stream == "deposit"
		dumpKey := func(ev *Event) string { return coqDump(ev, dep) }
		last := map[int]string{0: dumpKey(rec.Dump0)}
		var steps []string
		forks := 0
		if dep {
			depCases++
		}
		var jsteps []interface{}
		for si := range rec.Steps {
			st := &rec.Steps[si]
			if dep {
				depOps++
				depClass[st.Class+" -> "+st.Go]++
			} else {
				totalOps++
				classCount[st.Class]++
				if resByClass[st.Class] == nil {
					resByClass[st.Class] = map[string]int{}
				}
				resByClass[st.Class][st.Go]++
				if st.Go == "fresh" {
					forks++
				}
			}
			vs := make([]int, 0, len(st.Dumps))
			for v := range st.Dumps {
				vs = append(vs, v)
			}
			sort.Ints(vs)
			var obs []string
			tabs := []interface{}{}
			for _, v := range vs {
				d := st.Dumps[v]
				totalQueries += len(d.Pubs) + len(d.Idxs)
				if len(d.Shape) > maxDepth {
					maxDepth = len(d.Shape)
				}
				if dep && len(d.Shape) > 1 {
					forks++ // a context whose cache handle is a forked one
				}
				if v+1 > maxVars {
					maxVars = v + 1
				}
				key := dumpKey(d)
				if last[v] != key {
					last[v] = key
					obs = append(obs, key)
				}
				tab := map[string]interface{}{"var": v, "pubkey_at": d.Pubs, "index_of": d.Idxs, "chain": d.Shape}
				if dep {
					tab["state_registry"] = d.Reg
				}
				tabs = append(tabs, tab)
			}
			var js map[string]interface{}
			if dep {
				steps = append(steps, fmt.Sprintf("DStep %s %d %d %s [%s]", CoqBool(st.Op.Copy), st.Op.V, st.Op.P, goRes(st.Go), strings.Join(obs, ";")))
				if st.Op.Copy {
					js = map[string]interface{}{"copy_context": st.Op.V, "go": st.Go}
				} else {
					js = map[string]interface{}{"ProcessDeposit_on_context": st.Op.V, "pubkey": st.Op.P, "class": st.Class, "go": st.Go}
				}
			} else {
				steps = append(steps, fmt.Sprintf("CStep %d %d %d %d %s [%s]", st.Op.V, st.Op.Dst, opIndex(&st.Op), st.Op.P, goRes(st.Go), strings.Join(obs, ";")))
				js = map[string]interface{}{"AddValidator_on_var": st.Op.V, "store_in_var": st.Op.Dst, "index": opIndex(&st.Op), "pubkey": st.Op.P, "class": st.Class, "go": st.Go}
			}
			if st.Msg != "" {
				js["msg"] = st.Msg
			}
			if len(rec.Steps) <= 16 {
				js["tables_after"] = tabs
			}
			jsteps = append(jsteps, js)
		}
		ctor := "CCase"
		if dep {
			ctor = "DCase"
		}
		coq := fmt.Sprintf("%s %s %d %d [%s]\n    [%s]", ctor, coqInts(rec.Spec.Init), rec.Spec.NPub, k, dumpKey(rec.Dump0), strings.Join(steps, ";\n     "))
		var ops []OpSpec
		for _, st := range rec.Steps {
			ops = append(ops, st.Op)
		}
		kind := rec.Spec.Kind
		e.Add(Case{Coq: coq, Kind: kind, NonTrivial: forks > 0,
			JSON: map[string]interface{}{"kind": kind, "stream": rec.Spec.Stream, "init_registry": rec.Spec.Init, "npub": rec.Spec.NPub, "ops": ops, "steps": jsteps,
				"note": "pubkey n = SkToPk(secret key n+1); tables: pubkey_at[i] = 0 (none) or pubkey number+1, index_of[p] = 0 or index+1, chain = (trustedParentCount, len(idx2pub), len(pub2idx)) from the handle to the root"}})
	}
	e.Extra["x_op_distribution"] = classCount
	e.Extra["x_go_result_by_class"] = resByClass
	e.Extra["x_deposit_stream"] = map[string]interface{}{"cases": depCases, "copies_and_deposits": depOps, "class_and_go_result": depClass}
	e.Extra["x_totals"] = map[string]int{"cases": len(recs), "add_validator_calls": totalOps, "lookups_compared": totalQueries, "max_chain_depth": maxDepth, "max_handle_variables": maxVars}
	return nil
}

func replaySpec(path string) (*CaseSpec, error) {
	b, err := os.ReadFile(path)
	if err != nil {
		return nil, err
	}
	var rp struct {
		FailingCase struct {
			Case struct {
				Kind   string   `json:"kind"`
				Stream string   `json:"stream"`
				Init   []int    `json:"init_registry"`
				NPub   int      `json:"npub"`
				Ops    []OpSpec `json:"ops"`
			} `json:"case"`
		} `json:"failing_case"`
	}
	if err := json.Unmarshal(b, &rp); err != nil {
		return nil, err
	}
	c := rp.FailingCase.Case
	if c.NPub == 0 || len(c.Ops) == 0 {
		return nil, fmt.Errorf("replay file %s holds no operation sequence", path)
	}
	return &CaseSpec{Kind: "replay_" + c.Kind, Stream: c.Stream, Init: c.Init, NPub: c.NPub, Fixed: c.Ops}, nil
}

var _ = io.EOF

func opIndex(op *OpSpec) uint64 {
	if op.Huge != 0 {
		return op.Huge
	}
	return uint64(op.I)
}
