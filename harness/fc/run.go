package fc

import (
	"fmt"

	. "verifharness/hx"
)

// directed histories: one per defect seen in the pinned snapshot (DESIGN section 5), so that every run exercises them
func directed() []struct {
	name string
	ini  Init
	ops  []Op
} {
	ini := func(spe uint64, nilSink bool) Init {
		return Init{Spe: spe, AnchorParent: 0, AnchorRoot: 1, AnchorSlot: 0, FinE: 0, FinR: 1, JustE: 0, JustR: 1, Balances: []uint64{10, 10, 10}, SinkNil: nilSink}
	}
	B := func(p, r, s, je, fe uint64) Op { return Op{K: "Block", A: []uint64{p, r, s, je, fe}} }
	S := func(p, s, je, fe uint64) Op { return Op{K: "Slot", A: []uint64{p, s, je, fe}} }
	A := func(v, r, s uint64) Op { return Op{K: "Att", A: []uint64{v, r, s}} }
	U := func(t, je, jr, fe, fr uint64, bal []uint64, fail int) Op {
		return Op{K: "Update", A: []uint64{t, je, jr, fe, fr}, Bal: bal, Fail: fail}
	}
	Q := func(k string, a ...uint64) Op { return Op{K: k, A: a} }
	SR := func(ar, as uint64, p, s int, pv, sv uint64) Op {
		return Op{K: "Search", A: []uint64{ar, as, pv, sv}, P: p, S: s}
	}
	H := Op{K: "Head"}
	bal := []uint64{10, 10, 10}
	chain := []Op{B(1, 2, 1, 0, 0), B(2, 3, 2, 0, 0), B(3, 4, 3, 0, 0), B(4, 5, 4, 0, 0), B(5, 6, 5, 1, 1)}
	fork := []Op{B(2, 7, 3, 0, 0), B(7, 8, 4, 0, 0)} // forks off block 2
	after := []Op{H, Q("Chain", 5, 4), Q("GetSlot", 2), Q("GetSlot", 7), Q("GetSlot", 5), Q("InSub", 5, 6), Q("InSub", 5, 8), Q("CanonAt", 5, 5, 1),
		Q("Closest", 5, 6), SR(5, 4, 1, 0, 5, 0), A(0, 6, 5), A(1, 6, 5), H, B(6, 9, 6, 1, 1), H, Q("FindHead", 5, 4), Q("Fin"), Q("Just"), Q("Pin")}
	cat := func(xs ...[]Op) []Op {
		var out []Op
		for _, x := range xs {
			out = append(out, x...)
		}
		return out
	}
	return []struct {
		name string
		ini  Init
		ops  []Op
	}{
		{"directed-sibling-leaves", ini(4, false), []Op{B(1, 2, 1, 0, 0), B(1, 3, 1, 0, 0), H, Q("InSub", 2, 3), Q("InSub", 3, 2), Q("InSub", 1, 3), B(1, 4, 2, 0, 0),
			Q("InSub", 2, 4), Q("InSub", 3, 4), SR(1, 0, 1, 0, 1, 0), SR(2, 1, 0, 1, 0, 2)}},
		{"directed-update-advance", ini(4, false), cat(chain, []Op{H, U(5, 1, 5, 0, 1, bal, -1), H, Q("Just"), Q("Fin"), Q("Pin")})},
		{"directed-update-pin-trigger", ini(4, false), cat(chain, []Op{H, U(1, 1, 5, 0, 1, bal, -1), H, Q("Just"), Q("Fin")})},
		{"directed-prune-block-anchor", ini(4, false), cat(chain, fork, []Op{A(0, 6, 5), A(1, 8, 4), H, U(6, 1, 5, 1, 5, bal, -1)}, after)},
		{"directed-prune-late-fork", ini(4, false), cat(chain, []Op{H}, fork, []Op{U(6, 1, 5, 1, 5, bal, -1)}, after)},
		{"directed-prune-nil-sink", ini(4, true), cat(chain, fork, []Op{H, U(6, 1, 5, 1, 5, bal, -1)}, after)},
		{"directed-prune-gap-anchor", ini(4, false), []Op{B(1, 2, 1, 0, 0), B(2, 3, 2, 0, 0), B(2, 7, 3, 0, 0), S(3, 4, 0, 0), B(3, 4, 5, 1, 1), B(4, 5, 6, 1, 1), A(0, 5, 6), H,
			U(5, 1, 3, 1, 3, bal, -1), H, Q("Chain", 3, 4), Q("GetSlot", 3), Q("GetSlot", 2), Q("InSub", 3, 5), Q("CanonAt", 3, 4, 0), Q("CanonAt", 3, 4, 1), Q("CanonAt", 3, 5, 1),
			B(3, 8, 4, 1, 1), B(3, 9, 6, 1, 1), A(1, 9, 6), A(2, 9, 6), H, Q("Fin"), SR(3, 4, 1, 0, 3, 0)}},
		{"directed-prune-sink-fails", ini(4, false), cat(chain, fork, []Op{H, U(6, 1, 5, 1, 5, bal, 2), H, Q("GetSlot", 1), Q("GetSlot", 2), Q("GetSlot", 5), Q("Chain", 5, 4),
			A(0, 6, 5), H, B(6, 9, 6, 1, 1), H, S(9, 8, 1, 1), U(9, 2, 9, 2, 9, bal, -1), H, Q("Chain", 9, 8)})},
		// the sink refuses the 6th node at an empty-slot anchor: (3,2), the node the blocks on root 3 hang off, is gone, (3,3) stays
		{"directed-prune-gap-sink-fails", ini(4, false), []Op{B(1, 2, 1, 0, 0), B(2, 3, 2, 0, 0), B(3, 4, 5, 1, 1), B(4, 5, 6, 1, 1), A(0, 5, 6), A(1, 5, 6), H,
			U(5, 1, 3, 1, 3, bal, 5), H, Q("FindHead", 3, 3), Q("FindHead", 3, 4), Q("GetSlot", 3), Q("GetSlot", 2), Q("Chain", 3, 3), Q("InSub", 3, 5),
			A(2, 4, 5), H, B(5, 6, 7, 1, 1), Q("FindHead", 3, 3), SR(3, 3, 1, 0, 3, 0), Q("Fin"), S(6, 8, 2, 2), B(6, 7, 9, 2, 2),
			U(7, 2, 6, 2, 6, bal, -1), H, Q("Chain", 6, 8), Q("GetSlot", 3), Q("GetSlot", 6)}},
		{"directed-prune-gap-sink-fails-early", ini(4, false), []Op{B(1, 2, 1, 0, 0), B(2, 3, 2, 0, 0), B(3, 4, 5, 1, 1), B(4, 5, 6, 1, 1), A(0, 5, 6), H,
			U(5, 1, 3, 1, 3, bal, 2), H, Q("FindHead", 3, 2), Q("FindHead", 2, 2), Q("GetSlot", 2), Q("GetSlot", 1), Q("Chain", 3, 4), A(1, 5, 6), H}},
		// finalized AND justified checkpoints on empty slots whose roots have their blocks hanging off a lower node (reported against
		// the first 16 repairs): root 2 has its block at slot 1, the epoch-1 start slot 4 is empty; root 3 at 6, epoch-2 start 8 empty
		{"directed-gap-fin", ini(4, false), []Op{B(1, 2, 1, 0, 0), B(2, 3, 6, 0, 0), B(3, 4, 9, 2, 1), A(0, 4, 9), A(1, 4, 9), H,
			U(4, 2, 3, 1, 2, bal, -1), H, Q("Fin"), Q("Just"), Q("Pin"), Q("GetSlot", 1), Q("GetSlot", 2), Q("Chain", 3, 8), Q("FindHead", 2, 4),
			Q("CanonAt", 2, 7, 1), B(4, 5, 10, 2, 1), A(2, 5, 10), H, SR(2, 4, 1, 0, 2, 0)}},
		{"directed-gap-pin", ini(4, false), []Op{B(1, 2, 1, 0, 0), B(2, 3, 6, 0, 0), B(3, 4, 9, 0, 0), A(0, 4, 9), H, Q("SetPin", 2, 3), H,
			Q("FindHead", 2, 4), Q("FindHead", 3, 8), Q("Chain", 2, 3), Q("CanonAt", 2, 5, 0), SR(2, 3, 1, 0, 2, 0), Q("FindHead", 2, 6), B(2, 6, 5, 0, 0), A(1, 6, 5), A(2, 6, 5), H,
			Q("FindHead", 2, 5), Q("FindHead", 2, 4)}},
		{"directed-gap-fin-fork", ini(4, false), []Op{B(1, 2, 1, 0, 0), B(2, 6, 3, 2, 1), B(2, 3, 6, 0, 0), B(3, 4, 9, 2, 1), A(0, 6, 3), A(1, 6, 3), A(2, 4, 9), H,
			Q("FindHead", 2, 4), Q("FindHead", 2, 2), U(4, 2, 3, 1, 2, bal, -1), H, Q("GetSlot", 6), Q("Fin"), Q("Chain", 3, 8), A(0, 4, 9), H}},
		{"directed-gap-fin-sink-fails", ini(4, false), []Op{B(1, 2, 1, 0, 0), B(2, 3, 6, 0, 0), B(3, 4, 9, 2, 1), A(0, 4, 9), A(1, 4, 9), H,
			U(4, 2, 3, 1, 2, bal, 3), H, Q("FindHead", 2, 4), Q("FindHead", 3, 8), Q("FindHead", 2, 3), Q("GetSlot", 2), Q("Fin"), B(4, 5, 10, 2, 1), A(2, 5, 10), H}},
		// a newer justified checkpoint offered together with an OLDER finalized one whose root is the current finalized root (seeded
		// trial C10-r3-2): root 2 at slot 2 is the checkpoint block of epochs 1 and 2; (2, epoch 2) is finalized with a real prune at the
		// empty-slot node (2,8); then justified (3, epoch 3) comes with finalized (2, epoch 1): refused, nothing changes
		{"directed-mixed-older-finalized", ini(4, false), []Op{B(1, 2, 2, 0, 0), B(2, 3, 9, 2, 2), A(0, 3, 9), H, U(3, 2, 2, 2, 2, bal, -1), H, Q("Fin"), Q("Just"),
			B(3, 4, 13, 3, 2), A(1, 4, 13), H, U(4, 3, 3, 1, 2, bal, -1), Q("Fin"), Q("Just"), Q("Pin"), H, Q("GetSlot", 2), Q("Chain", 2, 8),
			U(4, 3, 3, 0, 2, bal, -1), U(4, 3, 3, 1, 1, bal, -1), U(4, 3, 3, 1, 3, bal, -1), Q("Fin"), Q("Just"), H,
			U(4, 1, 2, 3, 3, bal, -1), Q("Fin"), Q("Just"), H, U(4, 3, 3, 2, 2, bal, -1), Q("Fin"), Q("Just"), H}},
		{"directed-nonviable-children", ini(4, false), []Op{B(1, 2, 1, 1, 0), B(2, 3, 2, 2, 0), B(2, 4, 2, 2, 0), A(0, 3, 2), A(1, 3, 2), H, Q("FindHead", 2, 1), S(4, 4, 2, 0), A(0, 4, 4), A(1, 4, 4), A(2, 4, 4),
			U(1, 1, 2, 0, 1, bal, -1), H, Q("FindHead", 2, 1), Q("Chain", 2, 1), Q("FindHead", 4, 2)}},
		{"directed-unknown-vote-target", ini(4, false), cat(chain, []Op{A(0, 2, 1), H, A(0, 6, 4), H, A(1, 3, 2), H, A(2, 3, 2), H, A(0, 6, 5), H, A(0, 6, 9), H, S(6, 9, 0, 0), A(0, 6, 9), H})},
		{"directed-getnode-bound", ini(4, false), cat(chain, []Op{Q("GetNode", 9), Q("GetNode", 10), Q("GetNode", 11), Q("GetNode", 12)})},
	}
}

// Run generates the histories of one check run. mode = "C09" | "C10" | "C11".
func Run(e *Env, mode string) error {
	e.Header = "From Coq Require Import NArith ZArith List.\nFrom V Require Import Base.Outcome Forkchoice.ProtoArray Forkchoice.Step Forkchoice.Run.\nImport ListNotations.\nLocal Open Scope N_scope.\n" +
		"Definition mismatches := mismatches_" + map[string]string{"C09": "c09", "C10": "c10", "C11": "c11"}[mode] + "."
	e.CaseType = "fcase"
	e.ShardBytes = 90000
	e.ShardSize = 40
	e.Rule = "one case = one operation history on a fresh ProtoForkChoice (random block trees with forks, gap slots, late/duplicate blocks, double proposals; votes known/unknown/older/newer; " +
		"changing balances; UpdateJustified ahead/equal/behind/unknown/conflicting at block and gap-slot anchors; SetPin; sinks failing at the k-th call; queries after every step), " +
		"plus one directed history per defect seen in the snapshot. Every call runs under a deadline. non-trivial = the history has at least 3 nodes and one successful query or head; distinct by the full history."
	if e.Replay != "" {
		cj, err := LoadReplay(e.Replay)
		if err != nil {
			return err
		}
		e.Add(Replay(cj))
		return nil
	}
	tot := map[string]int{}
	add := func(c Case, cj CaseJSON) {
		for k, v := range cj.Feat {
			tot[k] += v
		}
		c.NonTrivial = len(cj.Steps) >= 3
		e.Add(c)
	}
	for _, d := range directed() {
		ops := d.ops
		c, cj := RunHistory(d.ini, d.name, false, func(in *inst, step int) (Op, bool) {
			if step >= len(ops) {
				return Op{}, false
			}
			return ops[step], true
		})
		add(c, cj)
	}
	n := e.N(330, 2600)
	for i := 0; i < n; i++ {
		g := NewGen(e.Rng.Fork(), mode, e.Quick())
		c, cj := RunHistory(g.ini, g.family, false, g.Next)
		add(c, cj)
	}
	q := 0
	for _, k := range []string{"FindHead", "Chain", "Closest", "CanonAt", "GetSlot", "InSub", "Search"} {
		q += tot["op_"+k]
	}
	e.Extra["x_query_results"] = q
	e.Extra["x_head_results"] = tot["op_Head"] + tot["op_FindHead"]
	e.Extra["x_update_results"] = tot["op_Update"]
	e.Extra["x_successful_prunes"] = tot["prunes_ok"]
	e.Extra["x_failed_sink_prunes"] = tot["prunes_failed"]
	e.Extra["x_nodes_reported_to_sink"] = tot["prune_calls"]
	e.Extra["x_updates_finalizing_a_gap_slot_node_above_its_roots_first_slot"] = tot["gap_anchor_updates"]
	e.Extra["x_heads_from_a_gap_slot_node_above_its_roots_first_slot"] = tot["gap_start_heads"]
	if tot["gap_anchor_updates"] == 0 || tot["gap_start_heads"] == 0 {
		return fmt.Errorf("generator guard: this run holds no update finalizing an empty-slot node whose root has blocks hanging off a lower node (%d) or no head from such a node (%d)",
			tot["gap_anchor_updates"], tot["gap_start_heads"])
	}
	e.Extra["x_updates_with_newer_justified_and_older_finalized"] = tot["mixed_just_ahead_fin_behind"]
	e.Extra["x_of_which_after_a_prune"] = tot["mixed_just_ahead_fin_behind_after_prune"]
	e.Extra["x_updates_with_newer_finalized_and_older_or_equal_justified"] = tot["mixed_fin_ahead_just_behind"]
	if tot["mixed_just_ahead_fin_behind"] == 0 || tot["mixed_just_ahead_fin_behind_after_prune"] == 0 || tot["mixed_fin_ahead_just_behind"] == 0 {
		return fmt.Errorf("generator guard: this run holds no update mixing a newer justified with an older finalized checkpoint (%d, after a prune %d) or the reverse (%d)",
			tot["mixed_just_ahead_fin_behind"], tot["mixed_just_ahead_fin_behind_after_prune"], tot["mixed_fin_ahead_just_behind"])
	}
	e.Extra["x_calls_that_did_not_return"] = tot["noreturn"]
	e.Extra["x_calls_that_panicked"] = tot["panic"]
	e.Extra["x_operation_counts"] = fmt.Sprint(tot)
	return nil
}
