package fc

import (
	"sort"

	. "verifharness/hx"

	"github.com/protolambda/zrnt/eth2/forkchoice"
	"github.com/protolambda/zrnt/eth2/forkchoice/proto"
)

// Random operation histories. Every choice comes from one Rng; the live instance is only *read* (hook dumps,
// sorted, so that map order does not leak into the choices) to make most calls refer to nodes that exist.

type blk struct{ root, parent, slot uint64 }

type G struct {
	r       *Rng
	ini     Init
	mode    string // "C09" | "C10" | "C11": shifts the operation mix, not the kind of histories
	family  string
	pool    []blk
	tried   map[uint64]int
	nval    int
	maxMut  int
	nmut    int
	queue   []Op
	maxSlot uint64
}

type view struct {
	refs   []forkchoice.NodeRef // known nodes, sorted
	roots  []uint64             // known roots, sorted
	low    map[uint64]uint64
	dump   proto.VerifArrayDump
	w      forkchoice.VerifWrapperDump
	byRef  map[forkchoice.NodeRef]proto.ProtoNode
	offset uint64
}

func look(in *inst) view {
	var v view
	d, _ := proto.VerifDumpArray(in.graph)
	v.dump = d
	v.offset = uint64(d.IndexOffset)
	v.low = map[uint64]uint64{}
	for r, s := range d.BlockSlots {
		v.low[CounterOf(r)] = uint64(s)
		v.roots = append(v.roots, CounterOf(r))
	}
	sort.Slice(v.roots, func(i, j int) bool { return v.roots[i] < v.roots[j] })
	v.byRef = map[forkchoice.NodeRef]proto.ProtoNode{}
	for ref, ix := range d.Indices {
		v.refs = append(v.refs, ref)
		i := uint64(ix) - uint64(d.IndexOffset)
		if uint64(ix) >= uint64(d.IndexOffset) && i < uint64(len(d.Nodes)) {
			v.byRef[ref] = d.Nodes[i]
		}
	}
	sort.Slice(v.refs, func(i, j int) bool {
		a, b := v.refs[i], v.refs[j]
		if a.Slot != b.Slot {
			return a.Slot < b.Slot
		}
		return CounterOf(a.Root) < CounterOf(b.Root)
	})
	if in.fc != nil {
		v.w, _ = forkchoice.VerifDumpWrapper(in.fc)
	}
	return v
}

func NewGen(r *Rng, mode string, quick bool) *G {
	g := &G{r: r, mode: mode, tried: map[uint64]int{}}
	g.family = []string{"tree", "tree", "votes", "votes", "update", "update", "prune", "prune", "prune", "sinkfail", "pin", "ood"}[r.Intn(12)]
	spe := []uint64{4, 4, 2, 2, 3, 3, 4, 8}[r.Intn(8)]
	e0 := []uint64{0, 0, 0, 0, 1, 2, 5}[r.Intn(7)]
	slot := e0 * spe
	if r.Chance(12) {
		slot += uint64(1 + r.Intn(int(spe)))
	}
	g.nval = 2 + r.Intn(5)
	bal := make([]uint64, g.nval)
	eq := r.Chance(40)
	for i := range bal {
		if eq {
			bal[i] = 32
		} else {
			bal[i] = uint64(r.Intn(40))
		}
	}
	if g.family == "ood" && r.Chance(30) {
		bal[0] = []uint64{1 << 62, 1<<63 + 5, ^uint64(0)}[r.Intn(3)]
		if r.Chance(50) && len(bal) > 1 {
			bal[1] = 1 << 62
		}
	}
	ar := uint64(1)
	g.ini = Init{Spe: spe, AnchorParent: []uint64{0, 0, 90, 1}[r.Intn(4)], AnchorRoot: ar, AnchorSlot: slot,
		FinE: e0, FinR: ar, JustE: e0, JustR: ar, Balances: bal, SinkNil: r.Chance(12)}
	if g.family == "ood" {
		switch r.Intn(6) {
		case 0:
			g.ini.FinR = 77 // finalized root the array does not know: every later update must be refused
		case 1:
			g.ini.AnchorRoot, g.ini.FinR, g.ini.JustR = 0, 0, 0 // the zero root as anchor (outside the domain)
			g.ini.AnchorParent = 0
		case 2:
			g.ini.JustE = e0 + 1
		}
	}
	// candidate blocks
	nb := 6 + r.Intn(11)
	type known struct{ root, slot uint64 }
	kn := []known{{g.ini.AnchorRoot, slot}}
	next := uint64(2)
	for i := 0; i < nb; i++ {
		var b blk
		b.root = next
		next++
		if i > 0 && r.Chance(15) {
			// double proposal: same parent and slot as the previous candidate, another root
			p := g.pool[len(g.pool)-1]
			b.parent, b.slot = p.parent, p.slot
		} else {
			var par known
			switch {
			case r.Chance(8):
				par = known{100 + uint64(i), slot + uint64(r.Intn(6))} // parent that is never inserted
			case r.Chance(62):
				par = kn[len(kn)-1]
			default:
				par = kn[r.Intn(len(kn))]
			}
			gap := uint64(0)
			switch {
			case r.Chance(55):
			case r.Chance(50):
				gap = 1
			default:
				gap = 2 + uint64(r.Intn(int(spe)))
			}
			b.parent, b.slot = par.root, par.slot+1+gap
		}
		g.pool = append(g.pool, b)
		if b.parent < 100 {
			kn = append(kn, known{b.root, b.slot})
		}
		if b.slot > g.maxSlot {
			g.maxSlot = b.slot
		}
	}
	if quick {
		g.maxMut = 6 + r.Intn(15)
		if g.family == "prune" || g.family == "sinkfail" {
			g.maxMut = 12 + r.Intn(10)
		}
	} else {
		g.maxMut = 10 + r.Intn(50)
	}
	return g
}

func (g *G) pickRoot(v view) uint64 {
	r := g.r
	switch {
	case len(v.roots) > 0 && r.Chance(80):
		return v.roots[r.Intn(len(v.roots))]
	case r.Chance(50):
		return g.pool[r.Intn(len(g.pool))].root
	case r.Chance(85):
		return 100 + uint64(r.Intn(30))
	}
	return 0
}

func (g *G) pickRef(v view) (uint64, uint64) {
	r := g.r
	switch {
	case len(v.refs) > 0 && r.Chance(72):
		x := v.refs[r.Intn(len(v.refs))]
		return CounterOf(x.Root), uint64(x.Slot)
	case r.Chance(70):
		root := g.pickRoot(v)
		lo := v.low[root]
		return root, lo + uint64(r.Intn(int(g.ini.Spe)*3)) - uint64(r.Intn(2))
	}
	return g.pickRoot(v), uint64(r.Intn(int(g.maxSlot) + 4))
}

func (g *G) epochs(v view, slot uint64) (uint64, uint64) {
	r := g.r
	je, fe := uint64(v.w.Justified.Epoch), uint64(v.w.Finalized.Epoch)
	eb := slot / g.ini.Spe
	sub := func(a, b uint64) uint64 {
		if a < b {
			return 0
		}
		return a - b
	}
	// what the state of a block at this slot would typically carry: the previous epoch(s) justified, one less finalized
	// (never below the epochs the instance started from)
	e0 := g.ini.FinE
	atLeast := func(a uint64) uint64 {
		if a < e0 {
			return e0
		}
		return a
	}
	cur := 30
	if g.family == "prune" || g.family == "sinkfail" || g.family == "update" {
		cur = 12
	}
	switch {
	case r.Chance(cur):
	case r.Chance(70):
		je = atLeast(sub(eb, 1))
		fe = atLeast(sub(je, uint64(r.Intn(2))))
	case r.Chance(60):
		je = atLeast(sub(eb, 1+uint64(r.Intn(2))))
		fe = atLeast(sub(je, 1))
	default:
		je = []uint64{0, 1, 2, je + 1, je + 2}[r.Intn(5)]
		fe = []uint64{0, 1, fe + 1, fe}[r.Intn(4)]
	}
	return je, fe
}

func (g *G) genBlock(v view) Op {
	r := g.r
	var ready, done, waiting []blk
	for _, b := range g.pool {
		_, known := v.low[b.root]
		_, pk := v.low[b.parent]
		switch {
		case known:
			done = append(done, b)
		case pk:
			ready = append(ready, b)
		default:
			waiting = append(waiting, b)
		}
	}
	var b blk
	switch {
	case len(ready) > 0 && r.Chance(78):
		b = ready[r.Intn(min(len(ready), 2))] // mostly in order, so later candidates arrive late
		if r.Chance(25) {
			b = ready[r.Intn(len(ready))]
		}
	case len(done) > 0 && r.Chance(45):
		b = done[r.Intn(len(done))] // duplicate
	case len(waiting) > 0:
		b = waiting[r.Intn(len(waiting))] // parent unknown (yet)
	default:
		b = g.pool[r.Intn(len(g.pool))]
	}
	g.tried[b.root]++
	je, fe := g.epochs(v, b.slot)
	if g.family == "ood" && r.Chance(10) {
		// the same root bound to another parent/slot (impossible for real hashes): outside the domain
		b.slot += 1 + uint64(r.Intn(3))
	}
	return Op{K: "Block", A: []uint64{b.parent, b.root, b.slot, je, fe}}
}

func (g *G) genSlot(v view) Op {
	r := g.r
	root := g.pickRoot(v)
	lo, known := v.low[root]
	spe := g.ini.Spe
	var slot uint64
	switch {
	case known && r.Chance(50):
		slot = (lo/spe + 1 + uint64(r.Intn(2))) * spe // an epoch start above the root's first slot: a checkpoint gap node
	case known && r.Chance(85):
		slot = lo + 1 + uint64(r.Intn(int(spe)+2))
	default:
		slot = lo + uint64(r.Intn(3)) // at or below the lowest known slot (outside the domain), or unknown parent
		if slot > 0 {
			slot--
		}
	}
	if slot > g.maxSlot+40 {
		slot = g.maxSlot + 40 // the gap filling loop of ProcessSlot is linear in the distance
	}
	je, fe := g.epochs(v, slot)
	return Op{K: "Slot", A: []uint64{root, slot, je, fe}}
}

func (g *G) genAtt(v view) Op {
	r := g.r
	val := uint64(r.Intn(g.nval + 1))
	root, slot := g.pickRef(v)
	if r.Chance(45) && len(v.refs) > 0 {
		// prefer recent nodes: later target epochs, so that votes move
		x := v.refs[len(v.refs)-1-r.Intn(min(len(v.refs), 6))]
		root, slot = CounterOf(x.Root), uint64(x.Slot)
	}
	return Op{K: "Att", A: []uint64{val, root, slot}}
}

// transition ancestors of a node (by the dump), nearest first
func (v view) ancestors(ref forkchoice.NodeRef) []forkchoice.NodeRef {
	var out []forkchoice.NodeRef
	n, ok := v.byRef[ref]
	for steps := 0; ok && steps < 1000; steps++ {
		p := uint64(n.TransitionParent)
		if n.TransitionParent == proto.NONE || p < v.offset || p-v.offset >= uint64(len(v.dump.Nodes)) {
			break
		}
		n = v.dump.Nodes[p-v.offset]
		out = append(out, n.Ref)
	}
	return out
}

func (g *G) genUpdate(v view) Op {
	r := g.r
	spe := g.ini.Spe
	curJ, curF := v.w.Justified, v.w.Finalized
	var cps []forkchoice.NodeRef // nodes at epoch starts
	for _, x := range v.refs {
		if uint64(x.Slot)%spe == 0 {
			cps = append(cps, x)
		}
	}
	jE, jR := uint64(curJ.Epoch), CounterOf(curJ.Root)
	fE, fR := uint64(curF.Epoch), CounterOf(curF.Root)
	var jref *forkchoice.NodeRef
	realistic := false
	if len(v.refs) > 0 && r.Chance(55) {
		// what a client does: take a recent node, justify/finalize the checkpoints its state carries, on its own chain
		tip := v.refs[len(v.refs)-1-r.Intn(min(len(v.refs), 5))]
		if r.Chance(60) {
			// the node carrying the most advanced checkpoints
			for _, x := range v.refs {
				a, b := v.byRef[x], v.byRef[tip]
				if a.JustifiedEpoch > b.JustifiedEpoch || (a.JustifiedEpoch == b.JustifiedEpoch && a.FinalizedEpoch > b.FinalizedEpoch) {
					tip = x
				}
			}
		}
		n := v.byRef[tip]
		tj, tf := uint64(n.JustifiedEpoch), uint64(n.FinalizedEpoch)
		var nj, nf *forkchoice.NodeRef
		for _, a := range append([]forkchoice.NodeRef{tip}, v.ancestors(tip)...) {
			a := a
			if nj == nil && uint64(a.Slot) == tj*spe {
				nj = &a
			}
			if nf == nil && uint64(a.Slot) == tf*spe {
				nf = &a
			}
		}
		if nj != nil && nf != nil {
			jE, jR, fE, fR = tj, CounterOf(nj.Root), tf, CounterOf(nf.Root)
			realistic = true
		} else if nj != nil {
			jE, jR = tj, CounterOf(nj.Root)
			realistic = true
		}
	}
	switch {
	case realistic:
	case len(cps) > 0 && r.Chance(70):
		// a known checkpoint node, the later ones preferred (ahead), sometimes equal or behind
		x := cps[len(cps)-1-r.Intn(min(len(cps), 3))]
		if r.Chance(25) {
			x = cps[r.Intn(len(cps))]
		}
		jE, jR = uint64(x.Slot)/spe, CounterOf(x.Root)
		jref = &x
	case r.Chance(30):
		// equal to the current one
	case r.Chance(40):
		jE, jR = jE+1, g.pickRoot(v) // root known or not, start node most likely missing
	case r.Chance(50):
		jE, jR = jE+1+uint64(r.Intn(2)), 100+uint64(r.Intn(20)) // unknown root
	default:
		if jE > 0 {
			jE--
		}
	}
	switch {
	case realistic:
	case r.Chance(35):
		// finalized unchanged
	case jref != nil && r.Chance(75):
		// an epoch-start ancestor of the justified node (or that node itself)
		cand := []forkchoice.NodeRef{*jref}
		for _, a := range v.ancestors(*jref) {
			if uint64(a.Slot)%spe == 0 {
				cand = append(cand, a)
			}
		}
		x := cand[r.Intn(len(cand))]
		fE, fR = uint64(x.Slot)/spe, CounterOf(x.Root)
	case len(cps) > 0 && r.Chance(70):
		x := cps[r.Intn(len(cps))] // anywhere: possibly conflicting with the justified one or outside the finalized subtree
		fE, fR = uint64(x.Slot)/spe, CounterOf(x.Root)
	default:
		fE, fR = fE+1, g.pickRoot(v)
	}
	// mixed pairs: one checkpoint ahead, the other older or equal (by epoch), with roots inside and outside the finalized subtree;
	// an older finalized epoch must be refused whatever its root, leaving everything untouched
	if r.Chance(16) {
		cf, cj := uint64(curF.Epoch), uint64(curJ.Epoch)
		root := func() uint64 {
			switch {
			case r.Chance(45):
				return CounterOf(curF.Root)
			case r.Chance(60) && len(v.roots) > 0:
				return v.roots[r.Intn(len(v.roots))]
			}
			return 100 + uint64(r.Intn(20))
		}
		if r.Chance(65) {
			// justified ahead (a real checkpoint where there is one), finalized behind or equal
			if jE <= cj {
				jE = cj + 1 + uint64(r.Intn(2))
			}
			fE, fR = uint64(r.Intn(int(cf)+1)), root()
		} else {
			// finalized ahead, justified behind or equal
			if fE <= cf {
				fE = cf + 1
			}
			jE, jR = uint64(r.Intn(int(cj)+1)), root()
		}
	}
	trig := jR
	switch {
	case r.Chance(45):
	case r.Chance(60) && len(v.roots) > 0:
		trig = v.roots[r.Intn(len(v.roots))]
	case v.w.Pin != nil && r.Chance(50):
		trig = CounterOf(v.w.Pin.Root)
	default:
		trig = 100 + uint64(r.Intn(20))
	}
	o := Op{K: "Update", A: []uint64{trig, jE, jR, fE, fR}, Fail: -1}
	cur := make([]uint64, len(v.w.Balances))
	for i, b := range v.w.Balances {
		cur[i] = uint64(b)
	}
	switch {
	case r.Chance(45):
		o.Bal = cur
	case r.Chance(88):
		o.Bal = cur
		for k := 0; k < 1+r.Intn(2) && len(o.Bal) > 0; k++ {
			o.Bal[r.Intn(len(o.Bal))] = uint64(r.Intn(40))
		}
		if r.Chance(20) {
			o.Bal = append(o.Bal, uint64(r.Intn(40)))
		} else if r.Chance(15) && len(o.Bal) > 1 {
			o.Bal = o.Bal[:len(o.Bal)-1]
		}
	case r.Chance(70):
		o.BalE = true
	default:
		o.Bal = append(cur, 1<<63+uint64(r.Intn(9))) // outside the domain
	}
	if o.Bal == nil {
		o.Bal = []uint64{}
	}
	if g.family == "sinkfail" && r.Chance(75) || r.Chance(6) {
		o.Fail = r.Intn(4)
		if r.Chance(50) {
			o.Fail = r.Intn(14) // deep into the list: the lowest node of some root is gone, a later one stays
		}
	}
	return o
}

func (g *G) genQuery(v view, kind string) Op {
	r := g.r
	switch kind {
	case "Head", "Pin", "Just", "Fin":
		return Op{K: kind}
	case "FindHead", "Chain":
		a, b := g.pickRef(v)
		return Op{K: kind, A: []uint64{a, b}}
	case "Closest":
		root := g.pickRoot(v)
		lo := v.low[root]
		slot := lo + uint64(r.Intn(int(g.ini.Spe)*3+2))
		if r.Chance(12) && lo > 0 {
			slot = lo - 1
		}
		if r.Chance(10) {
			slot = g.maxSlot + 5 + uint64(r.Intn(40))
		}
		return Op{K: kind, A: []uint64{root, slot}}
	case "CanonAt":
		root := g.pickRoot(v)
		lo := v.low[root]
		slot := lo + uint64(r.Intn(int(g.maxSlot-min64(g.maxSlot, lo))+3))
		if r.Chance(10) && lo > 0 {
			slot = lo - 1
		}
		return Op{K: kind, A: []uint64{root, slot, uint64(r.Intn(2))}}
	case "GetSlot":
		return Op{K: kind, A: []uint64{g.pickRoot(v)}}
	case "InSub":
		return Op{K: kind, A: []uint64{g.pickRoot(v), g.pickRoot(v)}}
	case "Search":
		a, b := g.pickRef(v)
		o := Op{K: kind, A: []uint64{a, b, g.pickRoot(v), 0}}
		_, o.A[3] = g.pickRef(v)
		switch r.Intn(8) {
		case 0:
			// no filter: "heads" search, not part of the property; compared with the Impl model only
		case 1, 2, 3:
			o.P = 1
		case 4, 5, 6:
			o.S = 1
		default:
			o.P, o.S = 1, 1
		}
		return o
	case "GetNode":
		n := uint64(len(v.dump.Nodes))
		return Op{K: kind, A: []uint64{v.offset + n - uint64(r.Intn(2)) + uint64(r.Intn(3))}}
	}
	panic(kind)
}

var queryKinds = []string{"Head", "FindHead", "Chain", "Closest", "CanonAt", "GetSlot", "InSub", "Search", "Pin", "Just", "Fin"}

func (g *G) Next(in *inst, step int) (Op, bool) {
	if len(g.queue) > 0 {
		o := g.queue[0]
		g.queue = g.queue[1:]
		return o, true
	}
	if g.nmut >= g.maxMut {
		return Op{}, false
	}
	g.nmut++
	r := g.r
	v := look(in)
	// weights of the mutating operations by family
	wBlock, wSlot, wAtt, wUpd, wPin := 40, 14, 22, 14, 4
	switch g.family {
	case "tree":
		wBlock, wSlot, wAtt, wUpd = 55, 20, 10, 6
	case "votes":
		wAtt, wBlock = 45, 30
	case "update", "prune", "sinkfail":
		wUpd, wSlot = 24, 18
	case "pin":
		wPin, wUpd = 16, 18
	}
	if len(v.refs) < 4 {
		wBlock += 60
	}
	if (g.family == "prune" || g.family == "sinkfail" || g.family == "update") && g.nmut*2 < g.maxMut {
		// first build a tree that spans a few epochs
		wBlock, wSlot, wAtt, wUpd, wPin = 70, 12, 16, 2, 0
	}
	if g.mode == "C09" {
		wAtt += 25
	}
	tot := wBlock + wSlot + wAtt + wUpd + wPin
	x := r.Intn(tot)
	var o Op
	switch {
	case x < wBlock:
		o = g.genBlock(v)
	case x < wBlock+wSlot:
		o = g.genSlot(v)
	case x < wBlock+wSlot+wAtt:
		o = g.genAtt(v)
	case x < wBlock+wSlot+wAtt+wUpd:
		o = g.genUpdate(v)
	default:
		a, b := g.pickRef(v)
		o = Op{K: "SetPin", A: []uint64{a, b}}
	}
	// queries that follow (chosen now, against the state before the operation: some will refer to pruned nodes)
	nq := 1 + r.Intn(2)
	kinds := queryKinds
	switch g.mode {
	case "C11":
		nq = 2 + r.Intn(2)
	case "C09":
		if r.Chance(85) || o.K == "Att" || o.K == "Update" {
			g.queue = append(g.queue, Op{K: "Head"})
		}
		if r.Chance(50) {
			g.queue = append(g.queue, g.genQuery(v, "FindHead"))
		}
		nq = r.Intn(2)
	case "C10":
		if o.K == "Update" {
			nq = 3 + r.Intn(2)
			g.queue = append(g.queue, Op{K: "Head"})
			// heads from the lowest known node of some roots: where re-attached blocks show
			for k := 0; k < 2 && len(v.roots) > 0; k++ {
				root := v.roots[r.Intn(len(v.roots))]
				g.queue = append(g.queue, Op{K: "FindHead", A: []uint64{root, v.low[root] + uint64(r.Intn(3))}})
			}
		}
	}
	for i := 0; i < nq; i++ {
		k := kinds[r.Intn(len(kinds))]
		if r.Chance(2) {
			k = "GetNode"
		}
		g.queue = append(g.queue, g.genQuery(v, k))
	}
	return o, true
}

func min(a, b int) int {
	if a < b {
		return a
	}
	return b
}
func min64(a, b uint64) uint64 {
	if a < b {
		return a
	}
	return b
}
