// Package fc: shared correspondence harness of the fork-choice properties C09, C10, C11.
// One case = one operation history run on a fresh zrnt ProtoForkChoice, with what Go answered to every
// call and a checksum of the private state (node table, offset, maps, vote trackers, wrapper fields) after it.
package fc

import (
	"context"
	"encoding/binary"
	"encoding/json"
	"errors"
	"fmt"
	"os"
	"sort"
	"strings"
	"time"

	. "verifharness/hx"

	"github.com/protolambda/zrnt/eth2/beacon/common"
	"github.com/protolambda/zrnt/eth2/configs"
	"github.com/protolambda/zrnt/eth2/forkchoice"
	"github.com/protolambda/zrnt/eth2/forkchoice/proto"
)

// ---------- roots: 32 bytes, a counter in the last 8 (big endian, so byte order = numeric order) ----------

func RootOf(c uint64) (r common.Root) {
	binary.BigEndian.PutUint64(r[24:], c)
	return
}
func CounterOf(r common.Root) uint64 {
	for i := 0; i < 24; i++ {
		if r[i] != 0 {
			return 1<<63 + uint64(r[i]) // never produced by the harness; would show as a mismatch
		}
	}
	return binary.BigEndian.Uint64(r[24:])
}

// ---------- operations ----------

type Op struct {
	K    string   `json:"k"`              // kind
	A    []uint64 `json:"a,omitempty"`    // numeric arguments (roots as counters)
	Bal  []uint64 `json:"bal,omitempty"`  // Update: balances returned by the callback
	BalE bool     `json:"bale,omitempty"` // Update: the balances callback fails
	Fail int      `json:"fail"`           // Update: the sink fails at this call (0-based) of this update; -1 = never
	P    int      `json:"p,omitempty"`    // Search: 1 = parent-root filter present
	S    int      `json:"s,omitempty"`    // Search: 1 = slot filter present
}

type Init struct {
	Spe          uint64   `json:"spe"`
	AnchorParent uint64   `json:"anchor_parent"`
	AnchorRoot   uint64   `json:"anchor_root"`
	AnchorSlot   uint64   `json:"anchor_slot"`
	FinE         uint64   `json:"fin_epoch"`
	FinR         uint64   `json:"fin_root"`
	JustE        uint64   `json:"just_epoch"`
	JustR        uint64   `json:"just_root"`
	Balances     []uint64 `json:"balances"`
	SinkNil      bool     `json:"sink_nil"`
}

type SinkCall struct {
	Root  uint64 `json:"root"`
	Slot  uint64 `json:"slot"`
	Canon bool   `json:"canonical"`
}

type StepJSON struct {
	Op   Op          `json:"op"`
	Go   string      `json:"go"`
	Log  []SinkCall  `json:"sink_calls,omitempty"`
	Chk  uint64      `json:"chk"`
	WChk uint64      `json:"wchk"`
	Dump interface{} `json:"dump,omitempty"`
}

type CaseJSON struct {
	Family string     `json:"family"`
	Init   Init       `json:"init"`
	InitGo string     `json:"init_go"`
	Steps  []StepJSON `json:"steps"`
	// features used by the known-finding predicates and the histogram
	Feat map[string]int `json:"feat"`
}

// ---------- one live instance ----------

type inst struct {
	spec     common.Spec
	graph    *proto.ProtoArray
	votes    forkchoice.VoteStore
	fc       forkchoice.Forkchoice
	log      []SinkCall
	failAt   int
	calls    int
	deadline time.Duration
}

var errSink = errors.New("sink refuses")

func (in *inst) sink(ctx context.Context, ref forkchoice.NodeRef, canonical bool) error {
	in.log = append(in.log, SinkCall{CounterOf(ref.Root), uint64(ref.Slot), canonical})
	k := in.calls
	in.calls++
	if in.failAt >= 0 && k == in.failAt {
		return errSink
	}
	return nil
}

// outcome of a guarded call
const (
	rOk = iota
	rErr
	rPanic
	rNoReturn
)

// guarded runs f in its own goroutine under a deadline. f reports err != nil for a Go error.
func (in *inst) guarded(f func() error) int {
	done := make(chan int, 1)
	go func() {
		defer func() {
			if r := recover(); r != nil {
				done <- rPanic
			}
		}()
		if err := f(); err != nil {
			done <- rErr
		} else {
			done <- rOk
		}
	}()
	select {
	case r := <-done:
		return r
	case <-time.After(in.deadline):
		return rNoReturn // the goroutine is leaked on purpose: it holds the mutex for ever
	}
}

func newInst(ini Init) (*inst, int) {
	in := &inst{spec: *configs.Mainnet, failAt: -1, deadline: 120 * time.Millisecond}
	in.spec.SLOTS_PER_EPOCH = common.Slot(ini.Spe)
	var sink proto.NodeSink
	if !ini.SinkNil {
		sink = proto.NodeSinkFn(in.sink)
	}
	bal := make([]forkchoice.Gwei, len(ini.Balances))
	for i, b := range ini.Balances {
		bal[i] = forkchoice.Gwei(b)
	}
	r := in.guarded(func() error {
		in.graph = proto.NewProtoArray(RootOf(ini.AnchorParent), RootOf(ini.AnchorRoot), common.Slot(ini.AnchorSlot),
			common.Epoch(ini.JustE), common.Epoch(ini.FinE), sink)
		in.votes = proto.NewProtoVoteStore(&in.spec)
		fc, err := forkchoice.NewForkChoice(&in.spec,
			forkchoice.Checkpoint{Epoch: common.Epoch(ini.FinE), Root: RootOf(ini.FinR)},
			forkchoice.Checkpoint{Epoch: common.Epoch(ini.JustE), Root: RootOf(ini.JustR)},
			RootOf(ini.AnchorRoot), common.Slot(ini.AnchorSlot), in.graph, in.votes, bal)
		if err != nil {
			return err
		}
		in.fc = fc
		return nil
	})
	return in, r
}

// ---------- state checksum (the same fold is defined in coq/Forkchoice/Run.v) ----------

const mask63 = uint64(1)<<63 - 1

type hsum struct{ h uint64 }

func (s *hsum) add(x uint64) { s.h = (s.h*1000003 + (x & mask63)) & mask63 }

func mix3(a, b, c uint64) uint64 {
	h := uint64(11)
	h = (h*1000003 + (a & mask63)) & mask63
	h = (h*1000003 + (b & mask63)) & mask63
	h = (h*1000003 + (c & mask63)) & mask63
	return h
}

func b2u(b bool) uint64 {
	if b {
		return 1
	}
	return 0
}

type dumpJSON struct {
	Offset     uint64      `json:"offset"`
	JE         uint64      `json:"je"`
	FE         uint64      `json:"fe"`
	Updated    bool        `json:"updated"`
	Nodes      []string    `json:"nodes"`
	Indices    []string    `json:"indices"`
	BlockSlots []string    `json:"block_slots"`
	Votes      []string    `json:"votes"`
	Changed    bool        `json:"changed"`
	Wrapper    interface{} `json:"wrapper"`
}

func idx(i forkchoice.NodeIndex) string {
	if i == proto.NONE {
		return "-"
	}
	return fmt.Sprint(uint64(i))
}

func (in *inst) checksum(withDump bool) (uint64, interface{}) {
	var s hsum
	s.h = 7
	var dj *dumpJSON
	if withDump {
		dj = &dumpJSON{}
	}
	d, ok := proto.VerifDumpArray(in.graph)
	if !ok {
		return 0, nil
	}
	s.add(uint64(d.IndexOffset))
	s.add(uint64(d.JustifiedEpoch))
	s.add(uint64(d.FinalizedEpoch))
	s.add(b2u(d.UpdatedConnections))
	s.add(uint64(len(d.Nodes)))
	for i, n := range d.Nodes {
		s.add(CounterOf(n.Ref.Root))
		s.add(uint64(n.Ref.Slot))
		s.add(uint64(n.TransitionParent))
		s.add(uint64(n.ForkchoiceParent))
		s.add(CounterOf(n.ParentRoot))
		s.add(uint64(n.JustifiedEpoch))
		s.add(uint64(n.FinalizedEpoch))
		s.add(uint64(n.Weight))
		s.add(uint64(n.BestChild))
		s.add(uint64(n.BestDescendant))
		if dj != nil {
			dj.Nodes = append(dj.Nodes, fmt.Sprintf("#%d (r%d,s%d) tp=%s fp=%s parent=r%d je=%d fe=%d w=%d bc=%s bd=%s",
				uint64(d.IndexOffset)+uint64(i), CounterOf(n.Ref.Root), n.Ref.Slot, idx(n.TransitionParent), idx(n.ForkchoiceParent),
				CounterOf(n.ParentRoot), n.JustifiedEpoch, n.FinalizedEpoch, n.Weight, idx(n.BestChild), idx(n.BestDescendant)))
		}
	}
	s.add(uint64(len(d.Indices)))
	acc := uint64(0)
	for k, v := range d.Indices {
		acc = (acc + mix3(CounterOf(k.Root), uint64(k.Slot), uint64(v))) & mask63
		if dj != nil {
			dj.Indices = append(dj.Indices, fmt.Sprintf("(r%d,s%d)->%d", CounterOf(k.Root), k.Slot, v))
		}
	}
	s.add(acc)
	s.add(uint64(len(d.BlockSlots)))
	acc = 0
	for k, v := range d.BlockSlots {
		acc = (acc + mix3(CounterOf(k), uint64(v), 5)) & mask63
		if dj != nil {
			dj.BlockSlots = append(dj.BlockSlots, fmt.Sprintf("r%d->s%d", CounterOf(k), v))
		}
	}
	s.add(acc)
	votes, changed, _ := proto.VerifDumpVotes(in.votes)
	s.add(uint64(len(votes)))
	s.add(b2u(changed))
	for i, v := range votes {
		s.add(CounterOf(v.Current.Root))
		s.add(uint64(v.Current.Slot))
		s.add(CounterOf(v.Next.Root))
		s.add(uint64(v.Next.Slot))
		s.add(uint64(v.CurrentTargetEpoch))
		s.add(uint64(v.NextTargetEpoch))
		if dj != nil {
			dj.Votes = append(dj.Votes, fmt.Sprintf("v%d cur=(r%d,s%d)@%d next=(r%d,s%d)@%d", i, CounterOf(v.Current.Root), v.Current.Slot,
				v.CurrentTargetEpoch, CounterOf(v.Next.Root), v.Next.Slot, v.NextTargetEpoch))
		}
	}
	if in.fc != nil {
		w, _ := forkchoice.VerifDumpWrapper(in.fc)
		s.add(uint64(len(w.Balances)))
		for _, b := range w.Balances {
			s.add(uint64(b))
		}
		if w.Pin == nil {
			s.add(0)
		} else {
			s.add(1)
			s.add(CounterOf(w.Pin.Root))
			s.add(uint64(w.Pin.Slot))
		}
		s.add(uint64(w.Justified.Epoch))
		s.add(CounterOf(w.Justified.Root))
		s.add(uint64(w.Finalized.Epoch))
		s.add(CounterOf(w.Finalized.Root))
		if dj != nil {
			dj.Wrapper = w
		}
	}
	if dj != nil {
		sort.Strings(dj.Indices)
		sort.Strings(dj.BlockSlots)
		dj.Offset, dj.JE, dj.FE, dj.Updated, dj.Changed = uint64(d.IndexOffset), uint64(d.JustifiedEpoch), uint64(d.FinalizedEpoch), d.UpdatedConnections, changed
		return s.h, dj
	}
	return s.h, nil
}

// weightChecksum: order-independent sum over the node table of mix3(root, slot, weight) (Run.v: spec_wchk)
func (in *inst) weightChecksum() uint64 {
	d, ok := proto.VerifDumpArray(in.graph)
	if !ok {
		return 0
	}
	acc := uint64(0)
	for _, n := range d.Nodes {
		acc = (acc + mix3(CounterOf(n.Ref.Root), uint64(n.Ref.Slot), uint64(n.Weight))) & mask63
	}
	return acc
}

// ---------- running one operation ----------

func refCoq(r forkchoice.NodeRef) string {
	return fmt.Sprintf("(%d,%d)", CounterOf(r.Root), uint64(r.Slot))
}
func refsCoq(rs []forkchoice.NodeRef) string {
	var it []string
	for _, r := range rs {
		it = append(it, refCoq(r))
	}
	return CoqList(it)
}

func wrapRes(code int, val string) string {
	switch code {
	case rOk:
		return "(GoOk " + val + ")"
	case rErr:
		return "GoErr"
	case rPanic:
		return "GoPanic"
	}
	return "GoNoReturn"
}

func arg(o Op, i int) uint64 {
	if i < len(o.A) {
		return o.A[i]
	}
	return 0
}

// exec runs op on the instance; returns the Coq text of the observed result (a `gores rv`), the result code.
func (in *inst) exec(o Op) (string, int) {
	fc := in.fc
	val := "RUnit"
	var code int
	switch o.K {
	case "Slot":
		code = in.guarded(func() error {
			fc.ProcessSlot(RootOf(arg(o, 0)), common.Slot(arg(o, 1)), common.Epoch(arg(o, 2)), common.Epoch(arg(o, 3)))
			return nil
		})
	case "Block":
		var ok bool
		code = in.guarded(func() error {
			ok = fc.ProcessBlock(RootOf(arg(o, 0)), RootOf(arg(o, 1)), common.Slot(arg(o, 2)), common.Epoch(arg(o, 3)), common.Epoch(arg(o, 4)))
			return nil
		})
		val = "(RBool " + CoqBool(ok) + ")"
	case "Att":
		var ok bool
		code = in.guarded(func() error {
			ok = fc.ProcessAttestation(common.ValidatorIndex(arg(o, 0)), RootOf(arg(o, 1)), common.Slot(arg(o, 2)))
			return nil
		})
		val = "(RBool " + CoqBool(ok) + ")"
	case "Update":
		in.log = nil
		in.calls = 0
		in.failAt = o.Fail
		bal := make([]forkchoice.Gwei, len(o.Bal))
		for i, b := range o.Bal {
			bal[i] = forkchoice.Gwei(b)
		}
		code = in.guarded(func() error {
			return fc.UpdateJustified(context.Background(), RootOf(arg(o, 0)),
				forkchoice.Checkpoint{Epoch: common.Epoch(arg(o, 1)), Root: RootOf(arg(o, 2))},
				forkchoice.Checkpoint{Epoch: common.Epoch(arg(o, 3)), Root: RootOf(arg(o, 4))},
				func() ([]forkchoice.Gwei, error) {
					if o.BalE {
						return nil, errors.New("no balances")
					}
					return bal, nil
				})
		})
	case "SetPin":
		code = in.guarded(func() error { return fc.SetPin(RootOf(arg(o, 0)), common.Slot(arg(o, 1))) })
	case "Head":
		var r forkchoice.NodeRef
		code = in.guarded(func() (err error) { r, err = fc.Head(); return })
		val = "(RRef " + refCoq(r) + ")"
	case "FindHead":
		var r forkchoice.NodeRef
		code = in.guarded(func() (err error) { r, err = fc.FindHead(RootOf(arg(o, 0)), common.Slot(arg(o, 1))); return })
		val = "(RRef " + refCoq(r) + ")"
	case "Chain":
		var ch []forkchoice.ExtendedNodeRef
		code = in.guarded(func() (err error) { ch, err = fc.CanonicalChain(RootOf(arg(o, 0)), common.Slot(arg(o, 1))); return })
		var it []string
		for _, e := range ch {
			it = append(it, fmt.Sprintf("(%d,%d,%d)", CounterOf(e.Root), uint64(e.Slot), CounterOf(e.ParentRoot)))
		}
		val = "(RChain " + CoqList(it) + ")"
	case "Closest":
		var r forkchoice.NodeRef
		code = in.guarded(func() (err error) { r, err = fc.ClosestToSlot(RootOf(arg(o, 0)), common.Slot(arg(o, 1))); return })
		val = "(RRef " + refCoq(r) + ")"
	case "CanonAt":
		var r forkchoice.NodeRef
		code = in.guarded(func() (err error) {
			r, err = fc.CanonAtSlot(RootOf(arg(o, 0)), common.Slot(arg(o, 1)), arg(o, 2) == 1)
			return
		})
		val = "(RRef " + refCoq(r) + ")"
	case "GetSlot":
		var s common.Slot
		var ok bool
		code = in.guarded(func() error { s, ok = fc.GetSlot(RootOf(arg(o, 0))); return nil })
		if ok {
			val = fmt.Sprintf("(RSlot (Some %d))", uint64(s))
		} else {
			val = "(RSlot None)"
		}
	case "InSub":
		var u, i bool
		code = in.guarded(func() error { u, i = fc.InSubtree(RootOf(arg(o, 0)), RootOf(arg(o, 1))); return nil })
		val = "(RPair " + CoqBool(u) + " " + CoqBool(i) + ")"
	case "Search":
		var non, can []forkchoice.NodeRef
		var pp *common.Root
		var ss *common.Slot
		if o.P == 1 {
			r := RootOf(arg(o, 2))
			pp = &r
		}
		if o.S == 1 {
			s := common.Slot(arg(o, 3))
			ss = &s
		}
		code = in.guarded(func() (err error) {
			non, can, err = fc.Search(forkchoice.NodeRef{Root: RootOf(arg(o, 0)), Slot: common.Slot(arg(o, 1))}, pp, ss)
			return
		})
		val = "(RSearch " + refsCoq(non) + " " + refsCoq(can) + ")"
	case "Pin":
		var p *forkchoice.NodeRef
		code = in.guarded(func() error { p = fc.Pin(); return nil })
		if p == nil {
			val = "(ROptRef None)"
		} else {
			val = "(ROptRef (Some " + refCoq(*p) + "))"
		}
	case "Just":
		var c forkchoice.Checkpoint
		code = in.guarded(func() error { c = fc.Justified(); return nil })
		val = fmt.Sprintf("(RRef (%d,%d))", CounterOf(c.Root), uint64(c.Epoch))
	case "Fin":
		var c forkchoice.Checkpoint
		code = in.guarded(func() error { c = fc.Finalized(); return nil })
		val = fmt.Sprintf("(RRef (%d,%d))", CounterOf(c.Root), uint64(c.Epoch))
	case "GetNode":
		var ok bool
		code = in.guarded(func() error { ok = proto.VerifGetNode(in.graph, forkchoice.NodeIndex(arg(o, 0))); return nil })
		val = "(RBool " + CoqBool(ok) + ")"
	default:
		panic("unknown op " + o.K)
	}
	return wrapRes(code, val), code
}

func optN(present int, v uint64) string {
	if present == 1 {
		return fmt.Sprintf("(Some %d)", v)
	}
	return "None"
}

func ns(xs []uint64) string {
	it := make([]string, len(xs))
	for i, x := range xs {
		it[i] = fmt.Sprint(x)
	}
	return CoqList(it)
}

func (o Op) Coq() string {
	a := func(i int) uint64 { return arg(o, i) }
	switch o.K {
	case "Slot":
		return fmt.Sprintf("OSlot %d %d %d %d", a(0), a(1), a(2), a(3))
	case "Block":
		return fmt.Sprintf("OBlock %d %d %d %d %d", a(0), a(1), a(2), a(3), a(4))
	case "Att":
		return fmt.Sprintf("OAtt %d %d %d", a(0), a(1), a(2))
	case "Update":
		bal := "None"
		if !o.BalE {
			bal = "(Some " + ns(o.Bal) + ")"
		}
		f := "None"
		if o.Fail >= 0 {
			f = fmt.Sprintf("(Some %d)", o.Fail)
		}
		return fmt.Sprintf("OUpdate %d (%d,%d) (%d,%d) %s %s", a(0), a(1), a(2), a(3), a(4), bal, f)
	case "SetPin":
		return fmt.Sprintf("OSetPin %d %d", a(0), a(1))
	case "Head":
		return "OHead"
	case "FindHead":
		return fmt.Sprintf("OFindHead %d %d", a(0), a(1))
	case "Chain":
		return fmt.Sprintf("OChain %d %d", a(0), a(1))
	case "Closest":
		return fmt.Sprintf("OClosest %d %d", a(0), a(1))
	case "CanonAt":
		return fmt.Sprintf("OCanonAt %d %d %s", a(0), a(1), CoqBool(a(2) == 1))
	case "GetSlot":
		return fmt.Sprintf("OGetSlot %d", a(0))
	case "InSub":
		return fmt.Sprintf("OInSub %d %d", a(0), a(1))
	case "Search":
		return fmt.Sprintf("OSearch %d %d %s %s", a(0), a(1), optN(o.P, a(2)), optN(o.S, a(3)))
	case "Pin":
		return "OPin"
	case "Just":
		return "OJust"
	case "Fin":
		return "OFin"
	case "GetNode":
		return fmt.Sprintf("OGetNode %d", a(0))
	}
	panic("unknown op " + o.K)
}

func (ini Init) Coq() string {
	return fmt.Sprintf("(mkInit %d %d %d %d (%d,%d) (%d,%d) %s %s)", ini.Spe, ini.AnchorParent, ini.AnchorRoot, ini.AnchorSlot,
		ini.FinE, ini.FinR, ini.JustE, ini.JustR, ns(ini.Balances), CoqBool(ini.SinkNil))
}

// RunHistory executes the operations produced by next() on a fresh instance.
// next sees the live instance (read-only hook views) to choose mostly-valid arguments; it returns false to stop.
func RunHistory(ini Init, family string, withDump bool, next func(in *inst, step int) (Op, bool)) (Case, CaseJSON) {
	cj := CaseJSON{Family: family, Init: ini, Feat: map[string]int{}}
	in, code := newInst(ini)
	cj.InitGo = wrapRes(code, "RUnit")
	var steps []string
	if code == rOk {
		for i := 0; ; i++ {
			op, ok := next(in, i)
			if !ok {
				break
			}
			switch op.K {
			case "Update":
				if in.gapStart(arg(op, 4), arg(op, 3)*ini.Spe, true) {
					cj.Feat["gap_anchor_updates"]++
				}
				if w, ok := forkchoice.VerifDumpWrapper(in.fc); ok {
					jE, fE := arg(op, 1), arg(op, 3)
					if jE > uint64(w.Justified.Epoch) && fE < uint64(w.Finalized.Epoch) {
						cj.Feat["mixed_just_ahead_fin_behind"]++
						if d, ok := proto.VerifDumpArray(in.graph); ok && d.IndexOffset > 0 {
							cj.Feat["mixed_just_ahead_fin_behind_after_prune"]++
						}
					}
					if jE <= uint64(w.Justified.Epoch) && fE > uint64(w.Finalized.Epoch) {
						cj.Feat["mixed_fin_ahead_just_behind"]++
					}
				}
			case "FindHead":
				if in.gapStart(arg(op, 0), arg(op, 1), false) {
					cj.Feat["gap_start_heads"]++
				}
			case "Head":
				if w, ok := forkchoice.VerifDumpWrapper(in.fc); ok {
					if w.Pin != nil {
						if in.gapStart(CounterOf(w.Pin.Root), uint64(w.Pin.Slot), false) {
							cj.Feat["gap_start_heads"]++
						}
					} else if in.gapStart(CounterOf(w.Justified.Root), uint64(w.Justified.Epoch)*ini.Spe, false) {
						cj.Feat["gap_start_heads"]++
					}
				}
			}
			res, c := in.exec(op)
			var log []SinkCall
			if op.K == "Update" {
				log = append(log, in.log...)
			}
			chk, wchk, dump := uint64(0), uint64(0), interface{}(nil)
			if c == rOk || c == rErr {
				chk, dump = in.checksum(withDump)
				wchk = in.weightChecksum()
			}
			var lg []string
			for _, l := range log {
				lg = append(lg, fmt.Sprintf("(%d,%d,%s)", l.Root, l.Slot, CoqBool(l.Canon)))
			}
			steps = append(steps, fmt.Sprintf("(%s, %s, %s, %d, %d)", op.Coq(), res, CoqList(lg), chk, wchk))
			cj.Steps = append(cj.Steps, StepJSON{Op: op, Go: res, Log: log, Chk: chk, WChk: wchk, Dump: dump})
			cj.Feat["op_"+op.K]++
			switch c {
			case rErr:
				cj.Feat["err_"+op.K]++
			case rPanic:
				cj.Feat["panic"]++
			case rNoReturn:
				cj.Feat["noreturn"]++
			}
			if op.K == "Update" && (c == rOk || c == rErr) {
				// shape of the known finding `prune_keeps_late_fork`: after finalization moved, the array still holds a node
				// that does not descend from its first node (it was inserted after the new anchor, on another branch)
				if n := in.strayNodes(); n > 0 && cj.Feat["late_fork_step"] == 0 {
					cj.Feat["late_fork_step"] = i + 1
					cj.Feat["late_fork_nodes"] = n
				}
			}
			if op.K == "Update" && len(log) > 0 {
				cj.Feat["prune_calls"] += len(log)
				if c == rOk {
					cj.Feat["prunes_ok"]++
				} else {
					cj.Feat["prunes_failed"]++
				}
			}
			if c == rPanic || c == rNoReturn {
				break // the instance is unusable (half-updated, or its mutex is held for ever): the history ends here
			}
		}
	}
	coq := fmt.Sprintf("mkCase %s %s [\n    %s]", ini.Coq(), cj.InitGo, strings.Join(steps, ";\n    "))
	return Case{Coq: coq, Kind: family, JSON: cj}, cj
}

// gapStart: (root, slot) is a known empty-slot node above the first slot known for its root, and (needBlocks) some block built on that
// root after that slot hangs off the root's first node: the shape of fixes/C10-gap-anchor-prune-head.diff
func (in *inst) gapStart(root, slot uint64, needBlocks bool) bool {
	d, ok := proto.VerifDumpArray(in.graph)
	if !ok {
		return false
	}
	low, known := d.BlockSlots[RootOf(root)]
	if !known || uint64(low) >= slot {
		return false
	}
	if _, ok := d.Indices[forkchoice.NodeRef{Root: RootOf(root), Slot: common.Slot(slot)}]; !ok {
		return false
	}
	for _, n := range d.Nodes {
		if n.ParentRoot == RootOf(root) && n.Ref.Root != RootOf(root) && uint64(n.Ref.Slot) > slot {
			return true
		}
	}
	return !needBlocks
}

// strayNodes counts the nodes of the array that do not reach its first node along transition parents,
// once the array has been pruned at least once (offset > 0).
func (in *inst) strayNodes() int {
	d, ok := proto.VerifDumpArray(in.graph)
	if !ok || d.IndexOffset == 0 || len(d.Nodes) == 0 {
		return 0
	}
	off := uint64(d.IndexOffset)
	reach := make([]bool, len(d.Nodes))
	reach[0] = true
	n := 0
	for i := 1; i < len(d.Nodes); i++ {
		tp := uint64(d.Nodes[i].TransitionParent)
		if d.Nodes[i].TransitionParent != proto.NONE && tp >= off && tp-off < uint64(i) {
			reach[i] = reach[tp-off]
		}
		if !reach[i] {
			n++
		}
	}
	return n
}

// ---------- replay ----------

type replayFile struct {
	FailingCase struct {
		Case CaseJSON `json:"case"`
	} `json:"failing_case"`
}

func LoadReplay(path string) (*CaseJSON, error) {
	b, err := os.ReadFile(path)
	if err != nil {
		return nil, err
	}
	var rf replayFile
	if err := json.Unmarshal(b, &rf); err != nil {
		return nil, err
	}
	if len(rf.FailingCase.Case.Steps) == 0 && rf.FailingCase.Case.Init.Spe == 0 {
		// also accept a bare case
		var cj CaseJSON
		if err := json.Unmarshal(b, &cj); err != nil || cj.Init.Spe == 0 {
			return nil, fmt.Errorf("replay file holds no fork-choice history")
		}
		return &cj, nil
	}
	return &rf.FailingCase.Case, nil
}

func Replay(cj *CaseJSON) Case {
	ops := make([]Op, len(cj.Steps))
	for i, s := range cj.Steps {
		ops[i] = s.Op
	}
	c, _ := RunHistory(cj.Init, cj.Family, true, func(in *inst, step int) (Op, bool) {
		if step >= len(ops) {
			return Op{}, false
		}
		return ops[step], true
	})
	c.NonTrivial = true
	return c
}
