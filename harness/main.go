// Correspondence harness: runs the real zrnt code (module replaced by /repo's working tree)
// on generated inputs and writes the inputs together with the observed results as Coq case
// files, which the Coq models then evaluate (see /verif/lib/verif.py).
package main

import (
	"fmt"
	"os"
	"strconv"
)

type propFn func(env *Env) error

var props = map[string]propFn{}

func main() {
	if len(os.Args) < 3 {
		fmt.Fprintln(os.Stderr, "usage: harness <property> <outdir> [replay.json]")
		os.Exit(2)
	}
	fn, ok := props[os.Args[1]]
	if !ok {
		fmt.Fprintln(os.Stderr, "unknown property", os.Args[1])
		os.Exit(2)
	}
	seed := uint64(1)
	if s := os.Getenv("VERIF_SEED"); s != "" {
		if v, err := strconv.ParseInt(s, 10, 64); err == nil {
			seed = uint64(v)
		}
	}
	tier := os.Getenv("VERIF_TIER")
	if tier == "" {
		tier = "quick"
	}
	env := NewEnv(os.Args[1], os.Args[2], seed, tier)
	if len(os.Args) > 3 {
		env.Replay = os.Args[3]
	}
	if err := fn(env); err != nil {
		fmt.Fprintln(os.Stderr, "harness error:", err)
		os.Exit(3)
	}
	if err := env.Finish(); err != nil {
		fmt.Fprintln(os.Stderr, "harness error:", err)
		os.Exit(3)
	}
}
