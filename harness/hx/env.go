// Package hx: shared plumbing of the correspondence harnesses (PRNG, case files, Coq syntax).
package hx

import (
	"encoding/json"
	"fmt"
	"os"
	"path/filepath"
	"sort"
	"strconv"
	"strings"
)

// Main is the entry point of every harness binary: harness_<prop> <outdir> [replay.json]
// Environment: VERIF_SEED (int), VERIF_TIER (quick|thorough).
func Main(prop string, fn func(env *Env) error) {
	if len(os.Args) < 2 {
		fmt.Fprintln(os.Stderr, "usage: harness <outdir> [replay.json]")
		os.Exit(2)
	}
	seed := uint64(1)
	if s := os.Getenv("VERIF_SEED"); s != "" {
		if v, err := strconv.ParseInt(s, 10, 64); err == nil {
			seed = uint64(v)
		}
	}
	tier := os.Getenv("VERIF_TIER")
	if tier == "" {
		tier = "quick"
	}
	env := NewEnv(prop, os.Args[1], seed, tier)
	if len(os.Args) > 2 {
		env.Replay = os.Args[2]
	}
	if err := fn(env); err != nil {
		fmt.Fprintln(os.Stderr, "harness error:", err)
		os.Exit(3)
	}
	if err := env.Finish(); err != nil {
		fmt.Fprintln(os.Stderr, "harness error:", err)
		os.Exit(3)
	}
}

// Rng: splitmix64; every random choice of a run derives from VERIF_SEED.
type Rng struct{ s uint64 }

func (r *Rng) U64() uint64 {
	r.s += 0x9e3779b97f4a7c15
	z := r.s
	z = (z ^ (z >> 30)) * 0xbf58476d1ce4e5b9
	z = (z ^ (z >> 27)) * 0x94d049bb133111eb
	return z ^ (z >> 31)
}
func (r *Rng) Intn(n int) int {
	if n <= 0 {
		return 0
	}
	return int(r.U64() % uint64(n))
}
func (r *Rng) Bool() bool        { return r.U64()&1 == 1 }
func (r *Rng) Chance(p int) bool { return r.Intn(100) < p } // p percent
func (r *Rng) Bytes(n int) []byte {
	out := make([]byte, n)
	for i := range out {
		out[i] = byte(r.U64())
	}
	return out
}
func (r *Rng) Fork() *Rng { return &Rng{s: r.U64()} }

// Case: one input with what Go did on it.
type Case struct {
	Coq        string      // Coq term of the property's case type
	Kind       string      // class for the histogram
	Key        string      // identity for distinct counting; "" = use Coq term
	NonTrivial bool        // non-trivial by the property's rule
	JSON       interface{} // human/replay form
}

type Env struct {
	Prop, Out  string
	Seed       uint64
	Tier       string
	Replay     string
	Rng        *Rng
	Header     string // Coq header: Require lines
	CaseType   string // Coq type of a case
	ShardSize  int
	ShardBytes int
	cases      []Case
	Extra      map[string]interface{} // additional summary keys
	Rule       string
}

func NewEnv(prop, out string, seed uint64, tier string) *Env {
	os.MkdirAll(out, 0o755)
	return &Env{Prop: prop, Out: out, Seed: seed, Tier: tier, Rng: &Rng{s: seed*0x2545F4914F6CDD1D + 0x1234567}, ShardSize: 500, ShardBytes: 60000, Extra: map[string]interface{}{}}
}

func (e *Env) Quick() bool { return e.Tier != "thorough" }
func (e *Env) Add(c Case)  { e.cases = append(e.cases, c) }

// Pick n for the tier.
func (e *Env) N(quick, thorough int) int {
	if e.Quick() {
		return quick
	}
	return thorough
}

func (e *Env) Finish() error {
	// shards
	nsh := 0
	var shardStart []int
	for start := 0; start < len(e.cases) || (start == 0 && nsh == 0); {
		end := start
		bytes := 0
		for end < len(e.cases) && end-start < e.ShardSize && (bytes < e.ShardBytes || end == start) {
			bytes += len(e.cases[end].Coq)
			end++
		}
		shardStart = append(shardStart, start)
		var sb strings.Builder
		sb.WriteString(e.Header)
		sb.WriteString("\nDefinition cases : list " + e.CaseType + " := [\n")
		for i := start; i < end; i++ {
			if i > start {
				sb.WriteString(";\n")
			}
			sb.WriteString("  " + e.cases[i].Coq)
		}
		sb.WriteString("\n].\nDefinition M := Eval vm_compute in mismatches cases.\nPrint M.\n")
		if err := os.WriteFile(filepath.Join(e.Out, fmt.Sprintf("cases_%d.v", nsh)), []byte(sb.String()), 0o644); err != nil {
			return err
		}
		nsh++
		if len(e.cases) == 0 {
			break
		}
		start = end
	}
	// jsonl of cases (index = shard*ShardSize + local index)
	f, err := os.Create(filepath.Join(e.Out, "cases.jsonl"))
	if err != nil {
		return err
	}
	enc := json.NewEncoder(f)
	hist := map[string]int{}
	distinct := map[string]bool{}
	var samples []interface{}
	sampled := map[string]int{}
	for i, c := range e.cases {
		enc.Encode(map[string]interface{}{"i": i, "kind": c.Kind, "case": c.JSON, "coq": c.Coq})
		hist[c.Kind]++
		if c.NonTrivial {
			k := c.Key
			if k == "" {
				k = c.Coq
			}
			distinct[c.Kind+"|"+k] = true
		}
		if sampled[c.Kind] < 2 && len(samples) < 40 {
			sampled[c.Kind]++
			samples = append(samples, map[string]interface{}{"kind": c.Kind, "case": c.JSON})
		}
	}
	f.Close()
	kinds := make([]string, 0, len(hist))
	for k := range hist {
		kinds = append(kinds, k)
	}
	sort.Strings(kinds)
	sum := map[string]interface{}{
		"property": e.Prop, "seed": e.Seed, "tier": e.Tier, "shards": nsh, "shard_start": shardStart,
		"evaluations": len(e.cases), "distinct_nontrivial": len(distinct), "histogram": hist,
		"samples": samples, "rule": e.Rule,
	}
	for k, v := range e.Extra {
		sum[k] = v
	}
	b, _ := json.MarshalIndent(sum, "", " ")
	return os.WriteFile(filepath.Join(e.Out, "summary.json"), b, 0o644)
}

// ---- Coq syntax helpers ----
func CoqN(v uint64) string { return fmt.Sprintf("%d", v) }
func CoqBool(b bool) string {
	if b {
		return "true"
	}
	return "false"
}
func CoqBytes(b []byte) string {
	var sb strings.Builder
	sb.WriteString("[")
	for i, x := range b {
		if i > 0 {
			sb.WriteString(";")
		}
		fmt.Fprintf(&sb, "%d", x)
	}
	sb.WriteString("]")
	return sb.String()
}
func CoqList(items []string) string { return "[" + strings.Join(items, "; ") + "]" }
func CoqOptN(v uint64, ok bool) string {
	if ok {
		return fmt.Sprintf("(Some %d)", v)
	}
	return "None"
}

// GoRes of a uint64-valued call: GoOk v / GoErr / GoPanic
func CoqGoResN(v uint64, err error, panicked bool) string {
	if panicked {
		return "GoPanic"
	}
	if err != nil {
		return "GoErr"
	}
	return fmt.Sprintf("(GoOk %d)", v)
}

// Run f, reporting whether it panicked.
func Catch(f func()) (panicked bool, val interface{}) {
	defer func() {
		if r := recover(); r != nil {
			panicked = true
			val = r
		}
	}()
	f()
	return false, nil
}

// NewRng: a generator with an explicit seed (added for the C17 harness, whose child processes and goroutines each need
// their own deterministic stream).
func NewRng(seed uint64) *Rng { return &Rng{s: seed*0x2545F4914F6CDD1D + 0x7654321} }
