(* C10 — Justification/finalization updates terminate, prune exactly, and keep the head.
   Statements only; proofs in Forkchoice/{ArrayProofs,UpdateProofs,GhostProofs,Refuted}.v. *)
From Coq Require Import NArith ZArith List Bool.
From V Require Import Base.U64 Base.Outcome Forkchoice.ProtoArray Forkchoice.VoteStore Forkchoice.Wrapper Forkchoice.TreeSpec
     Forkchoice.GhostSpec Forkchoice.Step Forkchoice.ArrayProofs Forkchoice.UpdateProofs Forkchoice.GhostProofs Forkchoice.Refuted.
Import ListNotations.
Local Open Scope N_scope.

(* The full property: over every history in the domain, every update/pin call, every sink call, and every call after finalization
   moved, of the Impl is what the Spec says (Step.spec_update: older-or-equal pairs are no-ops, pairs outside the finalized or
   pinned subtree are refused, a moved finalization drops exactly the non-descendants, each reported once with the canonical flag). *)
Definition C10_full : Prop := forall i ops, refines sel_c10 true i ops = true.
Definition C10_update_refines : Prop := forall i ops, refines sel_c10 false i ops = true.
   (* with the hypothesis excluding the known finding prune_keeps_late_fork. NOT proved in full. Proved for all histories /
      states / sinks: update_returns (blocking half), update_older_noop, update_outside_refused (finalized side),
      prune_reports_once (what is dropped = what the sink acknowledged, a prefix of the table, each once, in order), and at the
      level of the Spec: prune_exact, head_in_finalized_subtree. Not proved: "never Panic" (index invariants of the array
      across ApplyScoreChanges and OnPrune), retained_queries_unchanged, canonical flags; these are checked on every run. *)

(* update_returns, blocking half, for ALL histories: starting from the constructor, no call of any history waits on the mutex *)
Theorem C10_never_blocks : forall ops w, w_locked w = false ->
  Forall (fun r => fst r <> Blocked) (impl_run fixed w ops).
Proof. exact run_never_blocks. Qed.
Print Assumptions C10_never_blocks.
Theorem C10_constructor_lock_free : forall i u, snd (impl_init fixed i) = Ok u -> w_locked (fst (impl_init fixed i)) = false.
Proof. exact init_free. Qed.
Print Assumptions C10_constructor_lock_free.
(* every single exported call, on a free lock, with any arguments and any sink: does not block, and frees the lock when it returns *)
Theorem C10_step_returns_free : forall o w, w_locked w = false ->
  snd (impl_step fixed o w) <> Blocked /\ (snd (impl_step fixed o w) <> OutOfFuel -> w_locked (fst (impl_step fixed o w)) = false).
Proof. intros o w H. exact (step_returns_free o w H). Qed.
Print Assumptions C10_step_returns_free.

(* update_older_noop: older or equal checkpoints (by epoch) change nothing, for every state, trigger, roots, balances, sink *)
Theorem C10_update_older_noop : forall sink trigger j f bal w,
  w_locked w = false -> fst j <= fst (w_just w) -> fst f <= fst (w_fin w) ->
  W_UpdateJustified fixed sink trigger j f bal w = (w, Ok tt).
Proof. exact update_older_noop. Qed.
Print Assumptions C10_update_older_noop.

(* update_outside_refused: a finalized checkpoint that the array reports unknown or outside the current finalized subtree is
   refused; only the array's links may have been refreshed (pa'), nothing else of the state changes, the sink is not called *)
Theorem C10_update_outside_refused : forall sink trigger j f bal w pa' u i,
  w_locked w = false ->
  (fst (w_just w) < fst j \/ fst (w_fin w) < fst f) ->
  (match w_pin w with Some p => trigger = fst p | None => True end) ->
  cp_eqb (w_fin w) f = false -> fst f <= fst j ->
  InSubtree fixed (snd (w_fin w)) (snd f) (w_pa w) = (pa', Ok (u, i)) -> (u = true \/ i = false) ->
  W_UpdateJustified fixed sink trigger j f bal w = (set_pa w pa', Err).
Proof. exact update_outside_refused. Qed.
Print Assumptions C10_update_outside_refused.

(* mixed pairs: a finalized checkpoint of an OLDER epoch offered together with a NEWER justified one (update_older_noop covers only
   pairs that are older-or-equal in both) is refused whatever the finalized root - the current finalized root included - for every
   state, trigger (when the pin does not object), justified pair, balances and sink; only the array's links may have been refreshed
   by the subtree query (pa'): checkpoints, votes, balances, pin and the node set stay, nothing is pruned, the sink is not called.
   The last hypothesis says the subtree query returned (it does on every state of a correspondence run; never-Panic is not proved)
   or the pair is refused even earlier (justified epoch below the finalized one). *)
Theorem C10_update_older_finalized_refused : forall sink trigger j f bal w ui,
  w_locked w = false ->
  fst f < fst (w_fin w) -> fst (w_just w) < fst j ->
  (match w_pin w with Some p => trigger = fst p | None => True end) ->
  snd (InSubtree fixed (snd (w_fin w)) (snd f) (w_pa w)) = Ok ui \/ fst j < fst f ->
  exists pa', W_UpdateJustified fixed sink trigger j f bal w = (set_pa w pa', Err).
Proof. exact update_older_finalized_refused. Qed.
Print Assumptions C10_update_older_finalized_refused.

(* prune: for every array state, anchor and sink behaviour (including a sink failing at any call): the nodes removed are a prefix
   of the node table (k nodes); with a sink exactly those were handed to it, once each, in table order; if the sink refused a
   node that node is the one extra call, it stays, and the prune reports the failure; a nil sink is never called *)
Theorem C10_prune_reports_once : forall sink ar asl pa pa' calls failed,
  OnPrune_core fixed sink ar asl pa = (pa', Ok (calls, failed)) ->
  exists pa1 k,
    map n_ref (pa_nodes pa') = skipn k (map n_ref (pa_nodes pa1)) /\
    (pa_sink_nil pa1 = false -> map fst calls = firstn (k + if failed then 1 else 0) (map n_ref (pa_nodes pa1))) /\
    (pa_sink_nil pa1 = true -> calls = [] /\ failed = false) /\
    (failed = true -> (k < length (pa_nodes pa1))%nat).
Proof. exact prune_reports_once. Qed.
Print Assumptions C10_prune_reports_once.

(* prune_exact and head_in_finalized_subtree at the level of the Spec: the Spec's prune keeps exactly the descendants of the new
   finalized node, drops exactly the others, and every head found afterwards descends from it *)
Theorem C10_spec_prune_exact : forall s a n,
  In n (ss_tree (prune_to s a)) <-> In n (ss_tree s) /\ is_desc (ss_tree s) a n = true.
Proof. exact spec_prune_exact. Qed.
Theorem C10_spec_dropped_exact : forall t a n,
  known t a = true -> (In n (to_drop t a) <-> In n t /\ is_desc t a n = false).
Proof. exact spec_dropped_exact. Qed.
Theorem C10_spec_head_in_finalized_subtree : forall s a start e,
  spec_find_head (prune_to s a) start = Ok e -> is_desc (ss_tree s) a e = true.
Proof. exact spec_head_in_finalized_subtree. Qed.
Print Assumptions C10_spec_head_in_finalized_subtree.

(* Defects of the pinned snapshot *)
Theorem C10_update_relock_snapshot_refuted :
  last_out (run_from pinned (init0 false) h_advance) = Blocked /\
  last_exp (spec_from (init0 false) h_advance) = EVal RUnit /\
  last_out (run_from fixed (init0 false) h_advance) = Ok RUnit.
Proof. exact update_relock_refuted. Qed.
Theorem C10_update_argorder_snapshot_refuted :
  last_out (run_from pinned (init0 false) h_advance_pin) = Err /\
  last_exp (spec_from (init0 false) h_advance_pin) = EVal RUnit /\
  last_out (run_from fixed (init0 false) h_advance_pin) = Ok RUnit.
Proof. exact update_argorder_refuted. Qed.
Theorem C10_prune_loop_snapshot_refuted :
  snd (last (run_from relock_only (init0 false) h_prune) (Err, [])) =
    [((1, 0), true); ((1, 0), true); ((1, 0), true); ((1, 0), true); ((1, 0), true); ((1, 0), true); ((1, 0), true); ((1, 0), true)] /\
  snd (last (run_from fixed (init0 false) h_prune) (Err, [])) =
    [((1, 0), true); ((1, 1), true); ((2, 1), true); ((2, 2), true); ((3, 2), true); ((3, 3), true); ((4, 3), true); ((4, 4), true)].
Proof. exact prune_loop_refuted. Qed.
Theorem C10_prune_nil_sink_snapshot_refuted :
  last_out (run_from relock_only (init0 true) (h_prune ++ [OGetSlot 3])) = Ok (RSlot (Some 2)) /\
  last_exp (spec_from (init0 true) (h_prune ++ [OGetSlot 3])) = EVal (RSlot None) /\
  last_out (run_from fixed (init0 true) (h_prune ++ [OGetSlot 3])) = Ok (RSlot None).
Proof. exact prune_nil_sink_refuted. Qed.
Theorem C10_prune_gap_anchor_snapshot_refuted :
  last_out (run_from all_but_reparent (init0 false) h_gap_anchor) = Ok (RRef (3, 5)) /\
  last_exp (spec_from (init0 false) h_gap_anchor) = EVal (RRef (5, 6)) /\
  last_out (run_from fixed (init0 false) h_gap_anchor) = Ok (RRef (5, 6)).
Proof. exact prune_gap_anchor_refuted. Qed.

(* found by review of the first repair series (fixes/C10-prune-partial-reparent.diff): re-parenting only after a complete prune *)
Theorem C10_prune_partial_reparent_refuted :
  last_out (run_from all_but_partial (init0 false) h_gap_fail) = Ok (RRef (3, 5)) /\
  last_exp (spec_from (init0 false) h_gap_fail) = EVal (RRef (5, 6)) /\
  last_out (run_from fixed (init0 false) h_gap_fail) = Ok (RRef (5, 6)).
Proof. exact prune_partial_reparent_refuted. Qed.
(* reported against the first 16 repairs (fixes/C10-gap-anchor-prune-head.diff): a start node on an empty slot that is not the first
   node known for its root never met the blocks built on that root (they hang off the root's first node). Head() from a justified
   empty-slot node stayed on the empty slots ... *)
Theorem C10_head_from_gap_start_refuted :
  last_out (run_from all_but_gaphead (init0 false) (removelast h_gap_fail ++ [OHead])) = Ok (RRef (3, 5)) /\
  last_exp (spec_from (init0 false) (removelast h_gap_fail ++ [OHead])) = EVal (RRef (5, 6)) /\
  last_out (run_from fixed (init0 false) (removelast h_gap_fail ++ [OHead])) = Ok (RRef (5, 6)) /\
  last_out (run_from all_but_gaphead (init0 false) (firstn 7 h_gap_fail ++ [OSetPin 3 4; OHead])) = Ok (RRef (3, 5)) /\
  last_exp (spec_from (init0 false) (firstn 7 h_gap_fail ++ [OSetPin 3 4; OHead])) = EVal (RRef (5, 6)) /\
  last_out (run_from fixed (init0 false) (firstn 7 h_gap_fail ++ [OSetPin 3 4; OHead])) = Ok (RRef (5, 6)).
Proof. exact head_from_gap_start_refuted. Qed.
(* ... and a legitimate update whose finalized and justified checkpoints both sit on empty slots was refused ("not a viable head":
   OnPrune asks for a head from the empty-slot anchor), leaving the checkpoints moved, nothing pruned, the head on empty slots.
   Blocks 2@1, 3@6, 4@9 (4 carries justified 2, finalized 1); finalized (root 2, epoch 1), justified (root 3, epoch 2), 4 slots/epoch.
   Last conjunct: on the repaired code the whole history, with later blocks, votes and queries, is what the Spec says. *)
Theorem C10_gap_anchor_prune_head_refuted :
  last_out (run_from all_but_gaphead (init0 false) h_gap_fin) = Err /\
  last_exp (spec_from (init0 false) h_gap_fin) = EVal RUnit /\
  last_out (run_from fixed (init0 false) h_gap_fin) = Ok RUnit /\
  last_out (run_from all_but_gaphead (init0 false) (h_gap_fin ++ [OHead])) = Ok (RRef (3, 9)) /\
  last_exp (spec_from (init0 false) (h_gap_fin ++ [OHead])) = EVal (RRef (4, 9)) /\
  last_out (run_from fixed (init0 false) (h_gap_fin ++ [OHead])) = Ok (RRef (4, 9)) /\
  refines sel_c10 true (init0 false) (h_gap_fin ++ [OHead; OFin; OJust; OPin; OGetSlot 1; OGetSlot 2; OChain 3 8; OBlock 4 5 10 2 1; OAtt 2 5 10; OHead]) = true.
Proof. exact gap_anchor_prune_head_refuted. Qed.
(* after a sink failure the Spec goes on: the tree is what was not acknowledged; later heads, queries, votes, blocks and the
   next (complete) prune are what the Spec says, on this history *)
Example C10_after_sink_failure_nonvacuous :
  refines sel_c10 true (init0 false) (h_gap_fail ++ [OHead; OFindHead 3 4; OGetSlot 3; OGetSlot 2; OChain 3 3; OAtt 2 4 5; OHead; OBlock 5 6 7 1 1; OFindHead 3 3;
                                                     OSlot 6 8 2 2; OBlock 6 7 9 2 2; OUpdate 7 (2, 6) (2, 6) (Some [10; 10; 10]) None; OHead; OChain 6 8; OGetSlot 3]) = true.
Proof. exact (proj1 refines_after_sink_failure). Qed.

(* KNOWN FINDING prune_keeps_late_fork (repaired code too): the full statement fails exactly on that shape *)
Theorem C10_prune_keeps_late_fork_refuted :
  last_out (run_from fixed (init0 true) (h_prune ++ [OGetSlot 7])) = Ok (RSlot (Some 3)) /\
  last_exp (spec_from (init0 true) (h_prune ++ [OGetSlot 7])) = EVal (RSlot None).
Proof. exact prune_keeps_late_fork_refuted. Qed.
Theorem C10_full_refuted_by_late_fork :
  refines sel_c10 true (init0 false) h_prune = false /\ refines sel_c10 false (init0 false) h_prune = true.
Proof. destruct late_fork_refutes_full as [_ [A [_ B]]]. exact (conj A B). Qed.

(* non-vacuity: the full statement holds on a prune at a block node, a prune at an empty-slot node with later blocks and votes,
   and a prune whose sink fails at its third call *)
Example C10_nonvacuous :
  refines sel_c10 true (init0 false) (h_chain ++ [OHead; OUpdate 6 (1, 5) (1, 5) (Some [10; 10; 10]) None; OHead; OChain 5 4; OGetSlot 2; OFin; OPin]) = true /\
  refines sel_c10 true (init0 false) (h_gap_anchor ++ [OChain 3 4; OGetSlot 2; OBlock 3 9 6 1 1; OAtt 1 9 6; OAtt 2 9 6; OHead]) = true /\
  refines sel_c10 true (init0 false) (h_chain ++ [OHead; OUpdate 6 (1, 5) (1, 5) (Some [10; 10; 10]) (Some 2); OHead; OGetSlot 1; OGetSlot 2]) = true.
Proof. destruct refines_examples as [_ [_ [A [B [_ C]]]]]. exact (conj A (conj B C)). Qed.
