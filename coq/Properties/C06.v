(* C06 — List shuffling is the spec's swap-or-not permutation and is invertible.
   Statements only; proofs live in Shuffle/ShuffleIndexProofs.v, ShuffleListProofs.v, ShuffleProofs.v.
   Model of the Go code: Shuffle/ShuffleModel.v (permute_index/unpermute_index = innerPermuteIndex,
   shuffle_list/unshuffle_list = innerShuffleList with its cached source hash / byte and mirror arithmetic);
   Spec: compute_shuffled_index of the consensus specification (same file).
   Every theorem holds for ANY hash function H, ANY seed, every round count 0..255 (uint8) and
     - list theorems:      every list with length n < 2^63 (max_size; every Go slice satisfies it),
     - per-index theorems: every 0 < n <= 2^63 and index < n,
     - equality with the spec: n <= 2^40 (spec_limit = VALIDATOR_REGISTRY_LIMIT; there uint32(position // 256)
       is exact) and H returning bytes (values < 256).
   Outcome `Ok` in a conclusion also says: no panic (no index out of range), the model's fuel suffices. *)
From Coq Require Import NArith List Bool Permutation.
From V Require Import Base.U64 Base.Outcome Base.Sha256 Shuffle.ShuffleModel Shuffle.ShuffleArith
  Shuffle.ShuffleIndexProofs Shuffle.ShuffleListProofs Shuffle.ShuffleProofs Shuffle.ShuffleSpecTab.
Import ListNotations.
Local Open Scope N_scope.

(* (a) one swap-or-not round of innerPermuteIndex is an involution on [0,n) *)
Theorem C06_round_involution : forall (H : list N -> list N) (seed : list N) n r i,
  0 < n -> n <= max_size -> i < n ->
  exists j, index_round H seed n r i = Ok j /\ j < n /\ index_round H seed n r j = Ok i.
Proof. exact index_round_involutive. Qed.
Print Assumptions C06_round_involution.

(* (b) PermuteIndex and UnpermuteIndex are mutually inverse bijections of [0,n) *)
Theorem C06_permute_unpermute : forall (H : list N -> list N) (seed : list N) rounds i n,
  rounds <= 255 -> 0 < n -> n <= max_size -> i < n ->
  exists j, permute_index H seed rounds i n = Ok j /\ j < n /\ unpermute_index H seed rounds j n = Ok i.
Proof. exact permute_unpermute. Qed.
Print Assumptions C06_permute_unpermute.
Theorem C06_unpermute_permute : forall (H : list N -> list N) (seed : list N) rounds i n,
  rounds <= 255 -> 0 < n -> n <= max_size -> i < n ->
  exists j, unpermute_index H seed rounds i n = Ok j /\ j < n /\ permute_index H seed rounds j n = Ok i.
Proof. exact unpermute_permute. Qed.
Print Assumptions C06_unpermute_permute.
Theorem C06_permute_injective : forall (H : list N -> list N) (seed : list N) rounds i1 i2 n j,
  rounds <= 255 -> 0 < n -> n <= max_size -> i1 < n -> i2 < n ->
  permute_index H seed rounds i1 n = Ok j -> permute_index H seed rounds i2 n = Ok j -> i1 = i2.
Proof. exact permute_index_injective. Qed.
Print Assumptions C06_permute_injective.
Theorem C06_permute_surjective : forall (H : list N -> list N) (seed : list N) rounds j n,
  rounds <= 255 -> 0 < n -> n <= max_size -> j < n ->
  exists i, i < n /\ permute_index H seed rounds i n = Ok j.
Proof. exact permute_index_surjective. Qed.
Print Assumptions C06_permute_surjective.

(* (c) PermuteIndex = the specification's compute_shuffled_index *)
Theorem C06_permute_index_is_spec : forall (H : list N -> list N) (seed : list N),
  (forall m, bytes_ok (H m)) -> forall rounds i n,
  rounds <= 255 -> 0 < n -> n <= spec_limit -> i < n ->
  exists j, permute_index H seed rounds i n = Ok j /\ compute_shuffled_index H seed rounds i n = Some j /\ j < n.
Proof. exact permute_index_is_spec. Qed.
Print Assumptions C06_permute_index_is_spec.

(* (d) the whole-list routine = the per-index function applied to each position.
       UnshuffleList(l)[i] = l[PermuteIndex(i)] *)
Theorem C06_unshuffle_list_pointwise : forall (H : list N -> list N) (seed : list N) (A : Type) rounds (l : list A),
  let n := N.of_nat (length l) in
  rounds <= 255 -> n < max_size ->
  exists l', unshuffle_list H seed rounds l = Ok l' /\ length l' = length l /\
    forall i, i < n -> exists j, permute_index H seed rounds i n = Ok j /\ j < n /\
                                 nth_error l' (N.to_nat i) = nth_error l (N.to_nat j).
Proof. exact @unshuffle_list_spec. Qed.
Print Assumptions C06_unshuffle_list_pointwise.
(*     ShuffleList(l)[PermuteIndex(i)] = l[i]   and   ShuffleList(l)[i] = l[UnpermuteIndex(i)] *)
Theorem C06_shuffle_list_pointwise : forall (H : list N -> list N) (seed : list N) (A : Type) rounds (l : list A),
  let n := N.of_nat (length l) in
  rounds <= 255 -> n < max_size ->
  exists l', shuffle_list H seed rounds l = Ok l' /\ length l' = length l /\
    (forall i, i < n -> exists j, permute_index H seed rounds i n = Ok j /\ j < n /\
                                  nth_error l' (N.to_nat j) = nth_error l (N.to_nat i)) /\
    (forall i, i < n -> exists j, unpermute_index H seed rounds i n = Ok j /\ j < n /\
                                  nth_error l' (N.to_nat i) = nth_error l (N.to_nat j)).
Proof. exact @shuffle_list_spec. Qed.
Print Assumptions C06_shuffle_list_pointwise.
(*     the per-round lemma behind (d): one outer iteration of innerShuffleList (two mirrored segment loops,
       cached source/byte) moves into every position x the element at swap-or-not_r(x) *)
Theorem C06_list_round : forall (H : list N -> list N) (seed : list N) (A : Type) r (l : list A),
  let n := N.of_nat (length l) in
  0 < n -> n < max_size ->
  exists l', list_round H seed n r l = Ok l' /\ length l' = length l /\
    forall x, x < n -> exists y, index_round H seed n r x = Ok y /\
                                 nth_error l' (N.to_nat x) = nth_error l (N.to_nat y).
Proof. exact @list_round_is_index_round. Qed.
Print Assumptions C06_list_round.
(*     and against the SPECIFICATION directly *)
Theorem C06_unshuffle_list_is_spec : forall (H : list N -> list N) (seed : list N) (A : Type) rounds (l : list A),
  let n := N.of_nat (length l) in
  (forall m, bytes_ok (H m)) -> rounds <= 255 -> n <= spec_limit ->
  exists l', unshuffle_list H seed rounds l = Ok l' /\ length l' = length l /\
    forall i, i < n -> exists j, compute_shuffled_index H seed rounds i n = Some j /\ j < n /\
                                 nth_error l' (N.to_nat i) = nth_error l (N.to_nat j).
Proof. exact @unshuffle_list_is_spec. Qed.
Print Assumptions C06_unshuffle_list_is_spec.
Theorem C06_shuffle_list_is_spec : forall (H : list N -> list N) (seed : list N) (A : Type) rounds (l : list A),
  let n := N.of_nat (length l) in
  (forall m, bytes_ok (H m)) -> rounds <= 255 -> n <= spec_limit ->
  exists l', shuffle_list H seed rounds l = Ok l' /\ length l' = length l /\
    forall i, i < n -> exists j, compute_shuffled_index H seed rounds i n = Some j /\ j < n /\
                                 nth_error l' (N.to_nat j) = nth_error l (N.to_nat i).
Proof. exact @shuffle_list_is_spec. Qed.
Print Assumptions C06_shuffle_list_is_spec.

(* (e) un-shuffling is the exact inverse of shuffling, and conversely *)
Theorem C06_unshuffle_shuffle : forall (H : list N -> list N) (seed : list N) (A : Type) rounds (l : list A),
  rounds <= 255 -> N.of_nat (length l) < max_size ->
  exists l1, shuffle_list H seed rounds l = Ok l1 /\ unshuffle_list H seed rounds l1 = Ok l.
Proof. exact @unshuffle_shuffle. Qed.
Print Assumptions C06_unshuffle_shuffle.
Theorem C06_shuffle_unshuffle : forall (H : list N -> list N) (seed : list N) (A : Type) rounds (l : list A),
  rounds <= 255 -> N.of_nat (length l) < max_size ->
  exists l1, unshuffle_list H seed rounds l = Ok l1 /\ shuffle_list H seed rounds l1 = Ok l.
Proof. exact @shuffle_unshuffle. Qed.
Print Assumptions C06_shuffle_unshuffle.

(* (f) the result is a permutation of the input: no element lost or duplicated *)
Theorem C06_shuffle_Permutation : forall (H : list N -> list N) (seed : list N) (A : Type) rounds (l : list A),
  rounds <= 255 -> N.of_nat (length l) < max_size ->
  exists l', shuffle_list H seed rounds l = Ok l' /\ Permutation l' l.
Proof. exact @shuffle_list_Permutation. Qed.
Print Assumptions C06_shuffle_Permutation.
Theorem C06_unshuffle_Permutation : forall (H : list N -> list N) (seed : list N) (A : Type) rounds (l : list A),
  rounds <= 255 -> N.of_nat (length l) < max_size ->
  exists l', unshuffle_list H seed rounds l = Ok l' /\ Permutation l' l.
Proof. exact @unshuffle_list_Permutation. Qed.
Print Assumptions C06_unshuffle_Permutation.

(* boundary shapes, as the Go code behaves *)
Theorem C06_trivial_lists : forall (H : list N -> list N) (seed : list N) (A : Type) rounds (l : list A) dir,
  (length l <= 1)%nat \/ rounds = 0 -> inner_shuffle_list H seed rounds l dir = Ok l.
Proof. exact @shuffle_list_trivial. Qed.
Print Assumptions C06_trivial_lists.
Theorem C06_zero_rounds_index : forall (H : list N -> list N) (seed : list N) i n dir,
  inner_permute_index H seed 0 i n dir = Ok i.
Proof. exact permute_index_rounds0. Qed.
Print Assumptions C06_zero_rounds_index.
(* outside the domain (empty index range): `% listSize` panics, in Go and in the model *)
Theorem C06_size0_panics : forall (H : list N -> list N) (seed : list N) rounds i dir,
  0 < rounds -> rounds <= 255 -> inner_permute_index H seed rounds i 0 dir = Panic DivZero.
Proof. exact permute_index_size0_panics. Qed.
Print Assumptions C06_size0_panics.

(* the evaluator the correspondence run uses to judge Go against the spec at every position
   is the specification itself *)
Theorem C06_spec_evaluator : forall (H : list N -> list N) (seed : list N) rounds n rel,
  all_positions H seed rounds n rel =
  forallb (fun i => match compute_shuffled_index H seed rounds (N.of_nat i) (N.of_nat n) with
                    | Some s => (s <? N.of_nat n) && rel (N.of_nat i) s
                    | None => false end) (seq 0 n).
Proof. exact all_positions_spec. Qed.
Print Assumptions C06_spec_evaluator.

(* non-vacuity: real SHA-256, 10 rounds, 11 elements: the hypotheses hold, the shuffle is not the identity,
   the list routine and the per-index functions (Impl and Spec) agree position by position *)
Example C06_nonvacuous :
  let seed := repeat 7 32 in
  let l := [100;101;102;103;104;105;106;107;108;109;110] in
  10 <= 255 /\ N.of_nat (length l) < max_size /\ N.of_nat (length l) <= spec_limit /\
  unshuffle_list sha256 seed 10 l = Ok [102;107;106;104;101;105;103;109;100;110;108] /\
  shuffle_list sha256 seed 10 l = Ok [108;104;100;106;103;105;102;101;110;107;109] /\
  map (fun i => permute_index sha256 seed 10 i 11) [0;1;2;3;4;5;6;7;8;9;10]
    = map (@Ok N) [2;7;6;4;1;5;3;9;0;10;8] /\
  map (fun i => compute_shuffled_index sha256 seed 10 i 11) [0;1;2;3;4;5;6;7;8;9;10]
    = map (@Some N) [2;7;6;4;1;5;3;9;0;10;8] /\
  map (fun i => unpermute_index sha256 seed 10 i 11) [0;1;2;3;4;5;6;7;8;9;10]
    = map (@Ok N) [8;4;0;6;3;5;2;1;10;7;9].
Proof. vm_compute. repeat split; try reflexivity; discriminate. Qed.
