(* C03 — Every block or operation the spec rejects is rejected, without panicking.
   The executable Spec is the verdict oracle on every corrupted block of the generator's C03 stream: whenever the Spec
   rejects, zrnt must return an error (never accept, never panic).  Theorems here make precise, for ALL environments (hash,
   BLS and engine oracles with no assumed law), forks, states and block values, WHICH blocks and operations the Spec rejects:
   an exact characterisation of acceptance per check (`_iff`), the single causes of rejection (`_rejects`), and for every
   signature check the message handed to the BLS oracle (domain type, fork version, genesis_validators_root, object root).
   That zrnt returns an error (and no panic) exactly then is, per operation, the `_refines` theorems of Properties/C01.v
   (their right-hand side maps Spec `None` to `Err`) and the correspondence on corrupted blocks.
   C03_reject_refines_partial / C03_transition_no_panic_partial assemble them for the whole block (zrnt's ProcessBlock of every
   fork): Spec rejects -> Impl returns an error; Impl never panics.  PARTIAL: under the numeric `envelope` hypothesis of
   C01_process_block_refines_partial; panic-freedom on arbitrary decodable bytes outside it is tied by the correspondence stream
   and the index audit in design/C01-C03-refine.md. *)

From Coq Require Import String.
From Coq Require Import NArith ZArith List Bool.
From RecordUpdate Require Import RecordSet.
From V Require Import Base.U64 Base.Outcome Ssz.SszCore Beacon.Config Beacon.Schemas Beacon.State
  Beacon.Spec.Helpers Beacon.Spec.Epoch Beacon.Spec.Block Beacon.Spec.Transition Beacon.Impl.BlockOps
  Beacon.Proofs.TransitionRules
  Beacon.Refine.BlockLemmas Beacon.Refine.RejectRules Beacon.Refine.BlockEpc Beacon.Refine.BlockFixtures
  Beacon.Refine.BlockProposer Beacon.Refine.BlockSyncRefine Beacon.Refine.BlockSyncWitness Beacon.Refine.BlockExitRefine
  Beacon.Refine.BlockSlashRefine Beacon.Refine.BlockAttRefine Beacon.Refine.BlockDepositRefine
  Beacon.Refine.BlockWithdrawRefine Beacon.Refine.BlockHeaderRefine Beacon.Refine.BlockAttSlashRefine
  Beacon.Refine.BlockNonvacuous Beacon.Refine.RejectNonvacuous.
From V Require Import Beacon.Impl.Block2Ops Beacon.Proofs.Lengths Beacon.Proofs.Stability Beacon.Proofs.EpcInv
  Beacon.Refine.Block2Refine Beacon.Refine.Block2AttRefine Beacon.Refine.Block2Frame Beacon.Refine.Block2Carry
  Beacon.Refine.BlockAssembly Beacon.Refine.BlockAssemblyWitness.
Import ListNotations RecordSetNotations.
Local Open Scope string_scope.
Local Open Scope list_scope.
Local Open Scope N_scope.


(* ===================== state_transition: wrong slot, fork, signature, state root (common.StateTransition) ===================== *)

(* a block for a slot that is not in the future of the state *)
Theorem C03_old_slot_rejected :
  forall (E : Env) (f : fork) (st : BeaconState) (target : N),
    target <= slot st -> process_slots E f st target = None.
Proof. exact process_slots_past_rejected. Qed.
Print Assumptions C03_old_slot_rejected.

(* cross-fork replay: a block of another fork than the state is in at the block's slot *)
Theorem C03_wrong_fork_block_rejected :
  forall (E : Env) (f : fork) (st : BeaconState) (bf : fork) (sb : value) (validate : bool) 
      (f1 : fork) (st1 : BeaconState),
    process_slots E f st (vuint (vfield (vfield sb 0) 0)) = Some (f1, st1) ->
    fork_idx f1 <> fork_idx bf -> state_transition E f st bf sb validate = None.
Proof. exact wrong_fork_block_rejected. Qed.
Print Assumptions C03_wrong_fork_block_rejected.

(* block signature that does not verify against the state after process_slots *)
Theorem C03_bad_block_signature_rejected :
  forall (E : Env) (f : fork) (st : BeaconState) (bf : fork) (sb : value) (f1 : fork) (st1 : BeaconState),
    process_slots E f st (vuint (vfield (vfield sb 0) 0)) = Some (f1, st1) ->
    verify_block_signature E f1 st1 sb = false -> state_transition E f st bf sb true = None.
Proof. exact bad_block_signature_rejected. Qed.
Print Assumptions C03_bad_block_signature_rejected.

(* acceptance of the block signature means the BLS oracle approved exactly: proposer's key, the block root,
   DOMAIN_BEACON_PROPOSER, the state's fork version for the current epoch, this chain's genesis_validators_root *)
Theorem C03_block_signature_message :
  forall (E : Env) (f : fork) (st : BeaconState) (sb : value),
    verify_block_signature E f st sb = true ->
    exists proposer : Validator,
      nthN (validators st) (vuint (vfield (vfield sb 0) 1)) = Some proposer /\
      bls_verify E (v_pubkey proposer)
        (compute_signing_root E (htr E (BeaconBlockT (cfg E) f) (vfield sb 0))
           (compute_domain E DOMAIN_BEACON_PROPOSER
              (if get_current_epoch E st <? f_epoch (fork_rec st)
               then f_previous_version (fork_rec st)
               else f_current_version (fork_rec st)) (genesis_validators_root st))) 
        (vbytes (vfield sb 1)) = true.
Proof. exact block_signature_message. Qed.
Print Assumptions C03_block_signature_message.

(* with validate_result: proposer = the one the state AFTER process_slots computes, signature under get_domain of
   that state, final state root = block.state_root *)
Theorem C03_state_transition_sig :
  forall (E : Env) (f : fork) (st : BeaconState) (bf : fork) (sb : value) (f' : fork) (st' : BeaconState),
    let blk := vfield sb 0 in
    state_transition E f st bf sb true = Some (f', st') ->
    exists (st1 : BeaconState) (proposer : Validator),
      process_slots E f st (vuint (vfield blk 0)) = Some (f', st1) /\
      fork_idx f' = fork_idx bf /\
      get_beacon_proposer_index E st1 = Some (vuint (vfield blk 1)) /\
      nthN (validators st1) (vuint (vfield blk 1)) = Some proposer /\
      bls_verify E (v_pubkey proposer)
        (compute_signing_root E (htr E (BeaconBlockT (cfg E) f') blk)
           (get_domain E st1 DOMAIN_BEACON_PROPOSER (get_current_epoch E st1))) (vbytes (vfield sb 1)) = true /\
      process_block E f' st1 blk = Some st' /\ vbytes (vfield blk 3) = state_root E f' st'.
Proof. exact state_transition_sig. Qed.
Print Assumptions C03_state_transition_sig.

(* each cause: other fork, bad signature, any rejection inside process_block, wrong state root *)
Theorem C03_state_transition_rejects :
  forall (E : Env) (f : fork) (st : BeaconState) (bf : fork) (sb : value),
    let blk := vfield sb 0 in
    (forall (f' : fork) (st1 : BeaconState),
     process_slots E f st (vuint (vfield blk 0)) = Some (f', st1) ->
     fork_idx f' <> fork_idx bf \/
     verify_block_signature E f' st1 sb = false \/
     process_block E f' st1 blk = None \/
     (forall st' : BeaconState,
      process_block E f' st1 blk = Some st' -> vbytes (vfield blk 3) <> state_root E f' st')) ->
    state_transition E f st bf sb true = None.
Proof. exact state_transition_rejects. Qed.
Print Assumptions C03_state_transition_rejects.

(* ===================== block header: slot, parent, proposer, slashed proposer (common.ProcessHeader) ===================== *)

(* exact rule *)
Theorem C03_process_block_header_iff :
  forall (E : Env) (f : fork) (st : BeaconState) (blk : value) (st' : BeaconState),
    process_block_header E f st blk = Some st' <->
    vuint (vfield blk 0) = slot st /\
    h_slot (latest_block_header st) < vuint (vfield blk 0) /\
    get_beacon_proposer_index E st = Some (vuint (vfield blk 1)) /\
    vbytes (vfield blk 2) = htr E BeaconBlockHeaderT (header_to_value (latest_block_header st)) /\
    (exists proposer : Validator,
       nthN (validators st) (vuint (vfield blk 1)) = Some proposer /\ v_slashed proposer = false) /\
    st' = header_after E f st blk.
Proof. exact process_block_header_iff. Qed.
Print Assumptions C03_process_block_header_iff.

(* each single cause *)
Theorem C03_process_block_header_rejects :
  forall (E : Env) (f : fork) (st : BeaconState) (blk : value),
    vuint (vfield blk 0) <> slot st \/
    vuint (vfield blk 0) <= h_slot (latest_block_header st) \/
    get_beacon_proposer_index E st <> Some (vuint (vfield blk 1)) \/
    vbytes (vfield blk 2) <> htr E BeaconBlockHeaderT (header_to_value (latest_block_header st)) \/
    (forall p : Validator, nthN (validators st) (vuint (vfield blk 1)) = Some p -> v_slashed p = true) ->
    process_block_header E f st blk = None.
Proof. exact process_block_header_rejects. Qed.
Print Assumptions C03_process_block_header_rejects.

(* ===================== randao reveal (phase0.ProcessRandaoReveal) ===================== *)

(* exact rule: the reveal is the proposer's signature over the epoch under DOMAIN_RANDAO *)
Theorem C03_process_randao_iff :
  forall (E : Env) (f : fork) (st : BeaconState) (body : value) (st' : BeaconState),
    let epoch := get_current_epoch E st in
    let reveal := vbytes (body_get E f body "randao_reveal") in
    process_randao E f st body = Some st' <->
    (exists (p : N) (proposer : Validator),
       get_beacon_proposer_index E st = Some p /\
       nthN (validators st) p = Some proposer /\
       bls_verify E (v_pubkey proposer)
         (compute_signing_root E (htr E u64 (VUint epoch)) (get_domain E st DOMAIN_RANDAO epoch)) reveal = true /\
       st' =
       st <| randao_mixes :=
       setN (randao_mixes st) (epoch mod EPOCHS_PER_HISTORICAL_VECTOR (cfg E))
         (xor_bytes (get_randao_mix E st epoch) (Hash E reveal)) |>).
Proof. exact process_randao_iff. Qed.
Print Assumptions C03_process_randao_iff.

(* ===================== proposer slashing: not slashable, same header, wrong key (phase0.ProcessProposerSlashing) ===================== *)

(* exact rule *)
Theorem C03_process_proposer_slashing_iff :
  forall (E : Env) (f : fork) (st : BeaconState) (ps : value) (st' : BeaconState),
    let sh1 := vfield ps 0 in
    let sh2 := vfield ps 1 in
    let h1 := vfield sh1 0 in
    let h2 := vfield sh2 0 in
    let pi := vuint (vfield h1 1) in
    process_proposer_slashing E f st ps = Some st' <->
    vuint (vfield h1 0) = vuint (vfield h2 0) /\
    vuint (vfield h1 1) = vuint (vfield h2 1) /\
    h1 <> h2 /\
    (exists proposer : Validator,
       nthN (validators st) pi = Some proposer /\
       is_slashable_validator proposer (get_current_epoch E st) = true /\
       header_sig_ok E st (v_pubkey proposer) sh1 /\
       header_sig_ok E st (v_pubkey proposer) sh2 /\ slash_validator E f st pi None = Some st').
Proof. exact process_proposer_slashing_iff. Qed.
Print Assumptions C03_process_proposer_slashing_iff.

(* slashable = not slashed, activated, not yet withdrawable *)
Theorem C03_is_slashable_validator_iff :
  forall (v : Validator) (e : N),
    is_slashable_validator v e = true <->
    v_slashed v = false /\ v_activation_epoch v <= e < v_withdrawable_epoch v.
Proof. exact is_slashable_validator_iff. Qed.
Print Assumptions C03_is_slashable_validator_iff.

(* ===================== attester slashing: not a double/surround vote, malformed indexed attestation, nobody slashable (phase0.ProcessAttesterSlashing) ===================== *)

(* double vote or surround vote *)
Theorem C03_is_slashable_attestation_data_iff :
  forall d1 d2 : AttData,
    is_slashable_attestation_data d1 d2 = true <->
    d1 <> d2 /\ cp_epoch (ad_target d1) = cp_epoch (ad_target d2) \/
    cp_epoch (ad_source d1) < cp_epoch (ad_source d2) /\ cp_epoch (ad_target d2) < cp_epoch (ad_target d1).
Proof. exact is_slashable_attestation_data_iff. Qed.
Print Assumptions C03_is_slashable_attestation_data_iff.

(* non-empty, strictly sorted (hence no duplicate), known indices, aggregate signature under
   DOMAIN_BEACON_ATTESTER at the target epoch *)
Theorem C03_is_valid_indexed_attestation_iff :
  forall (E : Env) (st : BeaconState) (ia : value),
    let idx := map vuint (vseq (vfield ia 0)) in
    let data := vfield ia 1 in
    is_valid_indexed_attestation E st ia = true <->
    idx <> [] /\
    strictly_sorted idx = true /\
    (exists pubkeys : list bytes,
       all_some (map (fun i : N => option_map v_pubkey (nthN (validators st) i)) idx) = Some pubkeys /\
       bls_fast_aggregate_verify E pubkeys
         (compute_signing_root E (htr E AttestationDataT data)
            (get_domain E st DOMAIN_BEACON_ATTESTER (cp_epoch (ad_target data)))) (vbytes (vfield ia 2)) = true).
Proof. exact is_valid_indexed_attestation_iff. Qed.
Print Assumptions C03_is_valid_indexed_attestation_iff.

(* exact rule; slash_each walks the sorted intersection *)
Theorem C03_process_attester_slashing_iff :
  forall (E : Env) (f : fork) (st : BeaconState) (asl : value) (st' : BeaconState),
    let a1 := vfield asl 0 in
    let a2 := vfield asl 1 in
    process_attester_slashing E f st asl = Some st' <->
    is_slashable_attestation_data (vfield a1 1) (vfield a2 1) = true /\
    is_valid_indexed_attestation E st a1 = true /\
    is_valid_indexed_attestation E st a2 = true /\
    slash_each E f st false (slashing_intersection asl) = Some (st', true).
Proof. exact process_attester_slashing_iff. Qed.
Print Assumptions C03_process_attester_slashing_iff.

(* at least one index of the sorted intersection is slashable in the pre-state *)
Theorem C03_process_attester_slashing_needs_slashable :
  forall (E : Env) (f : fork) (st : BeaconState) (asl : value) (st' : BeaconState),
    process_attester_slashing E f st asl = Some st' ->
    exists (i : N) (v : Validator),
      In i (slashing_intersection asl) /\
      nthN (validators st) i = Some v /\ is_slashable_validator v (get_current_epoch E st) = true.
Proof. exact process_attester_slashing_needs_slashable. Qed.
Print Assumptions C03_process_attester_slashing_needs_slashable.

(* each single cause *)
Theorem C03_process_attester_slashing_rejects :
  forall (E : Env) (f : fork) (st : BeaconState) (asl : value),
    let a1 := vfield asl 0 in
    let a2 := vfield asl 1 in
    is_slashable_attestation_data (vfield a1 1) (vfield a2 1) = false \/
    is_valid_indexed_attestation E st a1 = false \/
    is_valid_indexed_attestation E st a2 = false \/
    (forall i : N, In i (slashing_intersection asl) -> slashable_in E st i = false) ->
    process_attester_slashing E f st asl = None.
Proof. exact process_attester_slashing_rejects. Qed.
Print Assumptions C03_process_attester_slashing_rejects.

(* ===================== attestation: inclusion window, target, committee index, bits length, source, signature (phase0/altair/deneb ProcessAttestation) ===================== *)

(* everything acceptance implies, all forks *)
Theorem C03_process_attestation_accepts :
  forall (E : Env) (f : fork) (st : BeaconState) (att : value) (st' : BeaconState),
    let bits := vbits (vfield att 0) in
    let data := vfield att 1 in
    let tgt := ad_target data in
    process_attestation E f st att = Some st' ->
    (cp_epoch tgt = get_previous_epoch E st \/ cp_epoch tgt = get_current_epoch E st) /\
    cp_epoch tgt = compute_epoch_at_slot E (ad_slot data) /\
    ad_slot data + MIN_ATTESTATION_INCLUSION_DELAY (cfg E) <= slot st /\
    (fork_ge f Deneb = true \/ slot st <= ad_slot data + SLOTS_PER_EPOCH (cfg E)) /\
    ad_index data < get_committee_count_per_slot E st (cp_epoch tgt) /\
    (exists committee : list N,
       get_beacon_committee E st (ad_slot data) (ad_index data) = Some committee /\
       Datatypes.length bits = Datatypes.length committee) /\
    ad_source data = expected_source E st data /\
    (exists ia : value,
       get_indexed_attestation E st att = Some ia /\ is_valid_indexed_attestation E st ia = true).
Proof. exact process_attestation_accepts. Qed.
Print Assumptions C03_process_attestation_accepts.

(* each single cause; the upper bound of the window is dropped from Deneb on *)
Theorem C03_process_attestation_rejects :
  forall (E : Env) (f : fork) (st : BeaconState) (att : value),
    let bits := vbits (vfield att 0) in
    let data := vfield att 1 in
    let tgt := ad_target data in
    cp_epoch tgt <> get_previous_epoch E st /\ cp_epoch tgt <> get_current_epoch E st \/
    cp_epoch tgt <> compute_epoch_at_slot E (ad_slot data) \/
    slot st < ad_slot data + MIN_ATTESTATION_INCLUSION_DELAY (cfg E) \/
    fork_ge f Deneb = false /\ ad_slot data + SLOTS_PER_EPOCH (cfg E) < slot st \/
    get_committee_count_per_slot E st (cp_epoch tgt) <= ad_index data \/
    (forall committee : list N,
     get_beacon_committee E st (ad_slot data) (ad_index data) = Some committee ->
     Datatypes.length bits <> Datatypes.length committee) \/
    ad_source data <> expected_source E st data \/
    (forall ia : value,
     get_indexed_attestation E st att = Some ia -> is_valid_indexed_attestation E st ia = false) ->
    process_attestation E f st att = None.
Proof. exact process_attestation_rejects. Qed.
Print Assumptions C03_process_attestation_rejects.

(* ===================== deposits: Merkle proof, count; an invalid proof of possession is NOT a rejection (phase0.ProcessDeposit, ProcessDeposits) ===================== *)

(* accepted iff the branch of depth 33 at eth1_deposit_index proves the deposit data against
   eth1_data.deposit_root *)
Theorem C03_process_deposit_iff :
  forall (E : Env) (f : fork) (st : BeaconState) (dep : value) (st' : BeaconState),
    let data := vfield dep 1 in
    process_deposit E f st dep = Some st' <->
    deposit_proof_ok E st dep /\
    st' =
    apply_deposit E f (st <| eth1_deposit_index := eth1_deposit_index st + 1 |>) (vbytes (vfield data 0))
      (vbytes (vfield data 1)) (vuint (vfield data 2)) (vbytes (vfield data 3)).
Proof. exact process_deposit_iff. Qed.
Print Assumptions C03_process_deposit_iff.

(* top-up of a known pubkey: no signature check *)
Theorem C03_apply_deposit_known :
  forall (E : Env) (f : fork) (st : BeaconState) (pubkey wc : bytes) (amount : N) (sig : bytes) (i : N),
    find_pubkey pubkey (validators st) 0 = Some i ->
    apply_deposit E f st pubkey wc amount sig = increase_balance st i amount.
Proof. exact apply_deposit_known. Qed.
Print Assumptions C03_apply_deposit_known.

(* new pubkey, valid proof of possession: appended *)
Theorem C03_apply_deposit_new_valid :
  forall (E : Env) (f : fork) (st : BeaconState) (pubkey wc : bytes) (amount : N) (sig : bytes),
    find_pubkey pubkey (validators st) 0 = None ->
    deposit_sig_ok E pubkey wc amount sig = true ->
    apply_deposit E f st pubkey wc amount sig = add_validator_to_registry E f st pubkey wc amount.
Proof. exact apply_deposit_new_valid. Qed.
Print Assumptions C03_apply_deposit_new_valid.

(* new pubkey, invalid proof of possession: state unchanged *)
Theorem C03_apply_deposit_new_invalid_skipped :
  forall (E : Env) (f : fork) (st : BeaconState) (pubkey wc : bytes) (amount : N) (sig : bytes),
    find_pubkey pubkey (validators st) 0 = None ->
    deposit_sig_ok E pubkey wc amount sig = false -> apply_deposit E f st pubkey wc amount sig = st.
Proof. exact apply_deposit_new_invalid_skipped. Qed.
Print Assumptions C03_apply_deposit_new_invalid_skipped.

(* ... and the deposit is still accepted (index advanced) *)
Theorem C03_process_deposit_invalid_pop_not_rejected :
  forall (E : Env) (f : fork) (st : BeaconState) (dep : value),
    let data := vfield dep 1 in
    deposit_proof_ok E st dep ->
    find_pubkey (vbytes (vfield data 0)) (validators st) 0 = None ->
    deposit_sig_ok E (vbytes (vfield data 0)) (vbytes (vfield data 1)) (vuint (vfield data 2))
      (vbytes (vfield data 3)) = false ->
    process_deposit E f st dep = Some (st <| eth1_deposit_index := eth1_deposit_index st + 1 |>).
Proof. exact process_deposit_invalid_pop_not_rejected. Qed.
Print Assumptions C03_process_deposit_invalid_pop_not_rejected.

(* `pubkey in validator_pubkeys` resolves to the FIRST index carrying it *)
Theorem C03_find_pubkey_spec :
  forall (pk : bytes) (vs : list Validator) (base r : N),
    find_pubkey pk vs base = Some r <->
    (exists (k : nat) (v : Validator),
       r = base + N.of_nat k /\
       nth_error vs k = Some v /\
       v_pubkey v = pk /\
       (forall (j : nat) (w : Validator), (j < k)%nat -> nth_error vs j = Some w -> v_pubkey w <> pk)).
Proof. exact find_pubkey_spec. Qed.
Print Assumptions C03_find_pubkey_spec.

(* len(deposits) = min(MAX_DEPOSITS, deposit_count - eth1_deposit_index), checked subtraction *)
Theorem C03_process_operations_deposit_count :
  forall (E : Env) (f : fork) (st : BeaconState) (body : value) (st' : BeaconState),
    process_operations E f st body = Some st' ->
    N.of_nat (Datatypes.length (vseq (body_get E f body "deposits"))) =
    N.min (MAX_DEPOSITS (cfg E)) (e_deposit_count (eth1_data st) - eth1_deposit_index st) /\
    eth1_deposit_index st <= e_deposit_count (eth1_data st).
Proof. exact process_operations_deposit_count. Qed.
Print Assumptions C03_process_operations_deposit_count.

(* wrong number of deposits, or deposit_count < eth1_deposit_index *)
Theorem C03_process_operations_deposit_count_rejects :
  forall (E : Env) (f : fork) (st : BeaconState) (body : value),
    N.of_nat (Datatypes.length (vseq (body_get E f body "deposits"))) <>
    N.min (MAX_DEPOSITS (cfg E)) (e_deposit_count (eth1_data st) - eth1_deposit_index st) \/
    e_deposit_count (eth1_data st) < eth1_deposit_index st -> process_operations E f st body = None.
Proof. exact process_operations_deposit_count_rejects. Qed.
Print Assumptions C03_process_operations_deposit_count_rejects.

(* zrnt's ProcessDeposits (repaired, /repo 9bd2c6a) returns an error in exactly these cases *)
Theorem C03_process_deposits_count_rejects :
  forall (E : Env) (f : fork) (st : BeaconState) (epc_of : BeaconState -> BlockEpc) (deps : list value),
    N.of_nat (Datatypes.length deps) <>
    N.min (MAX_DEPOSITS (cfg E)) (e_deposit_count (eth1_data st) - eth1_deposit_index st) \/
    e_deposit_count (eth1_data st) < eth1_deposit_index st -> process_deposits_impl E f epc_of st deps = Err.
Proof. exact process_deposits_count_rejects. Qed.
Print Assumptions C03_process_deposits_count_rejects.

(* ===================== voluntary exit: inactive, duplicated, too early, insufficiently aged, wrong key/domain/fork version (phase0/deneb ProcessVoluntaryExit) ===================== *)

(* exact rule; exit_domain = get_domain(st, DOMAIN_VOLUNTARY_EXIT, exit.epoch) before Deneb, the fixed
   CAPELLA_FORK_VERSION from Deneb on *)
Theorem C03_process_voluntary_exit_iff :
  forall (E : Env) (f : fork) (st : BeaconState) (sve : value) (st' : BeaconState),
    let ve := vfield sve 0 in
    let ve_epoch := vuint (vfield ve 0) in
    let vi := vuint (vfield ve 1) in
    let ce := get_current_epoch E st in
    process_voluntary_exit E f st sve = Some st' <->
    (exists v : Validator,
       nthN (validators st) vi = Some v /\
       v_activation_epoch v <= ce < v_exit_epoch v /\
       v_exit_epoch v = FAR_FUTURE_EPOCH /\
       ve_epoch <= ce /\
       v_activation_epoch v + SHARD_COMMITTEE_PERIOD (cfg E) <= ce /\
       bls_verify E (v_pubkey v)
         (compute_signing_root E (htr E VoluntaryExitT ve) (exit_domain E f st ve_epoch))
         (vbytes (vfield sve 1)) = true /\ initiate_validator_exit E st vi = Some st').
Proof. exact process_voluntary_exit_iff. Qed.
Print Assumptions C03_process_voluntary_exit_iff.

(* each single cause *)
Theorem C03_process_voluntary_exit_rejects :
  forall (E : Env) (f : fork) (st : BeaconState) (sve : value),
    let ve := vfield sve 0 in
    let ve_epoch := vuint (vfield ve 0) in
    let vi := vuint (vfield ve 1) in
    let ce := get_current_epoch E st in
    (forall v : Validator,
     nthN (validators st) vi = Some v ->
     ce < v_activation_epoch v \/
     v_exit_epoch v <= ce \/
     v_exit_epoch v <> FAR_FUTURE_EPOCH \/
     ce < ve_epoch \/
     ce < v_activation_epoch v + SHARD_COMMITTEE_PERIOD (cfg E) \/
     bls_verify E (v_pubkey v) (compute_signing_root E (htr E VoluntaryExitT ve) (exit_domain E f st ve_epoch))
       (vbytes (vfield sve 1)) = false) -> process_voluntary_exit E f st sve = None.
Proof. exact process_voluntary_exit_rejects. Qed.
Print Assumptions C03_process_voluntary_exit_rejects.

(* ===================== BLS-to-execution change (capella.ProcessBLSToExecutionChange) ===================== *)

(* exact rule; domain fixed to GENESIS_FORK_VERSION *)
Theorem C03_process_bls_to_execution_change_iff :
  forall (E : Env) (st : BeaconState) (sc : value) (st' : BeaconState),
    let ch := vfield sc 0 in
    let vi := vuint (vfield ch 0) in
    let from_pk := vbytes (vfield ch 1) in
    let to_addr := vbytes (vfield ch 2) in
    process_bls_to_execution_change E st sc = Some st' <->
    (exists v : Validator,
       nthN (validators st) vi = Some v /\
       nth 0 (v_withdrawal_credentials v) 1 = BLS_WITHDRAWAL_PREFIX /\
       skipn 1 (v_withdrawal_credentials v) = skipn 1 (Hash E from_pk) /\
       bls_verify E from_pk
         (compute_signing_root E (htr E BLSToExecutionChangeT ch)
            (compute_domain E DOMAIN_BLS_TO_EXECUTION_CHANGE (GENESIS_FORK_VERSION (cfg E))
               (genesis_validators_root st))) (vbytes (vfield sc 1)) = true /\
       st' =
       st <| validators :=
       updN (validators st) vi
         (fun v0 : Validator =>
          v0 <| v_withdrawal_credentials := (ETH1_ADDRESS_WITHDRAWAL_PREFIX :: repeat 0 11) ++ to_addr |>) |>).
Proof. exact process_bls_to_execution_change_iff. Qed.
Print Assumptions C03_process_bls_to_execution_change_iff.

(* ===================== sync aggregate signature (altair.ProcessSyncAggregate) ===================== *)

(* the message is the signing root of the previous slot's block root under DOMAIN_SYNC_COMMITTEE at the previous
   slot's epoch; no participants require the infinity signature *)
Theorem C03_process_sync_aggregate_sig :
  forall (E : Env) (st : BeaconState) (sa : value) (st' : BeaconState),
    process_sync_aggregate E st sa = Some st' ->
    exists root : bytes,
      get_block_root_at_slot E st (sync_previous_slot st) = Some root /\
      (sync_participants st sa = [] -> vbytes (vfield sa 1) = G2_POINT_AT_INFINITY) /\
      (sync_participants st sa <> [] ->
       bls_fast_aggregate_verify E (sync_participants st sa) (sync_signing_root E st root)
         (vbytes (vfield sa 1)) = true).
Proof. exact process_sync_aggregate_sig. Qed.
Print Assumptions C03_process_sync_aggregate_sig.

(* each single cause *)
Theorem C03_process_sync_aggregate_rejects :
  forall (E : Env) (st : BeaconState) (sa : value),
    get_block_root_at_slot E st (sync_previous_slot st) = None \/
    sync_participants st sa = [] /\ vbytes (vfield sa 1) <> G2_POINT_AT_INFINITY \/
    sync_participants st sa <> [] /\
    (forall root : bytes,
     get_block_root_at_slot E st (sync_previous_slot st) = Some root ->
     bls_fast_aggregate_verify E (sync_participants st sa) (sync_signing_root E st root) (vbytes (vfield sa 1)) =
     false) -> process_sync_aggregate E st sa = None.
Proof. exact process_sync_aggregate_rejects. Qed.
Print Assumptions C03_process_sync_aggregate_rejects.

(* ===================== withdrawals and execution payload (capella.ProcessWithdrawals, bellatrix/capella/deneb ProcessExecutionPayload) ===================== *)

(* accepted iff the payload's withdrawals equal get_expected_withdrawals element-wise *)
Theorem C03_process_withdrawals_iff :
  forall (E : Env) (f : fork) (st : BeaconState) (payload : value) (st' : BeaconState),
    process_withdrawals E f st payload = Some st' <->
    vseq (pl_get E f payload "withdrawals") = map withdrawal_to_value (get_expected_withdrawals E st) /\
    st' = withdrawals_applied E st.
Proof. exact process_withdrawals_iff. Qed.
Print Assumptions C03_process_withdrawals_iff.

(* parent hash (skipped only before Capella while the merge is incomplete), prev_randao, timestamp, blob
   commitment count, engine verdict *)
Theorem C03_process_execution_payload_iff :
  forall (E : Env) (f : fork) (st : BeaconState) (body : value) (st' : BeaconState),
    let payload := body_get E f body "execution_payload" in
    process_execution_payload E f st body = Some st' <->
    (fork_ge f Capella = false /\ is_merge_transition_complete E f st = false \/
     vbytes (pl_get E f payload "parent_hash") =
     vbytes (vget (HeaderT E f) (latest_execution_payload_header st) "block_hash")) /\
    vbytes (pl_get E f payload "prev_randao") = get_randao_mix E st (get_current_epoch E st) /\
    vuint (pl_get E f payload "timestamp") = compute_timestamp_at_slot E st (slot st) /\
    N.of_nat (Datatypes.length (payload_commitments E f body)) <=
    (if fork_ge f Deneb then MAX_BLOBS_PER_BLOCK (cfg E) else 0) /\
    engine_accepts E payload (map (kzg_commitment_to_versioned_hash E) (payload_commitments E f body))
      (h_parent_root (latest_block_header st)) = true /\
    st' = st <| latest_execution_payload_header := payload_to_header E f payload |>.
Proof. exact process_execution_payload_iff. Qed.
Print Assumptions C03_process_execution_payload_iff.

(* corollary kept from Beacon/Proofs/TransitionRules.v (subsumed by the iff above): an engine that refuses
   everything rejects every payload *)
Theorem C03_engine_refusal_rejects :
  forall (E : Env) (f : fork) (st : BeaconState) (body : value),
    (forall (p : value) (vh : list bytes) (r : bytes), engine_accepts E p vh r = false) ->
    process_execution_payload E f st body = None.
Proof. exact engine_refusal_rejects. Qed.
Print Assumptions C03_engine_refusal_rejects.

(* ===================== composition: a rejection anywhere rejects the block ===================== *)

(* the first rejected operation of a list rejects the list (duplicates: the second copy meets the state changed
   by the first) *)
Theorem C03_for_ops_reject_any :
  forall (ops1 : list value) (op : value) (ops2 : list value)
      (fn : BeaconState -> value -> option BeaconState) (st st1 : BeaconState),
    for_ops ops1 fn st = Some st1 -> fn st1 op = None -> for_ops (ops1 ++ op :: ops2) fn st = None.
Proof. exact for_ops_reject_any. Qed.
Print Assumptions C03_for_ops_reject_any.

(* operations in spec order *)
Theorem C03_process_operations_iff :
  forall (E : Env) (f : fork) (st : BeaconState) (body : value) (st' : BeaconState),
    let deposits := vseq (body_get E f body "deposits") in
    process_operations E f st body = Some st' <->
    N.of_nat (Datatypes.length deposits) =
    N.min (MAX_DEPOSITS (cfg E)) (e_deposit_count (eth1_data st) - eth1_deposit_index st) /\
    eth1_deposit_index st <= e_deposit_count (eth1_data st) /\
    (exists s1 s2 s3 s4 s5 : BeaconState,
       for_ops (vseq (body_get E f body "proposer_slashings")) (process_proposer_slashing E f) st = Some s1 /\
       for_ops (vseq (body_get E f body "attester_slashings")) (process_attester_slashing E f) s1 = Some s2 /\
       for_ops (vseq (body_get E f body "attestations")) (process_attestation E f) s2 = Some s3 /\
       for_ops deposits (process_deposit E f) s3 = Some s4 /\
       for_ops (vseq (body_get E f body "voluntary_exits")) (process_voluntary_exit E f) s4 = Some s5 /\
       (if fork_ge f Capella
        then
         for_ops (vseq (body_get E f body "bls_to_execution_changes")) (process_bls_to_execution_change E) s5
        else Some s5) = Some st').
Proof. exact process_operations_iff. Qed.
Print Assumptions C03_process_operations_iff.

(* stages in spec order *)
Theorem C03_process_block_iff :
  forall (E : Env) (f : fork) (st : BeaconState) (blk : value) (st' : BeaconState),
    let body := vfield blk 4 in
    process_block E f st blk = Some st' <->
    (exists s1 s2 s3 s4 : BeaconState,
       process_block_header E f st blk = Some s1 /\
       payload_stage E f s1 body = Some s2 /\
       process_randao E f s2 body = Some s3 /\
       process_operations E f (process_eth1_data E f s3 body) body = Some s4 /\
       (if fork_ge f Altair then process_sync_aggregate E s4 (body_get E f body "sync_aggregate") else Some s4) =
       Some st').
Proof. exact process_block_iff. Qed.
Print Assumptions C03_process_block_iff.

(* a rejection by any stage rejects the block *)
Theorem C03_process_block_rejects :
  forall (E : Env) (f : fork) (st : BeaconState) (blk : value),
    let body := vfield blk 4 in
    process_block_header E f st blk = None \/
    (exists s1 : BeaconState, process_block_header E f st blk = Some s1 /\ payload_stage E f s1 body = None) \/
    (exists s1 s2 : BeaconState,
       process_block_header E f st blk = Some s1 /\
       payload_stage E f s1 body = Some s2 /\ process_randao E f s2 body = None) \/
    (exists s1 s2 s3 : BeaconState,
       process_block_header E f st blk = Some s1 /\
       payload_stage E f s1 body = Some s2 /\
       process_randao E f s2 body = Some s3 /\
       process_operations E f (process_eth1_data E f s3 body) body = None) \/
    (exists s1 s2 s3 s4 : BeaconState,
       process_block_header E f st blk = Some s1 /\
       payload_stage E f s1 body = Some s2 /\
       process_randao E f s2 body = Some s3 /\
       process_operations E f (process_eth1_data E f s3 body) body = Some s4 /\
       fork_ge f Altair = true /\ process_sync_aggregate E s4 (body_get E f body "sync_aggregate") = None) ->
    process_block E f st blk = None.
Proof. exact process_block_rejects. Qed.
Print Assumptions C03_process_block_rejects.

(* ===================== signed under a different domain, fork version or chain ===================== *)

(* get_domain = compute_domain of the state's fork version at that epoch and its genesis_validators_root *)
Theorem C03_get_domain_shape :
  forall (E : Env) (st : BeaconState) (dt : bytes) (epoch : N),
    get_domain E st dt epoch = compute_domain E dt (fork_version_at st epoch) (genesis_validators_root st).
Proof. exact get_domain_shape. Qed.
Print Assumptions C03_get_domain_shape.

(* for EVERY signature check of the transition, acceptance implies the BLS oracle approved exactly the spec's
   (key, object root, domain type, fork version, genesis_validators_root) *)
Theorem C03_cross_domain_rejected_shape :
  forall E : Env, cross_domain_shape E.
Proof. exact cross_domain_rejected_shape. Qed.
Print Assumptions C03_cross_domain_rejected_shape.

(* ===================== ASSEMBLY: what the spec rejects zrnt rejects, and without panicking (ProcessBlock of every fork) ===================== *)

(* Spec.process_block = None -> Impl.process_block = Err. PARTIAL: same `envelope` hypothesis as
   C01_process_block_refines_partial (see there); all other invariants are discharged *)
Theorem C03_reject_refines_partial :
  forall (E : Env) (f : fork) (P : nat -> BeaconState -> Prop) (st0 : BeaconState) 
      (epc2 : BlockEpc2) (blk : value),
    cfg_sane E ->
    cfg_extra E ->
    envelope E f P blk ->
    vec_lens E st0 ->
    epc2_ok E st0 epc2 ->
    P 0%nat st0 ->
    lengths_inv f st0 ->
    block_typed E f (vfield blk 4) ->
    process_block E f st0 blk = None -> process_block_impl E f epc2 st0 blk = Err.
Proof. exact reject_refines_partial. Qed.
Print Assumptions C03_reject_refines_partial.

(* the Impl model of ProcessBlock never yields Panic (slice index out of range - in particular
   GetCommitteeCountPerSlot's epochComms[0] -, division by zero), Blocked or OutOfFuel: the index audit of
   design/C01-C03-refine.md as a theorem. PARTIAL: under the same hypotheses; block_typed = what decoding a block
   of the fork guarantees *)
Theorem C03_transition_no_panic_partial :
  forall (E : Env) (f : fork) (P : nat -> BeaconState -> Prop) (st0 : BeaconState) 
      (epc2 : BlockEpc2) (blk : value),
    cfg_sane E ->
    cfg_extra E ->
    envelope E f P blk ->
    vec_lens E st0 ->
    epc2_ok E st0 epc2 ->
    P 0%nat st0 ->
    lengths_inv f st0 ->
    block_typed E f (vfield blk 4) ->
    (forall p : panic_class, process_block_impl E f epc2 st0 blk <> Panic p) /\
    process_block_impl E f epc2 st0 blk <> Blocked /\ process_block_impl E f epc2 st0 blk <> OutOfFuel.
Proof. exact transition_no_panic_partial. Qed.
Print Assumptions C03_transition_no_panic_partial.

(* ===================== PINNED SNAPSHOT (before fix: commit 9bd2c6a): _refuted witness ===================== *)

(* phase0.ProcessDeposits of the snapshot accepted 16 provable deposits in a state with deposit_count 3 <
   eth1_deposit_index 5 (uint64 wrap) which the spec rejects for every block; the repaired code refuses
   (reproduced on the Go code: design/C01-C03-refine.md) *)
Theorem C03_deposit_count_underflow_refuted :
  (forall (f : fork) (body : value), process_operations blk_env f dw_state body = None) /\
    option_map (fun s : BeaconState => (balances s, eth1_deposit_index s))
      match process_deposits_orig blk_env Altair (spec_epc blk_env) dw_state dw_deposits with
      | Ok s => Some s
      | _ => None
      end = Some ([48 * GWEI_ETH], 21) /\
    process_deposits_impl blk_env Altair (spec_epc blk_env) dw_state dw_deposits = Err.
Proof. exact deposit_count_underflow_refuted. Qed.
Print Assumptions C03_deposit_count_underflow_refuted.

(* ===================== non-vacuity ===================== *)

(* on a concrete state the Spec accepts a header / exit / deposit satisfying the rules and rejects single-field
   corruptions; an invalid proof of possession is skipped, not rejected *)
Example C03_reject_rules_nonvacuous :
  is_some (process_block_header blk_env Altair rn_state (rn_block 520 0)) = true /\
    process_block_header blk_env Altair rn_state (rn_block 521 0) = None /\
    process_block_header blk_env Altair rn_state (rn_block 520 1) = None /\
    is_some (process_voluntary_exit blk_env Altair rn_state (rn_exit 65 1)) = true /\
    process_voluntary_exit blk_env Altair rn_state (rn_exit 66 1) = None /\
    process_voluntary_exit blk_env Altair rn_state (rn_exit 65 2) = None /\
    process_voluntary_exit deny_env Altair rn_state (rn_exit 65 1) = None /\
    option_map (fun s : BeaconState => (Datatypes.length (validators s), eth1_deposit_index s))
      (process_deposit blk_env Altair rn_state rn_deposit) = Some (3%nat, 1) /\
    option_map (fun s : BeaconState => (Datatypes.length (validators s), eth1_deposit_index s))
      (process_deposit deny_env Altair rn_state rn_deposit) = Some (2%nat, 1).
Proof. exact reject_rules_nonvacuous. Qed.
Print Assumptions C03_reject_rules_nonvacuous.
