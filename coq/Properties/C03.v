(* C03 — Every block or operation the spec rejects is rejected, without panicking.
   The executable Spec is the verdict oracle on every corrupted block of the generator's C03 stream: whenever the Spec
   rejects, zrnt must return an error (never accept, never panic).  Theorems: which blocks the Spec rejects. *)
From Coq Require Import NArith List.
From V Require Import Ssz.SszCore Beacon.Config Beacon.Schemas Beacon.State Beacon.Spec.Helpers Beacon.Spec.Block
  Beacon.Spec.Transition Beacon.Proofs.TransitionRules.
Local Open Scope N_scope.

Theorem C03_bad_block_signature_rejected : forall E f st bf sb f1 st1,
  process_slots E f st (vuint (vfield (vfield sb 0) 0)) = Some (f1, st1) ->
  verify_block_signature E f1 st1 sb = false ->
  state_transition E f st bf sb true = None.
Proof. exact bad_block_signature_rejected. Qed.
Print Assumptions C03_bad_block_signature_rejected.

(* cross-fork replay: a block of another fork than the state is in at the block's slot *)
Theorem C03_wrong_fork_block_rejected : forall E f st bf sb validate f1 st1,
  process_slots E f st (vuint (vfield (vfield sb 0) 0)) = Some (f1, st1) ->
  fork_idx f1 <> fork_idx bf -> state_transition E f st bf sb validate = None.
Proof. exact wrong_fork_block_rejected. Qed.
Print Assumptions C03_wrong_fork_block_rejected.

Theorem C03_old_slot_rejected : forall E f st target, target <= slot st -> process_slots E f st target = None.
Proof. exact process_slots_past_rejected. Qed.
Print Assumptions C03_old_slot_rejected.

(* acceptance of the block signature means the BLS oracle approved exactly: proposer's key, the block root,
   DOMAIN_BEACON_PROPOSER, the state's fork version for the current epoch, this chain's genesis_validators_root *)
Theorem C03_block_signature_message : forall E f st sb,
  verify_block_signature E f st sb = true ->
  exists proposer, nthN (validators st) (vuint (vfield (vfield sb 0) 1)) = Some proposer /\
    bls_verify E (v_pubkey proposer)
      (compute_signing_root E (htr E (BeaconBlockT (cfg E) f) (vfield sb 0))
         (compute_domain E DOMAIN_BEACON_PROPOSER
            (if get_current_epoch E st <? f_epoch (fork_rec st) then f_previous_version (fork_rec st) else f_current_version (fork_rec st))
            (genesis_validators_root st)))
      (vbytes (vfield sb 1)) = true.
Proof. exact block_signature_message. Qed.
Print Assumptions C03_block_signature_message.

Theorem C03_engine_refusal_rejects : forall E f st body,
  (forall p vh r, engine_accepts E p vh r = false) -> process_execution_payload E f st body = None.
Proof. exact engine_refusal_rejects. Qed.
Print Assumptions C03_engine_refusal_rejects.
