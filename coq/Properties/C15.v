(* C15 — State accessors are exact and state copies are independent.
   Statements only; proofs live in Ssz/TreeView.v.  A tree-backed state is a container tree whose positions
   (generalized indices) hold the fields; typed sub-views are positions below a field. *)
From Coq Require Import NArith List.
From V Require Import Ssz.SszCore Ssz.TreeView.
Import ListNotations.

Section C15.
  Variable H : bytes -> bytes.

  (* a getter returns exactly what the setter of the same field stored *)
  Theorem C15_get_set_same : forall d t i x t', set_field H d t i x = Some t' -> get_field d t' i = Some x.
  Proof. exact (field_get_set_same H). Qed.

  (* a setter changes that field and nothing else *)
  Theorem C15_get_set_other : forall d t i j x t',
      (i < Nat.pow 2 d)%nat -> (j < Nat.pow 2 d)%nat -> i <> j ->
      set_field H d t i x = Some t' -> get_field d t' j = get_field d t j.
  Proof. exact (field_get_set_other H). Qed.
  Theorem C15_set_disjoint_positions : forall n p q x n', set H n p x = Some n' -> disjoint p q -> get n' q = get n q.
  Proof. exact (get_set_other H). Qed.

  (* typed sub-views read and write the element they name: writing x at position q of the sub-view at position p,
     then storing the sub-view back (the parent hook), is writing x at position p ++ q of the parent *)
  Theorem C15_subview_write_through : forall n p q x sub sub' n',
      get n p = Some sub -> set H sub q x = Some sub' -> set H n p sub' = Some n' ->
      set H n (p ++ q) x = Some n' /\ get n' (p ++ q) = Some x.
  Proof. exact (subview_write_through H). Qed.

  (* copies: a copy is a new view on the same backing; any operation on one view of the store leaves every other
     view exactly as it was (shared nodes are never modified) *)
  Theorem C15_copy_shares_and_preserves : forall s v s', step H s (OCopy v) = Some s' ->
      nth_error s' (length s) = nth_error s v /\ forall w, (w < length s)%nat -> nth_error s' w = nth_error s w.
  Proof. exact (copy_independent H). Qed.
  Theorem C15_copy_independent : forall s o s' w,
      step H s o = Some s' -> (match o with OSet v _ _ => w <> v | OCopy _ => True end) -> (w < length s)%nat ->
      nth_error s' w = nth_error s w.
  Proof. exact (step_other_unchanged H). Qed.
End C15.
Print Assumptions C15_get_set_same.
Print Assumptions C15_get_set_other.
Print Assumptions C15_set_disjoint_positions.
Print Assumptions C15_subview_write_through.
Print Assumptions C15_copy_shares_and_preserves.
Print Assumptions C15_copy_independent.

(* The independence half is proved for the tree representation; that Go's ztyp nodes are not mutated in place, and
   that EpochsContext.Clone shares only immutable data, is exhibited by the correspondence run (partial by design). *)
Definition C15_independence_of_go_objects_partial : Prop :=
  forall s o s' w, step (fun b => b) s o = Some s' -> (match o with OSet v _ _ => w <> v | OCopy _ => True end) ->
                   (w < length s)%nat -> nth_error s' w = nth_error s w.

Example C15_nonvacuous :
  let H := fun b : bytes => firstn 32 b in
  let t := build H 2 (map Leaf [[1%N]; [2%N]; [3%N]]) in
  exists t', set_field H 2 t 1 (Leaf [7%N]) = Some t' /\ get_field 2 t' 1 = Some (Leaf [7%N]) /\
             get_field 2 t' 2 = Some (Leaf [3%N]) /\ get_field 2 t 1 = Some (Leaf [2%N]).
Proof. simpl. eexists. repeat split. Qed.
