(* C15 — State accessors are exact and state copies are independent.
   Statements only; proofs live in Ssz/TreeView.v. *)
From Coq Require Import NArith List.
From V Require Import Ssz.SszCore Ssz.TreeView.
