(* C08 — The incrementally maintained epochs context always matches the state (at every point of every chain the
   cached context equals the context computed from scratch from that state; reload + fresh context continues identically).
   Tie to the code: the live EpochsContext of every recorded state of every generated chain (after each slot, block,
   epoch boundary, deposit, fork upgrade, and after serialise -> reload -> NewEpochsContext) is compared with
   Run.spec_epc_view of the same state bytes, evaluated by the extracted model.
   This file: the design fact about the Spec that makes zrnt's once-per-epoch caching sound, for ALL states and blocks.
   Statements only; proofs live in Beacon/Proofs/{Frame,Lengths,Stability,EpcInv,EpochBoundary,ViewExt,SyncRotation}.v
   (re-exported by Beacon/Proofs/C08Theorems.v). *)
From Coq Require Import String NArith List Bool Lia ZifyN.
From V Require Import Ssz.SszCore Beacon.Config Beacon.Schemas Beacon.State
  Beacon.Spec.Helpers Beacon.Spec.Epoch Beacon.Spec.Block Beacon.Spec.Transition Beacon.Run
  Beacon.Proofs.C08Theorems.
Import ListNotations.
Local Open Scope N_scope.

(* ======================= 1. frame lemmas ======================= *)
(* base_frame st st' := slot, genesis_time and genesis_validators_root of st' are those of st *)
Theorem C08_process_epoch_slot : forall E f st st', process_epoch E f st = Some st' -> slot st' = slot st.
Proof. exact process_epoch_slot. Qed.
Print Assumptions C08_process_epoch_slot.

Theorem C08_process_block_slot : forall E f st blk st', process_block E f st blk = Some st' -> slot st' = slot st.
Proof. exact process_block_slot. Qed.
Print Assumptions C08_process_block_slot.

Theorem C08_epoch_subtransitions_frame : forall E f st,
  (forall st', process_justification_and_finalization E f st = Some st' -> base_frame st st') /\
  (forall st', process_inactivity_updates E st = Some st' -> base_frame st st') /\
  (forall st', process_rewards_and_penalties E f st = Some st' -> base_frame st st') /\
  (forall st', process_registry_updates E f st = Some st' -> base_frame st st') /\
  base_frame st (process_slashings E f st) /\
  base_frame st (process_eth1_data_reset E st) /\
  base_frame st (process_effective_balance_updates E st) /\
  base_frame st (process_slashings_reset E st) /\
  base_frame st (process_randao_mixes_reset E st) /\
  base_frame st (process_historical_update E f st) /\
  base_frame st (process_participation_record_updates st) /\
  base_frame st (process_participation_flag_updates st) /\
  (forall st', process_sync_committee_updates E st = Some st' -> base_frame st st').
Proof. exact T_epoch_subtransitions_frame. Qed.
Print Assumptions C08_epoch_subtransitions_frame.

Theorem C08_block_operations_frame : forall E f st,
  (forall blk st', process_block_header E f st blk = Some st' -> base_frame st st') /\
  (forall body st', process_randao E f st body = Some st' -> base_frame st st') /\
  (forall body, base_frame st (process_eth1_data E f st body)) /\
  (forall op st', process_proposer_slashing E f st op = Some st' -> base_frame st st') /\
  (forall op st', process_attester_slashing E f st op = Some st' -> base_frame st st') /\
  (forall op st', process_attestation E f st op = Some st' -> base_frame st st') /\
  (forall op st', process_deposit E f st op = Some st' -> base_frame st st') /\
  (forall op st', process_voluntary_exit E f st op = Some st' -> base_frame st st') /\
  (forall op st', process_bls_to_execution_change E st op = Some st' -> base_frame st st') /\
  (forall body st', process_operations E f st body = Some st' -> base_frame st st') /\
  (forall sa st', process_sync_aggregate E st sa = Some st' -> base_frame st st') /\
  (forall p st', process_withdrawals E f st p = Some st' -> base_frame st st') /\
  (forall body st', process_execution_payload E f st body = Some st' -> base_frame st st').
Proof. exact T_block_operations_frame. Qed.
Print Assumptions C08_block_operations_frame.

Theorem C08_genesis_constants_never_change : forall E f st,
  (forall blk st', process_block E f st blk = Some st' ->
     genesis_time st' = genesis_time st /\ genesis_validators_root st' = genesis_validators_root st) /\
  (forall st', process_epoch E f st = Some st' ->
     genesis_time st' = genesis_time st /\ genesis_validators_root st' = genesis_validators_root st) /\
  (forall t f' st', process_slots E f st t = Some (f', st') ->
     genesis_time st' = genesis_time st /\ genesis_validators_root st' = genesis_validators_root st).
Proof.
  intros E f st. split; [|split].
  - intros blk st'. exact (process_block_genesis E f st blk st').
  - intros st'. exact (process_epoch_genesis E f st st').
  - intros t f' st'. exact (process_slots_genesis E f st t f' st').
Qed.
Print Assumptions C08_genesis_constants_never_change.

(* ======================= 2. slot reach and composition ======================= *)
Theorem C08_slot_step_increments : forall E f st f' st', slot_step E f st = Some (f', st') ->
  slot st' = slot st + 1 /\ genesis_time st' = genesis_time st /\ genesis_validators_root st' = genesis_validators_root st.
Proof. exact slot_step_slot. Qed.
Print Assumptions C08_slot_step_increments.

Theorem C08_process_slots_reaches : forall E f st t f' st', process_slots E f st t = Some (f', st') -> slot st' = t.
Proof. exact process_slots_reaches. Qed.
Print Assumptions C08_process_slots_reaches.

(* the Spec refuses to advance more than MAX_SLOTS_PER_CALL = 2^20 slots in one call; within that cap advancing to t'
   is advancing to any intermediate t and continuing *)
Theorem C08_process_slots_compose : forall E f st t t',
  slot st < t -> t < t' -> t' - slot st <= MAX_SLOTS_PER_CALL ->
  process_slots E f st t' =
  match process_slots E f st t with
  | Some (f1, st1) => process_slots E f1 st1 t'
  | None => None
  end.
Proof. exact process_slots_compose. Qed.
Print Assumptions C08_process_slots_compose.

(* ======================= 3. the list-length invariant ======================= *)
(* lengths_inv f st := |balances| = |validators| and, from altair on, the two participation lists and the
   inactivity scores have that length too.  Preserved by every step; an upgrade establishes it for the new fork. *)
Theorem C08_lengths_inv_preserved : forall E f st, lengths_inv f st ->
  (forall st', process_epoch E f st = Some st' -> lengths_inv f st') /\
  (forall blk st', process_block E f st blk = Some st' -> lengths_inv f st') /\
  (forall f' st', slot_step E f st = Some (f', st') -> lengths_inv f' st') /\
  (forall t f' st', process_slots E f st t = Some (f', st') -> lengths_inv f' st') /\
  (forall bf sb v f' st', state_transition E f st bf sb v = Some (f', st') -> lengths_inv f' st').
Proof.
  intros E f st L. repeat match goal with |- _ /\ _ => split end; intros.
  - eapply li_process_epoch; eassumption.
  - eapply li_process_block; eassumption.
  - eapply li_slot_step; eassumption.
  - eapply li_process_slots; eassumption.
  - eapply li_state_transition; eassumption.
Qed.
Print Assumptions C08_lengths_inv_preserved.

(* ... and the genesis state has it, so it holds at every point of every chain from genesis *)
Theorem C08_lengths_inv_genesis : forall E h t deps st,
  initialize_beacon_state_from_eth1 E h t deps = Some st -> lengths_inv Phase0 st.
Proof. exact li_genesis. Qed.
Print Assumptions C08_lengths_inv_genesis.

(* ======================= 4. validator-field stability (blocks) ======================= *)
(* vstable E ce vs vs' := vs' = old' ++ new where old' is pointwise [vkeep] of vs (same pubkey, effective balance,
   activation-eligibility and activation epoch; exit epoch unchanged or moved from FAR_FUTURE_EPOCH to at least
   compute_activation_exit_epoch ce) and every new entry has activation(-eligibility) epoch FAR_FUTURE_EPOCH.
   block_frame E st st' := base_frame + fork record, finalized checkpoint and both sync committees unchanged
   + vstable (current epoch) + randao_mixes changed at most at index current_epoch mod EPOCHS_PER_HISTORICAL_VECTOR. *)
Theorem C08_vstable_preorder : forall E ce,
  (forall vs, vstable E ce vs vs) /\ (forall a b c, vstable E ce a b -> vstable E ce b c -> vstable E ce a c).
Proof. intros E ce. split; [exact (vstable_refl E ce)|exact (vstable_trans E ce)]. Qed.
Print Assumptions C08_vstable_preorder.

Theorem C08_process_block_vstable : forall E f st blk st', process_block E f st blk = Some st' ->
  vstable E (get_current_epoch E st) (validators st) (validators st').
Proof. exact process_block_vstable. Qed.
Print Assumptions C08_process_block_vstable.

Theorem C08_block_operations_block_frame : forall E f st,
  (forall blk st', process_block_header E f st blk = Some st' -> block_frame E st st') /\
  (forall body st', process_randao E f st body = Some st' -> block_frame E st st') /\
  (forall body, block_frame E st (process_eth1_data E f st body)) /\
  (forall op st', process_proposer_slashing E f st op = Some st' -> block_frame E st st') /\
  (forall op st', process_attester_slashing E f st op = Some st' -> block_frame E st st') /\
  (forall op st', process_attestation E f st op = Some st' -> block_frame E st st') /\
  (forall op st', process_deposit E f st op = Some st' -> block_frame E st st') /\
  (forall op st', process_voluntary_exit E f st op = Some st' -> block_frame E st st') /\
  (forall op st', process_bls_to_execution_change E st op = Some st' -> block_frame E st st') /\
  (forall body st', process_operations E f st body = Some st' -> block_frame E st st') /\
  (forall sa st', process_sync_aggregate E st sa = Some st' -> block_frame E st st') /\
  (forall p st', process_withdrawals E f st p = Some st' -> block_frame E st st') /\
  (forall body st', process_execution_payload E f st body = Some st' -> block_frame E st st') /\
  (forall i w st', slash_validator E f st i w = Some st' -> block_frame E st st') /\
  (forall i st', initiate_validator_exit E st i = Some st' -> block_frame E st st').
Proof. exact T_block_operations_block_frame. Qed.
Print Assumptions C08_block_operations_block_frame.

Theorem C08_process_block_frame : forall E f st blk st', process_block E f st blk = Some st' -> block_frame E st st'.
Proof. exact process_block_frame. Qed.
Print Assumptions C08_process_block_frame.

(* ======================= 5. seed / mix stability (blocks) ======================= *)
Theorem C08_process_block_mixes : forall E f st blk st', process_block E f st blk = Some st' ->
  forall j, j <> get_current_epoch E st mod EPOCHS_PER_HISTORICAL_VECTOR (cfg E) ->
  nthN (randao_mixes st') j = nthN (randao_mixes st) j.
Proof. exact process_block_mixes. Qed.
Print Assumptions C08_process_block_mixes.

(* Config_wf c := 0 < SLOTS_PER_EPOCH, 1 <= MIN_SEED_LOOKAHEAD, 1 <= MAX_SEED_LOOKAHEAD,
   MIN_SEED_LOOKAHEAD + 2 < EPOCHS_PER_HISTORICAL_VECTOR.  (With EPOCHS_PER_HISTORICAL_VECTOR = MIN_SEED_LOOKAHEAD + 2
   the seed of the previous epoch reads exactly the mix process_randao overwrites, so the last bound is tight.) *)
Theorem C08_get_seed_block_stable : forall E f st blk st' e dt,
  Config_wf (cfg E) -> process_block E f st blk = Some st' ->
  get_current_epoch E st <= e + 1 -> e <= get_current_epoch E st + 1 ->
  get_seed E st' e dt = get_seed E st e dt.
Proof.
  intros E f st blk st' e dt W H. apply get_seed_block_stable; [exact W|]. exact (process_block_frame E f st blk st' H).
Qed.
Print Assumptions C08_get_seed_block_stable.

(* ======================= 6. the invariance theorems ======================= *)
(* `_partial`: beyond Config_wf these carry the numeric-range hypothesis current_epoch + 1 < FAR_FUTURE_EPOCH = 2^64 - 1.
   The Spec computes in unbounded N; at epochs >= 2^64 - 1 an exit would flip `epoch < exit_epoch` from false to true
   (the pyspec's uint64 overflows there instead).  The hypothesis is part of `Bounds st` of DESIGN 2.2; nothing else is missing. *)
Theorem C08_active_indices_block_stable_partial : forall E f st blk st' e,
  Config_wf (cfg E) -> process_block E f st blk = Some st' ->
  e <= get_current_epoch E st + 1 -> get_current_epoch E st + 1 < FAR_FUTURE_EPOCH ->
  get_active_validator_indices st' e = get_active_validator_indices st e.
Proof.
  intros E f st blk st' e W H. apply (active_indices_block_stable E); [exact W|]. exact (process_block_frame E f st blk st' H).
Qed.
Print Assumptions C08_active_indices_block_stable_partial.

Theorem C08_beacon_committee_block_stable_partial : forall E f st blk st' s i,
  Config_wf (cfg E) -> process_block E f st blk = Some st' ->
  get_current_epoch E st <= compute_epoch_at_slot E s + 1 -> compute_epoch_at_slot E s <= get_current_epoch E st + 1 ->
  get_current_epoch E st + 1 < FAR_FUTURE_EPOCH ->
  get_beacon_committee E st' s i = get_beacon_committee E st s i.
Proof.
  intros E f st blk st' s i W H. apply beacon_committee_block_stable; [exact W|]. exact (process_block_frame E f st blk st' H).
Qed.
Print Assumptions C08_beacon_committee_block_stable_partial.

Theorem C08_proposer_block_stable_partial : forall E f st blk st' s,
  Config_wf (cfg E) -> process_block E f st blk = Some st' -> get_current_epoch E st + 1 < FAR_FUTURE_EPOCH ->
  proposer_at E st' s = proposer_at E st s.
Proof.
  intros E f st blk st' s W H. apply proposer_block_stable; [exact W|]. exact (process_block_frame E f st blk st' H).
Qed.
Print Assumptions C08_proposer_block_stable_partial.

(* effective balances: the old list, extended by those of the validators the block's deposits added *)
Theorem C08_effective_balances_block_stable : forall E f st blk st', process_block E f st blk = Some st' ->
  map v_effective_balance (validators st') =
  map v_effective_balance (validators st) ++ map v_effective_balance (skipn (length (validators st)) (validators st')).
Proof.
  intros E f st blk st' H. apply (effective_balances_block_stable E). exact (process_block_frame E f st blk st' H).
Qed.
Print Assumptions C08_effective_balances_block_stable.

Theorem C08_total_active_balance_block_stable_partial : forall E f st blk st',
  Config_wf (cfg E) -> process_block E f st blk = Some st' -> get_current_epoch E st + 1 < FAR_FUTURE_EPOCH ->
  get_total_active_balance E st' = get_total_active_balance E st.
Proof.
  intros E f st blk st' W H. apply total_active_balance_block_stable; [exact W|]. exact (process_block_frame E f st blk st' H).
Qed.
Print Assumptions C08_total_active_balance_block_stable_partial.

(* sync committees: the pubkey lists are untouched, and their registry indices stay what they were *)
Theorem C08_sync_committees_block_stable : forall E f st blk st', process_block E f st blk = Some st' ->
  current_sync_committee st' = current_sync_committee st /\ next_sync_committee st' = next_sync_committee st /\
  (forall sc l, sync_indices_of st sc = Some l -> sync_indices_of st' sc = Some l).
Proof.
  intros E f st blk st' H. pose proof (process_block_frame E f st blk st' H) as B.
  split; [exact (bk_sync_cur E st st' B)|]. split; [exact (bk_sync_next E st st' B)|].
  intros sc l. exact (sync_indices_block_stable E st st' sc l B).
Qed.
Print Assumptions C08_sync_committees_block_stable.

(* pubkey -> index lookups: the pubkey column only grows *)
Theorem C08_pubkeys_block_stable : forall E f st blk st', process_block E f st blk = Some st' ->
  map v_pubkey (validators st') =
  map v_pubkey (validators st) ++ map v_pubkey (skipn (length (validators st)) (validators st')).
Proof.
  intros E f st blk st' H. apply (pubkeys_block_stable E). exact (process_block_frame E f st blk st' H).
Qed.
Print Assumptions C08_pubkeys_block_stable.

(* THE block theorem.  epc_view_extends v v' extra := v' has the same current epoch, active sets (prev,cur,next),
   committees (prev,cur,next), proposers of the current epoch and total active stake as v; its effective balances are
   those of v followed by `extra`; sync-committee indices that were defined are unchanged. *)
Theorem C08_epc_view_block_stable_partial : forall E f st blk st',
  Config_wf (cfg E) -> get_current_epoch E st + 1 < FAR_FUTURE_EPOCH ->
  process_block E f st blk = Some st' ->
  epc_view_extends (spec_epc_view E f st) (spec_epc_view E f st')
                   (map v_effective_balance (skipn (length (validators st)) (validators st'))).
Proof. exact epc_view_block_stable. Qed.
Print Assumptions C08_epc_view_block_stable_partial.

(* the from-scratch view is a function of the current epoch, the registry, the mixes and the two sync committees ... *)
Theorem C08_epc_view_ext : forall E f st st',
  get_current_epoch E st' = get_current_epoch E st ->
  validators st' = validators st -> randao_mixes st' = randao_mixes st ->
  current_sync_committee st' = current_sync_committee st -> next_sync_committee st' = next_sync_committee st ->
  spec_epc_view E f st' = spec_epc_view E f st.
Proof. exact epc_view_ext. Qed.
Print Assumptions C08_epc_view_ext.

(* ... so a slot step inside an epoch leaves it (and the fork) unchanged *)
Theorem C08_epc_view_slot_stable : forall E f st f' st',
  0 < SLOTS_PER_EPOCH (cfg E) -> (slot st + 1) mod SLOTS_PER_EPOCH (cfg E) <> 0 ->
  slot_step E f st = Some (f', st') ->
  f' = f /\ spec_epc_view E f st' = spec_epc_view E f st.
Proof. exact epc_view_slot_stable. Qed.
Print Assumptions C08_epc_view_slot_stable.

(* the epoch boundary (process_slot; process_epoch; slot + 1; in-place fork upgrades): step_frame E e st st' :=
   the registry keeps its length and is pointwise [vkeepA] (same pubkey; activation and exit epochs unchanged or
   moved from FAR_FUTURE_EPOCH to at least compute_activation_exit_epoch e), and randao_mixes changed at most at
   index (e+1) mod EPOCHS_PER_HISTORICAL_VECTOR.  Holds for every slot step, boundary or not. *)
Theorem C08_slot_step_frame : forall E f st f' st', lengths_inv f st -> slot_step E f st = Some (f', st') ->
  step_frame E (get_current_epoch E st) st st'.
Proof. exact slot_step_frame. Qed.
Print Assumptions C08_slot_step_frame.

(* zrnt RotateEpochs: previous := current, current := next is what a from-scratch computation gives.
   `_partial`: hypotheses beyond Config_wf are lengths_inv (an invariant, C08_lengths_inv_preserved; needed because
   process_effective_balance_updates zips validators with balances) and the uint64 range of the epoch (see above). *)
Theorem C08_rotate_matches_partial : forall E f st f' st',
  Config_wf (cfg E) -> lengths_inv f st -> get_current_epoch E st + 1 < FAR_FUTURE_EPOCH ->
  (slot st + 1) mod SLOTS_PER_EPOCH (cfg E) = 0 ->
  slot_step E f st = Some (f', st') ->
  let e := get_current_epoch E st in
  get_current_epoch E st' = e + 1 /\ get_previous_epoch E st' = e /\
  get_active_validator_indices st' e = get_active_validator_indices st e /\
  get_active_validator_indices st' (e + 1) = get_active_validator_indices st (e + 1) /\
  committees_of_epoch E st' e = committees_of_epoch E st e /\
  committees_of_epoch E st' (e + 1) = committees_of_epoch E st (e + 1) /\
  (forall s i, e <= compute_epoch_at_slot E s -> compute_epoch_at_slot E s <= e + 1 ->
     get_beacon_committee E st' s i = get_beacon_committee E st s i).
Proof. exact rotate_matches. Qed.
Print Assumptions C08_rotate_matches_partial.

(* sync committees across process_epoch: untouched except by process_sync_committee_updates, which at a period
   boundary moves next to current and installs get_next_sync_committee of the (slot- and sync-committee-identical)
   state `pre` it runs on.  sc_same st pre := same slot, same current and next sync committee. *)
Theorem C08_process_epoch_sync : forall E f st st', process_epoch E f st = Some st' ->
  match f with
  | Phase0 => current_sync_committee st' = current_sync_committee st /\ next_sync_committee st' = next_sync_committee st
  | _ =>
      if (get_current_epoch E st + 1) mod EPOCHS_PER_SYNC_COMMITTEE_PERIOD (cfg E) =? 0
      then current_sync_committee st' = next_sync_committee st /\
           exists pre, sc_same st pre /\ get_next_sync_committee E pre = Some (next_sync_committee st')
      else current_sync_committee st' = current_sync_committee st /\ next_sync_committee st' = next_sync_committee st
  end.
Proof. exact process_epoch_sync. Qed.
Print Assumptions C08_process_epoch_sync.

(* ======================= non-vacuity ======================= *)
(* the configuration hypotheses hold for the mainnet and the minimal values of the four constants involved *)
Example C08_config_wf_mainnet_minimal : forall c,
  (SLOTS_PER_EPOCH c = 32 /\ MIN_SEED_LOOKAHEAD c = 1 /\ MAX_SEED_LOOKAHEAD c = 4 /\ EPOCHS_PER_HISTORICAL_VECTOR c = 65536) \/
  (SLOTS_PER_EPOCH c = 8 /\ MIN_SEED_LOOKAHEAD c = 1 /\ MAX_SEED_LOOKAHEAD c = 4 /\ EPOCHS_PER_HISTORICAL_VECTOR c = 64) ->
  Config_wf c.
Proof.
  intros c [(H1 & H2 & H3 & H4)|(H1 & H2 & H3 & H4)]; [apply mainnet_wf|apply minimal_wf]; assumption.
Qed.

(* a concrete instance of every hypothesis: a minimal-like configuration, an environment with trivial oracles, a
   phase0 state with 4 active validators at slot 9 and a block carrying one deposit of a new key.  The block is
   accepted, the registry grows to 5, and (by the theorem) the view only gains one effective balance. *)
Open Scope string_scope.
Definition nv_num (k : string) : N :=
  if k =? "SLOTS_PER_EPOCH" then 8 else if k =? "MIN_SEED_LOOKAHEAD" then 1 else if k =? "MAX_SEED_LOOKAHEAD" then 4
  else if k =? "EPOCHS_PER_HISTORICAL_VECTOR" then 64 else if k =? "EPOCHS_PER_SLASHINGS_VECTOR" then 64
  else if k =? "SLOTS_PER_HISTORICAL_ROOT" then 64 else if k =? "SHUFFLE_ROUND_COUNT" then 10
  else if k =? "MAX_EFFECTIVE_BALANCE" then 32000000000 else if k =? "EFFECTIVE_BALANCE_INCREMENT" then 1000000000
  else if k =? "MAX_DEPOSITS" then 16 else if k =? "EPOCHS_PER_ETH1_VOTING_PERIOD" then 4
  else if k =? "MAX_COMMITTEES_PER_SLOT" then 4 else if k =? "TARGET_COMMITTEE_SIZE" then 4
  else if k =? "VALIDATOR_REGISTRY_LIMIT" then 1099511627776 else 1.
Close Scope string_scope.
Definition nv_cfg : Config := config_of nv_num (fun _ => [0; 0; 0; 1]).
Definition nv_z32 : bytes := repeat 0 32.
Definition nv_E : Env := mkEnv nv_cfg (fun _ => nv_z32) (fun _ => nv_z32) (fun _ _ _ => true) (fun _ _ _ => true)
                              (fun _ => repeat 0 48) (fun _ _ _ => true).
Definition nv_validator (i : N) : Validator :=
  mkValidator (repeat i 48) nv_z32 32000000000 false 0 0 FAR_FUTURE_EPOCH FAR_FUTURE_EPOCH.
Definition nv_st : BeaconState := {|
  genesis_time := 0; genesis_validators_root := nv_z32; slot := 9;
  fork_rec := mkFork [0;0;0;1] [0;0;0;1] 0;
  latest_block_header := mkHeader 8 0 nv_z32 nv_z32 nv_z32;
  block_roots := repeat nv_z32 64; state_roots := repeat nv_z32 64; historical_roots := [];
  eth1_data := mkEth1Data nv_z32 1 nv_z32; eth1_data_votes := []; eth1_deposit_index := 0;
  validators := map nv_validator [1; 2; 3; 4]; balances := repeat 32000000000 4;
  randao_mixes := repeat nv_z32 64; slashings := repeat 0 64;
  previous_epoch_attestations := []; current_epoch_attestations := [];
  previous_epoch_participation := []; current_epoch_participation := [];
  justification_bits := repeat false 4;
  previous_justified_checkpoint := mkCheckpoint 0 nv_z32; current_justified_checkpoint := mkCheckpoint 0 nv_z32;
  finalized_checkpoint := mkCheckpoint 0 nv_z32;
  inactivity_scores := []; current_sync_committee := empty_sc; next_sync_committee := empty_sc;
  latest_execution_payload_header := VCont []; next_withdrawal_index := 0; next_withdrawal_validator_index := 0;
  historical_summaries := [] |}.
Definition nv_deposit : value :=
  VCont [VSeq (map VBytes (repeat nv_z32 33));
         VCont [VBytes (repeat 9 48); VBytes nv_z32; VUint 32000000000; VBytes (repeat 0 96)]].
Definition nv_body : value :=
  VCont [VBytes (repeat 0 96); VCont [VBytes nv_z32; VUint 1; VBytes nv_z32]; VBytes nv_z32;
         VSeq []; VSeq []; VSeq []; VSeq [nv_deposit]; VSeq []].
Definition nv_blk : value :=
  VCont [VUint 9;
         VUint (match get_beacon_proposer_index nv_E nv_st with Some p => p | None => 0 end);
         VBytes (htr nv_E BeaconBlockHeaderT (header_to_value (latest_block_header nv_st)));
         VBytes nv_z32; nv_body].

Example C08_nonvacuous :
  Config_wf (cfg nv_E) /\
  get_current_epoch nv_E nv_st + 1 < FAR_FUTURE_EPOCH /\
  lengths_inv Phase0 nv_st /\
  (slot nv_st + 1) mod SLOTS_PER_EPOCH (cfg nv_E) <> 0 /\
  match process_block nv_E Phase0 nv_st nv_blk with
  | Some st' => length (validators st') = 5%nat /\
                ev_effective_balances (spec_epc_view nv_E Phase0 st') =
                ev_effective_balances (spec_epc_view nv_E Phase0 nv_st) ++ [32000000000]
  | None => False
  end /\
  match slot_step nv_E Phase0 nv_st with Some (f', st') => f' = Phase0 /\ slot st' = 10 | None => False end.
Proof.
  split; [constructor; vm_compute; first [reflexivity|discriminate]|].
  split; [vm_compute; reflexivity|].
  split; [split; [vm_compute; reflexivity|intros H; vm_compute in H; discriminate H]|].
  split; [vm_compute; discriminate|].
  split; vm_compute; split; reflexivity.
Qed.

(* the last Config_wf bound is tight: with EPOCHS_PER_HISTORICAL_VECTOR = MIN_SEED_LOOKAHEAD + 2 a state change allowed
   by block_frame (it is what process_randao does: overwrite the mix at index current_epoch mod vector length) changes
   the seed of the previous epoch *)
Open Scope string_scope.
Definition tight_num (k : string) : N :=
  if k =? "SLOTS_PER_EPOCH" then 8 else if k =? "MIN_SEED_LOOKAHEAD" then 1 else if k =? "MAX_SEED_LOOKAHEAD" then 4
  else if k =? "EPOCHS_PER_HISTORICAL_VECTOR" then 3 else 1.
Close Scope string_scope.
Definition tight_E : Env := mkEnv (config_of tight_num (fun _ => [0; 0; 0; 1])) (fun b => b) (fun _ => nv_z32)
                                 (fun _ _ _ => true) (fun _ _ _ => true) (fun _ => repeat 0 48) (fun _ _ _ => true).
Definition tight_st : BeaconState :=
  mkState 0 nv_z32 32 (mkFork [0;0;0;1] [0;0;0;1] 0) (mkHeader 31 0 nv_z32 nv_z32 nv_z32) [] [] [] (mkEth1Data nv_z32 0 nv_z32) [] 0
          [] [] [repeat 1 32; repeat 2 32; repeat 3 32] [] [] [] [] [] [] (mkCheckpoint 0 nv_z32) (mkCheckpoint 0 nv_z32)
          (mkCheckpoint 0 nv_z32) [] empty_sc empty_sc (VCont []) 0 0 [].
Definition tight_st' : BeaconState :=
  mkState 0 nv_z32 32 (mkFork [0;0;0;1] [0;0;0;1] 0) (mkHeader 31 0 nv_z32 nv_z32 nv_z32) [] [] [] (mkEth1Data nv_z32 0 nv_z32) [] 0
          [] [] [repeat 1 32; repeat 7 32; repeat 3 32] [] [] [] [] [] [] (mkCheckpoint 0 nv_z32) (mkCheckpoint 0 nv_z32)
          (mkCheckpoint 0 nv_z32) [] empty_sc empty_sc (VCont []) 0 0 [].
Example C08_seed_bound_tight :
  EPOCHS_PER_HISTORICAL_VECTOR (cfg tight_E) = MIN_SEED_LOOKAHEAD (cfg tight_E) + 2 /\
  block_frame tight_E tight_st tight_st' /\
  get_previous_epoch tight_E tight_st = 3 /\
  get_seed tight_E tight_st' 3 DOMAIN_BEACON_ATTESTER <> get_seed tight_E tight_st 3 DOMAIN_BEACON_ATTESTER.
Proof.
  split; [reflexivity|]. split.
  - constructor; try reflexivity; [repeat split|apply vstable_refl|].
    intros j Hj. change (get_current_epoch tight_E tight_st mod EPOCHS_PER_HISTORICAL_VECTOR (cfg tight_E)) with 1 in Hj.
    unfold nthN. change (N.of_nat (length (randao_mixes tight_st'))) with 3. change (N.of_nat (length (randao_mixes tight_st))) with 3.
    destruct (N.ltb_spec j 3) as [Hlt|]; [|reflexivity].
    assert (Hc : j = 0 \/ j = 2) by lia. destruct Hc as [->| ->]; reflexivity.
  - split; [reflexivity|]. vm_compute. discriminate.
Qed.

(* ======================= 7. the implementation side: zrnt's maintenance algorithm =======================
   Sections 1-6 are facts about the Spec.  This section is about the code: Beacon/Impl/Epc.v models zrnt's EpochsContext
   (record `epc`: previous/current/next ShufflingEpoch, proposers, effective balances, total active stake and its square
   root, current/next sync-committee indices (None = nil pointer), and the list of pubkeys the ValidatorPubkeyCache handle
   denotes - C16) and the functions that write it: NewEpochsContext, RotateEpochs, LoadSyncCommittees, the deposit path of
   ProcessDeposit (cache.AddValidator + the EffectiveBalances extension), UpgradeMaybe; uint64 arithmetic wraps, `/` and
   `%` by zero panic, errors are `Err`.  The drivers epc_slot_step / epc_process_slots / epc_state_transition / epc_chain
   apply these functions at the points where common/transition.go calls them, to the states the Spec computes.
   Proofs: Beacon/Refine/EpcRefine.v (stable names: Beacon/Refine/C08ImplTheorems.v).

     epc_to_view e           the projection of the Go context onto Run.epc_view (committee tables and active lists of the three
                             epochs, proposers as `Some`, effective balances, total active stake, sync indices)
     epc_matches E f st e := epc_to_view e = spec_epc_view E f st  /\  epc_pubkeys e = map v_pubkey (validators st)  /\
                             epc_tags_ok E f st e
     epc_tags_ok             the fields the view does not show but RotateEpochs reads: the Epoch tags of the previous and the
                             next shuffling and of the proposers, the cached square root, and "from altair on both sync
                             committees are loaded (not nil)"
     shuffle_ok E st e     := ShufflingRefine.shuffling_params_ok for the active set of epoch e (the C07 side conditions)
     proposers_ok E st       the hypotheses of C07T_proposers_refine at st; its last field: the proposer sampling of every
                             slot of the current epoch terminates within zrnt's cap of 1000 * 32 candidates
     rotate_ok E st        := shuffle_ok (current epoch + 1), proposers_ok, and the uint64 ranges
                             sum of active effective balances < 2^64 (TotalActiveStake += eff), EFFECTIVE_BALANCE_INCREMENT < 2^64,
                             current_epoch + 1 + EPOCHS_PER_HISTORICAL_VECTOR < 2^64 (GetSeed), 0 < EPOCHS_PER_SYNC_COMMITTEE_PERIOD
     new_ok E st           := shuffle_ok (previous epoch), shuffle_ok (current epoch), rotate_ok
     sync_registered f st  := from altair on, every pubkey of both sync committees of st is in the registry
     slot_hyp / process_slots_hyp / transition_hyp / chain_hyp
                             rotate_ok asked of every state on which RotateEpochs runs along the step / the slots / the
                             transition / the chain (the state just after process_epoch and the slot increment), plus
                             current_epoch + 1 < FAR_FUTURE_EPOCH at every block
   `_partial` below = conditional on these side conditions (C07's conditions and uint64 ranges), nothing else. *)
From V Require Import Base.U64 Base.Outcome Beacon.Impl.Shuffling Beacon.Impl.Epc Beacon.Refine.C08ImplTheorems.
From RecordUpdate Require Import RecordSet.
Import RecordSetNotations.

(* NewEpochsContext(state) succeeds and matches the state *)
Theorem C08_impl_new_epochs_context_matches_partial : forall E f st,
  Config_wf (cfg E) -> new_ok E st -> sync_registered f st ->
  exists e, new_epochs_context E f st = Ok e /\ epc_matches E f st e.
Proof. exact C08I_new_epochs_context_matches. Qed.
Print Assumptions C08_impl_new_epochs_context_matches_partial.

(* a matching context knows every sync-committee member: sync_registered is a consequence, not an extra hypothesis *)
Theorem C08_impl_matches_sync_registered : forall E f st e, epc_matches E f st e -> sync_registered f st.
Proof. exact C08I_epc_matches_sync_registered. Qed.
Print Assumptions C08_impl_matches_sync_registered.

(* a block: the context only gains the pubkey and the effective balance of every validator the block appended
   (epc_after_block e st st' := e with those two lists extended by the registry entries of st' beyond |validators st|) *)
Theorem C08_impl_epc_inv_block_partial : forall E f st blk st' e,
  Config_wf (cfg E) -> get_current_epoch E st + 1 < FAR_FUTURE_EPOCH ->
  epc_matches E f st e -> process_block E f st blk = Some st' ->
  epc_matches E f st' (epc_after_block e st st').
Proof. exact C08I_epc_inv_block. Qed.
Print Assumptions C08_impl_epc_inv_block_partial.

(* ... and that extension is what the Go deposit path computes: ProcessDeposit's decision (`exists := ok && index < count`
   asked of the pubkey cache), cache.AddValidator and the EffectiveBalances extension (fix 8e640f4), deposit by deposit *)
Theorem C08_impl_apply_deposit_refines : forall E f st e pk wc amount sig,
  0 < EFFECTIVE_BALANCE_INCREMENT (cfg E) -> epc_matches E f st e ->
  epc_apply_deposit E e st pk wc amount sig = Ok (epc_after_block e st (apply_deposit E f st pk wc amount sig)).
Proof. exact C08I_epc_apply_deposit_refines. Qed.
Print Assumptions C08_impl_apply_deposit_refines.

Theorem C08_impl_process_deposits_refines_partial : forall E f deps st st' e,
  Config_wf (cfg E) -> get_current_epoch E st + 1 < FAR_FUTURE_EPOCH -> 0 < EFFECTIVE_BALANCE_INCREMENT (cfg E) ->
  epc_matches E f st e -> for_ops deps (process_deposit E f) st = Some st' ->
  epc_process_deposits E f st e deps = Ok (epc_after_block e st st') /\ block_frame E st st'.
Proof. exact C08I_epc_process_deposits_refines. Qed.
Print Assumptions C08_impl_process_deposits_refines_partial.

(* a slot step inside an epoch: zrnt does not touch the context, and it still matches *)
Theorem C08_impl_epc_inv_slot : forall E f st f' st' e,
  0 < SLOTS_PER_EPOCH (cfg E) -> (slot st + 1) mod SLOTS_PER_EPOCH (cfg E) <> 0 ->
  epc_matches E f st e -> slot_step E f st = Some (f', st') ->
  f' = f /\ epc_slot_step E f st e = Ok e /\ epc_matches E f st' e.
Proof. exact C08I_epc_inv_slot. Qed.
Print Assumptions C08_impl_epc_inv_slot.

(* the epoch boundary: RotateEpochs, run on the state after process_epoch and the slot increment, succeeds and
   re-establishes the match (previous := current, current := next from the cache; next shuffling, proposers and stake
   recomputed; at a sync-committee period boundary current := cached next and next is hydrated from the state) *)
Theorem C08_impl_epc_inv_rotate_partial : forall E f st st1 e,
  Config_wf (cfg E) -> lengths_inv f st -> (slot st + 1) mod SLOTS_PER_EPOCH (cfg E) = 0 ->
  epc_matches E f st e ->
  process_epoch E f (process_slot E f st) = Some st1 ->
  rotate_ok E (st1 <| slot := slot st1 + 1 |>) ->
  exists e', rotate_epochs E f (st1 <| slot := slot st1 + 1 |>) e = Ok e' /\
             epc_matches E f (st1 <| slot := slot st1 + 1 |>) e'.
Proof. exact C08I_epc_inv_rotate. Qed.
Print Assumptions C08_impl_epc_inv_rotate_partial.

(* fork upgrades: UpgradeMaybe's only context operation is LoadSyncCommittees after the altair upgrade; it succeeds, and
   the context matches the upgraded state under the new fork (no side condition at all) *)
Theorem C08_impl_epc_inv_upgrade : forall E fuel f st f' st' e,
  epc_matches E f st e -> upgrade_maybe E fuel f st = Some (f', st') ->
  exists e', epc_upgrade_maybe E fuel f st e = Ok e' /\ epc_matches E f' st' e'.
Proof. exact C08I_epc_inv_upgrade. Qed.
Print Assumptions C08_impl_epc_inv_upgrade.

(* any slot step (ProcessSlot; ProcessEpoch; SetSlot; RotateEpochs; UpgradeMaybe) and a whole StateTransition *)
Theorem C08_impl_epc_inv_slot_step_partial : forall E f st f' st' e,
  Config_wf (cfg E) -> lengths_inv f st -> epc_matches E f st e ->
  slot_step E f st = Some (f', st') -> slot_hyp E f st ->
  exists e', epc_slot_step E f st e = Ok e' /\ epc_matches E f' st' e'.
Proof. exact C08I_epc_inv_slot_step. Qed.
Print Assumptions C08_impl_epc_inv_slot_step_partial.

Theorem C08_impl_epc_inv_state_transition_partial : forall E f st e bf sb validate f' st',
  Config_wf (cfg E) -> lengths_inv f st -> epc_matches E f st e ->
  state_transition E f st bf sb validate = Some (f', st') -> transition_hyp E f st sb ->
  exists e', epc_state_transition E f st e bf sb validate = Ok e' /\ epc_matches E f' st' e'.
Proof. exact C08I_epc_inv_state_transition. Qed.
Print Assumptions C08_impl_epc_inv_state_transition_partial.

(* THE implementation theorem.  Full statement: along every chain of empty-slot advances and signed blocks that the Spec
   accepts, the context zrnt maintains exists (no error) and matches the state reached. *)
Definition C08_epc_always_fresh_full : Prop := forall E steps f st e f' st',
  Config_wf (cfg E) -> lengths_inv f st -> epc_matches E f st e ->
  spec_chain E steps f st = Some (f', st') ->
  exists e', epc_chain E steps f st e = Ok e' /\ epc_matches E f' st' e'.
(* `_partial`: proved under chain_hyp (see the glossary above).  The gap is not closable as stated: zrnt's
   RotateEpochs returns an error where the Spec goes on - no active validator in the new epoch, or proposer sampling
   needing more than 32000 candidates (the Spec's loop is bounded only by PROPOSER_FUEL) - and its uint64 arithmetic
   wraps where the Spec computes in N.  chain_hyp excludes exactly these shapes, state by state. *)
Theorem C08_epc_always_fresh_partial : forall E steps f st e f' st',
  Config_wf (cfg E) -> lengths_inv f st -> epc_matches E f st e ->
  spec_chain E steps f st = Some (f', st') -> chain_hyp E steps f st ->
  exists e', epc_chain E steps f st e = Ok e' /\ epc_matches E f' st' e' /\ lengths_inv f' st'.
Proof. exact C08I_epc_always_fresh. Qed.
Print Assumptions C08_epc_always_fresh_partial.

(* the usual start: the context NewEpochsContext builds for the first state (genesis: sync_registered Phase0 is trivial) *)
Theorem C08_epc_always_fresh_from_new_partial : forall E steps f st f' st',
  Config_wf (cfg E) -> lengths_inv f st -> new_ok E st -> sync_registered f st ->
  spec_chain E steps f st = Some (f', st') -> chain_hyp E steps f st ->
  exists e0 e', new_epochs_context E f st = Ok e0 /\ epc_chain E steps f st e0 = Ok e' /\ epc_matches E f' st' e'.
Proof. exact C08I_epc_always_fresh_from_new. Qed.
Print Assumptions C08_epc_always_fresh_from_new_partial.

(* reload: NewEpochsContext for the state a chain has reached gives the maintained context on everything that is
   compared, and continuing any further chain from either context gives equal projections again (and the Spec's view) *)
Theorem C08_reload_continue_same_partial : forall E steps f st e f' st' more f'' st'',
  Config_wf (cfg E) -> lengths_inv f st -> epc_matches E f st e ->
  spec_chain E steps f st = Some (f', st') -> chain_hyp E steps f st -> new_ok E st' ->
  spec_chain E more f' st' = Some (f'', st'') -> chain_hyp E more f' st' ->
  exists live fresh live2 fresh2,
    epc_chain E steps f st e = Ok live /\ new_epochs_context E f' st' = Ok fresh /\
    epc_to_view live = epc_to_view fresh /\ epc_pubkeys live = epc_pubkeys fresh /\
    epc_chain E more f' st' live = Ok live2 /\ epc_chain E more f' st' fresh = Ok fresh2 /\
    epc_to_view live2 = epc_to_view fresh2 /\ epc_pubkeys live2 = epc_pubkeys fresh2 /\
    epc_to_view live2 = spec_epc_view E f'' st''.
Proof. exact C08I_reload_continue_same. Qed.
Print Assumptions C08_reload_continue_same_partial.

(* non-vacuity of the implementation theorems: ci_E (SLOTS_PER_EPOCH 8, trivial oracles), ci_st (phase0, slot 9, 12
   validators; one exits and one is activated at epoch 2, so the active sets of epochs 1 and 2 differ), ci_chain =
   [a block at slot 17 carrying one deposit of a new key; empty slots to 25]: two epoch boundaries (two RotateEpochs)
   and one registry extension.  Every hypothesis holds, the chain is accepted, and the maintained context of the final
   state has 13 effective balances and current epoch 3. *)
Example C08_impl_nonvacuous :
  Config_wf (cfg ci_E) /\ lengths_inv Phase0 ci_st /\ new_ok ci_E ci_st /\ sync_registered Phase0 ci_st /\
  spec_chain ci_E ci_chain Phase0 ci_st = Some (Phase0, ci_s25) /\ chain_hyp ci_E ci_chain Phase0 ci_st /\
  slot ci_s25 = 25 /\ length (validators ci_s25) = 13%nat /\
  get_active_validator_indices ci_st 1 <> get_active_validator_indices ci_st 2 /\
  exists e0 e', new_epochs_context ci_E Phase0 ci_st = Ok e0 /\ epc_chain ci_E ci_chain Phase0 ci_st e0 = Ok e' /\
    epc_matches ci_E Phase0 ci_s25 e' /\ length (epc_effective_balances e') = 13%nat /\ se_epoch (epc_cur e') = 3.
Proof. exact ci_nonvacuous. Qed.
Print Assumptions C08_impl_nonvacuous.

(* the pinned snapshot (before fix 8e640f4 "extend epc.EffectiveBalances when a deposit adds a validator"):
   epc_apply_deposit_orig extends the pubkey cache only.  Starting from a matching context, one deposit of a new key
   leaves the maintained context with 12 effective balances where the state has 13 validators. *)
Theorem C08_impl_deposit_path_orig_refuted :
  exists E f st e pk wc amount sig e',
    epc_matches E f st e /\ epc_apply_deposit_orig E e st pk wc amount sig = Ok e' /\
    ~ epc_matches E f (apply_deposit E f st pk wc amount sig) e'.
Proof. exact deposit_path_orig_refuted. Qed.
Print Assumptions C08_impl_deposit_path_orig_refuted.
