(* C08 — The incrementally maintained epochs context always matches the state (at every point of every chain the
   cached context equals the context computed from scratch from that state; reload + fresh context continues identically).
   Tie to the code: the live EpochsContext of every recorded state of every generated chain (after each slot, block,
   epoch boundary, deposit, fork upgrade, and after serialise -> reload -> NewEpochsContext) is compared with
   Run.spec_epc_view of the same state bytes, evaluated by the extracted model.
   This file: the design fact about the Spec that makes zrnt's once-per-epoch caching sound, for ALL states and blocks.
   Statements only; proofs live in Beacon/Proofs/{Frame,Lengths,Stability,EpcInv,EpochBoundary,ViewExt}.v
   (re-exported by Beacon/Proofs/C08Theorems.v). *)
From Coq Require Import String NArith List Bool.
From V Require Import Ssz.SszCore Beacon.Config Beacon.Schemas Beacon.State
  Beacon.Spec.Helpers Beacon.Spec.Epoch Beacon.Spec.Block Beacon.Spec.Transition Beacon.Run
  Beacon.Proofs.C08Theorems.
Import ListNotations.
Local Open Scope N_scope.

(* ======================= 1. frame lemmas ======================= *)
(* base_frame st st' := slot, genesis_time and genesis_validators_root of st' are those of st *)
Theorem C08_process_epoch_slot : forall E f st st', process_epoch E f st = Some st' -> slot st' = slot st.
Proof. exact process_epoch_slot. Qed.
Print Assumptions C08_process_epoch_slot.

Theorem C08_process_block_slot : forall E f st blk st', process_block E f st blk = Some st' -> slot st' = slot st.
Proof. exact process_block_slot. Qed.
Print Assumptions C08_process_block_slot.

Theorem C08_epoch_subtransitions_frame : forall E f st,
  (forall st', process_justification_and_finalization E f st = Some st' -> base_frame st st') /\
  (forall st', process_inactivity_updates E st = Some st' -> base_frame st st') /\
  (forall st', process_rewards_and_penalties E f st = Some st' -> base_frame st st') /\
  (forall st', process_registry_updates E f st = Some st' -> base_frame st st') /\
  base_frame st (process_slashings E f st) /\
  base_frame st (process_eth1_data_reset E st) /\
  base_frame st (process_effective_balance_updates E st) /\
  base_frame st (process_slashings_reset E st) /\
  base_frame st (process_randao_mixes_reset E st) /\
  base_frame st (process_historical_update E f st) /\
  base_frame st (process_participation_record_updates st) /\
  base_frame st (process_participation_flag_updates st) /\
  (forall st', process_sync_committee_updates E st = Some st' -> base_frame st st').
Proof. exact T_epoch_subtransitions_frame. Qed.
Print Assumptions C08_epoch_subtransitions_frame.

Theorem C08_block_operations_frame : forall E f st,
  (forall blk st', process_block_header E f st blk = Some st' -> base_frame st st') /\
  (forall body st', process_randao E f st body = Some st' -> base_frame st st') /\
  (forall body, base_frame st (process_eth1_data E f st body)) /\
  (forall op st', process_proposer_slashing E f st op = Some st' -> base_frame st st') /\
  (forall op st', process_attester_slashing E f st op = Some st' -> base_frame st st') /\
  (forall op st', process_attestation E f st op = Some st' -> base_frame st st') /\
  (forall op st', process_deposit E f st op = Some st' -> base_frame st st') /\
  (forall op st', process_voluntary_exit E f st op = Some st' -> base_frame st st') /\
  (forall op st', process_bls_to_execution_change E st op = Some st' -> base_frame st st') /\
  (forall body st', process_operations E f st body = Some st' -> base_frame st st') /\
  (forall sa st', process_sync_aggregate E st sa = Some st' -> base_frame st st') /\
  (forall p st', process_withdrawals E f st p = Some st' -> base_frame st st') /\
  (forall body st', process_execution_payload E f st body = Some st' -> base_frame st st').
Proof. exact T_block_operations_frame. Qed.
Print Assumptions C08_block_operations_frame.

Theorem C08_genesis_constants_never_change : forall E f st,
  (forall blk st', process_block E f st blk = Some st' ->
     genesis_time st' = genesis_time st /\ genesis_validators_root st' = genesis_validators_root st) /\
  (forall st', process_epoch E f st = Some st' ->
     genesis_time st' = genesis_time st /\ genesis_validators_root st' = genesis_validators_root st) /\
  (forall t f' st', process_slots E f st t = Some (f', st') ->
     genesis_time st' = genesis_time st /\ genesis_validators_root st' = genesis_validators_root st).
Proof.
  intros E f st. split; [|split].
  - intros blk st'. exact (process_block_genesis E f st blk st').
  - intros st'. exact (process_epoch_genesis E f st st').
  - intros t f' st'. exact (process_slots_genesis E f st t f' st').
Qed.
Print Assumptions C08_genesis_constants_never_change.

(* ======================= 2. slot reach and composition ======================= *)
Theorem C08_slot_step_increments : forall E f st f' st', slot_step E f st = Some (f', st') ->
  slot st' = slot st + 1 /\ genesis_time st' = genesis_time st /\ genesis_validators_root st' = genesis_validators_root st.
Proof. exact slot_step_slot. Qed.
Print Assumptions C08_slot_step_increments.

Theorem C08_process_slots_reaches : forall E f st t f' st', process_slots E f st t = Some (f', st') -> slot st' = t.
Proof. exact process_slots_reaches. Qed.
Print Assumptions C08_process_slots_reaches.

(* the Spec refuses to advance more than MAX_SLOTS_PER_CALL = 2^20 slots in one call; within that cap advancing to t'
   is advancing to any intermediate t and continuing *)
Theorem C08_process_slots_compose : forall E f st t t',
  slot st < t -> t < t' -> t' - slot st <= MAX_SLOTS_PER_CALL ->
  process_slots E f st t' =
  match process_slots E f st t with
  | Some (f1, st1) => process_slots E f1 st1 t'
  | None => None
  end.
Proof. exact process_slots_compose. Qed.
Print Assumptions C08_process_slots_compose.

(* ======================= 3. the list-length invariant ======================= *)
(* lengths_inv f st := |balances| = |validators| and, from altair on, the two participation lists and the
   inactivity scores have that length too.  Preserved by every step; an upgrade establishes it for the new fork. *)
Theorem C08_lengths_inv_preserved : forall E f st, lengths_inv f st ->
  (forall st', process_epoch E f st = Some st' -> lengths_inv f st') /\
  (forall blk st', process_block E f st blk = Some st' -> lengths_inv f st') /\
  (forall f' st', slot_step E f st = Some (f', st') -> lengths_inv f' st') /\
  (forall t f' st', process_slots E f st t = Some (f', st') -> lengths_inv f' st') /\
  (forall bf sb v f' st', state_transition E f st bf sb v = Some (f', st') -> lengths_inv f' st').
Proof.
  intros E f st L. repeat match goal with |- _ /\ _ => split end; intros.
  - eapply li_process_epoch; eassumption.
  - eapply li_process_block; eassumption.
  - eapply li_slot_step; eassumption.
  - eapply li_process_slots; eassumption.
  - eapply li_state_transition; eassumption.
Qed.
Print Assumptions C08_lengths_inv_preserved.

(* ======================= 4. validator-field stability (blocks) ======================= *)
(* vstable E ce vs vs' := vs' = old' ++ new where old' is pointwise [vkeep] of vs (same pubkey, effective balance,
   activation-eligibility and activation epoch; exit epoch unchanged or moved from FAR_FUTURE_EPOCH to at least
   compute_activation_exit_epoch ce) and every new entry has activation(-eligibility) epoch FAR_FUTURE_EPOCH.
   block_frame E st st' := base_frame + fork record, finalized checkpoint and both sync committees unchanged
   + vstable (current epoch) + randao_mixes changed at most at index current_epoch mod EPOCHS_PER_HISTORICAL_VECTOR. *)
Theorem C08_vstable_preorder : forall E ce,
  (forall vs, vstable E ce vs vs) /\ (forall a b c, vstable E ce a b -> vstable E ce b c -> vstable E ce a c).
Proof. intros E ce. split; [exact (vstable_refl E ce)|exact (vstable_trans E ce)]. Qed.
Print Assumptions C08_vstable_preorder.

Theorem C08_process_block_vstable : forall E f st blk st', process_block E f st blk = Some st' ->
  vstable E (get_current_epoch E st) (validators st) (validators st').
Proof. exact process_block_vstable. Qed.
Print Assumptions C08_process_block_vstable.

Theorem C08_block_operations_block_frame : forall E f st,
  (forall blk st', process_block_header E f st blk = Some st' -> block_frame E st st') /\
  (forall body st', process_randao E f st body = Some st' -> block_frame E st st') /\
  (forall body, block_frame E st (process_eth1_data E f st body)) /\
  (forall op st', process_proposer_slashing E f st op = Some st' -> block_frame E st st') /\
  (forall op st', process_attester_slashing E f st op = Some st' -> block_frame E st st') /\
  (forall op st', process_attestation E f st op = Some st' -> block_frame E st st') /\
  (forall op st', process_deposit E f st op = Some st' -> block_frame E st st') /\
  (forall op st', process_voluntary_exit E f st op = Some st' -> block_frame E st st') /\
  (forall op st', process_bls_to_execution_change E st op = Some st' -> block_frame E st st') /\
  (forall body st', process_operations E f st body = Some st' -> block_frame E st st') /\
  (forall sa st', process_sync_aggregate E st sa = Some st' -> block_frame E st st') /\
  (forall p st', process_withdrawals E f st p = Some st' -> block_frame E st st') /\
  (forall body st', process_execution_payload E f st body = Some st' -> block_frame E st st') /\
  (forall i w st', slash_validator E f st i w = Some st' -> block_frame E st st') /\
  (forall i st', initiate_validator_exit E st i = Some st' -> block_frame E st st').
Proof. exact T_block_operations_block_frame. Qed.
Print Assumptions C08_block_operations_block_frame.

Theorem C08_process_block_frame : forall E f st blk st', process_block E f st blk = Some st' -> block_frame E st st'.
Proof. exact process_block_frame. Qed.
Print Assumptions C08_process_block_frame.

(* ======================= 5. seed / mix stability (blocks) ======================= *)
Theorem C08_process_block_mixes : forall E f st blk st', process_block E f st blk = Some st' ->
  forall j, j <> get_current_epoch E st mod EPOCHS_PER_HISTORICAL_VECTOR (cfg E) ->
  nthN (randao_mixes st') j = nthN (randao_mixes st) j.
Proof. exact process_block_mixes. Qed.
Print Assumptions C08_process_block_mixes.

(* Config_wf c := 0 < SLOTS_PER_EPOCH, 1 <= MIN_SEED_LOOKAHEAD, 1 <= MAX_SEED_LOOKAHEAD,
   MIN_SEED_LOOKAHEAD + 2 < EPOCHS_PER_HISTORICAL_VECTOR.  (With EPOCHS_PER_HISTORICAL_VECTOR = MIN_SEED_LOOKAHEAD + 2
   the seed of the previous epoch reads exactly the mix process_randao overwrites, so the last bound is tight.) *)
Theorem C08_get_seed_block_stable : forall E f st blk st' e dt,
  Config_wf (cfg E) -> process_block E f st blk = Some st' ->
  get_current_epoch E st <= e + 1 -> e <= get_current_epoch E st + 1 ->
  get_seed E st' e dt = get_seed E st e dt.
Proof.
  intros E f st blk st' e dt W H. apply get_seed_block_stable; [exact W|]. exact (process_block_frame E f st blk st' H).
Qed.
Print Assumptions C08_get_seed_block_stable.

(* ======================= 6. the invariance theorems ======================= *)
(* `_partial`: beyond Config_wf these carry the numeric-range hypothesis current_epoch + 1 < FAR_FUTURE_EPOCH = 2^64 - 1.
   The Spec computes in unbounded N; at epochs >= 2^64 - 1 an exit would flip `epoch < exit_epoch` from false to true
   (the pyspec's uint64 overflows there instead).  The hypothesis is part of `Bounds st` of DESIGN 2.2; nothing else is missing. *)
Theorem C08_active_indices_block_stable_partial : forall E f st blk st' e,
  Config_wf (cfg E) -> process_block E f st blk = Some st' ->
  e <= get_current_epoch E st + 1 -> get_current_epoch E st + 1 < FAR_FUTURE_EPOCH ->
  get_active_validator_indices st' e = get_active_validator_indices st e.
Proof.
  intros E f st blk st' e W H. apply (active_indices_block_stable E); [exact W|]. exact (process_block_frame E f st blk st' H).
Qed.
Print Assumptions C08_active_indices_block_stable_partial.

Theorem C08_beacon_committee_block_stable_partial : forall E f st blk st' s i,
  Config_wf (cfg E) -> process_block E f st blk = Some st' ->
  get_current_epoch E st <= compute_epoch_at_slot E s + 1 -> compute_epoch_at_slot E s <= get_current_epoch E st + 1 ->
  get_current_epoch E st + 1 < FAR_FUTURE_EPOCH ->
  get_beacon_committee E st' s i = get_beacon_committee E st s i.
Proof.
  intros E f st blk st' s i W H. apply beacon_committee_block_stable; [exact W|]. exact (process_block_frame E f st blk st' H).
Qed.
Print Assumptions C08_beacon_committee_block_stable_partial.

Theorem C08_proposer_block_stable_partial : forall E f st blk st' s,
  Config_wf (cfg E) -> process_block E f st blk = Some st' -> get_current_epoch E st + 1 < FAR_FUTURE_EPOCH ->
  proposer_at E st' s = proposer_at E st s.
Proof.
  intros E f st blk st' s W H. apply proposer_block_stable; [exact W|]. exact (process_block_frame E f st blk st' H).
Qed.
Print Assumptions C08_proposer_block_stable_partial.

(* effective balances: the old list, extended by those of the validators the block's deposits added *)
Theorem C08_effective_balances_block_stable : forall E f st blk st', process_block E f st blk = Some st' ->
  map v_effective_balance (validators st') =
  map v_effective_balance (validators st) ++ map v_effective_balance (skipn (length (validators st)) (validators st')).
Proof.
  intros E f st blk st' H. apply (effective_balances_block_stable E). exact (process_block_frame E f st blk st' H).
Qed.
Print Assumptions C08_effective_balances_block_stable.

Theorem C08_total_active_balance_block_stable_partial : forall E f st blk st',
  Config_wf (cfg E) -> process_block E f st blk = Some st' -> get_current_epoch E st + 1 < FAR_FUTURE_EPOCH ->
  get_total_active_balance E st' = get_total_active_balance E st.
Proof.
  intros E f st blk st' W H. apply total_active_balance_block_stable; [exact W|]. exact (process_block_frame E f st blk st' H).
Qed.
Print Assumptions C08_total_active_balance_block_stable_partial.

(* sync committees: the pubkey lists are untouched, and their registry indices stay what they were *)
Theorem C08_sync_committees_block_stable : forall E f st blk st', process_block E f st blk = Some st' ->
  current_sync_committee st' = current_sync_committee st /\ next_sync_committee st' = next_sync_committee st /\
  (forall sc l, sync_indices_of st sc = Some l -> sync_indices_of st' sc = Some l).
Proof.
  intros E f st blk st' H. pose proof (process_block_frame E f st blk st' H) as B.
  split; [exact (bk_sync_cur E st st' B)|]. split; [exact (bk_sync_next E st st' B)|].
  intros sc l. exact (sync_indices_block_stable E st st' sc l B).
Qed.
Print Assumptions C08_sync_committees_block_stable.

(* pubkey -> index lookups: the pubkey column only grows *)
Theorem C08_pubkeys_block_stable : forall E f st blk st', process_block E f st blk = Some st' ->
  map v_pubkey (validators st') =
  map v_pubkey (validators st) ++ map v_pubkey (skipn (length (validators st)) (validators st')).
Proof.
  intros E f st blk st' H. apply (pubkeys_block_stable E). exact (process_block_frame E f st blk st' H).
Qed.
Print Assumptions C08_pubkeys_block_stable.

(* THE block theorem.  epc_view_extends v v' extra := v' has the same current epoch, active sets (prev,cur,next),
   committees (prev,cur,next), proposers of the current epoch and total active stake as v; its effective balances are
   those of v followed by `extra`; sync-committee indices that were defined are unchanged. *)
Theorem C08_epc_view_block_stable_partial : forall E f st blk st',
  Config_wf (cfg E) -> get_current_epoch E st + 1 < FAR_FUTURE_EPOCH ->
  process_block E f st blk = Some st' ->
  epc_view_extends (spec_epc_view E f st) (spec_epc_view E f st')
                   (map v_effective_balance (skipn (length (validators st)) (validators st'))).
Proof. exact epc_view_block_stable. Qed.
Print Assumptions C08_epc_view_block_stable_partial.

(* the from-scratch view is a function of the current epoch, the registry, the mixes and the two sync committees ... *)
Theorem C08_epc_view_ext : forall E f st st',
  get_current_epoch E st' = get_current_epoch E st ->
  validators st' = validators st -> randao_mixes st' = randao_mixes st ->
  current_sync_committee st' = current_sync_committee st -> next_sync_committee st' = next_sync_committee st ->
  spec_epc_view E f st' = spec_epc_view E f st.
Proof. exact epc_view_ext. Qed.
Print Assumptions C08_epc_view_ext.

(* ... so a slot step inside an epoch leaves it (and the fork) unchanged *)
Theorem C08_epc_view_slot_stable : forall E f st f' st',
  0 < SLOTS_PER_EPOCH (cfg E) -> (slot st + 1) mod SLOTS_PER_EPOCH (cfg E) <> 0 ->
  slot_step E f st = Some (f', st') ->
  f' = f /\ spec_epc_view E f st' = spec_epc_view E f st.
Proof. exact epc_view_slot_stable. Qed.
Print Assumptions C08_epc_view_slot_stable.

(* the epoch boundary (process_slot; process_epoch; slot + 1; in-place fork upgrades): step_frame E e st st' :=
   the registry keeps its length and is pointwise [vkeepA] (same pubkey; activation and exit epochs unchanged or
   moved from FAR_FUTURE_EPOCH to at least compute_activation_exit_epoch e), and randao_mixes changed at most at
   index (e+1) mod EPOCHS_PER_HISTORICAL_VECTOR.  Holds for every slot step, boundary or not. *)
Theorem C08_slot_step_frame : forall E f st f' st', lengths_inv f st -> slot_step E f st = Some (f', st') ->
  step_frame E (get_current_epoch E st) st st'.
Proof. exact slot_step_frame. Qed.
Print Assumptions C08_slot_step_frame.

(* zrnt RotateEpochs: previous := current, current := next is what a from-scratch computation gives.
   `_partial`: hypotheses beyond Config_wf are lengths_inv (an invariant, C08_lengths_inv_preserved; needed because
   process_effective_balance_updates zips validators with balances) and the uint64 range of the epoch (see above). *)
Theorem C08_rotate_matches_partial : forall E f st f' st',
  Config_wf (cfg E) -> lengths_inv f st -> get_current_epoch E st + 1 < FAR_FUTURE_EPOCH ->
  (slot st + 1) mod SLOTS_PER_EPOCH (cfg E) = 0 ->
  slot_step E f st = Some (f', st') ->
  let e := get_current_epoch E st in
  get_current_epoch E st' = e + 1 /\ get_previous_epoch E st' = e /\
  get_active_validator_indices st' e = get_active_validator_indices st e /\
  get_active_validator_indices st' (e + 1) = get_active_validator_indices st (e + 1) /\
  committees_of_epoch E st' e = committees_of_epoch E st e /\
  committees_of_epoch E st' (e + 1) = committees_of_epoch E st (e + 1) /\
  (forall s i, e <= compute_epoch_at_slot E s -> compute_epoch_at_slot E s <= e + 1 ->
     get_beacon_committee E st' s i = get_beacon_committee E st s i).
Proof. exact rotate_matches. Qed.
Print Assumptions C08_rotate_matches_partial.

(* ======================= non-vacuity ======================= *)
(* the configuration hypotheses hold for the mainnet and the minimal values of the four constants involved *)
Example C08_config_wf_mainnet_minimal : forall c,
  (SLOTS_PER_EPOCH c = 32 /\ MIN_SEED_LOOKAHEAD c = 1 /\ MAX_SEED_LOOKAHEAD c = 4 /\ EPOCHS_PER_HISTORICAL_VECTOR c = 65536) \/
  (SLOTS_PER_EPOCH c = 8 /\ MIN_SEED_LOOKAHEAD c = 1 /\ MAX_SEED_LOOKAHEAD c = 4 /\ EPOCHS_PER_HISTORICAL_VECTOR c = 64) ->
  Config_wf c.
Proof.
  intros c [(H1 & H2 & H3 & H4)|(H1 & H2 & H3 & H4)]; [apply mainnet_wf|apply minimal_wf]; assumption.
Qed.

(* a concrete instance of every hypothesis: a minimal-like configuration, an environment with trivial oracles, a
   phase0 state with 4 active validators at slot 9 and a block carrying one deposit of a new key.  The block is
   accepted, the registry grows to 5, and (by the theorem) the view only gains one effective balance. *)
Open Scope string_scope.
Definition nv_num (k : string) : N :=
  if k =? "SLOTS_PER_EPOCH" then 8 else if k =? "MIN_SEED_LOOKAHEAD" then 1 else if k =? "MAX_SEED_LOOKAHEAD" then 4
  else if k =? "EPOCHS_PER_HISTORICAL_VECTOR" then 64 else if k =? "EPOCHS_PER_SLASHINGS_VECTOR" then 64
  else if k =? "SLOTS_PER_HISTORICAL_ROOT" then 64 else if k =? "SHUFFLE_ROUND_COUNT" then 10
  else if k =? "MAX_EFFECTIVE_BALANCE" then 32000000000 else if k =? "EFFECTIVE_BALANCE_INCREMENT" then 1000000000
  else if k =? "MAX_DEPOSITS" then 16 else if k =? "EPOCHS_PER_ETH1_VOTING_PERIOD" then 4
  else if k =? "MAX_COMMITTEES_PER_SLOT" then 4 else if k =? "TARGET_COMMITTEE_SIZE" then 4
  else if k =? "VALIDATOR_REGISTRY_LIMIT" then 1099511627776 else 1.
Close Scope string_scope.
Definition nv_cfg : Config := config_of nv_num (fun _ => [0; 0; 0; 1]).
Definition nv_z32 : bytes := repeat 0 32.
Definition nv_E : Env := mkEnv nv_cfg (fun _ => nv_z32) (fun _ => nv_z32) (fun _ _ _ => true) (fun _ _ _ => true)
                              (fun _ => repeat 0 48) (fun _ _ _ => true).
Definition nv_validator (i : N) : Validator :=
  mkValidator (repeat i 48) nv_z32 32000000000 false 0 0 FAR_FUTURE_EPOCH FAR_FUTURE_EPOCH.
Definition nv_st : BeaconState := {|
  genesis_time := 0; genesis_validators_root := nv_z32; slot := 9;
  fork_rec := mkFork [0;0;0;1] [0;0;0;1] 0;
  latest_block_header := mkHeader 8 0 nv_z32 nv_z32 nv_z32;
  block_roots := repeat nv_z32 64; state_roots := repeat nv_z32 64; historical_roots := [];
  eth1_data := mkEth1Data nv_z32 1 nv_z32; eth1_data_votes := []; eth1_deposit_index := 0;
  validators := map nv_validator [1; 2; 3; 4]; balances := repeat 32000000000 4;
  randao_mixes := repeat nv_z32 64; slashings := repeat 0 64;
  previous_epoch_attestations := []; current_epoch_attestations := [];
  previous_epoch_participation := []; current_epoch_participation := [];
  justification_bits := repeat false 4;
  previous_justified_checkpoint := mkCheckpoint 0 nv_z32; current_justified_checkpoint := mkCheckpoint 0 nv_z32;
  finalized_checkpoint := mkCheckpoint 0 nv_z32;
  inactivity_scores := []; current_sync_committee := empty_sc; next_sync_committee := empty_sc;
  latest_execution_payload_header := VCont []; next_withdrawal_index := 0; next_withdrawal_validator_index := 0;
  historical_summaries := [] |}.
Definition nv_deposit : value :=
  VCont [VSeq (map VBytes (repeat nv_z32 33));
         VCont [VBytes (repeat 9 48); VBytes nv_z32; VUint 32000000000; VBytes (repeat 0 96)]].
Definition nv_body : value :=
  VCont [VBytes (repeat 0 96); VCont [VBytes nv_z32; VUint 1; VBytes nv_z32]; VBytes nv_z32;
         VSeq []; VSeq []; VSeq []; VSeq [nv_deposit]; VSeq []].
Definition nv_blk : value :=
  VCont [VUint 9;
         VUint (match get_beacon_proposer_index nv_E nv_st with Some p => p | None => 0 end);
         VBytes (htr nv_E BeaconBlockHeaderT (header_to_value (latest_block_header nv_st)));
         VBytes nv_z32; nv_body].

Example C08_nonvacuous :
  Config_wf (cfg nv_E) /\
  get_current_epoch nv_E nv_st + 1 < FAR_FUTURE_EPOCH /\
  lengths_inv Phase0 nv_st /\
  (slot nv_st + 1) mod SLOTS_PER_EPOCH (cfg nv_E) <> 0 /\
  match process_block nv_E Phase0 nv_st nv_blk with
  | Some st' => length (validators st') = 5%nat /\
                ev_effective_balances (spec_epc_view nv_E Phase0 st') =
                ev_effective_balances (spec_epc_view nv_E Phase0 nv_st) ++ [32000000000]
  | None => False
  end /\
  match slot_step nv_E Phase0 nv_st with Some (f', st') => f' = Phase0 /\ slot st' = 10 | None => False end.
Proof.
  split; [constructor; vm_compute; first [reflexivity|discriminate]|].
  split; [vm_compute; reflexivity|].
  split; [split; [vm_compute; reflexivity|intros H; vm_compute in H; discriminate H]|].
  split; [vm_compute; discriminate|].
  split; vm_compute; split; reflexivity.
Qed.
