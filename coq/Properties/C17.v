(* C17 — Components documented as shared are safe under concurrent use.   PARTIAL BY NATURE.
   Statements only; proofs live in Conc/LockInv.v, Conc/LockSound.v, Conc/LockExamples.v.

   What is proved: a theorem about the LOCK DISCIPLINE of a program in the event language Conc/LockLang.v, for ALL
   interleavings of any number of goroutines making any sequence of calls on the objects of any parent forest.
   The program the theorem is applied to is regenerated from /repo on every check run by tools/locks2coq
   (gen/GenLocks.v) and the hypothesis `lock_ok program = true` is re-established by vm_compute (gen/GenLocksCheck.v).
   Trusted, NOT proved: the event extraction (translator), Go's memory model (DRF-SC: a race-free program behaves
   sequentially consistently; mutex Unlock happens-before the next Lock) and scheduler (fairness), the data values. *)
From Coq Require Import List String.
From V Require Import Conc.LockLang Conc.LockCheck Conc.LockInv Conc.LockSound Conc.LockExamples.
Import ListNotations.

(* no data race, for every schedule: no reachable configuration in which two goroutines are about to perform conflicting
   accesses, and any two conflicting accesses of a trace are separated by Release(first goroutine) ... Acquire(second) *)
Theorem C17_race_free : forall prog w c0,
  disc_ok prog = true -> wf_world w -> initial prog w c0 -> race_free prog w c0.
Proof. intros prog w c0 H1 H2 H3. exact (proj1 (disc_ok_sound prog w c0 H1 H2 H3)). Qed.
Print Assumptions C17_race_free.

(* no call blocks forever, configuration form: some goroutine can always step unless all calls have returned *)
Theorem C17_no_thread_blocked_forever : forall prog w c0,
  disc_ok prog = true -> wf_world w -> initial prog w c0 -> no_thread_blocked_forever prog w c0.
Proof. intros prog w c0 H1 H2 H3. exact (proj2 (disc_ok_sound prog w c0 H1 H2 H3)). Qed.
Print Assumptions C17_no_thread_blocked_forever.

(* every guarded access is performed while the goroutine holds the object's mutex in a sufficient mode *)
Theorem C17_writes_hold_the_write_lock : forall prog w, disc_ok prog = true -> wf_world w ->
  forall th o m a f rest st, thread_inv prog w th -> t_stack th = Frame o m a (Write f :: rest) :: st ->
  guarded prog w o f /\ In W (thread_holds o th).
Proof. intros prog w _ _. exact (write_holds prog w). Qed.
Print Assumptions C17_writes_hold_the_write_lock.

(* non-vacuity: a hand-written cache with a parent pointer passes; its two-goroutine instance satisfies all hypotheses *)
Example C17_nonvacuous : lock_ok good = true /\ wf_world w2 /\ initial good w2 c_init /\
  race_free good w2 c_init /\ no_thread_blocked_forever good w2 c_init.
Proof. split; [exact good_ok|]. split; [exact w2_wf|]. split; [exact c_init_initial|]. exact good_program_is_covered. Qed.

(* the checker rejects one hand-written program per rule *)
Example C17_rejects :
  lock_ok (bad [Method "Len" true None [[Read "cnt"; Return]]]) = false /\
  lock_ok (bad [Method "Put" true None [[Acquire R; Defer R; Write "tbl"; Return]]]) = false /\
  lock_ok (bad [get; Method "Upd" true None [[Acquire W; Defer W; CallExported Self "Get"; Return]]]) = false /\
  lock_ok (bad [Method "Put" true None [[Acquire W; Write "tbl"; Return]]]) = false /\
  lock_ok (bad [Method "Table" true None [[Acquire R; Defer R; Read "tbl"; Leak "tbl"; Return]]]) = false /\
  lock_ok (bad [Method "Odd" true None [[Acquire R; Defer R; Unknown "x.go:1 goto"; Return]]]) = false /\
  lock_ok (bad [get; Method "Fork" true None [[Acquire W; Defer W; CallExported Child "Get"; Return]]]) = false /\
  lock_ok (bad [Method "SetCfg" true None [[Acquire W; Defer W; Write "cfg"]]]) = false.
Proof. repeat split; reflexivity. Qed.

(* defects of the pinned snapshot, as shapes of the model: the self-deadlock of UpdateJustified -> InSubtree is a reachable
   configuration in which nothing can step; a reader without lock (pool Search/Prune/Reset, CachedPubkey.Pubkey) races *)
Theorem C17_snapshot_self_deadlock_refuted :
  (exists tr, exec snap w2 [Thread [] [(0, "Upd"%string)]] tr stuck_cfg) /\
  ~ all_done stuck_cfg /\ forall l c', ~ step snap w2 stuck_cfg l c'.
Proof. split; [exact snapshot_shape_reaches_stuck | exact snapshot_shape_is_deadlocked]. Qed.
Theorem C17_snapshot_unlocked_reader_refuted :
  (exists tr, exec snap2 w2 [Thread [] [(0, "Search"%string)]; Thread [] [(0, "Put"%string)]] tr racy_cfg) /\ racy racy_cfg.
Proof. exact snapshot_shape_races. Qed.
