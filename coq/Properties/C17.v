(* C17 — Components documented as shared are safe under concurrent use.   PARTIAL BY NATURE.
   Statements only; proofs live in Conc/LockInv.v, Conc/LockSound.v, Conc/LockExamples.v.

   What is proved: a theorem about the LOCK DISCIPLINE of a program in the event language Conc/LockLang.v, for ALL
   interleavings of any number of goroutines making any sequence of calls on the objects of any parent forest.
   The program the theorem is applied to is regenerated from /repo on every check run by tools/locks2coq
   (gen/GenLocks.v) and the hypothesis `lock_ok program = true` is re-established by vm_compute (gen/GenLocksCheck.v).
   Trusted, NOT proved: the event extraction (translator), Go's memory model (DRF-SC: a race-free program behaves
   sequentially consistently; mutex Unlock happens-before the next Lock) and scheduler (fairness), the data values. *)
From Coq Require Import List String Permutation.
From V Require Import Conc.LockLang Conc.LockCheck Conc.LockInv Conc.LockSound Conc.LockAtomic Conc.LockExamples.
Import ListNotations.

(* THE THEOREM (DESIGN 4/C17): the checker is sound for all schedules.
   race_free: see C17_race_free.  no_thread_blocked_forever: see below.  serializable = conflict-serializable: whenever an
   access of one top-level call precedes a conflicting access of a call of another goroutine, the LOCK POINT (last
   acquisition) of the first call precedes the lock point of the second; lock points are trace positions, so ordering the
   calls by lock point is a total order consistent with every conflict (acyclic precedence graph, explicit serial order). *)
Theorem C17_lock_ok_sound : forall prog w c0,
  lock_ok prog = true -> wf_world w -> initial prog w c0 ->
  race_free prog w c0 /\ no_thread_blocked_forever prog w c0 /\ serializable prog w c0.
Proof. exact lock_ok_sound. Qed.
Print Assumptions C17_lock_ok_sound.

(* the same with known non-atomic methods excluded (known finding: PubkeyCache.AddValidator is check-then-act):
   schedules whose top-level calls avoid the excluded methods are conflict-serializable *)
Theorem C17_serializable_partial : forall prog w c0 excl,
  lock_ok_excl excl prog = true -> wf_world w -> initial prog w c0 -> avoids prog w excl c0 ->
  conflict_serializable prog w c0.
Proof. exact lock_ok_sound_serializable. Qed.
Print Assumptions C17_serializable_partial.

(* two-phase locking along every execution: after a goroutine released a mutex it acquires none before its next call *)
Theorem C17_two_phase : forall prog w excl, atomic_ok excl prog = true -> wf_world w ->
  forall c0 tr c, initial prog w c0 -> avoids prog w excl c0 -> exec prog w c0 tr c ->
  forall k a t o1 md1 o2 md2, k < a ->
    nth_error tr k = Some (t, LRel o1 md1) -> nth_error tr a = Some (t, LAcq o2 md2) ->
    exists x o m, k < x /\ x < a /\ nth_error tr x = Some (t, LStart o m).
Proof. exact two_phase. Qed.
Print Assumptions C17_two_phase.

(* FULL statement of the serializability clause of the property text, NOT proved here (gap): "every call returns what it
   would return in some sequential order".  Missing steps: (1) the classical theorem that an execution with an acyclic
   precedence graph can be permuted, by swapping adjacent non-conflicting steps of different goroutines, into a serial
   execution with the same per-goroutine events and the same order of conflicting accesses; (2) data values: the model has
   no values, so "returns the same" is the statement that each call reads from the same writes, which (1) gives. *)
Definition C17_sequential_equivalence_full : Prop := forall prog w c0,
  lock_ok prog = true -> wf_world w -> initial prog w c0 ->
  forall tr c, exec prog w c0 tr c -> all_done c ->
  exists tr', exec prog w c0 tr' c /\ Permutation.Permutation tr tr' /\
    (* serial: the events of one top-level call are contiguous *)
    (forall a b t, a < b -> (exists la, nth_error tr' a = Some (t, la)) -> (exists lb, nth_error tr' b = Some (t, lb)) ->
       same_call tr' t a b -> forall x t' lx, a < x -> x < b -> nth_error tr' x = Some (t', lx) -> t' = t).

(* no data race, for every schedule: no reachable configuration in which two goroutines are about to perform conflicting
   accesses, and any two conflicting accesses of a trace are separated by Release(first goroutine) ... Acquire(second) *)
Theorem C17_race_free : forall prog w c0,
  disc_ok prog = true -> wf_world w -> initial prog w c0 -> race_free prog w c0.
Proof. intros prog w c0 H1 H2 H3. exact (proj1 (disc_ok_sound prog w c0 H1 H2 H3)). Qed.
Print Assumptions C17_race_free.

(* no call blocks forever, configuration form: some goroutine can always step unless all calls have returned *)
Theorem C17_no_thread_blocked_forever : forall prog w c0,
  disc_ok prog = true -> wf_world w -> initial prog w c0 -> no_thread_blocked_forever prog w c0.
Proof. intros prog w c0 H1 H2 H3. exact (proj2 (disc_ok_sound prog w c0 H1 H2 H3)). Qed.
Print Assumptions C17_no_thread_blocked_forever.

(* every guarded access is performed while the goroutine holds the object's mutex in a sufficient mode *)
Theorem C17_writes_hold_the_write_lock : forall prog w, disc_ok prog = true -> wf_world w ->
  forall th o m a f rest st, thread_inv prog w th -> t_stack th = Frame o m a (Write f :: rest) :: st ->
  guarded prog w o f /\ In W (thread_holds o th).
Proof. intros prog w _ _. exact (write_holds prog w). Qed.
Print Assumptions C17_writes_hold_the_write_lock.

(* non-vacuity: a hand-written cache with a parent pointer passes; its two-goroutine instance satisfies all hypotheses *)
Example C17_nonvacuous : lock_ok good = true /\ wf_world w2 /\ initial good w2 c_init /\
  race_free good w2 c_init /\ no_thread_blocked_forever good w2 c_init.
Proof. split; [exact good_ok|]. split; [exact w2_wf|]. split; [exact c_init_initial|]. exact good_program_is_covered. Qed.

(* serializability is not vacuous: in a concrete execution of Put and Len on one object the lock points exist (2 and 8)
   and the theorem orders the conflicting pair (write of cnt at position 5, read of cnt at position 9) *)
Example C17_serializable_nonvacuous :
  (exists c, exec good w2 c_pl tr_pl c) /\ lock_point tr_pl 0 5 2 /\ lock_point tr_pl 1 9 8.
Proof. split; [exact tr_pl_is_an_execution | exact tr_pl_lock_points]. Qed.

(* the checker rejects one hand-written program per rule *)
Example C17_rejects :
  lock_ok (bad [Method "Len" true None [[Read "cnt"; Return]]]) = false /\
  lock_ok (bad [Method "Put" true None [[Acquire R; Defer R; Write "tbl"; Return]]]) = false /\
  lock_ok (bad [get; Method "Upd" true None [[Acquire W; Defer W; CallExported Self "Get"; Return]]]) = false /\
  lock_ok (bad [Method "Put" true None [[Acquire W; Write "tbl"; Return]]]) = false /\
  lock_ok (bad [Method "Table" true None [[Acquire R; Defer R; Read "tbl"; Leak "tbl"; Return]]]) = false /\
  lock_ok (bad [Method "Odd" true None [[Acquire R; Defer R; Unknown "x.go:1 goto"; Return]]]) = false /\
  lock_ok (bad [get; Method "Fork" true None [[Acquire W; Defer W; CallExported Child "Get"; Return]]]) = false /\
  lock_ok (bad [Method "SetCfg" true None [[Acquire W; Defer W; Write "cfg"]]]) = false.
Proof. repeat split; reflexivity. Qed.

(* defects of the pinned snapshot, as shapes of the model: the self-deadlock of UpdateJustified -> InSubtree is a reachable
   configuration in which nothing can step; a reader without lock (pool Search/Prune/Reset, CachedPubkey.Pubkey) races *)
Theorem C17_snapshot_self_deadlock_refuted :
  (exists tr, exec snap w2 [Thread [] [(0, "Upd"%string)]] tr stuck_cfg) /\
  ~ all_done stuck_cfg /\ forall l c', ~ step snap w2 stuck_cfg l c'.
Proof. split; [exact snapshot_shape_reaches_stuck | exact snapshot_shape_is_deadlocked]. Qed.
Theorem C17_snapshot_unlocked_reader_refuted :
  (exists tr, exec snap2 w2 [Thread [] [(0, "Search"%string)]; Thread [] [(0, "Put"%string)]] tr racy_cfg) /\ racy racy_cfg.
Proof. exact snapshot_shape_races. Qed.
