(* C18 — Cancellation and execution-engine faults always surface as errors.
   Statements only; proofs live in Conc/ErrFlowSound.v (error flow) and Beacon/Proofs/TransitionRules.v (what the
   engine is shown).  The error-flow theorems are about ANY program of the ErrFlow language; they are instantiated
   on every run on the table regenerated from /repo's source (gen/C18/GenErrFlowCheck.v: gen_errflow_ok by
   vm_compute, gen_faults_surface := errflow_ok_sound _ gen_errflow_ok). *)
From Coq Require Import String List NArith.
From RecordUpdate Require Import RecordSet.
From V Require Import Conc.ErrFlow Conc.ErrFlowCheck Conc.ErrFlowSound.
From V Require Import Ssz.SszCore Beacon.Config Beacon.Schemas Beacon.State Beacon.Spec.Helpers Beacon.Spec.Block
  Beacon.Proofs.TransitionRules.
Import ListNotations RecordSetNotations.
Local Open Scope string_scope.

(* ---- 1. a fault that was observed is returned as an error ------------------------------------------------
   for every checked program, every call depth (fuel), every schedule (cancellation from any poll on, any script
   of engine answers, any resolution of branches / loop counts / library failures) and every function of the
   table whose only result is the error: if some Poll saw the cancelled context or some engine query was
   answered Invalid or Error, the function returns Err — not Ok, not a panic, not out-of-fuel. *)
Theorem C18_faults_surface : forall p, errflow_ok p = true ->
  forall fuel f s, is_plain p f -> fault_observed fuel p f s -> outcome fuel p f s = FRet RErr.
Proof. exact errflow_ok_sound. Qed.
Print Assumptions C18_faults_surface.

(* the (bool, error) functions between the engine and ProcessExecutionPayload hand the fault on as an error or
   as (false, nil); their callers (previous theorem) turn both into an error *)
Theorem C18_verdict_faults_surface : forall p, errflow_ok p = true ->
  forall fuel f s, is_verdict_fn p f -> fault_observed fuel p f s ->
    outcome fuel p f s = FRet RErr \/ outcome fuel p f s = FRet RFalse.
Proof. exact errflow_ok_sound_verdict. Qed.
Print Assumptions C18_verdict_faults_surface.

(* ---- 2. when neither happens the run is the undisturbed run (for EVERY program, checked or not) ---------- *)
Theorem C18_no_fault_same : forall p fuel f s,
  no_fault fuel p f s -> run fuel p f s = run fuel p f (quiet s).
Proof. exact no_fault_same. Qed.
Print Assumptions C18_no_fault_same.

Theorem C18_quiet_no_fault : forall p fuel f s, no_fault fuel p f (quiet s).
Proof. exact quiet_no_fault. Qed.
Print Assumptions C18_quiet_no_fault.

(* ---- 3. success is never reported for work that was disturbed -------------------------------------------- *)
Theorem C18_success_is_undisturbed : forall p, errflow_ok p = true ->
  forall fuel f s, is_plain p f -> outcome fuel p f s = FRet ROk -> run fuel p f s = run fuel p f (quiet s).
Proof. exact ok_is_undisturbed. Qed.
Print Assumptions C18_success_is_undisturbed.

Theorem C18_no_panic_through_handlers : forall p, errflow_ok p = true ->
  forall fuel f s fd, lookup p f = Some fd -> outcome fuel p f s <> FPanic.
Proof. exact errflow_ok_no_panic. Qed.
Print Assumptions C18_no_panic_through_handlers.

Theorem C18_out_of_fuel_before_any_fault : forall p, errflow_ok p = true ->
  forall fuel f s fd, lookup p f = Some fd -> outcome fuel p f s = FFuel -> no_fault fuel p f s.
Proof. exact out_of_fuel_before_any_fault. Qed.
Print Assumptions C18_out_of_fuel_before_any_fault.

(* ---- 4. what the engine is shown (Spec side; proved by the coordinator in Beacon/Proofs/TransitionRules.v) -
   acceptance of process_execution_payload implies that the engine oracle was asked about exactly (payload,
   kzg_commitment_to_versioned_hash of every blob commitment, latest_block_header.parent_root) and said yes, and
   the only state change is the header update; an engine that refuses everything makes it reject. *)
Theorem C18_engine_shown_spec_request : forall (E : Env) f st body st',
  process_execution_payload E f st body = Some st' ->
  let payload := body_get E f body "execution_payload" in
  let commitments := if fork_ge f Deneb then map vbytes (vseq (body_get E f body "blob_kzg_commitments")) else [] in
  engine_accepts E payload (map (kzg_commitment_to_versioned_hash E) commitments) (h_parent_root (latest_block_header st)) = true
  /\ st' = st <| latest_execution_payload_header := payload_to_header E f payload |>.
Proof. exact engine_shown_spec_request. Qed.
Print Assumptions C18_engine_shown_spec_request.

Theorem C18_engine_refusal_rejects : forall (E : Env) f st body,
  (forall p vh r, engine_accepts E p vh r = false) -> process_execution_payload E f st body = None.
Proof. exact engine_refusal_rejects. Qed.
Print Assumptions C18_engine_refusal_rejects.

(* ================================= non-vacuity and refutation witnesses ================================= *)
(* a hand-written program in the shape of the real code: a slot loop that polls, a block step that asks the
   engine through a (bool, error) helper, library getters in between *)
Definition verify_ok : fundef := mkfun "verify" "ex.go:30" VerdictFn true None true (
  Seq (Engine "ex.go:31" "IsValidBlockHash" 1 2) (
  Seq (IfErr "ex.go:31" 1 Wrap) (
  Seq (CheckVerdict "ex.go:33" 2 VPass) (
  Seq (Engine "ex.go:36" "NotifyNewPayload" 3 4) (
       Ret "ex.go:36" (RetBoth 4 3)))))).

Definition payload_ok : fundef := mkfun "payload" "ex.go:10" Plain true None true (
  Seq (Poll "ex.go:11" 1) (
  Seq (IfErr "ex.go:11" 1 Propagate) (
  Seq (CallLib "ex.go:14" "state.Slot" 2) (
  Seq (IfErr "ex.go:15" 2 Propagate) (
  Seq (Call "ex.go:18" "verify" 3 4) (
  Seq (IfErr "ex.go:18" 3 Wrap) (
  Seq (CheckVerdict "ex.go:20" 4 VToErr) (
  Seq (CallLib "ex.go:23" "state.SetLatestExecutionPayloadHeader" 5) (
       Ret "ex.go:23" (RetReg 5)))))))))).

Definition slots_ok : fundef := mkfun "slots" "ex.go:1" Plain true None true (
  Seq (Loop (Seq (Poll "ex.go:2" 1) (Seq (IfErr "ex.go:2" 1 Propagate) (
             Seq (CallLib "ex.go:3" "state.SetSlot" 2) (IfErr "ex.go:3" 2 Propagate))))) (
  Seq (Call "ex.go:5" "payload" 3 0) (
       Ret "ex.go:5" (RetReg 3)))).

Definition good : program := mkprog [slots_ok; payload_ok; verify_ok] ["slots"].

Ltac conj_compute := repeat match goal with |- _ /\ _ => split end; vm_compute; reflexivity.

(* schedules: the oracle says "two loop iterations, no library failure" *)
Definition oracle (i : nat) : nat := match i with 0 => 2 | _ => 0 end.
Definition sched (cancel : option nat) (eng : nat -> verdict) : schedule := mksched cancel eng oracle.
Definition all_valid (_ : nat) : verdict := Valid.
Definition second_invalid (j : nat) : verdict := match j with 1 => Invalid | _ => Valid end.
Definition first_error (j : nat) : verdict := match j with 0 => EngError | _ => Valid end.

Example C18_nonvacuous :
  errflow_ok good = true /\ errflow_strict good = true /\ is_plain good "slots" /\
  (* undisturbed: Ok after 3 polls and 2 engine queries *)
  run 5 good "slots" (sched None all_valid) = (FRet ROk, mkst 3 2 5 false ROk 3 0) /\
  (* cancelled from the poll number k on, for each of the three polls: observed, and Err *)
  (forall k, In k [0; 1; 2] -> fault_observed 5 good "slots" (sched (Some k) all_valid) /\
                               outcome 5 good "slots" (sched (Some k) all_valid) = FRet RErr) /\
  (* cancelled after the last poll: nobody looks any more, the run is the undisturbed one *)
  run 5 good "slots" (sched (Some 3) all_valid) = run 5 good "slots" (sched None all_valid) /\
  (* engine answers: an Invalid to the second query, an Error to the first *)
  fault_observed 5 good "slots" (sched None second_invalid) /\ outcome 5 good "slots" (sched None second_invalid) = FRet RErr /\
  fault_observed 5 good "slots" (sched None first_error) /\ outcome 5 good "slots" (sched None first_error) = FRet RErr /\
  (* the (bool, error) helper hands an Invalid on as (false, nil) *)
  outcome 5 good "verify" (sched None first_error) = FRet RErr /\
  outcome 5 good "verify" (sched None second_invalid) = FRet RFalse.
Proof.
  split; [vm_compute; reflexivity|]. split; [vm_compute; reflexivity|].
  split; [exists slots_ok; split; reflexivity|].
  split; [vm_compute; reflexivity|].
  split; [intros k [<-|[<-|[<-|[]]]]; split; vm_compute; reflexivity|].
  conj_compute.
Qed.

(* ---- one failing program per failure reason, with the schedule on which it wrongly reports success ---- *)
Definition with_payload (body : stmt) : program :=
  mkprog [slots_ok; mkfun "payload" "ex.go:10" Plain true None true body; verify_ok] ["slots"].

(* (a) the poll's error is looked at and dropped *)
Definition bad_dropped : program := with_payload (
  Seq (Poll "ex.go:11" 1) (
  Seq (IfErr "ex.go:11" 1 Drop) (
       Ret "ex.go:24" RetNil))).
Example C18_dropped_error_refuted :
  errflow_ok bad_dropped = false /\
  map show_problem (fault_problems bad_dropped) = [("payload", "ex.go:11", "Dropped", "ex.go:11")] /\
  fault_observed 5 bad_dropped "slots" (sched (Some 2) all_valid) /\
  outcome 5 bad_dropped "slots" (sched (Some 2) all_valid) = FRet ROk.
Proof. conj_compute. Qed.

(* (b) `return nil` in the handler of the engine helper's error *)
Definition bad_return_nil : program := with_payload (
  Seq (Call "ex.go:18" "verify" 3 4) (
  Seq (IfErr "ex.go:18" 3 ReturnNil) (
  Seq (CheckVerdict "ex.go:20" 4 VToErr) (
       Ret "ex.go:24" RetNil)))).
Example C18_return_nil_refuted :
  errflow_ok bad_return_nil = false /\
  map show_problem (fault_problems bad_return_nil) = [("payload", "ex.go:18", "SwallowedReturnNil", "ex.go:18")] /\
  fault_observed 5 bad_return_nil "slots" (sched None first_error) /\
  outcome 5 bad_return_nil "slots" (sched None first_error) = FRet ROk.
Proof. conj_compute. Qed.

(* (c) the `false` verdict is ignored: only the error half of (valid, err) is returned *)
Definition bad_ignored_invalid : program := with_payload (
  Seq (Call "ex.go:18" "verify" 3 4) (
       Ret "ex.go:19" (RetReg 3))).
Example C18_ignored_invalid_refuted :
  errflow_ok bad_ignored_invalid = false /\
  map show_problem (fault_problems bad_ignored_invalid) = [("payload", "ex.go:19", "IgnoredInvalid", "ex.go:18")] /\
  fault_observed 5 bad_ignored_invalid "slots" (sched None second_invalid) /\
  outcome 5 bad_ignored_invalid "slots" (sched None second_invalid) = FRet ROk.
Proof. conj_compute. Qed.

(* (d) the error is overwritten by a later call before it is tested *)
Definition bad_overwritten : program := with_payload (
  Seq (Poll "ex.go:11" 1) (
  Seq (CallLib "ex.go:14" "state.Slot" 1) (
  Seq (IfErr "ex.go:15" 1 Propagate) (
       Ret "ex.go:24" RetNil)))).
Example C18_overwritten_refuted :
  errflow_ok bad_overwritten = false /\
  map show_problem (fault_problems bad_overwritten) = [("payload", "ex.go:14", "Overwritten", "ex.go:11")] /\
  fault_observed 5 bad_overwritten "slots" (sched (Some 2) all_valid) /\
  outcome 5 bad_overwritten "slots" (sched (Some 2) all_valid) = FRet ROk.
Proof. conj_compute. Qed.

(* the strict discipline is strictly stronger: a library error turned into success (the shape of
   process_deposit's "deposit is skipped, still valid block") passes errflow_ok — it cannot hide a fault —
   and is listed by errflow_strict *)
Definition lenient : program := with_payload (
  Seq (CallLib "ex.go:14" "pubkey.Pubkey" 1) (
  Seq (IfErr "ex.go:15" 1 ReturnNil) (
       Ret "ex.go:24" RetNil))).
Example C18_leaf_error_is_not_a_fault :
  errflow_ok lenient = true /\ errflow_strict lenient = false /\
  map show_problem (leaf_problems lenient) = [("payload", "ex.go:15", "SwallowedReturnNil", "ex.go:14")].
Proof. conj_compute. Qed.
