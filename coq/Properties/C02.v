(* C02 — Slot, epoch and fork-upgrade processing equals the consensus spec.
   The executable Spec process_slots (with process_epoch of all forks and the in-place upgrades) is run, extracted,
   against common.ProcessSlots on every slot advance of every generated chain (byte-identical post-state).
   Refinement theorems (zrnt's batched/cached algorithms = the Spec's sub-transitions) come from Beacon/Refine. *)
From Coq Require Import NArith List.
From V Require Import Ssz.SszCore Beacon.Config Beacon.Schemas Beacon.State Beacon.Spec.Helpers Beacon.Spec.Transition
  Beacon.Proofs.TransitionRules.
Local Open Scope N_scope.

Theorem C02_past_target_rejected : forall E f st target, target <= slot st -> process_slots E f st target = None.
Proof. exact process_slots_past_rejected. Qed.
Print Assumptions C02_past_target_rejected.

(* per-slot root caching *)
Theorem C02_slot_caches_state_root : forall E f st,
  slot st mod SLOTS_PER_HISTORICAL_ROOT (cfg E) < N.of_nat (length (state_roots st)) ->
  nthN (state_roots (process_slot E f st)) (slot st mod SLOTS_PER_HISTORICAL_ROOT (cfg E)) = Some (state_root E f st)
  /\ slot (process_slot E f st) = slot st.
Proof. exact process_slot_caches_state_root. Qed.
Print Assumptions C02_slot_caches_state_root.
