(* C02 — Slot, epoch and fork-upgrade processing equals the consensus spec.
   (a) The executable Spec process_slots (process_epoch of all forks, in-place upgrades) is run, extracted, against
       common.ProcessSlots on every slot advance of every generated chain (byte-identical post-state).
   (b) Refinement theorems: for each epoch sub-transition an Impl model that mirrors zrnt's algorithm as written in Go
       (coq/Beacon/Impl) is PROVED equal to the Spec function (coq/Beacon/Spec/Epoch.v) for all states satisfying the
       stated hypotheses (coq/Beacon/Refine); the Impl models are tied to the Go code by the C02IMPL correspondence
       stream (harness/cmd/c02impl, Beacon/Refine/ImplRun.v).  See design/C02-refine.md.
   Statements only; `None` in an Impl = Go error/panic; Go uint64 arithmetic is add64/mul64/sub64 in the Impl. *)
From Coq Require Import NArith List Bool.
From V Require Import Base.U64 Ssz.SszCore Beacon.Config Beacon.Schemas Beacon.State Beacon.Spec.Helpers Beacon.Spec.Epoch
  Beacon.Spec.Transition Beacon.Proofs.TransitionRules Beacon.Proofs.C08Theorems.
From V Require Import Beacon.Impl.Flat Beacon.Impl.Registry Beacon.Impl.Justification Beacon.Impl.Final Beacon.Impl.Slashings
  Beacon.Impl.AltairAttester Beacon.Impl.Phase0Attester.
From V Require Import Beacon.Refine.ListLemmas Beacon.Refine.RegistryRefine Beacon.Refine.RegistryWitness
  Beacon.Refine.JustificationRefine Beacon.Refine.FinalRefine Beacon.Refine.SlashingsRefine Beacon.Refine.EpochCompose
  Beacon.Refine.AltairDomain Beacon.Refine.AltairRefine Beacon.Refine.AltairCheck Beacon.Refine.AltairWitness
  Beacon.Refine.Phase0Refine Beacon.Refine.Phase0Check Beacon.Refine.Phase0Witness Beacon.Refine.Fixtures.
Import ListNotations.
Local Open Scope N_scope.

(* ================= process_slots: frame facts of the Spec ================= *)
Theorem C02_past_target_rejected : forall E f st target, target <= slot st -> process_slots E f st target = None.
Proof. exact process_slots_past_rejected. Qed.
Print Assumptions C02_past_target_rejected.

(* per-slot root caching *)
Theorem C02_slot_caches_state_root : forall E f st,
  slot st mod SLOTS_PER_HISTORICAL_ROOT (cfg E) < N.of_nat (length (state_roots st)) ->
  nthN (state_roots (process_slot E f st)) (slot st mod SLOTS_PER_HISTORICAL_ROOT (cfg E)) = Some (state_root E f st)
  /\ slot (process_slot E f st) = slot st.
Proof. exact process_slot_caches_state_root. Qed.
Print Assumptions C02_slot_caches_state_root.

(* advancing reaches exactly the target slot, and advancing in two calls equals advancing in one *)
Theorem C02_process_slots_reaches : forall E f st t f' st', process_slots E f st t = Some (f', st') -> slot st' = t.
Proof. exact T_process_slots_reaches. Qed.
Print Assumptions C02_process_slots_reaches.
Theorem C02_process_slots_compose : forall E f st t t',
  slot st < t -> t < t' -> t' - slot st <= MAX_SLOTS_PER_CALL ->
  process_slots E f st t' =
  match process_slots E f st t with
  | Some (f1, st1) => process_slots E f1 st1 t'
  | None => None
  end.
Proof. exact T_process_slots_compose. Qed.
Print Assumptions C02_process_slots_compose.

(* ================= registry updates =================
   Go: phase0.ComputeRegistryProcessData, phase0.ProcessEpochRegistryUpdates, deneb.ProcessEpochRegistryUpdates.
   RegBounds c ce vals: CHURN_LIMIT_QUOTIENT <> 0; 2*|vals| < 2^64; ce+1+MAX_SEED_LOOKAHEAD+|vals|+1+MIN_VALIDATOR_WITHDRAWABILITY_DELAY
   < 2^64-1; every exit epoch is FAR_FUTURE or +|vals|+1+DELAY < 2^64-1 (no epoch arithmetic reaches 2^64-1). *)

(* the scan returns (max (exit epochs ∪ {activation-exit epoch}), number of validators exiting at that epoch) *)
Theorem C02_exit_scan_spec : forall (c : Config) (flats : list FlatValidator) (ce : N),
  ce + 1 + MAX_SEED_LOOKAHEAD c < max64 ->
  N.of_nat (length flats) < two64 ->
  let q := maxl (nonfar_exits flats) (ce + 1 + MAX_SEED_LOOKAHEAD c) in
  exit_scan c flats ce = (q, exits_at q flats).
Proof. exact exit_scan_spec. Qed.
Print Assumptions C02_exit_scan_spec.

(* batched ejection (one pre-computed queue end and churn, advanced by a counter) = iterated initiate_validator_exit *)
Theorem C02_eject_batch_refines : forall (E : Env) (st : BeaconState),
  let ce := get_current_epoch E st in
  RegBounds (cfg E) ce (validators st) ->
  forall rd, compute_registry_process_data (cfg E) (flatten_validators (validators st)) ce = Some rd ->
  exists vals',
    eject_batch (cfg E) rd (validators st) = Some vals' /\
    fold_left (fun acc i => match acc with Some st0 => initiate_validator_exit E st0 i | None => None end)
              (rd_to_eject rd) (Some st) = Some (with_validators st vals').
Proof. exact eject_batch_refines. Qed.
Print Assumptions C02_eject_batch_refines.

(* sort all pending (eligibility <= current epoch), cut at the churn limit, stop at eligibility > finalized epoch
   = the spec's filter (eligibility <= finalized epoch), sort, cut *)
Theorem C02_activation_queue_prefix : forall (flats : list FlatValidator) (ce fin limit : N),
  fin <= ce ->
  let fin_cond := fun fl => (fl_activation_epoch fl =? FAR_FUTURE_EPOCH) && (fl_activation_eligibility_epoch fl <=? fin) in
  takeWhile (fun i => elig_of flats i <=? fin) (cut (sort_idx flats (idx_where (maybe_cond ce) 0 flats)) limit) =
  firstn (N.to_nat limit) (sort_idx flats (idx_where fin_cond 0 flats)).
Proof. exact activation_queue_prefix. Qed.
Print Assumptions C02_activation_queue_prefix.

(* the whole sub-transition, f = Phase0 .. Capella (churn limit) and Deneb (activation churn limit) *)
Theorem C02_registry_refines : forall (E : Env) (f : fork) (st : BeaconState),
  let ce := get_current_epoch E st in
  RegBounds (cfg E) ce (validators st) ->
  cp_epoch (finalized_checkpoint st) <= ce ->
  exists st',
    Registry.process_registry_updates (cfg E) f ce (flatten_validators (validators st)) st = Some st' /\
    Epoch.process_registry_updates E f st = Some st'.
Proof. exact registry_refines. Qed.
Print Assumptions C02_registry_refines.

(* the snapshot taken BEFORE registry updates is still right afterwards for what slashings / effective balances read,
   and the epochs context's current active set is still the state's *)
Theorem C02_registry_frame : forall (E : Env) (f : fork) (st : BeaconState),
  let ce := get_current_epoch E st in
  RegBounds (cfg E) ce (validators st) ->
  cp_epoch (finalized_checkpoint st) <= ce ->
  (forall v, In v (validators st) -> v_slashed v = true -> v_exit_epoch v <> FAR_FUTURE_EPOCH) ->
  Forall2 (frame_rel ce) (flatten_validators (validators st)) (validators (registry_result E f st)).
Proof. exact registry_frame. Qed.
Print Assumptions C02_registry_frame.
Theorem C02_registry_keeps_active : forall (E : Env) (f : fork) (st : BeaconState),
  let ce := get_current_epoch E st in
  RegBounds (cfg E) ce (validators st) -> cp_epoch (finalized_checkpoint st) <= ce ->
  (forall v, In v (validators st) -> v_slashed v = true -> v_exit_epoch v <> FAR_FUTURE_EPOCH) ->
  get_active_validator_indices (registry_result E f st) ce = get_active_validator_indices st ce.
Proof. exact registry_keeps_active. Qed.
Print Assumptions C02_registry_keeps_active.

(* ================= justification and finalization =================
   Go: phase0.ProcessEpochJustification (all forks), JustificationBits.NextEpoch / IsJustified (bits in one byte).
   JustHyps: d.CurrentEpoch = current epoch; 4 stored bits; SLOTS_PER_EPOCH, SLOTS_PER_HISTORICAL_ROOT <> 0;
   ce*SLOTS_PER_EPOCH < 2^64; the spec's own range assertion for the two block roots; total*2, prev*3, cur*3 < 2^64;
   justified epochs +3 / +2 < 2^64. *)
Theorem C02_justification_refines : forall (E : Env) (f : fork) (st : BeaconState) (d : JustificationStakeData)
    (prev_target cur_target : N),
  JustHyps E st d ->
  js_total_active_stake d = get_total_active_balance E st ->
  js_prev_target_stake d = prev_target -> js_curr_target_stake d = cur_target ->
  process_epoch_justification (cfg E) d st =
  (if get_current_epoch E st <=? GENESIS_EPOCH + 1 then Some st
   else weigh_justification_and_finalization E st (get_total_active_balance E st) prev_target cur_target).
Proof. exact justification_refines. Qed.
Print Assumptions C02_justification_refines.

(* ================= effective balances, resets, historical accumulators, participation rotation =================
   Go: phase0.ProcessEffectiveBalanceUpdates (reads the stale snapshot), ProcessEth1DataReset, ProcessSlashingsReset,
   ProcessRandaoMixesReset, ProcessHistoricalRootsUpdate, capella.ProcessHistoricalSummariesUpdate,
   ProcessParticipationRecordUpdates, altair.ProcessParticipationFlagUpdates. *)
Theorem C02_eff_balance_refines : forall (E : Env) (flats : list FlatValidator) (st : BeaconState),
  EffBalHyps E flats st ->
  Final.process_effective_balance_updates E flats st = Some (Epoch.process_effective_balance_updates E st).
Proof. exact eff_balance_refines. Qed.
Print Assumptions C02_eff_balance_refines.
Theorem C02_eth1_data_reset_refines : forall (E : Env) (next_epoch : N) (st : BeaconState),
  next_epoch = get_current_epoch E st + 1 -> EPOCHS_PER_ETH1_VOTING_PERIOD (cfg E) <> 0 ->
  Final.process_eth1_data_reset E next_epoch st = Some (Epoch.process_eth1_data_reset E st).
Proof. exact eth1_data_reset_refines. Qed.
Print Assumptions C02_eth1_data_reset_refines.
Theorem C02_slashings_reset_refines : forall (E : Env) (next_epoch : N) (st : BeaconState),
  next_epoch = get_current_epoch E st + 1 -> EPOCHS_PER_SLASHINGS_VECTOR (cfg E) <> 0 ->
  N.of_nat (length (slashings st)) = EPOCHS_PER_SLASHINGS_VECTOR (cfg E) ->
  Final.process_slashings_reset E next_epoch st = Some (Epoch.process_slashings_reset E st).
Proof. exact slashings_reset_refines. Qed.
Print Assumptions C02_slashings_reset_refines.
Theorem C02_randao_mixes_reset_refines : forall (E : Env) (next_epoch : N) (st : BeaconState),
  next_epoch = get_current_epoch E st + 1 -> EPOCHS_PER_HISTORICAL_VECTOR (cfg E) <> 0 ->
  N.of_nat (length (randao_mixes st)) = EPOCHS_PER_HISTORICAL_VECTOR (cfg E) ->
  Final.process_randao_mixes_reset E next_epoch st = Some (Epoch.process_randao_mixes_reset E st).
Proof. exact randao_mixes_reset_refines. Qed.
Print Assumptions C02_randao_mixes_reset_refines.
(* zrnt hashes the two vector roots instead of building a HistoricalBatch: htr(Container[a,b]) = H(htr a ++ htr b) *)
Theorem C02_historical_refines : forall (E : Env) (f : fork) (next_epoch : N) (st : BeaconState),
  next_epoch = get_current_epoch E st + 1 ->
  SLOTS_PER_EPOCH (cfg E) <> 0 -> SLOTS_PER_HISTORICAL_ROOT (cfg E) / SLOTS_PER_EPOCH (cfg E) <> 0 ->
  N.of_nat (length (historical_roots st)) < HISTORICAL_ROOTS_LIMIT (cfg E) ->
  N.of_nat (length (historical_summaries st)) < HISTORICAL_ROOTS_LIMIT (cfg E) ->
  Final.process_historical_update E f next_epoch st = Some (Epoch.process_historical_update E f st).
Proof. exact historical_refines. Qed.
Print Assumptions C02_historical_refines.
Theorem C02_participation_record_refines : forall st : BeaconState,
  Final.process_participation_record_updates st = Epoch.process_participation_record_updates st.
Proof. exact participation_record_refines. Qed.
Print Assumptions C02_participation_record_refines.
Theorem C02_participation_flag_refines : forall st : BeaconState,
  length (current_epoch_participation st) = length (validators st) ->
  Final.process_participation_flag_updates st = Epoch.process_participation_flag_updates st.
Proof. exact participation_flag_refines. Qed.
Print Assumptions C02_participation_flag_refines.

(* ================= slashings =================
   Go: phase0.ProcessEpochSlashings (all forks, per-fork multiplier).  zrnt's factored penalty (eff/inc)*adj/total*inc is
   literally the spec's expression: no division identity is used, only wrap discharge (SlashHyps lists the bounds). *)
Theorem C02_slashings_refines : forall (E : Env) (f : fork) (ce : N) (active : list N) (flats : list FlatValidator)
    (st : BeaconState),
  SlashHyps E f ce active flats st ->
  Slashings.process_epoch_slashings (cfg E) f ce active flats st = Some (Epoch.process_slashings E f st).
Proof. exact slashings_refines. Qed.
Print Assumptions C02_slashings_refines.

(* ================= altair family: attester data, flag deltas, inactivity =================
   Go: altair.ComputeEpochAttesterData (fixed code), ComputeFlagDeltas, ComputeInactivityPenaltyDeltas,
   ProcessInactivityUpdates, ProcessEpochRewardsAndPenalties (+ common.Deltas.Add, ApplyDeltas); same code for
   bellatrix, capella, deneb.  AltairHyps: current epoch >= 1; epc fields = the spec's values (C08); per-validator lists
   as long as the registry; increment <> 0; pe+1 and the effective-balance sums over both active sets < 2^64. *)
Theorem C02_attester_data_refines : forall (E : Env) (st : BeaconState) (epc : EpcView),
  AltairHyps E st epc ->
  let pe := get_previous_epoch E st in
  let ce := get_current_epoch E st in
  exists ad,
    compute_epoch_attester_data (cfg E) epc (flatten_validators (validators st)) st = Some ad /\
    ad_prev_epoch ad = pe /\ ad_cur_epoch ad = ce /\
    ad_flats ad = flatten_validators (validators st) /\
    ad_prev_part ad = previous_epoch_participation st /\
    ad_eligible ad = get_eligible_validator_indices E st /\
    (forall k, option_map (get_total_balance E st) (get_unslashed_participating_indices E st k pe) =
               Some (match k with 0 => ad_prev_source_stake ad | 1 => ad_prev_target_stake ad | 2 => ad_prev_head_stake ad
                             | _ => N.max (EFFECTIVE_BALANCE_INCREMENT (cfg E))
                                      (sel_sum st (part_sel st (previous_epoch_participation st) k) (get_active_validator_indices st pe)) end)) /\
    option_map (get_total_balance E st) (get_unslashed_participating_indices E st TIMELY_TARGET_FLAG_INDEX ce) =
      Some (ad_cur_target_stake ad).
Proof. exact attester_data_refines. Qed.
Print Assumptions C02_attester_data_refines.
Theorem C02_flag_deltas_refines : forall (E : Env) (st : BeaconState) (k : N) (epc : EpcView) (ad : EpochAttesterData),
  AltairHyps E st epc -> ad_matches E st ad -> k < 3 -> FlagBounds E st k ->
  compute_flag_deltas (cfg E) epc ad (2 ^ k) (flag_weight k) (is_in_inactivity_leak E st) =
  option_map (fun rp => mkDeltas (fst rp) (snd rp)) (get_flag_index_deltas E st k).
Proof. exact flag_deltas_refines. Qed.
Print Assumptions C02_flag_deltas_refines.
Theorem C02_inactivity_deltas_refines : forall (E : Env) (f : fork) (st : BeaconState) (epc : EpcView) (ad : EpochAttesterData),
  AltairHyps E st epc -> ad_matches E st ad -> InactBounds E f st ->
  compute_inactivity_penalty_deltas (cfg E) f ad (inactivity_scores st) =
  option_map (fun rp => mkDeltas (fst rp) (snd rp)) (get_inactivity_penalty_deltas E f st).
Proof. exact inactivity_deltas_refines. Qed.
Print Assumptions C02_inactivity_deltas_refines.
(* finalized epoch <= previous epoch holds in every reachable state at this point of process_epoch (finalized <= old
   current-justified <= previous epoch); outside it zrnt's uint64 finality delay wraps *)
Theorem C02_inactivity_updates_refines : forall (E : Env) (f : fork) (st : BeaconState) (epc : EpcView) (ad : EpochAttesterData),
  AltairHyps E st epc -> ad_matches E st ad ->
  cp_epoch (finalized_checkpoint st) <= get_previous_epoch E st ->
  (forall s, In s (inactivity_scores st) -> s + INACTIVITY_SCORE_BIAS (cfg E) < two64) ->
  AltairAttester.process_inactivity_updates (cfg E) ad st = Epoch.process_inactivity_updates E st.
Proof. exact inactivity_updates_refines. Qed.
Print Assumptions C02_inactivity_updates_refines.

(* PARTIAL: hypothesis NoMidSaturation is not proved to be an invariant of reachable states.
   zrnt sums the source/target/head/inactivity delta sets and applies them once; the spec applies them one after the
   other, each decrease saturating at 0.  They agree iff no intermediate application saturates (NoMidSaturation, for
   every validator: p0 <= b+r0, p0+p1 <= b+r0+r1, p0+p1+p2 <= b+r0+r1+r2, and no sum wraps).
   Believed unreachable: a validator with effective balance >= 1 increment has balance >= effective - 0.25 ETH - (one
   epoch's slashing and sync penalties), while the three flag penalties of an epoch are < base_reward =
   eff * BASE_REWARD_FACTOR / sqrt(total) / ... , orders of magnitude below the balance under the shipped presets
   (a full withdrawal empties a still-eligible validator only if MIN_VALIDATOR_WITHDRAWABILITY_DELAY = 0).
   Witness of the difference outside the hypothesis: C02_altair_delta_order_refuted below.  Not patched in /repo. *)
Theorem C02_altair_rewards_refines_partial : forall (E : Env) (f : fork) (st : BeaconState) (epc : EpcView) (ad : EpochAttesterData),
  f <> Phase0 ->
  AltairHyps E st epc -> ad_matches E st ad ->
  cp_epoch (finalized_checkpoint st) <= get_previous_epoch E st ->
  FlagBounds E st 0 -> FlagBounds E st 1 -> FlagBounds E st 2 -> InactBounds E f st ->
  NoMidSaturation E f st ->
  process_epoch_rewards_and_penalties (cfg E) f epc ad st = Epoch.process_rewards_and_penalties E f st.
Proof. exact altair_rewards_refines. Qed.
Print Assumptions C02_altair_rewards_refines_partial.
(* the same from decidable hypotheses and the context computed from the state *)
Theorem C02_altair_rewards_refines_checked_partial : forall (E : Env) (f : fork) (st : BeaconState),
  f <> Phase0 -> altair_rewards_hypsb E f st = true ->
  exists ad,
    compute_epoch_attester_data (cfg E) (fresh_epc E st) (flatten_validators (validators st)) st = Some ad /\
    process_epoch_rewards_and_penalties (cfg E) f (fresh_epc E st) ad st = Epoch.process_rewards_and_penalties E f st.
Proof. exact altair_rewards_refines_checked. Qed.
Print Assumptions C02_altair_rewards_refines_checked_partial.

(* ================= phase0: attester statuses, stakes, attestation deltas =================
   Go: phase0.ComputeEpochAttesterData (AttesterStatus flags / earliest inclusion per validator, built by one pass over the
   pending attestations with the epochs context's committees), phase0.AttestationRewardsAndPenalties (one loop over the
   validators, five Deltas), phase0.ProcessEpochRewardsAndPenalties.  `committee_of` is epc.GetBeaconCommittee.
   P0Hyps: current epoch >= 1; epc epochs and total active stake = the spec's; SLOTS_PER_EPOCH, SLOTS_PER_HISTORICAL_ROOT <> 0
   and the block-roots vector full; the spec's own range assertion for the two epoch start slots; every pending attestation
   is AttOk (committee_of = get_beacon_committee, bits as long as the committee, members and proposer index inside the
   registry, slot inside the block-roots range, inclusion delay <> 0: all enforced by process_attestation); balances as long
   as the registry; increment <> 0; sum of all effective balances < 2^64.
   P0Bounds: PROPOSER_REWARD_QUOTIENT, INACTIVITY_PENALTY_QUOTIENT <> 0; eff*BASE_REWARD_FACTOR, base*(all effective/inc),
   eff*finality_delay < 2^64; balance + summed rewards and summed penalties of every validator < 2^64. *)
Theorem C02_phase0_attester_data_refines : forall (E : Env) (st : BeaconState) (committee_of : N -> N -> option (list N)) (epc : EpcView),
  P0Hyps E st committee_of epc ->
  exists ad,
    compute_epoch_attester_data0 (cfg E) committee_of epc (flatten_validators (validators st)) st = Some ad /\
    p0_prev_epoch ad = get_previous_epoch E st /\ p0_cur_epoch ad = get_current_epoch E st /\
    p0_flats ad = flatten_validators (validators st) /\
    p0_statuses ad = statuses_of E st (flatten_validators (validators st)) /\
    p0_prev_source_stake ad = N.max (EFFECTIVE_BALANCE_INCREMENT (cfg E))
      (sel_sum0 st (fun i => f_ps E st i && un st i) 0 (length (validators st))) /\
    p0_prev_target_stake ad = N.max (EFFECTIVE_BALANCE_INCREMENT (cfg E))
      (sel_sum0 st (fun i => f_ps E st i && un st i && f_pt E st i) 0 (length (validators st))) /\
    p0_prev_head_stake ad = N.max (EFFECTIVE_BALANCE_INCREMENT (cfg E))
      (sel_sum0 st (fun i => f_ps E st i && un st i && f_pt E st i && f_ph E st i) 0 (length (validators st))) /\
    p0_cur_target_stake ad = N.max (EFFECTIVE_BALANCE_INCREMENT (cfg E))
      (sel_sum0 st (fun i => f_ct E st i && un st i) 0 (length (validators st))).
Proof. exact phase0_attester_data_refines. Qed.
Print Assumptions C02_phase0_attester_data_refines.
(* those four stakes are the spec's attesting balances (the inputs of justification and of the rewards) *)
Theorem C02_phase0_stakes_spec : forall (E : Env) (st : BeaconState) (committee_of : N -> N -> option (list N)) (epc : EpcView)
    (ad : Phase0AttesterData),
  P0Hyps E st committee_of epc ->
  p0_prev_source_stake ad = N.max (EFFECTIVE_BALANCE_INCREMENT (cfg E))
    (sel_sum0 st (fun i => f_ps E st i && un st i) 0 (length (validators st))) ->
  p0_prev_target_stake ad = N.max (EFFECTIVE_BALANCE_INCREMENT (cfg E))
    (sel_sum0 st (fun i => f_ps E st i && un st i && f_pt E st i) 0 (length (validators st))) ->
  p0_prev_head_stake ad = N.max (EFFECTIVE_BALANCE_INCREMENT (cfg E))
    (sel_sum0 st (fun i => f_ps E st i && un st i && f_pt E st i && f_ph E st i) 0 (length (validators st))) ->
  p0_cur_target_stake ad = N.max (EFFECTIVE_BALANCE_INCREMENT (cfg E))
    (sel_sum0 st (fun i => f_ct E st i && un st i) 0 (length (validators st))) ->
  match get_matching_source_attestations E st (get_previous_epoch E st) with Some a => get_attesting_balance E st a | None => None end
    = Some (p0_prev_source_stake ad) /\
  match get_matching_target_attestations E st (get_previous_epoch E st) with Some a => get_attesting_balance E st a | None => None end
    = Some (p0_prev_target_stake ad) /\
  match get_matching_head_attestations E st (get_previous_epoch E st) with Some a => get_attesting_balance E st a | None => None end
    = Some (p0_prev_head_stake ad) /\
  match get_matching_target_attestations E st (get_current_epoch E st) with Some a => get_attesting_balance E st a | None => None end
    = Some (p0_cur_target_stake ad).
Proof. exact phase0_stakes_spec. Qed.
Print Assumptions C02_phase0_stakes_spec.
Theorem C02_phase0_rewards_refines : forall (E : Env) (st : BeaconState) (committee_of : N -> N -> option (list N)) (epc : EpcView),
  P0Hyps E st committee_of epc ->
  P0Bounds E st ->
  N.of_nat (length (validators st)) < max64 ->
  cp_epoch (finalized_checkpoint st) <= get_previous_epoch E st ->
  exists ad,
    compute_epoch_attester_data0 (cfg E) committee_of epc (flatten_validators (validators st)) st = Some ad /\
    process_epoch_rewards_and_penalties0 (cfg E) epc ad st = Epoch.process_rewards_and_penalties E Phase0 st.
Proof. exact phase0_rewards_refines. Qed.
Print Assumptions C02_phase0_rewards_refines.
(* the same from decidable hypotheses *)
Theorem C02_phase0_rewards_refines_checked : forall (E : Env) (st : BeaconState) (committee_of : N -> N -> option (list N)) (epc : EpcView),
  p0_rewards_hypsb E st committee_of epc = true ->
  exists ad,
    compute_epoch_attester_data0 (cfg E) committee_of epc (flatten_validators (validators st)) st = Some ad /\
    process_epoch_rewards_and_penalties0 (cfg E) epc ad st = Epoch.process_rewards_and_penalties E Phase0 st.
Proof. exact phase0_rewards_refines_checked. Qed.
Print Assumptions C02_phase0_rewards_refines_checked.

(* ================= defects of the pinned snapshot (fixed in /repo) and the open finding ================= *)
(* exit-queue churn counted exits of earlier epochs (fix d9811fa): exits at 7 and 8, activation-exit epoch 5, churn
   limit 2 => the original scan reports (8,2), sends the ejected validator to epoch 9; spec and repaired code: 8 *)
Theorem C02_registry_orig_refuted :
  exists st : BeaconState,
    let ce := get_current_epoch tiny_env st in
    RegBounds tiny_cfg ce (validators st) /\
    cp_epoch (finalized_checkpoint st) <= ce /\
    exists a b,
      process_registry_updates_orig tiny_cfg Phase0 ce (flatten_validators (validators st)) st = Some a /\
      Epoch.process_registry_updates tiny_env Phase0 st = Some b /\
      map v_exit_epoch (validators a) = [7; 8; 9] /\
      map v_exit_epoch (validators b) = [7; 8; 8] /\
      exit_scan_orig tiny_cfg (flatten_validators (validators st)) ce = (8, 2) /\
      exit_scan tiny_cfg (flatten_validators (validators st)) ce = (8, 1).
Proof. exact registry_orig_refuted. Qed.
Print Assumptions C02_registry_orig_refuted.
(* altair current-epoch target stake summed over the previous epoch's active set (fix dcd1587) *)
Theorem C02_altair_curr_target_orig_refuted :
  exists st : BeaconState,
    let E := tiny_env in
    let epc := fresh_epc E st in
    let flats := flatten_validators (validators st) in
    let total := get_total_active_balance E st in
    altair_hypsb E st = true /\
    option_map (get_total_balance E st)
      (get_unslashed_participating_indices E st TIMELY_TARGET_FLAG_INDEX (get_current_epoch E st)) = Some (128 * ETH) /\
    cur_target_of (compute_epoch_attester_data tiny_cfg epc flats st) = Some (128 * ETH) /\
    cur_target_of (compute_epoch_attester_data_orig tiny_cfg epc flats st) = Some (64 * ETH) /\
    (total * 2 <=? 128 * ETH * 3) = true /\
    (total * 2 <=? 64 * ETH * 3) = false.
Proof. exact altair_curr_target_orig_refuted. Qed.
Print Assumptions C02_altair_curr_target_orig_refuted.
(* OPEN FINDING (current /repo): sum-then-apply vs sequential application; every hypothesis of
   C02_altair_rewards_refines_partial holds except NoMidSaturation: zrnt 1240354 Gwei, spec 2685267 Gwei *)
Theorem C02_altair_delta_order_refuted :
  exists st : BeaconState,
    let E := tiny_env in
    altair_hypsb E st = true /\
    (cp_epoch (finalized_checkpoint st) <=? get_previous_epoch E st) = true /\
    flag_boundsb E st 0 = true /\ flag_boundsb E st 1 = true /\ flag_boundsb E st 2 = true /\ inact_boundsb E Bellatrix st = true /\
    no_mid_saturationb E Bellatrix st = false /\
    option_map (fun s => nth 0 (balances s) 0) (impl_rewards Bellatrix st) = Some 1240354 /\
    option_map (fun s => nth 0 (balances s) 0) (Epoch.process_rewards_and_penalties E Bellatrix st) = Some 2685267.
Proof. exact altair_delta_order_refuted. Qed.
Print Assumptions C02_altair_delta_order_refuted.

(* ================= non-vacuity ================= *)
Example C02_registry_nonvacuous :
  let ce := get_current_epoch tiny_env reg_example in
  RegBounds tiny_cfg ce (validators reg_example) /\
  cp_epoch (finalized_checkpoint reg_example) <= ce /\
  option_map (fun s => map (fun v => (v_activation_eligibility_epoch v, v_activation_epoch v, v_exit_epoch v)) (validators s))
    (Epoch.process_registry_updates tiny_env Phase0 reg_example)
  = Some [ (0, 0, 15); (0, 0, 15); (0, 0, 16); (0, 0, 16); (11, FAR, FAR); (7, 15, FAR); (9, FAR, FAR); (7, 15, FAR) ].
Proof. exact registry_nonvacuous. Qed.
Example C02_justification_nonvacuous :
  JustHyps tiny_env just_example just_example_data /\
  option_map (fun s => (justification_bits s, cp_epoch (current_justified_checkpoint s), cp_epoch (finalized_checkpoint s)))
    (process_epoch_justification tiny_cfg just_example_data just_example) = Some ([true; true; true; false], 3, 2).
Proof. exact justification_nonvacuous. Qed.
Example C02_altair_nonvacuous :
  let E := tiny_env in
  altair_rewards_hypsb E Altair w_ok = true /\
  is_in_inactivity_leak E w_ok = true /\
  option_map balances (Epoch.process_rewards_and_penalties E Altair w_ok) = Some [32000000000; 30998465585; 29995468163; 16997511401] /\
  option_map inactivity_scores (Epoch.process_inactivity_updates E w_ok) = Some [0; 8; 44; 1004].
Proof. exact altair_nonvacuous. Qed.
Example C02_phase0_nonvacuous :
  let E := tiny_env in
  p0_rewards_hypsb E w_p0 (get_beacon_committee E w_p0) (fresh_epc E w_p0) = true /\
  is_in_inactivity_leak E w_p0 = true /\
  option_map (fun x => map (fun s => (as_inclusion_delay s, as_attested_proposer s, flags_byte (as_flags s))) (p0_statuses x))
    (compute_epoch_attester_data0 tiny_cfg (get_beacon_committee E w_p0) (fresh_epc E w_p0) (flatten_validators (validators w_p0)) w_p0)
  = Some [ (1, 6, 255); (2, 0, 203); (1, 1, 135); (1, 4, 193); (0, max64, 192); (0, max64, 192); (0, max64, 192); (0, max64, 192) ] /\
  option_map balances (Epoch.process_rewards_and_penalties E Phase0 w_p0)
  = Some [32000130639; 31997452527; 29993034739; 16997776595; 31992879454; 0; 31992940691; 31992810052].
Proof. exact phase0_nonvacuous. Qed.

(* ================= assembly: sync rotation, fork upgrades, ProcessSlot, ProcessEpoch, ProcessSlots =================
   Impl = Beacon/Impl/{SyncRotation,Upgrades,EpochPipeline}.v: zrnt's ProcessSyncCommitteeUpdates, UpgradeTo<Fork>,
   UpgradeMaybe, ProcessSlot, ProcessEpoch (phase0 and altair+ pipelines in Go's call order, Go's EpochsContext as the
   parameter), and the ProcessSlots loop.  They are tied to the Go code by the C02ASM stream (harness/cmd/c02asm,
   Beacon/Refine/AsmRun.v).  Qualified names: unqualified process_* are the Spec's.
   `_partial`: the hypotheses EpochInv/MidBounds/StepOk are assumed at each epoch boundary (not shown preserved by
   blocks), MidBounds excludes the mid-epoch balance saturation of C02_altair_delta_order_refuted, epoch 0 is excluded. *)
From V Require Import Base.Outcome.
From V Require Beacon.Impl.SyncRotation Beacon.Impl.Upgrades Beacon.Impl.EpochPipeline.
From V Require Beacon.Refine.SyncRotationRefine Beacon.Refine.UpgradesRefine Beacon.Refine.EpochAssembly
  Beacon.Refine.C02AssemblyTheorems Beacon.Refine.AssemblyWitness.

Theorem C02_sync_rotation_refines : forall (E : Env) (pubkey_ok : bytes -> bool) (st : BeaconState) (epc : SyncRotation.SyncEpc)
    (st' : BeaconState) (fuel : nat),
  SyncRotationRefine.SyncHyps E pubkey_ok st epc -> (PROPOSER_FUEL <= fuel)%nat ->
  Epoch.process_sync_committee_updates E st = Some st' ->
  SyncRotation.process_sync_committee_updates E pubkey_ok fuel epc st = Ok st'.
Proof. exact C02AssemblyTheorems.C02A_sync_rotation_refines. Qed.
Print Assumptions C02_sync_rotation_refines.

Theorem C02_sync_rotation_rejects : forall (E : Env) (pubkey_ok : bytes -> bool) (st : BeaconState) (epc : SyncRotation.SyncEpc),
  SyncRotationRefine.SyncHyps E pubkey_ok st epc ->
  Epoch.process_sync_committee_updates E st = None ->
  SyncRotation.process_sync_committee_updates E pubkey_ok PROPOSER_FUEL epc st =
  (if N.of_nat (length (get_active_validator_indices st (get_current_epoch E st + 1))) =? 0 then Err else OutOfFuel).
Proof. exact C02AssemblyTheorems.C02A_sync_rotation_rejects. Qed.
Print Assumptions C02_sync_rotation_rejects.

Theorem C02_upgrade_to_altair_refines : forall (E : Env) (pubkey_ok : bytes -> bool) (committee_of : N -> N -> option (list N))
    (sepc : SyncRotation.SyncEpc) (pre post : BeaconState) (fuel : nat),
  UpgradesRefine.AltairUpgradeHyps E pubkey_ok committee_of sepc pre -> (PROPOSER_FUEL <= fuel)%nat ->
  upgrade_to E Altair pre = Some post -> Upgrades.upgrade_to_altair E pubkey_ok fuel committee_of sepc pre = Ok post.
Proof. exact C02AssemblyTheorems.C02A_upgrade_to_altair_refines. Qed.
Print Assumptions C02_upgrade_to_altair_refines.

Theorem C02_upgrade_to_bellatrix_refines : forall (E : Env) (pre post : BeaconState),
  SLOTS_PER_EPOCH (cfg E) <> 0 -> upgrade_to E Bellatrix pre = Some post -> Upgrades.upgrade_to_bellatrix E pre = Ok post.
Proof. exact C02AssemblyTheorems.C02A_upgrade_to_bellatrix_refines. Qed.
Print Assumptions C02_upgrade_to_bellatrix_refines.

Theorem C02_upgrade_to_capella_refines : forall (E : Env) (pre post : BeaconState),
  SLOTS_PER_EPOCH (cfg E) <> 0 -> UpgradesRefine.header_fields 14 (latest_execution_payload_header pre) ->
  upgrade_to E Capella pre = Some post -> Upgrades.upgrade_to_capella E pre = Ok post.
Proof. exact C02AssemblyTheorems.C02A_upgrade_to_capella_refines. Qed.
Print Assumptions C02_upgrade_to_capella_refines.

Theorem C02_upgrade_to_deneb_refines : forall (E : Env) (pre post : BeaconState),
  SLOTS_PER_EPOCH (cfg E) <> 0 -> UpgradesRefine.header_fields 15 (latest_execution_payload_header pre) ->
  upgrade_to E Deneb pre = Some post -> Upgrades.upgrade_to_deneb E pre = Ok post.
Proof. exact C02AssemblyTheorems.C02A_upgrade_to_deneb_refines. Qed.
Print Assumptions C02_upgrade_to_deneb_refines.

(* UpgradeMaybe: the chain of `if slot = fork epoch start` tests, several forks at one epoch included *)
Theorem C02_upgrade_maybe_refines : forall (E : Env) (pubkey_ok : bytes -> bool) (electra_fork_epoch : N)
    (committee_of : N -> N -> option (list N)) (sepc : SyncRotation.SyncEpc) (pk_index : bytes -> option N)
    (f : fork) (st : BeaconState) (f' : fork) (st' : BeaconState) (fuel : nat),
  UpgradesRefine.UpgradeMaybeHyps E pubkey_ok electra_fork_epoch committee_of sepc pk_index f st ->
  (PROPOSER_FUEL <= fuel)%nat ->
  Transition.upgrade_maybe E 5 f st = Some (f', st') ->
  Upgrades.upgrade_maybe E pubkey_ok electra_fork_epoch fuel committee_of sepc pk_index (f, st) = Ok (f', st').
Proof. exact C02AssemblyTheorems.C02A_upgrade_maybe_refines. Qed.
Print Assumptions C02_upgrade_maybe_refines.

Theorem C02_process_slot_refines : forall (E : Env) (f : fork) (st : BeaconState),
  SLOTS_PER_HISTORICAL_ROOT (cfg E) <> 0 ->
  N.of_nat (length (state_roots st)) = SLOTS_PER_HISTORICAL_ROOT (cfg E) ->
  N.of_nat (length (block_roots st)) = SLOTS_PER_HISTORICAL_ROOT (cfg E) ->
  EpochPipeline.process_slot E f st = Ok (Transition.process_slot E f st).
Proof. exact C02AssemblyTheorems.C02A_process_slot_refines. Qed.
Print Assumptions C02_process_slot_refines.

(* the whole of ProcessEpoch, all sub-transitions chained in Go's order on Go's flattened snapshot *)
Theorem C02_process_epoch_refines_partial : forall (E : Env) (pubkey_ok : bytes -> bool) (fuel : nat) (f : fork) (st : BeaconState)
    (cx : EpochPipeline.EpochCtx) (st' : BeaconState),
  EpochAssembly.EpochInv E pubkey_ok f st cx -> EpochAssembly.MidBounds E f st -> (PROPOSER_FUEL <= fuel)%nat ->
  Epoch.process_epoch E f st = Some st' -> EpochPipeline.process_epoch E pubkey_ok fuel f cx st = Ok st'.
Proof. exact C02AssemblyTheorems.C02A_process_epoch_refines_partial. Qed.
Print Assumptions C02_process_epoch_refines_partial.

Theorem C02_slot_step_refines_partial : forall (E : Env) (pubkey_ok : bytes -> bool) (electra_fork_epoch : N) (fuel : nat)
    (ctx_of : fork -> BeaconState -> EpochPipeline.EpochCtx) (f : fork) (st : BeaconState) (r : fork * BeaconState),
  EpochAssembly.StepOk E pubkey_ok electra_fork_epoch ctx_of f st -> (PROPOSER_FUEL <= fuel)%nat ->
  Transition.slot_step E f st = Some r -> EpochPipeline.slot_step E pubkey_ok electra_fork_epoch fuel ctx_of f st = Ok r.
Proof. exact C02AssemblyTheorems.C02A_slot_step_refines_partial. Qed.
Print Assumptions C02_slot_step_refines_partial.

(* ProcessSlots over any number of slots, epochs and fork boundaries: by induction along the Spec's own trajectory *)
Theorem C02_process_slots_refines_partial : forall (E : Env) (pubkey_ok : bytes -> bool) (electra_fork_epoch : N) (fuel : nat)
    (ctx_of : fork -> BeaconState -> EpochPipeline.EpochCtx) (f : fork) (st : BeaconState) (target : N) (r : fork * BeaconState),
  (forall (k : nat) (f1 : fork) (st1 : BeaconState),
     EpochAssembly.spec_iter E k f st = Some (f1, st1) -> slot st1 < target ->
     EpochAssembly.StepOk E pubkey_ok electra_fork_epoch ctx_of f1 st1) ->
  (PROPOSER_FUEL <= fuel)%nat -> Transition.process_slots E f st target = Some r ->
  EpochPipeline.process_slots E pubkey_ok electra_fork_epoch fuel ctx_of f st target = Ok r.
Proof. exact C02AssemblyTheorems.C02A_process_slots_refines_partial. Qed.
Print Assumptions C02_process_slots_refines_partial.

Theorem C02_process_slots_rejects_past : forall (E : Env) (pubkey_ok : bytes -> bool) (electra_fork_epoch : N) (fuel : nat)
    (ctx_of : fork -> BeaconState -> EpochPipeline.EpochCtx) (f : fork) (st : BeaconState) (target : N),
  target <= slot st ->
  Transition.process_slots E f st target = None /\
  EpochPipeline.process_slots E pubkey_ok electra_fork_epoch fuel ctx_of f st target = Err.
Proof. exact C02AssemblyTheorems.C02A_process_slots_rejects_past. Qed.
Print Assumptions C02_process_slots_rejects_past.

(* non-vacuity: a concrete altair state at the last slot of an epoch meets EpochInv, MidBounds and StepOk, and the step moves
   every balance, score and the slot *)
Theorem C02_assembly_nonvacuous :
  EpochAssembly.StepOk AssemblyWitness.asm_E AssemblyWitness.asm_pk_ok AssemblyWitness.asm_electra AssemblyWitness.asm_ctx_of Altair AssemblyWitness.asm_pre /\
  (exists r, Transition.slot_step AssemblyWitness.asm_E Altair AssemblyWitness.asm_pre = Some r /\
             EpochPipeline.slot_step AssemblyWitness.asm_E AssemblyWitness.asm_pk_ok AssemblyWitness.asm_electra PROPOSER_FUEL
               AssemblyWitness.asm_ctx_of Altair AssemblyWitness.asm_pre = Ok r) /\
  option_map (fun r => (fork_idx (fst r), slot (snd r))) (Transition.slot_step AssemblyWitness.asm_E Altair AssemblyWitness.asm_pre) = Some (1, 64).
Proof. exact AssemblyWitness.slot_step_nonvacuous. Qed.
Print Assumptions C02_assembly_nonvacuous.
