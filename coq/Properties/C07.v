(* C07 — Committee, proposer and sync-committee assignments equal the spec's.
   The executable Spec (Beacon/Spec/Helpers.v: get_beacon_committee, compute_proposer_index,
   get_next_sync_committee_indices; Beacon/Run.v: spec_epc_view) is what the correspondence check runs against zrnt's
   EpochsContext on every recorded state.  Theorems here: the structural half of the property. *)
From Coq Require Import NArith List Permutation.
From V Require Import Ssz.SszCore Beacon.Config Beacon.Spec.Helpers Beacon.Proofs.CommitteeSlices Beacon.Proofs.CommitteePartition.
Import ListNotations.
Local Open Scope N_scope.

(* the slicing used by compute_committee covers 0..n-1 exactly once, in order, for every n and committee count *)
Theorem C07_slices_partition : forall n count, 0 < count ->
  concat (map (fun i => seqN (n * i / count) (N.to_nat (n * (i + 1) / count - n * i / count))) (seqN 0 (N.to_nat count)))
  = seqN 0 (N.to_nat n).
Proof. exact committee_slices_partition. Qed.
Print Assumptions C07_slices_partition.

(* committee sizes follow the spec formula: floor(n/count) or one more *)
Theorem C07_committee_sizes : forall n count i, 0 < count -> i < count ->
  n / count <= n * (i + 1) / count - n * i / count <= n / count + 1.
Proof. exact committee_size_bounds. Qed.
Print Assumptions C07_committee_sizes.

(* every committee is the shuffled slice; all committees of an epoch, concatenated, list each active-set position once *)
Theorem C07_committees_concat : forall (E : Env) (idx : list N) (seed : bytes),
  (forall i, i < N.of_nat (length idx) -> sigma E idx seed i < N.of_nat (length idx)) ->
  forall count, 0 < count ->
  exists comms, all_some (map (fun k => compute_committee E idx seed k count) (seqN 0 (N.to_nat count))) = Some comms /\
                concat comms = map (fun i => nth (N.to_nat (sigma E idx seed i)) idx 0) (seqN 0 (length idx)).
Proof. exact committees_concat. Qed.
Print Assumptions C07_committees_concat.

(* the committees partition the active validator set: every active validator sits in exactly one committee.
   Hypotheses = property C06 (the per-index shuffle is a permutation of the index range), proved in Shuffle/. *)
Theorem C07_committees_partition : forall (E : Env) (idx : list N) (seed : bytes),
  (forall i, i < N.of_nat (length idx) -> sigma E idx seed i < N.of_nat (length idx)) ->
  Permutation (map (sigma E idx seed) (seqN 0 (length idx))) (seqN 0 (length idx)) ->
  forall count, 0 < count ->
  exists comms, all_some (map (fun k => compute_committee E idx seed k count) (seqN 0 (N.to_nat count))) = Some comms /\
                Permutation (concat comms) idx.
Proof. exact committees_partition. Qed.
Print Assumptions C07_committees_partition.

Example C07_nonvacuous : (* 10 positions in 3 committees: sizes 3,3,4 *)
  map (fun i => 10 * (i + 1) / 3 - 10 * i / 3) [0; 1; 2] = [3; 3; 4].
Proof. vm_compute. reflexivity. Qed.

(* The same without hypotheses: the per-index shuffle of the Spec is a permutation of the index range for every hash,
   seed, round count and size (property C06, transported by Beacon/Proofs/ShuffleBridge.v), so within an epoch the
   committees hold every active validator exactly once. *)
From V Require Import Beacon.Proofs.ShuffleBridge.
Theorem C07_committees_partition_unconditional : forall (E : Env) (idx : list N) (seed : bytes) (count : N), 0 < count ->
  exists comms, all_some (map (fun k => compute_committee E idx seed k count) (seqN 0 (N.to_nat count))) = Some comms /\
                Permutation (concat comms) idx.
Proof. exact committees_partition_unconditional. Qed.
Print Assumptions C07_committees_partition_unconditional.
