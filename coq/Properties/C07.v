(* C07 — Committee, proposer and sync-committee assignments equal the spec's.
   The executable Spec (Beacon/Spec/Helpers.v: get_beacon_committee, compute_proposer_index,
   get_next_sync_committee_indices; Beacon/Run.v: spec_epc_view) is what the correspondence check runs against zrnt's
   EpochsContext on every recorded state.  Theorems here: the structural half of the property. *)
From Coq Require Import NArith List Permutation.
From V Require Import Ssz.SszCore Beacon.Config Beacon.Spec.Helpers Beacon.Proofs.CommitteeSlices Beacon.Proofs.CommitteePartition.
Import ListNotations.
Local Open Scope N_scope.

(* the slicing used by compute_committee covers 0..n-1 exactly once, in order, for every n and committee count *)
Theorem C07_slices_partition : forall n count, 0 < count ->
  concat (map (fun i => seqN (n * i / count) (N.to_nat (n * (i + 1) / count - n * i / count))) (seqN 0 (N.to_nat count)))
  = seqN 0 (N.to_nat n).
Proof. exact committee_slices_partition. Qed.
Print Assumptions C07_slices_partition.

(* committee sizes follow the spec formula: floor(n/count) or one more *)
Theorem C07_committee_sizes : forall n count i, 0 < count -> i < count ->
  n / count <= n * (i + 1) / count - n * i / count <= n / count + 1.
Proof. exact committee_size_bounds. Qed.
Print Assumptions C07_committee_sizes.

(* every committee is the shuffled slice; all committees of an epoch, concatenated, list each active-set position once *)
Theorem C07_committees_concat : forall (E : Env) (idx : list N) (seed : bytes),
  (forall i, i < N.of_nat (length idx) -> sigma E idx seed i < N.of_nat (length idx)) ->
  forall count, 0 < count ->
  exists comms, all_some (map (fun k => compute_committee E idx seed k count) (seqN 0 (N.to_nat count))) = Some comms /\
                concat comms = map (fun i => nth (N.to_nat (sigma E idx seed i)) idx 0) (seqN 0 (length idx)).
Proof. exact committees_concat. Qed.
Print Assumptions C07_committees_concat.

(* the committees partition the active validator set: every active validator sits in exactly one committee.
   Hypotheses = property C06 (the per-index shuffle is a permutation of the index range), proved in Shuffle/. *)
Theorem C07_committees_partition : forall (E : Env) (idx : list N) (seed : bytes),
  (forall i, i < N.of_nat (length idx) -> sigma E idx seed i < N.of_nat (length idx)) ->
  Permutation (map (sigma E idx seed) (seqN 0 (length idx))) (seqN 0 (length idx)) ->
  forall count, 0 < count ->
  exists comms, all_some (map (fun k => compute_committee E idx seed k count) (seqN 0 (N.to_nat count))) = Some comms /\
                Permutation (concat comms) idx.
Proof. exact committees_partition. Qed.
Print Assumptions C07_committees_partition.

Example C07_nonvacuous : (* 10 positions in 3 committees: sizes 3,3,4 *)
  map (fun i => 10 * (i + 1) / 3 - 10 * i / 3) [0; 1; 2] = [3; 3; 4].
Proof. vm_compute. reflexivity. Qed.

(* The same without hypotheses: the per-index shuffle of the Spec is a permutation of the index range for every hash,
   seed, round count and size (property C06, transported by Beacon/Proofs/ShuffleBridge.v), so within an epoch the
   committees hold every active validator exactly once. *)
From V Require Import Beacon.Proofs.ShuffleBridge.
Theorem C07_committees_partition_unconditional : forall (E : Env) (idx : list N) (seed : bytes) (count : N), 0 < count ->
  exists comms, all_some (map (fun k => compute_committee E idx seed k count) (seqN 0 (N.to_nat count))) = Some comms /\
                Permutation (concat comms) idx.
Proof. exact committees_partition_unconditional. Qed.
Print Assumptions C07_committees_partition_unconditional.

(* ======================================================================================================
   zrnt's committee / proposer computation refines the specification.
   Impl model: Beacon/Impl/Shuffling.v (shuffling.go, proposers.go; the whole-list shuffle is the C06 model
   Shuffle/ShuffleModel.v with H := Hash E); proofs: Beacon/Refine/ShufflingRefine.v, ProposersRefine.v, C07Theorems.v.

   shuffling_params_ok E n  (n = number of active validators) is the record of exactly these facts:
     po_rounds  : SHUFFLE_ROUND_COUNT (cfg E) <= 255                     (Go passes uint8(SHUFFLE_ROUND_COUNT))
     po_bytes   : forall m, bytes_ok (Hash E m)                          (the hash returns bytes < 256)
     po_size    : n <= 2^40                                              (spec_limit; uint32(position // 256) of the spec)
     po_spe     : 0 < SLOTS_PER_EPOCH (cfg E)
     po_tcs     : 0 < TARGET_COMMITTEE_SIZE (cfg E)
     po_mcps    : 0 < MAX_COMMITTEES_PER_SLOT (cfg E)
     po_count64 : MAX_COMMITTEES_PER_SLOT * SLOTS_PER_EPOCH < 2^64       (committeeCount is a uint64)
     po_nowrap  : n * (MAX_COMMITTEES_PER_SLOT * SLOTS_PER_EPOCH) < 2^64 (validatorCount * (index+1) is a uint64 product)
   proposer_params_ok E st idx  is the record of exactly these facts:
     pp_rounds  : SHUFFLE_ROUND_COUNT (cfg E) <= 255
     pp_bytes   : forall m, bytes_ok (Hash E m)
     pp_size    : length idx <= 2^40
     pp_active  : every element of idx is < length (validators st)      (active indices are registry indices)
     pp_max64   : MAX_EFFECTIVE_BALANCE (cfg E) * 255 < 2^64             (MAX_EFFECTIVE_BALANCE * randomByte is a uint64 product)
     pp_eb64    : every validator's effective_balance * 255 < 2^64       (effectiveBalance * 0xff is a uint64 product)
   ====================================================================================================== *)
From Coq Require Import Bool.
From V Require Import Base.U64 Base.Outcome Beacon.State Beacon.Run Beacon.Impl.Shuffling
  Beacon.Refine.ShufflingRefine Beacon.Refine.ProposersRefine Beacon.Refine.C07Theorems.
From V Require Shuffle.ShuffleModel Shuffle.ShuffleArith Shuffle.ShuffleIndexProofs.

(* mirrors LoadBoundedIndices + ActiveIndices (shuffling.go) *)
Theorem C07_active_indices_refine : forall st epoch,
  active_indices_impl (load_bounded_indices (validators st)) epoch = get_active_validator_indices st epoch.
Proof. exact C07T_active_indices_refine. Qed.
Print Assumptions C07_active_indices_refine.

(* mirrors CommitteeCount (shuffling.go) *)
Theorem C07_committee_count_refines : forall E st epoch, 0 < MAX_COMMITTEES_PER_SLOT (cfg E) ->
  committee_count_impl E (N.of_nat (length (get_active_validator_indices st epoch))) =
  get_committee_count_per_slot E st epoch.
Proof. exact C07T_committee_count_refines. Qed.
Print Assumptions C07_committee_count_refines.

(* mirrors the body of NewShufflingEpoch: UnshuffleList of the active indices, then the slice of (slot s, committee ci) *)
Theorem C07_committee_refines : forall E idx seed,
  let n := N.of_nat (length idx) in
  let per_slot := committee_count_impl E n in
  shuffling_params_ok E n ->
  forall s ci, s < SLOTS_PER_EPOCH (cfg E) -> ci < per_slot ->
  exists shuffling comm,
    ShuffleModel.unshuffle_list (Hash E) seed (ShuffleModel.wrap8 (SHUFFLE_ROUND_COUNT (cfg E))) idx = Ok shuffling /\
    impl_committee E shuffling per_slot s ci = Ok comm /\
    compute_committee E idx seed (s * per_slot + ci) (per_slot * SLOTS_PER_EPOCH (cfg E)) = Some comm.
Proof. exact C07T_committee_refines. Qed.
Print Assumptions C07_committee_refines.

(* mirrors NewShufflingEpoch (shuffling.go): the whole ShufflingEpoch value; no panic *)
Theorem C07_new_shuffling_epoch_refines : forall E bounded seed epoch,
  let idx := active_indices_impl bounded epoch in
  let n := N.of_nat (length idx) in
  let per_slot := committee_count_impl E n in
  shuffling_params_ok E n ->
  exists she, new_shuffling_epoch E bounded seed epoch = Ok she /\
    se_epoch she = epoch /\ se_active she = idx /\ Permutation (se_shuffling she) idx /\
    se_committees she = map (fun s => map (fun ci => spec_committee E idx seed s ci) (seqN 0 (N.to_nat per_slot)))
                            (seqN 0 (N.to_nat (SLOTS_PER_EPOCH (cfg E)))) /\
    forall s ci, s < SLOTS_PER_EPOCH (cfg E) -> ci < per_slot ->
      exists comm, committee_at she s ci = Some comm /\
                   compute_committee E idx seed (s * per_slot + ci) (per_slot * SLOTS_PER_EPOCH (cfg E)) = Some comm.
Proof. exact C07T_new_shuffling_epoch_refines. Qed.
Print Assumptions C07_new_shuffling_epoch_refines.

(* NewShufflingEpoch on the state's registry and attester seed vs get_beacon_committee, for ANY slot
   (previous, current and next epoch alike) *)
Theorem C07_beacon_committee_refines : forall E st slot ci,
  let epoch := compute_epoch_at_slot E slot in
  let idx := get_active_validator_indices st epoch in
  let seed := get_seed E st epoch DOMAIN_BEACON_ATTESTER in
  shuffling_params_ok E (N.of_nat (length idx)) ->
  ci < get_committee_count_per_slot E st epoch ->
  exists she comm,
    new_shuffling_epoch E (load_bounded_indices (validators st)) seed epoch = Ok she /\
    se_active she = idx /\
    committee_at she (slot mod SLOTS_PER_EPOCH (cfg E)) ci = Some comm /\
    get_beacon_committee E st slot ci = Some comm.
Proof. exact C07T_beacon_committee_refines. Qed.
Print Assumptions C07_beacon_committee_refines.

(* the Committees table of NewShufflingEpoch = the spec-side table of Run.v (committees_of_epoch: get_beacon_committee
   for every slot of the epoch and every committee index), as whole values *)
Theorem C07_committees_of_epoch_refine : forall E st epoch,
  let idx := get_active_validator_indices st epoch in
  let seed := get_seed E st epoch DOMAIN_BEACON_ATTESTER in
  shuffling_params_ok E (N.of_nat (length idx)) ->
  exists she,
    new_shuffling_epoch E (load_bounded_indices (validators st)) seed epoch = Ok she /\
    se_active she = idx /\
    se_committees she = committees_of_epoch E st epoch.
Proof. exact C07T_committees_of_epoch_refine. Qed.
Print Assumptions C07_committees_of_epoch_refine.

(* mirrors ComputeProposerIndex (proposers.go).  PARTIAL in this sense: zrnt examines at most CAP = 1000*32 = 32000
   candidates and then returns an error, the specification's loop has no cap (the executable Spec gives it fuel 40000).
   Go returns the spec's proposer exactly when the spec loop finds one within the first 32000 candidates; otherwise Go
   returns its error (and the theorem says so). *)
Theorem C07_compute_proposer_index_refines_partial : forall E st idx seed,
  proposer_params_ok E st idx -> 0 < N.of_nat (length idx) ->
  match proposer_loop E CAP st idx seed 0 with
  | Some p => compute_proposer_index_impl E (validators st) idx seed = Ok p /\ compute_proposer_index E st idx seed = Some p
  | None => compute_proposer_index_impl E (validators st) idx seed = Err
  end.
Proof. exact C07T_compute_proposer_index_refines. Qed.
Print Assumptions C07_compute_proposer_index_refines_partial.

(* mirrors the proposer loop of ComputeProposers (proposers.go): seed_i = hash(epochSeed ++ le8(startSlot + i)).
   PARTIAL: conditional on every slot's spec loop finding a proposer within the 32000-candidate cap *)
Theorem C07_compute_proposers_refines_partial : forall E st idx epoch_seed start,
  proposer_params_ok E st idx -> 0 < N.of_nat (length idx) ->
  start + SLOTS_PER_EPOCH (cfg E) <= two64 ->
  (forall i, i < SLOTS_PER_EPOCH (cfg E) ->
     exists p, proposer_loop E CAP st idx (Hash E (epoch_seed ++ uint_to_bytes 8 (start + i))) 0 = Some p) ->
  exists ps, compute_proposers_impl E (validators st) idx epoch_seed start = Ok ps /\
    map Some ps = map (fun i => compute_proposer_index E st idx (Hash E (epoch_seed ++ uint_to_bytes 8 (start + i))))
                      (seqN 0 (N.to_nat (SLOTS_PER_EPOCH (cfg E)))).
Proof. exact C07T_compute_proposers_refines. Qed.
Print Assumptions C07_compute_proposers_refines_partial.

(* the proposers of the current epoch = Run.v's proposer_at (get_beacon_proposer_index at each slot), slot by slot.
   PARTIAL: same cap condition *)
Theorem C07_proposers_refine_partial : forall E st,
  let ce := get_current_epoch E st in
  let idx := get_active_validator_indices st ce in
  let start := compute_start_slot_at_epoch E ce in
  SHUFFLE_ROUND_COUNT (cfg E) <= 255 -> (forall m, ShuffleArith.bytes_ok (Hash E m)) ->
  0 < N.of_nat (length idx) -> N.of_nat (length idx) <= ShuffleIndexProofs.spec_limit ->
  MAX_EFFECTIVE_BALANCE (cfg E) * 255 < two64 ->
  Forall (fun v => v_effective_balance v * 255 < two64) (validators st) ->
  start + SLOTS_PER_EPOCH (cfg E) <= two64 ->
  (forall i, i < SLOTS_PER_EPOCH (cfg E) ->
     exists p, proposer_loop E CAP st idx
                 (Hash E (get_seed E st ce DOMAIN_BEACON_PROPOSER ++ uint_to_bytes 8 (start + i))) 0 = Some p) ->
  exists ps, compute_proposers_impl E (validators st) idx (get_seed E st ce DOMAIN_BEACON_PROPOSER) start = Ok ps /\
    map Some ps = map (fun s => proposer_at E st (start + s)) (seqN 0 (N.to_nat (SLOTS_PER_EPOCH (cfg E)))).
Proof. exact C07T_proposers_refine. Qed.
Print Assumptions C07_proposers_refine_partial.

(* non-vacuity: tiny_cfg (8 slots per epoch, target size 4, at most 4 committees per slot, 10 rounds), real SHA-256,
   72 validators of which 64 are active at epoch 5: the hypotheses hold; NewShufflingEpoch returns 8 x 2 committees of 4,
   each equal to the spec's compute_committee, and the shuffle is not the identity *)
Example C07_refinement_nonvacuous :
  shuffling_params_ok c07_env (N.of_nat (length c07_active)) /\
  c07_example_check = true /\
  (exists she, new_shuffling_epoch c07_env (load_bounded_indices c07_validators) c07_seed c07_epoch = Ok she /\
               firstn 2 (se_committees she) = [[[52; 51; 35; 5]; [48; 3; 68; 18]]; [[12; 62; 11; 47]; [17; 42; 23; 66]]]).
Proof.
  split; [exact c07_params_ok|]. split; [vm_compute; reflexivity|].
  eexists. split; [vm_compute; reflexivity|]. vm_compute. reflexivity.
Qed.

(* mirrors the sampling loop of ComputeSyncCommitteeIndices (sync_committee.go; the random-byte hash is cached for 32
   candidates and refreshed at i%32 == 0 -- modelled).  PARTIAL in this sense: the Go loop has no iteration cap, the
   executable Spec's loop (Beacon/Spec/Epoch.v sync_loop) is fuelled; whenever the Spec loop completes with `fuel`
   candidates, the Go loop (model, same fuel) returns exactly the same index list. *)
From V Require Import Beacon.Spec.Epoch Beacon.Refine.SyncCommitteeRefine.
Theorem C07_sync_committee_indices_refines_partial : forall E st idx seed,
  proposer_params_ok E st idx -> 0 < N.of_nat (length idx) ->
  forall fuel l, N.of_nat fuel < two64 ->
  sync_loop E fuel st idx seed 0 (N.to_nat (SYNC_COMMITTEE_SIZE (cfg E))) = Some l ->
  compute_sync_committee_indices_impl E fuel (validators st) idx seed = Ok l.
Proof. exact C07T_sync_committee_indices_refines. Qed.
Print Assumptions C07_sync_committee_indices_refines_partial.

(* the same against the state: whenever get_next_sync_committee_indices returns, ComputeSyncCommitteeIndices on the next
   epoch's active set and the DOMAIN_SYNC_COMMITTEE seed returns the same indices *)
Theorem C07_next_sync_committee_indices_refines_partial : forall E st l,
  let epoch := get_current_epoch E st + 1 in
  let active := get_active_validator_indices st epoch in
  SHUFFLE_ROUND_COUNT (cfg E) <= 255 -> (forall m, ShuffleArith.bytes_ok (Hash E m)) ->
  N.of_nat (length active) <= ShuffleIndexProofs.spec_limit ->
  MAX_EFFECTIVE_BALANCE (cfg E) * 255 < two64 ->
  Forall (fun v => v_effective_balance v * 255 < two64) (validators st) ->
  get_next_sync_committee_indices E st = Some l ->
  compute_sync_committee_indices_impl E PROPOSER_FUEL (validators st) active
    (get_seed E st epoch DOMAIN_SYNC_COMMITTEE) = Ok l.
Proof. exact C07T_next_sync_committee_indices_refines. Qed.
Print Assumptions C07_next_sync_committee_indices_refines_partial.
