(* C05 — Hash-tree-roots agree across struct form, tree-view form and the SSZ spec.
   Statements only; proofs live in Ssz/TreeView.v.  Everything is parametric in the hash function H and holds
   for ALL trees, positions, chunk lists and operation sequences. *)
From Coq Require Import NArith List.
From V Require Import Ssz.SszCore Ssz.TreeView Ssz.TreeValue.
Import ListNotations.

Section C05.
  Variable H : bytes -> bytes.
  Variable zero_hash : nat -> bytes.
  Hypothesis zero_hash_0 : zero_hash 0 = zero_chunk.
  Hypothesis zero_hash_S : forall d, zero_hash (S d) = H (zero_hash d ++ zero_hash d).

  (* struct form = tree form = specification: for EVERY type and EVERY value, the (cached) root of the backing tree
     of the value is the specification's hash_tree_root; and that tree satisfies the cache invariant *)
  Theorem C05_struct_eq_tree : forall t v, root (tree_of H t v) = hash_tree_root H zero_hash t v.
  Proof. exact (htr_struct_eq_tree H zero_hash zero_hash_0 zero_hash_S). Qed.
  Theorem C05_tree_of_value_ok : forall t v, cache_ok H (tree_of H t v).
  Proof. exact (tree_of_cache_ok H zero_hash zero_hash_0 zero_hash_S). Qed.

  (* the root of the (cached) tree built over a chunk list is the specification's merkleization with zero padding *)
  Theorem C05_tree_root_is_merkleization : forall d cs, (length cs <= Nat.pow 2 d)%nat ->
      root (build H d (map Leaf cs)) = merkle_tree H zero_hash d cs.
  Proof. exact (build_root_merkle H zero_hash zero_hash_0 zero_hash_S). Qed.

  (* a write by generalized index keeps every cached root equal to the hash of its children *)
  Theorem C05_set_keeps_cache : forall n p x n',
      cache_ok H n -> cache_ok H x -> set H n p x = Some n' -> cache_ok H n' /\ root n' = compute H n'.
  Proof.
    intros n p x n' Hn Hx Hs. split; [exact (set_cache_ok H n p x n' Hn Hx Hs) | exact (set_root_compute H n p x n' Hn Hx Hs)].
  Qed.

  (* cached subtree hashes are never stale: after ANY sequence of writes (setters, appends, resets and whole-subtree
     replacements are all [OSet] of some subtree at some position) and copies on a store of views, the root every
     view reports is the root of its content recomputed from scratch *)
  Theorem C05_cache_never_stale : forall ops s s',
      Forall (cache_ok H) s -> Forall (op_ok H) ops -> run H s ops = Some s' ->
      forall t, In t s' -> root t = compute H t.
  Proof. intros ops s s' Hs Ho Hr. exact (proj2 (cache_inv_preserved H ops s s' Hs Ho Hr)). Qed.

  (* trees built from values satisfy the invariant to start with *)
  Theorem C05_built_tree_ok : forall d ns, Forall (cache_ok H) ns -> cache_ok H (build H d ns).
  Proof. exact (build_cache_ok H zero_hash zero_hash_0 zero_hash_S). Qed.
End C05.
Print Assumptions C05_struct_eq_tree.
Print Assumptions C05_tree_of_value_ok.
Print Assumptions C05_tree_root_is_merkleization.
Print Assumptions C05_set_keeps_cache.
Print Assumptions C05_cache_never_stale.
Print Assumptions C05_built_tree_ok.

(* non-vacuity: a concrete tree, a write and a copy *)
Example C05_nonvacuous :
  let H := fun b : bytes => firstn 32 b in
  let t := build H 2 (map Leaf [[1%N]; [2%N]; [3%N]]) in
  cache_ok H t /\ exists s', run H [t] [OCopy 0; OSet 1 [true; false] (Leaf [9%N])] = Some s' /\ length s' = 2%nat.
Proof. simpl. repeat split; eauto. Qed.
