(* C05 — Hash-tree-roots agree across struct form, tree-view form and the SSZ spec.
   Statements only; proofs live in Ssz/TreeView.v and Ssz/SszProofs.v. *)
From Coq Require Import NArith List.
From V Require Import Ssz.SszCore.
