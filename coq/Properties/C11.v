(* C11 — Fork-choice graph queries agree with the tree that was inserted.
   Statements only; proofs in Forkchoice/{TreeProofs,Refuted}.v. Model: Forkchoice/{ProtoArray,VoteStore,Wrapper}.v with the
   repairs fixes/C09-*.diff, C10-*.diff, C11-*.diff applied ([fixed]); Spec: Forkchoice/{TreeSpec,GhostSpec,Step}.v. *)
From Coq Require Import NArith List.
From V Require Import Base.U64 Base.Outcome Forkchoice.ProtoArray Forkchoice.Wrapper Forkchoice.TreeSpec Forkchoice.GhostSpec
     Forkchoice.Step Forkchoice.TreeProofs Forkchoice.WalkProofs Forkchoice.Refuted.
Import ListNotations.
Local Open Scope N_scope.

(* The full property (DESIGN A.1): over every history in the domain, every insertion and navigation query of the Impl returns
   what the direct walk of the Spec's tree returns, nothing panics or blocks. [Step.refines] runs Impl and Spec side by side. *)
Definition C11_full : Prop := forall i ops, refines sel_c11 true i ops = true.
(* False as it stands, also of the repaired code: known finding prune_keeps_late_fork (witness below). What is claimed: *)
Definition C11_queries_refine : Prop := forall i ops, refines sel_c11 false i ops = true.
   (* = C11_full with the hypothesis "no update moves finalization to a node while a non-descendant inserted after it exists"
      (Step.late_fork_at cuts the run there). NOT proved in full: proved below for all histories of insertions: the tree, the
      lowest-slot table, ProcessBlock's answers, ClosestToSlot, and the walks of CanonicalChain and CanonAtSlot relative to the head
      the array computes. InSubtree's and Search's use of best-descendant links, the head itself (C09), and histories with
      votes/updates/prunes are covered by the correspondence runs only. *)

(* For EVERY history of ProcessSlot/ProcessBlock calls in the domain, on any array related to a tree (in particular a fresh one):
   the node table read as a list is exactly the Spec's tree (same nodes, parents, epochs), `indices` is its position table,
   `blockSlots` its lowest-slot table, every ProcessBlock answers what the tree rule says, and nothing panics or runs out of
   fuel. Resource hypothesis: fewer than 2^64 nodes are ever created. *)
Theorem C11_insert_refines_partial : forall ops pa,
  Rel pa -> iops_dom ops (abs pa) -> created (fst (impl_iops ops pa)) < two64 ->
  snd (impl_iops ops pa) = map Ok (snd (spec_iops ops (abs pa))) /\
  Rel (fst (impl_iops ops pa)) /\ abs (fst (impl_iops ops pa)) = fst (spec_iops ops (abs pa)) /\
  pa_off (fst (impl_iops ops pa)) = pa_off pa.
Proof. exact insert_refines. Qed.
Print Assumptions C11_insert_refines_partial.

Theorem C11_fresh_array_related : forall parent r s je fe sink_nil, Rel (new_array parent r s je fe sink_nil).
Proof. exact Rel_new_array. Qed.
Print Assumptions C11_fresh_array_related.

(* on related states: the slot of a block root is the lowest known slot of the Spec's tree, unknown roots are unknown;
   a (root, slot) pair is in `indices` iff it is a node of the tree *)
Theorem C11_get_slot_refines : forall pa r, Rel pa -> GetSlot pa r = spec_get_slot (abs pa) r.
Proof. exact GetSlot_refines. Qed.
Print Assumptions C11_get_slot_refines.
Theorem C11_membership_refines : forall pa r, Rel pa -> (known (abs pa) r = true <-> exists k, idx_get (pa_idx pa) r = Some k).
Proof. intros pa r H. exact (Rel_known pa r H). Qed.
Print Assumptions C11_membership_refines.

(* C11_queries_refine_partial — hypothesis: the history consists of ProcessSlot/ProcessBlock calls in the domain on a fresh array
   (no votes, updates, prunes), fewer than 2^64 nodes. Then the state reached satisfies the simulation relation Rel, the link
   invariant Links (every node but the first carries the index of its tree parent, inserted before it), the tree is contiguous
   per root and IS the Spec's tree; on every such state the three theorems after it hold for all arguments. *)
Theorem C11_queries_refine_partial : forall parent r s je fe sn ops,
  let pa0 := new_array parent r s je fe sn in
  iops_dom ops (abs pa0) -> created (fst (impl_iops ops pa0)) < two64 ->
  let pa := fst (impl_iops ops pa0) in
  Rel pa /\ Links s pa /\ Contig (abs pa) /\ abs pa = fst (spec_iops ops (abs pa0)) /\
  snd (impl_iops ops pa0) = map Ok (snd (spec_iops ops (abs pa0))).
Proof. exact insert_history_invariants. Qed.
Print Assumptions C11_queries_refine_partial.

(* closest known node to a slot: the binary search = the Spec's scan, for every root and slot (known, unknown, before the
   lowest slot, after the last) *)
Theorem C11_closest_refines : forall pa a sl,
  Rel pa -> Contig (abs pa) -> sl < two64 -> ClosestToSlot pa a sl = spec_closest (abs pa) a sl.
Proof. exact ClosestToSlot_refines. Qed.
Print Assumptions C11_closest_refines.

(* canonical chain: whatever head the array's own FindHead answers (the head itself is C09's business), the chain returned is the
   Spec's walk along transition parents from that node down to the root; the head computation leaves tree, Rel and Links intact *)
Theorem C11_canonical_chain_walk_refines : forall s0 pa r s pa1 out,
  Rel pa -> Links s0 pa -> created pa < two64 ->
  CanonicalChain fixed r s pa = (pa1, Ok out) ->
  exists h hn, fst (FindHead fixed r s pa) = pa1 /\ snd (FindHead fixed r s pa) = Ok h /\
               find_node (abs pa) h = Some hn /\ out = spec_chain_from (abs pa) hn /\
               Rel pa1 /\ Links s0 pa1 /\ abs pa1 = abs pa.
Proof. exact CanonicalChain_walk_refines. Qed.
Print Assumptions C11_canonical_chain_walk_refines.

(* canonical node at a slot, the walking case (slot above the anchor root's lowest slot, below the head): the Spec's slot walk from
   the head the array's FindHead answers, with and without block *)
Theorem C11_canon_at_slot_walk_refines : forall s0 pa a lo sl wb pa1 h,
  Rel pa -> Links s0 pa -> created pa < two64 ->
  low (abs pa) a = Some lo -> lo < sl ->
  FindHead fixed a lo pa = (pa1, Ok h) -> sl < snd h ->
  exists hn, find_node (abs pa) h = Some hn /\
             CanonAtSlot fixed a sl wb pa = (pa1, spec_canon_walk (abs pa) hn sl wb).
Proof. exact CanonAtSlot_walk_refines. Qed.
Print Assumptions C11_canon_at_slot_walk_refines.

(* Defects of the pinned snapshot (model instance [pinned]) against the Spec and the repaired code; each history is also run
   on the Go code by the harness (directed histories) *)
Theorem C11_insubtree_sibling_leaves_snapshot_refuted :
  last_out (run_from pinned (init0 false) h_siblings) = Ok (RPair false true) /\
  last_exp (spec_from (init0 false) h_siblings) = EVal (RPair false false) /\
  last_out (run_from fixed (init0 false) h_siblings) = Ok (RPair false false).
Proof. exact insubtree_sibling_leaves_refuted. Qed.
Theorem C11_search_same_slot_snapshot_refuted :
  last_out (run_from pinned (init0 false) h_same_slot) = Ok (RSearch [] []) /\
  last_exp (spec_from (init0 false) h_same_slot) = ESearch [(2, 1)] [] /\
  last_out (run_from fixed (init0 false) h_same_slot) = Ok (RSearch [(2, 1)] []).
Proof. exact search_same_slot_refuted. Qed.
Theorem C11_getnode_bound_snapshot_refuted :
  getNode pinned (new_array 0 1 0 0 0 false) 1 = Panic IndexOOR /\ getNode fixed (new_array 0 1 0 0 0 false) 1 = Err.
Proof. exact getnode_bound_refuted. Qed.

(* KNOWN FINDING (repaired code too): C11_full fails on histories of the shape prune_keeps_late_fork, and only the hypothesis
   of C11_queries_refine removes the witness *)
Theorem C11_full_refuted_by_late_fork :
  refines sel_c11 true (init0 true) (h_prune ++ [OGetSlot 7]) = false /\
  refines sel_c11 false (init0 true) (h_prune ++ [OGetSlot 7]) = true.
Proof. destruct late_fork_refutes_full as [A [_ [B _]]]. exact (conj A B). Qed.

(* non-vacuity: the full statement holds on a history with forks, votes, gap slots and every kind of query *)
Example C11_nonvacuous : refines sel_c11 true (init0 false) h_rich = true.
Proof. exact (proj1 refines_examples). Qed.
