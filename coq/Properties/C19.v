(* C19 — Numeric, time and Merkle helpers are exact over their whole domain.
   Statements only; proofs live in Math/MathProofs.v and Math/Pow2Proofs.v. *)
From Coq Require Import NArith List.
From V Require Import Base.U64 Base.Outcome Math.MathModel Math.MathProofs Math.Pow2Proofs Math.Prysm.
Local Open Scope N_scope.

(* integer square root: floor of the real square root for EVERY 64-bit input, no panic *)
Theorem C19_isqrt : forall n, n < two64 -> isqrt_go n = Ok (N.sqrt n).
Proof. exact isqrt_correct. Qed.
Print Assumptions C19_isqrt.
Theorem C19_isqrt_floor : forall n, n < two64 ->
  exists r, isqrt_go n = Ok r /\ r * r <= n < (r + 1) * (r + 1).
Proof. exact isqrt_floor. Qed.
Print Assumptions C19_isqrt_floor.

(* power-of-two helpers *)
(* IntegerSquareRootPrysm (table, float64 estimate, correction loops): for ANY estimate the float unit returns, the result is the
   floor square root; fuel = the distance between estimate and answer (+1), so "out of fuel" is excluded by the hypotheses *)
Theorem C19_isqrt_prysm : forall fuel est n,
  (N.to_nat (est - N.sqrt n) < fuel)%nat -> (N.to_nat (N.sqrt n - est) < fuel)%nat ->
  prysm_go fuel est n = Ok (N.sqrt n).
Proof. exact prysm_go_exact. Qed.
Print Assumptions C19_isqrt_prysm.
Theorem C19_isqrt_prysm_snapshot_refuted : prysm_orig 67108865 4503599761588224 <> N.sqrt 4503599761588224.
Proof. exact prysm_orig_refuted. Qed.
Print Assumptions C19_isqrt_prysm_snapshot_refuted.
Theorem C19_is_pow2 : forall n, n < two64 -> (is_pow2_go n = true <-> exists k, n = 2 ^ k).
Proof. exact is_pow2_iff. Qed.
Print Assumptions C19_is_pow2.
Theorem C19_next_pow2 : forall n, n <= 2 ^ 63 -> next_pow2_go n = next_pow2_spec n.
Proof. exact next_pow2_correct. Qed.
Print Assumptions C19_next_pow2.
Theorem C19_next_pow2_least : forall n, 0 < n -> n <= 2 ^ 63 ->
  n <= next_pow2_go n /\ (exists k, next_pow2_go n = 2 ^ k) /\ forall k, n <= 2 ^ k -> next_pow2_go n <= 2 ^ k.
Proof. exact next_pow2_is_least. Qed.
Print Assumptions C19_next_pow2_least.
(* not representable: the (error-less) helper returns 0, never a wrong power *)
Theorem C19_next_pow2_unrepresentable : forall n, 2 ^ 63 < n -> n < two64 -> next_pow2_go n = 0.
Proof. exact next_pow2_wrap. Qed.
Print Assumptions C19_next_pow2_unrepresentable.

(* conversions that have an error result use it exactly when the value is not representable *)
Theorem C19_epoch_start_slot : forall SPE, 0 < SPE -> forall e, e < two64 -> SPE < two64 ->
  epoch_start_slot SPE e = if e * SPE <? two64 then Ok (e * SPE) else Err.
Proof. exact epoch_start_slot_exact. Qed.
Print Assumptions C19_epoch_start_slot.
Theorem C19_time_at_slot : forall SPS, 0 < SPS -> forall slot g, slot < two64 -> g < two64 ->
  time_at_slot SPS slot g = if slot * SPS + g <? two64 then Ok (slot * SPS + g) else Err.
Proof. exact time_at_slot_exact. Qed.
Print Assumptions C19_time_at_slot.
Theorem C19_time_roundtrip : forall SPS, 0 < SPS -> forall slot g r, slot < two64 -> g < two64 ->
  time_at_slot SPS slot g = Ok r -> time_to_slot SPS r g = slot.
Proof. exact time_to_slot_inverse. Qed.
Print Assumptions C19_time_roundtrip.
(* TimeToSlot = the spec's compute_slot_at_time: 0 before genesis, else THE slot whose interval contains t *)
Theorem C19_time_to_slot_floor : forall SPS t g, 0 < SPS ->
  (t < g -> time_to_slot SPS t g = 0) /\
  (g <= t -> time_to_slot SPS t g * SPS + g <= t /\ t < (time_to_slot SPS t g + 1) * SPS + g).
Proof. exact time_to_slot_floor. Qed.
Print Assumptions C19_time_to_slot_floor.
Theorem C19_time_to_slot_unique : forall SPS t g s, 0 < SPS -> g <= t ->
  s * SPS + g <= t -> t < (s + 1) * SPS + g -> time_to_slot SPS t g = s.
Proof. exact time_to_slot_unique. Qed.
Print Assumptions C19_time_to_slot_unique.
Theorem C19_time_to_slot_bound : forall SPS t g, 0 < SPS -> t < two64 -> time_to_slot SPS t g < two64.
Proof. exact time_to_slot_bound. Qed.
Print Assumptions C19_time_to_slot_bound.
(* SlotToEpoch = floor(s / SPE); EpochStartSlot, when it answers, is the LEAST slot of that epoch and fits 64 bits *)
Theorem C19_slot_to_epoch_floor : forall SPE s, 0 < SPE ->
  slot_to_epoch SPE s * SPE <= s /\ s < (slot_to_epoch SPE s + 1) * SPE.
Proof. exact slot_to_epoch_floor. Qed.
Print Assumptions C19_slot_to_epoch_floor.
Theorem C19_epoch_start_slot_inverse : forall SPE e s, 0 < SPE -> e < two64 -> SPE < two64 ->
  epoch_start_slot SPE e = Ok s ->
  slot_to_epoch SPE s = e /\ (forall s', slot_to_epoch SPE s' = e -> s <= s') /\ s < two64.
Proof. exact epoch_start_slot_inverse. Qed.
Print Assumptions C19_epoch_start_slot_inverse.
(* Slot.Previous / Epoch.Previous saturate at genesis instead of wrapping *)
Theorem C19_slot_prev : forall s, slot_prev s = N.pred s /\ slot_prev s <= s /\ (0 < s -> slot_prev s + 1 = s).
Proof. exact slot_prev_spec. Qed.
Print Assumptions C19_slot_prev.
Theorem C19_activation_exit_epoch : forall MSL e, e + 1 + MSL < two64 ->
  activation_exit_epoch MSL e = e + 1 + MSL.
Proof. exact activation_exit_epoch_repr. Qed.
Print Assumptions C19_activation_exit_epoch.
Theorem C19_committee_count : forall SPE TCS MCPS active, 0 < MCPS ->
  committee_count SPE TCS MCPS active = N.max 1 (N.min MCPS (active / SPE / TCS)).
Proof. exact committee_count_eq. Qed.
Print Assumptions C19_committee_count.
Theorem C19_slot_span : forall mn mx slot span, slot < two64 -> span < two64 ->
  check_slot_span mn mx slot span =
  ((slot + span <? two64) && (mn <=? slot + span) && (slot <=? mx))%bool.
Proof. exact check_slot_span_iff. Qed.
Print Assumptions C19_slot_span.

(* XorBytes32: byte-wise xor, length kept, bytes stay bytes, commutative, and mixing a value in twice restores the original *)
Theorem C19_xor_bytes : forall a b, length a = length b ->
  length (xor_bytes a b) = length a /\
  (forall i, (i < length a)%nat -> nth i (xor_bytes a b) 0 = N.lxor (nth i a 0) (nth i b 0)) /\
  xor_bytes a b = xor_bytes b a /\ xor_bytes (xor_bytes a b) b = a.
Proof.
  intros a b H. split; [exact (xor_bytes_length a b H)|]. split; [intros i Hi; exact (xor_bytes_nth a b i H Hi)|].
  split; [exact (xor_bytes_comm a b)|exact (xor_bytes_involutive a b H)].
Qed.
Print Assumptions C19_xor_bytes.
Theorem C19_xor_bytes_range : forall a b, Forall (fun x => x < 256) a -> Forall (fun x => x < 256) b ->
  Forall (fun x => x < 256) (xor_bytes a b).
Proof. exact xor_bytes_byte. Qed.
Print Assumptions C19_xor_bytes_range.
(* Merkle branches: for ANY hash function, accepts exactly the branches that hash to the root *)
Theorem C19_merkle : forall (B : Type) (H : B -> B) (cat : B -> B -> B) (beq : B -> B -> bool)
    leaf branch (depth : nat) index root, (depth <= length branch)%nat ->
  verify_merkle_branch H cat beq leaf branch (N.of_nat depth) index root =
  Ok (beq (merkle_root_spec H cat leaf (firstn depth branch) 0 index) root).
Proof. exact @merkle_verify_iff. Qed.
Print Assumptions C19_merkle.
Theorem C19_merkle_no_panic : forall (B : Type) (H : B -> B) (cat : B -> B -> B) (beq : B -> B -> bool)
    leaf branch depth index root, depth <= N.of_nat (length branch) ->
  exists b, verify_merkle_branch H cat beq leaf branch depth index root = Ok b.
Proof. exact @merkle_verify_no_panic_in_domain. Qed.
Print Assumptions C19_merkle_no_panic.

(* Defects of the pinned snapshot, kept as machine-checked witnesses (both repaired by fix: commits) *)
Theorem C19_isqrt_snapshot_refuted : isqrt_go_orig max64 = Panic DivZero.
Proof. exact isqrt_orig_max_refuted. Qed.
Theorem C19_time_at_slot_snapshot_refuted :
  exists sps slot g, 0 < sps /\ time_at_slot_orig sps slot g = Err /\ exists r, time_at_slot_spec sps slot g = Ok r.
Proof. exact time_at_slot_orig_refuted. Qed.

(* non-vacuity: the hypotheses are met by concrete non-trivial inputs *)
Example C19_nonvacuous :
  isqrt_go 18446744073709551615 = Ok 4294967295 /\ isqrt_go 4294967295 = Ok 65535 /\
  next_pow2_go 9223372036854775805 = 9223372036854775808 /\
  time_at_slot 12 1537228672809129301 0 = Ok 18446744073709551612 /\
  epoch_start_slot 32 576460752303423488 = Err.
Proof. vm_compute. repeat split; reflexivity. Qed.
