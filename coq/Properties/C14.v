(* C14 — Built-in configurations are the spec's; fork lookups agree for every epoch.
   Statements only; proofs live in Config/ForkProofs.v (lookups, upgrades, envelopes) and
   Config/SpecConstants.v (soundness of the table comparison).  The constants half of the property
   (`constants_ok`: tables regenerated from /repo's YAML and Go sources = the pinned published tables) is an
   obligation over GENERATED definitions and is therefore re-proved on every run by lib/checks/c14.py
   (gen/C14/Check_const_*.v, `vm_compute; reflexivity`), next to the transliteration obligations
   (gen/C14/Check_fork_version.v ... : Go if-chains = this model, by `reflexivity`).

   Domain (DESIGN.md section 4, C14): `schedule_sorted cfg` — an unsorted schedule is not a valid configuration
   (compute_fork_version and the if-chain are both unspecified there); SLOTS_PER_EPOCH > 0; for the state
   clause post-genesis forks start at epoch >= 1 and the slot lies before the Electra fork (UpgradeToElectra is
   a stub in the repository).  Nothing is assumed of the hash function or of BLS. *)
From Coq Require Import NArith List String.
From V Require Import Base.U64 Base.Outcome Base.Sha256 Config.ForkSchedule Config.ForkProofs Config.SpecConstants.
Import ListNotations.
Local Open Scope N_scope.

(* ---- all lookups name the same fork, for every sorted schedule and every slot ---- *)
Theorem C14_fork_lookups_agree :
  forall (H : bytes -> bytes) c gvr, schedule_sorted c -> 0 < c_spe c ->
  forall slot,
    let epoch := slot_to_epoch c slot in
    let f := spec_fork_at_epoch c epoch in
    fork_version c slot = compute_fork_version c epoch /\
    fork_version c slot = version_of c f /\
    decoder_fork_digest (new_decoder H c gvr) epoch = fork_digest H (fork_version c slot) gvr /\
    (versions_distinct_b c = true -> epoch < e_fulu c -> allocator_by_version c (fork_version c slot) = Ok f) /\
    (digests_distinct_b H c gvr = true -> epoch < e_fulu c ->
       block_allocator (new_decoder H c gvr) (decoder_fork_digest (new_decoder H c gvr) epoch) = Ok f) /\
    (1 <= e_altair c -> 0 < slot -> epoch < e_electra c ->
       exists st, process_slots c (genesis_state c) slot = Ok st /\
                  spec_process_slots c (genesis_state c) slot = Some st /\
                  st_type st = f /\ st_slot st = slot /\
                  fr_cur (st_fork st) = fork_version c slot /\
                  st_fork st = spec_fork_record c epoch /\
                  (f <> Phase0 -> fr_prev (st_fork st) = version_of c (pred_fork f) /\ fr_epoch (st_fork st) = epoch_of c f) /\
                  (f = Phase0 -> st_fork st = mkFork (v_genesis c) (v_genesis c) 0)).
Proof. exact fork_lookups_agree. Qed.
Print Assumptions C14_fork_lookups_agree.

(* the version reported for a slot is compute_fork_version's, and names the fork whose interval holds the epoch:
   equal activation epochs -> the later fork; a fork that is never activated is never named *)
Theorem C14_fork_version : forall c slot,
  schedule_sorted c -> fork_version c slot = compute_fork_version c (slot_to_epoch c slot).
Proof. exact fork_version_correct. Qed.
Print Assumptions C14_fork_version.
Theorem C14_fork_interval : forall c epoch f,
  schedule_sorted c -> spec_fork_at_epoch c epoch = f ->
  epoch_of c f <= epoch /\ (forall g, fork_index f < fork_index g -> epoch < epoch_of c g).
Proof. exact spec_fork_at_epoch_interval. Qed.
Print Assumptions C14_fork_interval.
Theorem C14_fork_never_activated : forall c f epoch,
  schedule_sorted c -> epoch < epoch_of c f -> spec_fork_at_epoch c epoch <> f.
Proof. exact fork_never_activated. Qed.
Print Assumptions C14_fork_never_activated.

(* digest -> block type. Stated over versions (distinct versions suffice) and, for digests, under the decidable
   hypothesis that the six digests of THIS configuration and root do not collide: distinct versions =>
   distinct ForkData roots would need collision resistance of the hash, which is not assumed. *)
Theorem C14_block_type_by_version : forall c f,
  versions_distinct_b c = true -> f <> Fulu -> allocator_by_version c (version_of c f) = Ok f.
Proof. exact allocator_by_version_complete. Qed.
Print Assumptions C14_block_type_by_version.
Theorem C14_digest_injective_partial : forall (H : bytes -> bytes) c gvr f,
  digests_distinct_b H c gvr = true -> f <> Fulu ->
  block_allocator (new_decoder H c gvr) (fork_digest H (version_of c f) gvr) = Ok f.
Proof. exact block_allocator_complete. Qed.
Print Assumptions C14_digest_injective_partial.
(* whatever the allocator answers, the digest IS that fork's digest (no hypothesis at all) *)
Theorem C14_block_allocator_sound : forall d digest f,
  block_allocator d digest = Ok f -> digest = digest_of d f /\ f <> Fulu.
Proof. exact block_allocator_sound. Qed.
Print Assumptions C14_block_allocator_sound.

(* state type and Fork record after ProcessSlots from a phase0 genesis, forks phase0..deneb *)
Theorem C14_process_slots : forall c target,
  schedule_sorted c -> 0 < c_spe c -> 1 <= e_altair c -> 0 < target -> target / c_spe c < e_electra c ->
  process_slots c (genesis_state c) target
  = Ok (mkSt (spec_fork_at_epoch c (target / c_spe c)) (spec_fork_record c (target / c_spe c)) target).
Proof. exact process_slots_correct. Qed.
Print Assumptions C14_process_slots.
(* ... from ANY state consistent with the schedule, not only genesis ... *)
Theorem C14_process_slots_from_consistent : forall c s0 target,
  schedule_sorted c -> 0 < c_spe c -> 1 <= e_altair c -> s0 < target -> target / c_spe c < e_electra c ->
  process_slots c (good c s0) target = Ok (good c target).
Proof. exact process_slots_from_good. Qed.
Print Assumptions C14_process_slots_from_consistent.
(* ... and success is exactly "the target lies before the Electra fork": at its first slot UpgradeToElectra (a stub)
   makes ProcessSlots return an error, it never yields a mis-typed state *)
Theorem C14_process_slots_electra_refused : forall c target,
  schedule_sorted c -> 0 < c_spe c -> 1 <= e_altair c -> e_electra c <= target / c_spe c ->
  process_slots c (genesis_state c) target = Err.
Proof. exact process_slots_electra_refused. Qed.
Print Assumptions C14_process_slots_electra_refused.
(* with distinct versions, the version reported for a slot names exactly one fork: the specification's *)
Theorem C14_version_names_unique : forall c slot f,
  schedule_sorted c -> versions_distinct_b c = true ->
  fork_version c slot = version_of c f -> f = spec_fork_at_epoch c (slot_to_epoch c slot).
Proof. exact fork_version_names_unique. Qed.
Print Assumptions C14_version_names_unique.
(* the specification's own slot loop (fork triggers of each fork.md, all seven forks) has that closed form *)
Theorem C14_spec_process_slots : forall c target,
  schedule_sorted c -> 0 < c_spe c -> 1 <= e_altair c -> 0 < target ->
  spec_process_slots c (genesis_state c) target
  = Some (mkSt (spec_fork_at_epoch c (target / c_spe c)) (spec_fork_record c (target / c_spe c)) target).
Proof. exact spec_process_slots_closed. Qed.
Print Assumptions C14_spec_process_slots.

(* ---- envelopes ---- *)
Theorem C14_envelope_roundtrip :
  forall (H : bytes -> bytes) (Body : Type) (body_root : fork -> Body -> bytes) (b : signed_block Body) digest,
  sb_fork Body b <> Fulu ->
  let e := envelope_of H Body body_root b digest in
  envelope_to_signed_block Body e = Ok b /\
  env_root Body e = block_root H Body body_root b /\
  env_sig Body e = sb_sig Body b /\
  env_body Body e = sb_body Body b /\ env_body_fork Body e = sb_fork Body b /\
  env_body_root Body e = body_root (sb_fork Body b) (sb_body Body b) /\
  env_digest Body e = digest /\
  env_slot Body e = sb_slot Body b /\ env_proposer Body e = sb_proposer Body b /\
  env_parent Body e = sb_parent Body b /\ env_state Body e = sb_state Body b.
Proof. exact envelope_roundtrip. Qed.
Print Assumptions C14_envelope_roundtrip.
Theorem C14_envelope_roundtrip_back :
  forall (H : bytes -> bytes) (Body : Type) (body_root : fork -> Body -> bytes) (e : envelope Body) b,
  envelope_wf H Body body_root e -> envelope_to_signed_block Body e = Ok b ->
  envelope_of H Body body_root b (env_digest Body e) = e /\ block_root H Body body_root b = env_root Body e.
Proof. exact envelope_roundtrip_back. Qed.
Print Assumptions C14_envelope_roundtrip_back.

(* acceptance <=> right proposer index, digest of the slot's version, and BLS accepts the signature over the
   signing root under the proposer domain of EXACTLY the version compute_fork_version gives the slot.
   A signature made under another version is thus checked against a different message (computed from another
   version); that the two messages differ is collision resistance, and that BLS then rejects is
   unforgeability: both outside (trusted base). *)
Theorem C14_envelope_sig_iff :
  forall (H : bytes -> bytes) (Body : Type) (bls_verify : bytes -> bytes -> bytes -> bool)
         c (e : envelope Body) gvr proposer pk,
  schedule_sorted c ->
  verify_signature H Body bls_verify c e gvr proposer pk = true <->
  (env_proposer Body e = proposer /\
   env_digest Body e = fork_digest H (compute_fork_version c (slot_to_epoch c (env_slot Body e))) gvr /\
   bls_verify pk (proposer_message H c gvr (env_root Body e) (env_slot Body e)) (env_sig Body e) = true).
Proof. exact envelope_sig_iff. Qed.
Print Assumptions C14_envelope_sig_iff.
Theorem C14_envelope_sig_message :
  forall (H : bytes -> bytes) (Body : Type) (body_root : fork -> Body -> bytes)
         (bls_verify : bytes -> bytes -> bytes -> bool) c (b : signed_block Body) gvr pk,
  schedule_sorted c -> sb_fork Body b <> Fulu ->
  let v := compute_fork_version c (slot_to_epoch c (sb_slot Body b)) in
  verify_signature H Body bls_verify c (envelope_of H Body body_root b (fork_digest H v gvr)) gvr (sb_proposer Body b) pk
  = bls_verify pk (signing_root H (block_root H Body body_root b) (compute_domain H DOMAIN_BEACON_PROPOSER v gvr)) (sb_sig Body b).
Proof. exact envelope_sig_message. Qed.
Print Assumptions C14_envelope_sig_message.

(* ---- constants: what an empty table_diff (the regenerated obligation) means ---- *)
Theorem C14_constants_diff_sound : forall a b, table_diff a b = [] -> forall k, lookup k a = lookup k b.
Proof. exact table_diff_sound. Qed.
Print Assumptions C14_constants_diff_sound.

(* ---- the repaired trigger changes nothing where the snapshot's was meaningful ---- *)
Theorem C14_boundary_repair_conservative : forall c slot E,
  0 < c_spe c -> E * c_spe c < two64 -> at_boundary_orig c slot E = at_boundary c slot E.
Proof. exact at_boundary_orig_eq. Qed.
Print Assumptions C14_boundary_repair_conservative.
Theorem C14_version_repair_conservative : forall c slot,
  slot_to_epoch c slot < e_capella c -> fork_version_orig c slot = fork_version c slot.
Proof. exact fork_version_orig_early. Qed.
Print Assumptions C14_version_repair_conservative.

(* ---- defects of the pinned snapshot, kept as machine-checked witnesses ---- *)
(* Spec.ForkVersion: DENEB version in the Capella interval, ELECTRA in Deneb's, FULU in Electra's *)
Theorem C14_fork_version_snapshot_refuted :
  schedule_sorted mainnet_like /\
  fork_version_orig mainnet_like (200000 * 32) = v_deneb mainnet_like /\
  compute_fork_version mainnet_like 200000 = v_capella mainnet_like /\
  fork_version_orig mainnet_like (300000 * 32) = v_electra mainnet_like /\
  compute_fork_version mainnet_like 300000 = v_deneb mainnet_like /\
  fork_version_orig mainnet_like (400000 * 32) = v_fulu mainnet_like /\
  compute_fork_version mainnet_like 400000 = v_electra mainnet_like.
Proof. exact fork_version_orig_refuted. Qed.
(* ... hence the envelope check of the snapshot rejected a correctly signed Capella block and accepted one signed
   under the Deneb domain (real SHA-256; a toy scheme whose signature is the message shows which message is asked) *)
Theorem C14_envelope_sig_snapshot_refuted :
  let toy_verify (pk msg sig : bytes) := bytes_eqb msg sig in
  let gvr := repeat 7 32 in
  let slot := 200000 * 32 in
  let root := block_root sha256 bytes (fun _ b => b) (mkBlock bytes Capella slot 5 (repeat 1 32) (repeat 2 32) (repeat 3 32) []) in
  let msg_under v := signing_root sha256 root (compute_domain sha256 DOMAIN_BEACON_PROPOSER v gvr) in
  let env v := envelope_of sha256 bytes (fun _ b => b)
                 (mkBlock bytes Capella slot 5 (repeat 1 32) (repeat 2 32) (repeat 3 32) (msg_under v)) (fork_digest sha256 v gvr) in
  verify_signature_orig sha256 bytes toy_verify mainnet_like (env (v_capella mainnet_like)) gvr 5 [] = false /\
  verify_signature sha256 bytes toy_verify mainnet_like (env (v_capella mainnet_like)) gvr 5 [] = true /\
  verify_signature_orig sha256 bytes toy_verify mainnet_like (env (v_deneb mainnet_like)) gvr 5 [] = true /\
  verify_signature sha256 bytes toy_verify mainnet_like (env (v_deneb mainnet_like)) gvr 5 [] = false.
Proof. exact verify_signature_orig_refuted. Qed.
(* UpgradeMaybe: `slot == Slot(FORK_EPOCH) * SLOTS_PER_EPOCH` wraps; ALTAIR_FORK_EPOCH = 2^61+1 with 8 slots per
   epoch upgrades the state at slot 8 although every lookup says phase0 for epoch 1 *)
Theorem C14_upgrade_boundary_snapshot_refuted :
  schedule_sorted wrap_cfg /\ 1 <= e_altair wrap_cfg /\
  (exists st, process_slots_orig wrap_cfg (genesis_state wrap_cfg) 8 = Ok st /\ st_type st = Altair) /\
  spec_fork_at_epoch wrap_cfg (8 / 8) = Phase0 /\
  fork_version wrap_cfg 8 = v_genesis wrap_cfg /\
  process_slots wrap_cfg (genesis_state wrap_cfg) 8 = Ok (mkSt Phase0 (mkFork 1 1 0) 8).
Proof. exact upgrade_boundary_orig_refuted. Qed.

(* ---- non-vacuity: a schedule with equal, adjacent and never-activated forks; real SHA-256 ---- *)
Definition demo_cfg : fork_cfg :=
  mkCfg 8 1 16777217 33554433 50331649 67108865 83886081 100663297  2 3 3 4 FAR_FUTURE_EPOCH FAR_FUTURE_EPOCH.
Example C14_nonvacuous :
  schedule_sorted demo_cfg /\ 1 <= e_altair demo_cfg /\ versions_distinct_b demo_cfg = true /\
  digests_distinct_b sha256 demo_cfg (repeat 7 32) = true /\
  (* bellatrix and capella share epoch 3: capella wins, its previous_version is bellatrix's *)
  process_slots demo_cfg (genesis_state demo_cfg) 24 = Ok (mkSt Capella (mkFork 33554433 50331649 3) 24) /\
  process_slots demo_cfg (genesis_state demo_cfg) 23 = Ok (mkSt Altair (mkFork 1 16777217 2) 23) /\
  process_slots demo_cfg (genesis_state demo_cfg) 100 = Ok (mkSt Deneb (mkFork 50331649 67108865 4) 100) /\
  fork_version demo_cfg 24 = 50331649 /\ fork_version demo_cfg (2 ^ 64 - 1) = 67108865 /\
  block_allocator (new_decoder sha256 demo_cfg (repeat 7 32))
                  (decoder_fork_digest (new_decoder sha256 demo_cfg (repeat 7 32)) 3) = Ok Capella /\
  (* mainnet's fork digest for the Deneb fork (genesis_validators_root 4b363db9...): 0x6a95a1a9 *)
  fork_digest sha256 67108864
    [75;54;61;185;78;40;97;32;215;110;185;5;52;15;221;78;84;191;233;240;107;243;63;246;207;90;210;127;81;27;254;149]
  = [106; 149; 161; 169].
Proof. vm_compute. repeat split; try reflexivity; intros; discriminate. Qed.
