(* C13 — Genesis state construction equals the spec's initialize-from-eth1.
   The executable Spec (Beacon/Spec/Transition.v: initialize_beacon_state_from_eth1, is_valid_genesis_state) is run,
   extracted, against phase0.GenesisFromEth1 / IsValidGenesisState on every generated deposit list (state bytes compared).
   Theorems: the one place where zrnt's construction differs from the spec text, and the validity predicate. *)
From Coq Require Import NArith List.
From V Require Import Ssz.SszCore Beacon.Config Beacon.Schemas Beacon.State Beacon.Spec.Helpers Beacon.Spec.Transition Beacon.Proofs.GenesisProofs.
Local Open Scope N_scope.

(* zrnt grows a List[Root] of deposit-data roots; the spec hashes List[DepositData]: same root, for every hash
   function with 32-byte output, every limit and every deposit list *)
Theorem C13_incremental_deposit_root : forall (H : bytes -> bytes) (zh : nat -> bytes) (limit : N) (ds : list value),
  (forall d, length (hash_tree_root H zh DepositDataT d) = 32%nat) ->
  hash_tree_root H zh (TList DepositDataT limit) (VSeq ds) =
  hash_tree_root H zh (TList (TByteVector 32) limit) (VSeq (map (fun d => VBytes (hash_tree_root H zh DepositDataT d)) ds)).
Proof. exact deposit_roots_list_eq. Qed.
Print Assumptions C13_incremental_deposit_root.

Theorem C13_valid_genesis_iff : forall (E : Env) (st : BeaconState),
  is_valid_genesis_state E st = true <->
  (MIN_GENESIS_TIME (cfg E) <= genesis_time st /\
   MIN_GENESIS_ACTIVE_VALIDATOR_COUNT (cfg E) <= N.of_nat (length (get_active_validator_indices st GENESIS_EPOCH))).
Proof. exact valid_genesis_iff. Qed.
Print Assumptions C13_valid_genesis_iff.

(* ======================================================================================================
   zrnt's genesis construction refines the specification.
   Impl model: Beacon/Impl/Genesis.v (phase0/genesis.go GenesisFromEth1 + IsValidGenesisState, phase0/deposit.go
   ProcessDeposit with the epochs context's pubkey cache = the C16 cache model, phase0/kickstart.go KickStartState,
   randao.go SeedRandao, state.go NewBeaconStateView/AddValidator); proofs: Beacon/Refine/GenesisRefine.v.

   Hypotheses, all explicit below:
     * the hash returns 32 bytes and the depth-2 zero hash has 32 bytes (root of List[Root] = root of List[DepositData]);
     * 0 < EFFECTIVE_BALANCE_INCREMENT (Go `%` by zero panics);
     * epc_params_ok E, the record of exactly these configuration facts (they let the C07 refinements of
       NewShufflingEpoch / ComputeProposers apply to epc.LoadShuffling / epc.LoadProposers at the end of GenesisFromEth1):
         ep_rounds : SHUFFLE_ROUND_COUNT <= 255                          (Go passes uint8(SHUFFLE_ROUND_COUNT))
         ep_bytes  : forall m, Forall (fun b => b < 256) (Hash E m)      (the hash returns bytes)
         ep_spe    : 0 < SLOTS_PER_EPOCH
         ep_tcs    : 0 < TARGET_COMMITTEE_SIZE
         ep_mcps   : 0 < MAX_COMMITTEES_PER_SLOT
         ep_count  : MAX_COMMITTEES_PER_SLOT * SLOTS_PER_EPOCH < 2^32    (committee offsets are uint64 products)
         ep_max    : MAX_EFFECTIVE_BALANCE * 255 < 2^64                  (MAX_EFFECTIVE_BALANCE * randomByte is a uint64 product)
         ep_ephv   : 0 < EPOCHS_PER_HISTORICAL_VECTOR                    (GetRandomMix: epoch % vector length)
     * the Spec's bls_verify refuses keys / signatures that do not decode (pk_ok / sig_ok are zrnt's decoders:
       an undecodable key or signature makes ProcessDeposit skip the deposit);
     * uint64 ranges: timestamp + GENESIS_DELAY, the sum of the deposit amounts, at most 2^32 deposits (limit of the
       deposit-roots list view; ztyp refuses to append beyond it) and at most VALIDATOR_REGISTRY_LIMIT of them;
     * every deposit's pubkey is a 48-byte array (it is the cache key).
   zrnt's two refusals beyond the Spec's assertions are part of the statement: a registry below SLOTS_PER_EPOCH
   ("not enough validators to init full featured BeaconState") and no validator active at genesis (LoadProposers:
   "no active validators available to compute proposers").  That the epochs-context computation adds NO other error is
   proved (GenesisRefine.load_epc_genesis: every validator active at genesis has the maximal effective balance, so the
   proposer sampling of the C07 Impl model accepts its first candidate), not assumed.
   ====================================================================================================== *)
From Coq Require Import Bool.
From RecordUpdate Require Import RecordSet.
From V Require Import Base.U64 Base.Outcome Beacon.Spec.Block Beacon.Impl.BlockOps Beacon.Impl.Genesis Beacon.Refine.GenesisRefine.
Import ListNotations RecordSetNotations.
Local Open Scope list_scope.

(* (1) the deposit loop: a List[Root] view grown by one data root per deposit, its root written into eth1_data before each
   ProcessDeposit, "known validator" decided by the pubkey cache  =  the Spec's loop over List[DepositData] prefixes with
   the registry scan; same state and same leaves after every deposit list, error exactly where the Spec asserts *)
Theorem C13_genesis_deposit_loop_refines :
  forall (E : Env) (pk_ok sig_ok : bytes -> bool) (deposits : list value) (st0 : BeaconState),
  (forall x, length (Hash E x) = 32%nat) -> length (zero_hashes E 2) = 32%nat ->
  0 < EFFECTIVE_BALANCE_INCREMENT (cfg E) ->
  (forall pk m s, bls_verify E pk m s = true -> pk_ok pk = true /\ sig_ok s = true) ->
  validators st0 = [] -> balances st0 = [] -> eth1_deposit_index st0 = 0 ->
  N.of_nat (length deposits) <= 2 ^ 32 -> N.of_nat (length deposits) <= VALIDATOR_REGISTRY_LIMIT (cfg E) ->
  sumN (map (fun dep => vuint (vfield (vfield dep 1) 2)) deposits) < two64 ->
  Forall (fun dep => length (vbytes (vfield (vfield dep 1) 0)) = 48%nat /\
                     Forall (fun b => b < 256) (vbytes (vfield (vfield dep 1) 0))) deposits ->
  (x <~ deposit_loop E pk_ok sig_ok false deposits (st0, [], pc_empty) ;; Ok (fst (fst x), snd (fst x)))
  = match fold_left (fun (acc : option (BeaconState * list value)) dep =>
             sl <- acc ;;
             let '(st, leaves) := sl in
             let leaves := leaves ++ [vfield dep 1] in
             let st := st <| eth1_data := mkEth1Data (htr E (TList DepositDataT (2 ^ 32)) (VSeq leaves))
                                                     (e_deposit_count (eth1_data st)) (e_block_hash (eth1_data st)) |> in
             st <- process_deposit E Phase0 st dep ;;
             Some (st, leaves))
          deposits (Some (st0, [])) with
    | Some (st, leaves) => Ok (st, map (htr E DepositDataT) leaves)
    | None => Err
    end.
Proof. exact genesis_deposit_loop_refines. Qed.
Print Assumptions C13_genesis_deposit_loop_refines.

(* (2) the activation loop (read validator i and balance i through the views, recompute the effective balance, activate at
   the maximum) = the Spec's map over (validator, balance) *)
Theorem C13_genesis_activation_refines : forall (E : Env) (vals : list Validator) (bals : list N),
  0 < EFFECTIVE_BALANCE_INCREMENT (cfg E) -> length bals = length vals ->
  activation_loop E vals bals =
  Ok (map (fun vb : Validator * N =>
             let '(v, b) := vb in
             let v := v <| v_effective_balance :=
                             N.min (b - b mod EFFECTIVE_BALANCE_INCREMENT (cfg E)) (MAX_EFFECTIVE_BALANCE (cfg E)) |> in
             if v_effective_balance v =? MAX_EFFECTIVE_BALANCE (cfg E)
             then v <| v_activation_eligibility_epoch := GENESIS_EPOCH |> <| v_activation_epoch := GENESIS_EPOCH |>
             else v) (combine vals bals)).
Proof. exact genesis_activation_refines. Qed.
Print Assumptions C13_genesis_activation_refines.

(* (3) GenesisFromEth1: whenever zrnt returns a state it is the Spec's state, field for field; it errors exactly where the
   Spec asserts (a Merkle branch that does not verify), or the registry has fewer validators than SLOTS_PER_EPOCH, or no
   validator is active at the genesis epoch *)
Theorem C13_genesis_from_eth1_refines :
  forall (E : Env) (pk_ok sig_ok : bytes -> bool) (eth1_block_hash : bytes) (eth1_timestamp : N) (deposits : list value),
  (forall x, length (Hash E x) = 32%nat) -> length (zero_hashes E 2) = 32%nat ->
  0 < EFFECTIVE_BALANCE_INCREMENT (cfg E) -> epc_params_ok E ->
  (forall pk m s, bls_verify E pk m s = true -> pk_ok pk = true /\ sig_ok s = true) ->
  eth1_timestamp + GENESIS_DELAY (cfg E) < two64 ->
  N.of_nat (length deposits) <= 2 ^ 32 -> N.of_nat (length deposits) <= VALIDATOR_REGISTRY_LIMIT (cfg E) ->
  sumN (map (fun dep => vuint (vfield (vfield dep 1) 2)) deposits) < two64 ->
  Forall (fun dep => length (vbytes (vfield (vfield dep 1) 0)) = 48%nat /\
                     Forall (fun b => b < 256) (vbytes (vfield (vfield dep 1) 0))) deposits ->
  genesis_from_eth1 E pk_ok sig_ok eth1_block_hash eth1_timestamp deposits false =
  match initialize_beacon_state_from_eth1 E eth1_block_hash eth1_timestamp deposits with
  | Some st =>
      if N.of_nat (length (validators st)) <? SLOTS_PER_EPOCH (cfg E) then Err
      else if N.of_nat (length (get_active_validator_indices st GENESIS_EPOCH)) =? 0 then Err
      else Ok st
  | None => Err
  end.
Proof. exact genesis_from_eth1_refines. Qed.
Print Assumptions C13_genesis_from_eth1_refines.

(* the same where the Spec's state has an active validator (e.g. one deposit of MAX_EFFECTIVE_BALANCE): the only refusal
   beyond the Spec's assertions is the registry size *)
Theorem C13_genesis_from_eth1_refines_active :
  forall (E : Env) (pk_ok sig_ok : bytes -> bool) (eth1_block_hash : bytes) (eth1_timestamp : N) (deposits : list value),
  (forall x, length (Hash E x) = 32%nat) -> length (zero_hashes E 2) = 32%nat ->
  0 < EFFECTIVE_BALANCE_INCREMENT (cfg E) -> epc_params_ok E ->
  (forall pk m s, bls_verify E pk m s = true -> pk_ok pk = true /\ sig_ok s = true) ->
  eth1_timestamp + GENESIS_DELAY (cfg E) < two64 ->
  N.of_nat (length deposits) <= 2 ^ 32 -> N.of_nat (length deposits) <= VALIDATOR_REGISTRY_LIMIT (cfg E) ->
  sumN (map (fun dep => vuint (vfield (vfield dep 1) 2)) deposits) < two64 ->
  Forall (fun dep => length (vbytes (vfield (vfield dep 1) 0)) = 48%nat /\
                     Forall (fun b => b < 256) (vbytes (vfield (vfield dep 1) 0))) deposits ->
  (forall st, initialize_beacon_state_from_eth1 E eth1_block_hash eth1_timestamp deposits = Some st ->
              SLOTS_PER_EPOCH (cfg E) <= N.of_nat (length (validators st)) ->
              get_active_validator_indices st GENESIS_EPOCH <> []) ->
  genesis_from_eth1 E pk_ok sig_ok eth1_block_hash eth1_timestamp deposits false =
  match initialize_beacon_state_from_eth1 E eth1_block_hash eth1_timestamp deposits with
  | Some st => if N.of_nat (length (validators st)) <? SLOTS_PER_EPOCH (cfg E) then Err else Ok st
  | None => Err
  end.
Proof. exact genesis_from_eth1_refines_active. Qed.
Print Assumptions C13_genesis_from_eth1_refines_active.

(* the epochs context returned with the state: its pubkey cache (the C16 cache model, filled by ProcessDeposit's
   AddValidator calls) answers every lookup, after zrnt's `index < validator count` filter, exactly as the Spec's registry
   scan find_pubkey does — the `epc_ok` pubkey-cache hypothesis of the block-level refinements (C01/C03) holds at genesis *)
Theorem C13_genesis_cache_matches :
  forall (E : Env) (pk_ok sig_ok : bytes -> bool) (eth1_block_hash : bytes) (eth1_timestamp : N) (deposits : list value)
         (st : BeaconState) (pc : pubkey_cache),
  (forall x, length (Hash E x) = 32%nat) -> length (zero_hashes E 2) = 32%nat ->
  0 < EFFECTIVE_BALANCE_INCREMENT (cfg E) -> epc_params_ok E ->
  (forall pk m s, bls_verify E pk m s = true -> pk_ok pk = true /\ sig_ok s = true) ->
  eth1_timestamp + GENESIS_DELAY (cfg E) < two64 ->
  N.of_nat (length deposits) <= 2 ^ 32 -> N.of_nat (length deposits) <= VALIDATOR_REGISTRY_LIMIT (cfg E) ->
  sumN (map (fun dep => vuint (vfield (vfield dep 1) 2)) deposits) < two64 ->
  Forall (fun dep => length (vbytes (vfield (vfield dep 1) 0)) = 48%nat /\
                     Forall (fun b => b < 256) (vbytes (vfield (vfield dep 1) 0))) deposits ->
  genesis_from_eth1_ctx E pk_ok sig_ok eth1_block_hash eth1_timestamp deposits false = Ok (st, pc) ->
  initialize_beacon_state_from_eth1 E eth1_block_hash eth1_timestamp deposits = Some st /\
  forall pk, (length pk = 48%nat /\ Forall (fun b => b < 256) pk) ->
    exists o, pc_lookup pc pk = Ok o /\
      option_map N.of_nat (match o with Some j => if Nat.ltb j (length (validators st)) then Some j else None | None => None end)
      = find_pubkey pk (validators st) 0.
Proof. exact genesis_cache_matches. Qed.
Print Assumptions C13_genesis_cache_matches.

(* the epochs-context computation at the end of GenesisFromEth1 (LoadShuffling: LoadBoundedIndices, GetSeed, NewShufflingEpoch for
   the current = previous and the next epoch; LoadProposers: ComputeProposers — the C07 Impl models) on a state whose
   registry is as the activation loop leaves it (effective balances capped; active at genesis only at the cap): it returns an
   error exactly when no validator is active at the genesis epoch, and never panics *)
Theorem C13_genesis_epc_refuses_only_without_active : forall (E : Env) (st : BeaconState),
  epc_params_ok E -> length (randao_mixes st) = N.to_nat (EPOCHS_PER_HISTORICAL_VECTOR (cfg E)) ->
  Forall (fun v => v_effective_balance v <= MAX_EFFECTIVE_BALANCE (cfg E) /\
                   (is_active_validator v GENESIS_EPOCH = true -> v_effective_balance v = MAX_EFFECTIVE_BALANCE (cfg E)))
         (validators st) ->
  N.of_nat (length (validators st)) <= 2 ^ 32 ->
  load_epc E st = check (negb (N.of_nat (length (get_active_validator_indices st GENESIS_EPOCH)) =? 0)).   (* check b = if b then Ok tt else Err *)
Proof. exact load_epc_genesis. Qed.
Print Assumptions C13_genesis_epc_refuses_only_without_active.

(* NewBeaconStateView(spec) — the model's starting state — is the default value of the phase0 BeaconState type *)
Theorem C13_empty_state_is_default : forall (E : Env),
  empty_state E = state_of_value (cfg E) Phase0 (default_value (BeaconStateT (cfg E) Phase0)).
Proof. exact empty_state_is_default. Qed.
Print Assumptions C13_empty_state_is_default.

(* (4) IsValidGenesisState (genesis time below the minimum -> false; count IsActive(v, GENESIS_EPOCH) with a uint64
   counter; count >= MIN_GENESIS_ACTIVE_VALIDATOR_COUNT) = the Spec's predicate *)
Theorem C13_valid_genesis_refines : forall (E : Env) (st : BeaconState),
  N.of_nat (length (validators st)) < two64 ->
  is_valid_genesis_state_go E st = is_valid_genesis_state E st.
Proof. exact valid_genesis_refines. Qed.
Print Assumptions C13_valid_genesis_refines.

(* (5) KickStartState (deposits without proofs carrying a placeholder signature, ignoreSignatureAndProof = true, timestamp 0,
   then SetGenesisTime) = the Spec's genesis under the oracle that accepts every key and signature that DECODE, for the
   same deposit data with any Merkle branches the Spec accepts, genesis_time overwritten.  (The flag does not switch off
   the decoders: an undecodable pubkey is skipped by zrnt also here.) *)
Theorem C13_kickstart_refines :
  forall (E : Env) (pk_ok sig_ok : bytes -> bool) (placeholder_sig eth1_block_hash : bytes) (time : N)
         (vs : list (bytes * bytes * N)) (proofs : list (list bytes)) (st : BeaconState),
  (forall x, length (Hash E x) = 32%nat) -> length (zero_hashes E 2) = 32%nat ->
  0 < EFFECTIVE_BALANCE_INCREMENT (cfg E) -> epc_params_ok E -> GENESIS_DELAY (cfg E) < two64 ->
  N.of_nat (length vs) <= 2 ^ 32 -> N.of_nat (length vs) <= VALIDATOR_REGISTRY_LIMIT (cfg E) ->
  sumN (map (fun v => snd v) vs) < two64 ->
  Forall (fun v => length (fst (fst v)) = 48%nat /\ Forall (fun b => b < 256) (fst (fst v))) vs ->
  length proofs = length vs ->
  initialize_beacon_state_from_eth1
    (mkEnv (cfg E) (Hash E) (zero_hashes E) (fun pk _ s => pk_ok pk && sig_ok s)
           (bls_fast_aggregate_verify E) (bls_aggregate_pubkeys E) (engine_accepts E))
    eth1_block_hash 0
    (map (fun pv : list bytes * (bytes * bytes * N) =>
            let '(pk, wc, bal) := snd pv in
            VCont [VSeq (map VBytes (fst pv)); VCont [VBytes pk; VBytes wc; VUint bal; VBytes placeholder_sig]])
         (combine proofs vs)) = Some st ->
  kickstart_state E pk_ok sig_ok placeholder_sig eth1_block_hash time vs =
    if N.of_nat (length (validators st)) <? SLOTS_PER_EPOCH (cfg E) then Err
    else if N.of_nat (length (get_active_validator_indices st GENESIS_EPOCH)) =? 0 then Err
    else Ok (st <| genesis_time := time |>).
Proof. exact kickstart_refines. Qed.
Print Assumptions C13_kickstart_refines.

(* Non-vacuity, under SHA-256 with real Merkle branches of the incrementally grown deposit tree and a toy signature oracle:
   six deposits — validator 1 (32 ETH), key 2 with a wrong signature (skipped), a 1-ETH top-up of validator 1, an
   undecodable key (skipped), validator 3 (32 ETH), validator 4 (17 ETH: registered, not activated).  All hypotheses of
   C13_genesis_from_eth1_refines hold, Impl and Spec compute the same state, and that state is the expected one. *)
Example C13_genesis_nonvacuous :
  let E := GenesisExample.ex_env in
  let deposits := GenesisExample.ex_deposits in
  ((forall x, length (Hash E x) = 32%nat) /\ length (zero_hashes E 2) = 32%nat /\
   0 < EFFECTIVE_BALANCE_INCREMENT (cfg E) /\ epc_params_ok E /\
   (forall pk m s, bls_verify E pk m s = true -> GenesisExample.ex_pk_ok pk = true /\ GenesisExample.ex_sig_ok s = true) /\
   990 + GENESIS_DELAY (cfg E) < two64 /\
   N.of_nat (length deposits) <= 2 ^ 32 /\ N.of_nat (length deposits) <= VALIDATOR_REGISTRY_LIMIT (cfg E) /\
   sumN (map (fun dep => vuint (vfield (vfield dep 1) 2)) deposits) < two64 /\
   Forall (fun dep => length (vbytes (vfield (vfield dep 1) 0)) = 48%nat /\
                      Forall (fun b => b < 256) (vbytes (vfield (vfield dep 1) 0))) deposits) /\
  (genesis_from_eth1 E GenesisExample.ex_pk_ok GenesisExample.ex_sig_ok GenesisExample.ex_hash 990 deposits false
     = of_opt (initialize_beacon_state_from_eth1 E GenesisExample.ex_hash 990 deposits) /\
   option_map (fun st => (map (fun v => hd 0 (v_pubkey v)) (validators st), balances st,
                          map v_effective_balance (validators st), map v_activation_epoch (validators st),
                          eth1_deposit_index st, genesis_time st))
              (initialize_beacon_state_from_eth1 E GenesisExample.ex_hash 990 deposits)
     = Some ([1; 3; 4], [33000000000; 32000000000; 17000000000], [32000000000; 32000000000; 17000000000],
             [0; 0; FAR_FUTURE_EPOCH], 6, 1000) /\
   option_map (is_valid_genesis_state_go E) (initialize_beacon_state_from_eth1 E GenesisExample.ex_hash 990 deposits)
     = Some true).
Proof. exact (conj GenesisExample.ex_hyps GenesisExample.ex_runs). Qed.
