(* C13 — Genesis state construction equals the spec's initialize-from-eth1.
   The executable Spec (Beacon/Spec/Transition.v: initialize_beacon_state_from_eth1, is_valid_genesis_state) is run,
   extracted, against phase0.GenesisFromEth1 / IsValidGenesisState on every generated deposit list (state bytes compared).
   Theorems: the one place where zrnt's construction differs from the spec text, and the validity predicate. *)
From Coq Require Import NArith List.
From V Require Import Ssz.SszCore Beacon.Config Beacon.Schemas Beacon.State Beacon.Spec.Helpers Beacon.Spec.Transition Beacon.Proofs.GenesisProofs.
Local Open Scope N_scope.

(* zrnt grows a List[Root] of deposit-data roots; the spec hashes List[DepositData]: same root, for every hash
   function with 32-byte output, every limit and every deposit list *)
Theorem C13_incremental_deposit_root : forall (H : bytes -> bytes) (zh : nat -> bytes) (limit : N) (ds : list value),
  (forall d, length (hash_tree_root H zh DepositDataT d) = 32%nat) ->
  hash_tree_root H zh (TList DepositDataT limit) (VSeq ds) =
  hash_tree_root H zh (TList (TByteVector 32) limit) (VSeq (map (fun d => VBytes (hash_tree_root H zh DepositDataT d)) ds)).
Proof. exact deposit_roots_list_eq. Qed.
Print Assumptions C13_incremental_deposit_root.

Theorem C13_valid_genesis_iff : forall (E : Env) (st : BeaconState),
  is_valid_genesis_state E st = true <->
  (MIN_GENESIS_TIME (cfg E) <= genesis_time st /\
   MIN_GENESIS_ACTIVE_VALIDATOR_COUNT (cfg E) <= N.of_nat (length (get_active_validator_indices st GENESIS_EPOCH))).
Proof. exact valid_genesis_iff. Qed.
Print Assumptions C13_valid_genesis_iff.
