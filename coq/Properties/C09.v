(* C09 — Fork-choice head is the LMD-GHOST winner for every history of inputs.
   Statements only; proofs in Forkchoice/{GhostProofs,Refuted}.v. *)
From Coq Require Import NArith ZArith List Bool.
From V Require Import Base.U64 Base.Outcome Forkchoice.ProtoArray Forkchoice.VoteStore Forkchoice.Wrapper Forkchoice.TreeSpec
     Forkchoice.GhostSpec Forkchoice.Step Forkchoice.GhostProofs Forkchoice.Refuted.
Import ListNotations.
Local Open Scope N_scope.

(* The full property: over every history in the domain, Head / FindHead / ProcessAttestation of the Impl return what the Spec says
   (GhostSpec: walk from the justified-or-pinned node to the child that leads to a viable node with the greatest (weight, root),
   weight = balances of the validators whose latest accepted vote lies in the subtree). *)
Definition C09_full : Prop := forall i ops, refines sel_c09 true i ops = true.
Definition C09_head_refines : Prop := forall i ops, refines sel_c09 false i ops = true.
   (* with the hypothesis excluding the known finding prune_keeps_late_fork. NOT proved: the invariants weights_inv (node weight =
      subtree weight of the counted votes) and best_links_inv (BestChild/BestDescendant = the argmax chain after a refresh) are
      checked on every correspondence run (node weights are compared with the Spec's after every head computation and update;
      the link fields through the state checksum against the Impl and through every head against the Spec), not proved.
      Proved for all states and inputs: the latest-message rule (vote_once), below. *)

(* vote_once, acceptance: a vote touches the tracker of its validator only, never the vote currently counted, and replaces the
   pending vote iff its target epoch is strictly later (or the validator never voted and the epoch is 0): older or equal change nothing *)
Theorem C09_vote_once_attest : forall st ix r s st' b,
  vs_ProcessAttestation ix r s st = (st', Ok b) ->
  b = true /\
  (forall j, j <> ix -> tracker_of st' j = tracker_of st j) /\
  t_cur (tracker_of st' ix) = t_cur (tracker_of st ix) /\ t_cure (tracker_of st' ix) = t_cure (tracker_of st ix) /\
  let old := tracker_of st ix in
  let e := s / vs_spe st in
  if (t_nexte old <? e) || ((e =? 0) && tr_is_zero old)
  then t_next (tracker_of st' ix) = (r, s) /\ t_nexte (tracker_of st' ix) = e
  else t_next (tracker_of st' ix) = t_next old /\ t_nexte (tracker_of st' ix) = t_nexte old.
Proof. exact vote_once_attest. Qed.
Print Assumptions C09_vote_once_attest.

(* vote_once, refresh: ComputeDeltas keeps exactly one tracker per validator, never changes a pending vote, the counted vote
   can only become the pending one and only if that node is known; one delta per node of `indices` *)
Theorem C09_vote_once_refresh : forall fx ind ob nb_ st st' d,
  ComputeDeltas fx ind ob nb_ st = (st', Ok d) ->
  Forall2 (refreshed ind) (vs_votes st) (vs_votes st') /\ vs_changed st' = false /\ length d = length ind.
Proof. exact vote_once_refresh. Qed.
Print Assumptions C09_vote_once_refresh.

(* the Spec's head, when there is one, is a viable node of the tree *)
Theorem C09_spec_head_sound : forall s start e,
  spec_find_head s start = Ok e -> In e (ss_tree s) /\ s_viable s e = true.
Proof. exact spec_head_sound. Qed.
Print Assumptions C09_spec_head_sound.

(* Defects of the pinned snapshot *)
Theorem C09_bestchild_nonviable_snapshot_refuted :
  last_out (run_from all_but_nonviable (init0 false) h_nonviable) = Err /\
  last_exp (spec_from (init0 false) h_nonviable) = EVal (RRef (2, 1)) /\
  last_out (run_from fixed (init0 false) h_nonviable) = Ok (RRef (2, 1)).
Proof. exact bestchild_nonviable_refuted. Qed.
Theorem C09_attestation_gap_slot_snapshot_refuted :
  last_out (run_from pinned (init0 false) h_att_gap) = Ok (RBool false) /\
  last_exp (spec_from (init0 false) h_att_gap) = EVal (RBool true) /\
  last_out (run_from fixed (init0 false) h_att_gap) = Ok (RBool true).
Proof. exact attestation_gap_slot_refuted. Qed.
Theorem C09_attestation_unknown_target_snapshot_refuted :
  last_out (run_from pinned (init0 false) h_att_unknown) = Ok (RBool true) /\
  last_exp (spec_from (init0 false) h_att_unknown) = EVal (RBool false) /\
  last_out (run_from fixed (init0 false) h_att_unknown) = Ok (RBool false).
Proof. exact attestation_unknown_target_refuted. Qed.

(* non-vacuity: the full statement holds on histories with forks, moving votes, an update and a prune at an empty-slot anchor *)
Example C09_nonvacuous :
  refines sel_c09 true (init0 false) h_rich = true /\
  refines sel_c09 true (init0 false) (h_gap_anchor ++ [OChain 3 4; OGetSlot 2; OBlock 3 9 6 1 1; OAtt 1 9 6; OAtt 2 9 6; OHead]) = true.
Proof. destruct refines_examples as [_ [A [_ [_ [B _]]]]]. exact (conj A B). Qed.
