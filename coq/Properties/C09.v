(* C09 — Fork-choice head is the LMD-GHOST winner for every history of inputs.
   Statements only; proofs in Forkchoice/{GhostProofs,Refuted}.v. *)
From Coq Require Import NArith ZArith List Bool.
From V Require Import Base.U64 Base.Outcome Forkchoice.ProtoArray Forkchoice.VoteStore Forkchoice.Wrapper Forkchoice.TreeSpec
     Forkchoice.GhostSpec Forkchoice.Step Forkchoice.TreeSpec Forkchoice.TreeProofs Forkchoice.GhostProofs Forkchoice.WeightProofs Forkchoice.LinkProofs Forkchoice.Refuted.
Import ListNotations.
Local Open Scope N_scope.

(* The full property: over every history in the domain, Head / FindHead / ProcessAttestation of the Impl return what the Spec says
   (GhostSpec: walk from the justified-or-pinned node to the child that leads to a viable node with the greatest (weight, root),
   weight = balances of the validators whose latest accepted vote lies in the subtree). *)
Definition C09_full : Prop := forall i ops, refines sel_c09 true i ops = true.
Definition C09_head_refines : Prop := forall i ops, refines sel_c09 false i ops = true.
   (* with the hypothesis excluding the known finding prune_keeps_late_fork. NOT proved. Proved below: weights_inv for all states
      reached without pruning (C09_weights_inv_partial) and the latest-message rule (vote_once). Not proved: weights across OnPrune,
      and best_links_inv proper (BestChild/BestDescendant = the ARGMAX chain after a refresh; the soundness half - links and head stay
      inside the fork-choice subtree, the head is viable - is proved below, C09_head_sound_partial); both are
      checked on every correspondence run (node weights are compared with the Spec's after every head computation and update;
      the link fields through the state checksum against the Impl and through every head against the Spec), not proved.
      Proved for all states and inputs: the latest-message rule (vote_once), below. *)

(* vote_once, acceptance: a vote touches the tracker of its validator only, never the vote currently counted, and replaces the
   pending vote iff its target epoch is strictly later (or the validator never voted and the epoch is 0): older or equal change nothing *)
Theorem C09_vote_once_attest : forall st ix r s st' b,
  vs_ProcessAttestation ix r s st = (st', Ok b) ->
  b = true /\
  (forall j, j <> ix -> tracker_of st' j = tracker_of st j) /\
  t_cur (tracker_of st' ix) = t_cur (tracker_of st ix) /\ t_cure (tracker_of st' ix) = t_cure (tracker_of st ix) /\
  let old := tracker_of st ix in
  let e := s / vs_spe st in
  if (t_nexte old <? e) || ((e =? 0) && tr_is_zero old)
  then t_next (tracker_of st' ix) = (r, s) /\ t_nexte (tracker_of st' ix) = e
  else t_next (tracker_of st' ix) = t_next old /\ t_nexte (tracker_of st' ix) = t_nexte old.
Proof. exact vote_once_attest. Qed.
Print Assumptions C09_vote_once_attest.

(* vote_once, refresh: ComputeDeltas keeps exactly one tracker per validator, never changes a pending vote, the counted vote
   can only become the pending one and only if that node is known; one delta per node of `indices` *)
Theorem C09_vote_once_refresh : forall fx ind ob nb_ st st' d,
  ComputeDeltas fx ind ob nb_ st = (st', Ok d) ->
  Forall2 (refreshed ind) (vs_votes st) (vs_votes st') /\ vs_changed st' = false /\ length d = length ind.
Proof. exact vote_once_refresh. Qed.
Print Assumptions C09_vote_once_refresh.

(* weights_inv (partial: histories without pruning; modulo 2^64 like the int64 arithmetic of the code, hence exactly when the sum of
   balances is below 2^63). [WInv pa votes bal]: every node weighs the sum of the balances of the validators whose COUNTED vote lies in
   its fork-choice subtree (fork-choice parents read positionally as ApplyScoreChanges does). *)

(* the first pass of ApplyScoreChanges, for every array whose fork-choice parents come earlier and every delta vector of the right
   length: no panic, nothing but weights changes, every node gains the sum of the deltas of its fork-choice subtree *)
Theorem C09_weights_loop_spec : forall k pa d,
  FpOk (fps_of pa) -> length d = length (pa_nodes pa) -> (k <= length (pa_nodes pa))%nat ->
  exists pa' d', weights_loop fixed k d pa = (pa', Ok d') /\ same_but_w pa pa' /\ length d' = length d /\
    forall j, (j < length (pa_nodes pa))%nat ->
      if (j <? k)%nat then eqm (dnth (ws pa') j) (dnth (ws pa) j + csum (fps_of pa) d k j)
      else dnth (ws pa') j = dnth (ws pa) j.
Proof. exact weights_loop_spec. Qed.
Print Assumptions C09_weights_loop_spec.

(* ComputeDeltas + ApplyScoreChanges (any epochs, any new balances) re-establish the invariant: hypotheses = the array is related to
   its tree (TreeProofs.Rel), non-empty, and satisfies JP = fork-choice parents come earlier, `indices` has one entry per node with
   values from the offset, the zero ref is unknown, counted/pending votes are zero or known with "counted known => pending known",
   and WInv under the old balances. Whatever the second pass returns, the tree is untouched. *)
Theorem C09_weights_inv_refresh : forall st bal nb_ je fe pa,
  Rel pa -> pa_nodes pa <> [] -> JP (vs_votes st) bal pa ->
  exists st' d pa' o,
    ComputeDeltas fixed (pa_idx pa) bal nb_ st = (st', Ok d) /\ ApplyScoreChanges fixed d je fe pa = (pa', o) /\
    JP (vs_votes st') nb_ pa' /\ abs pa' = abs pa /\ Rel pa' /\ vs_changed st' = false.
Proof. exact JP_refresh. Qed.
Print Assumptions C09_weights_inv_refresh.

(* weights_inv_partial: the invariant holds in every state reached from a state satisfying it (C09_weights_inv_base: a fresh array
   with an empty vote store) by ProcessSlot/ProcessBlock calls in the domain, attestations for known (root, slot) pairs (what the
   repaired wrapper lets through) and refreshes with any balances and epochs - i.e. everything but OnPrune *)
Theorem C09_weights_inv_partial : forall pa st bal, wreach pa st bal -> WInv pa (vs_votes st) bal.
Proof. exact weights_inv_partial. Qed.
Print Assumptions C09_weights_inv_partial.
Theorem C09_weights_inv_reach : forall pa st bal, wreach pa st bal -> Rel pa /\ pa_nodes pa <> [] /\ JP (vs_votes st) bal pa.
Proof. exact weights_inv_reach. Qed.
Theorem C09_weights_inv_base : forall parent r s je fe sn bal, (r, s) <> zero_ref -> JP [] bal (new_array parent r s je fe sn).
Proof. exact JP_new_array. Qed.
Print Assumptions C09_weights_inv_base.

(* best links, the soundness half (partial: histories without pruning). [BL pa]: fork-choice parents come earlier, and for every node
   either BestChild = BestDescendant = NONE, or BestChild is one of its fork-choice children and BestDescendant lies in that child's
   fork-choice subtree. [lreach]: the states reached from one with Rel + BL (C09_links_base: a fresh array) by ProcessSlot/ProcessBlock
   in the domain, ApplyScoreChanges with ANY deltas and epochs, and FindHead calls. *)
Theorem C09_links_reach : forall pa, lreach pa -> Rel pa /\ BL pa /\ created pa < two64.
Proof. exact links_reach. Qed.
Print Assumptions C09_links_reach.
Theorem C09_links_base : forall parent r s je fe sn, BL (new_array parent r s je fe sn).
Proof. exact BL_new_array. Qed.

(* C09_head_refines_partial (soundness half): in every such state, when FindHead answers, the head is viable and is the start node,
   one of its fork-choice descendants (positional ancestry, the relation of WInv), or - for a start on an empty slot that is not
   the first node of its root (fixes/C10-gap-anchor-prune-head.diff) - a fork-choice descendant of a block built on the start's
   root after the start slot. That it is the ARGMAX descendant
   (best_links_inv proper: greatest (weight, root) among the children leading to a viable node, at every level) is NOT proved. *)
Theorem C09_head_sound_partial : forall pa r s pa1 h, lreach pa -> FindHead fixed r s pa = (pa1, Ok h) ->
  exists ia ih nh, idx_get (pa_idx pa1) (r, s) = Some (pa_off pa1 + N.of_nat ia) /\
                   nth_error (pa_nodes pa1) ih = Some nh /\ n_ref nh = h /\ viable pa1 nh = true /\
                   (anc (fps_of pa1) ih ia = true \/
                    exists ic nc, nth_error (pa_nodes pa1) ic = Some nc /\ n_parent nc = r /\ fst (n_ref nc) <> r /\
                                  s < snd (n_ref nc) /\ anc (fps_of pa1) ih ic = true).
Proof. exact head_sound_partial. Qed.
Print Assumptions C09_head_sound_partial.

(* the Spec's head, when there is one, is a viable node of the tree and descends from the start node *)
Theorem C09_spec_head_sound : forall s start e,
  spec_find_head s start = Ok e -> In e (ss_tree s) /\ is_desc (ss_tree s) start e = true /\ s_viable s e = true.
Proof. exact spec_head_sound. Qed.
Print Assumptions C09_spec_head_sound.

(* Defects of the pinned snapshot *)
Theorem C09_bestchild_nonviable_snapshot_refuted :
  last_out (run_from all_but_nonviable (init0 false) h_nonviable) = Err /\
  last_exp (spec_from (init0 false) h_nonviable) = EVal (RRef (2, 1)) /\
  last_out (run_from fixed (init0 false) h_nonviable) = Ok (RRef (2, 1)).
Proof. exact bestchild_nonviable_refuted. Qed.
Theorem C09_attestation_gap_slot_snapshot_refuted :
  last_out (run_from pinned (init0 false) h_att_gap) = Ok (RBool false) /\
  last_exp (spec_from (init0 false) h_att_gap) = EVal (RBool true) /\
  last_out (run_from fixed (init0 false) h_att_gap) = Ok (RBool true).
Proof. exact attestation_gap_slot_refuted. Qed.
Theorem C09_attestation_unknown_target_snapshot_refuted :
  last_out (run_from pinned (init0 false) h_att_unknown) = Ok (RBool true) /\
  last_exp (spec_from (init0 false) h_att_unknown) = EVal (RBool false) /\
  last_out (run_from fixed (init0 false) h_att_unknown) = Ok (RBool false).
Proof. exact attestation_unknown_target_refuted. Qed.

(* non-vacuity: the full statement holds on histories with forks, moving votes, an update and a prune at an empty-slot anchor *)
Example C09_nonvacuous :
  refines sel_c09 true (init0 false) h_rich = true /\
  refines sel_c09 true (init0 false) (h_gap_anchor ++ [OChain 3 4; OGetSlot 2; OBlock 3 9 6 1 1; OAtt 1 9 6; OAtt 2 9 6; OHead]) = true.
Proof. destruct refines_examples as [_ [A [_ [_ [B _]]]]]. exact (conj A B). Qed.
