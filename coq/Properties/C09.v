(* C09 — Fork-choice graph queries agree with the tree that was inserted. Statements only (proofs in Forkchoice/*Proofs.v). *)
From Coq Require Import NArith List.
From V Require Import Base.U64 Base.Outcome Forkchoice.ProtoArray Forkchoice.Wrapper Forkchoice.TreeSpec Forkchoice.GhostSpec
     Forkchoice.Step Forkchoice.Refuted.
Import ListNotations.
Local Open Scope N_scope.

Theorem C09_insubtree_sibling_leaves_snapshot_refuted :
  last_out (run_from pinned (init0 false) h_siblings) = Ok (RPair false true) /\
  last_exp (spec_from (init0 false) h_siblings) = EVal (RPair false false) /\
  last_out (run_from fixed (init0 false) h_siblings) = Ok (RPair false false).
Proof. exact insubtree_sibling_leaves_refuted. Qed.
