(* C04 — SSZ encoding of every type round-trips and agrees with its declared lengths.
   Statements only; proofs live in Ssz/SszProofs.v.  All theorems quantify over ALL types and ALL values of the
   generic SSZ model (Ssz/SszCore.v); the per-type tie of zrnt's ~155 types to their schemas is the reflection
   obligation GenSszCheck.all_types_ok over the descriptions regenerated from the Go source on every run. *)
From Coq Require Import String NArith List.
From V Require Import Ssz.SszCore Ssz.SszProofs Ssz.SszDefault.
Import ListNotations.
Local Open Scope N_scope.

(* serialize then deserialize is the identity, for every well-formed type and every value within its limits
   (the 2^32 bound is SSZ's own: offsets are 4 bytes) *)
Theorem C04_roundtrip : forall t, wf_ty t = true -> forall v,
  has_type t v = true -> len_N (serialize t v) < 2 ^ 32 ->
  deserialize t (serialize t v) = Some v.
Proof. exact deser_ser. Qed.
Print Assumptions C04_roundtrip.

(* the default value of every type is a value of the type and round-trips (zero-initialised objects) *)
Theorem C04_default_value : forall t, has_type t (default_value t) = true.
Proof. exact default_has_type. Qed.
Print Assumptions C04_default_value.
Theorem C04_default_roundtrip : forall t, wf_ty t = true -> len_N (serialize t (default_value t)) < 2 ^ 32 ->
  deserialize t (serialize t (default_value t)) = Some (default_value t).
Proof. exact default_roundtrip. Qed.
Print Assumptions C04_default_roundtrip.

(* the declared fixed length is the number of bytes written *)
Theorem C04_fixed_length : forall t v n, fixed_size t = Some n -> has_type t v = true -> len_N (serialize t v) = n.
Proof. exact ser_length. Qed.
Print Assumptions C04_fixed_length.

(* a fixed-size type accepts inputs of exactly its size: truncated input and trailing bytes are refused *)
Theorem C04_fixed_size_exact : forall t n bs v, fixed_size t = Some n -> deserialize t bs = Some v -> len_N bs = n.
Proof. exact deser_fixed_exact_length. Qed.
Print Assumptions C04_fixed_size_exact.
Theorem C04_truncated_refused : forall t n bs, fixed_size t = Some n -> len_N bs < n -> deserialize t bs = None.
Proof. exact deser_rejects_truncated_fixed. Qed.
Print Assumptions C04_truncated_refused.
Theorem C04_trailing_refused : forall t n bs, fixed_size t = Some n -> n < len_N bs -> deserialize t bs = None.
Proof. exact deser_rejects_trailing_fixed. Qed.
Print Assumptions C04_trailing_refused.

(* limits of bitlists, byte lists and lists are enforced (limit+1 elements are refused); a bitlist without its delimiter bit is refused *)
Theorem C04_bitlist_limit : forall l bs b, deserialize (TBitlist l) bs = Some (VBits b) -> len_N b <= l.
Proof. exact deser_bitlist_limit. Qed.
Print Assumptions C04_bitlist_limit.
Theorem C04_bytelist_limit : forall l bs b, deserialize (TByteList l) bs = Some (VBytes b) -> len_N b <= l.
Proof. exact deser_bytelist_limit. Qed.
Print Assumptions C04_bytelist_limit.
Theorem C04_list_limit : forall et l bs vs, deserialize (TList et l) bs = Some (VSeq vs) -> len_N vs <= l.
Proof. exact deser_list_limit. Qed.
Print Assumptions C04_list_limit.
Theorem C04_bitlist_delimiter : forall l bs, (bs = [] \/ exists p, bs = p ++ [0]) -> deserialize (TBitlist l) bs = None.
Proof. exact deser_bitlist_needs_delimiter. Qed.
Print Assumptions C04_bitlist_delimiter.

(* inconsistent offsets are refused: an accepted container has its first offset exactly at the end of the fixed
   part and every offset between the first offset and the end of the input (nondecreasing: offsets_ok) *)
Theorem C04_container_offsets : forall fs bs v,
  deserialize (TContainer fs) bs = Some v ->
  slots_len fs <= len_N bs /\
  match item_offs (scan_fields bs fs 0) with
  | [] => len_N bs = slots_len fs
  | o0 :: rest => o0 = slots_len fs /\ forall o, In o (o0 :: rest) -> o0 <= o /\ o <= len_N bs
  end.
Proof. exact deser_container_offsets. Qed.
Print Assumptions C04_container_offsets.

(* Full statements not (yet) proved in general; both directions are exercised on every run by the
   correspondence check, where the model's deserialize decides every input. *)
(* accepted bytes are canonical: they re-serialize to themselves, and the decoded value is within the limits *)
Definition C04_accepted_is_canonical_full : Prop :=
  forall t bs v, wf_ty t = true -> deserialize t bs = Some v -> has_type t v = true /\ serialize t v = bs.
(* proved instance of it: on the image of serialize *)
Theorem C04_accepted_is_canonical_partial : forall t, wf_ty t = true -> forall v,
  has_type t v = true -> len_N (serialize t v) < 2 ^ 32 ->
  exists v', deserialize t (serialize t v) = Some v' /\ serialize t v' = serialize t v.
Proof. exact ser_deser_canonical. Qed.
Print Assumptions C04_accepted_is_canonical_partial.
(* JSON / YAML text forms: no model of the text codecs; round trip is observed on the Go side of the correspondence run *)

(* non-vacuity: a variable-size container with a list of variable-size elements *)
Example C04_nonvacuous :
  let t := TContainer [("a", TUint 8); ("b", TList (TByteList 5) 3); ("c", TBitlist 9)]%string in
  let v := VCont [VUint 7; VSeq [VBytes [1; 2]; VBytes []]; VBits [true; false; true]] in
  wf_ty t = true /\ has_type t v = true /\ len_N (serialize t v) < 2 ^ 32 /\
  deserialize t (serialize t v) = Some v /\ deserialize t (removelast (serialize t v)) <> Some v.
Proof. vm_compute. repeat split; try reflexivity; discriminate. Qed.
