(* C04 — SSZ encoding of every type round-trips and agrees with its declared lengths.
   Statements only; proofs live in Ssz/SszProofs.v. *)
From Coq Require Import NArith List.
From V Require Import Ssz.SszCore.
Local Open Scope N_scope.

(* full statements (proved parts are the theorems below) *)
Definition C04_roundtrip_full : Prop :=
  forall t v, has_type t v = true -> deserialize t (serialize t v) = Some v.
