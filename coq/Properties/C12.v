(* C12 — Gossip validation returns the p2p spec's verdict for every message.
   Statements only; models in Gossip/GossipModel.v (Impl: zrnt's eight validators with the repairs of
   fixes/C12-*.diff applied) and Gossip/GossipSpec.v (Spec: the p2p condition lists), proofs in
   Gossip/GossipProofs.v, concrete witnesses in Gossip/GossipWitness.v.

   For EVERY backend `b` (clock, seen-caches, chain view, per-entry contexts, hash and BLS oracles: arbitrary
   functions, no law assumed) and EVERY message, with `r` the validator's (verdict, marks) and `cs` the
   topic's condition list evaluated on `b`:
       accept_complete        all_conditions cs = true            -> fst r = ACCEPT
       accept_sound           fst r = ACCEPT                      -> all_conditions cs = true
       timing_only_is_ignore  only_ignore_conditions_fail cs = true -> fst r = IGNORE   (never REJECT)
       marks_only_on_accept   snd r <> []                         -> fst r = ACCEPT
   (`gossip_verdict_laws r cs` is the conjunction of the four.)
   Hypotheses are numeric ranges (uint64 values, SLOTS_PER_EPOCH > 0) and, for two topics, coherence of the
   per-entry context the backend hands out; each is named where it is used. *)
From Coq Require Import NArith List.
From V Require Import Base.U64 Gossip.GossipModel Gossip.GossipSpec Gossip.GossipProofs Gossip.GossipRun Gossip.GossipWitness.
Import ListNotations.
Local Open Scope N_scope.

(* voluntary_exit.  exit_bounds: current_epoch + SHARD_COMMITTEE_PERIOD is representable *)
Theorem C12_voluntary_exit : forall b m, exit_bounds b ->
  gossip_verdict_laws (validate_voluntary_exit b m) (voluntary_exit_conditions b m).
Proof. exact voluntary_exit_verdict. Qed.
Print Assumptions C12_voluntary_exit.

(* proposer_slashing: no hypothesis at all *)
Theorem C12_proposer_slashing : forall b ps,
  gossip_verdict_laws (validate_proposer_slashing b ps) (proposer_slashing_conditions b ps).
Proof. exact proposer_slashing_verdict. Qed.
Print Assumptions C12_proposer_slashing.

(* attester_slashing.  registry_coherent: validators[i] exists for i < len(validators);
   below_marker: attesting indices of attestation_1 are below 2^64-1 (ZigZagJoin's end marker) *)
Theorem C12_attester_slashing : forall b sl, registry_coherent b -> below_marker sl ->
  gossip_verdict_laws (validate_attester_slashing b sl) (attester_slashing_conditions b sl).
Proof. exact attester_slashing_verdict. Qed.
Print Assumptions C12_attester_slashing.

(* beacon_attestation_{subnet_id}.  cfg_wf: 0 < SLOTS_PER_EPOCH < 2^64; att_wf: slot and target epoch are uint64;
   counts_wf: committees_per_slot * SLOTS_PER_EPOCH is representable *)
Theorem C12_attestation : forall b subnet att, cfg_wf (cfg b) -> att_wf (a_data att) -> counts_wf b ->
  gossip_verdict_laws (validate_attestation b subnet att) (attestation_conditions b subnet att).
Proof. exact attestation_verdict. Qed.
Print Assumptions C12_attestation.

(* beacon_aggregate_and_proof.  committee_coherent: a committee (slot, index) exists only for index < committees_per_slot *)
Theorem C12_aggregate_and_proof : forall b sa,
  cfg_wf (cfg b) -> att_wf (a_data (ap_aggregate (sa_msg sa))) -> committee_coherent b ->
  gossip_verdict_laws (validate_aggregate b sa) (aggregate_conditions b sa).
Proof. exact aggregate_verdict. Qed.
Print Assumptions C12_aggregate_and_proof.

(* beacon_block.  fin_wf: the finalized epoch's start slot is representable *)
Theorem C12_beacon_block : forall b blk, cfg_wf (cfg b) -> b_slot blk < two64 -> fin_wf b ->
  gossip_verdict_laws (validate_block b blk) (block_conditions b blk).
Proof. exact block_verdict. Qed.
Print Assumptions C12_beacon_block.

(* sync_committee_{subnet_id} *)
Theorem C12_sync_committee_message : forall b subnet m, sm_slot m < two64 ->
  gossip_verdict_laws (validate_sync_message b subnet m) (sync_message_conditions b subnet m).
Proof. exact sync_message_verdict. Qed.
Print Assumptions C12_sync_committee_message.

(* sync_committee_contribution_and_proof *)
Theorem C12_sync_contribution : forall b sc, c_slot (cap_contribution (sc_msg sc)) < two64 ->
  gossip_verdict_laws (validate_contribution b sc) (contribution_conditions b sc).
Proof. exact contribution_verdict. Qed.
Print Assumptions C12_sync_contribution.

(* ---- defects of the pinned snapshot, kept as machine-checked witnesses (each repaired by fixes/C12-k-*.diff);
        every witness is a case the Go harness ran: on the snapshot the real code behaves as `orig` ---- *)

(* C12-1  ValidateAggregateAndProof verified the outer signature over sigRoot[:2]: an honest aggregate is REJECTed *)
Theorem C12_aggregate_outer_sig_refuted : exists b sa,
  all_conditions (aggregate_conditions b sa) = true /\ fst (validate_aggregate_orig b sa) = REJECT.
Proof.
  exists (backend_of (match w_agg with GC f _ _ _ => f end)).
  exists (match w_agg with GC _ (MAggregate x) _ _ => x | _ => toy_aggregate end).
  vm_compute. split; reflexivity.
Qed.

(* C12-2  ValidateBeaconBlock called MarkBlock before the proposer check: a refused block marks the seen-cache *)
Theorem C12_block_mark_before_proposer_check_refuted : exists b blk,
  fst (validate_block_orig b blk) <> ACCEPT /\ snd (validate_block_orig b blk) <> [].
Proof.
  exists (backend_of (match w_blk_impostor with GC f _ _ _ => f end)).
  exists (match w_blk_impostor with GC _ (MBlock x) _ _ => x | _ => toy_block end).
  vm_compute. split; discriminate.
Qed.

(* C12-3  the sync validators used CheckSlotSpan(..., 1): a message of the previous slot is ACCEPTed *)
Theorem C12_sync_previous_slot_refuted : exists b subnet m,
  is_current_slot b (sm_slot m) = false /\ fst (validate_sync_message_orig b subnet m) = ACCEPT.
Proof.
  exists (backend_of (match w_sync_prev with GC f _ _ _ => f end)).
  exists (match w_sync_prev with GC _ (MSyncMessage n _) _ _ => n | _ => 0 end).
  exists (match w_sync_prev with GC _ (MSyncMessage _ x) _ _ => x | _ => toy_sync end).
  vm_compute. split; reflexivity.
Qed.

(* C12-4/5/6 and the per-repair ablations: see Gossip/GossipWitness.v *)
Theorem C12_missing_repairs_refuted :
  (* 4: aggregate with a target on another branch ACCEPTed *)
  (all_conditions (conds w_agg_branch) = false /\ accepted (run without_fix4 w_agg_branch) = true) /\
  (* 5: attestation whose target is an older ancestor than the checkpoint block ACCEPTed *)
  (all_conditions (conds w_att_older) = false /\ accepted (run orig w_att_older) = true) /\
  (* 6: contribution with a single participant REJECTed *)
  (all_conditions (conds w_ctr_single) = true /\ rejected (run orig w_ctr_single) = true).
Proof.
  split; [|split].
  - destruct aggregate_target_branch_witness as [A [_ [B _]]]. split; assumption.
  - destruct attestation_target_checkpoint_witness as [A [_ [_ [B _]]]]. split; assumption.
  - destruct contribution_single_participant_witness as [A [_ [_ B]]]. split; assumption.
Qed.

(* non-vacuity: one backend meets every hypothesis used above and ACCEPTs messages of five topics with all
   conditions true; fifteen harness cases (real chain, real signatures) agree with Impl and Spec *)
Example C12_nonvacuous :
  (cfg_wf (cfg toy) /\ exit_bounds toy /\ counts_wf toy /\ committee_coherent toy /\ registry_coherent toy /\ fin_wf toy /\
   att_wf toy_data) /\
  all_conditions (attestation_conditions toy 2 toy_attestation) = true /\
  validate_attestation toy 2 toy_attestation = (ACCEPT, [MkAttestation 1 3]) /\
  all_conditions (aggregate_conditions toy toy_aggregate) = true /\
  validate_block toy toy_block = (ACCEPT, [MkBlock 9 3]).
Proof.
  split; [exact toy_hypotheses|].
  destruct toy_accepts as [A [B [C [_ [_ [D _]]]]]]. repeat split; assumption.
Qed.
