(* C01 — Block state transition equals the consensus spec for every valid block.
   The executable Spec (Beacon/Spec/*.v, pyspec transliteration, phase0..deneb) is run, extracted to OCaml, against
   common.StateTransition on every block of every generated chain: same verdict and byte-identical post-state.
   Theorems here: structure of state_transition (what acceptance entails) — further refinement theorems
   (zrnt's algorithms = Spec) are added from Beacon/Refine as they are proved. *)
From Coq Require Import NArith List.
From V Require Import Ssz.SszCore Beacon.Config Beacon.Schemas Beacon.State Beacon.Spec.Helpers Beacon.Spec.Block
  Beacon.Spec.Transition Beacon.Proofs.TransitionRules.
Local Open Scope N_scope.

(* acceptance = slots processed to the block's slot, block of the state's fork, proposer signature valid,
   process_block succeeds, declared state root equals the hash-tree-root of the result *)
Theorem C01_transition_decomposes : forall E f st bf sb validate f' st',
  state_transition E f st bf sb validate = Some (f', st') ->
  exists st1, process_slots E f st (vuint (vfield (vfield sb 0) 0)) = Some (f', st1)
           /\ fork_idx f' = fork_idx bf
           /\ (validate = true -> verify_block_signature E f' st1 sb = true)
           /\ process_block E f' st1 (vfield sb 0) = Some st'
           /\ (validate = true -> bytes_eqb (vbytes (vfield (vfield sb 0) 3)) (state_root E f' st') = true).
Proof. exact state_transition_inv. Qed.
Print Assumptions C01_transition_decomposes.

Theorem C01_state_root_declared : forall E f st bf sb f' st',
  state_transition E f st bf sb true = Some (f', st') ->
  bytes_eqb (vbytes (vfield (vfield sb 0) 3)) (state_root E f' st') = true.
Proof. exact state_root_declared. Qed.
Print Assumptions C01_state_root_declared.
