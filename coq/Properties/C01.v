(* C01 — Block state transition equals the consensus spec for every valid block.
   The executable Spec (Beacon/Spec/*.v, pyspec transliteration, phase0..deneb) is run, extracted to OCaml, against
   common.StateTransition on every block of every generated chain: same verdict and byte-identical post-state.
   Theorems here: (a) what acceptance by state_transition entails; (b) for every place where zrnt's block processing is
   NOT the pyspec text, its implementation model (Beacon/Impl/BlockOps.v, tied to the Go code by harness/cmd/c01impl) returns
   exactly `match Spec .. with Some s => Ok s | None => Err end` - same verdict, same post-state, no panic - under the stated
   hypotheses: epc_ok (zrnt's EpochsContext agrees with the state: property C08), cfg_sane (configuration sizes),
   st_bounds (the `Bounds`: no uint64 wrap).  One line per theorem: design/C01-C03-refine.md.
   The per-operation theorems are ASSEMBLED into C01_process_block_refines_partial (zrnt's ProcessBlock of every fork, in
   zrnt's order). PARTIAL there: the stage-indexed numeric `envelope` (no uint64 wrap, room in bounded lists, C07's duplicate-free
   committees, root comparisons deciding value equality) is a hypothesis - balances grow by rewards and by deposit amounts the
   block chooses; the agreement of the EpochsContext with every intermediate state, all length invariants and the pubkey cache
   are discharged from the pre-state using C08's block frame.  state_transition-level composition with process_slots is C02/C08. *)

From Coq Require Import String.
From Coq Require Import NArith ZArith List Bool.
From RecordUpdate Require Import RecordSet.
From V Require Import Base.U64 Base.Outcome Ssz.SszCore Beacon.Config Beacon.Schemas Beacon.State
  Beacon.Spec.Helpers Beacon.Spec.Epoch Beacon.Spec.Block Beacon.Spec.Transition Beacon.Impl.BlockOps
  Beacon.Proofs.TransitionRules
  Beacon.Refine.BlockLemmas Beacon.Refine.RejectRules Beacon.Refine.BlockEpc Beacon.Refine.BlockFixtures
  Beacon.Refine.BlockProposer Beacon.Refine.BlockSyncRefine Beacon.Refine.BlockSyncWitness Beacon.Refine.BlockExitRefine
  Beacon.Refine.BlockSlashRefine Beacon.Refine.BlockAttRefine Beacon.Refine.BlockDepositRefine
  Beacon.Refine.BlockWithdrawRefine Beacon.Refine.BlockHeaderRefine Beacon.Refine.BlockAttSlashRefine
  Beacon.Refine.BlockNonvacuous Beacon.Refine.RejectNonvacuous.
From V Require Import Beacon.Impl.Block2Ops Beacon.Proofs.Lengths Beacon.Proofs.Stability Beacon.Proofs.EpcInv
  Beacon.Refine.Block2Refine Beacon.Refine.Block2AttRefine Beacon.Refine.Block2Frame Beacon.Refine.Block2Carry
  Beacon.Refine.BlockAssembly Beacon.Refine.BlockAssemblyWitness.
Import ListNotations RecordSetNotations.
Local Open Scope string_scope.
Local Open Scope list_scope.
Local Open Scope N_scope.


(* ===================== state_transition: what acceptance entails (common.StateTransition) ===================== *)

(* acceptance <=> slots processed to the block's slot, block of the state's fork, proposer signature valid,
   process_block succeeds, declared state root = root of the result (iff; subsumes the former one-directional
   TransitionRules.state_transition_inv) *)
Theorem C01_transition_decomposes :
  forall (E : Env) (f : fork) (st : BeaconState) (bf : fork) (sb : value) (validate : bool) 
      (f' : fork) (st' : BeaconState),
    let blk := vfield sb 0 in
    state_transition E f st bf sb validate = Some (f', st') <->
    (exists st1 : BeaconState,
       process_slots E f st (vuint (vfield blk 0)) = Some (f', st1) /\
       fork_idx f' = fork_idx bf /\
       (validate = true -> verify_block_signature E f' st1 sb = true) /\
       process_block E f' st1 blk = Some st' /\ (validate = true -> vbytes (vfield blk 3) = state_root E f' st')).
Proof. exact state_transition_iff. Qed.
Print Assumptions C01_transition_decomposes.

(* the declared state root is the hash-tree-root of the post-state *)
Theorem C01_state_root_declared :
  forall (E : Env) (f : fork) (st : BeaconState) (bf : fork) (sb : value) (f' : fork) (st' : BeaconState),
    state_transition E f st bf sb true = Some (f', st') ->
    bytes_eqb (vbytes (vfield (vfield sb 0) 3)) (state_root E f' st') = true.
Proof. exact state_root_declared. Qed.
Print Assumptions C01_state_root_declared.

(* ===================== context facts used by every operation ===================== *)

(* the honest EpochsContext view of ANY state satisfies epc_ok (the hypothesis is satisfiable everywhere) *)
Theorem C01_epc_ok_spec_epc :
  forall (E : Env) (st : BeaconState),
    all_some (map (fun pk : bytes => find_pubkey pk (validators st) 0) (sc_pubkeys (current_sync_committee st))) <>
    None -> epc_ok E st (spec_epc E st).
Proof. exact epc_ok_spec_epc. Qed.
Print Assumptions C01_epc_ok_spec_epc.

(* the spec's proposer is a registry index (epc.GetBeaconProposer result can be used with IncreaseBalance) *)
Theorem C01_proposer_in_range :
  forall (E : Env) (st : BeaconState) (p : N),
    get_beacon_proposer_index E st = Some p -> p < N.of_nat (Datatypes.length (validators st)).
Proof. exact proposer_in_range. Qed.
Print Assumptions C01_proposer_in_range.

(* the proposer depends only on slot, randao mixes and per validator (active now?, effective balance): the value
   cached at epoch start stays right while operations mutate the state *)
Theorem C01_proposer_frame :
  forall (E : Env) (st1 st2 : BeaconState),
    slot st1 = slot st2 ->
    randao_mixes st1 = randao_mixes st2 ->
    map (pview (get_current_epoch E st1)) (validators st1) =
    map (pview (get_current_epoch E st1)) (validators st2) ->
    get_beacon_proposer_index E st1 = get_beacon_proposer_index E st2.
Proof. exact proposer_frame. Qed.
Print Assumptions C01_proposer_frame.

(* ===================== block header (common.ProcessHeader) ===================== *)

(* different check order, expected proposer from the EpochsContext: same verdict and post-state for every block
   value *)
Theorem C01_process_header_refines :
  forall (E : Env) (f : fork) (st : BeaconState) (epc : BlockEpc) (blk : value),
    be_proposer epc = get_beacon_proposer_index E st ->
    process_header_impl E f epc st blk =
    match process_block_header E f st blk with
    | Some s => Ok s
    | None => Err
    end.
Proof. exact process_header_refines. Qed.
Print Assumptions C01_process_header_refines.

(* ===================== voluntary exits (phase0.InitiateValidatorExit, phase0/deneb ProcessVoluntaryExit) ===================== *)

(* zrnt's ONE-pass scan (running maximum, counter restarted at 1) = the spec's (max exit epoch, number of
   validators exiting at it) *)
Theorem C01_exit_scan_spec :
  forall (l : list Validator) (start : N),
    start <> FAR_FUTURE_EPOCH ->
    N.of_nat (Datatypes.length l) < two64 ->
    fold_left exit_scan_step l (start, 0) = (maxl (exits_of l) start, count_at (maxl (exits_of l) start) l).
Proof. exact exit_scan_spec. Qed.
Print Assumptions C01_exit_scan_spec.

(* InitiateValidatorExit (epoch and active count from the EpochsContext, uint64 arithmetic) =
   initiate_validator_exit *)
Theorem C01_initiate_validator_exit_refines :
  forall (E : Env) (st : BeaconState) (epc : BlockEpc) (index : N),
    cfg_sane E ->
    epc_ok E st epc ->
    st_bounds E st ->
    initiate_validator_exit_impl E epc st index =
    match initiate_validator_exit E st index with
    | Some s => Ok s
    | None => Err
    end.
Proof. exact initiate_validator_exit_refines. Qed.
Print Assumptions C01_initiate_validator_exit_refines.

(* ProcessVoluntaryExit (pubkey from the cache; activation + SHARD_COMMITTEE_PERIOD in uint64 cannot wrap because
   IsActive precedes) = process_voluntary_exit *)
Theorem C01_process_voluntary_exit_refines :
  forall (E : Env) (f : fork) (st : BeaconState) (epc : BlockEpc) (sve : value),
    cfg_sane E ->
    epc_ok E st epc ->
    st_bounds E st ->
    SHARD_COMMITTEE_PERIOD (cfg E) <= 2 ^ 40 ->
    process_voluntary_exit_impl E f epc st sve =
    match process_voluntary_exit E f st sve with
    | Some s => Ok s
    | None => Err
    end.
Proof. exact process_voluntary_exit_refines. Qed.
Print Assumptions C01_process_voluntary_exit_refines.

(* ===================== slashings (phase0.SlashValidator, phase0.ProcessAttesterSlashing) ===================== *)

(* the proposer the spec recomputes AFTER marking the validator exited/slashed is the one cached before *)
Theorem C01_slash_proposer_stable :
  forall (E : Env) (st : BeaconState) (idx : N) (g : Validator -> Validator) (B S : list N),
    (forall v : Validator,
     nthN (validators st) idx = Some v ->
     pview (get_current_epoch E st) (g v) = pview (get_current_epoch E st) v) ->
    get_beacon_proposer_index E
      (st <| validators := updN (validators st) idx g |> <| slashings := S |> <| balances := B |>) =
    get_beacon_proposer_index E st.
Proof. exact slash_proposer_stable. Qed.
Print Assumptions C01_slash_proposer_stable.

(* SlashValidator = slash_validator *)
Theorem C01_slash_validator_refines :
  forall (E : Env) (f : fork) (st : BeaconState) (epc : BlockEpc) (idx : N) (wb : option N),
    cfg_sane E ->
    epc_ok E st epc ->
    st_bounds E st ->
    N.of_nat (Datatypes.length (slashings st)) = EPOCHS_PER_SLASHINGS_VECTOR (cfg E) ->
    (forall w : N, wb = Some w -> w < N.of_nat (Datatypes.length (validators st))) ->
    slash_validator_impl E f epc st idx wb =
    match slash_validator E f st idx wb with
    | Some s => Ok s
    | None => Err
    end.
Proof. exact slash_validator_refines. Qed.
Print Assumptions C01_slash_validator_refines.

(* ValidatorSet.ZigZagJoin of two strictly sorted index lists = the spec's sorted intersection *)
Theorem C01_zigzag_spec :
  forall a b : list N,
    strictly_sorted a = true ->
    strictly_sorted b = true ->
    zigzag (Datatypes.length a + Datatypes.length b) a b = sort_uniq (filter (fun i : N => memN i b) a).
Proof. exact zigzag_spec. Qed.
Print Assumptions C01_zigzag_spec.

(* slashing i leaves every other registry entry untouched: reading slashability from the validators view taken
   BEFORE the loop is harmless *)
Theorem C01_slash_validator_others :
  forall (E : Env) (f : fork) (st : BeaconState) (i : N) (wb : option N) (st' : BeaconState),
    get_current_epoch E st < FAR_FUTURE_EPOCH ->
    slash_validator E f st i wb = Some st' ->
    slot st' = slot st /\ (forall j : N, j <> i -> nthN (validators st') j = nthN (validators st) j).
Proof. exact slash_validator_others. Qed.
Print Assumptions C01_slash_validator_others.

(* ProcessAttesterSlashing = process_attester_slashing. PARTIAL: for any state invariant Inv that implies
   epc_ok/st_bounds/|slashings| and is preserved by slash_validator; that such an Inv holds between the slashings
   of one operation is C08's epc_inv_step, not proved here *)
Theorem C01_attester_slashing_refines_partial :
  forall (E : Env) (f : fork) (epc : BlockEpc) (Inv : BeaconState -> Prop),
    cfg_sane E ->
    (forall s : BeaconState, Inv s -> epc_ok E s epc) ->
    (forall s : BeaconState, Inv s -> st_bounds E s) ->
    (forall s : BeaconState,
     Inv s -> N.of_nat (Datatypes.length (slashings s)) = EPOCHS_PER_SLASHINGS_VECTOR (cfg E)) ->
    (forall (s : BeaconState) (i : N) (s' : BeaconState),
     Inv s -> slash_validator E f s i None = Some s' -> Inv s') ->
    forall (st : BeaconState) (asl : value),
    Inv st ->
    process_attester_slashing_impl E f epc st asl =
    match process_attester_slashing E f st asl with
    | Some s => Ok s
    | None => Err
    end.
Proof. exact attester_slashing_refines_partial. Qed.
Print Assumptions C01_attester_slashing_refines_partial.

(* ===================== attestations, altair..deneb (altair.ProcessAttestation, deneb.ProcessAttestation): flags and proposer reward ===================== *)

(* process_attestation = the checks, then attestation_tail on the committee members selected by the bits *)
Theorem C01_process_attestation_altair_nf :
  forall (E : Env) (f : fork) (st : BeaconState) (att : value),
    f <> Phase0 ->
    process_attestation E f st att =
    (let bits := vbits (vfield att 0) in
     let data := vfield att 1 in
     let tgt := ad_target data in
     let ce := get_current_epoch E st in
     assert (cp_epoch tgt =? get_previous_epoch E st) || (cp_epoch tgt =? ce);;
     assert (cp_epoch tgt =? compute_epoch_at_slot E (ad_slot data));;
     assert (ad_slot data + MIN_ATTESTATION_INCLUSION_DELAY (cfg E) <=? slot st);;
     assert fork_ge f Deneb || (slot st <=? ad_slot data + SLOTS_PER_EPOCH (cfg E));;
     assert (ad_index data <? get_committee_count_per_slot E st (cp_epoch tgt));;
     committee <- get_beacon_committee E st (ad_slot data) (ad_index data);;
     assert (Datatypes.length bits =? Datatypes.length committee)%nat;;
     flags <- get_attestation_participation_flag_indices E f st data (slot st - ad_slot data);;
     ia <- get_indexed_attestation E st att;;
     assert is_valid_indexed_attestation E st ia;;
     attestation_tail E st (cp_epoch tgt =? ce) (select_bits bits committee) flags).
Proof. exact process_attestation_altair_nf. Qed.
Print Assumptions C01_process_attestation_altair_nf.

(* the spec's loop over the three flag indices for one attester = OR-ing the whole flag word at once (zrnt) with
   the same numerator contribution *)
Theorem C01_spec_flags_fold :
  forall (E : Env) (st : BeaconState) (flags : list N) (brpi i : N) (part : list N) (num : N),
    (forall fl : N, In fl flags -> fl < 3) ->
    fold_left (spec_flag_step E st flags brpi i) [0; 1; 2] (part, num) =
    att_step E st (flags_word flags) brpi (part, num) i.
Proof. exact spec_flags_fold. Qed.
Print Assumptions C01_spec_flags_fold.

(* walking the SORTED attesting indices (zrnt) = walking the committee order (spec) *)
Theorem C01_att_fold_sorted :
  forall (E : Env) (st : BeaconState) (W brpi : N) (l : list N) (pn : list N * N),
    NoDup l -> fold_left (att_step E st W brpi) (sort_uniq l) pn = fold_left (att_step E st W brpi) l pn.
Proof. exact att_fold_sorted. Qed.
Print Assumptions C01_att_fold_sorted.

(* flags + uint64 proposer-reward numerator with effective balances from the EpochsContext = attestation_tail;
   the committee equality get_beacon_committee = epc committee and NoDup are C07 *)
Theorem C01_attestation_rewards_refines :
  forall (E : Env) (st : BeaconState) (epc : BlockEpc) (is_cur : bool) (idxs flags : list N),
    cfg_sane E ->
    epc_ok E st epc ->
    st_bounds E st ->
    NoDup idxs ->
    (forall fl : N, In fl flags -> fl < 3) ->
    (forall i : N,
     In i idxs ->
     exists v : Validator,
       nthN (validators st) i = Some v /\
       is_active_validator v (get_previous_epoch E st) || is_active_validator v (get_current_epoch E st) = true) ->
    Datatypes.length (current_epoch_participation st) = Datatypes.length (validators st) ->
    Datatypes.length (previous_epoch_participation st) = Datatypes.length (validators st) ->
    N.of_nat (Datatypes.length idxs) * att_unit E (get_base_reward_per_increment E st) < 2 ^ 63 ->
    attestation_rewards_impl E epc st is_cur (sort_indices idxs) flags =
    match attestation_tail E st is_cur idxs flags with
    | Some s => Ok s
    | None => Err
    end.
Proof. exact attestation_rewards_refines. Qed.
Print Assumptions C01_attestation_rewards_refines.

(* zrnt's GetBlockRootAtSlot/GetBlockRoot have NO range check; the inclusion-window checks before them imply the
   spec's assertion, so the unchecked lookup is the spec's value *)
Theorem C01_attestation_roots_in_range :
  forall (E : Env) (st : BeaconState) (data : AttData),
    cfg_sane E ->
    cp_epoch (ad_target data) = compute_epoch_at_slot E (ad_slot data) ->
    cp_epoch (ad_target data) = get_previous_epoch E st \/ cp_epoch (ad_target data) = get_current_epoch E st ->
    ad_slot data + MIN_ATTESTATION_INCLUSION_DELAY (cfg E) <= slot st ->
    get_block_root_at_slot E st (ad_slot data) =
    nthN (block_roots st) (ad_slot data mod SLOTS_PER_HISTORICAL_ROOT (cfg E)) /\
    get_block_root E st (cp_epoch (ad_target data)) =
    nthN (block_roots st)
      (compute_start_slot_at_epoch E (cp_epoch (ad_target data)) mod SLOTS_PER_HISTORICAL_ROOT (cfg E)).
Proof. exact attestation_roots_in_range. Qed.
Print Assumptions C01_attestation_roots_in_range.

(* ===================== deposits (phase0.ProcessDeposit, state.AddValidator, phase0.ProcessDeposits) ===================== *)

(* AddValidator incl. the altair participation/inactivity lists = add_validator_to_registry *)
Theorem C01_add_validator_refines :
  forall (E : Env) (f : fork) (st : BeaconState) (pubkey wc : bytes) (amount : N),
    0 < EFFECTIVE_BALANCE_INCREMENT (cfg E) ->
    registry_room E f st ->
    add_validator_impl E f st pubkey wc amount = Ok (add_validator_to_registry E f st pubkey wc amount).
Proof. exact add_validator_refines. Qed.
Print Assumptions C01_add_validator_refines.

(* ProcessDeposit (pubkey-cache lookup = first registry index with that pubkey; invalid proof of possession
   skips) = process_deposit *)
Theorem C01_process_deposit_refines :
  forall (E : Env) (f : fork) (st : BeaconState) (epc : BlockEpc) (dep : value),
    0 < EFFECTIVE_BALANCE_INCREMENT (cfg E) ->
    registry_room E f st ->
    (forall pk : bytes, be_pubkey_index epc pk = find_pubkey pk (validators st) 0) ->
    eth1_deposit_index st + 1 < two64 ->
    (forall x : N, In x (balances st) -> x < 2 ^ 63) ->
    vuint (vfield (vfield dep 1) 2) < 2 ^ 63 ->
    process_deposit_impl E f epc st dep =
    match process_deposit E f st dep with
    | Some s => Ok s
    | None => Err
    end.
Proof. exact process_deposit_refines. Qed.
Print Assumptions C01_process_deposit_refines.

(* the expected number of deposits = min(MAX_DEPOSITS, deposit_count - eth1_deposit_index) when the index does
   not exceed the count *)
Theorem C01_expected_deposit_count_ok :
  forall (E : Env) (st : BeaconState),
    eth1_deposit_index st <= e_deposit_count (eth1_data st) ->
    expected_deposit_count_impl E st =
    N.min (MAX_DEPOSITS (cfg E)) (e_deposit_count (eth1_data st) - eth1_deposit_index st).
Proof. exact expected_deposit_count_ok. Qed.
Print Assumptions C01_expected_deposit_count_ok.

(* ===================== withdrawals (capella.GetExpectedWithdrawals, capella.ProcessWithdrawals) ===================== *)

(* the open counter loop (validator read BEFORE the bound test, uint64 indices) = the spec's bounded recursion *)
Theorem C01_withdrawals_sweep_refines :
  forall (E : Env) (st : BeaconState) (epoch : N),
    let count := N.of_nat (Datatypes.length (validators st)) in
    let bound := N.min count (MAX_VALIDATORS_PER_WITHDRAWALS_SWEEP (cfg E)) in
    Datatypes.length (balances st) = Datatypes.length (validators st) ->
    count < 2 ^ 41 ->
    forall (n : nat) (i widx vidx : N) (acc : list W) (k : nat),
    i + N.of_nat n = bound ->
    (n < k)%nat ->
    vidx < count ->
    widx + N.of_nat n < two64 ->
    withdrawals_sweep_impl E k st epoch count widx vidx i acc =
    Ok (withdrawals_sweep E n st epoch widx vidx acc).
Proof. exact withdrawals_sweep_refines. Qed.
Print Assumptions C01_withdrawals_sweep_refines.

(* GetExpectedWithdrawals = get_expected_withdrawals *)
Theorem C01_get_expected_withdrawals_refines :
  forall (E : Env) (st : BeaconState),
    0 < SLOTS_PER_EPOCH (cfg E) ->
    Datatypes.length (balances st) = Datatypes.length (validators st) ->
    0 < N.of_nat (Datatypes.length (validators st)) <= 2 ^ 40 ->
    next_withdrawal_validator_index st < N.of_nat (Datatypes.length (validators st)) ->
    next_withdrawal_index st < 2 ^ 63 -> get_expected_withdrawals_impl E st = Ok (get_expected_withdrawals E st).
Proof. exact get_expected_withdrawals_refines. Qed.
Print Assumptions C01_get_expected_withdrawals_refines.

(* ProcessWithdrawals (compare-and-debit interleaved) = process_withdrawals *)
Theorem C01_process_withdrawals_refines :
  forall (E : Env) (f : fork) (st : BeaconState) (payload : value),
    0 < SLOTS_PER_EPOCH (cfg E) ->
    0 < MAX_WITHDRAWALS_PER_PAYLOAD (cfg E) ->
    MAX_VALIDATORS_PER_WITHDRAWALS_SWEEP (cfg E) <= 2 ^ 40 ->
    Datatypes.length (balances st) = Datatypes.length (validators st) ->
    0 < N.of_nat (Datatypes.length (validators st)) <= 2 ^ 40 ->
    next_withdrawal_validator_index st < N.of_nat (Datatypes.length (validators st)) ->
    next_withdrawal_index st < 2 ^ 63 ->
    process_withdrawals_impl E f st payload =
    match process_withdrawals E f st payload with
    | Some s => Ok s
    | None => Err
    end.
Proof. exact process_withdrawals_refines. Qed.
Print Assumptions C01_process_withdrawals_refines.

(* ===================== sync aggregate (altair.ProcessSyncAggregate, as repaired by /repo 74b46c6) ===================== *)

(* cached committee indices/pubkeys, cached total stake, uint64 rewards, per-participant proposer reward =
   process_sync_aggregate, for ALL states *)
Theorem C01_sync_aggregate_refines :
  forall (E : Env) (st : BeaconState) (epc : BlockEpc) (sa : value),
    cfg_sane E ->
    epc_ok E st epc ->
    st_bounds E st ->
    0 < slot st ->
    N.of_nat (Datatypes.length (vbits (vfield sa 0))) = SYNC_COMMITTEE_SIZE (cfg E) ->
    N.of_nat (Datatypes.length (sc_pubkeys (current_sync_committee st))) = SYNC_COMMITTEE_SIZE (cfg E) ->
    process_sync_aggregate_impl E epc st sa =
    match process_sync_aggregate E st sa with
    | Some st' => Ok st'
    | None => Err
    end.
Proof. exact sync_aggregate_refines. Qed.
Print Assumptions C01_sync_aggregate_refines.

(* EXACT characterisation of when the pinned snapshot's batched proposer reward equals the spec's interleaved
   one: iff no position has the shape sync_bad *)
Theorem C01_sync_batching_exact :
  forall (p pr propr : N) (ibs : list (N * bool)) (bals : list N),
    p < N.of_nat (Datatypes.length bals) ->
    spec_loop p pr propr ibs bals = go_batched p pr propr ibs bals <-> ~ sync_bad p pr propr ibs bals 0.
Proof. exact sync_batching_exact. Qed.
Print Assumptions C01_sync_batching_exact.

(* sync_bad needs a proposer that cannot pay its own penalties *)
Theorem C01_sync_bad_needs_poor :
  forall (p pr propr : N) (ibs : list (N * bool)) (G : list N) (P : N),
    pr * np_count p ibs <= getb G p -> ~ sync_bad p pr propr ibs G P.
Proof. exact sync_bad_needs_poor. Qed.
Print Assumptions C01_sync_bad_needs_poor.

(* ===================== randao, eth1 vote, BLS change, proposer slashing, indexed attestations (phase0/randao.go, eth1.go, proposer_slashing.go, indexed.go; capella/bls_to_execution.go) ===================== *)

(* ProcessRandaoReveal (proposer and its pubkey from the EpochsContext, unchecked vector lookups) =
   process_randao *)
Theorem C01_process_randao_refines :
  forall (E : Env) (f : fork) (st : BeaconState) (epc : BlockEpc) (body : value),
    0 < SLOTS_PER_EPOCH (cfg E) ->
    0 < EPOCHS_PER_HISTORICAL_VECTOR (cfg E) ->
    N.of_nat (Datatypes.length (randao_mixes st)) = EPOCHS_PER_HISTORICAL_VECTOR (cfg E) ->
    be_proposer epc = get_beacon_proposer_index E st ->
    (forall i : N, be_pubkey_of epc i = option_map v_pubkey (nthN (validators st) i)) ->
    process_randao_impl E f epc st body =
    match process_randao E f st body with
    | Some s => Ok s
    | None => Err
    end.
Proof. exact process_randao_refines. Qed.
Print Assumptions C01_process_randao_refines.

(* votes are counted by hash-tree-root in zrnt, by value in the spec: value-equal => root-equal (a congruence,
   nothing assumed of the hash) *)
Theorem C01_eth1_root_congr :
  forall (E : Env) (a b : Eth1Data), eth1_eqb a b = true -> eth1_root E a = eth1_root E b.
Proof. exact eth1_root_congr. Qed.
Print Assumptions C01_eth1_root_congr.

(* ... and the count is the spec's count when no vote of the period collides with the new vote's root
   (votes_no_collision: the direction that needs the hash, an explicit hypothesis) *)
Theorem C01_votes_count_spec :
  forall (E : Env) (votes : list Eth1Data) (d : Eth1Data),
    votes_no_collision E votes d ->
    votes_count_impl E votes d = N.of_nat (Datatypes.length (filter (eth1_eqb d) votes)).
Proof. exact votes_count_spec. Qed.
Print Assumptions C01_votes_count_spec.

(* ProcessEth1Vote (full-list error, short-circuit on the number of votes, strict `>` comparisons with the
   period) = process_eth1_data *)
Theorem C01_process_eth1_vote_refines :
  forall (E : Env) (f : fork) (st : BeaconState) (body : value),
    let d := eth1_of_value (body_get E f body "eth1_data") in
    EPOCHS_PER_ETH1_VOTING_PERIOD (cfg E) * SLOTS_PER_EPOCH (cfg E) < 2 ^ 62 ->
    N.of_nat (Datatypes.length (eth1_data_votes st)) <
    EPOCHS_PER_ETH1_VOTING_PERIOD (cfg E) * SLOTS_PER_EPOCH (cfg E) ->
    votes_no_collision E (eth1_data_votes st ++ [d]) d ->
    process_eth1_vote_impl E f st body = Ok (process_eth1_data E f st body).
Proof. exact process_eth1_vote_refines. Qed.
Print Assumptions C01_process_eth1_vote_refines.

(* ProcessBLSToExecutionChange = process_bls_to_execution_change, for every state and operation *)
Theorem C01_process_bls_change_refines :
  forall (E : Env) (st : BeaconState) (sc : value),
    process_bls_change_impl E st sc =
    match process_bls_to_execution_change E st sc with
    | Some s => Ok s
    | None => Err
    end.
Proof. exact process_bls_change_refines. Qed.
Print Assumptions C01_process_bls_change_refines.

(* ProcessProposerSlashing (one domain for both headers, pubkey from the cache) = process_proposer_slashing *)
Theorem C01_process_proposer_slashing_refines :
  forall (E : Env) (f : fork) (st : BeaconState) (epc : BlockEpc) (ps : value),
    cfg_sane E ->
    epc_ok E st epc ->
    st_bounds E st ->
    N.of_nat (Datatypes.length (slashings st)) = EPOCHS_PER_SLASHINGS_VECTOR (cfg E) ->
    process_proposer_slashing_impl E f epc st ps =
    match process_proposer_slashing E f st ps with
    | Some s => Ok s
    | None => Err
    end.
Proof. exact process_proposer_slashing_refines. Qed.
Print Assumptions C01_process_proposer_slashing_refines.

(* ValidateIndexedAttestation (count limit, sortedness + duplicate scan, only the LAST index range-checked) =
   is_valid_indexed_attestation *)
Theorem C01_validate_indexed_refines :
  forall (E : Env) (st : BeaconState) (epc : BlockEpc) (idx : list N) (data : value) (sig : bytes),
    (forall i : N, be_pubkey_of epc i = option_map v_pubkey (nthN (validators st) i)) ->
    N.of_nat (Datatypes.length idx) <= MAX_VALIDATORS_PER_COMMITTEE (cfg E) ->
    validate_indexed_impl E epc st idx data sig =
    check (is_valid_indexed_attestation E st (VCont [VSeq (map VUint idx); data; VBytes sig])).
Proof. exact validate_indexed_refines. Qed.
Print Assumptions C01_validate_indexed_refines.

(* ===================== whole attestation, all forks (phase0.ProcessAttestation, altair.ProcessAttestation, deneb.ProcessAttestation) ===================== *)

(* every member of a spec committee is a registry entry active in the committee's epoch (so
   epc.EffectiveBalances[vi] is in range) *)
Theorem C01_committee_members_active :
  forall (E : Env) (st : BeaconState) (s i : N) (l : list N),
    get_beacon_committee E st s i = Some l ->
    forall j : N,
    In j l ->
    exists v : Validator,
      nthN (validators st) j = Some v /\ is_active_validator v (compute_epoch_at_slot E s) = true.
Proof. exact committee_members_active. Qed.
Print Assumptions C01_committee_members_active.

(* GetApplicableAttestationParticipationFlags (unchecked block-root lookups, uint64 epoch start slot) =
   get_attestation_participation_flag_indices inside the inclusion window *)
Theorem C01_applicable_flags_refines :
  forall (E : Env) (f : fork) (st : BeaconState) (data : AttData),
    cfg_sane E ->
    vec_lens E st ->
    slot st < 2 ^ 40 ->
    cp_epoch (ad_target data) = compute_epoch_at_slot E (ad_slot data) ->
    cp_epoch (ad_target data) = get_previous_epoch E st \/ cp_epoch (ad_target data) = get_current_epoch E st ->
    ad_slot data + MIN_ATTESTATION_INCLUSION_DELAY (cfg E) <= slot st ->
    applicable_flags_impl E f st data (slot st - ad_slot data) =
    match get_attestation_participation_flag_indices E f st data (slot st - ad_slot data) with
    | Some fl => Ok fl
    | None => Err
    end.
Proof. exact applicable_flags_refines. Qed.
Print Assumptions C01_applicable_flags_refines.

(* ProcessAttestation = process_attestation: other check order, committee count/committee from the EpochsContext
   (epc2_ok), uint64 window; NoDup of the committee is C07, the numerator bound is stated *)
Theorem C01_process_attestation_refines :
  forall (E : Env) (f : fork) (st : BeaconState) (epc2 : BlockEpc2) (att : value),
    let bits := vbits (vfield att 0) in
    let data := vfield att 1 in
    cfg_sane E ->
    epc2_ok E st epc2 ->
    st_bounds E st ->
    lengths_inv f st ->
    vec_lens E st ->
    MIN_ATTESTATION_INCLUSION_DELAY (cfg E) <= 2 ^ 20 ->
    N.of_nat (Datatypes.length bits) <= MAX_VALIDATORS_PER_COMMITTEE (cfg E) ->
    (forall l : list N,
     get_beacon_committee E st (ad_slot data) (ad_index data) = Some l ->
     NoDup l /\ N.of_nat (Datatypes.length l) * att_unit E (get_base_reward_per_increment E st) < 2 ^ 63) ->
    (f = Phase0 ->
     N.of_nat (Datatypes.length (current_epoch_attestations st)) <
     MAX_ATTESTATIONS (cfg E) * SLOTS_PER_EPOCH (cfg E) /\
     N.of_nat (Datatypes.length (previous_epoch_attestations st)) <
     MAX_ATTESTATIONS (cfg E) * SLOTS_PER_EPOCH (cfg E)) ->
    process_attestation_impl E f epc2 st att =
    match process_attestation E f st att with
    | Some s => Ok s
    | None => Err
    end.
Proof. exact process_attestation_refines. Qed.
Print Assumptions C01_process_attestation_refines.

(* ===================== execution payload (bellatrix/capella/deneb ProcessExecutionPayload, bellatrix IsTransitionCompleted / IsExecutionEnabled) ===================== *)

(* `merge complete` is decided by comparing hash-tree-roots in zrnt: header value-equal to the default => roots
   equal (congruence) *)
Theorem C01_merge_complete_congr :
  forall (E : Env) (f : fork) (st : BeaconState),
    is_merge_transition_complete E f st = false -> merge_complete_impl E f st = false.
Proof. exact merge_complete_congr. Qed.
Print Assumptions C01_merge_complete_congr.

(* ... and equal to the spec's value comparison under header_root_distinct (the one pair (latest header, default
   header) has distinct roots when the values differ: the direction that needs the hash, explicit) *)
Theorem C01_merge_complete_refines :
  forall (E : Env) (f : fork) (st : BeaconState),
    header_root_distinct E f st -> merge_complete_impl E f st = is_merge_transition_complete E f st.
Proof. exact merge_complete_refines. Qed.
Print Assumptions C01_merge_complete_refines.

(* bellatrix IsExecutionEnabled = is_execution_enabled under the two root-distinctness hypotheses *)
Theorem C01_execution_enabled_refines :
  forall (E : Env) (f : fork) (st : BeaconState) (body : value),
    header_root_distinct E f st ->
    payload_root_distinct E f body -> execution_enabled_impl E f st body = is_execution_enabled E f st body.
Proof. exact execution_enabled_refines. Qed.
Print Assumptions C01_execution_enabled_refines.

(* spec.TimeAtSlot with its overflow guard = genesis_time + slot * SECONDS_PER_SLOT in range *)
Theorem C01_time_at_slot_ok :
  forall (E : Env) (s g : N),
    0 < SECONDS_PER_SLOT (cfg E) ->
    SECONDS_PER_SLOT (cfg E) <= 2 ^ 20 ->
    s < 2 ^ 40 -> g < 2 ^ 63 -> time_at_slot_impl E s g = Ok (g + s * SECONDS_PER_SLOT (cfg E)).
Proof. exact time_at_slot_ok. Qed.
Print Assumptions C01_time_at_slot_ok.

(* ProcessExecutionPayload = process_execution_payload (header conversion is the same field-by-field function on
   both sides) *)
Theorem C01_process_execution_payload_refines :
  forall (E : Env) (f : fork) (st : BeaconState) (body : value),
    0 < SLOTS_PER_EPOCH (cfg E) ->
    0 < EPOCHS_PER_HISTORICAL_VECTOR (cfg E) ->
    N.of_nat (Datatypes.length (randao_mixes st)) = EPOCHS_PER_HISTORICAL_VECTOR (cfg E) ->
    0 < SECONDS_PER_SLOT (cfg E) ->
    SECONDS_PER_SLOT (cfg E) <= 2 ^ 20 ->
    slot st < 2 ^ 40 ->
    genesis_time st < 2 ^ 63 ->
    header_root_distinct E f st ->
    process_execution_payload_impl E f st body =
    match process_execution_payload E f st body with
    | Some s => Ok s
    | None => Err
    end.
Proof. exact process_execution_payload_refines. Qed.
Print Assumptions C01_process_execution_payload_refines.

(* ===================== carrying the context agreement through a block (uses C08: Beacon/Proofs/{Stability,EpcInv}.v) ===================== *)

(* epc_ok at the pre-state + the C08 block frame + an up-to-date pubkey cache => epc_ok at the intermediate state *)
Theorem C01_epc_ok_carry :
  forall (E : Env) (st0 s : BeaconState) (epc0 epc : BlockEpc),
    Config_wf (cfg E) ->
    get_current_epoch E st0 + 1 < FAR_FUTURE_EPOCH ->
    epc_ok E st0 epc0 -> same_but_cache epc epc0 -> block_frame E st0 s -> cache_ok s epc -> epc_ok E s epc.
Proof. exact epc_ok_carry. Qed.
Print Assumptions C01_epc_ok_carry.

(* the same for the committee count and the committees *)
Theorem C01_epc2_ok_carry :
  forall (E : Env) (st0 s : BeaconState) (epc2 : BlockEpc2),
    Config_wf (cfg E) ->
    get_current_epoch E st0 + 1 < FAR_FUTURE_EPOCH ->
    epc2_ok E st0 epc2 -> block_frame E st0 s -> cache_ok s (e2 epc2) -> epc2_ok E s epc2.
Proof. exact epc2_ok_carry. Qed.
Print Assumptions C01_epc2_ok_carry.

(* PubkeyCache.AddValidator keeps the cache equal to `first registry index with that pubkey` when a deposit
   appends a validator *)
Theorem C01_cache_ok_add :
  forall (s s' : BeaconState) (epc : BlockEpc) (v : Validator),
    cache_ok s epc ->
    validators s' = validators s ++ [v] ->
    cache_ok s' (cache_add epc (N.of_nat (Datatypes.length (validators s))) (v_pubkey v)).
Proof. exact cache_ok_add. Qed.
Print Assumptions C01_cache_ok_add.

(* ===================== ASSEMBLY: zrnt ProcessBlock of every fork, in zrnt's order (phase0|altair|bellatrix|capella|deneb transition.go ProcessBlock) ===================== *)

(* Impl.process_block = match Spec.process_block with Some s => Ok s | None => Err. PARTIAL: `envelope` (a stage-
   indexed set P of numerically tame states: true of the pre-state, closed under this block's own spec steps,
   implying side_ok = st_bounds + room in bounded lists + C07 NoDup committees + root comparisons deciding value
   equality) is a hypothesis; it is not derivable because balances grow by rewards and by deposit amounts chosen
   by the block. Everything else (context agreement at every intermediate state, list and vector lengths, pubkey
   cache, the Inv of the attester-slashing loop) is discharged from the pre-state *)
Theorem C01_process_block_refines_partial :
  forall (E : Env) (f : fork) (P : nat -> BeaconState -> Prop) (st0 : BeaconState) 
      (epc2 : BlockEpc2) (blk : value),
    let body := vfield blk 4 in
    cfg_sane E ->
    cfg_extra E ->
    envelope E f P blk ->
    vec_lens E st0 ->
    epc2_ok E st0 epc2 ->
    P 0%nat st0 ->
    lengths_inv f st0 ->
    block_typed E f body ->
    process_block_impl E f epc2 st0 blk =
    match process_block E f st0 blk with
    | Some s => Ok s
    | None => Err
    end.
Proof. exact process_block_refines_partial. Qed.
Print Assumptions C01_process_block_refines_partial.

(* every block the spec accepts is accepted by zrnt's algorithm with the same post-state *)
Theorem C01_block_refines_partial :
  forall (E : Env) (f : fork) (P : nat -> BeaconState -> Prop) (st0 : BeaconState) 
      (epc2 : BlockEpc2) (blk : value) (st' : BeaconState),
    cfg_sane E ->
    cfg_extra E ->
    envelope E f P blk ->
    vec_lens E st0 ->
    epc2_ok E st0 epc2 ->
    P 0%nat st0 ->
    lengths_inv f st0 ->
    block_typed E f (vfield blk 4) ->
    process_block E f st0 blk = Some st' -> process_block_impl E f epc2 st0 blk = Ok st'.
Proof. exact block_refines_partial. Qed.
Print Assumptions C01_block_refines_partial.

(* ===================== PINNED SNAPSHOT (before fix: commits 74b46c6, 9bd2c6a): _refuted witnesses and what did hold ===================== *)

(* altair.ProcessSyncAggregate of the snapshot, loop level: committee [1;0], bits [1;0], proposer 0 with balance
   0 *)
Theorem C01_sync_aggregate_batching_refuted :
  exists (p pr propr : N) (ibs : list (N * bool)) (bals : list N),
      p < N.of_nat (Datatypes.length bals) /\
      Forall (fun ib : N * bool => fst ib < N.of_nat (Datatypes.length bals)) ibs /\
      spec_loop p pr propr ibs bals <> go_batched p pr propr ibs bals.
Proof. exact sync_aggregate_batching_refuted. Qed.
Print Assumptions C01_sync_aggregate_batching_refuted.

(* the same on a full altair state satisfying every other hypothesis: spec [0; 32000031622], snapshot [4517;
   32000031622] (reproduced on the Go code: design/C01-C03-refine.md) *)
Theorem C01_sync_aggregate_batching_refuted_state :
  let st := sw_state 0 in
    cfg_sane blk_env /\
    epc_ok blk_env st (spec_epc blk_env st) /\
    st_bounds blk_env st /\
    0 < slot st /\
    N.of_nat (Datatypes.length (vbits (vfield sw_agg 0))) = SYNC_COMMITTEE_SIZE (cfg blk_env) /\
    N.of_nat (Datatypes.length (sc_pubkeys (current_sync_committee st))) = SYNC_COMMITTEE_SIZE (cfg blk_env) /\
    get_beacon_proposer_index blk_env st = Some 0 /\
    (sync_pr blk_env st, sync_propr blk_env st) = (31622, 4517) /\
    option_map balances (process_sync_aggregate blk_env st sw_agg) = Some [0; 32000031622] /\
    impl_balances (process_sync_aggregate_orig blk_env (spec_epc blk_env st) st sw_agg) =
    Some [4517; 32000031622].
Proof. exact sync_aggregate_batching_refuted_state. Qed.
Print Assumptions C01_sync_aggregate_batching_refuted_state.

(* the snapshot = Spec outside that shape (hypothesis ~ sync_bad) *)
Theorem C01_sync_aggregate_orig_refines_partial :
  forall (E : Env) (st : BeaconState) (epc : BlockEpc) (sa : value),
    cfg_sane E ->
    epc_ok E st epc ->
    st_bounds E st ->
    0 < slot st ->
    N.of_nat (Datatypes.length (vbits (vfield sa 0))) = SYNC_COMMITTEE_SIZE (cfg E) ->
    N.of_nat (Datatypes.length (sc_pubkeys (current_sync_committee st))) = SYNC_COMMITTEE_SIZE (cfg E) ->
    (forall p : N,
     get_beacon_proposer_index E st = Some p ->
     ~
     sync_bad p (sync_pr E st) (sync_propr E st) (combine (be_sync_indices epc) (vbits (vfield sa 0)))
       (balances st) 0) ->
    process_sync_aggregate_orig E epc st sa =
    match process_sync_aggregate E st sa with
    | Some st' => Ok st'
    | None => Err
    end.
Proof. exact sync_aggregate_orig_refines_partial. Qed.
Print Assumptions C01_sync_aggregate_orig_refines_partial.

(* ===================== non-vacuity: the hypotheses hold on a non-trivial state and the functions do work there ===================== *)

(* cfg_sane, epc_ok, st_bounds on a two-validator altair state *)
Example C01_hypotheses_nonvacuous :
  cfg_sane blk_env /\ epc_ok blk_env nv_state nv_epc /\ st_bounds blk_env nv_state.
Proof. exact nv_hyps. Qed.
Print Assumptions C01_hypotheses_nonvacuous.

(* all hypotheses of C01_sync_aggregate_refines on the state that refuted the snapshot; repaired code = spec
   there *)
Example C01_sync_aggregate_refines_nonvacuous :
  let st := sw_state 0 in
    let epc := spec_epc blk_env st in
    cfg_sane blk_env /\
    epc_ok blk_env st epc /\
    st_bounds blk_env st /\
    0 < slot st /\
    N.of_nat (Datatypes.length (vbits (vfield sw_agg 0))) = SYNC_COMMITTEE_SIZE (cfg blk_env) /\
    N.of_nat (Datatypes.length (sc_pubkeys (current_sync_committee st))) = SYNC_COMMITTEE_SIZE (cfg blk_env) /\
    impl_balances (process_sync_aggregate_impl blk_env epc st sw_agg) = Some [0; 32000031622] /\
    option_map balances (process_sync_aggregate blk_env st sw_agg) = Some [0; 32000031622].
Proof. exact sync_aggregate_refines_nonvacuous. Qed.
Print Assumptions C01_sync_aggregate_refines_nonvacuous.

(* exit of validator 1 *)
Example C01_initiate_validator_exit_refines_nonvacuous :
  cfg_sane blk_env /\
    epc_ok blk_env nv_state nv_epc /\
    st_bounds blk_env nv_state /\ changed (initiate_validator_exit_impl blk_env nv_epc nv_state 1) = true.
Proof. exact initiate_validator_exit_refines_nonvacuous. Qed.
Print Assumptions C01_initiate_validator_exit_refines_nonvacuous.

(* slashing of validator 1 *)
Example C01_slash_validator_refines_nonvacuous :
  cfg_sane blk_env /\
    epc_ok blk_env nv_state nv_epc /\
    st_bounds blk_env nv_state /\
    N.of_nat (Datatypes.length (slashings nv_state)) = EPOCHS_PER_SLASHINGS_VECTOR (cfg blk_env) /\
    changed (slash_validator_impl blk_env Altair nv_epc nv_state 1 None) = true.
Proof. exact slash_validator_refines_nonvacuous. Qed.
Print Assumptions C01_slash_validator_refines_nonvacuous.

(* both validators attest with all three flags *)
Example C01_attestation_rewards_refines_nonvacuous :
  let idxs := [1; 0] in
    let flags := [0; 1; 2] in
    NoDup idxs /\
    (forall fl : N, In fl flags -> fl < 3) /\
    (forall i : N,
     In i idxs ->
     exists v : Validator,
       nthN (validators nv_state) i = Some v /\
       is_active_validator v (get_previous_epoch blk_env nv_state)
       || is_active_validator v (get_current_epoch blk_env nv_state) = true) /\
    Datatypes.length (current_epoch_participation nv_state) = Datatypes.length (validators nv_state) /\
    Datatypes.length (previous_epoch_participation nv_state) = Datatypes.length (validators nv_state) /\
    N.of_nat (Datatypes.length idxs) * att_unit blk_env (get_base_reward_per_increment blk_env nv_state) <
    2 ^ 63 /\
    match attestation_rewards_impl blk_env nv_epc nv_state true (sort_indices idxs) flags with
    | Ok s =>
        current_epoch_participation s = [7; 7] /\
        nthN (balances s) 0 = Some (32 * GWEI_ETH + 54 * 32 * 252982 * 2 / 448)
    | _ => False
    end.
Proof. exact attestation_rewards_refines_nonvacuous. Qed.
Print Assumptions C01_attestation_rewards_refines_nonvacuous.

(* one partial and one full withdrawal *)
Example C01_get_expected_withdrawals_refines_nonvacuous :
  0 < SLOTS_PER_EPOCH (cfg blk_env) /\
    Datatypes.length (balances nvw_state) = Datatypes.length (validators nvw_state) /\
    0 < N.of_nat (Datatypes.length (validators nvw_state)) <= 2 ^ 40 /\
    next_withdrawal_validator_index nvw_state < N.of_nat (Datatypes.length (validators nvw_state)) /\
    next_withdrawal_index nvw_state < 2 ^ 63 /\
    get_expected_withdrawals_impl blk_env nvw_state = Ok [(0, 1, repeat 1 20, GWEI_ETH); (1, 2, repeat 2 20, 5)].
Proof. exact get_expected_withdrawals_refines_nonvacuous. Qed.
Print Assumptions C01_get_expected_withdrawals_refines_nonvacuous.

(* deposit of a new validator *)
Example C01_process_deposit_refines_nonvacuous :
  0 < EFFECTIVE_BALANCE_INCREMENT (cfg blk_env) /\
    registry_room blk_env Altair nv_state /\
    eth1_deposit_index nv_state + 1 < two64 /\
    (forall x : N, In x (balances nv_state) -> x < 2 ^ 63) /\
    match
      process_deposit_impl blk_env Altair nv_epc nv_state
        (VCont
           [VSeq (repeat (VBytes z32) 33);
            VCont [VBytes [9]; VBytes z32; VUint (32 * GWEI_ETH); VBytes (repeat 0 96)]])
    with
    | Ok s =>
        Datatypes.length (validators s) = 3%nat /\
        Datatypes.length (inactivity_scores s) = 3%nat /\ eth1_deposit_index s = 1
    | _ => False
    end.
Proof. exact process_deposit_refines_nonvacuous. Qed.
Print Assumptions C01_process_deposit_refines_nonvacuous.

(* ALL hypotheses of C01_process_block_refines_partial hold for a concrete altair state, context, block (randao,
   eth1 vote, sync aggregate with a participant) and explicit envelope; the block is accepted and changes the
   state *)
Example C01_process_block_refines_nonvacuous :
  cfg_sane blk_env /\
    cfg_extra blk_env /\
    envelope blk_env Altair aw_P aw_blk /\
    vec_lens blk_env aw_st0 /\
    epc2_ok blk_env aw_st0 aw_epc2 /\
    aw_P 0 aw_st0 /\
    lengths_inv Altair aw_st0 /\
    block_typed blk_env Altair (vfield aw_blk 4) /\
    match process_block_impl blk_env Altair aw_epc2 aw_st0 aw_blk with
    | Ok s =>
        balances s = [31999972895; 32000031622] /\
        Datatypes.length (eth1_data_votes s) = 1%nat /\ h_slot (latest_block_header s) = 1
    | _ => False
    end.
Proof. exact process_block_refines_nonvacuous. Qed.
Print Assumptions C01_process_block_refines_nonvacuous.
