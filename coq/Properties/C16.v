(* C16 — Pubkey cache maps index and key exactly along each deposit history.
   Statements only; proofs live in Pubkeys/CacheProofs.v.  Impl = Pubkeys/CacheModel.v (explicit heap of
   PubkeyCache objects, the repaired code), Spec = Pubkeys/CacheSpec.v (each handle denotes a list of pubkeys). *)
From Coq Require Import NArith List Arith.
From V Require Pubkeys.FarIndex.
From V Require Import Base.Outcome Pubkeys.CacheSpec Pubkeys.CacheModel Pubkeys.CacheProofs
  Pubkeys.DepositModel Pubkeys.DepositProofs.
Import ListNotations.

(* Observational refinement: for EVERY sequence of AddValidator / Pubkey / ValidatorIndex calls on any number
   of handle variables forked from one another (any overlap of indices and pubkeys between branches), starting
   from NewPubkeyCache over any duplicate-free registry (EmptyPubkeyCache = []), the Impl model returns exactly
   what the per-handle history Spec returns.  The Spec never yields Panic / Blocked / OutOfFuel. *)
Theorem C16_cache_refines : forall (l : list pubkey), NoDup l -> forall ops : list op,
  run i_step (i_init l) ops = run s_step (s_init l) ops.
Proof. exact cache_refines. Qed.
Print Assumptions C16_cache_refines.

(* every call of every such run returns a value or AddValidator's error: it terminates and does not panic *)
Theorem C16_run_total : forall (l : list pubkey) (ops : list op), NoDup l ->
  Forall (fun x : out => (exists v, x = Ok v) \/ x = Err) (run i_step (i_init l) ops).
Proof. exact run_total. Qed.
Print Assumptions C16_run_total.

(* every reachable state satisfies the heap invariant `wf` used by the per-call theorems below *)
Theorem C16_reachable_inv : forall (l : list pubkey) (ops : list op), NoDup l ->
  wf (iheap (run_state i_step (i_init l) ops)) /\
  Forall (fun h => h < length (iheap (run_state i_step (i_init l) ops))) (ivars (run_state i_step (i_init l) ops)).
Proof. exact reachable_inv. Qed.
Print Assumptions C16_reachable_inv.

(* lookups = position in the handle's own history `abs hp h`, both directions *)
Theorem C16_lookup_exact : forall hp h fuel, wf hp -> h < length hp -> depth hp h <= fuel ->
  (forall i, pubkey_at fuel hp h i = Ok (nth_error (abs hp h) i)) /\
  (forall p, validator_index fuel hp h p = Ok (index_of p (abs hp h))).
Proof. exact lookup_exact. Qed.
Print Assumptions C16_lookup_exact.

(* never reports an entry that is not on its own history (an entry existing only on a sibling/parent branch) *)
Theorem C16_lookup_sound : forall hp h fuel, wf hp -> h < length hp -> depth hp h <= fuel ->
  (forall i p, pubkey_at fuel hp h i = Ok (Some p) -> nth_error (abs hp h) i = Some p) /\
  (forall p i, validator_index fuel hp h p = Ok (Some i) -> nth_error (abs hp h) i = Some p).
Proof. exact lookup_sound. Qed.
Print Assumptions C16_lookup_sound.

Theorem C16_lookup_complete : forall hp h fuel i p, wf hp -> h < length hp -> depth hp h <= fuel ->
  nth_error (abs hp h) i = Some p ->
  pubkey_at fuel hp h i = Ok (Some p) /\ validator_index fuel hp h p = Ok (Some i).
Proof. exact lookup_complete. Qed.
Print Assumptions C16_lookup_complete.

(* appending a known pair is a no-op: same heap, same handle *)
Theorem C16_add_known_noop : forall hp h i p fuel, wf hp -> h < length hp -> depth hp h + 5 <= fuel ->
  nth_error (abs hp h) i = Some p -> add_validator fuel hp h i p = Ok (hp, h).
Proof. exact add_known_noop. Qed.
Print Assumptions C16_add_known_noop.

(* the next index with a new pubkey: the handle's own history grows by one, no other handle changes *)
Theorem C16_add_next_appends : forall hp h i p fuel, wf hp -> h < length hp -> depth hp h + 5 <= fuel ->
  i = length (abs hp h) -> ~ In p (abs hp h) ->
  exists hp', add_validator fuel hp h i p = Ok (hp', h) /\ wf hp' /\ length hp' = length hp /\
    abs hp' h = abs hp h ++ [p] /\ forall o, o <> h -> abs hp' o = abs hp o.
Proof. exact add_next_appends. Qed.
Print Assumptions C16_add_next_appends.

(* a conflicting pair yields a NEW handle for the branched history; every old handle (the receiver included)
   denotes exactly what it denoted before *)
Theorem C16_add_conflict_forks_fresh : forall hp h i p fuel, wf hp -> h < length hp -> depth hp h + 5 <= fuel ->
  i < length (abs hp h) -> nth_error (abs hp h) i <> Some p -> ~ In p (firstn i (abs hp h)) ->
  exists hp' h', add_validator fuel hp h i p = Ok (hp', h') /\ wf hp' /\
    length hp <= h' < length hp' /\
    abs hp' h' = firstn i (abs hp h) ++ [p] /\
    forall o, o < length hp -> abs hp' o = abs hp o.
Proof. exact add_conflict_forks_fresh. Qed.
Print Assumptions C16_add_conflict_forks_fresh.

(* appending beyond the next index is an error *)
Theorem C16_add_gap_errors : forall hp h i p fuel, wf hp -> h < length hp -> depth hp h + 5 <= fuel ->
  length (abs hp h) < i -> add_validator fuel hp h i p = Err.
Proof. exact add_gap_errors. Qed.
Print Assumptions C16_add_gap_errors.

(* a pubkey registered earlier on the same history is not registered a second time (histories stay duplicate-free) *)
Theorem C16_add_dup_errors : forall hp h i p fuel, wf hp -> h < length hp -> depth hp h + 5 <= fuel ->
  forall j, index_of p (abs hp h) = Some j -> j < i -> add_validator fuel hp h i p = Err.
Proof. exact add_dup_errors. Qed.
Print Assumptions C16_add_dup_errors.

(* every call terminates: fuel = chain depth + 5 suffices, the result is a value or the error *)
Theorem C16_add_terminates : forall hp h i p fuel, wf hp -> h < length hp -> depth hp h + 5 <= fuel ->
  (exists r, add_validator fuel hp h i p = Ok r) \/ add_validator fuel hp h i p = Err.
Proof. exact add_terminates. Qed.
Print Assumptions C16_add_terminates.

(* ---- deposit level (phase0.ProcessDeposit driving the cache of an EpochsContext; DepositModel.v) ----
   For every sequence of context copies (state.CopyState + epc.Clone: the copy shares the handle) and deposits,
   from any duplicate-free genesis registry: ProcessDeposit deciding "exists" through the cache and storing the
   returned handle back (Impl) yields the same results and the same registries as the registry-driven Spec. *)
Theorem C16_deposit_refines : forall (l : list pubkey) (ops : list dop), NoDup l ->
  drun istate i_step (known_by_cache istate i_step) (di_init l) ops =
  drun sstate s_step (fun _ _ r p => known_by_registry r p) (ds_init l) ops.
Proof. exact deposit_refines. Qed.
Print Assumptions C16_deposit_refines.

(* the cache never refuses the add of a deposit (no error, panic or non-termination surfaces from it) *)
Theorem C16_deposit_never_fails : forall (l : list pubkey) (ops : list dop), NoDup l ->
  Forall (fun e => forall x, fst e <> DFailed x)
         (drun istate i_step (known_by_cache istate i_step) (di_init l) ops).
Proof. exact deposit_never_fails. Qed.
Print Assumptions C16_deposit_never_fails.

(* in every reachable state the cache handle of EVERY context denotes a history that extends that context's own
   validator registry (what lies beyond belongs to a sibling further along and is filtered by `< valCount`) *)
Theorem C16_deposit_handle_extends_registry : forall (l : list pubkey) (ops : list dop), NoDup l ->
  let a := drun_state istate i_step (known_by_cache istate i_step) (di_init l) ops in
  wf (iheap (d_cache a)) /\
  forall c r h, nth_error (d_regs a) c = Some r -> nth_error (ivars (d_cache a)) c = Some h ->
    h < length (iheap (d_cache a)) /\ exists tail, abs (iheap (d_cache a)) h = r ++ tail.
Proof. exact deposit_handle_extends_registry. Qed.
Print Assumptions C16_deposit_handle_extends_registry.

Theorem C16_deposit_lookups_agree_with_registry : forall (l : list pubkey) (ops : list dop), NoDup l ->
  let a := drun_state istate i_step (known_by_cache istate i_step) (di_init l) ops in
  forall c r h fuel, nth_error (d_regs a) c = Some r -> nth_error (ivars (d_cache a)) c = Some h ->
    depth (iheap (d_cache a)) h <= fuel ->
    (forall i, i < length r -> pubkey_at fuel (iheap (d_cache a)) h i = Ok (nth_error r i)) /\
    (forall i p, nth_error r i = Some p -> validator_index fuel (iheap (d_cache a)) h p = Ok (Some i)).
Proof. exact deposit_lookups_agree_with_registry. Qed.
Print Assumptions C16_deposit_lookups_agree_with_registry.

(* a ProcessDeposit that drops AddValidator's result (model `drop_result_step`) breaks it: two siblings add
   different keys at index 3, the second context answers with the sibling's key and does not find its own *)
Theorem C16_dropped_handle_refuted :
  let ops := [DCopy 0; DDeposit 0 8%N; DDeposit 1 9%N] in
  let a := drun_state istate drop_result_step (known_by_cache istate drop_result_step) (di_init [0; 1; 2]%N) ops in
  nth_error (d_regs a) 1 = Some [0; 1; 2; 9]%N /\
  snd (drop_result_step (d_cache a) (OPub 1 3)) = Ok (VPub (Some 8%N)) /\
  snd (drop_result_step (d_cache a) (OIdx 1 9%N)) = Ok (VIdx None).
Proof. exact dropped_result_refuted. Qed.

(* Defects of the pinned snapshot (lookup through the parent ignores trustedParentCount), kept as machine-checked
   witnesses about the faithful model of the ORIGINAL code; repaired by fixes/C16-trusted-parent-guard.diff *)
Theorem C16_sibling_leak_snapshot_refuted :
  let s := run_state (i_step_orig 0) (i_init [0; 1]%N) [OAdd 0 1 1 2%N] in
  exists h, nth_error (ivars s) 1 = Some h /\ abs (iheap s) h = [0; 2]%N /\
    pubkey_at (depth (iheap s) h) (iheap s) h 1 = Ok (Some 2%N) /\
    validator_index_orig (depth (iheap s) h) (iheap s) h 1%N = Ok (Some 1).
Proof. exact sibling_leak_refuted. Qed.
Theorem C16_refines_snapshot_refuted :
  run (i_step_orig 0) (i_init [0; 1]%N) [OAdd 0 1 1 2%N; OIdx 1 1%N] <>
  run s_step (s_init [0; 1]%N) [OAdd 0 1 1 2%N; OIdx 1 1%N].
Proof. exact sibling_leak_run_refuted. Qed.
Theorem C16_add_validator_diverges_snapshot_refuted :
  forall fuel, add_validator_orig fuel [new_cache [0; 1; 2]%N] 0 1 2%N = OutOfFuel.
Proof. exact add_validator_diverges_refuted. Qed.

(* indices far beyond a history (validator indices arrive unchecked from the network): the call is refused, nothing changes,
   and the answer does not depend on how far beyond the index is *)
Theorem C16_far_index_refused : forall (s : sstate) (v dst i : nat) (p : pubkey) (c : nat),
  nth_error (svars s) v = Some c -> length (cell s c) < i -> s_step s (OAdd v dst i p) = (s, Err).
Proof. exact FarIndex.s_step_far_refused. Qed.
Print Assumptions C16_far_index_refused.

(* non-vacuity: a reachable heap with forks of forks (chain depth 3, one intermediate empty fork), four live
   handles on four different histories that overlap in indices and pubkeys, satisfying every hypothesis of the
   per-call theorems; the run exercises no-op, in-place append, both kinds of conflict, gap and duplicate *)
Example C16_nonvacuous :
  let ops := [OAdd 0 0 3 3; OAdd 0 1 1 4; OAdd 1 1 2 1; OAdd 1 2 1 2; OAdd 2 2 2 4; OAdd 0 0 4 4; OAdd 0 3 1 3]%N in
  let s := run_state i_step (i_init [0; 1; 2]%N) ops in
  wf (iheap s) /\ ivars s = [0; 1; 2; 4] /\ length (iheap s) = 5 /\
  abs (iheap s) 0 = [0; 1; 2; 3; 4]%N /\ abs (iheap s) 1 = [0; 4; 1]%N /\ abs (iheap s) 2 = [0; 2; 4]%N /\
  abs (iheap s) 4 = [0; 3]%N /\ depth (iheap s) 4 = 3 /\ depth (iheap s) 2 = 3 /\
  run i_step (i_init [0; 1; 2]%N)
      (ops ++ [OIdx 1 2; OIdx 2 1; OPub 2 2; OAdd 2 2 1 2; OAdd 2 2 5 5; OAdd 1 1 3 0; OPub 3 1; OIdx 3 1]%N) =
    [Ok (VAdd true); Ok (VAdd false); Ok (VAdd true); Ok (VAdd false); Ok (VAdd true); Ok (VAdd true);
     Ok (VAdd false); Ok (VIdx None); Ok (VIdx None); Ok (VPub (Some 4%N)); Ok (VAdd true); Err; Err;
     Ok (VPub (Some 3%N)); Ok (VIdx None)].
Proof.
  intros ops s.
  assert (Hnd : NoDup [0; 1; 2]%N) by (repeat constructor; simpl; intuition discriminate).
  split.
  - exact (proj1 (C16_reachable_inv [0; 1; 2]%N ops Hnd)).
  - vm_compute. repeat split.
Qed.
