(* C20 — Operation pools keep what they are given and never panic.
   Statements only; proofs live in Pool/PoolMaps.v, PoolBits.v, PoolAtt.v, PoolSync.v, PoolSafe.v, PoolProofs.v.
   Impl = Pool/PoolModel.v (eth2/pool/*.go + attestation_bits.go with the repairs of fixes/C20-*.diff),
   Spec = Pool/PoolSpec.v (lists of added items).  Quantifier of every theorem: ALL operation sequences [ops].
   [a_answers ops op o] / [k_answers] / [s_answers]: after the calls [ops] on a fresh pool, the call [op] answers [o]. *)
From Coq Require Import NArith List Permutation.
From V Require Import Base.U64 Base.Outcome Pool.PoolModel Pool.PoolSpec Pool.PoolProofs.
Import ListNotations.
Local Open Scope N_scope.

(* ---------- refinement: the code answers what the Spec answers, on every sequence ---------- *)
Theorem C20_attestations_refine : forall ops, Forall aop_wf ops ->
  Forall2 aout_equiv (ap_run fixed ap_init ops) (as_run as_init ops).
Proof. exact ap_refines. Qed.
Print Assumptions C20_attestations_refine.
Theorem C20_slashings_exits_refine : forall ops, kp_run kp_init ops = ks_run ks_init ops.
Proof. exact kp_refines. Qed.
Print Assumptions C20_slashings_exits_refine.
Theorem C20_sync_refine : forall ops, Forall sop_ok ops -> sp_run fixed sp_init ops = ss_run ss_init ops.
Proof. exact sp_refines. Qed.
Print Assumptions C20_sync_refine.

(* ---------- add_no_panic: every add/search/prune/reset/select returns (a value or an error) ---------- *)
Theorem C20_add_no_panic_attestations : forall ops, Forall aop_wf ops -> ~ In ARPanic (ap_run fixed ap_init ops).
Proof. exact add_no_panic_attestations. Qed.
Print Assumptions C20_add_no_panic_attestations.
Theorem C20_add_no_panic_slashings_exits : forall ops, ~ In KRPanic (kp_run kp_init ops).
Proof. exact add_no_panic_slashings_exits. Qed.
Print Assumptions C20_add_no_panic_slashings_exits.
Theorem C20_add_no_panic_sync : forall ops, Forall sop_ok ops -> ~ In SRPanic (sp_run fixed sp_init ops).
Proof. exact add_no_panic_sync. Qed.
Print Assumptions C20_add_no_panic_sync.
(* ... even for arguments outside the domain: byte strings that are no bit lists, any committee, any buffer index, any slot *)
Theorem C20_never_panics_attestations : forall ops, ~ In ARPanic (ap_run fixed ap_init ops).
Proof. exact never_panics_attestations. Qed.
Print Assumptions C20_never_panics_attestations.
Theorem C20_never_panics_sync : forall ops, ~ In SRPanic (sp_run fixed sp_init ops).
Proof. exact never_panics_sync. Qed.
Print Assumptions C20_never_panics_sync.
(* stores it or returns an error: a sync message/contribution is stored iff its slot is cur-1, cur or cur+1 (mod 2^64) *)
Theorem C20_sync_add_stores_or_errors : forall s m,
  snd (ss_add_msg s m) = in_window (ss_cur s) (sm_slot m) /\
  (in_window (ss_cur s) (sm_slot m) = true -> In m (ss_msgs (fst (ss_add_msg s m)))) /\
  (in_window (ss_cur s) (sm_slot m) = false -> fst (ss_add_msg s m) = s).
Proof. exact ss_add_window. Qed.
Print Assumptions C20_sync_add_stores_or_errors.

(* ---------- add_dup_absorbed ---------- *)
Theorem C20_add_dup_absorbed_aggregate : forall ops a comm, Forall aop_wf ops -> wf_bits (a_bits a) ->
  In (a, comm) (as_kept (as_after ops)) ->
  a_answers ops (AAdd a comm) (ARAdd true) /\ as_after (ops ++ [AAdd a comm]) = as_after ops.
Proof. exact add_dup_absorbed_aggregate. Qed.
Print Assumptions C20_add_dup_absorbed_aggregate.
Theorem C20_add_dup_absorbed_single : forall ops v a comm, Forall aop_wf ops -> wf_bits (a_bits a) ->
  In (v, a) (as_singles (as_after ops)) ->
  count_true (decode (a_bits a)) = 1 -> length (decode (a_bits a)) = length comm ->
  hd 0 (participants (decode (a_bits a)) comm) = v ->
  a_answers ops (AAdd a comm) (ARAdd true) /\ as_after (ops ++ [AAdd a comm]) = as_after ops.
Proof. exact add_dup_absorbed_single. Qed.
Print Assumptions C20_add_dup_absorbed_single.
Theorem C20_add_dup_refused_slashings_exits : forall ops x y, In y (ks_after ops) -> k_key y = k_key x ->
  k_answers ops (KAdd x) (KRAdd false) /\ ks_after (ops ++ [KAdd x]) = ks_after ops.
Proof. exact add_dup_refused_slashings_exits. Qed.
Print Assumptions C20_add_dup_refused_slashings_exits.
(* which accepted aggregates are stored: those bringing a participant that the stored ones for the same data lack *)
Theorem C20_aggregate_stored : forall s a comm,
  2 <= count_true (decode (a_bits a)) -> length (decode (a_bits a)) = length comm ->
  snd (as_add s a comm) = true -> covered (same_data (a_data a) (as_kept s)) (a_bits a) = false ->
  In (a, comm) (as_kept (fst (as_add s a comm))).
Proof. exact as_agg_stored. Qed.
Print Assumptions C20_aggregate_stored.

(* ---------- add_conflict_reported ---------- *)
Theorem C20_add_conflict_reported_single : forall ops v a' a comm, Forall aop_wf ops -> wf_bits (a_bits a) ->
  In (v, a') (as_singles (as_after ops)) ->
  count_true (decode (a_bits a)) = 1 -> length (decode (a_bits a)) = length comm ->
  hd 0 (participants (decode (a_bits a)) comm) = v ->
  tepoch a = tepoch a' -> a_data a <> a_data a' ->
  a_answers ops (AAdd a comm) (ARAdd false) /\ as_after (ops ++ [AAdd a comm]) = as_after ops.
Proof. exact add_conflict_reported_single. Qed.
Print Assumptions C20_add_conflict_reported_single.
Theorem C20_add_conflict_reported_aggregate : forall ops a comm, Forall aop_wf ops -> wf_bits (a_bits a) ->
  2 <= count_true (decode (a_bits a)) -> length (decode (a_bits a)) = length comm ->
  same_data (a_data a) (as_kept (as_after ops)) = [] ->
  (forall v, In v (att_parts (a, comm)) -> voted (as_kept (as_after ops)) v (tepoch a) = true) ->
  a_answers ops (AAdd a comm) (ARAdd false) /\ as_after (ops ++ [AAdd a comm]) = as_after ops.
Proof. exact add_conflict_reported_aggregate. Qed.
Print Assumptions C20_add_conflict_reported_aggregate.

(* ---------- query_sound: every item returned was added, unaltered, and matches the filter ---------- *)
Theorem C20_query_sound_attestations : forall ops oslot oidx, Forall aop_wf ops ->
  exists l, a_answers ops (ASearch oslot oidx) (ARSearch l) /\
            forall x, In x l -> q_match oslot oidx (a_data x) = true /\ exists comm, In (AAdd x comm) ops.
Proof. exact query_sound_attestations. Qed.
Print Assumptions C20_query_sound_attestations.
Theorem C20_query_sound_slashings_exits : forall ops,
  k_answers ops KAll (KRAll (ks_after ops)) /\ forall x, In x (ks_after ops) -> In x (k_added ops).
Proof. exact query_sound_slashings_exits. Qed.
Print Assumptions C20_query_sound_slashings_exits.
Theorem C20_query_sound_sync : forall ops pos root members, Forall sop_ok ops -> (pos = 0 \/ pos = 1 \/ pos = 2) ->
  s_answers ops (SSelect pos root members) (SRSelect (ss_select (ss_after ops) pos root members)) /\
  forall m, In m (ss_select (ss_after ops) pos root members) ->
    In m (s_added_msgs ops) /\ sm_slot m = pos_slot (ss_cur (ss_after ops)) pos /\ sm_root m = root /\ In (sm_val m) members.
Proof. exact query_sound_sync. Qed.
Print Assumptions C20_query_sound_sync.
Theorem C20_query_sound_sync_contributions : forall ops pos root sub x, In x (ss_contribs (ss_after ops) pos root sub) ->
  exists c, In c (s_added_cons ops) /\ x = (sc_bits c, sc_sig c) /\
            sc_slot c = pos_slot (ss_cur (ss_after ops)) pos /\ sc_root c = root /\ sc_subnet c = sub.
Proof. exact ss_contribs_sound. Qed.
Print Assumptions C20_query_sound_sync_contributions.

(* ---------- query_complete: stored aggregates, slashings and exits are returned until pruned ---------- *)
Theorem C20_query_complete_attestations : forall pre a comm more oslot oidx, Forall aop_wf (pre ++ more) ->
  In (a, comm) (as_kept (as_after pre)) -> not_pruned_by a more -> q_match oslot oidx (a_data a) = true ->
  exists l, a_answers (pre ++ more) (ASearch oslot oidx) (ARSearch l) /\ In a l.
Proof. exact query_complete_attestations. Qed.
Print Assumptions C20_query_complete_attestations.
Theorem C20_query_complete_slashings_exits : forall ops x more,
  snd (ks_step (ks_after ops) (KAdd x)) = KRAdd true ->
  k_answers (ops ++ KAdd x :: more) KAll (KRAll (ks_after (ops ++ KAdd x :: more))) /\ In x (ks_after (ops ++ KAdd x :: more)).
Proof. exact query_complete_slashings_exits. Qed.
Print Assumptions C20_query_complete_slashings_exits.
Theorem C20_slashings_exits_one_per_key : forall ops, NoDup (map k_key (ks_after ops)).
Proof. exact kp_keys_unique. Qed.
Print Assumptions C20_slashings_exits_one_per_key.
Theorem C20_query_complete_sync_contributions : forall s c,
  in_window (ss_cur s) (sc_slot c) = true -> ss_cur s < two64 -> sc_slot c < two64 ->
  exists pos, (pos = 0 \/ pos = 1 \/ pos = 2) /\
    In (sc_bits c, sc_sig c) (ss_contribs (fst (ss_add_con s c)) pos (sc_root c) (sc_subnet c)).
Proof. exact ss_contribs_complete. Qed.
Print Assumptions C20_query_complete_sync_contributions.

(* ---------- prune_exact: pruning removes exactly the items that can no longer be included ---------- *)
Theorem C20_prune_exact_attestations : forall ops epoch oslot oidx, Forall aop_wf ops ->
  exists l l', a_answers ops (ASearch oslot oidx) (ARSearch l) /\
               a_answers (ops ++ [APrune epoch]) (ASearch oslot oidx) (ARSearch l') /\
               Permutation l' (filter (fun x => includable epoch (tepoch x)) l).
Proof. exact prune_exact_attestations. Qed.
Print Assumptions C20_prune_exact_attestations.
(* ... the same for the unaggregated attestations held, and "can be included" = current epoch <= target epoch + 1 *)
Theorem C20_prune_exact_spec : forall s epoch oslot oidx,
  as_search (as_prune s epoch) oslot oidx = filter (fun x => includable epoch (tepoch x)) (as_search s oslot oidx)
  /\ singles_view (as_prune s epoch) = filter (fun r => includable epoch (snd (fst (fst r)))) (singles_view s).
Proof. exact as_prune_exact. Qed.
Print Assumptions C20_prune_exact_spec.
Theorem C20_includable : forall epoch t, includable epoch t = true <-> epoch <= t + 1.
Proof. exact includable_iff. Qed.
Print Assumptions C20_includable.
(* slot rotation of the sync pool: Reset(slot) keeps exactly what is still within slot-1 .. slot+1 *)
Theorem C20_sync_reset_exact : forall s slot,
  ss_cur (ss_reset s slot) = slot /\
  (forall m, In m (ss_msgs (ss_reset s slot)) <-> In m (ss_msgs s) /\ in_window slot (sm_slot m) = true) /\
  (forall c, In c (ss_cons (ss_reset s slot)) <-> In c (ss_cons s) /\ in_window slot (sc_slot c) = true) /\
  ss_cons (ss_reset s slot) = filter (fun c => in_window slot (sc_slot c)) (ss_cons s).
Proof. exact ss_reset_exact. Qed.
Print Assumptions C20_sync_reset_exact.

(* ---------- attestation bits: the byte-level helpers compute on the decoded flag list ---------- *)
Theorem C20_bits_len : forall bs, bytes_ok bs -> bitlist_len bs = N.of_nat (length (decode bs)).
Proof. exact bitlist_len_decode. Qed.
Print Assumptions C20_bits_len.
Theorem C20_bits_get : forall bs i, bytes_ok bs -> (i < length (decode bs))%nat -> get_bit bs (N.of_nat i) = Ok (flag bs i).
Proof. exact get_bit_flag. Qed.
Print Assumptions C20_bits_get.
Theorem C20_bits_ones_count : forall bs, bytes_ok bs -> ones_count bs = count_true (decode bs).
Proof. exact ones_count_decode. Qed.
Print Assumptions C20_bits_ones_count.
Theorem C20_bits_covers : forall a b, wf_bits a -> wf_bits b ->
  att_covers a b = if Nat.eqb (length (decode a)) (length (decode b)) then Ok (imp2 (decode a) (decode b)) else Err.
Proof. exact att_covers_decode. Qed.
Print Assumptions C20_bits_covers.
Theorem C20_bits_or : forall a b, wf_bits a -> wf_bits b -> length (decode a) = length (decode b) ->
  exists c, bits_or a b = Ok c /\ wf_bits c /\ decode c = or2 (decode a) (decode b).
Proof. exact bits_or_wf. Qed.
Print Assumptions C20_bits_or.
Theorem C20_bits_single_participant : forall bits comm v, bytes_ok bits -> length (decode bits) = length comm ->
  participants (decode bits) comm = [v] -> single_participant bits comm = Ok v.
Proof. exact single_participant_spec. Qed.
Print Assumptions C20_bits_single_participant.

(* ---------- defects of the pinned snapshot, as machine-checked witnesses (repaired by fixes/C20-*.diff) ---------- *)
Theorem C20_aggpervalidator_nil_refuted : ap_run pinned ap_init_orig [AAdd w01 wcomm] = [ARPanic].
Proof. exact aggpv_nil_refuted. Qed.
Theorem C20_search_nil_aggregate_refuted : ap_run pinned ap_init_orig [AAdd w2 wcomm; ASearch None None] = [ARAdd true; ARPanic].
Proof. exact search_nil_refuted. Qed.
Theorem C20_participants_not_ored_refuted :
  ap_run fx_no_or (ap_init_gen fx_no_or) [AAdd w01 wcomm; AAdd w23 wcomm; AAdd w23 wcomm; AAdd w12 wcomm; ASearch None None]
    = [ARAdd true; ARAdd true; ARAdd true; ARAdd true; ARSearch [w01; w23; w23; w12]] /\
  as_run as_init [AAdd w01 wcomm; AAdd w23 wcomm; AAdd w23 wcomm; AAdd w12 wcomm; ASearch None None]
    = [ARAdd true; ARAdd true; ARAdd true; ARAdd true; ARSearch [w01; w23]].
Proof. exact participants_not_ored_refuted. Qed.
Theorem C20_committee_size_refuted :
  ap_run fx_no_check (ap_init_gen fx_no_check) [AAdd w01 (wcomm ++ [30; 31; 32; 33; 34; 35])] = [ARPanic] /\
  as_run as_init [AAdd w01 (wcomm ++ [30; 31; 32; 33; 34; 35])] = [ARAdd false].
Proof. exact committee_size_refuted. Qed.
Theorem C20_sync_nil_maps_refuted :
  sp_run pinned sp_init_orig [SAddMsg (mkMsg 0 1 3 1)] = [SRPanic] /\
  sp_run pinned sp_init_orig [SReset 0; SAddMsg (mkMsg 0 1 3 1)] = [SRReset; SRPanic] /\
  sp_run pinned sp_init_orig [SAddCon (mkCon max64 1 2 [3] 1)] = [SRPanic] /\
  ss_run ss_init [SAddMsg (mkMsg 0 1 3 1)] = [SRAdd true].
Proof. exact sync_nil_maps_refuted. Qed.
Theorem C20_select_nil_refuted :
  sp_run fx_no_select (sp_init_gen fx_no_select) [SReset 7; SAddMsg (mkMsg 7 1 3 1); SSelect 1 1 [3; 4]] = [SRReset; SRAdd true; SRPanic] /\
  ss_run ss_init [SReset 7; SAddMsg (mkMsg 7 1 3 1); SSelect 1 1 [3; 4]] = [SRReset; SRAdd true; SRSelect [mkMsg 7 1 3 1]].
Proof. exact select_nil_refuted. Qed.
Theorem C20_reset_skip_refuted :
  sp_run fx_no_skip (sp_init_gen fx_no_skip) [SReset 7; SAddMsg (mkMsg 8 1 3 1); SReset 9; SSelect 0 1 [3]]
    = [SRReset; SRAdd true; SRReset; SRSelect []] /\
  ss_run ss_init [SReset 7; SAddMsg (mkMsg 8 1 3 1); SReset 9; SSelect 0 1 [3]]
    = [SRReset; SRAdd true; SRReset; SRSelect [mkMsg 8 1 3 1]].
Proof. exact reset_skip_refuted. Qed.

(* ---------- non-vacuity: the hypotheses are met by non-trivial sequences (repaired model, evaluated) ---------- *)
Example C20_nonvacuous :
  Forall aop_wf [AAdd w01 wcomm; AAdd w23 wcomm; AAdd w23 wcomm; AAdd w12 wcomm; AAdd w2 wcomm; ASearch (Some 9) None; APrune 3; ASearch None None] /\
  ap_run fixed ap_init [AAdd w01 wcomm; AAdd w23 wcomm; AAdd w23 wcomm; AAdd w12 wcomm; AAdd w2 wcomm; ASearch (Some 9) None; APrune 3; ASearch None None]
    = [ARAdd true; ARAdd true; ARAdd true; ARAdd true; ARAdd true; ARSearch [w01; w23]; ARPrune; ARSearch []] /\
  In (w01, wcomm) (as_kept (as_after [AAdd w01 wcomm; AAdd w23 wcomm])) /\
  In (22, w2) (as_singles (as_after [AAdd w2 wcomm])) /\
  Forall sop_ok [SReset 7; SAddMsg (mkMsg 8 1 3 1); SAddMsg (mkMsg 5 1 3 2); SReset 9; SSelect 0 1 [3; 4]] /\
  sp_run fixed sp_init [SReset 7; SAddMsg (mkMsg 8 1 3 1); SAddMsg (mkMsg 5 1 3 2); SReset 9; SSelect 0 1 [3; 4]]
    = [SRReset; SRAdd true; SRAdd false; SRReset; SRSelect [mkMsg 8 1 3 1]] /\
  kp_run kp_init [KAdd (mkK 1 7); KAdd (mkK 2 7); KAdd (mkK 3 8); KAll] = [KRAdd true; KRAdd false; KRAdd true; KRAll [mkK 1 7; mkK 3 8]].
Proof.
  split; [repeat constructor|]. split; [vm_compute; reflexivity|]. split; [vm_compute; tauto|]. split; [vm_compute; tauto|].
  split; [repeat constructor; vm_compute; auto|]. split; vm_compute; reflexivity.
Qed.
