(* C20 — placeholder while the proofs are being built *)
From Coq Require Import NArith List.
From V Require Import Base.U64 Base.Outcome Pool.PoolModel Pool.PoolSpec Pool.PoolProofs Pool.PoolRun.
