(* C20 — proofs, part 2: the byte-level bit-list helpers (ztyp/bitfields, AttestationBits) compute what
   the decoded flag list says.  Byte-level facts are checked exhaustively (256 / 65536 cases, vm_compute)
   and lifted to all bytes; the list-level facts are by induction on the byte list. *)
From Coq Require Import NArith ZArith List Bool Lia.
From Coq Require Import ZifyN ZifyNat ZifyBool.
From V Require Import Base.U64 Base.Outcome Pool.PoolModel Pool.PoolSpec.
Import ListNotations.
Local Open Scope N_scope.
Ltac Zify.zify_post_hook ::= Z.div_mod_to_equations.

(* ------------------------------------------------------------------------------------------------ *)
(** * Exhaustive checks over bytes *)
Definition all_bytes : list N := map N.of_nat (seq 0 256).
Lemma in_all_bytes x : x < 256 -> In x all_bytes.
Proof.
  intros H. unfold all_bytes. apply in_map_iff. exists (N.to_nat x). split; [apply N2Nat.id|].
  apply in_seq. lia.
Qed.
Lemma forall_byte (P : N -> bool) : forallb P all_bytes = true -> forall x, x < 256 -> P x = true.
Proof. intros H x Hx. rewrite forallb_forall in H. apply H. apply in_all_bytes. exact Hx. Qed.
Lemma forall_byte2 (P : N -> N -> bool) :
  forallb (fun a => forallb (P a) all_bytes) all_bytes = true -> forall a b, a < 256 -> b < 256 -> P a b = true.
Proof.
  intros H a b Ha Hb. rewrite forallb_forall in H. specialize (H a (in_all_bytes a Ha)).
  rewrite forallb_forall in H. apply H. apply in_all_bytes. exact Hb.
Qed.

Definition imp2 (fa fb : list bool) : bool := forallb (fun p => implb (snd p) (fst p)) (combine fa fb).
Definition or2 (fa fb : list bool) : list bool := map (fun p => orb (fst p) (snd p)) (combine fa fb).

Lemma bit_index_log2 x : x < 256 -> bit_index x = N.log2 x.
Proof.
  intros H. apply N.eqb_eq. revert x H. apply forall_byte. vm_compute. reflexivity.
Qed.
Lemma log2_byte_lt x : x < 256 -> N.log2 x < 8.
Proof.
  intros H. apply N.ltb_lt. revert x H. apply forall_byte. vm_compute. reflexivity.
Qed.
Lemma last_count_byte l : l < 256 ->
  (if l =? 0 then 0 else popcount8 (N.lxor l (N.shiftl 1 (bit_index l)))) = count_true (byte_bits l (N.to_nat (N.log2 l))).
Proof.
  intros H. apply N.eqb_eq. revert l H. apply forall_byte. vm_compute. reflexivity.
Qed.
Lemma ldiff_byte a b : a < 256 -> b < 256 -> (N.ldiff b a =? 0) = imp2 (byte_bits a 8) (byte_bits b 8).
Proof.
  intros Ha Hb. apply eqb_true_iff. revert a b Ha Hb. apply forall_byte2. vm_compute. reflexivity.
Qed.
Lemma ldiff_last_byte a b : a < 256 -> b < 256 -> a <> 0 -> b <> 0 -> N.log2 a = N.log2 b ->
  (N.ldiff b a =? 0) = imp2 (byte_bits a (N.to_nat (N.log2 a))) (byte_bits b (N.to_nat (N.log2 a))).
Proof.
  intros Ha Hb Ha0 Hb0 Hl.
  assert (H : (if (a =? 0) || (b =? 0) || negb (N.log2 a =? N.log2 b) then true
               else Bool.eqb (N.ldiff b a =? 0) (imp2 (byte_bits a (N.to_nat (N.log2 a))) (byte_bits b (N.to_nat (N.log2 a))))) = true).
  { revert a b Ha Hb Ha0 Hb0 Hl. intros a b Ha Hb _ _ _. revert a b Ha Hb. apply forall_byte2. vm_compute. reflexivity. }
  apply N.eqb_neq in Ha0, Hb0. apply N.eqb_eq in Hl. rewrite Ha0, Hb0, Hl in H. simpl in H.
  apply eqb_true_iff. exact H.
Qed.
Lemma lor_byte a b : a < 256 -> b < 256 -> N.lor a b < 256.
Proof.
  intros Ha Hb. apply N.ltb_lt. revert a b Ha Hb. apply forall_byte2. vm_compute. reflexivity.
Qed.

(* ------------------------------------------------------------------------------------------------ *)
(** * Generic facts *)
Lemma byte_bits_length x n : length (byte_bits x n) = n.
Proof. unfold byte_bits. rewrite map_length, seq_length. reflexivity. Qed.
Lemma byte_bits_nth x n i : (i < n)%nat -> nth i (byte_bits x n) false = N.testbit x (N.of_nat i).
Proof.
  intros H. unfold byte_bits.
  rewrite (nth_indep _ false (N.testbit x (N.of_nat 0))) by (rewrite map_length, seq_length; exact H).
  rewrite (map_nth (fun i => N.testbit x (N.of_nat i))). rewrite seq_nth by exact H. reflexivity.
Qed.
Lemma byte_bits_lor a b n : byte_bits (N.lor a b) n = or2 (byte_bits a n) (byte_bits b n).
Proof.
  unfold byte_bits, or2. induction (seq 0 n) as [|i l IH]; simpl; [reflexivity|].
  rewrite N.lor_spec, IH. reflexivity.
Qed.
Lemma count_true_app a b : count_true (a ++ b) = count_true a + count_true b.
Proof. unfold count_true. rewrite filter_app, app_length. lia. Qed.

Lemma combine_app' {A B} (a a' : list A) (b b' : list B) :
  length a = length b -> combine (a ++ a') (b ++ b') = combine a b ++ combine a' b'.
Proof.
  revert b. induction a as [|x a IH]; intros [|y b] H; simpl in *; try discriminate; [reflexivity|].
  rewrite IH by lia. reflexivity.
Qed.
Lemma forallb_map' {A B} (f : B -> bool) (g : A -> B) l : forallb f (map g l) = forallb (fun x => f (g x)) l.
Proof. induction l as [|x l IH]; simpl; [reflexivity | rewrite IH; reflexivity]. Qed.

Lemma imp2_app a a' b b' : length a = length b -> imp2 (a ++ a') (b ++ b') = imp2 a b && imp2 a' b'.
Proof.
  intros H. unfold imp2. rewrite combine_app' by exact H. apply forallb_app.
Qed.
Lemma or2_app a a' b b' : length a = length b -> or2 (a ++ a') (b ++ b') = or2 a b ++ or2 a' b'.
Proof. intros H. unfold or2. rewrite combine_app' by exact H. apply map_app. Qed.
Lemma or2_length a b : length a = length b -> length (or2 a b) = length a.
Proof. intros H. unfold or2. rewrite map_length, combine_length. lia. Qed.
Lemma or2_nth a b i : length a = length b -> nth i (or2 a b) false = nth i a false || nth i b false.
Proof.
  revert b i. induction a as [|x a IH]; intros [|y b] i H; simpl in *; try discriminate.
  - destruct i; reflexivity.
  - destruct i; [reflexivity|]. apply IH. lia.
Qed.
Lemma imp2_nth a b : length a = length b ->
  imp2 a b = forallb (fun i => implb (nth i b false) (nth i a false)) (seq 0 (length b)).
Proof.
  revert b. induction a as [|x a IH]; intros [|y b] H; simpl in *; try discriminate; [reflexivity|].
  unfold imp2 in *. simpl. f_equal. rewrite IH by lia.
  rewrite <- seq_shift. rewrite forallb_map'. reflexivity.
Qed.

(* ------------------------------------------------------------------------------------------------ *)
(** * decode, byte by byte *)
Definition bytes_ok (bs : bytes) : Prop := Forall (fun x => x < 256) bs.

Lemma decode_one l : decode [l] = byte_bits l (N.to_nat (N.log2 l)).
Proof. reflexivity. Qed.
Lemma decode_cons2 x y r : decode (x :: y :: r) = byte_bits x 8 ++ decode (y :: r).
Proof. unfold decode. cbn [removelast last flat_map]. rewrite <- app_assoc. reflexivity. Qed.

Lemma wf_bits_iff bs : wf_bits bs <-> bs <> [] /\ last bs 0 <> 0 /\ bytes_ok bs.
Proof.
  unfold wf_bits, wf_bitsb, bytes_ok. destruct bs as [|x r]; [split; [discriminate | intros [H _]; congruence]|].
  rewrite andb_true_iff, negb_true_iff, N.eqb_neq, forallb_forall, Forall_forall. split.
  - intros [H1 H2]. repeat split; [discriminate | exact H1 | intros y Hy; apply N.ltb_lt; apply H2; exact Hy].
  - intros [_ [H1 H2]]. split; [exact H1 | intros y Hy; apply N.ltb_lt; apply H2; exact Hy].
Qed.
Lemma wf_bits_cons2 x y r : wf_bits (x :: y :: r) <-> x < 256 /\ wf_bits (y :: r).
Proof.
  rewrite !wf_bits_iff. unfold bytes_ok. cbn [last]. split.
  - intros [_ [H1 H2]]. inversion H2; subst. repeat split; [assumption | discriminate | exact H1 | assumption].
  - intros [Hx [_ [H1 H2]]]. repeat split; [discriminate | exact H1 | constructor; assumption].
Qed.
Lemma wf_bits_one l : wf_bits [l] <-> l <> 0 /\ l < 256.
Proof.
  rewrite wf_bits_iff. unfold bytes_ok. cbn [last]. split.
  - intros [_ [H1 H2]]. inversion H2; subst. tauto.
  - intros [H1 H2]. repeat split; [discriminate | exact H1 | constructor; [exact H2 | constructor]].
Qed.

(* induction principle on non-empty byte lists *)
Lemma bytes_ind2 (P : bytes -> Prop) :
  (forall l, P [l]) -> (forall x y r, P (y :: r) -> P (x :: y :: r)) -> forall bs, bs <> [] -> P bs.
Proof.
  intros H1 H2. induction bs as [|x bs IH]; [congruence|]. intros _.
  destruct bs as [|y r]; [apply H1 | apply H2; apply IH; discriminate].
Qed.

Lemma decode_length_bound bs : bytes_ok bs -> (length (decode bs) < 8 * length bs)%nat \/ bs = [].
Proof.
  destruct bs as [|x0 r0]; [right; reflexivity|]. intros H. left. revert H.
  apply (bytes_ind2 (fun bs => bytes_ok bs -> (length (decode bs) < 8 * length bs)%nat)); [| |discriminate].
  - intros l H. inversion H; subst. rewrite decode_one, byte_bits_length. pose proof (log2_byte_lt l H2). simpl. lia.
  - intros x y r IH H. inversion H; subst. rewrite decode_cons2, app_length, byte_bits_length.
    specialize (IH H3). simpl in *. lia.
Qed.

(* BitLen *)
Lemma lor_shl3 x y : y < 8 -> N.lor (N.shiftl x 3) y = 8 * x + y.
Proof.
  intros Hy. rewrite <- N.lxor_lor.
  - rewrite <- N.add_nocarry_lxor.
    + rewrite N.shiftl_mul_pow2. change (2 ^ 3) with 8. lia.
    + apply N.bits_inj. intros n. rewrite N.land_spec, N.bits_0.
      destruct (N.ltb_spec n 3) as [Hn|Hn].
      * rewrite N.shiftl_spec_low by exact Hn. reflexivity.
      * rewrite (N.bits_above_log2 y n); [apply andb_false_r|].
        destruct (N.eq_dec y 0) as [->|Hy0]; [simpl; lia|].
        apply N.log2_lt_pow2; [lia|]. apply N.lt_le_trans with (2 ^ 3); [exact Hy|]. apply N.pow_le_mono_r; lia.
  - apply N.bits_inj. intros n. rewrite N.land_spec, N.bits_0.
    destruct (N.ltb_spec n 3) as [Hn|Hn].
    + rewrite N.shiftl_spec_low by exact Hn. reflexivity.
    + rewrite (N.bits_above_log2 y n); [apply andb_false_r|].
      destruct (N.eq_dec y 0) as [->|Hy0]; [simpl; lia|].
      apply N.log2_lt_pow2; [lia|]. apply N.lt_le_trans with (2 ^ 3); [exact Hy|]. apply N.pow_le_mono_r; lia.
Qed.
Lemma decode_length_snoc bs : bs <> [] ->
  length (decode bs) = (8 * (length bs - 1) + N.to_nat (N.log2 (last bs 0%N)))%nat.
Proof.
  apply (bytes_ind2 (fun bs => length (decode bs) = (8 * (length bs - 1) + N.to_nat (N.log2 (last bs 0%N)))%nat)).
  - intros l. rewrite decode_one, byte_bits_length. simpl. lia.
  - intros x y r IH. rewrite decode_cons2, app_length, byte_bits_length, IH. cbn [last length]. lia.
Qed.
Lemma bitlist_len_decode bs : bytes_ok bs -> bitlist_len bs = N.of_nat (length (decode bs)).
Proof.
  intros H. destruct bs as [|x r]; [reflexivity|].
  rewrite decode_length_snoc by discriminate. unfold bitlist_len.
  assert (Hl : last (x :: r) 0 < 256).
  { destruct (@exists_last _ (x :: r)) as [pre [l E]]; [discriminate|]. rewrite E, last_last.
    unfold bytes_ok in H. rewrite E in H. apply Forall_app in H. destruct H as [_ H]. inversion H. assumption. }
  rewrite bit_index_log2 by exact Hl. rewrite lor_shl3 by (apply log2_byte_lt; exact Hl).
  cbn [length]. lia.
Qed.

(* GetBit *)
Lemma get_bit_cons_low x r i : i < 8 -> get_bit (x :: r) i = Ok (N.testbit x i).
Proof.
  intros H. unfold get_bit.
  assert (E : N.shiftr i 3 = 0).
  { rewrite N.shiftr_div_pow2. change (2 ^ 3) with 8. apply N.div_small. exact H. }
  rewrite E. simpl. f_equal.
  assert (E7 : N.land i 7 = i).
  { change 7 with (N.ones 3). rewrite N.land_ones. change (2 ^ 3) with 8. apply N.mod_small. exact H. }
  rewrite E7. rewrite N.testbit_odd.
  change 1 with (N.ones 1) at 1. rewrite N.land_ones. change (2 ^ 1) with 2.
  rewrite <- N.bit0_mod, N.bit0_odd. destruct (N.odd (N.shiftr x i)); reflexivity.
Qed.
Lemma get_bit_cons_high x r i : 8 <= i -> get_bit (x :: r) i = get_bit r (i - 8).
Proof.
  intros H. unfold get_bit.
  assert (E : N.shiftr i 3 = N.succ (N.shiftr (i - 8) 3)).
  { rewrite !N.shiftr_div_pow2. change (2 ^ 3) with 8. lia. }
  assert (E7 : N.land i 7 = N.land (i - 8) 7).
  { change 7 with (N.ones 3). rewrite !N.land_ones. change (2 ^ 3) with 8. lia. }
  rewrite E, E7, N2Nat.inj_succ. reflexivity.
Qed.
Lemma get_bit_flag bs i : bytes_ok bs -> (i < length (decode bs))%nat -> get_bit bs (N.of_nat i) = Ok (flag bs i).
Proof.
  destruct bs as [|x0 r0]; [simpl; lia|]. revert i.
  apply (bytes_ind2 (fun bs => forall i, bytes_ok bs -> (i < length (decode bs))%nat -> get_bit bs (N.of_nat i) = Ok (flag bs i))); [| |discriminate].
  - intros l i Hok H. inversion Hok; subst. unfold flag. rewrite decode_one in *. rewrite byte_bits_length in H.
    pose proof (log2_byte_lt l H2).
    rewrite get_bit_cons_low by lia. rewrite byte_bits_nth by exact H. reflexivity.
  - intros x y r IH i Hok H. inversion Hok; subst. unfold flag. rewrite decode_cons2 in *. rewrite app_length, byte_bits_length in H.
    destruct (Nat.ltb_spec i 8) as [H8|H8].
    + rewrite get_bit_cons_low by lia. rewrite app_nth1 by (rewrite byte_bits_length; exact H8).
      rewrite byte_bits_nth by exact H8. reflexivity.
    + rewrite get_bit_cons_high by lia. rewrite app_nth2 by (rewrite byte_bits_length; exact H8).
      rewrite byte_bits_length. replace (N.of_nat i - 8) with (N.of_nat (i - 8)) by lia.
      apply IH; [assumption | lia].
Qed.

(* no index panic below BitLen, for arbitrary (even malformed) byte lists *)
Lemma bit_index_lt8 v : bit_index v < 8.
Proof.
  unfold bit_index.
  destruct (negb (N.land v 240 =? 0)); destruct (negb (N.land _ 12 =? 0)); destruct (negb (N.land _ 2 =? 0)); vm_compute; reflexivity.
Qed.
Lemma bitlist_len_bound bs : bs <> [] -> bitlist_len bs < 8 * N.of_nat (length bs).
Proof.
  intros H. destruct bs as [|x r]; [congruence|]. unfold bitlist_len.
  rewrite lor_shl3 by apply bit_index_lt8. pose proof (bit_index_lt8 (last (x :: r) 0)). cbn [length]. lia.
Qed.
Lemma get_bit_in_range bs i : i < bitlist_len bs -> exists b, get_bit bs i = Ok b.
Proof.
  intros H. assert (Hne : bs <> []) by (intros ->; simpl in H; lia).
  pose proof (bitlist_len_bound bs Hne) as Hb. unfold get_bit.
  destruct (nth_error bs (N.to_nat (N.shiftr i 3))) eqn:E; [eexists; reflexivity|].
  apply nth_error_None in E. rewrite N.shiftr_div_pow2 in E. change (2 ^ 3) with 8 in E. lia.
Qed.

(* OnesCount *)
Lemma ones_count_cons2 x y r : ones_count (x :: y :: r) = popcount8 x + ones_count (y :: r).
Proof.
  unfold ones_count. cbv iota beta.
  change (removelast (x :: y :: r)) with (x :: removelast (y :: r)).
  change (last (x :: y :: r) 0) with (last (y :: r) 0).
  cbn [sum_pop]. destruct (last (y :: r) 0 =? 0); lia.
Qed.
Lemma ones_count_decode bs : bytes_ok bs -> ones_count bs = count_true (decode bs).
Proof.
  destruct bs as [|x0 r0]; [reflexivity|].
  apply (bytes_ind2 (fun bs => bytes_ok bs -> ones_count bs = count_true (decode bs))); [| |discriminate].
  - intros l H. inversion H; subst. rewrite decode_one, <- last_count_byte by assumption.
    unfold ones_count. cbn [removelast last sum_pop]. destruct (l =? 0); lia.
  - intros x y r IH H. inversion H; subst. rewrite ones_count_cons2, decode_cons2, count_true_app, IH by assumption.
    reflexivity.
Qed.

(* Covers *)
Lemma covers_loop_decode : forall a b, length a = length b -> a <> [] -> bytes_ok a -> bytes_ok b ->
  last a 0 <> 0 -> last b 0 <> 0 -> N.log2 (last a 0) = N.log2 (last b 0) ->
  covers_loop a b = imp2 (decode a) (decode b).
Proof.
  intros a b Hlen Hne. revert b Hlen.
  apply (bytes_ind2 (fun a => forall b, length a = length b -> bytes_ok a -> bytes_ok b ->
    last a 0 <> 0 -> last b 0 <> 0 -> N.log2 (last a 0) = N.log2 (last b 0) -> covers_loop a b = imp2 (decode a) (decode b))); [| |exact Hne].
  - intros la [|lb [|? ?]] Hlen Ha Hb Ha0 Hb0 Hl; simpl in Hlen; try discriminate.
    inversion Ha; inversion Hb; subst. cbn [last] in *. rewrite !decode_one. cbn [covers_loop].
    rewrite <- Hl. rewrite <- ldiff_last_byte by assumption. destruct (N.ldiff lb la =? 0); reflexivity.
  - intros x y r IH [|x' [|y' r']] Hlen Ha Hb Ha0 Hb0 Hl; simpl in Hlen; try discriminate.
    inversion Ha; inversion Hb; subst. rewrite !decode_cons2. rewrite imp2_app by (rewrite !byte_bits_length; reflexivity).
    cbn [covers_loop]. rewrite <- ldiff_byte by assumption.
    rewrite <- (IH (y' :: r')); [destruct (N.ldiff x' x =? 0); reflexivity | simpl in *; lia | assumption | assumption | exact Ha0 | exact Hb0 | exact Hl].
Qed.

(* two valid bit lists of the same bit length have the same byte length and the same delimiter position *)
Lemma same_bitlen_shape a b : wf_bits a -> wf_bits b -> length (decode a) = length (decode b) ->
  length a = length b /\ N.log2 (last a 0) = N.log2 (last b 0).
Proof.
  intros Ha Hb H. apply wf_bits_iff in Ha, Hb. destruct Ha as [Ha1 [Ha2 Ha3]], Hb as [Hb1 [Hb2 Hb3]].
  rewrite !decode_length_snoc in H by assumption.
  assert (La : last a 0 < 256).
  { rewrite (app_removelast_last 0 Ha1) in Ha3. apply Forall_app in Ha3. destruct Ha3 as [_ Ha3]. inversion Ha3. assumption. }
  assert (Lb : last b 0 < 256).
  { rewrite (app_removelast_last 0 Hb1) in Hb3. apply Forall_app in Hb3. destruct Hb3 as [_ Hb3]. inversion Hb3. assumption. }
  pose proof (log2_byte_lt _ La). pose proof (log2_byte_lt _ Lb).
  destruct a; [congruence|]. destruct b; [congruence|]. cbn [length] in *. lia.
Qed.

Lemma att_covers_decode a b : wf_bits a -> wf_bits b ->
  att_covers a b = if Nat.eqb (length (decode a)) (length (decode b)) then Ok (imp2 (decode a) (decode b)) else Err.
Proof.
  intros Ha Hb. unfold att_covers.
  pose proof (proj1 (wf_bits_iff a) Ha) as [Ha1 [Ha2 Ha3]]. pose proof (proj1 (wf_bits_iff b) Hb) as [Hb1 [Hb2 Hb3]].
  rewrite !bitlist_len_decode by assumption.
  destruct (Nat.eqb_spec (length (decode a)) (length (decode b))) as [E|E].
  - rewrite E, N.eqb_refl. destruct (same_bitlen_shape a b Ha Hb E) as [E1 E2].
    unfold bf_covers. rewrite E1, Nat.eqb_refl. f_equal. apply covers_loop_decode; assumption.
  - destruct (N.eqb_spec (N.of_nat (length (decode a))) (N.of_nat (length (decode b)))) as [E'|E']; [lia | reflexivity].
Qed.

(* Or *)
Lemma bits_or_cons x a y b : bits_or (x :: a) (y :: b) = bind (bits_or a b) (fun r => Ok (N.lor x y :: r)).
Proof. reflexivity. Qed.
Lemma bits_or_decode : forall a b, length a = length b -> a <> [] -> bytes_ok a -> bytes_ok b ->
  last a 0 <> 0 -> last b 0 <> 0 -> N.log2 (last a 0) = N.log2 (last b 0) ->
  exists c, bits_or a b = Ok c /\ length c = length a /\ bytes_ok c /\ last c 0 <> 0 /\
            N.log2 (last c 0) = N.log2 (last a 0) /\ decode c = or2 (decode a) (decode b).
Proof.
  intros a b Hlen Hne. revert b Hlen.
  apply (bytes_ind2 (fun a => forall b, length a = length b -> bytes_ok a -> bytes_ok b ->
    last a 0 <> 0 -> last b 0 <> 0 -> N.log2 (last a 0) = N.log2 (last b 0) ->
    exists c, bits_or a b = Ok c /\ length c = length a /\ bytes_ok c /\ last c 0 <> 0 /\
              N.log2 (last c 0) = N.log2 (last a 0) /\ decode c = or2 (decode a) (decode b))); [| |exact Hne].
  - intros la [|lb [|? ?]] Hlen Ha Hb Ha0 Hb0 Hl; simpl in Hlen; try discriminate.
    inversion Ha; inversion Hb; subst. cbn [last] in *. exists [N.lor la lb]. cbn [bits_or bind last length].
    repeat split.
    + constructor; [apply lor_byte; assumption | constructor].
    + intros E. apply N.lor_eq_0_iff in E. tauto.
    + rewrite N.log2_lor, <- Hl. apply N.max_id.
    + rewrite !decode_one. rewrite N.log2_lor, <- Hl, N.max_id. apply byte_bits_lor.
  - intros x y r IH [|x' [|y' r']] Hlen Ha Hb Ha0 Hb0 Hl; simpl in Hlen; try discriminate.
    inversion Ha; inversion Hb; subst.
    destruct (IH (y' :: r')) as [c [E [Hc1 [Hc2 [Hc3 [Hc4 Hc5]]]]]]; [simpl in *; lia | assumption | assumption | exact Ha0 | exact Hb0 | exact Hl |].
    exists (N.lor x x' :: c). rewrite bits_or_cons, E. cbn [bind].
    destruct c as [|c0 c']; [simpl in Hc1; discriminate|].
    repeat split.
    + simpl in *. lia.
    + constructor; [apply lor_byte; assumption | exact Hc2].
    + exact Hc3.
    + exact Hc4.
    + rewrite !decode_cons2. rewrite or2_app by (rewrite !byte_bits_length; reflexivity).
      rewrite <- Hc5, byte_bits_lor. reflexivity.
Qed.

Lemma bits_or_wf a b : wf_bits a -> wf_bits b -> length (decode a) = length (decode b) ->
  exists c, bits_or a b = Ok c /\ wf_bits c /\ decode c = or2 (decode a) (decode b).
Proof.
  intros Ha Hb E. destruct (same_bitlen_shape a b Ha Hb E) as [E1 E2].
  pose proof (proj1 (wf_bits_iff a) Ha) as [Ha1 [Ha2 Ha3]]. pose proof (proj1 (wf_bits_iff b) Hb) as [Hb1 [Hb2 Hb3]].
  destruct (bits_or_decode a b E1 Ha1 Ha3 Hb3 Ha2 Hb2 E2) as [c [H1 [H2 [H3 [H4 [H5 H6]]]]]].
  exists c. repeat split; [exact H1 | | exact H6].
  apply wf_bits_iff. repeat split; [intros ->; destruct a; [congruence | discriminate] | exact H4 | exact H3].
Qed.
(* Or never indexes out of range when the byte lengths agree *)
Lemma bits_or_no_panic : forall a b, length a = length b -> exists c, bits_or a b = Ok c.
Proof.
  induction a as [|x a IH]; intros [|y b] H; simpl in *; try discriminate; [eexists; reflexivity|].
  destruct (IH b) as [c E]; [lia|]. rewrite E. eexists. reflexivity.
Qed.
