(* C20 — proofs, part 4: the sync-committee pool.  The three slot buffers (with the uint64 wrap-around
   comparisons as written in Go) hold exactly the added items whose slot is cur-1 / cur / cur+1; Reset keeps
   exactly what is still inside the window; no map is ever nil. *)
From Coq Require Import NArith ZArith List Bool Lia.
From Coq Require Import ZifyN ZifyNat ZifyBool.
From V Require Import Base.U64 Base.Outcome Pool.PoolModel Pool.PoolSpec Pool.PoolMaps.
Import ListNotations.
Local Open Scope N_scope.
Ltac Zify.zify_post_hook ::= Z.div_mod_to_equations.

(* ------------------------------------------------------------------------------------------------ *)
(** * Slot arithmetic modulo 2^64 *)
Ltac u64 := unfold add64, sub64, wrap64, two64 in *.

Lemma sub64_lt a b : a < two64 -> b < two64 -> sub64 a b < two64.
Proof. intros. u64. destruct (N.leb_spec b a); lia. Qed.
Lemma add64_lt a b : add64 a b < two64.
Proof. u64. lia. Qed.
Lemma prev_next cur slot : cur < two64 -> slot < two64 -> (cur =? add64 slot 1) = (slot =? sub64 cur 1).
Proof.
  intros Hc Hs. destruct (N.eqb_spec cur (add64 slot 1)) as [E|E]; destruct (N.eqb_spec slot (sub64 cur 1)) as [E'|E']; try reflexivity; exfalso.
  - apply E'. u64. destruct (N.leb_spec 1 cur); lia.
  - apply E. u64. destruct (N.leb_spec 1 cur); lia.
Qed.
Lemma sync_pos_spec cur slot : cur < two64 -> slot < two64 ->
  sync_pos cur slot = if slot =? sub64 cur 1 then Some 0 else if slot =? cur then Some 1 else if slot =? add64 cur 1 then Some 2 else None.
Proof.
  intros Hc Hs. unfold sync_pos. rewrite prev_next by assumption.
  rewrite (N.eqb_sym cur slot), (N.eqb_sym (add64 cur 1) slot). reflexivity.
Qed.
Lemma window_slots_distinct cur : cur < two64 ->
  sub64 cur 1 <> cur /\ cur <> add64 cur 1 /\ sub64 cur 1 <> add64 cur 1.
Proof. intros Hc. u64. destruct (N.leb_spec 1 cur); lia. Qed.
Lemma sync_pos_window cur slot : cur < two64 -> slot < two64 ->
  in_window cur slot = match sync_pos cur slot with Some _ => true | None => false end.
Proof.
  intros Hc Hs. rewrite sync_pos_spec by assumption. unfold in_window.
  destruct (slot =? sub64 cur 1); [reflexivity|]. destruct (slot =? cur); [reflexivity|]. destruct (slot =? add64 cur 1); reflexivity.
Qed.
Lemma sync_pos_slot cur slot pos : cur < two64 -> slot < two64 -> sync_pos cur slot = Some pos ->
  slot = pos_slot cur pos /\ (pos = 0 \/ pos = 1 \/ pos = 2).
Proof.
  intros Hc Hs. rewrite sync_pos_spec by assumption. unfold pos_slot.
  destruct (N.eqb_spec slot (sub64 cur 1)); [intros H; inversion H; subst; simpl; tauto|].
  destruct (N.eqb_spec slot cur); [intros H; inversion H; subst; simpl; tauto|].
  destruct (N.eqb_spec slot (add64 cur 1)); [intros H; inversion H; subst; simpl; tauto | discriminate].
Qed.

(* ------------------------------------------------------------------------------------------------ *)
(** * Buffers *)
Definition msg_at (sl v : N) (m : smsg) : bool := (sm_slot m =? sl) && (sm_val m =? v).
Definition con_at (sl root sub : N) (c : scontrib) : bool := (sc_slot c =? sl) && (sc_root c =? root) && (sc_subnet c =? sub).
Definition lookup2 (m : list (N * list (N * list (bytes * N)))) (root sub : N) : list (bytes * N) :=
  match alookup N.eqb root m with
  | None => []
  | Some subs => match alookup N.eqb sub subs with Some l => l | None => [] end
  end.
Definition con_item (c : scontrib) : bytes * N := (sc_bits c, sc_sig c).

Definition msg_buf_ok (b : msgmap) (msgs : list smsg) (sl : N) : Prop :=
  exists m, b = Some m /\ forall v, alookup N.eqb v m = find (msg_at sl v) msgs.
Definition con_buf_ok (b : conmap) (cons : list scontrib) (sl : N) : Prop :=
  exists m, b = Some m /\ forall root sub, lookup2 m root sub = map con_item (filter (con_at sl root sub) cons).

Record Q (p : spool) (s : sspec) : Prop := mkQ {
  Q_cur : s_cur p = ss_cur s;
  Q_lt : ss_cur s < two64;
  Q_pm : msg_buf_ok (s_pm p) (ss_msgs s) (sub64 (ss_cur s) 1);
  Q_cm : msg_buf_ok (s_cm p) (ss_msgs s) (ss_cur s);
  Q_nm : msg_buf_ok (s_nm p) (ss_msgs s) (add64 (ss_cur s) 1);
  Q_pc : con_buf_ok (s_pc p) (ss_cons s) (sub64 (ss_cur s) 1);
  Q_cc : con_buf_ok (s_cc p) (ss_cons s) (ss_cur s);
  Q_nc : con_buf_ok (s_nc p) (ss_cons s) (add64 (ss_cur s) 1);
  Q_mwin : forall m, In m (ss_msgs s) -> in_window (ss_cur s) (sm_slot m) = true /\ sm_slot m < two64;
  Q_cwin : forall c, In c (ss_cons s) -> in_window (ss_cur s) (sc_slot c) = true /\ sc_slot c < two64;
  Q_uniq : NoDup (map (fun m => (sm_slot m, sm_val m)) (ss_msgs s))
}.

Lemma msg_buf_empty sl : msg_buf_ok (Some []) [] sl.
Proof. exists []. split; [reflexivity | intros v; reflexivity]. Qed.
Lemma con_buf_empty sl : con_buf_ok (Some []) [] sl.
Proof. exists []. split; [reflexivity | intros r sb; reflexivity]. Qed.
Lemma Q_init : Q sp_init ss_init.
Proof.
  constructor; simpl; try reflexivity; try apply msg_buf_empty; try apply con_buf_empty; try (intros ? []); constructor.
Qed.

Lemma get_msg_ok p s pos : Q p s -> pos = 0 \/ pos = 1 \/ pos = 2 -> msg_buf_ok (get_msg p pos) (ss_msgs s) (pos_slot (ss_cur s) pos).
Proof. intros HQ [-> | [-> | ->]]; unfold get_msg, pos_slot; simpl; apply HQ. Qed.
Lemma get_con_ok p s pos : Q p s -> pos = 0 \/ pos = 1 \/ pos = 2 -> con_buf_ok (get_con p pos) (ss_cons s) (pos_slot (ss_cur s) pos).
Proof. intros HQ [-> | [-> | ->]]; unfold get_con, pos_slot; simpl; apply HQ. Qed.

(* find / filter helpers *)
Lemma find_app {A} (f : A -> bool) l1 l2 : find f (l1 ++ l2) = match find f l1 with Some x => Some x | None => find f l2 end.
Proof. induction l1 as [|x l1 IH]; simpl; [reflexivity|]. destruct (f x); [reflexivity | exact IH]. Qed.
Lemma find_filter_imp {A} (f g : A -> bool) l : (forall x, f x = true -> g x = true) -> find f (filter g l) = find f l.
Proof.
  intros H. induction l as [|x l IH]; simpl; [reflexivity|].
  destruct (g x) eqn:Eg; simpl.
  - destruct (f x); [reflexivity | exact IH].
  - destruct (f x) eqn:Ef; [rewrite (H x Ef) in Eg; discriminate | exact IH].
Qed.
Lemma find_none_all {A} (f : A -> bool) l : (forall x, In x l -> f x = false) -> find f l = None.
Proof.
  induction l as [|x l IH]; simpl; intros H; [reflexivity|].
  rewrite (H x) by (left; reflexivity). apply IH. intros y Hy. apply H. right. exact Hy.
Qed.
Lemma filter_none_all {A} (f : A -> bool) l : (forall x, In x l -> f x = false) -> filter f l = [].
Proof.
  induction l as [|x l IH]; simpl; intros H; [reflexivity|].
  rewrite (H x) by (left; reflexivity). apply IH. intros y Hy. apply H. right. exact Hy.
Qed.
Lemma filter_filter_imp {A} (f g : A -> bool) l : (forall x, f x = true -> g x = true) -> filter f (filter g l) = filter f l.
Proof.
  intros H. induction l as [|x l IH]; simpl; [reflexivity|].
  destruct (g x) eqn:Eg; simpl.
  - destruct (f x); [rewrite IH; reflexivity | exact IH].
  - destruct (f x) eqn:Ef; [rewrite (H x Ef) in Eg; discriminate | exact IH].
Qed.

(* ------------------------------------------------------------------------------------------------ *)
(** * AddSyncCommitteeMessage *)
Lemma set_get_msg_other p pos pos' b : pos <> pos' -> (pos = 0 \/ pos = 1 \/ pos = 2) -> (pos' = 0 \/ pos' = 1 \/ pos' = 2) ->
  get_msg (set_msg p pos b) pos' = get_msg p pos'.
Proof. intros Hne [-> | [-> | ->]] [-> | [-> | ->]]; try congruence; reflexivity. Qed.
Lemma set_get_msg_same p pos b : get_msg (set_msg p pos b) pos = b.
Proof. unfold get_msg, set_msg. destruct (pos =? 0); [reflexivity|]. destruct (pos =? 1); reflexivity. Qed.

Lemma pos_slot_inj cur pos pos' : cur < two64 -> (pos = 0 \/ pos = 1 \/ pos = 2) -> (pos' = 0 \/ pos' = 1 \/ pos' = 2) ->
  pos_slot cur pos = pos_slot cur pos' -> pos = pos'.
Proof.
  intros Hc H H' E. destruct (window_slots_distinct cur Hc) as [D1 [D2 D3]].
  destruct H as [-> | [-> | ->]], H' as [-> | [-> | ->]]; unfold pos_slot in E; simpl in E; congruence.
Qed.

Lemma Q_add_msg p s m : Q p s -> sm_slot m < two64 ->
  exists p', add_msg p m = Ok (p', snd (ss_add_msg s m)) /\ Q p' (fst (ss_add_msg s m)).
Proof.
  intros HQ Hs. pose proof (Q_lt _ _ HQ) as Hc.
  unfold add_msg, ss_add_msg. rewrite (Q_cur _ _ HQ). rewrite sync_pos_window by assumption.
  destruct (sync_pos (ss_cur s) (sm_slot m)) as [pos|] eqn:Ep; [|exists p; split; [reflexivity | exact HQ]].
  destruct (sync_pos_slot _ _ _ Hc Hs Ep) as [Esl Hpos].
  destruct (get_msg_ok p s pos HQ Hpos) as [mm [Eb Hb]]. rewrite Eb. cbn [fst snd].
  eexists. split; [reflexivity|].
  set (keep := fun m' => negb ((sm_slot m' =? sm_slot m) && (sm_val m' =? sm_val m))).
  assert (Hfind : forall sl v, find (msg_at sl v) (filter keep (ss_msgs s) ++ [m]) =
                  if (sl =? sm_slot m) && (v =? sm_val m) then Some m else find (msg_at sl v) (ss_msgs s)).
  { intros sl v. rewrite find_app. cbn [find].
    assert (Em : msg_at sl v m = (sl =? sm_slot m) && (v =? sm_val m)) by (unfold msg_at; rewrite (N.eqb_sym sl), (N.eqb_sym v); reflexivity).
    rewrite Em.
    destruct ((sl =? sm_slot m) && (v =? sm_val m)) eqn:E.
    - apply andb_true_iff in E. destruct E as [E1 E2]. apply N.eqb_eq in E1, E2. subst sl v.
      rewrite find_none_all; [reflexivity|]. intros x Hx. apply filter_In in Hx. destruct Hx as [_ Hk].
      unfold keep in Hk. unfold msg_at. destruct ((sm_slot x =? sm_slot m) && (sm_val x =? sm_val m)); [discriminate | reflexivity].
    - rewrite find_filter_imp; [destruct (find (msg_at sl v) (ss_msgs s)); reflexivity|].
      intros x Hx. unfold msg_at in Hx. unfold keep. apply andb_true_iff in Hx. destruct Hx as [H1 H2]. apply N.eqb_eq in H1, H2.
      rewrite H1, H2, E. reflexivity. }
  assert (Hbuf : forall pos', (pos' = 0 \/ pos' = 1 \/ pos' = 2) ->
                 msg_buf_ok (get_msg (set_msg p pos (Some (ainsert N.eqb (sm_val m) m mm))) pos')
                            (filter keep (ss_msgs s) ++ [m]) (pos_slot (ss_cur s) pos')).
  { intros pos' Hpos'. destruct (N.eq_dec pos pos') as [<-|Hne].
    - rewrite set_get_msg_same. eexists. split; [reflexivity|]. intros v.
      rewrite (alookup_ainsert N.eqb Neqb_spec), Hfind.
      replace (pos_slot (ss_cur s) pos =? sm_slot m) with true by (symmetry; apply N.eqb_eq; congruence). cbn [andb].
      destruct (v =? sm_val m); [reflexivity | apply Hb].
    - rewrite set_get_msg_other by assumption. destruct (get_msg_ok p s pos' HQ Hpos') as [m2 [Eb2 Hb2]].
      exists m2. split; [exact Eb2|]. intros v. rewrite Hfind, Hb2.
      destruct (N.eqb_spec (pos_slot (ss_cur s) pos') (sm_slot m)) as [E|E]; [|reflexivity].
      exfalso. apply Hne. symmetry. apply (pos_slot_inj (ss_cur s)); try assumption. congruence. }
  assert (Hcon : forall pos', get_con (set_msg p pos (Some (ainsert N.eqb (sm_val m) m mm))) pos' = get_con p pos').
  { intros pos'. destruct Hpos as [-> | [-> | ->]]; reflexivity. }
  constructor; cbn [ss_cur ss_msgs ss_cons].
  - destruct Hpos as [-> | [-> | ->]]; simpl; apply HQ.
  - exact Hc.
  - apply (Hbuf 0). tauto.
  - apply (Hbuf 1). tauto.
  - apply (Hbuf 2). tauto.
  - change (s_pc (set_msg p pos (Some (ainsert N.eqb (sm_val m) m mm)))) with (get_con (set_msg p pos (Some (ainsert N.eqb (sm_val m) m mm))) 0). rewrite Hcon. apply HQ.
  - change (s_cc (set_msg p pos (Some (ainsert N.eqb (sm_val m) m mm)))) with (get_con (set_msg p pos (Some (ainsert N.eqb (sm_val m) m mm))) 1). rewrite Hcon. apply HQ.
  - change (s_nc (set_msg p pos (Some (ainsert N.eqb (sm_val m) m mm)))) with (get_con (set_msg p pos (Some (ainsert N.eqb (sm_val m) m mm))) 2). rewrite Hcon. apply HQ.
  - intros x Hx. apply in_app_or in Hx. destruct Hx as [Hx|[<-|[]]].
    + apply filter_In in Hx. apply (Q_mwin _ _ HQ). tauto.
    + split; [|exact Hs]. rewrite sync_pos_window by assumption. rewrite Ep. reflexivity.
  - apply (Q_cwin _ _ HQ).
  - rewrite map_app. simpl.
    assert (Hnd : NoDup (map (fun m0 => (sm_slot m0, sm_val m0)) (filter keep (ss_msgs s)))).
    { pose proof (Q_uniq _ _ HQ) as Hu. clear -Hu. induction (ss_msgs s) as [|x l IH]; simpl; [constructor|].
      inversion Hu as [|? ? Hn Hd]; subst. destruct (keep x); simpl; [|apply IH; exact Hd].
      constructor; [|apply IH; exact Hd]. intros Hin. apply Hn. apply in_map_iff in Hin. destruct Hin as [y [E Hy]].
      apply filter_In in Hy. apply in_map_iff. exists y. tauto. }
    apply NoDup_rev in Hnd. rewrite <- (rev_involutive (_ ++ _)). apply NoDup_rev. rewrite rev_app_distr. simpl.
    constructor; [|exact Hnd]. rewrite <- in_rev. intros Hin. apply in_map_iff in Hin. destruct Hin as [y [E Hy]].
    apply filter_In in Hy. destruct Hy as [_ Hk]. unfold keep in Hk. inversion E as [[E1 E2]]. rewrite E1, E2, !N.eqb_refl in Hk. discriminate.
Qed.

(* ------------------------------------------------------------------------------------------------ *)
(** * AddSyncCommitteeContribution *)
Lemma set_get_con_other p pos pos' b : pos <> pos' -> (pos = 0 \/ pos = 1 \/ pos = 2) -> (pos' = 0 \/ pos' = 1 \/ pos' = 2) ->
  get_con (set_con p pos b) pos' = get_con p pos'.
Proof. intros Hne [-> | [-> | ->]] [-> | [-> | ->]]; try congruence; reflexivity. Qed.
Lemma set_get_con_same p pos b : get_con (set_con p pos b) pos = b.
Proof. unfold get_con, set_con. destruct (pos =? 0); [reflexivity|]. destruct (pos =? 1); reflexivity. Qed.

Lemma lookup2_insert m root sub l r' s' :
  lookup2 (ainsert N.eqb root (ainsert N.eqb sub l (match alookup N.eqb root m with Some subs => subs | None => [] end)) m) r' s' =
  if (r' =? root) && (s' =? sub) then l else lookup2 m r' s'.
Proof.
  unfold lookup2. rewrite (alookup_ainsert N.eqb Neqb_spec).
  destruct (N.eqb_spec r' root) as [->|Hr]; cbn [andb]; [|reflexivity].
  rewrite (alookup_ainsert N.eqb Neqb_spec). destruct (s' =? sub); [reflexivity|].
  destruct (alookup N.eqb root m); reflexivity.
Qed.

Lemma Q_add_con p s c : Q p s -> sc_slot c < two64 ->
  exists p', add_contrib p c = Ok (p', snd (ss_add_con s c)) /\ Q p' (fst (ss_add_con s c)).
Proof.
  intros HQ Hs. pose proof (Q_lt _ _ HQ) as Hc.
  unfold add_contrib, ss_add_con. rewrite (Q_cur _ _ HQ). rewrite sync_pos_window by assumption.
  destruct (sync_pos (ss_cur s) (sc_slot c)) as [pos|] eqn:Ep; [|exists p; split; [reflexivity | exact HQ]].
  destruct (sync_pos_slot _ _ _ Hc Hs Ep) as [Esl Hpos].
  destruct (get_con_ok p s pos HQ Hpos) as [mm [Eb Hb]]. rewrite Eb. cbn [fst snd nlookup].
  set (old := match alookup N.eqb (sc_subnet c) (match alookup N.eqb (sc_root c) mm with Some subs => subs | None => [] end) with Some l => l | None => [] end).
  set (mm' := ainsert N.eqb (sc_root c) (ainsert N.eqb (sc_subnet c) (old ++ [con_item c])
                 (match alookup N.eqb (sc_root c) mm with Some subs => subs | None => [] end)) mm).
  assert (Eres : match alookup N.eqb (sc_root c) mm with
                 | Some subs => Ok (set_con p pos (Some (ainsert N.eqb (sc_root c) (ainsert N.eqb (sc_subnet c)
                      ((match alookup N.eqb (sc_subnet c) subs with Some l => l | None => [] end) ++ [(sc_bits c, sc_sig c)]) subs) mm)), true)
                 | None => Ok (set_con p pos (Some (ainsert N.eqb (sc_root c) [(sc_subnet c, [(sc_bits c, sc_sig c)])] mm)), true)
                 end = Ok (set_con p pos (Some mm'), true)).
  { unfold mm', old. destruct (alookup N.eqb (sc_root c) mm); reflexivity. }
  rewrite Eres. eexists. split; [reflexivity|].
  assert (Hold : old = map con_item (filter (con_at (sc_slot c) (sc_root c) (sc_subnet c)) (ss_cons s))).
  { rewrite Esl, <- Hb. unfold old, lookup2. destruct (alookup N.eqb (sc_root c) mm); reflexivity. }
  assert (Hbuf : forall pos', (pos' = 0 \/ pos' = 1 \/ pos' = 2) ->
                 con_buf_ok (get_con (set_con p pos (Some mm')) pos') (ss_cons s ++ [c]) (pos_slot (ss_cur s) pos')).
  { intros pos' Hpos'. destruct (N.eq_dec pos pos') as [<-|Hne].
    - rewrite set_get_con_same. eexists. split; [reflexivity|]. intros r' s'.
      unfold mm'. rewrite lookup2_insert, filter_app, map_app. cbn [filter]. unfold con_at at 2.
      rewrite <- Esl, N.eqb_refl. cbn [andb]. rewrite (N.eqb_sym (sc_root c)), (N.eqb_sym (sc_subnet c)).
      destruct ((r' =? sc_root c) && (s' =? sc_subnet c)) eqn:E.
      + apply andb_true_iff in E. destruct E as [E1 E2]. apply N.eqb_eq in E1, E2. subst r' s'. rewrite Hold. reflexivity.
      + change (map con_item []) with (@nil (bytes * N)). rewrite app_nil_r, Hb, Esl. reflexivity.
    - rewrite set_get_con_other by assumption. destruct (get_con_ok p s pos' HQ Hpos') as [m2 [Eb2 Hb2]].
      exists m2. split; [exact Eb2|]. intros r' s'. rewrite Hb2, filter_app. cbn [filter]. unfold con_at at 3.
      destruct (N.eqb_spec (sc_slot c) (pos_slot (ss_cur s) pos')) as [E|E]; [|cbn [andb]; rewrite app_nil_r; reflexivity].
      exfalso. apply Hne. apply (pos_slot_inj (ss_cur s)); try assumption. congruence. }
  assert (Hmsg : forall pos', get_msg (set_con p pos (Some mm')) pos' = get_msg p pos').
  { intros pos'. destruct Hpos as [-> | [-> | ->]]; reflexivity. }
  constructor; cbn [ss_cur ss_msgs ss_cons].
  - destruct Hpos as [-> | [-> | ->]]; simpl; apply HQ.
  - exact Hc.
  - change (s_pm (set_con p pos (Some mm'))) with (get_msg (set_con p pos (Some mm')) 0). rewrite Hmsg. apply HQ.
  - change (s_cm (set_con p pos (Some mm'))) with (get_msg (set_con p pos (Some mm')) 1). rewrite Hmsg. apply HQ.
  - change (s_nm (set_con p pos (Some mm'))) with (get_msg (set_con p pos (Some mm')) 2). rewrite Hmsg. apply HQ.
  - apply (Hbuf 0). tauto.
  - apply (Hbuf 1). tauto.
  - apply (Hbuf 2). tauto.
  - apply (Q_mwin _ _ HQ).
  - intros x Hx. apply in_app_or in Hx. destruct Hx as [Hx|[<-|[]]]; [apply (Q_cwin _ _ HQ); exact Hx|].
    split; [|exact Hs]. rewrite sync_pos_window by assumption. rewrite Ep. reflexivity.
  - apply (Q_uniq _ _ HQ).
Qed.

(* ------------------------------------------------------------------------------------------------ *)
(** * Reset *)
Lemma in_window_iff cur x : in_window cur x = true <-> x = sub64 cur 1 \/ x = cur \/ x = add64 cur 1.
Proof. unfold in_window. rewrite !orb_true_iff, !N.eqb_eq. tauto. Qed.

Lemma add64_1 a : a < two64 -> add64 a 1 = if a =? max64 then 0 else a + 1.
Proof. intros H. unfold max64. destruct (N.eqb_spec a 18446744073709551615); u64; lia. Qed.
Lemma add64_2 a : a < two64 -> add64 a 2 = if a =? max64 then 1 else if a =? max64 - 1 then 0 else a + 2.
Proof.
  intros H. unfold max64. destruct (N.eqb_spec a 18446744073709551615); [u64; lia|].
  destruct (N.eqb_spec a (18446744073709551615 - 1)); u64; lia.
Qed.
Lemma sub64_1 a : sub64 a 1 = if a =? 0 then max64 else a - 1.
Proof. unfold max64. destruct (N.eqb_spec a 0); u64; destruct (N.leb_spec 1 a); lia. Qed.

(* slot arithmetic by cases on the wrap-around points, then linear arithmetic *)
Ltac arith :=
  repeat match goal with
         | H : context [add64 ?a 1] |- _ => rewrite (add64_1 a) in H by assumption
         | H : context [add64 ?a 2] |- _ => rewrite (add64_2 a) in H by assumption
         | H : context [sub64 ?a 1] |- _ => rewrite (sub64_1 a) in H
         | |- context [add64 ?a 1] => rewrite (add64_1 a) by assumption
         | |- context [add64 ?a 2] => rewrite (add64_2 a) by assumption
         | |- context [sub64 ?a 1] => rewrite (sub64_1 a)
         end;
  unfold max64, two64 in *;
  repeat match goal with
         | |- context [N.eqb ?a ?b] => destruct (N.eqb_spec a b)
         | H : context [N.eqb ?a ?b] |- _ => destruct (N.eqb_spec a b)
         end; lia.

Definition mwin (slot : N) (m : smsg) : bool := in_window slot (sm_slot m).
Definition cwin (slot : N) (c : scontrib) : bool := in_window slot (sc_slot c).

Lemma msg_buf_keep b msgs sl slot : msg_buf_ok b msgs sl -> in_window slot sl = true ->
  msg_buf_ok b (filter (mwin slot) msgs) sl.
Proof.
  intros [m [Eb Hb]] Hw. exists m. split; [exact Eb|]. intros v. rewrite Hb. symmetry. apply find_filter_imp.
  intros x Hx. unfold msg_at in Hx. apply andb_true_iff in Hx. destruct Hx as [H1 _]. apply N.eqb_eq in H1.
  unfold mwin. rewrite H1. exact Hw.
Qed.
Lemma msg_buf_none msgs sl slot : (forall m, In m msgs -> sm_slot m <> sl) -> msg_buf_ok (Some []) (filter (mwin slot) msgs) sl.
Proof.
  intros H. exists []. split; [reflexivity|]. intros v. simpl. symmetry. apply find_none_all.
  intros x Hx. apply filter_In in Hx. destruct Hx as [Hx _]. unfold msg_at.
  destruct (N.eqb_spec (sm_slot x) sl) as [E|E]; [exfalso; exact (H x Hx E) | reflexivity].
Qed.
Lemma con_buf_keep b cons sl slot : con_buf_ok b cons sl -> in_window slot sl = true ->
  con_buf_ok b (filter (cwin slot) cons) sl.
Proof.
  intros [m [Eb Hb]] Hw. exists m. split; [exact Eb|]. intros r sb. rewrite Hb. f_equal. symmetry. apply filter_filter_imp.
  intros x Hx. unfold con_at in Hx. apply andb_true_iff in Hx. destruct Hx as [Hx _]. apply andb_true_iff in Hx. destruct Hx as [H1 _].
  apply N.eqb_eq in H1. unfold cwin. rewrite H1. exact Hw.
Qed.
Lemma con_buf_none cons sl slot : (forall c, In c cons -> sc_slot c <> sl) -> con_buf_ok (Some []) (filter (cwin slot) cons) sl.
Proof.
  intros H. exists []. split; [reflexivity|]. intros r sb. simpl. symmetry.
  rewrite filter_none_all; [reflexivity|].
  intros x Hx. apply filter_In in Hx. destruct Hx as [Hx _]. unfold con_at.
  destruct (N.eqb_spec (sc_slot x) sl) as [E|E]; [exfalso; exact (H x Hx E) | reflexivity].
Qed.
Lemma filter_all {A} (f : A -> bool) l : (forall x, In x l -> f x = true) -> filter f l = l.
Proof.
  induction l as [|x l IH]; simpl; intros H; [reflexivity|].
  rewrite (H x) by (left; reflexivity). f_equal. apply IH. intros y Hy. apply H. right. exact Hy.
Qed.

Lemma Q_reset p s slot : Q p s -> slot < two64 -> Q (reset p slot) (ss_reset s slot).
Proof.
  intros HQ Hs. pose proof (Q_lt _ _ HQ) as Hc.
  destruct HQ as [Ecur _ Hpm Hcm Hnm Hpc Hcc Hnc Hmw Hcw Hu].
  assert (Hm_in : forall sl, (sl <> sub64 (ss_cur s) 1 /\ sl <> ss_cur s /\ sl <> add64 (ss_cur s) 1) ->
                  forall m, In m (ss_msgs s) -> sm_slot m <> sl).
  { intros sl Hsl m Hm E. destruct (Hmw m Hm) as [Hw _]. apply in_window_iff in Hw. rewrite E in Hw. tauto. }
  assert (Hc_in : forall sl, (sl <> sub64 (ss_cur s) 1 /\ sl <> ss_cur s /\ sl <> add64 (ss_cur s) 1) ->
                  forall c, In c (ss_cons s) -> sc_slot c <> sl).
  { intros sl Hsl c Hm E. destruct (Hcw c Hm) as [Hw _]. apply in_window_iff in Hw. rewrite E in Hw. tauto. }
  assert (Hrest : (forall m, In m (filter (mwin slot) (ss_msgs s)) -> in_window slot (sm_slot m) = true /\ sm_slot m < two64) /\
                  (forall c, In c (filter (cwin slot) (ss_cons s)) -> in_window slot (sc_slot c) = true /\ sc_slot c < two64) /\
                  NoDup (map (fun m => (sm_slot m, sm_val m)) (filter (mwin slot) (ss_msgs s)))).
  { repeat split.
    - apply filter_In in H. apply H.
    - apply filter_In in H. apply (Hmw m). tauto.
    - apply filter_In in H. apply H.
    - apply filter_In in H. apply (Hcw c). tauto.
    - clear -Hu. induction (ss_msgs s) as [|x l IH]; simpl; [constructor|].
      inversion Hu as [|? ? Hn Hd]; subst. destruct (mwin slot x); simpl; [|apply IH; exact Hd].
      constructor; [|apply IH; exact Hd]. intros Hin. apply Hn. apply in_map_iff in Hin. destruct Hin as [y [E Hy]].
      apply filter_In in Hy. apply in_map_iff. exists y. tauto. }
  destruct Hrest as [R1 [R2 R3]].
  unfold reset, reset_gen, ss_reset. rewrite Ecur. cbn [fx_reset_skip fixed andb].
  fold (mwin slot) (cwin slot).
  destruct (N.eqb_spec (ss_cur s) (add64 slot 1)) as [EA|NA].
  { (* one slot back *)
    constructor; cbn [s_cur s_pc s_cc s_nc s_pm s_cm s_nm ss_cur ss_msgs ss_cons]; try assumption; try reflexivity.
    - apply msg_buf_none. apply Hm_in. clear -EA Hs Hc. arith.
    - replace slot with (sub64 (ss_cur s) 1) at 2 by (clear -EA Hs Hc; arith). apply msg_buf_keep; [exact Hpm|].
      apply in_window_iff. clear -EA Hs Hc. right. left. arith.
    - replace (add64 slot 1) with (ss_cur s) by (clear -EA; congruence). apply msg_buf_keep; [exact Hcm|].
      apply in_window_iff. right. right. exact EA.
    - apply con_buf_none. apply Hc_in. clear -EA Hs Hc. arith.
    - replace slot with (sub64 (ss_cur s) 1) at 2 by (clear -EA Hs Hc; arith). apply con_buf_keep; [exact Hpc|].
      apply in_window_iff. clear -EA Hs Hc. right. left. arith.
    - replace (add64 slot 1) with (ss_cur s) by (clear -EA; congruence). apply con_buf_keep; [exact Hcc|].
      apply in_window_iff. right. right. exact EA. }
  destruct (N.eqb_spec (ss_cur s) slot) as [EB|NB].
  { (* same slot: nothing moves *)
    subst slot.
    rewrite (filter_all (mwin (ss_cur s))) by (intros x Hx; exact (proj1 (Hmw x Hx))).
    rewrite (filter_all (cwin (ss_cur s))) by (intros x Hx; exact (proj1 (Hcw x Hx))).
    constructor; cbn [ss_cur ss_msgs ss_cons]; assumption. }
  destruct (N.eqb_spec (add64 (ss_cur s) 1) slot) as [EC|NC].
  { (* one slot forward *)
    constructor; cbn [s_cur s_pc s_cc s_nc s_pm s_cm s_nm ss_cur ss_msgs ss_cons]; try assumption; try reflexivity.
    - replace (sub64 slot 1) with (ss_cur s) by (clear -EC Hs Hc; arith). apply msg_buf_keep; [exact Hcm|].
      apply in_window_iff. left. clear -EC Hs Hc. arith.
    - replace slot with (add64 (ss_cur s) 1) at 2 by congruence. apply msg_buf_keep; [exact Hnm|].
      apply in_window_iff. right. left. exact EC.
    - apply msg_buf_none. apply Hm_in. clear -EC Hs Hc. arith.
    - replace (sub64 slot 1) with (ss_cur s) by (clear -EC Hs Hc; arith). apply con_buf_keep; [exact Hcc|].
      apply in_window_iff. left. clear -EC Hs Hc. arith.
    - replace slot with (add64 (ss_cur s) 1) at 2 by congruence. apply con_buf_keep; [exact Hnc|].
      apply in_window_iff. right. left. exact EC.
    - apply con_buf_none. apply Hc_in. clear -EC Hs Hc. arith. }
  destruct (N.eqb_spec (ss_cur s) (add64 slot 2)) as [ED|ND].
  { (* two slots back: the old previous slot is the new next slot *)
    constructor; cbn [s_cur s_pc s_cc s_nc s_pm s_cm s_nm ss_cur ss_msgs ss_cons]; try assumption; try reflexivity.
    - apply msg_buf_none. apply Hm_in. clear -ED Hs Hc. arith.
    - apply msg_buf_none. apply Hm_in. clear -ED Hs Hc. arith.
    - replace (add64 slot 1) with (sub64 (ss_cur s) 1) by (clear -ED Hs Hc; arith). apply msg_buf_keep; [exact Hpm|].
      apply in_window_iff. right. right. clear -ED Hs Hc. arith.
    - apply con_buf_none. apply Hc_in. clear -ED Hs Hc. arith.
    - apply con_buf_none. apply Hc_in. clear -ED Hs Hc. arith.
    - replace (add64 slot 1) with (sub64 (ss_cur s) 1) by (clear -ED Hs Hc; arith). apply con_buf_keep; [exact Hpc|].
      apply in_window_iff. right. right. clear -ED Hs Hc. arith. }
  destruct (N.eqb_spec (add64 (ss_cur s) 2) slot) as [EE|NE].
  { (* one Reset skipped: the old next slot is the new previous slot *)
    constructor; cbn [s_cur s_pc s_cc s_nc s_pm s_cm s_nm ss_cur ss_msgs ss_cons]; try assumption; try reflexivity.
    - replace (sub64 slot 1) with (add64 (ss_cur s) 1) by (clear -EE Hs Hc; arith). apply msg_buf_keep; [exact Hnm|].
      apply in_window_iff. left. clear -EE Hs Hc. arith.
    - apply msg_buf_none. apply Hm_in. clear -EE Hs Hc. arith.
    - apply msg_buf_none. apply Hm_in. clear -EE Hs Hc. arith.
    - replace (sub64 slot 1) with (add64 (ss_cur s) 1) by (clear -EE Hs Hc; arith). apply con_buf_keep; [exact Hnc|].
      apply in_window_iff. left. clear -EE Hs Hc. arith.
    - apply con_buf_none. apply Hc_in. clear -EE Hs Hc. arith.
    - apply con_buf_none. apply Hc_in. clear -EE Hs Hc. arith. }
  (* far away: nothing of the old window is inside the new one *)
  constructor; cbn [s_cur s_pc s_cc s_nc s_pm s_cm s_nm ss_cur ss_msgs ss_cons]; try assumption; try reflexivity.
  - apply msg_buf_none. apply Hm_in. clear -NA NB NC ND NE Hs Hc. arith.
  - apply msg_buf_none. apply Hm_in. clear -NA NB NC ND NE Hs Hc. arith.
  - apply msg_buf_none. apply Hm_in. clear -NA NB NC ND NE Hs Hc. arith.
  - apply con_buf_none. apply Hc_in. clear -NA NB NC ND NE Hs Hc. arith.
  - apply con_buf_none. apply Hc_in. clear -NA NB NC ND NE Hs Hc. arith.
  - apply con_buf_none. apply Hc_in. clear -NA NB NC ND NE Hs Hc. arith.
Qed.

(* ------------------------------------------------------------------------------------------------ *)
(** * Select, contribution lists *)
Lemma select_spec m root : forall members,
  select (Some m) root members =
  Ok (flat_map (fun v => match alookup N.eqb v m with
                         | Some msg => if sm_root msg =? root then [msg] else []
                         | None => []
                         end) members).
Proof.
  induction members as [|v rest IH]; cbn [select select_gen flat_map nlookup]; [reflexivity|].
  fold (select (Some m) root rest). rewrite IH.
  destruct (alookup N.eqb v m) as [msg|]; cbn [fx_select_nil fixed bind]; [|reflexivity].
  destruct (sm_root msg =? root); reflexivity.
Qed.
Lemma filter_unique_find msgs sl v root : NoDup (map (fun m => (sm_slot m, sm_val m)) msgs) ->
  filter (fun m => (sm_slot m =? sl) && (sm_val m =? v) && (sm_root m =? root)) msgs =
  match find (msg_at sl v) msgs with
  | Some msg => if sm_root msg =? root then [msg] else []
  | None => []
  end.
Proof.
  induction msgs as [|x l IH]; simpl; intros Hnd; [reflexivity|]. inversion Hnd as [|? ? Hn Hd]; subst.
  unfold msg_at at 1. destruct ((sm_slot x =? sl) && (sm_val x =? v)) eqn:E; cbn [andb].
  - assert (Hrest : filter (fun m => (sm_slot m =? sl) && (sm_val m =? v) && (sm_root m =? root)) l = []).
    { apply filter_none_all. intros y Hy. destruct ((sm_slot y =? sl) && (sm_val y =? v)) eqn:Ey; [|reflexivity].
      exfalso. apply Hn. apply andb_true_iff in E, Ey. destruct E as [E1 E2], Ey as [E3 E4]. apply N.eqb_eq in E1, E2, E3, E4.
      apply in_map_iff. exists y. split; [congruence | exact Hy]. }
    rewrite Hrest. destruct (sm_root x =? root); reflexivity.
  - apply IH. exact Hd.
Qed.

Lemma Q_select p s pos root members : Q p s -> pos = 0 \/ pos = 1 \/ pos = 2 ->
  select (get_msg p pos) root members = Ok (ss_select s pos root members).
Proof.
  intros HQ Hpos. destruct (get_msg_ok p s pos HQ Hpos) as [m [Eb Hb]]. rewrite Eb, select_spec. f_equal.
  unfold ss_select. apply flat_map_ext. intros v. rewrite Hb. symmetry. apply filter_unique_find. apply (Q_uniq _ _ HQ).
Qed.
Lemma Q_contribs p s pos root sub : Q p s -> pos = 0 \/ pos = 1 \/ pos = 2 ->
  contribs_at p pos root sub = ss_contribs s pos root sub.
Proof.
  intros HQ Hpos. destruct (get_con_ok p s pos HQ Hpos) as [m [Eb Hb]]. unfold contribs_at, ss_contribs. rewrite Eb.
  cbn [nlookup]. transitivity (lookup2 m root sub); [unfold lookup2; destruct (alookup N.eqb root m); reflexivity|].
  rewrite Hb. reflexivity.
Qed.

(* ------------------------------------------------------------------------------------------------ *)
(** * All operation sequences *)
Definition sop_ok (op : sop) : Prop :=
  sop_wf op /\ match op with
               | SSelect pos _ _ => pos = 0 \/ pos = 1 \/ pos = 2
               | SContribs pos _ _ => pos = 0 \/ pos = 1 \/ pos = 2
               | _ => True
               end.

Lemma Q_step p s op : Q p s -> sop_ok op ->
  exists p', sp_step fixed p op = (Some p', snd (ss_step s op)) /\ Q p' (fst (ss_step s op)).
Proof.
  intros HQ [Hwf Hpos]. destruct op as [m|c|slot|pos root ms|pos root sub|]; cbn [sp_step ss_step fst snd] in *.
  - destruct (Q_add_msg p s m HQ Hwf) as [p' [E HQ']]. rewrite E. exists p'. split; [reflexivity | exact HQ'].
  - destruct (Q_add_con p s c HQ Hwf) as [p' [E HQ']]. rewrite E. exists p'. split; [reflexivity | exact HQ'].
  - exists (reset p slot). split; [reflexivity | apply Q_reset; assumption].
  - fold (select (get_msg p pos) root ms). rewrite (Q_select p s pos root ms HQ Hpos). exists p. split; [reflexivity | exact HQ].
  - rewrite (Q_contribs p s pos root sub HQ Hpos). exists p. split; [reflexivity | exact HQ].
  - rewrite (Q_cur _ _ HQ). exists p. split; [reflexivity | exact HQ].
Qed.
Lemma sp_run_rel : forall ops p s, Q p s -> Forall sop_ok ops -> sp_run fixed p ops = ss_run s ops.
Proof.
  induction ops as [|op ops IH]; intros p s HQ Hwf; cbn [sp_run ss_run]; [reflexivity|].
  inversion Hwf; subst. destruct (Q_step p s op HQ H1) as [p' [E HQ']]. rewrite E. f_equal. apply IH; assumption.
Qed.
(* refinement: on every operation sequence the three-buffer pool answers what the windowed list answers *)
Theorem sp_refines : forall ops, Forall sop_ok ops -> sp_run fixed sp_init ops = ss_run ss_init ops.
Proof. intros ops H. apply sp_run_rel; [exact Q_init | exact H]. Qed.

Lemma ss_run_no_panic : forall ops s, ~ In SRPanic (ss_run s ops).
Proof.
  induction ops as [|op ops IH]; intros s; simpl; [tauto|].
  intros [H|H]; [destruct op; simpl in H; discriminate | exact (IH _ H)].
Qed.
Theorem sp_no_panic : forall ops, Forall sop_ok ops -> ~ In SRPanic (sp_run fixed sp_init ops).
Proof. intros ops H. rewrite sp_refines by exact H. apply ss_run_no_panic. Qed.

(* ------------------------------------------------------------------------------------------------ *)
(** * The clauses on the Spec *)
Definition ss_after (ops : list sop) : sspec := fold_left (fun s op => fst (ss_step s op)) ops ss_init.
Lemma ss_after_snoc ops op : ss_after (ops ++ [op]) = fst (ss_step (ss_after ops) op).
Proof. unfold ss_after. rewrite fold_left_app. reflexivity. Qed.
Lemma ss_run_app : forall ops s op,
  ss_run s (ops ++ [op]) = ss_run s ops ++ [snd (ss_step (fold_left (fun s op => fst (ss_step s op)) ops s) op)].
Proof. induction ops as [|o ops IH]; intros s op; simpl; [reflexivity | rewrite IH; reflexivity]. Qed.
Theorem sp_next_answer : forall ops op, Forall sop_ok ops -> sop_ok op ->
  sp_run fixed sp_init (ops ++ [op]) = sp_run fixed sp_init ops ++ [snd (ss_step (ss_after ops) op)].
Proof.
  intros ops op H Hop. rewrite !sp_refines; [apply ss_run_app | exact H | apply Forall_app; split; [exact H | constructor; [exact Hop | constructor]]].
Qed.

(* a message / contribution is stored iff its slot is one of cur-1, cur, cur+1 (mod 2^64); otherwise an error *)
Theorem ss_add_window s m : snd (ss_add_msg s m) = in_window (ss_cur s) (sm_slot m) /\
  (in_window (ss_cur s) (sm_slot m) = true -> In m (ss_msgs (fst (ss_add_msg s m)))) /\
  (in_window (ss_cur s) (sm_slot m) = false -> fst (ss_add_msg s m) = s).
Proof.
  unfold ss_add_msg. destruct (in_window (ss_cur s) (sm_slot m)); cbn [fst snd ss_msgs]; repeat split; try discriminate; try reflexivity.
  intros _. apply in_or_app. right. left. reflexivity.
Qed.
Theorem ss_add_con_window s c : snd (ss_add_con s c) = in_window (ss_cur s) (sc_slot c) /\
  (in_window (ss_cur s) (sc_slot c) = true -> ss_cons (fst (ss_add_con s c)) = ss_cons s ++ [c]) /\
  (in_window (ss_cur s) (sc_slot c) = false -> fst (ss_add_con s c) = s).
Proof.
  unfold ss_add_con. destruct (in_window (ss_cur s) (sc_slot c)); cbn [fst snd ss_cons]; repeat split; try discriminate; reflexivity.
Qed.
(* query_sound: Select returns only messages that were added, for the asked slot, root and members *)
Definition s_added_msgs (ops : list sop) : list smsg := flat_map (fun op => match op with SAddMsg m => [m] | _ => [] end) ops.
Definition s_added_cons (ops : list sop) : list scontrib := flat_map (fun op => match op with SAddCon c => [c] | _ => [] end) ops.
Lemma ss_msgs_added : forall ops m, In m (ss_msgs (ss_after ops)) -> In m (s_added_msgs ops).
Proof.
  induction ops as [|op ops IH] using rev_ind; intros m; [simpl; tauto|].
  rewrite ss_after_snoc. unfold s_added_msgs. rewrite flat_map_app, in_app_iff. fold (s_added_msgs ops).
  destruct op as [m'|c|slot|pos root ms|pos root sub|]; cbn [ss_step fst flat_map app]; try (intros H; left; apply IH; exact H).
  - unfold ss_add_msg. destruct (in_window _ _); cbn [fst ss_msgs]; [|intros H; left; apply IH; exact H].
    intros H. apply in_app_or in H. destruct H as [H|[<-|[]]]; [left; apply IH; apply filter_In in H; tauto | right; left; reflexivity].
  - unfold ss_add_con. destruct (in_window _ _); cbn [fst ss_msgs]; intros H; left; apply IH; exact H.
  - unfold ss_reset. cbn [ss_msgs]. intros H. apply filter_In in H. left. apply IH. tauto.
Qed.
Lemma ss_cons_added : forall ops c, In c (ss_cons (ss_after ops)) -> In c (s_added_cons ops).
Proof.
  induction ops as [|op ops IH] using rev_ind; intros c; [simpl; tauto|].
  rewrite ss_after_snoc. unfold s_added_cons. rewrite flat_map_app, in_app_iff. fold (s_added_cons ops).
  destruct op as [m'|c'|slot|pos root ms|pos root sub|]; cbn [ss_step fst flat_map app]; try (intros H; left; apply IH; exact H).
  - unfold ss_add_msg. destruct (in_window _ _); cbn [fst ss_cons]; intros H; left; apply IH; exact H.
  - unfold ss_add_con. destruct (in_window _ _); cbn [fst ss_cons]; [|intros H; left; apply IH; exact H].
    intros H. apply in_app_or in H. destruct H as [H|[<-|[]]]; [left; apply IH; exact H | right; left; reflexivity].
  - unfold ss_reset. cbn [ss_cons]. intros H. apply filter_In in H. left. apply IH. tauto.
Qed.
Theorem ss_select_sound : forall ops pos root members m, In m (ss_select (ss_after ops) pos root members) ->
  In m (s_added_msgs ops) /\ sm_slot m = pos_slot (ss_cur (ss_after ops)) pos /\ sm_root m = root /\ In (sm_val m) members.
Proof.
  intros ops pos root members m H. unfold ss_select in H. apply in_flat_map in H. destruct H as [v [Hv H]].
  apply filter_In in H. destruct H as [H Hc]. apply andb_true_iff in Hc. destruct Hc as [Hc H3]. apply andb_true_iff in Hc.
  destruct Hc as [H1 H2]. apply N.eqb_eq in H1, H2, H3. subst v.
  repeat split; [apply ss_msgs_added; exact H | exact H1 | exact H3 | exact Hv].
Qed.
Theorem ss_contribs_sound : forall ops pos root sub x, In x (ss_contribs (ss_after ops) pos root sub) ->
  exists c, In c (s_added_cons ops) /\ x = (sc_bits c, sc_sig c) /\
            sc_slot c = pos_slot (ss_cur (ss_after ops)) pos /\ sc_root c = root /\ sc_subnet c = sub.
Proof.
  intros ops pos root sub x H. unfold ss_contribs in H. apply in_map_iff in H. destruct H as [c [E H]].
  apply filter_In in H. destruct H as [H Hc]. apply andb_true_iff in Hc. destruct Hc as [Hc H3]. apply andb_true_iff in Hc.
  destruct Hc as [H1 H2]. apply N.eqb_eq in H1, H2, H3.
  exists c. repeat split; [apply ss_cons_added; exact H | symmetry; exact E | exact H1 | exact H2 | exact H3].
Qed.
(* prune_exact for the slot rotation: Reset(slot) keeps exactly the items whose slot is still within slot-1..slot+1 *)
Theorem ss_reset_exact s slot :
  ss_cur (ss_reset s slot) = slot /\
  (forall m, In m (ss_msgs (ss_reset s slot)) <-> In m (ss_msgs s) /\ in_window slot (sm_slot m) = true) /\
  (forall c, In c (ss_cons (ss_reset s slot)) <-> In c (ss_cons s) /\ in_window slot (sc_slot c) = true) /\
  ss_cons (ss_reset s slot) = filter (fun c => in_window slot (sc_slot c)) (ss_cons s).
Proof.
  unfold ss_reset. cbn [ss_cur ss_msgs ss_cons]. split; [reflexivity|]. split; [intros m; apply filter_In|].
  split; [intros c; apply filter_In | reflexivity].
Qed.
(* query_complete for contributions (the pool's aggregates): every contribution accepted is listed, in arrival order,
   until a Reset moves the window past its slot *)
Theorem ss_contribs_complete s c : in_window (ss_cur s) (sc_slot c) = true -> ss_cur s < two64 -> sc_slot c < two64 ->
  exists pos, (pos = 0 \/ pos = 1 \/ pos = 2) /\
    In (sc_bits c, sc_sig c) (ss_contribs (fst (ss_add_con s c)) pos (sc_root c) (sc_subnet c)).
Proof.
  intros Hw Hc Hs. pose proof Hw as Hw'. rewrite sync_pos_window in Hw' by assumption.
  destruct (sync_pos (ss_cur s) (sc_slot c)) as [pos|] eqn:Ep; [|discriminate].
  destruct (sync_pos_slot _ _ _ Hc Hs Ep) as [Esl Hpos]. exists pos. split; [exact Hpos|].
  unfold ss_add_con. rewrite Hw. cbn [fst]. unfold ss_contribs. cbn [ss_cur ss_cons].
  apply in_map_iff. exists c. split; [reflexivity|]. apply filter_In. split; [apply in_or_app; right; left; reflexivity|].
  rewrite <- Esl, !N.eqb_refl. reflexivity.
Qed.
