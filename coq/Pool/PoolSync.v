(* C20 — proofs, part 4: the sync-committee pool.  The three slot buffers (with the uint64 wrap-around
   comparisons as written in Go) hold exactly the added items whose slot is cur-1 / cur / cur+1; Reset keeps
   exactly what is still inside the window; no map is ever nil. *)
From Coq Require Import NArith ZArith List Bool Lia.
From Coq Require Import ZifyN ZifyNat ZifyBool.
From V Require Import Base.U64 Base.Outcome Pool.PoolModel Pool.PoolSpec Pool.PoolMaps.
Import ListNotations.
Local Open Scope N_scope.
Ltac Zify.zify_post_hook ::= Z.div_mod_to_equations.

(* ------------------------------------------------------------------------------------------------ *)
(** * Slot arithmetic modulo 2^64 *)
Ltac u64 := unfold add64, sub64, wrap64, two64 in *.

Lemma sub64_lt a b : a < two64 -> b < two64 -> sub64 a b < two64.
Proof. intros. u64. destruct (N.leb_spec b a); lia. Qed.
Lemma add64_lt a b : add64 a b < two64.
Proof. u64. lia. Qed.
Lemma prev_next cur slot : cur < two64 -> slot < two64 -> (cur =? add64 slot 1) = (slot =? sub64 cur 1).
Proof.
  intros Hc Hs. destruct (N.eqb_spec cur (add64 slot 1)) as [E|E]; destruct (N.eqb_spec slot (sub64 cur 1)) as [E'|E']; try reflexivity; exfalso.
  - apply E'. u64. destruct (N.leb_spec 1 cur); lia.
  - apply E. u64. destruct (N.leb_spec 1 cur); lia.
Qed.
Lemma sync_pos_spec cur slot : cur < two64 -> slot < two64 ->
  sync_pos cur slot = if slot =? sub64 cur 1 then Some 0 else if slot =? cur then Some 1 else if slot =? add64 cur 1 then Some 2 else None.
Proof.
  intros Hc Hs. unfold sync_pos. rewrite prev_next by assumption.
  rewrite (N.eqb_sym cur slot), (N.eqb_sym (add64 cur 1) slot). reflexivity.
Qed.
Lemma window_slots_distinct cur : cur < two64 ->
  sub64 cur 1 <> cur /\ cur <> add64 cur 1 /\ sub64 cur 1 <> add64 cur 1.
Proof. intros Hc. u64. destruct (N.leb_spec 1 cur); lia. Qed.
Lemma sync_pos_window cur slot : cur < two64 -> slot < two64 ->
  in_window cur slot = match sync_pos cur slot with Some _ => true | None => false end.
Proof.
  intros Hc Hs. rewrite sync_pos_spec by assumption. unfold in_window.
  destruct (slot =? sub64 cur 1); [reflexivity|]. destruct (slot =? cur); [reflexivity|]. destruct (slot =? add64 cur 1); reflexivity.
Qed.
Lemma sync_pos_slot cur slot pos : cur < two64 -> slot < two64 -> sync_pos cur slot = Some pos ->
  slot = pos_slot cur pos /\ (pos = 0 \/ pos = 1 \/ pos = 2).
Proof.
  intros Hc Hs. rewrite sync_pos_spec by assumption. unfold pos_slot.
  destruct (N.eqb_spec slot (sub64 cur 1)); [intros H; inversion H; subst; simpl; tauto|].
  destruct (N.eqb_spec slot cur); [intros H; inversion H; subst; simpl; tauto|].
  destruct (N.eqb_spec slot (add64 cur 1)); [intros H; inversion H; subst; simpl; tauto | discriminate].
Qed.

(* ------------------------------------------------------------------------------------------------ *)
(** * Buffers *)
Definition msg_at (sl v : N) (m : smsg) : bool := (sm_slot m =? sl) && (sm_val m =? v).
Definition con_at (sl root sub : N) (c : scontrib) : bool := (sc_slot c =? sl) && (sc_root c =? root) && (sc_subnet c =? sub).
Definition lookup2 (m : list (N * list (N * list (bytes * N)))) (root sub : N) : list (bytes * N) :=
  match alookup N.eqb root m with
  | None => []
  | Some subs => match alookup N.eqb sub subs with Some l => l | None => [] end
  end.
Definition con_item (c : scontrib) : bytes * N := (sc_bits c, sc_sig c).

Definition msg_buf_ok (b : msgmap) (msgs : list smsg) (sl : N) : Prop :=
  exists m, b = Some m /\ forall v, alookup N.eqb v m = find (msg_at sl v) msgs.
Definition con_buf_ok (b : conmap) (cons : list scontrib) (sl : N) : Prop :=
  exists m, b = Some m /\ forall root sub, lookup2 m root sub = map con_item (filter (con_at sl root sub) cons).

Record Q (p : spool) (s : sspec) : Prop := mkQ {
  Q_cur : s_cur p = ss_cur s;
  Q_lt : ss_cur s < two64;
  Q_pm : msg_buf_ok (s_pm p) (ss_msgs s) (sub64 (ss_cur s) 1);
  Q_cm : msg_buf_ok (s_cm p) (ss_msgs s) (ss_cur s);
  Q_nm : msg_buf_ok (s_nm p) (ss_msgs s) (add64 (ss_cur s) 1);
  Q_pc : con_buf_ok (s_pc p) (ss_cons s) (sub64 (ss_cur s) 1);
  Q_cc : con_buf_ok (s_cc p) (ss_cons s) (ss_cur s);
  Q_nc : con_buf_ok (s_nc p) (ss_cons s) (add64 (ss_cur s) 1);
  Q_mwin : forall m, In m (ss_msgs s) -> in_window (ss_cur s) (sm_slot m) = true /\ sm_slot m < two64;
  Q_cwin : forall c, In c (ss_cons s) -> in_window (ss_cur s) (sc_slot c) = true /\ sc_slot c < two64;
  Q_uniq : NoDup (map (fun m => (sm_slot m, sm_val m)) (ss_msgs s))
}.

Lemma msg_buf_empty sl : msg_buf_ok (Some []) [] sl.
Proof. exists []. split; [reflexivity | intros v; reflexivity]. Qed.
Lemma con_buf_empty sl : con_buf_ok (Some []) [] sl.
Proof. exists []. split; [reflexivity | intros r sb; reflexivity]. Qed.
Lemma Q_init : Q sp_init ss_init.
Proof.
  constructor; simpl; try reflexivity; try apply msg_buf_empty; try apply con_buf_empty; try (intros ? []); constructor.
Qed.

Lemma get_msg_ok p s pos : Q p s -> pos = 0 \/ pos = 1 \/ pos = 2 -> msg_buf_ok (get_msg p pos) (ss_msgs s) (pos_slot (ss_cur s) pos).
Proof. intros HQ [-> | [-> | ->]]; unfold get_msg, pos_slot; simpl; apply HQ. Qed.
Lemma get_con_ok p s pos : Q p s -> pos = 0 \/ pos = 1 \/ pos = 2 -> con_buf_ok (get_con p pos) (ss_cons s) (pos_slot (ss_cur s) pos).
Proof. intros HQ [-> | [-> | ->]]; unfold get_con, pos_slot; simpl; apply HQ. Qed.

(* find / filter helpers *)
Lemma find_app {A} (f : A -> bool) l1 l2 : find f (l1 ++ l2) = match find f l1 with Some x => Some x | None => find f l2 end.
Proof. induction l1 as [|x l1 IH]; simpl; [reflexivity|]. destruct (f x); [reflexivity | exact IH]. Qed.
Lemma find_filter_imp {A} (f g : A -> bool) l : (forall x, f x = true -> g x = true) -> find f (filter g l) = find f l.
Proof.
  intros H. induction l as [|x l IH]; simpl; [reflexivity|].
  destruct (g x) eqn:Eg; simpl.
  - destruct (f x); [reflexivity | exact IH].
  - destruct (f x) eqn:Ef; [rewrite (H x Ef) in Eg; discriminate | exact IH].
Qed.
Lemma find_none_all {A} (f : A -> bool) l : (forall x, In x l -> f x = false) -> find f l = None.
Proof.
  induction l as [|x l IH]; simpl; intros H; [reflexivity|].
  rewrite (H x) by (left; reflexivity). apply IH. intros y Hy. apply H. right. exact Hy.
Qed.
Lemma filter_none_all {A} (f : A -> bool) l : (forall x, In x l -> f x = false) -> filter f l = [].
Proof.
  induction l as [|x l IH]; simpl; intros H; [reflexivity|].
  rewrite (H x) by (left; reflexivity). apply IH. intros y Hy. apply H. right. exact Hy.
Qed.
Lemma filter_filter_imp {A} (f g : A -> bool) l : (forall x, f x = true -> g x = true) -> filter f (filter g l) = filter f l.
Proof.
  intros H. induction l as [|x l IH]; simpl; [reflexivity|].
  destruct (g x) eqn:Eg; simpl.
  - destruct (f x); [rewrite IH; reflexivity | exact IH].
  - destruct (f x) eqn:Ef; [rewrite (H x Ef) in Eg; discriminate | exact IH].
Qed.

(* ------------------------------------------------------------------------------------------------ *)
(** * AddSyncCommitteeMessage *)
Lemma set_get_msg_other p pos pos' b : pos <> pos' -> (pos = 0 \/ pos = 1 \/ pos = 2) -> (pos' = 0 \/ pos' = 1 \/ pos' = 2) ->
  get_msg (set_msg p pos b) pos' = get_msg p pos'.
Proof. intros Hne [-> | [-> | ->]] [-> | [-> | ->]]; try congruence; reflexivity. Qed.
Lemma set_get_msg_same p pos b : get_msg (set_msg p pos b) pos = b.
Proof. unfold get_msg, set_msg. destruct (pos =? 0); [reflexivity|]. destruct (pos =? 1); reflexivity. Qed.

Lemma pos_slot_inj cur pos pos' : cur < two64 -> (pos = 0 \/ pos = 1 \/ pos = 2) -> (pos' = 0 \/ pos' = 1 \/ pos' = 2) ->
  pos_slot cur pos = pos_slot cur pos' -> pos = pos'.
Proof.
  intros Hc H H' E. destruct (window_slots_distinct cur Hc) as [D1 [D2 D3]].
  destruct H as [-> | [-> | ->]], H' as [-> | [-> | ->]]; unfold pos_slot in E; simpl in E; congruence.
Qed.

Lemma Q_add_msg p s m : Q p s -> sm_slot m < two64 ->
  exists p', add_msg p m = Ok (p', snd (ss_add_msg s m)) /\ Q p' (fst (ss_add_msg s m)).
Proof.
  intros HQ Hs. pose proof (Q_lt _ _ HQ) as Hc.
  unfold add_msg, ss_add_msg. rewrite (Q_cur _ _ HQ). rewrite sync_pos_window by assumption.
  destruct (sync_pos (ss_cur s) (sm_slot m)) as [pos|] eqn:Ep; [|exists p; split; [reflexivity | exact HQ]].
  destruct (sync_pos_slot _ _ _ Hc Hs Ep) as [Esl Hpos].
  destruct (get_msg_ok p s pos HQ Hpos) as [mm [Eb Hb]]. rewrite Eb. cbn [fst snd].
  eexists. split; [reflexivity|].
  set (keep := fun m' => negb ((sm_slot m' =? sm_slot m) && (sm_val m' =? sm_val m))).
  assert (Hfind : forall sl v, find (msg_at sl v) (filter keep (ss_msgs s) ++ [m]) =
                  if (sl =? sm_slot m) && (v =? sm_val m) then Some m else find (msg_at sl v) (ss_msgs s)).
  { intros sl v. rewrite find_app. cbn [find].
    assert (Em : msg_at sl v m = (sl =? sm_slot m) && (v =? sm_val m)) by (unfold msg_at; rewrite (N.eqb_sym sl), (N.eqb_sym v); reflexivity).
    rewrite Em.
    destruct ((sl =? sm_slot m) && (v =? sm_val m)) eqn:E.
    - apply andb_true_iff in E. destruct E as [E1 E2]. apply N.eqb_eq in E1, E2. subst sl v.
      rewrite find_none_all; [reflexivity|]. intros x Hx. apply filter_In in Hx. destruct Hx as [_ Hk].
      unfold keep in Hk. unfold msg_at. destruct ((sm_slot x =? sm_slot m) && (sm_val x =? sm_val m)); [discriminate | reflexivity].
    - rewrite find_filter_imp; [destruct (find (msg_at sl v) (ss_msgs s)); reflexivity|].
      intros x Hx. unfold msg_at in Hx. unfold keep. apply andb_true_iff in Hx. destruct Hx as [H1 H2]. apply N.eqb_eq in H1, H2.
      rewrite H1, H2, E. reflexivity. }
  assert (Hbuf : forall pos', (pos' = 0 \/ pos' = 1 \/ pos' = 2) ->
                 msg_buf_ok (get_msg (set_msg p pos (Some (ainsert N.eqb (sm_val m) m mm))) pos')
                            (filter keep (ss_msgs s) ++ [m]) (pos_slot (ss_cur s) pos')).
  { intros pos' Hpos'. destruct (N.eq_dec pos pos') as [<-|Hne].
    - rewrite set_get_msg_same. eexists. split; [reflexivity|]. intros v.
      rewrite (alookup_ainsert N.eqb Neqb_spec), Hfind.
      replace (pos_slot (ss_cur s) pos =? sm_slot m) with true by (symmetry; apply N.eqb_eq; congruence). cbn [andb].
      destruct (v =? sm_val m); [reflexivity | apply Hb].
    - rewrite set_get_msg_other by assumption. destruct (get_msg_ok p s pos' HQ Hpos') as [m2 [Eb2 Hb2]].
      exists m2. split; [exact Eb2|]. intros v. rewrite Hfind, Hb2.
      destruct (N.eqb_spec (pos_slot (ss_cur s) pos') (sm_slot m)) as [E|E]; [|reflexivity].
      exfalso. apply Hne. symmetry. apply (pos_slot_inj (ss_cur s)); try assumption. congruence. }
  assert (Hcon : forall pos', get_con (set_msg p pos (Some (ainsert N.eqb (sm_val m) m mm))) pos' = get_con p pos').
  { intros pos'. destruct Hpos as [-> | [-> | ->]]; reflexivity. }
  constructor; cbn [ss_cur ss_msgs ss_cons].
  - destruct Hpos as [-> | [-> | ->]]; simpl; apply HQ.
  - exact Hc.
  - apply (Hbuf 0). tauto.
  - apply (Hbuf 1). tauto.
  - apply (Hbuf 2). tauto.
  - change (s_pc (set_msg p pos (Some (ainsert N.eqb (sm_val m) m mm)))) with (get_con (set_msg p pos (Some (ainsert N.eqb (sm_val m) m mm))) 0). rewrite Hcon. apply HQ.
  - change (s_cc (set_msg p pos (Some (ainsert N.eqb (sm_val m) m mm)))) with (get_con (set_msg p pos (Some (ainsert N.eqb (sm_val m) m mm))) 1). rewrite Hcon. apply HQ.
  - change (s_nc (set_msg p pos (Some (ainsert N.eqb (sm_val m) m mm)))) with (get_con (set_msg p pos (Some (ainsert N.eqb (sm_val m) m mm))) 2). rewrite Hcon. apply HQ.
  - intros x Hx. apply in_app_or in Hx. destruct Hx as [Hx|[<-|[]]].
    + apply filter_In in Hx. apply (Q_mwin _ _ HQ). tauto.
    + split; [|exact Hs]. rewrite sync_pos_window by assumption. rewrite Ep. reflexivity.
  - apply (Q_cwin _ _ HQ).
  - rewrite map_app. simpl.
    assert (Hnd : NoDup (map (fun m0 => (sm_slot m0, sm_val m0)) (filter keep (ss_msgs s)))).
    { pose proof (Q_uniq _ _ HQ) as Hu. clear -Hu. induction (ss_msgs s) as [|x l IH]; simpl; [constructor|].
      inversion Hu as [|? ? Hn Hd]; subst. destruct (keep x); simpl; [|apply IH; exact Hd].
      constructor; [|apply IH; exact Hd]. intros Hin. apply Hn. apply in_map_iff in Hin. destruct Hin as [y [E Hy]].
      apply filter_In in Hy. apply in_map_iff. exists y. tauto. }
    apply NoDup_rev in Hnd. rewrite <- (rev_involutive (_ ++ _)). apply NoDup_rev. rewrite rev_app_distr. simpl.
    constructor; [|exact Hnd]. rewrite <- in_rev. intros Hin. apply in_map_iff in Hin. destruct Hin as [y [E Hy]].
    apply filter_In in Hy. destruct Hy as [_ Hk]. unfold keep in Hk. inversion E as [[E1 E2]]. rewrite E1, E2, !N.eqb_refl in Hk. discriminate.
Qed.

(* ------------------------------------------------------------------------------------------------ *)
(** * AddSyncCommitteeContribution *)
Lemma set_get_con_other p pos pos' b : pos <> pos' -> (pos = 0 \/ pos = 1 \/ pos = 2) -> (pos' = 0 \/ pos' = 1 \/ pos' = 2) ->
  get_con (set_con p pos b) pos' = get_con p pos'.
Proof. intros Hne [-> | [-> | ->]] [-> | [-> | ->]]; try congruence; reflexivity. Qed.
Lemma set_get_con_same p pos b : get_con (set_con p pos b) pos = b.
Proof. unfold get_con, set_con. destruct (pos =? 0); [reflexivity|]. destruct (pos =? 1); reflexivity. Qed.

Lemma lookup2_insert m root sub l r' s' :
  lookup2 (ainsert N.eqb root (ainsert N.eqb sub l (match alookup N.eqb root m with Some subs => subs | None => [] end)) m) r' s' =
  if (r' =? root) && (s' =? sub) then l else lookup2 m r' s'.
Proof.
  unfold lookup2. rewrite (alookup_ainsert N.eqb Neqb_spec).
  destruct (N.eqb_spec r' root) as [->|Hr]; cbn [andb]; [|reflexivity].
  rewrite (alookup_ainsert N.eqb Neqb_spec). destruct (s' =? sub); [reflexivity|].
  destruct (alookup N.eqb root m); reflexivity.
Qed.

Lemma Q_add_con p s c : Q p s -> sc_slot c < two64 ->
  exists p', add_contrib p c = Ok (p', snd (ss_add_con s c)) /\ Q p' (fst (ss_add_con s c)).
Proof.
  intros HQ Hs. pose proof (Q_lt _ _ HQ) as Hc.
  unfold add_contrib, ss_add_con. rewrite (Q_cur _ _ HQ). rewrite sync_pos_window by assumption.
  destruct (sync_pos (ss_cur s) (sc_slot c)) as [pos|] eqn:Ep; [|exists p; split; [reflexivity | exact HQ]].
  destruct (sync_pos_slot _ _ _ Hc Hs Ep) as [Esl Hpos].
  destruct (get_con_ok p s pos HQ Hpos) as [mm [Eb Hb]]. rewrite Eb. cbn [fst snd nlookup].
  set (old := match alookup N.eqb (sc_subnet c) (match alookup N.eqb (sc_root c) mm with Some subs => subs | None => [] end) with Some l => l | None => [] end).
  set (mm' := ainsert N.eqb (sc_root c) (ainsert N.eqb (sc_subnet c) (old ++ [con_item c])
                 (match alookup N.eqb (sc_root c) mm with Some subs => subs | None => [] end)) mm).
  assert (Eres : match alookup N.eqb (sc_root c) mm with
                 | Some subs => Ok (set_con p pos (Some (ainsert N.eqb (sc_root c) (ainsert N.eqb (sc_subnet c)
                      ((match alookup N.eqb (sc_subnet c) subs with Some l => l | None => [] end) ++ [(sc_bits c, sc_sig c)]) subs) mm)), true)
                 | None => Ok (set_con p pos (Some (ainsert N.eqb (sc_root c) [(sc_subnet c, [(sc_bits c, sc_sig c)])] mm)), true)
                 end = Ok (set_con p pos (Some mm'), true)).
  { unfold mm', old. destruct (alookup N.eqb (sc_root c) mm); reflexivity. }
  rewrite Eres. eexists. split; [reflexivity|].
  assert (Hold : old = map con_item (filter (con_at (sc_slot c) (sc_root c) (sc_subnet c)) (ss_cons s))).
  { rewrite Esl, <- Hb. unfold old, lookup2. destruct (alookup N.eqb (sc_root c) mm); reflexivity. }
  assert (Hbuf : forall pos', (pos' = 0 \/ pos' = 1 \/ pos' = 2) ->
                 con_buf_ok (get_con (set_con p pos (Some mm')) pos') (ss_cons s ++ [c]) (pos_slot (ss_cur s) pos')).
  { intros pos' Hpos'. destruct (N.eq_dec pos pos') as [<-|Hne].
    - rewrite set_get_con_same. eexists. split; [reflexivity|]. intros r' s'.
      unfold mm'. rewrite lookup2_insert, filter_app, map_app. cbn [filter]. unfold con_at at 2.
      rewrite <- Esl, N.eqb_refl. cbn [andb]. rewrite (N.eqb_sym (sc_root c)), (N.eqb_sym (sc_subnet c)).
      destruct ((r' =? sc_root c) && (s' =? sc_subnet c)) eqn:E.
      + apply andb_true_iff in E. destruct E as [E1 E2]. apply N.eqb_eq in E1, E2. subst r' s'. rewrite Hold. reflexivity.
      + change (map con_item []) with (@nil (bytes * N)). rewrite app_nil_r, Hb, Esl. reflexivity.
    - rewrite set_get_con_other by assumption. destruct (get_con_ok p s pos' HQ Hpos') as [m2 [Eb2 Hb2]].
      exists m2. split; [exact Eb2|]. intros r' s'. rewrite Hb2, filter_app. cbn [filter]. unfold con_at at 3.
      destruct (N.eqb_spec (sc_slot c) (pos_slot (ss_cur s) pos')) as [E|E]; [|cbn [andb]; rewrite app_nil_r; reflexivity].
      exfalso. apply Hne. apply (pos_slot_inj (ss_cur s)); try assumption. congruence. }
  assert (Hmsg : forall pos', get_msg (set_con p pos (Some mm')) pos' = get_msg p pos').
  { intros pos'. destruct Hpos as [-> | [-> | ->]]; reflexivity. }
  constructor; cbn [ss_cur ss_msgs ss_cons].
  - destruct Hpos as [-> | [-> | ->]]; simpl; apply HQ.
  - exact Hc.
  - change (s_pm (set_con p pos (Some mm'))) with (get_msg (set_con p pos (Some mm')) 0). rewrite Hmsg. apply HQ.
  - change (s_cm (set_con p pos (Some mm'))) with (get_msg (set_con p pos (Some mm')) 1). rewrite Hmsg. apply HQ.
  - change (s_nm (set_con p pos (Some mm'))) with (get_msg (set_con p pos (Some mm')) 2). rewrite Hmsg. apply HQ.
  - apply (Hbuf 0). tauto.
  - apply (Hbuf 1). tauto.
  - apply (Hbuf 2). tauto.
  - apply (Q_mwin _ _ HQ).
  - intros x Hx. apply in_app_or in Hx. destruct Hx as [Hx|[<-|[]]]; [apply (Q_cwin _ _ HQ); exact Hx|].
    split; [|exact Hs]. rewrite sync_pos_window by assumption. rewrite Ep. reflexivity.
  - apply (Q_uniq _ _ HQ).
Qed.
