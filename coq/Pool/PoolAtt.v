(* C20 — proofs, part 3: the attestation pool.  Simulation invariant [R] between the four Go maps
   (datas / individual / aggregate / aggPerValidator, with the Participants cache) and the Spec's two lists;
   preserved by every call, for ALL operation sequences. *)
From Coq Require Import NArith ZArith List Bool Lia Permutation.
From Coq Require Import ZifyN ZifyNat ZifyBool.
From V Require Import Base.U64 Base.Outcome Pool.PoolModel Pool.PoolSpec Pool.PoolMaps Pool.PoolBits.
Import ListNotations.
Local Open Scope N_scope.

(* ------------------------------------------------------------------------------------------------ *)
(** * The committee loops *)
Lemma participants_nil_r fl : participants fl [] = [].
Proof. unfold participants. destruct fl; reflexivity. Qed.
Lemma participants_cons b fl v rest :
  participants (b :: fl) (v :: rest) = if b then v :: participants fl rest else participants fl rest.
Proof. unfold participants. simpl. destruct b; reflexivity. Qed.
Lemma participants_length : forall fl comm, length fl = length comm ->
  N.of_nat (length (participants fl comm)) = count_true fl.
Proof.
  induction fl as [|b fl IH]; intros [|v comm] H; simpl in H; try discriminate; [reflexivity|].
  rewrite participants_cons. unfold count_true in *. simpl. destruct b; simpl; rewrite ?IH by lia; try lia.
  specialize (IH comm). lia.
Qed.
Lemma skipn_cons_nth {A} (d : A) : forall i l, (i < length l)%nat -> skipn i l = nth i l d :: skipn (S i) l.
Proof.
  induction i as [|i IH]; intros [|x l] H; simpl in *; try lia; [reflexivity|]. apply IH. lia.
Qed.

Section Loops.
  Variables (e : N) (root : adata) (bits : bytes).
  Hypothesis Hok : bytes_ok bits.
  Let flags := decode bits.

  Definition mark_step (m : list (assignment * adata)) (v : N) := ainsert akey_eqb (v, e) root m.
  Lemma mark_all_spec : forall comm i m, (i + length comm = length flags)%nat ->
    mark_all e root bits (N.of_nat i) comm (Some m) = Ok (Some (fold_left mark_step (participants (skipn i flags) comm) m)).
  Proof.
    induction comm as [|v rest IH]; intros i m H; cbn [mark_all].
    - rewrite participants_nil_r. reflexivity.
    - simpl in H. rewrite get_bit_flag by (try exact Hok; fold flags; lia). cbn [bind].
      rewrite (skipn_cons_nth false i flags) by lia. rewrite participants_cons. change (nth i flags false) with (flag bits i).
      replace (N.of_nat i + 1) with (N.of_nat (S i)) by lia.
      destruct (flag bits i); cbn [fold_left]; apply IH; lia.
  Qed.

  Definition new_step (st : list (assignment * adata) * bool) (v : N) :=
    match alookup akey_eqb (v, e) (fst st) with
    | Some _ => st
    | None => (ainsert akey_eqb (v, e) root (fst st), true)
    end.
  Lemma new_step_eq m h v : new_step (m, h) v =
    match alookup akey_eqb (v, e) m with Some _ => (m, h) | None => (ainsert akey_eqb (v, e) root m, true) end.
  Proof. reflexivity. Qed.
  Lemma mark_new_spec : forall comm i m h, (i + length comm = length flags)%nat ->
    mark_new e root bits (N.of_nat i) comm (Some m) h =
    Ok (Some (fst (fold_left new_step (participants (skipn i flags) comm) (m, h))),
        snd (fold_left new_step (participants (skipn i flags) comm) (m, h))).
  Proof.
    induction comm as [|v rest IH]; intros i m h H; cbn [mark_new].
    - rewrite participants_nil_r. reflexivity.
    - simpl in H. rewrite get_bit_flag by (try exact Hok; fold flags; lia). cbn [bind].
      rewrite (skipn_cons_nth false i flags) by lia. rewrite participants_cons. change (nth i flags false) with (flag bits i).
      replace (N.of_nat i + 1) with (N.of_nat (S i)) by lia.
      destruct (flag bits i); cbn [fold_left nlookup]; [|apply IH; lia].
      rewrite new_step_eq.
      destruct (alookup akey_eqb (v, e) m); apply IH; lia.
  Qed.

  Lemma sp_loop_spec : forall comm i found, (i + length comm = length flags)%nat ->
    sp_loop bits (N.of_nat i) comm found =
    match found, participants (skipn i flags) comm with
    | None, [] => Ok None
    | None, [v] => Ok (Some v)
    | None, _ :: _ :: _ => Err
    | Some f, [] => Ok (Some f)
    | Some _, _ :: _ => Err
    end.
  Proof.
    induction comm as [|v rest IH]; intros i found H; cbn [sp_loop].
    - rewrite participants_nil_r. destruct found; reflexivity.
    - simpl in H. rewrite get_bit_flag by (try exact Hok; fold flags; lia). cbn [bind].
      rewrite (skipn_cons_nth false i flags) by lia. rewrite participants_cons. change (nth i flags false) with (flag bits i).
      replace (N.of_nat i + 1) with (N.of_nat (S i)) by lia.
      destruct (flag bits i).
      + destruct found; [reflexivity|]. rewrite IH by lia.
        destruct (participants (skipn (S i) flags) rest); reflexivity.
      + apply IH. lia.
  Qed.
End Loops.

Lemma single_participant_spec bits comm v : bytes_ok bits -> length (decode bits) = length comm ->
  participants (decode bits) comm = [v] -> single_participant bits comm = Ok v.
Proof.
  intros Hok Hlen Hp. unfold single_participant.
  rewrite bitlist_len_decode by exact Hok. rewrite Hlen, N.eqb_refl.
  change 0 with (N.of_nat 0). rewrite sp_loop_spec by (try exact Hok; simpl; lia).
  simpl skipn. rewrite Hp. reflexivity.
Qed.

(* the keys of aggPerValidator after the loops *)
Lemma fold_mark_keys e root : forall ps m k,
  alookup akey_eqb k (fold_left (mark_step e root) ps m) <> None <->
  alookup akey_eqb k m <> None \/ (snd k = e /\ In (fst k) ps).
Proof.
  induction ps as [|v ps IH]; intros m k; cbn [fold_left]; [simpl; tauto|].
  rewrite IH. unfold mark_step. rewrite (alookup_ainsert akey_eqb akey_eqb_spec).
  destruct (akey_eqb k (v, e)) eqn:E.
  - apply akey_eqb_spec in E. subst k. simpl. split; [intros _; right; tauto | intros _; left; discriminate].
  - simpl. split.
    + intros [H|[H1 H2]]; [left; exact H | right; tauto].
    + intros [H|[H1 [H2|H2]]]; [left; exact H | | right; tauto].
      exfalso. destruct k as [kv ke]. simpl in *. subst. rewrite (proj2 (akey_eqb_spec _ _) eq_refl) in E. discriminate.
Qed.
Lemma fold_new_keys e root : forall ps m h k,
  alookup akey_eqb k (fst (fold_left (new_step e root) ps (m, h))) <> None <->
  alookup akey_eqb k m <> None \/ (snd k = e /\ In (fst k) ps).
Proof.
  induction ps as [|v ps IH]; intros m h k; cbn [fold_left]; [simpl; tauto|].
  rewrite new_step_eq.
  destruct (alookup akey_eqb (v, e) m) eqn:Ev.
  - rewrite IH. simpl. split; [intros [H|[H1 H2]]; [left; exact H | right; tauto]|].
    intros [H|[H1 [H2|H2]]]; [left; exact H | | right; tauto].
    left. destruct k as [kv ke]. simpl in *. subst. rewrite Ev. discriminate.
  - rewrite IH. rewrite (alookup_ainsert akey_eqb akey_eqb_spec).
    destruct (akey_eqb k (v, e)) eqn:E.
    + apply akey_eqb_spec in E. subst k. simpl. split; [intros _; right; tauto | intros _; left; discriminate].
    + simpl. split.
      * intros [H|[H1 H2]]; [left; exact H | right; tauto].
      * intros [H|[H1 [H2|H2]]]; [left; exact H | | right; tauto].
        exfalso. destruct k as [kv ke]. simpl in *. subst. rewrite (proj2 (akey_eqb_spec _ _) eq_refl) in E. discriminate.
Qed.
(* has_new: some participant had no entry *)
Lemma fold_new_flag e root : forall ps m h,
  snd (fold_left (new_step e root) ps (m, h)) = h || existsb (fun v => match alookup akey_eqb (v, e) m with None => true | Some _ => false end) ps.
Proof.
  induction ps as [|v ps IH]; intros m h; cbn [fold_left existsb]; [rewrite orb_false_r; reflexivity|].
  rewrite new_step_eq.
  destruct (alookup akey_eqb (v, e) m) eqn:Ev.
  - rewrite IH. reflexivity.
  - rewrite IH. simpl. rewrite orb_true_r. reflexivity.
Qed.
(* nothing new: the map is untouched *)
Lemma fold_new_same e root : forall ps m h,
  existsb (fun v => match alookup akey_eqb (v, e) m with None => true | Some _ => false end) ps = false ->
  fst (fold_left (new_step e root) ps (m, h)) = m.
Proof.
  induction ps as [|v ps IH]; intros m h H; cbn [fold_left]; [reflexivity|].
  simpl in H. apply orb_false_iff in H. destruct H as [H1 H2].
  rewrite new_step_eq. destruct (alookup akey_eqb (v, e) m); [apply IH; exact H2 | discriminate].
Qed.

(* ------------------------------------------------------------------------------------------------ *)
(** * The simulation invariant *)
Definition indiv_of (singles : list (N * att)) : list (assignment * (adata * N)) :=
  map (fun va => ((fst va, tepoch (snd va)), (a_data (snd va), a_sig (snd va)))) singles.

Definition kept_wf (kept : list (att * committee)) : Prop :=
  forall ac, In ac kept -> wf_bits (a_bits (fst ac)) /\ length (decode (a_bits (fst ac))) = length (snd ac).

(* the Participants cache: a valid bit list of the common length whose flags are the OR of the stored ones *)
Definition parts_ok (P : bytes) (same : list (att * committee)) : Prop :=
  wf_bits P /\
  (forall ac, In ac same -> length (decode (a_bits (fst ac))) = length (decode P)) /\
  (forall i, flag P i = existsb (fun ac => flag (a_bits (fst ac)) i) same).

Definition agg_ok (kept : list (att * committee)) (d : adata) (o : option minagg) : Prop :=
  match o with
  | None => same_data d kept = []
  | Some ma =>
      same_data d kept <> [] /\
      m_aggs ma = map (fun ac => (a_bits (fst ac), a_sig (fst ac))) (same_data d kept) /\
      parts_ok (m_parts ma) (same_data d kept) /\
      (length (m_extra ma) <= 10)%nat
  end.

Record R (p : apool) (s : aspec) : Prop := mkR {
  R_indiv : p_indiv p = indiv_of (as_singles s);
  R_aggpv : exists m, p_aggpv p = Some m /\
            forall v e, alookup akey_eqb (v, e) m <> None <-> voted (as_kept s) v e = true;
  R_agg : forall d, agg_ok (as_kept s) d (alookup data_eqb d (p_agg p));
  R_keys : forall d, alookup data_eqb d (p_agg p) <> None -> alookup data_eqb d (p_datas p) <> None;
  R_nodup : NoDup (map fst (p_datas p));
  R_kept : kept_wf (as_kept s)
}.

Lemma R_init : R ap_init as_init.
Proof.
  constructor; simpl.
  - reflexivity.
  - exists []. split; [reflexivity|]. intros v e. simpl. split; [congruence | discriminate].
  - intros d. reflexivity.
  - intros d H. exfalso. apply H. reflexivity.
  - constructor.
  - intros ac [].
Qed.

Lemma same_data_in d kept ac : In ac (same_data d kept) <-> In ac kept /\ a_data (fst ac) = d.
Proof. unfold same_data. rewrite filter_In, data_eqb_spec. tauto. Qed.
Lemma same_data_app d k1 k2 : same_data d (k1 ++ k2) = same_data d k1 ++ same_data d k2.
Proof. apply filter_app. Qed.
Lemma same_data_one d ac : same_data d [ac] = if data_eqb (a_data (fst ac)) d then [ac] else [].
Proof. reflexivity. Qed.

Lemma alookup_indiv_of singles v e :
  alookup akey_eqb (v, e) (indiv_of singles) =
  option_map (fun va => (a_data (snd va), a_sig (snd va)))
             (find (fun va => (fst va =? v) && (tepoch (snd va) =? e)) singles).
Proof.
  induction singles as [|va singles IH]; simpl; [reflexivity|].
  unfold akey_eqb at 1. simpl. rewrite (N.eqb_sym v), (N.eqb_sym e).
  destruct ((fst va =? v) && (tepoch (snd va) =? e)); [reflexivity | exact IH].
Qed.

(* ------------------------------------------------------------------------------------------------ *)
(** * store_data keeps the invariant *)
Lemma R_store_data p s d comm : R p s -> R (store_data p d comm) s.
Proof.
  intros [H1 H2 H3 H4 H5 H6]. unfold store_data.
  destruct (alookup data_eqb d (p_datas p)) eqn:E; [constructor; assumption|].
  constructor; simpl; try assumption.
  - intros d' H. rewrite (alookup_ainsert data_eqb data_eqb_spec). destruct (data_eqb d' d); [discriminate | apply H4; exact H].
  - apply (ainsert_nodup data_eqb data_eqb_spec). exact H5.
Qed.
Lemma store_data_agg p d comm : p_agg (store_data p d comm) = p_agg p.
Proof. unfold store_data. destruct (alookup data_eqb d (p_datas p)); reflexivity. Qed.
Lemma store_data_has p d comm : alookup data_eqb d (p_datas (store_data p d comm)) <> None.
Proof.
  unfold store_data. destruct (alookup data_eqb d (p_datas p)) eqn:E; [rewrite E; discriminate|].
  simpl. rewrite (alookup_ainsert_eq data_eqb data_eqb_spec). discriminate.
Qed.

(* ------------------------------------------------------------------------------------------------ *)
(** * Search *)
Lemma att_eta a : mkAtt (a_data a) (a_bits a) (a_sig a) = a.
Proof. destruct a; reflexivity. Qed.

Lemma search_loop_spec oslot oidx agg kept : (forall d, agg_ok kept d (alookup data_eqb d agg)) ->
  forall ds, search_loop fixed oslot oidx ds agg =
             Ok (flat_map (fun dc => if q_match oslot oidx (fst dc) then map fst (same_data (fst dc) kept) else []) ds).
Proof.
  intros Hagg. induction ds as [|[d c] ds IH]; cbn [search_loop flat_map fst]; [reflexivity|].
  unfold q_match at 1.
  destruct (opt_match oslot (d_slot d)); cbn [negb andb]; [|rewrite IH; reflexivity].
  destruct (opt_match oidx (d_index d)); cbn [negb]; [|rewrite IH; reflexivity].
  specialize (Hagg d). destruct (alookup data_eqb d agg) as [ma|]; simpl in Hagg.
  - rewrite IH. cbn [bind]. destruct Hagg as [_ [Hm _]]. rewrite Hm, map_map. f_equal. f_equal.
    apply map_ext_in. intros ac Hin. apply same_data_in in Hin. destruct Hin as [_ Hd]. simpl.
    rewrite <- Hd. apply att_eta.
  - cbn [fx_search_nil fixed]. rewrite IH, Hagg. reflexivity.
Qed.

Lemma filter_filter {A} (f g : A -> bool) l : filter f (filter g l) = filter (fun x => f x && g x) l.
Proof.
  induction l as [|x l IH]; simpl; [reflexivity|].
  destruct (g x) eqn:Eg; simpl; rewrite ?andb_true_r, ?andb_false_r; [destruct (f x); rewrite IH; reflexivity | exact IH].
Qed.
Lemma filter_split_perm {A} (f : A -> bool) l : Permutation (filter f l ++ filter (fun x => negb (f x)) l) l.
Proof.
  induction l as [|x l IH]; simpl; [constructor|].
  destruct (f x); simpl; [constructor; exact IH|].
  apply Permutation_sym, Permutation_cons_app, Permutation_sym. exact IH.
Qed.
Lemma map_fst_filter {A B} (f : A -> bool) (l : list (A * B)) :
  map fst (filter (fun ab => f (fst ab)) l) = filter f (map fst l).
Proof.
  induction l as [|[a b] l IH]; simpl; [reflexivity|]. destruct (f a); simpl; rewrite IH; reflexivity.
Qed.
Lemma flat_map_map {A B C} (g : A -> B) (f : B -> list C) l : flat_map f (map g l) = flat_map (fun x => f (g x)) l.
Proof. induction l as [|x l IH]; simpl; [reflexivity | rewrite IH; reflexivity]. Qed.

Lemma flat_map_ext_in' {A B} (f g : A -> list B) l : (forall x, In x l -> f x = g x) -> flat_map f l = flat_map g l.
Proof.
  induction l as [|x l IH]; simpl; intros H; [reflexivity|].
  rewrite (H x) by (left; reflexivity). rewrite IH; [reflexivity|]. intros y Hy. apply H. right. exact Hy.
Qed.
(* grouping a list by a duplicate-free list of keys that covers it is a permutation *)
Lemma group_perm : forall (ks : list adata) (l : list att), NoDup ks -> (forall a, In a l -> In (a_data a) ks) ->
  Permutation (flat_map (fun d => filter (fun a => data_eqb (a_data a) d) l) ks) l.
Proof.
  induction ks as [|d ks IH]; intros l Hnd Hin.
  - destruct l as [|a l]; [constructor | exfalso; exact (Hin a (or_introl eq_refl))].
  - inversion Hnd as [|? ? Hn Hd]; subst. cbn [flat_map].
    set (l' := filter (fun a => negb (data_eqb (a_data a) d)) l).
    assert (E : flat_map (fun d0 => filter (fun a => data_eqb (a_data a) d0) l) ks =
                flat_map (fun d0 => filter (fun a => data_eqb (a_data a) d0) l') ks).
    { apply flat_map_ext_in'. intros d' Hd'. unfold l'. rewrite filter_filter. apply filter_ext. intros a.
      destruct (data_eqb (a_data a) d') eqn:E1; [|reflexivity]. apply data_eqb_spec in E1.
      destruct (data_eqb (a_data a) d) eqn:E2; [|reflexivity]. apply data_eqb_spec in E2. congruence. }
    rewrite E. eapply Permutation_trans; [|apply (filter_split_perm (fun a => data_eqb (a_data a) d))].
    apply Permutation_app_head. apply IH; [exact Hd|].
    intros a Ha. unfold l' in Ha. apply filter_In in Ha. destruct Ha as [Ha1 Ha2].
    destruct (Hin a Ha1) as [E1|E1]; [|exact E1]. subst d.
    rewrite (proj2 (data_eqb_spec _ _) eq_refl) in Ha2. discriminate.
Qed.

Lemma R_search p s oslot oidx : R p s ->
  exists l, search p oslot oidx = Ok l /\ Permutation l (as_search s oslot oidx).
Proof.
  intros HR. destruct HR as [H1 H2 H3 H4 H5 H6].
  eexists. split; [unfold search, search_gen; apply (search_loop_spec _ _ _ _ H3)|].
  unfold as_search.
  set (q := fun a : att => q_match oslot oidx (a_data a)).
  set (l := filter q (map fst (as_kept s))).
  assert (E : flat_map (fun dc : adata * committee => if q_match oslot oidx (fst dc) then map fst (same_data (fst dc) (as_kept s)) else []) (p_datas p)
              = flat_map (fun d => filter (fun a => data_eqb (a_data a) d) l) (map fst (p_datas p))).
  { rewrite flat_map_map. apply flat_map_ext. intros [d c]. cbn [fst]. unfold l. rewrite filter_filter.
    unfold same_data. rewrite (map_fst_filter (fun a => data_eqb (a_data a) d)).
    destruct (q_match oslot oidx d) eqn:Eq.
    - apply filter_ext_in. intros a _. destruct (data_eqb (a_data a) d) eqn:E1; [|reflexivity].
      apply data_eqb_spec in E1. unfold q. rewrite E1, Eq. reflexivity.
    - symmetry. rewrite <- (filter_ext (fun _ => false)); [induction (map fst (as_kept s)); simpl; auto|].
      intros a. destruct (data_eqb (a_data a) d) eqn:E1; [|reflexivity].
      apply data_eqb_spec in E1. unfold q. rewrite E1, Eq. reflexivity. }
  rewrite E. apply group_perm; [exact H5|].
  intros a Ha. unfold l in Ha. apply filter_In in Ha. destruct Ha as [Ha _].
  apply in_map_iff in Ha. destruct Ha as [ac [Ea Hac]]. subst a.
  specialize (H3 (a_data (fst ac))). specialize (H4 (a_data (fst ac))).
  destruct (alookup data_eqb (a_data (fst ac)) (p_agg p)) eqn:El.
  - assert (Hd : alookup data_eqb (a_data (fst ac)) (p_datas p) <> None) by (apply H4; discriminate).
    apply (alookup_not_none_in data_eqb data_eqb_spec). exact Hd.
  - simpl in H3. exfalso. assert (Hin : In ac (same_data (a_data (fst ac)) (as_kept s))) by (apply same_data_in; tauto).
    rewrite H3 in Hin. exact Hin.
Qed.

(* ------------------------------------------------------------------------------------------------ *)
(** * Prune *)
Lemma includable_ltb epoch t : includable epoch t = negb (t <? epoch_prev epoch).
Proof. unfold includable. rewrite N.ltb_antisym, negb_involutive. reflexivity. Qed.

Lemma fold_aremove_lookup : forall (dead : list (adata * committee)) agg d,
  alookup data_eqb d (fold_left (fun (m : list (adata * minagg)) kv => aremove data_eqb (fst kv) m) dead agg) =
  if existsb (fun kv => data_eqb (fst kv) d) dead then None else alookup data_eqb d agg.
Proof.
  induction dead as [|[k c] dead IH]; intros agg d; cbn [fold_left existsb fst]; [reflexivity|].
  rewrite IH. rewrite (alookup_aremove data_eqb data_eqb_spec).
  destruct (data_eqb k d); simpl; [destruct (existsb _ dead); reflexivity | reflexivity].
Qed.
Lemma existsb_dead min (datas : list (adata * committee)) d :
  existsb (fun kv => data_eqb (fst kv) d) (filter (fun kv => d_tepoch (fst kv) <? min) datas) = true <->
  d_tepoch d < min /\ In d (map fst datas).
Proof.
  rewrite existsb_exists. split.
  - intros [[k c] [Hin E]]. apply filter_In in Hin. destruct Hin as [Hin Hlt]. simpl in *.
    apply data_eqb_spec in E. subst k. split; [apply N.ltb_lt; exact Hlt|].
    apply in_map_iff. exists (d, c). split; [reflexivity | exact Hin].
  - intros [Hlt Hin]. apply in_map_iff in Hin. destruct Hin as [[k c] [E Hin]]. simpl in E. subst k.
    exists (d, c). split; [apply filter_In; split; [exact Hin | apply N.ltb_lt; exact Hlt]|].
    apply data_eqb_spec. reflexivity.
Qed.
Lemma filter_map_comm {A B} (f : A -> B) (p : B -> bool) l : filter p (map f l) = map f (filter (fun x => p (f x)) l).
Proof. induction l as [|x l IH]; simpl; [reflexivity|]. destruct (p (f x)); simpl; rewrite IH; reflexivity. Qed.

Lemma same_data_prune d epoch kept :
  same_data d (filter (fun ac => includable epoch (tepoch (fst ac))) kept) =
  if includable epoch (d_tepoch d) then same_data d kept else [].
Proof.
  unfold same_data. rewrite filter_filter.
  destruct (includable epoch (d_tepoch d)) eqn:E.
  - apply filter_ext. intros ac. destruct (data_eqb (a_data (fst ac)) d) eqn:E1; [|reflexivity].
    apply data_eqb_spec in E1. unfold tepoch. rewrite E1, E. reflexivity.
  - rewrite <- (filter_ext (fun _ => false)); [induction kept; simpl; auto|].
    intros ac. destruct (data_eqb (a_data (fst ac)) d) eqn:E1; [|reflexivity].
    apply data_eqb_spec in E1. unfold tepoch. rewrite E1, E. reflexivity.
Qed.
Lemma voted_prune epoch kept v e :
  voted (filter (fun ac => includable epoch (tepoch (fst ac))) kept) v e = includable epoch e && voted kept v e.
Proof.
  unfold voted. induction kept as [|ac kept IH]; simpl; [rewrite andb_false_r; reflexivity|].
  destruct (includable epoch (tepoch (fst ac))) eqn:E; simpl; rewrite IH.
  - destruct (tepoch (fst ac) =? e) eqn:E1; simpl; [|reflexivity].
    apply N.eqb_eq in E1. rewrite <- E1, E. simpl. destruct (existsb (N.eqb v) (att_parts ac)); simpl; [reflexivity|].
    reflexivity.
  - destruct (tepoch (fst ac) =? e) eqn:E1; simpl; [|reflexivity].
    apply N.eqb_eq in E1. rewrite <- E1, E. reflexivity.
Qed.

Lemma R_prune p s epoch : R p s -> R (prune p epoch) (as_prune s epoch).
Proof.
  intros [H1 H2 H3 H4 H5 H6]. set (min := epoch_prev epoch).
  constructor; unfold prune, as_prune; fold min; cbn [p_indiv p_aggpv p_agg p_datas as_singles as_kept].
  - rewrite H1. unfold indiv_of. rewrite filter_map_comm. f_equal. apply filter_ext. intros va. cbn [fst snd].
    rewrite includable_ltb. reflexivity.
  - destruct H2 as [m [Hm Hv]]. rewrite Hm. cbn [option_map]. eexists. split; [reflexivity|]. intros v e.
    rewrite (alookup_filter_keys akey_eqb akey_eqb_spec (fun k => negb (snd k <? min))). cbn [snd].
    rewrite voted_prune, includable_ltb. fold min. destruct (e <? min); simpl; [split; [congruence | discriminate] | apply Hv].
  - intros d. unfold agg_ok. rewrite fold_aremove_lookup, same_data_prune, includable_ltb. fold min.
    specialize (H3 d). specialize (H4 d).
    destruct (existsb (fun kv => data_eqb (fst kv) d) (filter (fun kv => d_tepoch (fst kv) <? min) (p_datas p))) eqn:Ed.
    + apply existsb_dead in Ed. destruct Ed as [Hlt _]. apply N.ltb_lt in Hlt. rewrite Hlt. reflexivity.
    + destruct (d_tepoch d <? min) eqn:Hlt; cbn [negb]; [|exact H3].
      destruct (alookup data_eqb d (p_agg p)) eqn:El; [|reflexivity].
      exfalso. assert (Hin : In d (map fst (p_datas p))).
      { apply (alookup_not_none_in data_eqb data_eqb_spec). apply H4. discriminate. }
      assert (existsb (fun kv => data_eqb (fst kv) d) (filter (fun kv => d_tepoch (fst kv) <? min) (p_datas p)) = true); [|congruence].
      apply existsb_dead. split; [apply N.ltb_lt; exact Hlt | exact Hin].
  - intros d. rewrite fold_aremove_lookup.
    destruct (existsb (fun kv => data_eqb (fst kv) d) (filter (fun kv => d_tepoch (fst kv) <? min) (p_datas p))) eqn:Ed; [congruence|].
    intros Hd. specialize (H4 d Hd).
    rewrite (alookup_filter_keys data_eqb data_eqb_spec (fun k => negb (d_tepoch k <? min))).
    destruct (d_tepoch d <? min) eqn:Hlt; cbn [negb]; [|exact H4].
    exfalso. assert (existsb (fun kv => data_eqb (fst kv) d) (filter (fun kv => d_tepoch (fst kv) <? min) (p_datas p)) = true); [|congruence].
    apply existsb_dead. split; [apply N.ltb_lt; exact Hlt|]. apply (alookup_not_none_in data_eqb data_eqb_spec). exact H4.
  - apply filter_keys_nodup. exact H5.
  - intros ac Hin. apply filter_In in Hin. apply H6. tauto.
Qed.

(* ------------------------------------------------------------------------------------------------ *)
(** * AddAttestation *)
Lemma of_nat_eqb a b : (N.of_nat a =? N.of_nat b) = Nat.eqb a b.
Proof. destruct (Nat.eqb_spec a b) as [->|H]; [apply N.eqb_refl | apply N.eqb_neq; lia]. Qed.
Lemma existsb_negb_forallb {A} (f g : A -> bool) l : (forall x, f x = negb (g x)) -> existsb f l = negb (forallb g l).
Proof.
  intros H. induction l as [|x l IH]; simpl; [reflexivity|]. rewrite H, IH. destruct (g x), (forallb g l); reflexivity.
Qed.
Lemma set_aggpv_same p1 m : p_aggpv p1 = m -> set_aggpv p1 m = p1.
Proof. intros <-. destruct p1; reflexivity. Qed.
Lemma voted_app k1 k2 v e : voted (k1 ++ k2) v e = voted k1 v e || voted k2 v e.
Proof. unfold voted. apply existsb_app. Qed.
Lemma voted_one ac v e : voted [ac] v e = (tepoch (fst ac) =? e) && existsb (N.eqb v) (att_parts ac).
Proof. unfold voted. simpl. apply orb_false_r. Qed.
Lemma existsb_Neqb_in v l : existsb (N.eqb v) l = true <-> In v l.
Proof.
  rewrite existsb_exists. split; [intros [x [H E]]; apply N.eqb_eq in E; subst; exact H | intros H; exists v; split; [exact H | apply N.eqb_refl]].
Qed.

(* keys of aggPerValidator after marking the participants of a newly kept aggregate *)
Lemma votes_after_keep kept a comm (m m' : list (assignment * adata)) :
  (forall v e, alookup akey_eqb (v, e) m <> None <-> voted kept v e = true) ->
  (forall k, alookup akey_eqb k m' <> None <-> alookup akey_eqb k m <> None \/ (snd k = tepoch a /\ In (fst k) (att_parts (a, comm)))) ->
  forall v e, alookup akey_eqb (v, e) m' <> None <-> voted (kept ++ [(a, comm)]) v e = true.
Proof.
  intros Hm Hm' v e. rewrite Hm', voted_app, voted_one, orb_true_iff, andb_true_iff, N.eqb_eq, existsb_Neqb_in, Hm.
  cbn [fst snd]. split; (intros [H|[H1 H2]]; [left; exact H | right; split; [congruence | exact H2]]).
Qed.

Lemma add_single_ok p1 s a comm : R p1 s -> bytes_ok (a_bits a) -> length (decode (a_bits a)) = length comm ->
  count_true (decode (a_bits a)) = 1 ->
  let r := as_add_single s a (hd 0 (participants (decode (a_bits a)) comm)) in
  exists p', add_single p1 a comm = Ok (p', snd r) /\ R p' (fst r).
Proof.
  intros HR Hok Hlen Hcnt r. subst r.
  assert (Hp : exists v, participants (decode (a_bits a)) comm = [v]).
  { pose proof (participants_length _ _ Hlen) as Hl. rewrite Hcnt in Hl.
    destruct (participants (decode (a_bits a)) comm) as [|v [|w l]]; simpl in Hl; try lia. exists v. reflexivity. }
  destruct Hp as [v Hp]. rewrite Hp. cbn [hd].
  unfold add_single. rewrite (single_participant_spec _ _ v Hok Hlen Hp). cbn [catch_err].
  destruct HR as [H1 H2 H3 H4 H5 H6]. rewrite H1, alookup_indiv_of. unfold as_add_single, tepoch.
  destruct (find (fun va => (fst va =? v) && (d_tepoch (a_data (snd va)) =? d_tepoch (a_data a))) (as_singles s)) as [[v' a']|] eqn:Ef; cbn [option_map snd fst].
  - destruct (data_eqb (a_data a') (a_data a)); (eexists; split; [reflexivity | constructor; assumption]).
  - eexists. split; [reflexivity|]. constructor; cbn [p_indiv p_aggpv p_agg p_datas set_indiv as_singles as_kept]; try assumption.
    rewrite (ainsert_fresh akey_eqb).
    + unfold indiv_of. rewrite map_app. reflexivity.
    + rewrite alookup_indiv_of. unfold tepoch. rewrite Ef. reflexivity.
Qed.

Lemma add_agg_new_ok p1 s a comm : R p1 s -> wf_bits (a_bits a) -> length (decode (a_bits a)) = length comm ->
  alookup data_eqb (a_data a) (p_agg p1) = None -> alookup data_eqb (a_data a) (p_datas p1) <> None ->
  let r := as_add_agg s a comm in
  exists p', add_agg_new p1 a comm = Ok (p', snd r) /\ R p' (fst r).
Proof.
  intros HR Hwf Hlen Hnone Hhas r. subst r.
  pose proof (proj1 (wf_bits_iff _) Hwf) as [_ [_ Hok]].
  destruct HR as [H1 H2 H3 H4 H5 H6]. destruct H2 as [m [Hm Hv]].
  pose proof (H3 (a_data a)) as Hsame. rewrite Hnone in Hsame. simpl in Hsame.
  unfold as_add_agg. rewrite Hsame. unfold add_agg_new. rewrite Hm.
  change 0 with (N.of_nat 0). rewrite mark_new_spec by (try exact Hok; simpl; lia). cbn [bind fst snd skipn].
  set (ps := participants (decode (a_bits a)) comm). change (att_parts (a, comm)) with ps.
  rewrite fold_new_flag. cbn [orb].
  assert (Eex : existsb (fun v => match alookup akey_eqb (v, d_tepoch (a_data a)) m with None => true | Some _ => false end) ps
                = negb (forallb (fun v => voted (as_kept s) v (tepoch a)) ps)).
  { apply existsb_negb_forallb. intros v. specialize (Hv v (tepoch a)). unfold tepoch in *.
    destruct (alookup akey_eqb (v, d_tepoch (a_data a)) m); destruct (voted (as_kept s) v (d_tepoch (a_data a))); simpl; try reflexivity.
    - exfalso. assert (false = true); [apply Hv; discriminate | discriminate].
    - exfalso. apply (proj2 Hv); reflexivity. }
  rewrite Eex. destruct (forallb (fun v => voted (as_kept s) v (tepoch a)) ps) eqn:Eall; cbn [negb snd fst].
  - (* nobody new: refused, nothing changes *)
    rewrite fold_new_same by (rewrite Eex; reflexivity).
    rewrite set_aggpv_same by exact Hm. eexists. split; [reflexivity|].
    constructor; try assumption. exists m. tauto.
  - eexists. split; [reflexivity|].
    constructor; cbn [p_indiv p_aggpv p_agg p_datas set_agg set_aggpv as_singles as_kept]; try assumption.
    + eexists. split; [reflexivity|]. apply (votes_after_keep _ _ _ m); [exact Hv|].
      intros k. apply fold_new_keys.
    + intros d. unfold agg_ok. rewrite (alookup_ainsert data_eqb data_eqb_spec), same_data_app, same_data_one. cbn [fst].
      destruct (data_eqb d (a_data a)) eqn:Ed.
      * apply data_eqb_spec in Ed. subst d. rewrite Hsame, (proj2 (data_eqb_spec _ _) eq_refl). cbn [app m_aggs m_parts m_extra].
        repeat split; [discriminate | exact Hwf | | | simpl; lia].
        -- intros ac [<-|[]]. reflexivity.
        -- intros i. cbn [existsb fst]. rewrite orb_false_r. reflexivity.
      * assert (E2 : data_eqb (a_data a) d = false).
        { destruct (data_eqb (a_data a) d) eqn:E2; [|reflexivity]. apply data_eqb_spec in E2. subst d.
          rewrite (proj2 (data_eqb_spec _ _) eq_refl) in Ed. discriminate. }
        rewrite E2, app_nil_r. apply H3.
    + intros d. rewrite (alookup_ainsert data_eqb data_eqb_spec).
      destruct (data_eqb d (a_data a)) eqn:Ed; [apply data_eqb_spec in Ed; subst d; intros _; exact Hhas | apply H4].
    + intros ac Hin. apply in_app_or in Hin. destruct Hin as [Hin|[<-|[]]]; [apply H6; exact Hin|]. split; assumption.
Qed.

Lemma forallb_ext' {A} (f g : A -> bool) l : (forall x, f x = g x) -> forallb f l = forallb g l.
Proof. intros H. induction l as [|x l IH]; simpl; [reflexivity | rewrite H, IH; reflexivity]. Qed.
Lemma covered_parts P same bits : parts_ok P same -> length (decode P) = length (decode bits) ->
  imp2 (decode P) (decode bits) = covered same bits.
Proof.
  intros [_ [_ Hf]] Hlen. rewrite imp2_nth by exact Hlen. unfold covered.
  apply forallb_ext'. intros i. unfold flag in *. rewrite Hf. reflexivity.
Qed.

Lemma add_agg_existing_ok p1 s a comm ex : R p1 s -> wf_bits (a_bits a) -> length (decode (a_bits a)) = length comm ->
  alookup data_eqb (a_data a) (p_agg p1) = Some ex ->
  let r := as_add_agg s a comm in
  exists p', add_agg_existing fixed p1 a comm ex = Ok (p', snd r) /\ R p' (fst r).
Proof.
  intros HR Hwf Hlen Hsome r. subst r.
  pose proof (proj1 (wf_bits_iff _) Hwf) as [_ [_ Hok]].
  destruct HR as [H1 H2 H3 H4 H5 H6]. destruct H2 as [m [Hm Hv]].
  pose proof (H3 (a_data a)) as Hex. rewrite Hsome in Hex. cbn [agg_ok] in Hex.
  destruct Hex as [Hne [Haggs [Hparts Hextra]]].
  unfold as_add_agg. destruct (same_data (a_data a) (as_kept s)) as [|[a0 c0] same'] eqn:Esame; [congruence|].
  set (same := (a0, c0) :: same') in *.
  pose proof Hparts as [HwfP [HlenP HflagP]].
  assert (Hl0 : length (decode (a_bits a0)) = length (decode (m_parts ex))) by (apply (HlenP (a0, c0)); left; reflexivity).
  unfold add_agg_existing. rewrite att_covers_decode by assumption. rewrite Hl0.
  destruct (Nat.eqb (length (decode (m_parts ex))) (length (decode (a_bits a)))) eqn:El; cbn [catch_err negb].
  2:{ eexists. split; [reflexivity|]. constructor; try assumption. exists m. tauto. }
  apply Nat.eqb_eq in El. rewrite (covered_parts _ same _ Hparts El).
  destruct (covered same (a_bits a)) eqn:Ecov; cbn [fst snd].
  - (* absorbed; maybe remembered in Extra *)
    destruct (N.of_nat (length (m_extra ex)) <? max_extra) eqn:Ecap; cbn [fst snd].
    + eexists. split; [reflexivity|].
      constructor; cbn [p_indiv p_aggpv p_agg p_datas set_agg as_singles as_kept]; try assumption.
      * exists m. tauto.
      * intros d. unfold agg_ok. rewrite (alookup_ainsert data_eqb data_eqb_spec).
        destruct (data_eqb d (a_data a)) eqn:Ed; [|apply H3].
        apply data_eqb_spec in Ed. subst d. cbn [m_aggs m_parts m_extra]. rewrite Esame. fold same.
        repeat split; [unfold same; discriminate | exact Haggs | exact HwfP | exact HlenP | exact HflagP |].
        rewrite app_length. simpl. apply N.ltb_lt in Ecap. unfold max_extra in Ecap. lia.
      * intros d. rewrite (alookup_ainsert data_eqb data_eqb_spec).
        destruct (data_eqb d (a_data a)) eqn:Ed; [|apply H4].
        apply data_eqb_spec in Ed. subst d. intros _. apply H4. rewrite Hsome. discriminate.
    + eexists. split; [reflexivity|]. constructor; try assumption. exists m. tauto.
  - (* adds a participant: stored, the cache is OR-ed, the participants are marked *)
    cbn [fx_or_parts fixed].
    destruct (bits_or_wf (m_parts ex) (a_bits a) HwfP Hwf El) as [P' [Eor [HwfP' HdecP']]].
    rewrite Eor. cbn [bind p_aggpv set_agg]. rewrite Hm.
    change 0 with (N.of_nat 0). rewrite mark_all_spec by (try exact Hok; simpl; lia). cbn [bind skipn].
    eexists. split; [reflexivity|].
    constructor; cbn [p_indiv p_aggpv p_agg p_datas set_agg set_aggpv as_singles as_kept]; try assumption.
    + eexists. split; [reflexivity|]. apply (votes_after_keep _ _ _ m); [exact Hv|].
      intros k. apply fold_mark_keys.
    + intros d. unfold agg_ok. rewrite (alookup_ainsert data_eqb data_eqb_spec), same_data_app, same_data_one. cbn [fst].
      destruct (data_eqb d (a_data a)) eqn:Ed.
      * apply data_eqb_spec in Ed. subst d. rewrite Esame, (proj2 (data_eqb_spec _ _) eq_refl). fold same.
        cbn [m_aggs m_parts m_extra].
        assert (HlenP' : length (decode P') = length (decode (m_parts ex))) by (rewrite HdecP'; apply or2_length; exact El).
        repeat split.
        -- unfold same. discriminate.
        -- rewrite map_app, Haggs. reflexivity.
        -- exact HwfP'.
        -- intros ac Hin. apply in_app_or in Hin. destruct Hin as [Hin|[<-|[]]]; [rewrite HlenP'; apply HlenP; exact Hin|].
           cbn [fst]. rewrite HlenP'. symmetry. exact El.
        -- intros i. unfold flag at 1. rewrite HdecP', or2_nth by exact El. rewrite existsb_app. cbn [existsb fst].
           rewrite orb_false_r. fold (flag (m_parts ex) i). rewrite HflagP. reflexivity.
        -- exact Hextra.
      * assert (E2 : data_eqb (a_data a) d = false).
        { destruct (data_eqb (a_data a) d) eqn:E2; [|reflexivity]. apply data_eqb_spec in E2. subst d.
          rewrite (proj2 (data_eqb_spec _ _) eq_refl) in Ed. discriminate. }
        rewrite E2, app_nil_r. apply H3.
    + intros d. rewrite (alookup_ainsert data_eqb data_eqb_spec).
      destruct (data_eqb d (a_data a)) eqn:Ed; [|apply H4].
      apply data_eqb_spec in Ed. subst d. intros _. apply H4. rewrite Hsome. discriminate.
    + intros ac Hin. apply in_app_or in Hin. destruct Hin as [Hin|[<-|[]]]; [apply H6; exact Hin|]. split; assumption.
Qed.

Lemma R_add p s a comm : R p s -> wf_bits (a_bits a) ->
  exists p', add_attestation p a comm = Ok (p', snd (as_add s a comm)) /\ R p' (fst (as_add s a comm)).
Proof.
  intros HR Hwf. pose proof (proj1 (wf_bits_iff _) Hwf) as [_ [_ Hok]].
  unfold add_attestation, add_attestation_gen, as_add. cbn [fx_comm_check fixed andb].
  rewrite ones_count_decode, bitlist_len_decode by exact Hok. rewrite of_nat_eqb.
  destruct (count_true (decode (a_bits a)) =? 0) eqn:E0; [exists p; split; [reflexivity | exact HR]|].
  destruct (Nat.eqb (length (decode (a_bits a))) (length comm)) eqn:El; cbn [negb]; [|exists p; split; [reflexivity | exact HR]].
  apply Nat.eqb_eq in El.
  pose proof (R_store_data p s (a_data a) comm HR) as HR1.
  destruct (count_true (decode (a_bits a)) =? 1) eqn:E1.
  - apply N.eqb_eq in E1. apply add_single_ok; assumption.
  - destruct (alookup data_eqb (a_data a) (p_agg (store_data p (a_data a) comm))) as [ex|] eqn:Eagg.
    + apply add_agg_existing_ok; assumption.
    + apply add_agg_new_ok; try assumption. apply store_data_has.
Qed.

(* ------------------------------------------------------------------------------------------------ *)
(** * All operation sequences *)
(* observations agree; the order of Search results is that of Go's map iteration, hence up to permutation *)
Definition aout_equiv (a b : aout) : Prop :=
  match a, b with
  | ARSearch l, ARSearch l' => Permutation l l'
  | _, _ => a = b
  end.

Lemma R_step p s op : R p s -> aop_wf op ->
  exists p' o, ap_step fixed p op = (Some p', o) /\ aout_equiv o (snd (as_step s op)) /\ R p' (fst (as_step s op)).
Proof.
  intros HR Hwf. destruct op as [a comm|oslot oidx|epoch|]; cbn [ap_step as_step fst snd].
  - destruct (R_add p s a comm HR Hwf) as [p' [E HR']]. fold add_attestation. rewrite E.
    exists p', (ARAdd (snd (as_add s a comm))). split; [reflexivity | split; [reflexivity | exact HR']].
  - destruct (R_search p s oslot oidx HR) as [l [E Hp]]. fold search. rewrite E.
    exists p, (ARSearch l). split; [reflexivity | split; [exact Hp | exact HR]].
  - exists (prune p epoch), ARPrune. split; [reflexivity | split; [reflexivity | apply R_prune; exact HR]].
  - exists p, (ARDump (indiv_view p)). split; [reflexivity | split; [|exact HR]]. simpl. f_equal.
    unfold indiv_view, singles_view. rewrite (R_indiv _ _ HR). unfold indiv_of. rewrite map_map. reflexivity.
Qed.

Lemma ap_run_rel : forall ops p s, R p s -> Forall aop_wf ops ->
  Forall2 aout_equiv (ap_run fixed p ops) (as_run s ops).
Proof.
  induction ops as [|op ops IH]; intros p s HR Hwf; cbn [ap_run as_run]; [constructor|].
  inversion Hwf; subst.
  destruct (R_step p s op HR H1) as [p' [o [E [Ho HR']]]]. rewrite E.
  constructor; [exact Ho | apply IH; assumption].
Qed.
(* refinement: on every sequence of well-formed calls the pool answers what the Spec answers *)
Theorem ap_refines : forall ops, Forall aop_wf ops ->
  Forall2 aout_equiv (ap_run fixed ap_init ops) (as_run as_init ops).
Proof. intros ops H. apply ap_run_rel; [exact R_init | exact H]. Qed.

Lemma as_run_no_panic : forall ops s, ~ In ARPanic (as_run s ops).
Proof.
  induction ops as [|op ops IH]; intros s; simpl; [tauto|].
  intros [H|H]; [destruct op; simpl in H; discriminate | exact (IH _ H)].
Qed.
Lemma Forall2_no_panic : forall l l', Forall2 aout_equiv l l' -> ~ In ARPanic l' -> ~ In ARPanic l.
Proof.
  induction 1 as [|x y l l' Hxy _ IH]; simpl; [tauto|].
  intros Hn [H|H]; [|apply IH; tauto]. subst x. apply Hn. left. destruct y; simpl in Hxy; try discriminate. reflexivity.
Qed.
Theorem ap_no_panic : forall ops, Forall aop_wf ops -> ~ In ARPanic (ap_run fixed ap_init ops).
Proof.
  intros ops H. eapply Forall2_no_panic; [apply ap_refines; exact H | apply as_run_no_panic].
Qed.

(* the state reached (the Spec's run is a plain fold) *)
Definition as_after (ops : list aop) : aspec := fold_left (fun s op => fst (as_step s op)) ops as_init.
Lemma as_after_snoc ops op : as_after (ops ++ [op]) = fst (as_step (as_after ops) op).
Proof. unfold as_after. rewrite fold_left_app. reflexivity. Qed.
Lemma as_run_app : forall ops s op,
  as_run s (ops ++ [op]) = as_run s ops ++ [snd (as_step (fold_left (fun s op => fst (as_step s op)) ops s) op)].
Proof. induction ops as [|o ops IH]; intros s op; simpl; [reflexivity | rewrite IH; reflexivity]. Qed.

(* what one more call answers after any sequence: the Spec's answer in the state the Spec reached *)
Theorem ap_next_answer : forall ops op, Forall aop_wf ops -> aop_wf op ->
  exists o, ap_run fixed ap_init (ops ++ [op]) = ap_run fixed ap_init ops ++ [o] /\
            aout_equiv o (snd (as_step (as_after ops) op)).
Proof.
  intros ops op Hwf Hop.
  assert (H : forall ops p s, R p s -> Forall aop_wf ops ->
            exists o, ap_run fixed p (ops ++ [op]) = ap_run fixed p ops ++ [o] /\
                      aout_equiv o (snd (as_step (fold_left (fun s op => fst (as_step s op)) ops s) op))).
  { clear ops Hwf. induction ops as [|o1 ops IH]; intros p s HR Hwf; cbn [app ap_run fold_left].
    - destruct (R_step p s op HR Hop) as [p' [o [E [Ho _]]]]. rewrite E. exists o. split; [reflexivity | exact Ho].
    - inversion Hwf; subst. destruct (R_step p s o1 HR H1) as [p' [o' [E [_ HR']]]]. rewrite E.
      destruct (IH p' _ HR' H2) as [o [E2 Ho]]. exists o. rewrite E2. split; [reflexivity | exact Ho]. }
  apply (H ops ap_init as_init R_init Hwf).
Qed.

(* ------------------------------------------------------------------------------------------------ *)
(** * The clauses of the property, on the Spec (then carried to the code by [ap_next_answer]) *)
Definition key_of (va : N * att) : N * N := (fst va, tepoch (snd va)).
Record S_inv (s : aspec) : Prop := mkSI {
  SI_unique : NoDup (map key_of (as_singles s));
  SI_kept : forall ac, In ac (as_kept s) ->
            length (decode (a_bits (fst ac))) = length (snd ac) /\ 2 <= count_true (decode (a_bits (fst ac)));
  SI_len : forall ac ac', In ac (as_kept s) -> In ac' (as_kept s) -> a_data (fst ac) = a_data (fst ac') ->
           length (decode (a_bits (fst ac))) = length (decode (a_bits (fst ac')))
}.
Lemma NoDup_snoc {A} (l : list A) x : NoDup l -> ~ In x l -> NoDup (l ++ [x]).
Proof.
  intros H Hn. apply NoDup_rev in H. rewrite <- (rev_involutive (l ++ [x])). apply NoDup_rev.
  rewrite rev_app_distr. simpl. constructor; [rewrite <- in_rev; exact Hn | exact H].
Qed.
Lemma NoDup_map_filter {A B} (f : A -> B) (p : A -> bool) l : NoDup (map f l) -> NoDup (map f (filter p l)).
Proof.
  induction l as [|x l IH]; simpl; intros H; [constructor|]. inversion H as [|? ? Hn Hd]; subst.
  destruct (p x); simpl; [|apply IH; exact Hd]. constructor; [|apply IH; exact Hd].
  intros Hin. apply Hn. apply in_map_iff in Hin. destruct Hin as [y [E Hy]]. apply filter_In in Hy.
  apply in_map_iff. exists y. tauto.
Qed.
Lemma find_key_none singles v e :
  find (fun va => (fst va =? v) && (tepoch (snd va) =? e)) singles = None -> ~ In (v, e) (map key_of singles).
Proof.
  intros Hf Hin. apply in_map_iff in Hin. destruct Hin as [va [E Hva]].
  pose proof (find_none _ _ Hf va Hva) as Hn. unfold key_of in E. inversion E; subst.
  rewrite !N.eqb_refl in Hn. discriminate.
Qed.
Lemma find_key_unique singles va :
  NoDup (map key_of singles) -> In va singles ->
  find (fun x => (fst x =? fst va) && (tepoch (snd x) =? tepoch (snd va))) singles = Some va.
Proof.
  induction singles as [|x l IH]; simpl; intros Hnd Hin; [contradiction|].
  inversion Hnd as [|? ? Hn Hd]; subst.
  destruct ((fst x =? fst va) && (tepoch (snd x) =? tepoch (snd va))) eqn:E.
  - destruct Hin as [->|Hin]; [reflexivity|]. exfalso. apply Hn.
    apply andb_true_iff in E. destruct E as [E1 E2]. apply N.eqb_eq in E1, E2.
    apply in_map_iff. exists va. split; [unfold key_of; congruence | exact Hin].
  - destruct Hin as [->|Hin]; [rewrite !N.eqb_refl in E; discriminate | apply IH; assumption].
Qed.

Lemma S_inv_init : S_inv as_init.
Proof. constructor; simpl; [constructor | intros ac [] | intros ac ac' []]. Qed.
Lemma S_inv_step s op : S_inv s -> S_inv (fst (as_step s op)).
Proof.
  intros [H1 H2 H3]. destruct op as [a comm|oslot oidx|epoch|]; cbn [as_step fst]; try (constructor; assumption).
  - unfold as_add.
    destruct (count_true (decode (a_bits a)) =? 0) eqn:E0; [constructor; assumption|].
    destruct (Nat.eqb (length (decode (a_bits a))) (length comm)) eqn:El; cbn [negb]; [|constructor; assumption].
    apply Nat.eqb_eq in El. apply N.eqb_neq in E0.
    destruct (count_true (decode (a_bits a)) =? 1) eqn:E1.
    + unfold as_add_single.
      destruct (find _ (as_singles s)) as [[v' a']|] eqn:Ef.
      * destruct (data_eqb (a_data a') (a_data a)); constructor; assumption.
      * constructor; cbn [as_singles as_kept fst]; try assumption.
        rewrite map_app. apply NoDup_snoc; [exact H1|]. simpl. apply find_key_none. exact Ef.
    + apply N.eqb_neq in E1. unfold as_add_agg.
      assert (Hnew : length (decode (a_bits (fst (a, comm)))) = length (snd (a, comm)) /\ 2 <= count_true (decode (a_bits (fst (a, comm))))).
      { simpl. split; [exact El | lia]. }
      destruct (same_data (a_data a) (as_kept s)) as [|[a0 c0] same'] eqn:Es.
      * destruct (forallb _ _); [constructor; assumption|].
        constructor; cbn [as_singles as_kept fst]; try assumption.
        -- intros ac Hin. apply in_app_or in Hin. destruct Hin as [Hin|[<-|[]]]; [apply H2; exact Hin | exact Hnew].
        -- intros ac ac' Hin Hin' Hd. apply in_app_or in Hin, Hin'.
           destruct Hin as [Hin|[<-|[]]], Hin' as [Hin'|[<-|[]]]; [apply H3; assumption | | | reflexivity]; exfalso; simpl in Hd.
           ++ assert (Hx : In ac (same_data (a_data a) (as_kept s))) by (apply same_data_in; tauto). rewrite Es in Hx. exact Hx.
           ++ assert (Hx : In ac' (same_data (a_data a) (as_kept s))) by (apply same_data_in; split; [exact Hin' | congruence]). rewrite Es in Hx. exact Hx.
      * destruct (Nat.eqb (length (decode (a_bits a0))) (length (decode (a_bits a)))) eqn:El0; cbn [negb]; [|constructor; assumption].
        apply Nat.eqb_eq in El0.
        destruct (covered _ (a_bits a)); [constructor; assumption|].
        assert (H0 : In (a0, c0) (as_kept s) /\ a_data a0 = a_data a).
        { assert (Hx : In (a0, c0) (same_data (a_data a) (as_kept s))) by (rewrite Es; left; reflexivity).
          apply same_data_in in Hx. exact Hx. }
        destruct H0 as [H0 H0d].
        constructor; cbn [as_singles as_kept fst]; try assumption.
        -- intros ac Hin. apply in_app_or in Hin. destruct Hin as [Hin|[<-|[]]]; [apply H2; exact Hin | exact Hnew].
        -- intros ac ac' Hin Hin' Hd. apply in_app_or in Hin, Hin'.
           destruct Hin as [Hin|[<-|[]]], Hin' as [Hin'|[<-|[]]]; [apply H3; assumption | | | reflexivity]; simpl in *.
           ++ rewrite <- El0. apply (H3 ac (a0, c0)); [exact Hin | exact H0 | simpl; congruence].
           ++ rewrite <- El0. apply (H3 (a0, c0) ac'); [exact H0 | exact Hin' | simpl; congruence].
  - constructor; unfold as_prune; cbn [as_singles as_kept].
    + apply NoDup_map_filter. exact H1.
    + intros ac Hin. apply filter_In in Hin. apply H2. tauto.
    + intros ac ac' Hin Hin'. apply filter_In in Hin, Hin'. apply H3; tauto.
Qed.
Lemma S_inv_after ops : S_inv (as_after ops).
Proof.
  induction ops as [|op ops IH] using rev_ind; [exact S_inv_init|]. rewrite as_after_snoc. apply S_inv_step. exact IH.
Qed.

(* --- duplicates are absorbed --- *)
(* an unaggregated attestation that is held: adding it again returns nil and changes nothing *)
Lemma as_dup_single s v a comm : S_inv s -> In (v, a) (as_singles s) ->
  count_true (decode (a_bits a)) = 1 -> length (decode (a_bits a)) = length comm ->
  hd 0 (participants (decode (a_bits a)) comm) = v ->
  as_add s a comm = (s, true).
Proof.
  intros [H1 _ _] Hin Hc Hl Hv. unfold as_add. rewrite Hc, Hl, Nat.eqb_refl. cbn [N.eqb Pos.eqb negb]. rewrite Hv.
  unfold as_add_single. pose proof (find_key_unique _ (v, a) H1 Hin) as Hf. cbn [fst snd] in Hf. rewrite Hf. cbn [snd].
  rewrite (proj2 (data_eqb_spec _ _) eq_refl). reflexivity.
Qed.
(* a stored aggregate: adding it again returns nil and changes nothing the pool can be asked about *)
Lemma as_dup_aggregate s a comm : S_inv s -> In (a, comm) (as_kept s) -> as_add s a comm = (s, true).
Proof.
  intros [_ H2 H3] Hin. destruct (H2 _ Hin) as [Hl Hc]. cbn [fst snd] in *.
  unfold as_add. destruct (count_true (decode (a_bits a)) =? 0) eqn:E0; [apply N.eqb_eq in E0; lia|].
  rewrite Hl, Nat.eqb_refl. cbn [negb].
  destruct (count_true (decode (a_bits a)) =? 1) eqn:E1; [apply N.eqb_eq in E1; lia|].
  unfold as_add_agg.
  assert (Hs : In (a, comm) (same_data (a_data a) (as_kept s))) by (apply same_data_in; tauto).
  destruct (same_data (a_data a) (as_kept s)) as [|[a0 c0] same'] eqn:Es; [contradiction|].
  assert (H0 : In (a0, c0) (as_kept s) /\ a_data a0 = a_data a).
  { assert (Hx : In (a0, c0) (same_data (a_data a) (as_kept s))) by (rewrite Es; left; reflexivity).
    apply same_data_in in Hx. exact Hx. }
  pose proof (H3 (a0, c0) (a, comm) (proj1 H0) Hin (proj2 H0)) as Hl0. cbn [fst] in Hl0. rewrite Hl0, Nat.eqb_refl. cbn [negb].
  assert (Hcov : covered ((a0, c0) :: same') (a_bits a) = true).
  { unfold covered. apply forallb_forall. intros i _. destruct (flag (a_bits a) i) eqn:Ef; [|reflexivity].
    cbn [implb]. apply existsb_exists. exists (a, comm). split; [exact Hs | exact Ef]. }
  rewrite Hcov. reflexivity.
Qed.

(* --- conflicts are reported --- *)
(* a second unaggregated vote of the same validator for the same target epoch and other data: error, nothing changes *)
Lemma as_conflict_single s v a' a comm : S_inv s -> In (v, a') (as_singles s) ->
  count_true (decode (a_bits a)) = 1 -> length (decode (a_bits a)) = length comm ->
  hd 0 (participants (decode (a_bits a)) comm) = v ->
  tepoch a = tepoch a' -> a_data a <> a_data a' ->
  as_add s a comm = (s, false).
Proof.
  intros [H1 _ _] Hin Hc Hl Hv He Hd. unfold as_add. rewrite Hc, Hl, Nat.eqb_refl. cbn [N.eqb Pos.eqb negb]. rewrite Hv.
  unfold as_add_single. rewrite He. pose proof (find_key_unique _ (v, a') H1 Hin) as Hf. cbn [fst snd] in Hf. rewrite Hf. cbn [snd].
  destruct (data_eqb (a_data a') (a_data a)) eqn:E; [apply data_eqb_spec in E; congruence | reflexivity].
Qed.
(* an aggregate for data the pool has no aggregate of, all of whose participants already take part in stored
   aggregates of the same target epoch (necessarily for other data): error, nothing changes *)
Lemma as_conflict_aggregate s a comm :
  2 <= count_true (decode (a_bits a)) -> length (decode (a_bits a)) = length comm ->
  same_data (a_data a) (as_kept s) = [] ->
  (forall v, In v (att_parts (a, comm)) -> voted (as_kept s) v (tepoch a) = true) ->
  as_add s a comm = (s, false).
Proof.
  intros Hc Hl Hs Hv. unfold as_add.
  destruct (count_true (decode (a_bits a)) =? 0) eqn:E0; [apply N.eqb_eq in E0; lia|].
  rewrite Hl, Nat.eqb_refl. cbn [negb].
  destruct (count_true (decode (a_bits a)) =? 1) eqn:E1; [apply N.eqb_eq in E1; lia|].
  unfold as_add_agg. rewrite Hs.
  destruct (forallb _ _) eqn:E; [reflexivity|]. exfalso.
  assert (E' : forallb (fun v => voted (as_kept s) v (tepoch a)) (att_parts (a, comm)) = true) by (apply forallb_forall; exact Hv).
  unfold att_parts in *. cbn [fst snd] in *. congruence.
Qed.

(* --- queries --- *)
Definition a_added (ops : list aop) : list (att * committee) :=
  flat_map (fun op => match op with AAdd a c => [(a, c)] | _ => [] end) ops.
Lemma as_step_kept_sub s op ac : In ac (as_kept (fst (as_step s op))) ->
  In ac (as_kept s) \/ op = AAdd (fst ac) (snd ac).
Proof.
  destruct op as [a comm|oslot oidx|epoch|]; cbn [as_step fst]; try tauto.
  - unfold as_add.
    destruct (_ =? 0); [tauto|]. destruct (negb _); [tauto|].
    destruct (_ =? 1).
    + unfold as_add_single. destruct (find _ _) as [[? ?]|]; [destruct (data_eqb _ _); tauto | cbn [as_kept fst]; tauto].
    + unfold as_add_agg. destruct (same_data _ _) as [|[a0 c0] same'].
      * destruct (forallb _ _); [tauto|]. cbn [as_kept fst]. intros H. apply in_app_or in H.
        destruct H as [H|[<-|[]]]; [left; exact H | right; reflexivity].
      * destruct (negb _); [tauto|]. destruct (covered _ _); [tauto|]. cbn [as_kept fst]. intros H. apply in_app_or in H.
        destruct H as [H|[<-|[]]]; [left; exact H | right; reflexivity].
  - unfold as_prune. cbn [as_kept]. intros H. apply filter_In in H. tauto.
Qed.
(* query_sound: whatever Search returns was added (bit for bit: it IS the added attestation) and matches the filter *)
Theorem as_query_sound : forall ops oslot oidx x, In x (as_search (as_after ops) oslot oidx) ->
  q_match oslot oidx (a_data x) = true /\ exists comm, In (AAdd x comm) ops.
Proof.
  intros ops oslot oidx x H. unfold as_search in H. apply filter_In in H. destruct H as [H Hq]. split; [exact Hq|].
  apply in_map_iff in H. destruct H as [[a c] [E H]]. simpl in E. subst a. exists c.
  revert H. induction ops as [|op ops IH] using rev_ind; [simpl; tauto|].
  rewrite as_after_snoc. intros H. apply as_step_kept_sub in H. rewrite in_app_iff. destruct H as [H|H]; [left; apply IH; exact H|].
  right. left. exact H.
Qed.

(* a stored aggregate stays stored by every call that is not a Prune past its inclusion window *)
Lemma as_step_kept_mono s op ac : In ac (as_kept s) ->
  (forall e, op = APrune e -> includable e (tepoch (fst ac)) = true) ->
  In ac (as_kept (fst (as_step s op))).
Proof.
  intros Hin Hp. destruct op as [a comm|oslot oidx|epoch|]; cbn [as_step fst]; try exact Hin.
  - unfold as_add.
    destruct (_ =? 0); [exact Hin|]. destruct (negb _); [exact Hin|].
    destruct (_ =? 1).
    + unfold as_add_single. destruct (find _ _) as [[? ?]|]; [destruct (data_eqb _ _); exact Hin | exact Hin].
    + unfold as_add_agg. destruct (same_data _ _) as [|[a0 c0] same'].
      * destruct (forallb _ _); [exact Hin | cbn [as_kept fst]; apply in_or_app; left; exact Hin].
      * destruct (negb _); [exact Hin|]. destruct (covered _ _); [exact Hin | cbn [as_kept fst]; apply in_or_app; left; exact Hin].
  - unfold as_prune. cbn [as_kept]. apply filter_In. split; [exact Hin | apply Hp; reflexivity].
Qed.
Definition not_pruned_by (x : att) (ops : list aop) : Prop :=
  forall e, In (APrune e) ops -> includable e (tepoch x) = true.
(* query_complete: a stored aggregate is returned by every matching Search until a Prune leaves its window behind *)
Theorem as_query_complete : forall pre a comm more oslot oidx,
  In (a, comm) (as_kept (as_after pre)) -> not_pruned_by a more -> q_match oslot oidx (a_data a) = true ->
  In a (as_search (as_after (pre ++ more)) oslot oidx).
Proof.
  intros pre a comm more oslot oidx Hin Hnp Hq.
  assert (H : In (a, comm) (as_kept (as_after (pre ++ more)))).
  { induction more as [|op more IH] using rev_ind; [rewrite app_nil_r; exact Hin|].
    rewrite app_assoc, as_after_snoc. apply as_step_kept_mono.
    - apply IH. intros e He. apply Hnp. apply in_or_app. left. exact He.
    - intros e ->. apply Hnp. apply in_or_app. right. left. reflexivity. }
  unfold as_search. apply filter_In. split; [|exact Hq]. apply in_map_iff. exists (a, comm). split; [reflexivity | exact H].
Qed.
(* which accepted aggregates are stored: exactly those that bring a participant the stored ones (same data) lack *)
Lemma as_agg_stored s a comm : 2 <= count_true (decode (a_bits a)) -> length (decode (a_bits a)) = length comm ->
  snd (as_add s a comm) = true ->
  covered (same_data (a_data a) (as_kept s)) (a_bits a) = false ->
  In (a, comm) (as_kept (fst (as_add s a comm))).
Proof.
  intros Hc Hl Hok Hcov. unfold as_add in *.
  destruct (count_true (decode (a_bits a)) =? 0) eqn:E0; [apply N.eqb_eq in E0; lia|].
  rewrite Hl, Nat.eqb_refl in *. cbn [negb] in *.
  destruct (count_true (decode (a_bits a)) =? 1) eqn:E1; [apply N.eqb_eq in E1; lia|].
  unfold as_add_agg in *. destruct (same_data (a_data a) (as_kept s)) as [|[a0 c0] same'].
  - destruct (forallb _ _); [discriminate|]. cbn [as_kept fst]. apply in_or_app. right. left. reflexivity.
  - destruct (negb _); [discriminate|]. rewrite Hcov. cbn [as_kept fst]. apply in_or_app. right. left. reflexivity.
Qed.

(* --- pruning --- *)
(* prune_exact: Prune(epoch) removes exactly the attestations whose target epoch is below epoch-1, i.e. those that can
   no longer be included; what a Search returns afterwards is what it returned before, minus exactly those *)
Theorem as_prune_exact s epoch oslot oidx :
  as_search (as_prune s epoch) oslot oidx = filter (fun x => includable epoch (tepoch x)) (as_search s oslot oidx)
  /\ singles_view (as_prune s epoch) = filter (fun r => includable epoch (snd (fst (fst r)))) (singles_view s).
Proof.
  split.
  - unfold as_search, as_prune. cbn [as_kept]. rewrite (map_fst_filter (fun x => includable epoch (tepoch x))).
    rewrite !filter_filter. apply filter_ext. intros x. apply andb_comm.
  - unfold singles_view, as_prune. cbn [as_singles]. rewrite filter_map_comm. reflexivity.
Qed.
Lemma includable_iff epoch t : includable epoch t = true <-> epoch <= t + 1.
Proof. unfold includable, epoch_prev. destruct (N.eqb_spec epoch 0); rewrite N.leb_le; lia. Qed.
