(* C20 — Impl model of /repo/eth2/pool/*.go and of the bit-list helpers it uses
   (eth2/beacon/phase0/attestation_bits.go, ztyp/bitfields).  NO proofs here.

   The model describes the code WITH the proposed repairs applied (fixes/C20-*.diff); every repair is
   a boolean of the record [fixes], so that the pinned snapshot ([pinned]) and every intermediate tree
   can be evaluated too ([..._orig] definitions, used by the [_refuted] witnesses).

   Conventions
   * Go maps are association lists in insertion order ([alookup]/[ainsert]/[aremove]); a map that the Go
     constructor leaves nil is an [option]: reading [None] finds nothing, writing to [None] is [Panic NilMap].
   * [AttestationData] is projected to the fields the pool reads (slot, committee index, target epoch) plus a
     tag standing for the remaining fields; the map key "hash-tree-root of the data" is the data itself
     (injectivity of HashTreeRoot is in the trusted base, see design/C20.md).
   * Signatures and whole slashing/exit objects are small integer ids; bit lists are byte lists. *)
From Coq Require Import NArith List Bool.
From V Require Import Base.U64 Base.Outcome.
Import ListNotations.
Local Open Scope N_scope.

(* ------------------------------------------------------------------------------------------------ *)
(** * Go maps *)
Section AMap.
  Context {K V : Type}.
  Variable keqb : K -> K -> bool.
  Fixpoint alookup (k : K) (m : list (K * V)) : option V :=
    match m with
    | [] => None
    | (k', v) :: m' => if keqb k k' then Some v else alookup k m'
    end.
  (* m[k] = v : replaces in place, or appends *)
  Fixpoint ainsert (k : K) (v : V) (m : list (K * V)) : list (K * V) :=
    match m with
    | [] => [(k, v)]
    | (k', v') :: m' => if keqb k k' then (k, v) :: m' else (k', v') :: ainsert k v m'
    end.
  (* delete(m, k) *)
  Definition aremove (k : K) (m : list (K * V)) : list (K * V) :=
    filter (fun kv => negb (keqb k (fst kv))) m.
  (* read of a possibly-nil map *)
  Definition nlookup (k : K) (m : option (list (K * V))) : option V :=
    match m with None => None | Some mm => alookup k mm end.
End AMap.

(* run [f] on an Ok value, [on_err] on a returned error, propagate panics *)
Definition catch_err {A B} (x : outcome A) (on_err : outcome B) (f : A -> outcome B) : outcome B :=
  match x with
  | Ok a => f a
  | Err => on_err
  | Panic p => Panic p
  | Blocked => Blocked
  | OutOfFuel => OutOfFuel
  end.

(* ------------------------------------------------------------------------------------------------ *)
(** * Which repairs are applied *)
Record fixes := mkFixes {
  fx_init_aggpv : bool;   (* C20-aggpervalidator-init: NewAttestationPool makes aggPerValidator *)
  fx_search_nil : bool;   (* C20-search-nil-aggregate: Search skips data without aggregates *)
  fx_or_parts   : bool;   (* C20-participants-or: MinAggregates.Participants |= new bits *)
  fx_comm_check : bool;   (* C20-committee-size: bit length must equal the committee size (aggregates too) *)
  fx_sync_init  : bool;   (* C20-sync-init-maps: NewSyncCommitteePool makes its six maps *)
  fx_select_nil : bool;   (* C20-select-nil-msg: Select skips members without a message *)
  fx_reset_skip : bool    (* C20-sync-reset-skip: Reset by two slots keeps the overlapping buffer *)
}.
Definition fixed : fixes := mkFixes true true true true true true true.
Definition pinned : fixes := mkFixes false false false false false false false.

(* ------------------------------------------------------------------------------------------------ *)
(** * Bit lists (ztyp/bitfields + AttestationBits) over byte lists *)
Definition bytes := list N.

(* bitfields.BitIndex: index of the left-most 1 bit of a byte, 0 for 0 *)
Definition bit_index (v : N) : N :=
  let '(out, v) := if negb (N.land v 240 =? 0) then (4, N.shiftr v 4) else (0, v) in
  let '(out, v) := if negb (N.land v 12 =? 0) then (N.lor out 2, N.shiftr v 2) else (out, v) in
  if negb (N.land v 2 =? 0) then N.lor out 1 else out.

(* bitfields.BitlistLen / AttestationBits.BitLen *)
Definition bitlist_len (b : bytes) : N :=
  match b with
  | [] => 0
  | _ => N.lor (N.shiftl (N.of_nat (length b) - 1) 3) (bit_index (last b 0))
  end.

(* bitfields.GetBit: (b[i>>3]>>(i&7))&1 == 1, index panic when i>>3 is out of range *)
Definition get_bit (b : bytes) (i : N) : outcome bool :=
  match nth_error b (N.to_nat (N.shiftr i 3)) with
  | None => Panic IndexOOR
  | Some x => Ok (N.land (N.shiftr x (N.land i 7)) 1 =? 1)
  end.

(* math/bits.OnesCount8 (Go standard library) *)
Definition byte_bits (x : N) (n : nat) : list bool := map (fun i => N.testbit x (N.of_nat i)) (seq 0 n).
Definition count_true (l : list bool) : N := N.of_nat (length (filter (fun b => b) l)).
Definition popcount8 (x : N) : N := count_true (byte_bits x 8).

Fixpoint sum_pop (v : bytes) : N :=
  match v with [] => 0 | x :: r => popcount8 x + sum_pop r end.
(* bitfields.BitlistOnesCount: bits set, the delimiter excluded *)
Definition ones_count (v : bytes) : N :=
  match v with
  | [] => 0
  | _ =>
      let count := sum_pop (removelast v) in
      let l := last v 0 in
      if l =? 0 then count else count + popcount8 (N.lxor l (N.shiftl 1 (bit_index l)))
  end.

(* bitfields.Covers(af, bf): bf[i] &^ af[i] == 0 for all i; error on different byte lengths *)
Fixpoint covers_loop (af bf : bytes) : bool :=
  match af, bf with
  | a :: af', b :: bf' => if negb (N.ldiff b a =? 0) then false else covers_loop af' bf'
  | _, _ => true
  end.
Definition bf_covers (af bf : bytes) : outcome bool :=
  if Nat.eqb (length af) (length bf) then Ok (covers_loop af bf) else Err.
(* AttestationBits.Covers *)
Definition att_covers (cb other : bytes) : outcome bool :=
  if bitlist_len cb =? bitlist_len other then bf_covers cb other else Err.

(* AttestationBits.Or (in place): for i < len(cb) { cb[i] |= other[i] } *)
Fixpoint bits_or (cb other : bytes) : outcome bytes :=
  match cb with
  | [] => Ok []
  | c :: cb' =>
      match other with
      | [] => Panic IndexOOR
      | o :: other' => bind (bits_or cb' other') (fun r => Ok (N.lor c o :: r))
      end
  end.

(* AttestationBits.SingleParticipant; the loop i < bitLen runs over the committee (bitLen = len(committee)) *)
Fixpoint sp_loop (bits : bytes) (i : N) (comm : list N) (found : option N) : outcome (option N) :=
  match comm with
  | [] => Ok found
  | vi :: rest =>
      bind (get_bit bits i) (fun b =>
        if b then match found with
                  | None => sp_loop bits (i + 1) rest (Some vi)
                  | Some _ => Err
                  end
        else sp_loop bits (i + 1) rest found)
  end.
Definition single_participant (bits : bytes) (comm : list N) : outcome N :=
  if bitlist_len bits =? N.of_nat (length comm)
  then bind (sp_loop bits 0 comm None) (fun f => match f with None => Err | Some v => Ok v end)
  else Err.

(* ------------------------------------------------------------------------------------------------ *)
(** * Attestation pool *)
Record adata := mkData { d_slot : N; d_index : N; d_tepoch : N; d_tag : N }.
Record att := mkAtt { a_data : adata; a_bits : bytes; a_sig : N }.
Definition committee := list N.
Definition assignment := (N * N)%type.          (* validator index, target epoch *)

Definition data_eqb (a b : adata) : bool :=
  (d_slot a =? d_slot b) && (d_index a =? d_index b) && (d_tepoch a =? d_tepoch b) && (d_tag a =? d_tag b).
Definition akey_eqb (a b : assignment) : bool := (fst a =? fst b) && (snd a =? snd b).

Definition aggregate := (bytes * N)%type.       (* Participants, Sig *)
Record minagg := mkMin { m_aggs : list aggregate; m_parts : bytes; m_extra : list aggregate }.

Record apool := mkAP {
  p_datas : list (adata * committee);                     (* datas: root -> (data, committee) *)
  p_indiv : list (assignment * (adata * N));              (* individual: (validator, epoch) -> (root, sig) *)
  p_agg   : list (adata * minagg);                        (* aggregate: root -> MinAggregates *)
  p_aggpv : option (list (assignment * adata))            (* aggPerValidator: nil in the pinned constructor *)
}.
Definition max_extra : N := 10.

Definition ap_init_gen (fx : fixes) : apool :=
  mkAP [] [] [] (if fx_init_aggpv fx then Some [] else None).

(* existing-root branch: for i, vi := range committee { if GetBit(i) { aggPerValidator[(vi,e)] = root } } *)
Fixpoint mark_all (e : N) (root : adata) (bits : bytes) (i : N) (comm : committee)
         (m : option (list (assignment * adata))) : outcome (option (list (assignment * adata))) :=
  match comm with
  | [] => Ok m
  | vi :: rest =>
      bind (get_bit bits i) (fun b =>
        if b then match m with
                  | None => Panic NilMap
                  | Some mm => mark_all e root bits (i + 1) rest (Some (ainsert akey_eqb (vi, e) root mm))
                  end
        else mark_all e root bits (i + 1) rest m)
  end.
(* new-root branch: mark the participants not seen this epoch, remember whether there was one *)
Fixpoint mark_new (e : N) (root : adata) (bits : bytes) (i : N) (comm : committee)
         (m : option (list (assignment * adata))) (has_new : bool)
  : outcome (option (list (assignment * adata)) * bool) :=
  match comm with
  | [] => Ok (m, has_new)
  | vi :: rest =>
      bind (get_bit bits i) (fun b =>
        if b then match nlookup akey_eqb (vi, e) m with
                  | Some _ => mark_new e root bits (i + 1) rest m has_new
                  | None => match m with
                            | None => Panic NilMap
                            | Some mm => mark_new e root bits (i + 1) rest (Some (ainsert akey_eqb (vi, e) root mm)) true
                            end
                  end
        else mark_new e root bits (i + 1) rest m has_new)
  end.

Definition set_datas p x := mkAP x (p_indiv p) (p_agg p) (p_aggpv p).
Definition set_indiv p x := mkAP (p_datas p) x (p_agg p) (p_aggpv p).
Definition set_agg p x := mkAP (p_datas p) (p_indiv p) x (p_aggpv p).
Definition set_aggpv p x := mkAP (p_datas p) (p_indiv p) (p_agg p) x.

(* datas[root] = (data, committee) unless already there *)
Definition store_data (p : apool) (root : adata) (comm : committee) : apool :=
  match alookup data_eqb root (p_datas p) with
  | Some _ => p
  | None => set_datas p (ainsert data_eqb root comm (p_datas p))
  end.

(* count == 1: unaggregated attestation.  Ok (pool', true) = returned nil, Ok (pool', false) = returned an error *)
Definition add_single (p1 : apool) (a : att) (comm : committee) : outcome (apool * bool) :=
  let root := a_data a in
  catch_err (single_participant (a_bits a) comm) (Ok (p1, false)) (fun val =>
    let key := (val, d_tepoch root) in
    match alookup akey_eqb key (p_indiv p1) with
    | Some (r', _) => if data_eqb r' root then Ok (p1, true) else Ok (p1, false)
    | None => Ok (set_indiv p1 (ainsert akey_eqb key (root, a_sig a) (p_indiv p1)), true)
    end).

(* aggregate for a root that already has a MinAggregates entry [ex] *)
Definition add_agg_existing (fx : fixes) (p1 : apool) (a : att) (comm : committee) (ex : minagg) : outcome (apool * bool) :=
  let bits := a_bits a in
  let root := a_data a in
  catch_err (att_covers (m_parts ex) bits) (Ok (p1, false)) (fun covers =>
    if covers then
      if N.of_nat (length (m_extra ex)) <? max_extra
      then Ok (set_agg p1 (ainsert data_eqb root
                 (mkMin (m_aggs ex) (m_parts ex) (m_extra ex ++ [(bits, a_sig a)])) (p_agg p1)), true)
      else Ok (p1, true)
    else
      bind (if fx_or_parts fx then bits_or (m_parts ex) bits else Ok (m_parts ex)) (fun parts' =>
        let p2 := set_agg p1 (ainsert data_eqb root
                    (mkMin (m_aggs ex ++ [(bits, a_sig a)]) parts' (m_extra ex)) (p_agg p1)) in
        bind (mark_all (d_tepoch root) root bits 0 comm (p_aggpv p2)) (fun m' => Ok (set_aggpv p2 m', true)))).

(* aggregate for a root without aggregates so far *)
Definition add_agg_new (p1 : apool) (a : att) (comm : committee) : outcome (apool * bool) :=
  let bits := a_bits a in
  let root := a_data a in
  bind (mark_new (d_tepoch root) root bits 0 comm (p_aggpv p1) false) (fun r =>
    let p2 := set_aggpv p1 (fst r) in
    if snd r
    then Ok (set_agg p2 (ainsert data_eqb root (mkMin [(bits, a_sig a)] bits []) (p_agg p2)), true)
    else Ok (p2, false)).

(* AddAttestation *)
Definition add_attestation_gen (fx : fixes) (p : apool) (a : att) (comm : committee) : outcome (apool * bool) :=
  let bits := a_bits a in
  let count := ones_count bits in
  if count =? 0 then Ok (p, false) else
  if fx_comm_check fx && negb (bitlist_len bits =? N.of_nat (length comm)) then Ok (p, false) else
  let p1 := store_data p (a_data a) comm in
  if count =? 1 then add_single p1 a comm
  else match alookup data_eqb (a_data a) (p_agg p1) with
       | Some ex => add_agg_existing fx p1 a comm ex
       | None => add_agg_new p1 a comm
       end.

Definition opt_match (o : option N) (x : N) : bool := match o with None => true | Some y => x =? y end.

(* Search(WithSlot?, WithCommittee?) *)
Fixpoint search_loop (fx : fixes) (oslot oidx : option N) (ds : list (adata * committee))
         (agg : list (adata * minagg)) : outcome (list att) :=
  match ds with
  | [] => Ok []
  | (d, _) :: rest =>
      if negb (opt_match oslot (d_slot d)) then search_loop fx oslot oidx rest agg
      else if negb (opt_match oidx (d_index d)) then search_loop fx oslot oidx rest agg
      else match alookup data_eqb d agg with
           | None => if fx_search_nil fx then search_loop fx oslot oidx rest agg else Panic NilDeref
           | Some ma =>
               bind (search_loop fx oslot oidx rest agg) (fun r =>
                 Ok (map (fun bs => mkAtt d (fst bs) (snd bs)) (m_aggs ma) ++ r))
           end
  end.
Definition search_gen (fx : fixes) (p : apool) (oslot oidx : option N) : outcome (list att) :=
  search_loop fx oslot oidx (p_datas p) (p_agg p).

(* Epoch.Previous *)
Definition epoch_prev (e : N) : N := if e =? 0 then 0 else e - 1.

(* Prune(epoch) *)
Definition prune (p : apool) (epoch : N) : apool :=
  let min := epoch_prev epoch in
  let dead := filter (fun kv => d_tepoch (fst kv) <? min) (p_datas p) in
  mkAP (filter (fun kv => negb (d_tepoch (fst kv) <? min)) (p_datas p))
       (filter (fun kv => negb (snd (fst kv) <? min)) (p_indiv p))
       (fold_left (fun m kv => aremove data_eqb (fst kv) m) dead (p_agg p))
       (option_map (filter (fun kv => negb (snd (fst kv) <? min))) (p_aggpv p)).

(* ------------------------------------------------------------------------------------------------ *)
(** * Slashing and exit pools: a map key -> item, refusing a second item under the same key.
      VoluntaryExitPool: key = validator index; ProposerSlashingPool: key = proposer index of header 1;
      AttesterSlashingPool: key = hash-tree-root of the slashing (= the item id). *)
Record kitem := mkK { k_id : N; k_key : N }.
Definition kpool := list (N * kitem).
Definition kp_init : kpool := [].
Definition kp_add (p : kpool) (x : kitem) : outcome (kpool * bool) :=
  match alookup N.eqb (k_key x) p with
  | Some _ => Ok (p, false)
  | None => Ok (ainsert N.eqb (k_key x) x p, true)
  end.
Definition kp_all (p : kpool) : list kitem := map snd p.

(* ------------------------------------------------------------------------------------------------ *)
(** * Sync committee pool *)
Record smsg := mkMsg { sm_slot : N; sm_root : N; sm_val : N; sm_sig : N }.
Record scontrib := mkCon { sc_slot : N; sc_root : N; sc_subnet : N; sc_bits : bytes; sc_sig : N }.
Definition msgmap := option (list (N * smsg)).                              (* validator -> message *)
Definition conmap := option (list (N * list (N * list (bytes * N)))).       (* root -> subnet -> [SubnetContrib] *)

Record spool := mkSP {
  s_cur : N;
  s_pc : conmap; s_cc : conmap; s_nc : conmap;
  s_pm : msgmap; s_cm : msgmap; s_nm : msgmap
}.
Definition empty_con (fx : fixes) : conmap := if fx_sync_init fx then Some [] else None.
Definition empty_msg (fx : fixes) : msgmap := if fx_sync_init fx then Some [] else None.
Definition sp_init_gen (fx : fixes) : spool :=
  mkSP max64 (empty_con fx) (empty_con fx) (empty_con fx) (empty_msg fx) (empty_msg fx) (empty_msg fx).

(* which buffer a slot falls into: 0 previous, 1 current, 2 next (comparisons as written, uint64 wrap-around) *)
Definition sync_pos (cur slot : N) : option N :=
  if cur =? add64 slot 1 then Some 0
  else if cur =? slot then Some 1
  else if add64 cur 1 =? slot then Some 2
  else None.

Definition get_con (s : spool) (pos : N) : conmap :=
  if pos =? 0 then s_pc s else if pos =? 1 then s_cc s else s_nc s.
Definition set_con (s : spool) (pos : N) (m : conmap) : spool :=
  if pos =? 0 then mkSP (s_cur s) m (s_cc s) (s_nc s) (s_pm s) (s_cm s) (s_nm s)
  else if pos =? 1 then mkSP (s_cur s) (s_pc s) m (s_nc s) (s_pm s) (s_cm s) (s_nm s)
  else mkSP (s_cur s) (s_pc s) (s_cc s) m (s_pm s) (s_cm s) (s_nm s).
Definition get_msg (s : spool) (pos : N) : msgmap :=
  if pos =? 0 then s_pm s else if pos =? 1 then s_cm s else s_nm s.
Definition set_msg (s : spool) (pos : N) (m : msgmap) : spool :=
  if pos =? 0 then mkSP (s_cur s) (s_pc s) (s_cc s) (s_nc s) m (s_cm s) (s_nm s)
  else if pos =? 1 then mkSP (s_cur s) (s_pc s) (s_cc s) (s_nc s) (s_pm s) m (s_nm s)
  else mkSP (s_cur s) (s_pc s) (s_cc s) (s_nc s) (s_pm s) (s_cm s) m.

(* AddSyncCommitteeContribution *)
Definition add_contrib (s : spool) (c : scontrib) : outcome (spool * bool) :=
  match sync_pos (s_cur s) (sc_slot c) with
  | None => Ok (s, false)
  | Some pos =>
      let byroot := get_con s pos in
      let item := (sc_bits c, sc_sig c) in
      match nlookup N.eqb (sc_root c) byroot with
      | Some subs =>
          let old := match alookup N.eqb (sc_subnet c) subs with Some l => l | None => [] end in
          match byroot with
          | None => Panic NilMap   (* unreachable: a lookup in a nil map finds nothing *)
          | Some m => Ok (set_con s pos (Some (ainsert N.eqb (sc_root c)
                            (ainsert N.eqb (sc_subnet c) (old ++ [item]) subs) m)), true)
          end
      | None =>
          match byroot with
          | None => Panic NilMap   (* subsByRoot[root] = subs on a nil map *)
          | Some m => Ok (set_con s pos (Some (ainsert N.eqb (sc_root c) [(sc_subnet c, [item])] m)), true)
          end
      end
  end.

(* AddSyncCommitteeMessage *)
Definition add_msg (s : spool) (msg : smsg) : outcome (spool * bool) :=
  match sync_pos (s_cur s) (sm_slot msg) with
  | None => Ok (s, false)
  | Some pos =>
      match get_msg s pos with
      | None => Panic NilMap
      | Some m => Ok (set_msg s pos (Some (ainsert N.eqb (sm_val msg) msg m)), true)
      end
  end.

(* Reset(slot) *)
Definition reset_gen (fx : fixes) (s : spool) (slot : N) : spool :=
  let cur := s_cur s in
  if cur =? add64 slot 1 then
    mkSP slot (Some []) (s_pc s) (s_cc s) (Some []) (s_pm s) (s_cm s)
  else if cur =? slot then s
  else if add64 cur 1 =? slot then
    mkSP slot (s_cc s) (s_nc s) (Some []) (s_cm s) (s_nm s) (Some [])
  else if fx_reset_skip fx && (cur =? add64 slot 2) then
    mkSP slot (Some []) (Some []) (s_pc s) (Some []) (Some []) (s_pm s)
  else if fx_reset_skip fx && (add64 cur 2 =? slot) then
    mkSP slot (s_nc s) (Some []) (Some []) (s_nm s) (Some []) (Some [])
  else
    mkSP slot (Some []) (Some []) (Some []) (Some []) (Some []) (Some []).

(* SyncCommitteeMessages.Select(root, members) on one buffer *)
Fixpoint select_gen (fx : fixes) (msgs : msgmap) (root : N) (members : list N) : outcome (list smsg) :=
  match members with
  | [] => Ok []
  | vi :: rest =>
      match nlookup N.eqb vi msgs with
      | None => if fx_select_nil fx then select_gen fx msgs root rest else Panic NilDeref
      | Some msg =>
          bind (select_gen fx msgs root rest) (fun r =>
            Ok (if sm_root msg =? root then msg :: r else r))
      end
  end.

(* hook view: the contributions held for (buffer, root, subnet), in arrival order *)
Definition contribs_at (s : spool) (pos root subnet : N) : list (bytes * N) :=
  match nlookup N.eqb root (get_con s pos) with
  | None => []
  | Some subs => match alookup N.eqb subnet subs with Some l => l | None => [] end
  end.

(* ------------------------------------------------------------------------------------------------ *)
(** * The repaired code (what the theorems are about) and the pinned snapshot *)
Definition ap_init := ap_init_gen fixed.
Definition add_attestation := add_attestation_gen fixed.
Definition search := search_gen fixed.
Definition sp_init := sp_init_gen fixed.
Definition reset := reset_gen fixed.
Definition select := select_gen fixed.

Definition ap_init_orig := ap_init_gen pinned.
Definition add_attestation_orig := add_attestation_gen pinned.
Definition search_orig := search_gen pinned.
Definition sp_init_orig := sp_init_gen pinned.
Definition reset_orig := reset_gen pinned.
Definition select_orig := select_gen pinned.

(* ------------------------------------------------------------------------------------------------ *)
(** * Operation sequences (the quantifier of the property) and what each call lets the caller observe *)
Inductive aop :=
| AAdd (a : att) (comm : committee)
| ASearch (oslot oidx : option N)
| APrune (epoch : N)
| ADump.                                   (* hook view; at theorem level: the unaggregated attestations held *)
Inductive aout :=
| ARAdd (ok : bool)                        (* true = nil, false = error *)
| ARSearch (l : list att)
| ARPrune
| ARDump (l : list (N * N * adata * N))    (* validator, target epoch, data, signature *)
| ARPanic.
Definition indiv_view (p : apool) : list (N * N * adata * N) :=
  map (fun kv => (fst (fst kv), snd (fst kv), fst (snd kv), snd (snd kv))) (p_indiv p).
(* one call: new state (None after a panic) and the observation *)
Definition ap_step (fx : fixes) (p : apool) (op : aop) : option apool * aout :=
  match op with
  | AAdd a c => match add_attestation_gen fx p a c with
                | Ok (p', ok) => (Some p', ARAdd ok)
                | _ => (None, ARPanic)
                end
  | ASearch s i => match search_gen fx p s i with
                   | Ok l => (Some p, ARSearch l)
                   | _ => (None, ARPanic)
                   end
  | APrune e => (Some (prune p e), ARPrune)
  | ADump => (Some p, ARDump (indiv_view p))
  end.
Fixpoint ap_run (fx : fixes) (p : apool) (ops : list aop) : list aout :=
  match ops with
  | [] => []
  | op :: rest => match ap_step fx p op with
                  | (Some p', o) => o :: ap_run fx p' rest
                  | (None, o) => [o]
                  end
  end.

Inductive kop := KAdd (x : kitem) | KAll.
Inductive kout := KRAdd (ok : bool) | KRAll (l : list kitem) | KRPanic.
Definition kp_step (p : kpool) (op : kop) : option kpool * kout :=
  match op with
  | KAdd x => match kp_add p x with Ok (p', ok) => (Some p', KRAdd ok) | _ => (None, KRPanic) end
  | KAll => (Some p, KRAll (kp_all p))
  end.
Fixpoint kp_run (p : kpool) (ops : list kop) : list kout :=
  match ops with
  | [] => []
  | op :: rest => match kp_step p op with
                  | (Some p', o) => o :: kp_run p' rest
                  | (None, o) => [o]
                  end
  end.

Inductive sop :=
| SAddMsg (m : smsg)
| SAddCon (c : scontrib)
| SReset (slot : N)
| SSelect (pos root : N) (members : list N)     (* Select on the buffer of the previous (0) / current (1) / next (2) slot *)
| SContribs (pos root subnet : N)               (* hook view of one contribution list *)
| SCur.                                         (* hook view of currentSlot *)
Inductive sout :=
| SRAdd (ok : bool)
| SRReset
| SRSelect (l : list smsg)
| SRContribs (l : list (bytes * N))
| SRCur (slot : N)
| SRPanic.
Definition sp_step (fx : fixes) (s : spool) (op : sop) : option spool * sout :=
  match op with
  | SAddMsg m => match add_msg s m with Ok (s', ok) => (Some s', SRAdd ok) | _ => (None, SRPanic) end
  | SAddCon c => match add_contrib s c with Ok (s', ok) => (Some s', SRAdd ok) | _ => (None, SRPanic) end
  | SReset slot => (Some (reset_gen fx s slot), SRReset)
  | SSelect pos root ms => match select_gen fx (get_msg s pos) root ms with
                           | Ok l => (Some s, SRSelect l)
                           | _ => (None, SRPanic)
                           end
  | SContribs pos root sub => (Some s, SRContribs (contribs_at s pos root sub))
  | SCur => (Some s, SRCur (s_cur s))
  end.
Fixpoint sp_run (fx : fixes) (s : spool) (ops : list sop) : list sout :=
  match ops with
  | [] => []
  | op :: rest => match sp_step fx s op with
                  | (Some s', o) => o :: sp_run fx s' rest
                  | (None, o) => [o]
                  end
  end.
