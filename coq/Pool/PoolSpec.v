(* C20 — Spec: what the pools must do, stated over the plain list of items that were added
   (no maps, no caches, no byte twiddling).  NO proofs here.

   * a bit list is its decoded list of flags ([decode]: little-endian bits of every byte, the last byte
     up to, and excluding, its highest set bit = the SSZ delimiter);
   * a pool state is the list of the items it accepted and still has to keep, in arrival order;
   * a query filters that list; pruning filters it by the inclusion window; nothing else changes it. *)
From Coq Require Import NArith List Bool.
From V Require Import Base.U64 Base.Outcome Pool.PoolModel.
Import ListNotations.
Local Open Scope N_scope.

(* ------------------------------------------------------------------------------------------------ *)
(** * Bit lists *)
Definition decode (bs : bytes) : list bool :=
  match bs with
  | [] => []
  | _ => flat_map (fun x => byte_bits x 8) (removelast bs) ++ byte_bits (last bs 0) (N.to_nat (N.log2 (last bs 0)))
  end.
(* a valid SSZ bit list: at least the delimiter byte, which is not zero; bytes are bytes *)
Definition wf_bitsb (bs : bytes) : bool :=
  match bs with [] => false | _ => negb (last bs 0 =? 0) && forallb (fun x => x <? 256) bs end.
Definition wf_bits (bs : bytes) : Prop := wf_bitsb bs = true.

(* the committee members whose flag is set *)
Definition participants (flags : list bool) (comm : list N) : list N :=
  map snd (filter (fun fv => fst fv) (combine flags comm)).
Definition flag (bs : bytes) (i : nat) : bool := nth i (decode bs) false.

(* ------------------------------------------------------------------------------------------------ *)
(** * Attestation pool *)
Record aspec := mkAS {
  as_singles : list (N * att);          (* (validator, unaggregated attestation), arrival order *)
  as_kept    : list (att * committee)   (* aggregates that added a participant when they arrived *)
}.
Definition as_init : aspec := mkAS [] [].

Fixpoint bytes_eqb (x y : bytes) : bool :=
  match x, y with
  | [], [] => true
  | a :: x', b :: y' => (a =? b) && bytes_eqb x' y'
  | _, _ => false
  end.
Definition att_eqb (a b : att) : bool :=
  data_eqb (a_data a) (a_data b) && bytes_eqb (a_bits a) (a_bits b) && (a_sig a =? a_sig b).

Definition tepoch (a : att) : N := d_tepoch (a_data a).
Definition att_parts (ac : att * committee) : list N := participants (decode (a_bits (fst ac))) (snd ac).

(* validator v takes part in a kept aggregate with target epoch e *)
Definition voted (kept : list (att * committee)) (v e : N) : bool :=
  existsb (fun ac => (tepoch (fst ac) =? e) && existsb (N.eqb v) (att_parts ac)) kept.
(* every flag of [bs] is a flag of one of [same] *)
Definition covered (same : list (att * committee)) (bs : bytes) : bool :=
  forallb (fun i => implb (flag bs i) (existsb (fun ac => flag (a_bits (fst ac)) i) same))
          (seq 0 (length (decode bs))).
Definition same_data (d : adata) (kept : list (att * committee)) : list (att * committee) :=
  filter (fun ac => data_eqb (a_data (fst ac)) d) kept.

(* the inclusion window: an attestation with target epoch t can be included while the current epoch is <= t+1 *)
Definition includable (epoch : N) (t : N) : bool := epoch_prev epoch <=? t.

(* an unaggregated attestation by validator [v] *)
Definition as_add_single (s : aspec) (a : att) (v : N) : aspec * bool :=
  match find (fun va => (fst va =? v) && (tepoch (snd va) =? tepoch a)) (as_singles s) with
  | Some (_, a') => if data_eqb (a_data a') (a_data a)
                    then (s, true)            (* this validator's vote is already there: absorbed *)
                    else (s, false)           (* double vote: reported *)
  | None => (mkAS (as_singles s ++ [(v, a)]) (as_kept s), true)
  end.
(* an aggregate *)
Definition as_add_agg (s : aspec) (a : att) (comm : committee) : aspec * bool :=
  match same_data (a_data a) (as_kept s) with
  | [] =>
      if forallb (fun v => voted (as_kept s) v (tepoch a)) (att_parts (a, comm))
      then (s, false)                         (* every participant already voted for other data this epoch *)
      else (mkAS (as_singles s) (as_kept s ++ [(a, comm)]), true)
  | ((a0, _) :: _) as same =>
      if negb (Nat.eqb (length (decode (a_bits a0))) (length (decode (a_bits a)))) then (s, false)
      else if covered same (a_bits a) then (s, true)     (* nothing new (includes exact duplicates): absorbed *)
      else (mkAS (as_singles s) (as_kept s ++ [(a, comm)]), true)
  end.
(* AddAttestation: (state', true) = accepted (nil), (state', false) = refused with an error *)
Definition as_add (s : aspec) (a : att) (comm : committee) : aspec * bool :=
  let flags := decode (a_bits a) in
  let n := count_true flags in
  if n =? 0 then (s, false)                                        (* empty *)
  else if negb (Nat.eqb (length flags) (length comm)) then (s, false)   (* committee of another size *)
  else if n =? 1 then as_add_single s a (hd 0 (participants flags comm))
  else as_add_agg s a comm.

Definition q_match (oslot oidx : option N) (d : adata) : bool :=
  opt_match oslot (d_slot d) && opt_match oidx (d_index d).
Definition as_search (s : aspec) (oslot oidx : option N) : list att :=
  filter (fun a => q_match oslot oidx (a_data a)) (map fst (as_kept s)).
Definition as_prune (s : aspec) (epoch : N) : aspec :=
  mkAS (filter (fun va => includable epoch (tepoch (snd va))) (as_singles s))
       (filter (fun ac => includable epoch (tepoch (fst ac))) (as_kept s)).

(* ------------------------------------------------------------------------------------------------ *)
(** * Slashing and exit pools *)
Definition kspec := list kitem.
Definition ks_init : kspec := [].
Definition ks_add (s : kspec) (x : kitem) : kspec * bool :=
  if existsb (fun y => k_key y =? k_key x) s then (s, false) else (s ++ [x], true).
Definition ks_all (s : kspec) : list kitem := s.

(* ------------------------------------------------------------------------------------------------ *)
(** * Sync committee pool: messages and contributions of the slots cur-1, cur, cur+1 (modulo 2^64) *)
Record sspec := mkSS { ss_cur : N; ss_msgs : list smsg; ss_cons : list scontrib }.
Definition ss_init : sspec := mkSS max64 [] [].

Definition in_window (cur slot : N) : bool :=
  (slot =? sub64 cur 1) || (slot =? cur) || (slot =? add64 cur 1).
Definition pos_slot (cur pos : N) : N :=
  if pos =? 0 then sub64 cur 1 else if pos =? 1 then cur else add64 cur 1.

Definition ss_add_msg (s : sspec) (m : smsg) : sspec * bool :=
  if in_window (ss_cur s) (sm_slot m)
  then (mkSS (ss_cur s)
             (filter (fun m' => negb ((sm_slot m' =? sm_slot m) && (sm_val m' =? sm_val m))) (ss_msgs s) ++ [m])
             (ss_cons s), true)
  else (s, false).
Definition ss_add_con (s : sspec) (c : scontrib) : sspec * bool :=
  if in_window (ss_cur s) (sc_slot c)
  then (mkSS (ss_cur s) (ss_msgs s) (ss_cons s ++ [c]), true)
  else (s, false).
(* moving the window keeps exactly what is still inside it *)
Definition ss_reset (s : sspec) (slot : N) : sspec :=
  mkSS slot (filter (fun m => in_window slot (sm_slot m)) (ss_msgs s))
            (filter (fun c => in_window slot (sc_slot c)) (ss_cons s)).
Definition ss_select (s : sspec) (pos root : N) (members : list N) : list smsg :=
  let slot := pos_slot (ss_cur s) pos in
  flat_map (fun v => filter (fun m => (sm_slot m =? slot) && (sm_val m =? v) && (sm_root m =? root)) (ss_msgs s)) members.
Definition ss_contribs (s : sspec) (pos root subnet : N) : list (bytes * N) :=
  let slot := pos_slot (ss_cur s) pos in
  map (fun c => (sc_bits c, sc_sig c))
      (filter (fun c => (sc_slot c =? slot) && (sc_root c =? root) && (sc_subnet c =? subnet)) (ss_cons s)).

(* ------------------------------------------------------------------------------------------------ *)
(** * The Spec on operation sequences: it never panics *)
Definition singles_view (s : aspec) : list (N * N * adata * N) :=
  map (fun va => (fst va, tepoch (snd va), a_data (snd va), a_sig (snd va))) (as_singles s).
Definition as_step (s : aspec) (op : aop) : aspec * aout :=
  match op with
  | AAdd a c => let r := as_add s a c in (fst r, ARAdd (snd r))
  | ASearch sl i => (s, ARSearch (as_search s sl i))
  | APrune e => (as_prune s e, ARPrune)
  | ADump => (s, ARDump (singles_view s))
  end.
Fixpoint as_run (s : aspec) (ops : list aop) : list aout :=
  match ops with
  | [] => []
  | op :: rest => snd (as_step s op) :: as_run (fst (as_step s op)) rest
  end.

Definition ks_step (s : kspec) (op : kop) : kspec * kout :=
  match op with
  | KAdd x => let r := ks_add s x in (fst r, KRAdd (snd r))
  | KAll => (s, KRAll (ks_all s))
  end.
Fixpoint ks_run (s : kspec) (ops : list kop) : list kout :=
  match ops with
  | [] => []
  | op :: rest => snd (ks_step s op) :: ks_run (fst (ks_step s op)) rest
  end.

Definition ss_step (s : sspec) (op : sop) : sspec * sout :=
  match op with
  | SAddMsg m => let r := ss_add_msg s m in (fst r, SRAdd (snd r))
  | SAddCon c => let r := ss_add_con s c in (fst r, SRAdd (snd r))
  | SReset slot => (ss_reset s slot, SRReset)
  | SSelect pos root ms => (s, SRSelect (ss_select s pos root ms))
  | SContribs pos root sub => (s, SRContribs (ss_contribs s pos root sub))
  | SCur => (s, SRCur (ss_cur s))
  end.
Fixpoint ss_run (s : sspec) (ops : list sop) : list sout :=
  match ops with
  | [] => []
  | op :: rest => snd (ss_step s op) :: ss_run (fst (ss_step s op)) rest
  end.

(* domain of the attestation theorems: every bit list added is a valid SSZ bit list *)
Definition aop_wf (op : aop) : Prop :=
  match op with AAdd a _ => wf_bits (a_bits a) | _ => True end.
(* domain of the sync theorems: slots are uint64 values *)
Definition sop_wf (op : sop) : Prop :=
  match op with
  | SAddMsg m => sm_slot m < two64
  | SAddCon c => sc_slot c < two64
  | SReset slot => slot < two64
  | _ => True
  end.
