(* C20 correspondence: a case is an operation sequence on one fresh pool together with what the Go code
   was observed to do at every step.  [impl_ok] replays it on the Impl model (repaired code), [spec_ok]
   judges Go's observations against the Spec directly (vacuously true outside the documented domain:
   bit lists that are not valid SSZ bit lists).  A Go panic ends the sequence. *)
From Coq Require Import NArith List Bool.
From V Require Import Base.U64 Base.Outcome Pool.PoolModel Pool.PoolSpec.
Import ListNotations.
Local Open Scope N_scope.

(* ---- equality tests on observations ---- *)
Section Perm.
  Context {A : Type} (eqb : A -> A -> bool).
  Fixpoint remove_first (x : A) (l : list A) : option (list A) :=
    match l with
    | [] => None
    | y :: r => if eqb x y then Some r else option_map (cons y) (remove_first x r)
    end.
  (* same multiset *)
  Fixpoint perm_eqb (l1 l2 : list A) : bool :=
    match l1 with
    | [] => match l2 with [] => true | _ => false end
    | x :: r => match remove_first x l2 with None => false | Some l2' => perm_eqb r l2' end
    end.
  Fixpoint list_eqb (l1 l2 : list A) : bool :=
    match l1, l2 with
    | [], [] => true
    | x :: r, y :: s => eqb x y && list_eqb r s
    | _, _ => false
    end.
End Perm.
Definition pair_eqb {A B} (ea : A -> A -> bool) (eb : B -> B -> bool) (x y : A * B) : bool :=
  ea (fst x) (fst y) && eb (snd x) (snd y).
Definition aggr_eqb : aggregate -> aggregate -> bool := pair_eqb bytes_eqb N.eqb.
Definition kitem_eqb (a b : kitem) : bool := (k_id a =? k_id b) && (k_key a =? k_key b).
Definition smsg_eqb (a b : smsg) : bool :=
  (sm_slot a =? sm_slot b) && (sm_root a =? sm_root b) && (sm_val a =? sm_val b) && (sm_sig a =? sm_sig b).

(* model result of an add: Ok (_, true) = nil, Ok (_, false) = error *)
Definition add_agrees {S} (m : outcome (S * bool)) (g : gores unit) : bool :=
  match m, g with
  | Ok (_, true), GoOk _ => true
  | Ok (_, false), GoErr => true
  | Panic _, GoPanic => true
  | _, _ => false
  end.
Definition spec_add_agrees (ok : bool) (g : gores unit) : bool :=
  match g with GoOk _ => ok | GoErr => negb ok | _ => false end.

(* ------------------------------------------------------------------------------------------------ *)
(** * Attestation pool *)
Record adump := mkDump {
  du_indiv : list (N * N * adata * N);                       (* validator, epoch, data, sig *)
  du_votes : list (N * N * adata);                           (* aggPerValidator *)
  du_votes_nil : bool;                                       (* the Go map is nil *)
  du_aggs  : list (adata * (list aggregate * bytes * list aggregate));  (* Aggregates, Participants, Extra *)
  du_datas : list adata
}.
Inductive aobs :=
| OAdd (r : gores unit)
| OSearch (r : gores (list att))
| OPrune (r : gores unit)
| ODump (d : adump).

Definition indiv_eqb : (N * N * adata * N) -> (N * N * adata * N) -> bool :=
  pair_eqb (pair_eqb (pair_eqb N.eqb N.eqb) data_eqb) N.eqb.
Definition vote_eqb : (N * N * adata) -> (N * N * adata) -> bool := pair_eqb (pair_eqb N.eqb N.eqb) data_eqb.
Definition aggs_eqb : (adata * (list aggregate * bytes * list aggregate)) -> _ -> bool :=
  pair_eqb data_eqb (pair_eqb (pair_eqb (list_eqb aggr_eqb) bytes_eqb) (list_eqb aggr_eqb)).

Definition impl_dump_ok (p : apool) (d : adump) : bool :=
  perm_eqb indiv_eqb (map (fun kv => (fst (fst kv), snd (fst kv), fst (snd kv), snd (snd kv))) (p_indiv p)) (du_indiv d)
  && perm_eqb vote_eqb (match p_aggpv p with None => [] | Some m => map (fun kv => (fst (fst kv), snd (fst kv), snd kv)) m end) (du_votes d)
  && Bool.eqb (match p_aggpv p with None => true | Some _ => false end) (du_votes_nil d)
  && perm_eqb aggs_eqb (map (fun kv => (fst kv, (m_aggs (snd kv), m_parts (snd kv), m_extra (snd kv)))) (p_agg p)) (du_aggs d)
  && perm_eqb data_eqb (map fst (p_datas p)) (du_datas d).

Fixpoint arun_impl (fx : fixes) (p : apool) (steps : list (aop * aobs)) : bool :=
  match steps with
  | [] => true
  | (AAdd a c, OAdd r) :: rest =>
      let m := add_attestation_gen fx p a c in
      add_agrees m r && match m with Ok (p', _) => arun_impl fx p' rest | _ => true end
  | (ASearch s i, OSearch r) :: rest =>
      agree (perm_eqb att_eqb) (search_gen fx p s i) r
      && match r with GoOk _ => arun_impl fx p rest | _ => true end
  | (APrune e, OPrune r) :: rest =>
      match r with GoOk _ => arun_impl fx (prune p e) rest | _ => false end
  | (ADump, ODump d) :: rest => impl_dump_ok p d && arun_impl fx p rest
  | _ => false
  end.

Definition spec_dump_ok (s : aspec) (d : adump) : bool :=
  perm_eqb indiv_eqb (map (fun va => (fst va, tepoch (snd va), a_data (snd va), a_sig (snd va))) (as_singles s)) (du_indiv d)
  && perm_eqb (pair_eqb data_eqb aggr_eqb)
       (map (fun ac => (a_data (fst ac), (a_bits (fst ac), a_sig (fst ac)))) (as_kept s))
       (flat_map (fun kv => map (fun g => (fst kv, g)) (fst (fst (snd kv)))) (du_aggs d)).

Fixpoint arun_spec (s : aspec) (steps : list (aop * aobs)) : bool :=
  match steps with
  | [] => true
  | (AAdd a c, OAdd r) :: rest =>
      let '(s', ok) := as_add s a c in
      spec_add_agrees ok r && arun_spec s' rest
  | (ASearch sl i, OSearch r) :: rest =>
      match r with GoOk l => perm_eqb att_eqb (as_search s sl i) l && arun_spec s rest | _ => false end
  | (APrune e, OPrune r) :: rest =>
      match r with GoOk _ => arun_spec (as_prune s e) rest | _ => false end
  | (ADump, ODump d) :: rest => spec_dump_ok s d && arun_spec s rest
  | _ => false
  end.
Definition aop_in_domain (st : aop * aobs) : bool :=
  match fst st with AAdd a _ => wf_bitsb (a_bits a) | _ => true end.

(* ------------------------------------------------------------------------------------------------ *)
(** * Slashing and exit pools *)
Inductive kobs := KOAdd (r : gores unit) | KOAll (r : gores (list kitem)).
Fixpoint krun_impl (p : kpool) (steps : list (kop * kobs)) : bool :=
  match steps with
  | [] => true
  | (KAdd x, KOAdd r) :: rest =>
      let m := kp_add p x in
      add_agrees m r && match m with Ok (p', _) => krun_impl p' rest | _ => true end
  | (KAll, KOAll r) :: rest =>
      match r with GoOk l => perm_eqb kitem_eqb (kp_all p) l && krun_impl p rest | _ => false end
  | _ => false
  end.
Fixpoint krun_spec (s : kspec) (steps : list (kop * kobs)) : bool :=
  match steps with
  | [] => true
  | (KAdd x, KOAdd r) :: rest =>
      let '(s', ok) := ks_add s x in spec_add_agrees ok r && krun_spec s' rest
  | (KAll, KOAll r) :: rest =>
      match r with GoOk l => perm_eqb kitem_eqb (ks_all s) l && krun_spec s rest | _ => false end
  | _ => false
  end.

(* ------------------------------------------------------------------------------------------------ *)
(** * Sync committee pool *)
Inductive sobs :=
| SOAdd (r : gores unit)
| SOReset (r : gores unit)
| SOSelect (r : gores (list smsg))
| SOContribs (l : list (bytes * N))
| SOCur (slot : N).

Fixpoint srun_impl (fx : fixes) (s : spool) (steps : list (sop * sobs)) : bool :=
  match steps with
  | [] => true
  | (SAddMsg m, SOAdd r) :: rest =>
      let o := add_msg s m in
      add_agrees o r && match o with Ok (s', _) => srun_impl fx s' rest | _ => true end
  | (SAddCon c, SOAdd r) :: rest =>
      let o := add_contrib s c in
      add_agrees o r && match o with Ok (s', _) => srun_impl fx s' rest | _ => true end
  | (SReset slot, SOReset r) :: rest =>
      match r with GoOk _ => srun_impl fx (reset_gen fx s slot) rest | _ => false end
  | (SSelect pos root ms, SOSelect r) :: rest =>
      agree (list_eqb smsg_eqb) (select_gen fx (get_msg s pos) root ms) r
      && match r with GoOk _ => srun_impl fx s rest | _ => true end
  | (SContribs pos root sub, SOContribs l) :: rest =>
      list_eqb aggr_eqb (contribs_at s pos root sub) l && srun_impl fx s rest
  | (SCur, SOCur c) :: rest => (s_cur s =? c) && srun_impl fx s rest
  | _ => false
  end.
Fixpoint srun_spec (s : sspec) (steps : list (sop * sobs)) : bool :=
  match steps with
  | [] => true
  | (SAddMsg m, SOAdd r) :: rest =>
      let '(s', ok) := ss_add_msg s m in spec_add_agrees ok r && srun_spec s' rest
  | (SAddCon c, SOAdd r) :: rest =>
      let '(s', ok) := ss_add_con s c in spec_add_agrees ok r && srun_spec s' rest
  | (SReset slot, SOReset r) :: rest =>
      match r with GoOk _ => srun_spec (ss_reset s slot) rest | _ => false end
  | (SSelect pos root ms, SOSelect r) :: rest =>
      match r with GoOk l => list_eqb smsg_eqb (ss_select s pos root ms) l && srun_spec s rest | _ => false end
  | (SContribs pos root sub, SOContribs l) :: rest =>
      list_eqb aggr_eqb (ss_contribs s pos root sub) l && srun_spec s rest
  | (SCur, SOCur c) :: rest => (ss_cur s =? c) && srun_spec s rest
  | _ => false
  end.

(* ------------------------------------------------------------------------------------------------ *)
Inductive pcase :=
| CAtt (steps : list (aop * aobs))
| CKeyed (steps : list (kop * kobs))
| CSync (steps : list (sop * sobs)).

Definition impl_ok (c : pcase) : bool :=
  match c with
  | CAtt steps => arun_impl fixed ap_init steps
  | CKeyed steps => krun_impl kp_init steps
  | CSync steps => srun_impl fixed sp_init steps
  end.
Definition spec_ok (c : pcase) : bool :=
  match c with
  | CAtt steps => if forallb aop_in_domain steps then arun_spec as_init steps else true
  | CKeyed steps => krun_spec ks_init steps
  | CSync steps => srun_spec ss_init steps
  end.
(* the same sequences on the model of the pinned snapshot (used by the [_refuted] witnesses) *)
Definition impl_ok_gen (fx : fixes) (c : pcase) : bool :=
  match c with
  | CAtt steps => arun_impl fx (ap_init_gen fx) steps
  | CKeyed steps => krun_impl kp_init steps
  | CSync steps => srun_impl fx (sp_init_gen fx) steps
  end.

Fixpoint mism (i : N) (cs : list pcase) : list (N * N) :=
  match cs with
  | [] => []
  | c :: cs' =>
      let r := (if impl_ok c then 0 else 1) + (if spec_ok c then 0 else 2) in
      if r =? 0 then mism (i + 1) cs' else (i, r) :: mism (i + 1) cs'
  end.
Definition mismatches (cs : list pcase) : list (N * N) := mism 0 cs.
